import Proofs.Lemmas.Genesis
import Proofs.Lemmas.DepositTree
/-! C13: the code-shaped model of `phase0.GenesisFromEth1` refines the specification's
`initialize_beacon_state_from_eth1` (per deposit, along the deposit loop with the incremental deposit root, and as a
whole), in the domain without `uint64` overflow. -/
namespace Zrnt.Proofs.Genesis
open Zrnt.Beacon Zrnt.Beacon.Spec Zrnt.Beacon.Genesis

/-- the reading of zrnt's `ignoreSignaturesAndProofs` flag on the specification side: every decodable signature counts as valid -/
def adj (ignore : Bool) (d : DepositIn) : DepositIn := if ignore then { d with verifyOk := true } else d

theorem adj_fields (ignore : Bool) (d : DepositIn) :
    (adj ignore d).pubkey = d.pubkey ∧ (adj ignore d).withdrawal_credentials = d.withdrawal_credentials ∧
    (adj ignore d).amount = d.amount ∧ (adj ignore d).signature = d.signature ∧ (adj ignore d).proof = d.proof ∧
    (adj ignore d).pkOk = d.pkOk ∧ (adj ignore d).sigDecodes = d.sigDecodes ∧
    (adj ignore d).verifyOk = (ignore || d.verifyOk) := by
  unfold adj; cases ignore <;> simp

theorem htr_adj (ignore : Bool) (d : DepositIn) : htrDepositData (adj ignore d) = htrDepositData d := by
  obtain ⟨h1, h2, h3, h4, _⟩ := adj_fields ignore d
  unfold htrDepositData; rw [h1, h2, h3, h4]

theorem addValidator_eq (cfg : Config) (s : State) (d : DepositIn) :
    Impl.addValidator cfg s d.pubkey d.withdrawal_credentials d.amount =
      { s with validators := s.validators ++ [get_validator_from_deposit cfg d], balances := s.balances ++ [d.amount] } := by
  unfold Impl.addValidator get_validator_from_deposit
  have : (if d.amount - d.amount % cfg.EFFECTIVE_BALANCE_INCREMENT > cfg.MAX_EFFECTIVE_BALANCE then cfg.MAX_EFFECTIVE_BALANCE
      else d.amount - d.amount % cfg.EFFECTIVE_BALANCE_INCREMENT) =
      min (d.amount - d.amount % cfg.EFFECTIVE_BALANCE_INCREMENT) cfg.MAX_EFFECTIVE_BALANCE := by
    split <;> omega
  simp only [this]

/-- one deposit: the code-shaped `ProcessDeposit` does what the specification's `process_deposit` does, as long as
nothing overflows (the deposit index and the topped-up balance stay below 2^64) -/
theorem processDeposit_refines (cfg : Config) (ignore : Bool) (s : State) (d : DepositIn)
    (hidx : s.eth1_deposit_index + 1 < 2 ^ 64)
    (hbal : ∀ (i b : Nat), s.balances[i]? = some b → b + d.amount < 2 ^ 64) :
    (process_deposit cfg (!ignore) s (adj ignore d)).toOption = Impl.processDeposit cfg ignore s d := by
  obtain ⟨a1, a2, a3, a4, a5, a6, a7, a8⟩ := adj_fields ignore d
  unfold process_deposit Impl.processDeposit
  rw [htr_adj, a5, a1, a3]
  simp only [require, invalid, u64, bind, Except.bind, pure, Except.pure, Impl.wrap64]
  by_cases hproof : (!ignore && !Merkle.isValidMerkleBranch H2 (htrDepositData d) d.proof (DEPOSIT_CONTRACT_TREE_DEPTH + 1)
      s.eth1_deposit_index s.eth1_data.deposit_root) = true
  · simp only [hproof, if_true]
    have : (!(!ignore) || Merkle.isValidMerkleBranch H2 (htrDepositData d) d.proof (DEPOSIT_CONTRACT_TREE_DEPTH + 1)
      s.eth1_deposit_index s.eth1_data.deposit_root) = false := by
      cases ignore <;> simp_all
    simp only [this]
    rfl
  · have : (!(!ignore) || Merkle.isValidMerkleBranch H2 (htrDepositData d) d.proof (DEPOSIT_CONTRACT_TREE_DEPTH + 1)
      s.eth1_deposit_index s.eth1_data.deposit_root) = true := by
      cases ignore <;> simp_all
    simp only [hproof, this, if_true, hidx, Nat.mod_eq_of_lt hidx]
    have hgv : get_validator_from_deposit cfg (adj ignore d) = get_validator_from_deposit cfg d := by
      unfold get_validator_from_deposit; rw [a1, a2, a3]
    cases hf : List.findIdx? (fun v => decide (v.pubkey = d.pubkey)) s.validators with
    | none =>
      simp only [DepositIn.sigValid, a6, a7, a8, hgv, addValidator_eq]
      cases hpk : d.pkOk <;> cases hsd : d.sigDecodes <;> cases hig : ignore <;> cases hv : d.verifyOk <;>
        simp [Except.toOption]
    | some i =>
      simp only [increase_balance, idx, bind, Except.bind, u64, pure, Except.pure, invalid]
      cases hb : s.balances[i]? with
      | none => simp [Except.toOption, throw, throwThe, MonadExceptOf.throw]
      | some b =>
        have := hbal i b hb
        have this' : b + d.amount < 18446744073709551616 := this
        simp [Except.toOption, this', Nat.mod_eq_of_lt this']

open Zrnt.Proofs.DepositTree in
theorem incremental_deposit_root_aux (leaves : List Bytes) (hlen : leaves.length < 2 ^ 32) :
    (leaves.foldl (Merkle.Inc.push H2) (Merkle.Inc.empty ZERO32 DEPOSIT_CONTRACT_TREE_DEPTH)).root H2 zeroFn lenNode =
      depositListRoot leaves := by
  have inv := foldl_push_spec H2 ZERO32 DEPOSIT_CONTRACT_TREE_DEPTH leaves [] (Merkle.Inc.empty ZERO32 DEPOSIT_CONTRACT_TREE_DEPTH)
    (brInv_empty H2 ZERO32 DEPOSIT_CONTRACT_TREE_DEPTH) (by simpa [DEPOSIT_CONTRACT_TREE_DEPTH] using hlen)
  simp only [List.nil_append] at inv
  have hc := inv.count
  have := root_spec H2 ZERO32 zeroFn zeroFn_eq lenNode inv (by rw [← hc]; simpa [DEPOSIT_CONTRACT_TREE_DEPTH] using hlen)
  rw [depositListRoot, Merkle.listRoot, treeRootZ_eq_spec H2 ZERO32 zeroFn zeroFn_eq]
  simpa using this

variable {cfg : Config} {cp : Bool} {s s' : State} {d : DepositIn}

/-- `process_deposit` advances the deposit index by one and leaves `eth1_data` alone -/
theorem process_deposit_frame (h : process_deposit cfg cp s d = .ok s') :
    s'.eth1_deposit_index = s.eth1_deposit_index + 1 ∧ s'.eth1_data = s.eth1_data := by
  unfold process_deposit at h
  simp only [require, invalid, u64, bind, Except.bind, pure, Except.pure] at h
  split at h
  · cases h
  · split at h
    · cases h
    · rename_i x y z w
      split at w
      · cases w
        split at h
        · split at h <;> (cases h; exact ⟨rfl, rfl⟩)
        · simp only [increase_balance, idx, bind, Except.bind, u64, pure, Except.pure, invalid] at h
          split at h
          · cases h
          · split at h
            · cases h
            · rename_i q r
              split at r
              · cases r; cases h; exact ⟨rfl, rfl⟩
              · cases r
      · cases w

/-- every balance is at most `B` -/
def BalBound (s : State) (B : Nat) : Prop := ∀ (i b : Nat), s.balances[i]? = some b → b ≤ B

theorem balBound_step {B : Nat} (hb : BalBound s B) (h : process_deposit cfg cp s d = .ok s') :
    BalBound s' (B + d.amount) := by
  intro i b hib
  rcases process_deposit_cases h with ⟨_, _, _, hbal⟩ | ⟨_, _, _, hbal⟩ | ⟨j, b0, _, hb0, _, _, hbal⟩
  · rw [hbal] at hib
    by_cases hi : i < s.balances.length
    · rw [List.getElem?_append_left hi] at hib
      have := hb i b hib; omega
    · rw [List.getElem?_append_right (by omega)] at hib
      have : i - s.balances.length = 0 ∨ i - s.balances.length ≠ 0 := by omega
      rcases this with h0 | h0
      · rw [h0] at hib; simp at hib; omega
      · have : ([d.amount] : List Nat)[i - s.balances.length]? = none := by
          apply List.getElem?_eq_none; simp; omega
        rw [this] at hib; cases hib
  · rw [hbal] at hib; have := hb i b hib; omega
  · rw [hbal] at hib
    by_cases hij : j = i
    · subst hij
      have hlt : j < s.balances.length := by
        by_contra hn
        rw [List.getElem?_eq_none (by omega)] at hb0; cases hb0
      rw [List.getElem?_set_self hlt] at hib
      cases hib
      have := hb j b0 hb0; omega
    · rw [List.getElem?_set_ne hij] at hib
      have := hb i b hib; omega

open Zrnt.Proofs.DepositTree in
/-- the incremental root after pushing the first `k` leaves is the specification's list root of those leaves -/
theorem inc_root_take (leaves : List Bytes) (hlen : leaves.length < 2 ^ 32) (k : Nat) :
    ((leaves.take k).foldl (Merkle.Inc.push H2) (Merkle.Inc.empty ZERO32 DEPOSIT_CONTRACT_TREE_DEPTH)).root H2 zeroFn lenNode =
      depositListRoot (leaves.take k) := by
  have hk : (leaves.take k).length < 2 ^ 32 := by
    have : (leaves.take k).length ≤ leaves.length := by simp [List.length_take]
    omega
  have h1 := incremental_deposit_root_aux (leaves.take k) hk
  exact h1

def amountsSum (l : List DepositIn) : Nat := (l.map (·.amount)).sum

theorem sum_take_le (l : List Nat) : ∀ k, (l.take k).sum ≤ l.sum := by
  induction l with
  | nil => intro k; simp
  | cons a t ih =>
    intro k
    cases k with
    | zero => simp
    | succ k => simp only [List.take_succ_cons, List.sum_cons]; have := ih k; omega

theorem amountsSum_take_succ (all : List DepositIn) (index : Nat) (d : DepositIn) (rest : List DepositIn)
    (h : all.drop index = d :: rest) :
    amountsSum (all.take (index + 1)) = amountsSum (all.take index) + d.amount ∧
    amountsSum (all.take (index + 1)) ≤ amountsSum all ∧ all.drop (index + 1) = rest ∧ index < all.length ∧
    all[index]? = some d := by
  have hlt : index < all.length := by
    by_contra hn
    rw [List.drop_eq_nil_of_le (by omega)] at h; cases h
  have hd : all[index]? = some d := by
    have := congrArg List.head? h
    simpa [List.head?_drop] using this
  have hrest : all.drop (index + 1) = rest := by
    have := congrArg List.tail h
    simpa [List.tail_drop] using this
  have htake : all.take (index + 1) = all.take index ++ [d] := by
    rw [List.take_add_one, hd]; rfl
  refine ⟨?_, ?_, hrest, hlt, hd⟩
  · unfold amountsSum; rw [htake]; simp
  · unfold amountsSum
    have := sum_take_le (all.map (·.amount)) (index + 1)
    rw [List.map_take]
    exact this

/-- **The deposit loop of the code-shaped model refines the specification's deposit loop**: same states (or both
fail), and after at least one deposit the state's deposit root is the incremental root. -/
theorem depositLoop_refines (cfg : Config) (ignore : Bool) (all : List DepositIn)
    (hlen : all.length < 2 ^ 32) (hsum : amountsSum all < 2 ^ 64) :
    ∀ (rest : List DepositIn) (index : Nat) (s : State) (inc : Merkle.Inc Bytes),
      all.drop index = rest →
      inc = ((all.map htrDepositData).take index).foldl (Merkle.Inc.push H2) (Merkle.Inc.empty ZERO32 DEPOSIT_CONTRACT_TREE_DEPTH) →
      s.eth1_deposit_index = index → BalBound s (amountsSum (all.take index)) →
      (index ≠ 0 → s.eth1_data.deposit_root = inc.root H2 zeroFn lenNode) →
      ∃ r : Option (State × Merkle.Inc Bytes),
        Impl.depositLoop cfg ignore s inc rest = r ∧
        (processGenesisDeposits cfg (!ignore) (all.map htrDepositData) index s (rest.map (adj ignore))).toOption = r.map (·.1) ∧
        (∀ s' inc', r = some (s', inc') → all ≠ [] → s'.eth1_data.deposit_root = inc'.root H2 zeroFn lenNode) := by
  intro rest
  induction rest with
  | nil =>
    intro index s inc hdrop _ _ _ hroot
    refine ⟨some (s, inc), rfl, rfl, ?_⟩
    intro s' inc' h hne
    cases h
    apply hroot
    intro h0
    subst h0
    simp at hdrop
    exact hne hdrop
  | cons d rest ih =>
    intro index s inc hdrop hinc hidx hbb _
    obtain ⟨hs1, hs2, hrest, hlt, hd⟩ := amountsSum_take_succ all index d rest hdrop
    -- the incremental root after this push is the spec's list root of the first index+1 leaves
    have hleaf : ((all.map htrDepositData).take (index + 1)) = (all.map htrDepositData).take index ++ [htrDepositData d] := by
      rw [List.take_add_one]; simp [hd]
    have hinc1 : inc.push H2 (htrDepositData d) =
        ((all.map htrDepositData).take (index + 1)).foldl (Merkle.Inc.push H2) (Merkle.Inc.empty ZERO32 DEPOSIT_CONTRACT_TREE_DEPTH) := by
      rw [hleaf, List.foldl_append, ← hinc]; rfl
    have hroot1 : (inc.push H2 (htrDepositData d)).root H2 zeroFn lenNode = depositListRoot ((all.map htrDepositData).take (index + 1)) := by
      rw [hinc1]; exact inc_root_take _ (by simpa using hlen) _
    simp only [Impl.depositLoop, processGenesisDeposits, List.map_cons, bind, Except.bind]
    rw [← hroot1]
    set s1 : State := { s with eth1_data := { s.eth1_data with deposit_root := (inc.push H2 (htrDepositData d)).root H2 zeroFn lenNode } } with hs1def
    have href := processDeposit_refines cfg ignore s1 d (by simp [hs1def, hidx]; omega) (by
      intro i b hib
      have := hbb i b hib
      omega)
    cases hm : Impl.processDeposit cfg ignore s1 d with
    | none =>
      rw [hm] at href
      refine ⟨none, rfl, ?_, by intro _ _ h; cases h⟩
      cases hp : process_deposit cfg (!ignore) s1 (adj ignore d) with
      | error e => rfl
      | ok s2 => rw [hp] at href; simp [Except.toOption] at href
    | some s2 =>
      rw [hm] at href
      cases hp : process_deposit cfg (!ignore) s1 (adj ignore d) with
      | error e => rw [hp] at href; simp [Except.toOption] at href
      | ok s2' =>
        rw [hp] at href
        simp only [Except.toOption, Option.some.injEq] at href
        subst href
        obtain ⟨f1, f2⟩ := process_deposit_frame hp
        have hbb2 : BalBound s2' (amountsSum (all.take (index + 1))) := by
          have := balBound_step (s := s1) (B := amountsSum (all.take index)) hbb hp
          rw [hs1]; simpa [adj_fields] using this
        obtain ⟨r, hr1, hr2, hr3⟩ := ih (index + 1) s2' (inc.push H2 (htrDepositData d)) hrest hinc1
          (by rw [f1]; simp [hs1def, hidx]) hbb2 (by intro _; rw [f2])
        exact ⟨r, hr1, hr2, hr3⟩

theorem activationLoop_eq (cfg : Config) (s : State) : Impl.activationLoop cfg s = processGenesisActivations cfg s := by
  unfold Impl.activationLoop processGenesisActivations
  congr 1
  congr 1
  funext v b
  unfold genesisActivate
  have : (if b - b % cfg.EFFECTIVE_BALANCE_INCREMENT > cfg.MAX_EFFECTIVE_BALANCE then cfg.MAX_EFFECTIVE_BALANCE
      else b - b % cfg.EFFECTIVE_BALANCE_INCREMENT) = min (b - b % cfg.EFFECTIVE_BALANCE_INCREMENT) cfg.MAX_EFFECTIVE_BALANCE := by
    split <;> omega
  simp only [this]

/-- **`GenesisFromEth1` refines `initialize_beacon_state_from_eth1`.** Whenever the code-shaped model of
`phase0.GenesisFromEth1` returns a state, the specification returns the same state on the same deposits
(with `ignoreSignaturesAndProofs` read as: proofs unchecked, every decodable signature valid) — provided nothing
overflows: `eth1_timestamp + GENESIS_DELAY < 2^64`, fewer than `2^32` deposits, total deposited amount `< 2^64`. -/
theorem genesisFromEth1_refines (cfg : Config) (hash : Bytes) (time : Nat) (deps : List DepositIn) (ignore : Bool)
    (s : State) (h : Impl.genesisFromEth1 cfg hash time deps ignore = some s)
    (htime : time + cfg.GENESIS_DELAY < 2 ^ 64) (hlen : deps.length < 2 ^ 32) (hsum : amountsSum deps < 2 ^ 64)
    (hspe : 1 ≤ cfg.SLOTS_PER_EPOCH) :
    initialize_beacon_state_from_eth1 cfg hash time (deps.map (adj ignore)) (!ignore) = .ok s := by
  unfold Impl.genesisFromEth1 at h
  simp only [bind, Option.bind, Impl.wrap64, Nat.mod_eq_of_lt htime,
    Nat.mod_eq_of_lt (Nat.lt_trans hlen (by decide : 2 ^ 32 < 2 ^ 64))] at h
  obtain ⟨r, hr1, hr2, hr3⟩ := depositLoop_refines cfg ignore deps hlen hsum deps 0
    (genesisBlank cfg hash (time + cfg.GENESIS_DELAY) deps.length) (Merkle.Inc.empty ZERO32 DEPOSIT_CONTRACT_TREE_DEPTH)
    rfl rfl rfl (by intro i b hb; simp [genesisBlank] at hb) (by intro h0; exact absurd rfl h0)
  rw [hr1] at h
  cases r with
  | none => simp at h
  | some p =>
    obtain ⟨s1, inc1⟩ := p
    simp only [Option.map_some] at hr2
    simp only [] at h
    split at h
    · cases h
    · rename_i hnotfew
      split at h
      · cases h
      · simp only [pure, Option.some.injEq] at h
        have hne : deps ≠ [] := by
          intro he
          subst he
          simp only [Impl.depositLoop, Option.some.injEq, Prod.mk.injEq] at hr1
          obtain ⟨e1, _⟩ := hr1
          rw [← e1] at hnotfew
          simp [genesisBlank] at hnotfew
          omega
        have hroot := hr3 s1 inc1 rfl hne
        unfold initialize_beacon_state_from_eth1
        have hmapl : (deps.map (adj ignore)).map htrDepositData = deps.map htrDepositData := by
          rw [List.map_map]; apply List.map_congr_left; intro d _; exact htr_adj ignore d
        simp only [u64, htime, if_true, bind, Except.bind, pure, Except.pure, List.length_map, hmapl]
        cases hp : processGenesisDeposits cfg (!ignore) (List.map htrDepositData deps) 0
            (genesisBlank cfg hash (time + cfg.GENESIS_DELAY) deps.length) (List.map (adj ignore) deps) with
        | error e => rw [hp] at hr2; simp [Except.toOption] at hr2
        | ok s1' =>
          rw [hp] at hr2
          simp only [Except.toOption, Option.some.injEq] at hr2
          subst hr2
          simp only []
          rw [← h, ← hroot, activationLoop_eq]

/-- the deposit loop of the specification establishes `Fresh` (registry and balances aligned, …) -/
theorem fresh_after_deposits {cfg : Config} {cp : Bool} {leaves : List Bytes} {hash : Bytes} {t n : Nat}
    {ds : List DepositIn} {s1 : State}
    (h : processGenesisDeposits cfg cp leaves 0 (genesisBlank cfg hash t n) ds = .ok s1) : Fresh s1 :=
  deposits_inv Fresh (fun _ _ hp => ⟨hp.len, hp.far, hp.nodup⟩) (fun _ _ _ hp hd => fresh_step hp hd) _ _ _ _ _
    (fresh_blank _ _ _) h

/-- **`GenesisFromEth1` = `initialize_beacon_state_from_eth1`, up to exactly the two documented refusals.**
In the domain without `uint64` overflow the code-shaped model returns precisely the specification's genesis state,
except that it refuses (returns an error) when that state has fewer validators than `SLOTS_PER_EPOCH` or no active
validator — and fails exactly when the specification fails (an invalid deposit proof). -/
theorem genesisFromEth1_eq_spec (cfg : Config) (hash : Bytes) (time : Nat) (deps : List DepositIn) (ignore : Bool)
    (htime : time + cfg.GENESIS_DELAY < 2 ^ 64) (hlen : deps.length < 2 ^ 32) (hsum : amountsSum deps < 2 ^ 64)
    (hspe : 1 ≤ cfg.SLOTS_PER_EPOCH) :
    Impl.genesisFromEth1 cfg hash time deps ignore =
      match initialize_beacon_state_from_eth1 cfg hash time (deps.map (adj ignore)) (!ignore) with
      | .ok s =>
        if s.validators.length < cfg.SLOTS_PER_EPOCH ∨ (get_active_validator_indices s GENESIS_EPOCH).isEmpty = true then none
        else some s
      | .error _ => none := by
  obtain ⟨r, hr1, hr2, hr3⟩ := depositLoop_refines cfg ignore deps hlen hsum deps 0
    (genesisBlank cfg hash (time + cfg.GENESIS_DELAY) deps.length) (Merkle.Inc.empty ZERO32 DEPOSIT_CONTRACT_TREE_DEPTH)
    rfl rfl rfl (by intro i b hb; simp [genesisBlank] at hb) (by intro h0; exact absurd rfl h0)
  have hmapl : (deps.map (adj ignore)).map htrDepositData = deps.map htrDepositData := by
    rw [List.map_map]; apply List.map_congr_left; intro d _; exact htr_adj ignore d
  unfold Impl.genesisFromEth1 initialize_beacon_state_from_eth1
  simp only [bind, Option.bind, Impl.wrap64, Nat.mod_eq_of_lt htime,
    Nat.mod_eq_of_lt (Nat.lt_trans hlen (by decide : 2 ^ 32 < 2 ^ 64)),
    u64, htime, if_true, Except.bind, pure, Except.pure, List.length_map, hmapl]
  rw [hr1]
  cases r with
  | none =>
    simp only [Option.map_none] at hr2
    cases hp : processGenesisDeposits cfg (!ignore) (List.map htrDepositData deps) 0
        (genesisBlank cfg hash (time + cfg.GENESIS_DELAY) deps.length) (List.map (adj ignore) deps) with
    | error e => rfl
    | ok s1' => rw [hp] at hr2; simp [Except.toOption] at hr2
  | some p =>
    obtain ⟨s1, inc1⟩ := p
    simp only [Option.map_some] at hr2
    cases hp : processGenesisDeposits cfg (!ignore) (List.map htrDepositData deps) 0
        (genesisBlank cfg hash (time + cfg.GENESIS_DELAY) deps.length) (List.map (adj ignore) deps) with
    | error e => rw [hp] at hr2; simp [Except.toOption] at hr2
    | ok s1' =>
      rw [hp] at hr2
      simp only [Except.toOption, Option.some.injEq] at hr2
      subst hr2
      have hfresh := fresh_after_deposits hp
      have hlenact : (processGenesisActivations cfg s1').validators.length = s1'.validators.length := by
        simp [processGenesisActivations, List.length_zipWith, hfresh.len]
      simp only []
      by_cases hne : deps = []
      · -- no deposits: no validators, both sides refuse
        subst hne
        simp only [Impl.depositLoop, Option.some.injEq, Prod.mk.injEq] at hr1
        obtain ⟨e1, _⟩ := hr1
        have hz : s1'.validators.length = 0 := by rw [← e1]; simp [genesisBlank]
        have h1 : s1'.validators.length < cfg.SLOTS_PER_EPOCH := by omega
        simp [h1, hlenact]
      · have hroot := hr3 s1' inc1 rfl hne
        rw [← hroot]
        simp only [activationLoop_eq, hlenact]
        by_cases hfew : s1'.validators.length < cfg.SLOTS_PER_EPOCH
        · simp [hfew]
        · simp only [hfew, if_false, false_or]

end Zrnt.Proofs.Genesis
