import Proofs.Lemmas.BeaconBlockP0Dep
/-!
# C01/C03 — the premise `OpSteps` discharged for altair … deneb blocks

`AltInv k` = `P0DInv k` (which no longer fixes the fork) together with `AltExtra`: the block-root vector, both
participation lists (registry length, bytes below 256; a deposit appends `0`), the total active balance `T` of the block's
pre-state (kept by exits and slashings — `SameCommittees` —, by an appended inactive validator and by every operation that
leaves the registry alone), the context's stake, square root, effective balances (extended by `ProcessDeposit`) and
sync-committee indices (found through the pubkey cache, which only grows). One balance unit
`MAX_VALIDATORS_PER_COMMITTEE · 2·Bm` covers the proposer reward of an attestation and the rewards of a whole sync
aggregate (`AltConst`).
-/
set_option linter.unusedSimpArgs false
set_option linter.unusedVariables false
namespace Zrnt.Proofs.BlockM
open Zrnt Zrnt.Beacon Zrnt.Beacon.Spec Zrnt.Beacon.BlockImpl Zrnt.Beacon.BlockM Zrnt.Proofs.BeaconBlock Zrnt.Proofs.Lemmas

/-- every flag list is the flag list of a mask below 8, as far as the three flags are concerned -/
theorem exists_mask (c : Nat → Bool) : ∃ m, m < 8 ∧ ∀ i, i < 3 → c i = bitOf m i := by
  have key : ∀ m, m < 8 → c 0 = bitOf m 0 → c 1 = bitOf m 1 → c 2 = bitOf m 2 → ∃ m, m < 8 ∧ ∀ i, i < 3 → c i = bitOf m i := by
    intro m hm a0 a1 a2
    refine ⟨m, hm, fun i hi => ?_⟩
    match i, hi with
    | 0, _ => exact a0
    | 1, _ => exact a1
    | 2, _ => exact a2
  cases h0 : c 0 <;> cases h1 : c 1 <;> cases h2 : c 2
  · exact key 0 (by decide) (by rw [h0]; decide) (by rw [h1]; decide) (by rw [h2]; decide)
  · exact key 4 (by decide) (by rw [h0]; decide) (by rw [h1]; decide) (by rw [h2]; decide)
  · exact key 2 (by decide) (by rw [h0]; decide) (by rw [h1]; decide) (by rw [h2]; decide)
  · exact key 6 (by decide) (by rw [h0]; decide) (by rw [h1]; decide) (by rw [h2]; decide)
  · exact key 1 (by decide) (by rw [h0]; decide) (by rw [h1]; decide) (by rw [h2]; decide)
  · exact key 5 (by decide) (by rw [h0]; decide) (by rw [h1]; decide) (by rw [h2]; decide)
  · exact key 3 (by decide) (by rw [h0]; decide) (by rw [h1]; decide) (by rw [h2]; decide)
  · exact key 7 (by decide) (by rw [h0]; decide) (by rw [h1]; decide) (by rw [h2]; decide)

/-- the participation loop of an altair attestation keeps the list length and the bytes below 256, and the reward
numerator grows by at most `R · 54` per attesting index -/
theorem apply_pure_keeps (cfg : Config) (s : State) (T R : Nat) (flags : List Nat)
    (hR : ∀ v ∈ s.validators, v.effective_balance / cfg.EFFECTIVE_BALANCE_INCREMENT *
      (cfg.EFFECTIVE_BALANCE_INCREMENT * cfg.BASE_REWARD_FACTOR / integer_squareroot T) ≤ R) :
    ∀ (indices part : List Nat) (num : Nat) (r : List Nat × Nat), (∀ e ∈ part, e < 256) →
      Block.attestation_apply_pure cfg s T flags indices part num = some r →
      r.1.length = part.length ∧ (∀ e ∈ r.1, e < 256) ∧ r.2 ≤ num + indices.length * (R * 54) := by
  intro indices
  induction indices with
  | nil =>
    intro part num r hb h
    unfold Block.attestation_apply_pure at h
    cases h
    exact ⟨rfl, hb, by simp⟩
  | cons i rest ih =>
    intro part num r hb h
    unfold Block.attestation_apply_pure at h
    cases hp : part[i]? with
    | none => rw [hp] at h; cases h
    | some e =>
      cases hv : s.validators[i]? with
      | none => rw [hp, hv] at h; cases h
      | some v =>
        rw [hp, hv] at h
        simp only [] at h
        obtain ⟨m, hm, hfl⟩ := exists_mask (fun f => flags.contains f)
        have he : e < 256 := hb e (List.mem_of_getElem? hp)
        have hbr := hR v (List.mem_of_getElem? hv)
        rw [flags_one_eq flags m e _ num he hm hfl] at h
        simp only [] at h
        generalize v.effective_balance / cfg.EFFECTIVE_BALANCE_INCREMENT *
          (cfg.EFFECTIVE_BALANCE_INCREMENT * cfg.BASE_REWARD_FACTOR / integer_squareroot T) = br at h hbr
        have h54 : (((if m / 1 % 2 = 1 ∧ e / 1 % 2 = 0 then 14 else 0) +
            if m / 2 % 2 = 1 ∧ e / 2 % 2 = 0 then 26 else 0) +
            if m / 4 % 2 = 1 ∧ e / 4 % 2 = 0 then 14 else 0) ≤ 54 := by
          split <;> split <;> split <;> omega
        have hle := Nat.mul_le_mul hbr h54
        generalize br * (((if m / 1 % 2 = 1 ∧ e / 1 % 2 = 0 then 14 else 0) +
            if m / 2 % 2 = 1 ∧ e / 2 % 2 = 0 then 26 else 0) +
            if m / 4 % 2 = 1 ∧ e / 4 % 2 = 0 then 14 else 0) = w at h hle
        obtain ⟨a1, a2, a3⟩ := ih (part.set i (e ||| m)) (num + w) r (by
          intro x hx
          rcases List.mem_or_eq_of_mem_set hx with h1 | h1
          · exact hb x h1
          · rw [h1]; exact or_lt_256 _ he _ hm) h
        refine ⟨by rw [a1, List.length_set], a2, ?_⟩
        simp only [List.length_cons]
        rw [Nat.add_mul, Nat.one_mul]
        omega


/-- the fields an operation of altair … deneb needs besides those of `P0DInv`, and which most operations leave alone -/
structure XFrame (s s' : State) : Prop where
  roots : s'.block_roots = s.block_roots
  partc : s'.current_epoch_participation = s.current_epoch_participation
  partp : s'.previous_epoch_participation = s.previous_epoch_participation
  sc : s'.current_sync_committee = s.current_sync_committee
  gt : s'.genesis_time = s.genesis_time
  nwi : s'.next_withdrawal_index = s.next_withdrawal_index
  nwv : s'.next_withdrawal_validator_index = s.next_withdrawal_validator_index
  blen : s'.balances.length = s.balances.length

/-- an accepted altair … deneb attestation: one participation list is rewritten (same length, bytes below 256) and the
proposer's balance grows by at most `bits · R · 54` -/
theorem altair_attestation_shape (cfg : Config) (s s' : State) (att : Attestation) (count : Option Nat) (committee : Option (List Nat))
    (proposer : Option Nat) (T R : Nat)
    (hR : ∀ v ∈ s.validators, v.effective_balance / cfg.EFFECTIVE_BALANCE_INCREMENT *
      (cfg.EFFECTIVE_BALANCE_INCREMENT * cfg.BASE_REWARD_FACTOR / integer_squareroot T) ≤ R)
    (hnd : ∀ c, committee = some c → c.Nodup)
    (hpc : ∀ e ∈ s.current_epoch_participation, e < 256) (hpp : ∀ e ∈ s.previous_epoch_participation, e < 256)
    (h : Block.process_attestation_altair_pure cfg s att count committee proposer T = some s') :
    s'.validators = s.validators ∧ s'.slot = s.slot ∧ s'.randao_mixes = s.randao_mixes ∧ s'.fork = s.fork ∧
    s'.slashings = s.slashings ∧ s'.eth1_data = s.eth1_data ∧ s'.eth1_deposit_index = s.eth1_deposit_index ∧
    s'.block_roots = s.block_roots ∧ s'.current_sync_committee = s.current_sync_committee ∧ s'.genesis_time = s.genesis_time ∧
    s'.next_withdrawal_index = s.next_withdrawal_index ∧ s'.next_withdrawal_validator_index = s.next_withdrawal_validator_index ∧
    s'.current_epoch_participation.length = s.current_epoch_participation.length ∧ (∀ e ∈ s'.current_epoch_participation, e < 256) ∧
    s'.previous_epoch_participation.length = s.previous_epoch_participation.length ∧ (∀ e ∈ s'.previous_epoch_participation, e < 256) ∧
    ∃ p b δ, s.balances[p]? = some b ∧ s'.balances = s.balances.set p (b + δ) ∧ δ ≤ att.aggregation_bits.length * (R * 54) := by
  unfold Block.process_attestation_altair_pure at h
  simp only [] at h
  by_cases ht : (!Block.attestation_timing_pure cfg s att.data) = true
  · simp only [ht, if_true] at h; cases h
  · simp only [ht, if_false] at h
    cases count with
    | none => cases h
    | some cnt =>
      simp only [] at h
      by_cases hidx : ¬ att.data.index < cnt
      · simp only [hidx, not_false_eq_true, if_true] at h; cases h
      · simp only [hidx, if_false] at h
        cases committee with
        | none => cases h
        | some c =>
          simp only [] at h
          by_cases hlen : att.aggregation_bits.length ≠ c.length
          · simp only [hlen, ne_eq, not_false_eq_true, if_true] at h; cases h
          · simp only [hlen, if_false] at h
            cases hfl : Block.participation_flag_indices_pure cfg s att.data (s.slot - att.data.slot) with
            | none => rw [hfl] at h; cases h
            | some flags =>
              rw [hfl] at h
              simp only [] at h
              have hil : (Block.attesting_indices_pure c att.aggregation_bits).length ≤ att.aggregation_bits.length := by
                unfold Block.attesting_indices_pure
                have h1 := eraseDups_of_nodup _ (participants_nodup c att.aggregation_bits (hnd c rfl))
                have h2 := participants_length_le c att.aggregation_bits
                unfold participants at h1 h2
                rw [insertionSort_length, h1]
                omega
              generalize Block.attesting_indices_pure c att.aggregation_bits = indices at h hil
              by_cases hvi : (!Block.valid_indexed_pure s indices att.sig_ok) = true
              · simp only [hvi, if_true] at h; cases h
              · simp only [hvi, if_false] at h
                by_cases hz : cfg.EFFECTIVE_BALANCE_INCREMENT = 0 ∨ integer_squareroot T = 0
                · simp only [hz, if_true] at h; cases h
                · simp only [hz, if_false] at h
                  have hpart : ∀ e ∈ (if decide (att.data.target.epoch = s.slot / cfg.SLOTS_PER_EPOCH) = true then s.current_epoch_participation
                      else s.previous_epoch_participation), e < 256 := by
                    split
                    · exact hpc
                    · exact hpp
                  cases happ : Block.attestation_apply_pure cfg s T flags indices
                      (if decide (att.data.target.epoch = s.slot / cfg.SLOTS_PER_EPOCH) = true then s.current_epoch_participation
                        else s.previous_epoch_participation) 0 with
                  | none => rw [happ] at h; cases h
                  | some r =>
                    rw [happ] at h
                    obtain ⟨k1, k2, k3⟩ := apply_pure_keeps cfg s T R flags hR indices _ 0 r hpart happ
                    cases proposer with
                    | none => cases h
                    | some p =>
                      simp only [Option.bind] at h
                      unfold Block.increase_balance_pure at h
                      have hδ : r.2 / ((WEIGHT_DENOMINATOR - PROPOSER_WEIGHT) * WEIGHT_DENOMINATOR / PROPOSER_WEIGHT) ≤ att.aggregation_bits.length * (R * 54) := by
                        have h1 : r.2 / ((WEIGHT_DENOMINATOR - PROPOSER_WEIGHT) * WEIGHT_DENOMINATOR / PROPOSER_WEIGHT) ≤ r.2 := Nat.div_le_self _ _
                        have h2 : indices.length * (R * 54) ≤ att.aggregation_bits.length * (R * 54) := Nat.mul_le_mul_right _ hil
                        omega
                      by_cases hcur : att.data.target.epoch = s.slot / cfg.SLOTS_PER_EPOCH
                      · simp only [hcur, decide_true, if_true] at h k1 k2
                        cases hb : s.balances[p]? with
                        | none => simp only [hb] at h; cases h
                        | some b =>
                          simp only [hb] at h
                          cases h
                          exact ⟨rfl, rfl, rfl, rfl, rfl, rfl, rfl, rfl, rfl, rfl, rfl, rfl, k1, k2, rfl, hpp, p, b, _, hb, rfl, hδ⟩
                      · simp only [hcur, decide_false, Bool.false_eq_true, if_false] at h k1 k2
                        cases hb : s.balances[p]? with
                        | none => simp only [hb] at h; cases h
                        | some b =>
                          simp only [hb] at h
                          cases h
                          exact ⟨rfl, rfl, rfl, rfl, rfl, rfl, rfl, rfl, rfl, rfl, rfl, rfl, rfl, hpc, k1, k2, p, b, _, hb, rfl, hδ⟩


/-- the balance loop of the sync aggregate keeps the list length and raises no balance by more than one participant
reward and one proposer reward per committee position -/
theorem sync_apply_bound (pr prr p : Nat) : ∀ (idxs : List Nat) (bits : List Bool) (b b' : List Nat) (B : Nat),
    (∀ x ∈ b, x ≤ B) → Block.sync_apply_pure pr prr p idxs bits b = some b' →
    b'.length = b.length ∧ ∀ x ∈ b', x ≤ B + idxs.length * (pr + prr) := by
  intro idxs
  induction idxs with
  | nil =>
    intro bits b b' B hB h
    unfold Block.sync_apply_pure at h
    cases h
    exact ⟨rfl, fun x hx => by have := hB x hx; omega⟩
  | cons vi rest ih =>
    intro bits b b' B hB h
    cases bits with
    | nil =>
      unfold Block.sync_apply_pure at h
      cases h
      exact ⟨rfl, fun x hx => by have := hB x hx; omega⟩
    | cons bit bits =>
      unfold Block.sync_apply_pure at h
      have hmul : (vi :: rest).length * (pr + prr) = rest.length * (pr + prr) + (pr + prr) := by
        simp only [List.length_cons]; rw [Nat.add_mul, Nat.one_mul]
      rw [hmul]
      cases hx : b[vi]? with
      | none => rw [hx] at h; cases h
      | some x =>
        rw [hx] at h
        simp only [] at h
        have hxB : x ≤ B := hB x (List.mem_of_getElem? hx)
        cases bit with
        | false =>
          simp only [Bool.false_eq_true, if_false] at h
          obtain ⟨a1, a2⟩ := ih bits _ b' B (mem_set_le _ _ _ _ hB (by split <;> omega)) h
          exact ⟨by rw [a1, List.length_set], fun y hy => by have := a2 y hy; omega⟩
        | true =>
          simp only [if_true] at h
          cases hy : (b.set vi (x + pr))[p]? with
          | none => rw [hy] at h; cases h
          | some y =>
            rw [hy] at h
            simp only [] at h
            have h1 : ∀ z ∈ b.set vi (x + pr), z ≤ B + pr :=
              mem_set_le b vi (x + pr) (B + pr) (fun z hz => by have := hB z hz; omega) (by omega)
            have hyB : y ≤ B + pr := h1 y (List.mem_of_getElem? hy)
            obtain ⟨a1, a2⟩ := ih bits _ b' (B + pr + prr)
              (mem_set_le _ _ _ _ (fun z hz => by have := h1 z hz; omega) (by omega)) h
            exact ⟨by rw [a1, List.length_set, List.length_set], fun z hz => by have := a2 z hz; omega⟩

theorem sync_apply_length (pr prr p : Nat) : ∀ (idxs : List Nat) (bits : List Bool) (b b' : List Nat),
    Block.sync_apply_pure pr prr p idxs bits b = some b' → b'.length = b.length := by
  intro idxs
  induction idxs with
  | nil => intro bits b b' h; unfold Block.sync_apply_pure at h; cases h; rfl
  | cons vi rest ih =>
    intro bits b b' h
    cases bits with
    | nil => unfold Block.sync_apply_pure at h; cases h; rfl
    | cons bit bits =>
      unfold Block.sync_apply_pure at h
      cases hx : b[vi]? with
      | none => rw [hx] at h; cases h
      | some x =>
        rw [hx] at h
        simp only [] at h
        cases bit with
        | false =>
          simp only [Bool.false_eq_true, if_false] at h
          rw [ih bits _ b' h, List.length_set]
        | true =>
          simp only [if_true] at h
          cases hy : (b.set vi (x + pr))[p]? with
          | none => rw [hy] at h; cases h
          | some y =>
            rw [hy] at h
            simp only [] at h
            rw [ih bits _ b' h, List.length_set, List.length_set]

/-- an accepted sync aggregate writes the balances only, each by at most `SYNC_COMMITTEE_SIZE` rewards more -/
theorem sync_shape (cfg : Config) (s s' : State) (agg : SyncAggregate) (T p : Nat)
    (hclen : ∀ c, s.current_sync_committee = some c → c.pubkeys.length = cfg.SYNC_COMMITTEE_SIZE)
    (h : Block.process_sync_aggregate_pure cfg s agg T p = some s') :
    ∃ b', s' = { s with balances := b' } ∧ b'.length = s.balances.length ∧
      ∀ B, (∀ x ∈ s.balances, x ≤ B) → ∀ x ∈ b', x ≤ B + cfg.SYNC_COMMITTEE_SIZE * ((Block.sync_rewards cfg T).1 + (Block.sync_rewards cfg T).2) := by
  unfold Block.process_sync_aggregate_pure at h
  cases hsc : s.current_sync_committee with
  | none => rw [hsc] at h; cases h
  | some committee =>
    rw [hsc] at h
    simp only [] at h
    repeat' split at h
    all_goals first | (cases h; done) | skip
    rename_i idxs hm
    cases hap : Block.sync_apply_pure (Block.sync_rewards cfg T).1 (Block.sync_rewards cfg T).2 p idxs
        (List.take cfg.SYNC_COMMITTEE_SIZE agg.sync_committee_bits) s.balances with
    | none => rw [hap] at h; cases h
    | some b' =>
      rw [hap] at h
      simp only [Option.map] at h
      cases h
      have hil : idxs.length = cfg.SYNC_COMMITTEE_SIZE := by
        rw [← hclen committee hsc]; exact mapM_length _ _ _ hm
      refine ⟨b', rfl, ?_, fun B hB => ?_⟩
      · exact sync_apply_length _ _ p idxs _ s.balances b' hap
      · have := (sync_apply_bound _ _ p idxs _ s.balances b' B hB hap).2
        rw [hil] at this
        exact this


theorem mapM_mono {α β} (f g : α → Option β) (h : ∀ a b, f a = some b → g a = some b) :
    ∀ (l : List α) (r : List β), l.mapM f = some r → l.mapM g = some r := by
  intro l
  induction l with
  | nil => intro r hr; simpa [List.mapM_nil] using hr
  | cons a t ih =>
    intro r hr
    rw [List.mapM_cons] at hr ⊢
    cases hf : f a with
    | none => simp [hf, bind, Option.bind] at hr
    | some b =>
      cases ht : t.mapM f with
      | none => simp [hf, ht, bind, Option.bind] at hr
      | some r' =>
        simp [hf, ht, bind, Option.bind, pure] at hr
        simp [h a b hf, ih r' ht, bind, Option.bind, pure, hr]

/-- `get_total_balance` over indices inside the old registry does not see appended validators -/
theorem total_balance_frame_in (cfg : Config) (s s' : State) (indices : List Nat)
    (hin : ∀ c ∈ indices, c < s.validators.length)
    (heff : ∀ (i : Nat) (v v' : Validator), s.validators[i]? = some v → s'.validators[i]? = some v' → v'.effective_balance = v.effective_balance)
    (hlen : s.validators.length ≤ s'.validators.length) :
    get_total_balance cfg s' indices = get_total_balance cfg s indices := by
  unfold get_total_balance
  have hfold : ∀ (l : List Nat) (acc : Nat), (∀ c ∈ l, c < s.validators.length) →
      l.foldlM (fun acc i => do let v ← idx s'.validators i "validators"; u64 (acc + v.effective_balance) "get_total_balance") acc =
      l.foldlM (fun acc i => do let v ← idx s.validators i "validators"; u64 (acc + v.effective_balance) "get_total_balance") acc := by
    intro l
    induction l with
    | nil => intro acc _; rfl
    | cons i t ih =>
      intro acc hl
      simp only [List.foldlM_cons]
      have hi : i < s.validators.length := hl i List.mem_cons_self
      have hstep : (do let v ← idx s'.validators i "validators"; u64 (acc + v.effective_balance) "get_total_balance") =
          (do let v ← idx s.validators i "validators"; u64 (acc + v.effective_balance) "get_total_balance") := by
        unfold idx
        have hi' : i < s'.validators.length := by omega
        have h1 : s.validators[i]? = some s.validators[i] := List.getElem?_eq_getElem hi
        have h2 : s'.validators[i]? = some s'.validators[i] := List.getElem?_eq_getElem hi'
        rw [h1, h2]
        simp only [pure, Except.pure, bind, Except.bind, heff i _ _ h1 h2]
      rw [hstep]
      congr 1
      funext acc'
      exact ih acc' (fun c hc => hl c (List.mem_cons_of_mem _ hc))
  rw [hfold _ _ hin]

/-- the total active balance does not see an appended validator that is not active -/
theorem total_active_balance_append (cfg : Config) (s s' : State) (v : Validator)
    (hslot : s'.slot = s.slot) (hvals : s'.validators = s.validators ++ [v])
    (hv : is_active_validator v (get_current_epoch cfg s) = false) :
    get_total_active_balance cfg s' = get_total_active_balance cfg s := by
  unfold get_total_active_balance
  have hcur : get_current_epoch cfg s' = get_current_epoch cfg s := by unfold get_current_epoch; rw [hslot]
  have hidx : get_active_validator_indices s' (get_current_epoch cfg s) = get_active_validator_indices s (get_current_epoch cfg s) := by
    unfold get_active_validator_indices; rw [hvals]; exact active_indices_append _ _ _ hv
  rw [hcur, hidx]
  apply total_balance_frame_in cfg s s' _ (active_indices_lt _ _)
  · intro i w w' h1 h2
    rw [hvals] at h2
    have hi : i < s.validators.length := (List.getElem?_eq_some_iff.mp h1).1
    rw [List.getElem?_append_left hi, h1] at h2
    cases h2; rfl
  · rw [hvals]; simp

theorem total_active_balance_vals (cfg : Config) (s s' : State) (hv : s'.validators = s.validators) (hs : s'.slot = s.slot) :
    get_total_active_balance cfg s' = get_total_active_balance cfg s := by
  unfold get_total_active_balance get_total_balance get_active_validator_indices get_current_epoch
  rw [hv, hs]

theorem map_eff_same (cfg : Config) (s s' : State) (h : SameCommittees cfg s s') :
    s'.validators.map (·.effective_balance) = s.validators.map (·.effective_balance) := by
  apply List.ext_getElem?
  intro i
  simp only [List.getElem?_map]
  by_cases hi : i < s.validators.length
  · have hi' : i < s'.validators.length := by rw [h.2.2.1]; exact hi
    have h1 : s.validators[i]? = some s.validators[i] := List.getElem?_eq_getElem hi
    have h2 : s'.validators[i]? = some s'.validators[i] := List.getElem?_eq_getElem hi'
    rw [h1, h2]
    simp only [Option.map, (h.2.2.2 i _ _ h1 h2).1]
  · have h1 : s.validators[i]? = none := by simp; omega
    have h2 : s'.validators[i]? = none := by simp; rw [h.2.2.1]; omega
    rw [h1, h2]

theorem bind_pair_ok {α β} (X : Res α) (b : β) (a' : α) (b' : β)
    (h : (X >>= fun c => (pure (c, b) : Res (α × β))) = .ok (a', b')) : X = .ok a' ∧ b' = b := by
  cases X with
  | ok a => simp only [res_bind_ok, Res.pure_eq] at h; cases h; exact ⟨rfl, rfl⟩
  | err => cases h
  | panic => cases h
  | outOfFuel => cases h

/-- what an accepted `ProcessDeposit` does to the other fields of the context: stake and sync indices stay, the
effective-balance list follows the registry -/
theorem processDeposit_ctx (cfg : Config) (ctx ctx' : Ctx) (st st' : State) (dep : Deposit)
    (h : processDeposit cfg ctx st dep = .ok (ctx', st')) :
    ctx'.totalActiveStake = ctx.totalActiveStake ∧ ctx'.totalActiveStakeSqRoot = ctx.totalActiveStakeSqRoot ∧
    ctx'.syncIndices = ctx.syncIndices ∧
    (ctx.effectiveBalances = st.validators.map (·.effective_balance) → ctx'.effectiveBalances = st'.validators.map (·.effective_balance)) ∧
    (∀ k i, ctx.pubkeyIndex k = some i → ctx'.pubkeyIndex k = some i) := by
  unfold processDeposit at h
  simp only [guard_bind] at h
  -- the tail after `AddValidator`, common to the two ways a pubkey is new
  have tail : ∀ (s2 : State) (pkf : Bytes → Option Nat), (∀ k i, ctx.pubkeyIndex k = some i → pkf k = some i) →
      addValidator cfg { st with eth1_deposit_index := w64 (st.eth1_deposit_index + 1) } dep.data.pubkey dep.data.withdrawal_credentials
        dep.data.amount = .ok s2 →
      (if ctx.effectiveBalances.length = st.validators.length then do
          let nv ← rget s2.validators st.validators.length
          pure ({ proposer := ctx.proposer, committeeCount := ctx.committeeCount, committee := ctx.committee, activeCount := ctx.activeCount, totalActiveStake := ctx.totalActiveStake, totalActiveStakeSqRoot := ctx.totalActiveStakeSqRoot, effectiveBalances := ctx.effectiveBalances ++ [nv.effective_balance], pubkeyIndex := pkf, syncIndices := ctx.syncIndices } : Ctx)
        else pure ({ proposer := ctx.proposer, committeeCount := ctx.committeeCount, committee := ctx.committee, activeCount := ctx.activeCount, totalActiveStake := ctx.totalActiveStake, totalActiveStakeSqRoot := ctx.totalActiveStakeSqRoot, effectiveBalances := ctx.effectiveBalances, pubkeyIndex := pkf, syncIndices := ctx.syncIndices } : Ctx)) = Res.ok ctx' → st' = s2 →
      ctx'.totalActiveStake = ctx.totalActiveStake ∧ ctx'.totalActiveStakeSqRoot = ctx.totalActiveStakeSqRoot ∧
      ctx'.syncIndices = ctx.syncIndices ∧
      (ctx.effectiveBalances = st.validators.map (·.effective_balance) → ctx'.effectiveBalances = st'.validators.map (·.effective_balance)) ∧
      (∀ k i, ctx.pubkeyIndex k = some i → ctx'.pubkeyIndex k = some i) := by
    intro s2 pkf hpkf hadd hc hs
    subst hs
    obtain ⟨eff, _, _, hvals, _⟩ := addValidator_fields cfg _ st' _ _ _ hadd
    simp only [] at hvals
    split at hc
    · rename_i hlen
      simp only [rget_bind] at hc
      split at hc
      · rename_i nv hnv
        simp only [res_bind_ok, Res.pure_eq] at hc
        cases hc
        refine ⟨rfl, rfl, rfl, fun heb => ?_, hpkf⟩
        simp only []
        rw [hvals] at hnv ⊢
        simp at hnv
        rw [heb, ← hnv]
        simp
      · cases hc
    · rename_i hlen
      simp only [Res.pure_eq] at hc
      cases hc
      refine ⟨rfl, rfl, rfl, fun heb => ?_, hpkf⟩
      exfalso
      apply hlen
      rw [heb, List.length_map]
  cases hb : verifyMerkleBranch dep.data_root dep.proof (Block.DEPOSIT_CONTRACT_TREE_DEPTH + 1) st.eth1_deposit_index st.eth1_data.deposit_root with
  | ok okb =>
    rw [hb] at h
    simp only [res_bind_ok] at h
    cases okb with
    | false => simp only [Bool.false_eq_true, if_false] at h; cases h
    | true =>
      simp only [if_true] at h
      have skip : ∀ x : State, (Res.ok (ctx, x) : Res (Ctx × State)) = Res.ok (ctx', st') → x.validators = st.validators →
          ctx'.totalActiveStake = ctx.totalActiveStake ∧ ctx'.totalActiveStakeSqRoot = ctx.totalActiveStakeSqRoot ∧
          ctx'.syncIndices = ctx.syncIndices ∧
          (ctx.effectiveBalances = st.validators.map (·.effective_balance) → ctx'.effectiveBalances = st'.validators.map (·.effective_balance)) ∧
          (∀ k i, ctx.pubkeyIndex k = some i → ctx'.pubkeyIndex k = some i) := by
        intro x hx hv
        cases hx
        exact ⟨rfl, rfl, rfl, fun heb => by rw [heb, hv], fun _ _ h => h⟩
      cases hpk : ctx.pubkeyIndex dep.data.pubkey with
      | some i =>
        rw [hpk] at h
        simp only [] at h
        by_cases hlt : i < st.validators.length
        · simp only [hlt, if_true] at h
          unfold increaseBalance at h
          simp only [rget_bind] at h
          cases hbal : st.balances[i]? with
          | none => rw [hbal] at h; cases h
          | some b =>
            rw [hbal] at h
            simp only [res_bind_ok, Res.pure_eq] at h
            exact skip _ h rfl
        · simp only [hlt, if_false] at h
          by_cases hsig : dep.sig_ok = true
          · simp only [hsig, Bool.not_true, Bool.false_eq_true, if_false] at h
            cases hadd : addValidator cfg { st with eth1_deposit_index := w64 (st.eth1_deposit_index + 1) } dep.data.pubkey
                dep.data.withdrawal_credentials dep.data.amount with
            | ok s2 =>
              rw [hadd] at h
              simp only [res_bind_ok] at h
              obtain ⟨hc, hs⟩ := bind_pair_ok _ _ _ _ h
              exact tail s2 _ (fun k i hk => by show (if k = _ then _ else _) = _; split <;> simp [hk]) hadd hc hs
            | err => rw [hadd] at h; cases h
            | panic => rw [hadd] at h; cases h
            | outOfFuel => rw [hadd] at h; cases h
          · have hsig' : dep.sig_ok = false := by simpa using hsig
            simp only [hsig', Bool.not_false, if_true, Res.pure_eq] at h
            exact skip _ h rfl
      | none =>
        rw [hpk] at h
        simp only [] at h
        by_cases hsig : dep.sig_ok = true
        · simp only [hsig, Bool.not_true, Bool.false_eq_true, if_false] at h
          cases hadd : addValidator cfg { st with eth1_deposit_index := w64 (st.eth1_deposit_index + 1) } dep.data.pubkey
              dep.data.withdrawal_credentials dep.data.amount with
          | ok s2 =>
            rw [hadd] at h
            simp only [res_bind_ok] at h
            obtain ⟨hc, hs⟩ := bind_pair_ok _ _ _ _ h
            exact tail s2 _ (fun k i hk => by show (if k = _ then _ else _) = _; split <;> simp [hk]) hadd hc hs
          | err => rw [hadd] at h; cases h
          | panic => rw [hadd] at h; cases h
          | outOfFuel => rw [hadd] at h; cases h
        · have hsig' : dep.sig_ok = false := by simpa using hsig
          simp only [hsig', Bool.not_false, if_true, Res.pure_eq] at h
          exact skip _ h rfl
  | err => rw [hb] at h; cases h
  | panic => rw [hb] at h; cases h
  | outOfFuel => rw [hb] at h; cases h


/-! ### frames of the extra fields -/

theorem XFrame.refl (s : State) : XFrame s s := ⟨rfl, rfl, rfl, rfl, rfl, rfl, rfl, rfl⟩

theorem XFrame.trans {a b c : State} (h1 : XFrame a b) (h2 : XFrame b c) : XFrame a c :=
  ⟨by rw [h2.roots, h1.roots], by rw [h2.partc, h1.partc], by rw [h2.partp, h1.partp], by rw [h2.sc, h1.sc], by rw [h2.gt, h1.gt],
   by rw [h2.nwi, h1.nwi], by rw [h2.nwv, h1.nwv], by rw [h2.blen, h1.blen]⟩

theorem processHeader_x (st st' : State) (block : SignedBlock) (p : Nat) (h : processHeader st block p = .ok st') : XFrame st st' := by
  unfold processHeader at h
  simp only [guard_bind, rget_bind] at h
  repeat' split at h
  all_goals first | (cases h; done) | (cases h; exact ⟨rfl, rfl, rfl, rfl, rfl, rfl, rfl, rfl⟩)

theorem processRandao_x (cfg : Config) (ctx : Ctx) (st st' : State) (block : SignedBlock)
    (h : processRandaoReveal cfg ctx st block = .ok st') : XFrame st st' := by
  unfold processRandaoReveal at h
  simp only [guard_bind, rget_bind, ofOpt_bind] at h
  repeat' split at h
  all_goals first | (cases h; done) | (cases h; exact ⟨rfl, rfl, rfl, rfl, rfl, rfl, rfl, rfl⟩)

theorem processEth1_x (cfg : Config) (st st' : State) (data : Eth1Data) (h : processEth1Vote cfg st data = .ok st') : XFrame st st' := by
  unfold processEth1Vote at h
  simp only [guard_bind] at h
  repeat' split at h
  all_goals first | (cases h; done) | (cases h; exact ⟨rfl, rfl, rfl, rfl, rfl, rfl, rfl, rfl⟩)

theorem slash_x (cfg : Config) (s s' : State) (i p : Nat) (h : Block.slash_validator_pure cfg s i p = some s') : XFrame s s' := by
  obtain ⟨V, SL, B, hrec⟩ := slash_pure_record cfg s s' i p h
  obtain ⟨_, _, _, _, _, _, _, _, _, _, _, _, _, _, _, _, hbal, _⟩ := slash_pure_shape cfg s s' i p h
  have hbl : s'.balances.length = s.balances.length := by rw [hbal]; simp
  rw [hrec] at hbl ⊢; exact ⟨rfl, rfl, rfl, rfl, rfl, rfl, rfl, hbl⟩

/-! ### the invariant of altair … deneb block processing -/

/-- what altair … deneb operations need besides `P0DInv`: block-root vector, participation lists, the total active
balance `T` and the context's stake / effective balances / sync-committee indices -/
structure AltExtra (cfg : Config) (T : Nat) (committee : SyncCommittee) (ctx : Ctx) (st : State) : Prop where
  roots : st.block_roots.length = cfg.SLOTS_PER_HISTORICAL_ROOT
  partc : st.current_epoch_participation.length = st.validators.length ∧ ∀ e ∈ st.current_epoch_participation, e < 256
  partp : st.previous_epoch_participation.length = st.validators.length ∧ ∀ e ∈ st.previous_epoch_participation, e < 256
  tab : get_total_active_balance cfg st = .ok T
  ctxT : ctx.totalActiveStake = T
  ctxS : ctx.totalActiveStakeSqRoot = integer_squareroot T
  heb : ctx.effectiveBalances = st.validators.map (·.effective_balance)
  sc : st.current_sync_committee = some committee
  sclen : committee.pubkeys.length = cfg.SYNC_COMMITTEE_SIZE
  sidx : ∃ l, ctx.syncIndices = some l ∧ committee.pubkeys.mapM ctx.pubkeyIndex = some l
  gt : st.genesis_time < 2 ^ 64

theorem AltExtra.keep {cfg : Config} {T : Nat} {committee : SyncCommittee} {ctx : Ctx} {st st' : State}
    (h : AltExtra cfg T committee ctx st) (hx : XFrame st st')
    (hT : get_total_active_balance cfg st' = get_total_active_balance cfg st)
    (heff : st'.validators.map (·.effective_balance) = st.validators.map (·.effective_balance)) : AltExtra cfg T committee ctx st' := by
  have hl : st'.validators.length = st.validators.length := by
    have := congrArg List.length heff; simpa using this
  exact ⟨by rw [hx.roots]; exact h.roots, by rw [hx.partc, hl]; exact h.partc, by rw [hx.partp, hl]; exact h.partp, by rw [hT]; exact h.tab,
    h.ctxT, h.ctxS, by rw [heff]; exact h.heb, by rw [hx.sc]; exact h.sc, h.sclen, h.sidx, by rw [hx.gt]; exact h.gt⟩

/-- configuration facts for altair … deneb (`T` = total active balance of the block's pre-state, `Bm` = bound on the
effective balances): the base reward of `Bm` over 54/64 and the sync rewards of a whole committee fit into one balance
unit `MAX_VALIDATORS_PER_COMMITTEE · 2·Bm` -/
structure AltConst (cfg : Config) (S0 : State) (Bm T : Nat) : Prop where
  hmin1 : 1 ≤ cfg.MIN_ATTESTATION_INCLUSION_DELAY
  hsphr : 2 * cfg.SLOTS_PER_EPOCH ≤ cfg.SLOTS_PER_HISTORICAL_ROOT
  hslot : S0.slot + cfg.SLOTS_PER_HISTORICAL_ROOT < 2 ^ 64
  hsq : integer_squareroot T ≠ 0
  hbrf : cfg.EFFECTIVE_BALANCE_INCREMENT * cfg.BASE_REWARD_FACTOR < 2 ^ 64
  hR54 : Bm / cfg.EFFECTIVE_BALANCE_INCREMENT * (cfg.EFFECTIVE_BALANCE_INCREMENT * cfg.BASE_REWARD_FACTOR / integer_squareroot T) * 54 ≤ 2 * Bm
  hsize : cfg.SYNC_COMMITTEE_SIZE ≠ 0
  h2 : cfg.EFFECTIVE_BALANCE_INCREMENT * cfg.BASE_REWARD_FACTOR / integer_squareroot T * (T / cfg.EFFECTIVE_BALANCE_INCREMENT) * SYNC_REWARD_WEIGHT < 2 ^ 64
  h3 : (Block.sync_rewards cfg T).1 * PROPOSER_WEIGHT < 2 ^ 64
  hsync : cfg.SYNC_COMMITTEE_SIZE * ((Block.sync_rewards cfg T).1 + (Block.sync_rewards cfg T).2) ≤ cfg.MAX_VALIDATORS_PER_COMMITTEE * (2 * Bm)

/-- balances and registry of equal length inside the registry limit, the withdrawal sweep cursor inside the registry, and
room for `k` payloads of withdrawals in the withdrawal index (used from capella on; true of every well-formed state) -/
structure WdInv (cfg : Config) (k : Nat) (st : State) : Prop where
  wbal : st.balances.length = st.validators.length
  vlim : st.validators.length ≤ cfg.VALIDATOR_REGISTRY_LIMIT
  curv : st.next_withdrawal_validator_index < st.validators.length
  nwi : st.next_withdrawal_index + k * cfg.MAX_WITHDRAWALS_PER_PAYLOAD + cfg.VALIDATOR_REGISTRY_LIMIT + 2 < 2 ^ 64

theorem WdInv.mono {cfg : Config} {k : Nat} {st : State} (h : WdInv cfg (k + 1) st) : WdInv cfg k st :=
  ⟨h.wbal, h.vlim, h.curv, by have := h.nwi; rw [Nat.succ_mul] at this; omega⟩

theorem WdInv.frame {cfg : Config} {k : Nat} {st st' : State} (h : WdInv cfg (k + 1) st) (hx : XFrame st st')
    (hvl : st'.validators.length = st.validators.length) : WdInv cfg k st' :=
  ⟨by rw [hx.blen, hvl]; exact h.wbal, by rw [hvl]; exact h.vlim, by rw [hx.nwv, hvl]; exact h.curv,
   by rw [hx.nwi]; exact h.mono.nwi⟩

/-- the invariant of altair … deneb block processing with `k` units of budget -/
structure AltInv (cfg : Config) (S0 : State) (p Bm C T : Nat) (committee : SyncCommittee) (k : Nat) (ctx : Ctx) (st : State) : Prop where
  base : P0DInv cfg S0 p Bm C k ctx st
  ext : AltExtra cfg T committee ctx st
  wd : WdInv cfg k st

theorem AltInv.mono {cfg : Config} {S0 : State} {p Bm C T k : Nat} {committee : SyncCommittee} {ctx : Ctx} {st : State}
    (h : AltInv cfg S0 p Bm C T committee (k + 1) ctx st) : AltInv cfg S0 p Bm C T committee k ctx st := ⟨h.base.mono, h.ext, h.wd.mono⟩

theorem AltInv.keepx {cfg : Config} {S0 : State} {p Bm C T k : Nat} {committee : SyncCommittee} {ctx : Ctx} {st st' : State}
    (hi : AltInv cfg S0 p Bm C T committee (k + 1) ctx st) (hb : P0DInv cfg S0 p Bm C k ctx st') (hx : XFrame st st')
    (hT : get_total_active_balance cfg st' = get_total_active_balance cfg st)
    (heff : st'.validators.map (·.effective_balance) = st.validators.map (·.effective_balance)) : AltInv cfg S0 p Bm C T committee k ctx st' :=
  ⟨hb, hi.ext.keep hx hT heff, hi.wd.frame hx (by have := congrArg List.length heff; simpa using this)⟩

theorem alt_header (cfg : Config) (S0 : State) (p Bm C T : Nat) (committee : SyncCommittee) (block : SignedBlock) (k : Nat) (ctx : Ctx) (st : State)
    (hi : AltInv cfg S0 p Bm C T committee (k + 1) ctx st) :
    Sim (Block.process_block_header cfg st block) (ofOpt ctx.proposer >>= fun p => processHeader st block p) ∧
    ∀ st', (ofOpt ctx.proposer >>= fun p => processHeader st block p) = .ok st' → AltInv cfg S0 p Bm C T committee k ctx st' := by
  obtain ⟨h1, h2⟩ := p0d_header cfg S0 p Bm C block k ctx st hi.base
  refine ⟨h1, fun st' h => ?_⟩
  have hb := h2 st' h
  rw [hi.base.inv.base.ctxp] at h
  simp only [ofOpt, res_bind_ok] at h
  obtain ⟨hv, hs, _⟩ := processHeader_frame2 st st' block p h
  exact hi.keepx hb (processHeader_x st st' block p h) (total_active_balance_vals cfg st st' hv hs) (by rw [hv])

theorem alt_randao (cfg : Config) (S0 : State) (p Bm C T : Nat) (committee : SyncCommittee) (K : P0Const cfg S0 Bm C) (KA : P0AConst cfg)
    (block : SignedBlock) (ctx : Ctx) :
    Step (fun k => AltInv cfg S0 p Bm C T committee k ctx) false [()] (fun st _ => Block.process_randao cfg st block)
      (fun st _ => processRandaoReveal cfg ctx st block) := by
  intro k st u hu hi
  obtain ⟨h1, h2⟩ := p0d_randao cfg S0 p Bm C K KA block ctx k st u hu hi.base
  refine ⟨h1, fun st' h => ⟨?_, fun hf => by cases hf⟩⟩
  obtain ⟨hv, hs, _⟩ := processRandao_frame2 cfg ctx st st' block h
  exact hi.keepx (h2 st' h).1 (processRandao_x cfg ctx st st' block h) (total_active_balance_vals cfg st st' hv hs) (by rw [hv])

theorem alt_eth1 (cfg : Config) (S0 : State) (p Bm C T : Nat) (committee : SyncCommittee) (K : P0Const cfg S0 Bm C) (block : SignedBlock) (ctx : Ctx) :
    Step (fun k => AltInv cfg S0 p Bm C T committee k ctx) false [()] (fun st _ => Block.process_eth1_data cfg st block)
      (fun st _ => processEth1Vote cfg st block.eth1_data) := by
  intro k st u hu hi
  obtain ⟨h1, h2⟩ := p0d_eth1 cfg S0 p Bm C K block ctx k st u hu hi.base
  refine ⟨h1, fun st' h => ⟨?_, fun hf => by cases hf⟩⟩
  obtain ⟨hv, hs, _⟩ := processEth1_frame2 cfg st st' block.eth1_data h
  exact hi.keepx (h2 st' h).1 (processEth1_x cfg st st' block.eth1_data h) (total_active_balance_vals cfg st st' hv hs) (by rw [hv])

theorem AltExtra.of_same {cfg : Config} {T : Nat} {committee : SyncCommittee} {ctx : Ctx} {st st' : State}
    (h : AltExtra cfg T committee ctx st) (hx : XFrame st st') (hsc : SameCommittees cfg st st') : AltExtra cfg T committee ctx st' :=
  h.keep hx (total_active_balance_frame cfg st st' hsc) (map_eff_same cfg st st' hsc)

theorem AltInv.samex {cfg : Config} {S0 : State} {p Bm C T k : Nat} {committee : SyncCommittee} {ctx : Ctx} {st st' : State}
    (hi : AltInv cfg S0 p Bm C T committee (k + 1) ctx st) (hb : P0DInv cfg S0 p Bm C k ctx st') (hx : XFrame st st')
    (hsc : SameCommittees cfg st st') : AltInv cfg S0 p Bm C T committee k ctx st' :=
  hi.keepx hb hx (total_active_balance_frame cfg st st' hsc) (map_eff_same cfg st st' hsc)

theorem alt_exit (cfg : Config) (S0 : State) (p Bm C T : Nat) (committee : SyncCommittee) (K : P0Const cfg S0 Bm C)
    (l : List SignedVoluntaryExit) (ctx : Ctx) :
    Step (fun k => AltInv cfg S0 p Bm C T committee k ctx) false l (Block.process_voluntary_exit cfg) (processVoluntaryExit cfg ctx) := by
  intro k st exit hx hi
  have K' := K.le (Nat.sub_le C (k + 1))
  obtain ⟨h1, h2⟩ := p0d_exit cfg S0 p Bm C K l ctx k st exit hx hi.base
  refine ⟨h1, fun st' h => ⟨?_, fun hf => by cases hf⟩⟩
  obtain ⟨hact, hes, _, _, hs⟩ := hi.base.inv.base.facts K'
  obtain ⟨v, hv, _, hst'⟩ := processVoluntaryExit_shape cfg ctx st st' exit hact K.hq hs.reg hes h
  apply hi.samex (h2 st' h).1 (by rw [hst']; exact ⟨rfl, rfl, rfl, rfl, rfl, rfl, rfl, rfl⟩)
  apply sameCommittees_initiate cfg st st' exit.validator_index (hs.curfar K'.hC)
  · rw [hst']
  · rw [hst']
  · rw [hst']; rfl

theorem alt_proposerSlashing (cfg : Config) (S0 : State) (p Bm C T : Nat) (committee : SyncCommittee) (K : P0Const cfg S0 Bm C)
    (l : List ProposerSlashing) (ctx : Ctx) :
    Step (fun k => AltInv cfg S0 p Bm C T committee k ctx) true l (Block.process_proposer_slashing cfg) (processProposerSlashing cfg ctx) := by
  intro k st ps hx hi
  have K' := K.le (Nat.sub_le C (k + 1))
  obtain ⟨h1, h2⟩ := p0d_proposerSlashing cfg S0 p Bm C K l ctx k st ps hx hi.base
  refine ⟨h1, fun st' h => ⟨?_, (h2 st' h).2⟩⟩
  obtain ⟨hact, hes, hsm, _, hs⟩ := hi.base.inv.base.facts K'
  have hz' : cfg.EPOCHS_PER_SLASHINGS_VECTOR ≠ 0 ∧ min_slashing_penalty_quotient cfg st.fork ≠ 0 ∧
      cfg.WHISTLEBLOWER_REWARD_QUOTIENT ≠ 0 ∧ cfg.PROPOSER_REWARD_QUOTIENT ≠ 0 := by rw [hs.fork]; exact K.hz
  obtain ⟨v0, hv0, hsl, hsv⟩ := processProposerSlashing_shape cfg ctx st st' ps h
  rw [slash_eq cfg ctx st _ p hi.base.inv.base.ctxp hact K.hq hs.reg hes hsm hz'] at hsv
  cases hpure : Block.slash_validator_pure cfg st ps.signed_header_1.message.proposer_index p with
  | none => rw [hpure] at hsv; cases hsv
  | some st2 =>
    rw [hpure] at hsv
    simp only [optRes] at hsv
    cases hsv
    exact hi.samex (h2 st' h).1 (slash_x cfg st st' _ p hpure) (slash_sameCommittees cfg st st' _ p (hs.curfar K'.hC) hpure)

theorem alt_attesterSlashing (cfg : Config) (S0 : State) (p Bm C T : Nat) (committee : SyncCommittee) (K : P0Const cfg S0 Bm C)
    (l : List AttesterSlashing) (ctx : Ctx)
    (hl : ∀ op ∈ l, op.attestation_1.attesting_indices.length ≤ cfg.MAX_VALIDATORS_PER_COMMITTEE ∧
      op.attestation_2.attesting_indices.length ≤ cfg.MAX_VALIDATORS_PER_COMMITTEE) :
    Step (fun k => AltInv cfg S0 p Bm C T committee k ctx) true l (Block.process_attester_slashing cfg) (processAttesterSlashing cfg ctx) := by
  intro k st op hop hi
  have K' := K.le (Nat.sub_le C (k + 1))
  obtain ⟨h1, h2⟩ := p0d_attesterSlashing cfg S0 p Bm C K l ctx hl k st op hop hi.base
  refine ⟨h1, fun st' h => ⟨?_, (h2 st' h).2⟩⟩
  obtain ⟨_, _, _, _, hs⟩ := hi.base.inv.base.facts K'
  obtain ⟨hlen1, hlen2⟩ := hl op hop
  obtain ⟨lst, b, hll, hfold⟩ := processAttesterSlashing_shape cfg ctx st st' op hlen1 hlen2 hi.base.inv.base.vlen h
  rw [hs.slot] at hfold
  have hstart : SlashInv cfg S0 p ctx.activeCount Bm (C - (k + 1)) (k * cfg.MAX_VALIDATORS_PER_COMMITTEE + (cfg.MAX_VALIDATORS_PER_COMMITTEE - lst.length) + lst.length) st := by
    have : k * cfg.MAX_VALIDATORS_PER_COMMITTEE + (cfg.MAX_VALIDATORS_PER_COMMITTEE - lst.length) + lst.length =
        k * cfg.MAX_VALIDATORS_PER_COMMITTEE + cfg.MAX_VALIDATORS_PER_COMMITTEE := by omega
    rw [this]; exact hs
  have hx := slash_fold_rel cfg ctx S0 p Bm _ K' hi.base.inv.base.ctxp XFrame XFrame.refl (fun a b c h1 h2 => h1.trans h2)
    (fun a b i hp => slash_x cfg a b i p hp) lst st false _ (st', b) hstart hfold
  exact hi.samex (h2 st' h).1 hx (slash_fold_same cfg ctx S0 p Bm _ K' hi.base.inv.base.ctxp lst st false _ (st', b) hstart hfold)

/-! ### attestations of altair … deneb -/

/-- the pure core of an altair … deneb attestation consults the committee count only after the window check and the
committee only for an index below the count -/
theorem altair_pure_congr (cfg : Config) (s : State) (att : Attestation) (count count' : Option Nat)
    (committee committee' : Option (List Nat)) (proposer : Option Nat) (T : Nat)
    (hc : Block.attestation_timing_pure cfg s att.data = true → count = count')
    (hm : Block.attestation_timing_pure cfg s att.data = true → ∀ n, count' = some n → att.data.index < n → committee = committee') :
    Block.process_attestation_altair_pure cfg s att count committee proposer T =
      Block.process_attestation_altair_pure cfg s att count' committee' proposer T := by
  unfold Block.process_attestation_altair_pure
  cases ht : Block.attestation_timing_pure cfg s att.data with
  | false => simp only [ht, Bool.not_false, if_true]
  | true =>
    rw [hc ht]
    simp only [ht, Bool.not_true, Bool.false_eq_true, if_false]
    cases count' with
    | none => rfl
    | some n =>
      simp only []
      by_cases hlt : att.data.index < n
      · rw [hm ht n rfl hlt]
      · simp only [hlt, not_false_eq_true, if_true]

/-- altair … deneb attestations, with the context's committee facts required for the attestable epochs only -/
theorem sim_attestation_altair' (cfg : Config) (ctx : Ctx) (s : State) (att : Attestation) (p T R : Nat)
    (hfork : s.fork ≠ .phase0) (hTs : get_total_active_balance cfg s = .ok T) (hok : CommOK cfg ctx s)
    (hctxp : ctx.proposer = some p) (hprop : Block.get_beacon_proposer_index cfg s = .ok p)
    (hsq : ctx.totalActiveStakeSqRoot = integer_squareroot T)
    (heb : ctx.effectiveBalances = s.validators.map (·.effective_balance))
    (hnd : ∀ c, ctx.committee att.data.slot att.data.index = some c → c.Nodup)
    (hwf : att.bits_wellformed = true) (hmaxbits : att.aggregation_bits.length ≤ cfg.MAX_VALIDATORS_PER_COMMITTEE)
    (hspe : 0 < cfg.SLOTS_PER_EPOCH) (hmin : cfg.MIN_ATTESTATION_INCLUSION_DELAY ≤ cfg.SLOTS_PER_EPOCH)
    (hmin1 : 1 ≤ cfg.MIN_ATTESTATION_INCLUSION_DELAY)
    (hcur : s.slot + 2 * cfg.SLOTS_PER_EPOCH < 2 ^ 64)
    (hsphr : 2 * cfg.SLOTS_PER_EPOCH ≤ cfg.SLOTS_PER_HISTORICAL_ROOT)
    (hroots : s.block_roots.length = cfg.SLOTS_PER_HISTORICAL_ROOT)
    (hslot : s.slot + cfg.SLOTS_PER_HISTORICAL_ROOT < 2 ^ 64)
    (hnz : cfg.EFFECTIVE_BALANCE_INCREMENT ≠ 0 ∧ integer_squareroot T ≠ 0)
    (hbrf : cfg.EFFECTIVE_BALANCE_INCREMENT * cfg.BASE_REWARD_FACTOR < 2 ^ 64)
    (hR : ∀ v ∈ s.validators, v.effective_balance / cfg.EFFECTIVE_BALANCE_INCREMENT *
      (cfg.EFFECTIVE_BALANCE_INCREMENT * cfg.BASE_REWARD_FACTOR / integer_squareroot T) ≤ R)
    (hsum : cfg.MAX_VALIDATORS_PER_COMMITTEE * (R * 54) < 2 ^ 64)
    (hbal : ∀ b ∈ s.balances, b + cfg.MAX_VALIDATORS_PER_COMMITTEE * (R * 54) < 2 ^ 64)
    (hpc : s.current_epoch_participation.length = s.validators.length ∧ ∀ e ∈ s.current_epoch_participation, e < 256)
    (hpp : s.previous_epoch_participation.length = s.validators.length ∧ ∀ e ∈ s.previous_epoch_participation, e < 256) :
    Sim (Block.process_attestation cfg s att) (processAttestationAltair cfg ctx s att) := by
  unfold Block.process_attestation
  simp only [hfork, if_false, hTs]
  rw [attestation_altair_eq cfg ctx s att _ _ _ T R rfl rfl rfl hsq heb hnd hwf hmaxbits hspe hmin hmin1 hcur hsphr hroots hslot
    hnz hbrf hR hsum hbal hpc hpp]
  have hpe : ctx.proposer = (Block.get_beacon_proposer_index cfg s).toOption := by rw [hctxp, hprop]; rfl
  rw [hpe]
  rw [altair_pure_congr cfg s att (ctx.committeeCount att.data.target.epoch)
    (get_committee_count_per_slot cfg s att.data.target.epoch).toOption
    (ctx.committee att.data.slot att.data.index) (get_beacon_committee cfg s att.data.slot att.data.index).toOption]
  · exact Sim.cross _ _ _
  · intro ht
    obtain ⟨_, h2, h3⟩ := timing_epochs cfg s att.data ht
    exact hok.cc _ h2 h3
  · intro ht n hn hlt
    obtain ⟨h1, h2, h3⟩ := timing_epochs cfg s att.data ht
    rw [h1] at h2 h3 hn
    cases hcnt : get_committee_count_per_slot cfg s (att.data.slot / cfg.SLOTS_PER_EPOCH) with
    | error e => rw [hcnt] at hn; cases hn
    | ok m =>
      rw [hcnt] at hn
      have : m = n := by simpa [Except.toOption] using hn
      subst this
      exact hok.com _ _ m h2 h3 hcnt hlt

set_option maxHeartbeats 1000000 in
theorem alt_attestation (cfg : Config) (S0 : State) (p Bm C T : Nat) (committee : SyncCommittee) (F : Fork) (hF : S0.fork = F)
    (hF0 : F ≠ .phase0) (K : P0Const cfg S0 Bm C) (KA : P0AConst cfg) (KD : P0DConst cfg Bm) (KL : AltConst cfg S0 Bm T)
    (l : List Attestation) (ctx : Ctx)
    (hl : ∀ att ∈ l, att.bits_wellformed = true ∧ att.aggregation_bits.length ≤ cfg.MAX_VALIDATORS_PER_COMMITTEE) :
    Step (fun k => AltInv cfg S0 p Bm C T committee k ctx) true l (Block.process_attestation cfg)
      (if F = .phase0 then processAttestationPhase0 cfg ctx else processAttestationAltair cfg ctx) := by
  intro k st att hatt hi
  rw [if_neg hF0]
  obtain ⟨hwf, hmaxbits⟩ := hl att hatt
  have hs := hi.base.inv.base.slash
  have hfork : st.fork ≠ .phase0 := by rw [hs.fork, hF]; exact hF0
  have hcur : st.slot + 2 * cfg.SLOTS_PER_EPOCH < 2 ^ 64 := by rw [hs.slot]; exact hi.base.inv.hcur
  have hslot : st.slot + cfg.SLOTS_PER_HISTORICAL_ROOT < 2 ^ 64 := by rw [hs.slot]; exact KL.hslot
  generalize hRdef : Bm / cfg.EFFECTIVE_BALANCE_INCREMENT *
    (cfg.EFFECTIVE_BALANCE_INCREMENT * cfg.BASE_REWARD_FACTOR / integer_squareroot T) = R
  have hR54 : R * 54 ≤ 2 * Bm := by rw [← hRdef]; exact KL.hR54
  have hR : ∀ v ∈ st.validators, v.effective_balance / cfg.EFFECTIVE_BALANCE_INCREMENT *
      (cfg.EFFECTIVE_BALANCE_INCREMENT * cfg.BASE_REWARD_FACTOR / integer_squareroot T) ≤ R := by
    intro v hv
    rw [← hRdef]
    exact Nat.mul_le_mul_right _ (Nat.div_le_div_right (hs.eff v hv))
  have hU : cfg.MAX_VALIDATORS_PER_COMMITTEE * (R * 54) ≤ cfg.MAX_VALIDATORS_PER_COMMITTEE * (2 * Bm) := Nat.mul_le_mul_left _ hR54
  have hroom := hi.base.room
  have hbud : ∀ b ∈ st.balances, b + k * cfg.MAX_VALIDATORS_PER_COMMITTEE * (2 * Bm) + cfg.MAX_VALIDATORS_PER_COMMITTEE * (2 * Bm) < 2 ^ 64 := by
    intro b hb
    have := hs.balances b hb
    rw [Nat.succ_mul, Nat.add_mul] at this
    omega
  have hsum : cfg.MAX_VALIDATORS_PER_COMMITTEE * (R * 54) < 2 ^ 64 := by omega
  have hbal : ∀ b ∈ st.balances, b + cfg.MAX_VALIDATORS_PER_COMMITTEE * (R * 54) < 2 ^ 64 := fun b hb => by have := hbud b hb; omega
  have hnz : cfg.EFFECTIVE_BALANCE_INCREMENT ≠ 0 ∧ integer_squareroot T ≠ 0 := ⟨KD.hebi, KL.hsq⟩
  refine ⟨sim_attestation_altair' cfg ctx st att p T R hfork hi.ext.tab hi.base.inv.comm hi.base.inv.base.ctxp hs.proposer hi.ext.ctxS hi.ext.heb
    (hi.base.inv.nd _ _) hwf hmaxbits KA.hspe KA.hmin KL.hmin1 hcur KL.hsphr hi.ext.roots hslot hnz KL.hbrf hR hsum hbal hi.ext.partc hi.ext.partp,
    fun st' h => ?_⟩
  rw [attestation_altair_eq cfg ctx st att _ _ _ T R rfl rfl rfl hi.ext.ctxS hi.ext.heb (hi.base.inv.nd _ _) hwf hmaxbits KA.hspe KA.hmin
    KL.hmin1 hcur KL.hsphr hi.ext.roots hslot hnz KL.hbrf hR hsum hbal hi.ext.partc hi.ext.partp] at h
  cases hpure : Block.process_attestation_altair_pure cfg st att (ctx.committeeCount att.data.target.epoch)
      (ctx.committee att.data.slot att.data.index) ctx.proposer T with
  | none => rw [hpure] at h; cases h
  | some s2 =>
    rw [hpure] at h
    simp only [optRes] at h
    cases h
    obtain ⟨hv, hsl, hm, hf, hsls, e1, e2, hbr, hsc, hgt, hnwi, hnwv, c1, c2, p1, p2, q, b, δ, hb, hbs, hδ⟩ :=
      altair_attestation_shape cfg st st' att _ _ _ T R hR (hi.base.inv.nd _ _) hi.ext.partc.2 hi.ext.partp.2 hpure
    have hδ' : δ ≤ cfg.MAX_VALIDATORS_PER_COMMITTEE * (2 * Bm) := by
      have : att.aggregation_bits.length * (R * 54) ≤ cfg.MAX_VALIDATORS_PER_COMMITTEE * (R * 54) := Nat.mul_le_mul_right _ hmaxbits
      omega
    have hsk : SlashInv cfg S0 p ctx.activeCount Bm (C - (k + 1)) (k * cfg.MAX_VALIDATORS_PER_COMMITTEE) st := hi.base.inv.mono.base.slash
    have hs' : SlashInv cfg S0 p ctx.activeCount Bm (C - (k + 1)) (k * cfg.MAX_VALIDATORS_PER_COMMITTEE) st' := by
      apply hsk.with_balances hv hsls hsl hf hm
      intro x hx
      rw [hbs] at hx
      rcases List.mem_or_eq_of_mem_set hx with h1 | h1
      · have := hbud x h1; omega
      · have := hbud b (List.mem_of_getElem? hb); omega
    have hinv : P0AInv cfg S0 p Bm (C - (k + 1)) k ctx st' :=
      ⟨⟨hs', hi.base.inv.base.ctxp, by rw [hv]; exact hi.base.inv.base.plt, by rw [hm]; exact hi.base.inv.base.mixes,
        by rw [hv]; exact hi.base.inv.base.vlen⟩,
       hi.base.inv.comm.keep hv hsl (fun e _ _ => seed_of_mixes cfg st st' _ _ hm), hi.base.inv.nd, hi.base.inv.hcur⟩
    refine ⟨⟨hi.base.after hinv (by rw [hv]) e2, ?_, ?_⟩, fun _ => ⟨e1, e2⟩⟩
    · exact ⟨by rw [hbr]; exact hi.ext.roots, ⟨by rw [c1, hv]; exact hi.ext.partc.1, c2⟩, ⟨by rw [p1, hv]; exact hi.ext.partp.1, p2⟩,
      by rw [total_active_balance_vals cfg st st' hv hsl]; exact hi.ext.tab, hi.ext.ctxT, hi.ext.ctxS, by rw [hv]; exact hi.ext.heb,
      by rw [hsc]; exact hi.ext.sc, hi.ext.sclen, hi.ext.sidx, by rw [hgt]; exact hi.ext.gt⟩
    · exact ⟨by rw [hbs, List.length_set, hv]; exact hi.wd.wbal, by rw [hv]; exact hi.wd.vlim, by rw [hnwv, hv]; exact hi.wd.curv,
        by rw [hnwi]; exact hi.wd.mono.nwi⟩

/-! ### the sync aggregate -/

theorem alt_sync (cfg : Config) (S0 : State) (p Bm C T : Nat) (committee : SyncCommittee) (K : P0Const cfg S0 Bm C) (KA : P0AConst cfg)
    (KD : P0DConst cfg Bm) (KL : AltConst cfg S0 Bm T) (ctx : Ctx) (agg : SyncAggregate)
    (hbits : agg.sync_committee_bits.length = 8 * ((cfg.SYNC_COMMITTEE_SIZE + 7) / 8))
    (hpad : (agg.sync_committee_bits.drop cfg.SYNC_COMMITTEE_SIZE).all (· = false) = true) :
    Step (fun k => AltInv cfg S0 p Bm C T committee k ctx) false [()] (fun st _ => Block.process_sync_aggregate cfg st agg)
      (fun st _ => processSyncAggregate cfg ctx st agg) := by
  intro k st u hu hi
  have hs := hi.base.inv.base.slash
  have hslot : st.slot + cfg.SLOTS_PER_HISTORICAL_ROOT < 2 ^ 64 := by rw [hs.slot]; exact KL.hslot
  have hroom := hi.base.room
  have hbud : ∀ b ∈ st.balances, b + k * cfg.MAX_VALIDATORS_PER_COMMITTEE * (2 * Bm) + cfg.MAX_VALIDATORS_PER_COMMITTEE * (2 * Bm) < 2 ^ 64 := by
    intro b hb
    have := hs.balances b hb
    rw [Nat.succ_mul, Nat.add_mul] at this
    omega
  have hsync := KL.hsync
  have hWU : k * cfg.MAX_VALIDATORS_PER_COMMITTEE * (2 * Bm) + cfg.MAX_VALIDATORS_PER_COMMITTEE * (2 * Bm) < 2 ^ 64 := by
    have := hi.base.room; rw [Nat.succ_mul, Nat.add_mul] at this; omega
  generalize hW : k * cfg.MAX_VALIDATORS_PER_COMMITTEE * (2 * Bm) = W at hbud hWU
  generalize hUd : cfg.MAX_VALIDATORS_PER_COMMITTEE * (2 * Bm) = U at hbud hsync hWU
  generalize hYd : cfg.SYNC_COMMITTEE_SIZE * ((Block.sync_rewards cfg T).1 + (Block.sync_rewards cfg T).2) = Y at hsync
  have hfun : Block.pubkey_index st = ctx.pubkeyIndex := by
    funext pk; exact (hi.base.pk pk).symm
  obtain ⟨lidx, hl1, hl2⟩ := hi.ext.sidx
  have hidx : ctx.syncIndices = committee.pubkeys.mapM (Block.pubkey_index st) := by rw [hfun, hl1, hl2]
  have hnz : cfg.EFFECTIVE_BALANCE_INCREMENT ≠ 0 ∧ cfg.SLOTS_PER_EPOCH ≠ 0 ∧ cfg.SYNC_COMMITTEE_SIZE ≠ 0 ∧ integer_squareroot T ≠ 0 :=
    ⟨KD.hebi, by have := KA.hspe; omega, KL.hsize, KL.hsq⟩
  have hB : ∀ x ∈ st.balances, x ≤ 2 ^ 64 - 1 - W - U := fun x hx => by have := hbud x hx; omega
  have hsum : 2 ^ 64 - 1 - W - U + cfg.SYNC_COMMITTEE_SIZE * ((Block.sync_rewards cfg T).1 + (Block.sync_rewards cfg T).2) < 2 ^ 64 := by
    rw [hYd]; omega
  refine ⟨sim_sync cfg ctx st agg T p (2 ^ 64 - 1 - W - U) committee hi.ext.tab hs.proposer hi.ext.sc hi.base.inv.base.ctxp hidx hi.ext.ctxT
    hi.ext.ctxS hi.ext.sclen hbits hpad hslot KL.hbrf KL.h2 KL.h3 hB hsum hnz, fun st' h => ⟨?_, fun hf => by cases hf⟩⟩
  show AltInv cfg S0 p Bm C T committee k ctx st'
  have h : processSyncAggregate cfg ctx st agg = .ok st' := h
  rw [syncAggregate_eq cfg ctx st agg T p (2 ^ 64 - 1 - W - U) committee hi.ext.sc hi.base.inv.base.ctxp hidx hi.ext.ctxT
    hi.ext.ctxS hi.ext.sclen hbits hpad hslot KL.hbrf KL.h2 KL.h3 hB hsum hnz] at h
  cases hpure : Block.process_sync_aggregate_pure cfg st agg T p with
  | none => rw [hpure] at h; cases h
  | some s2 =>
    rw [hpure] at h
    simp only [optRes] at h
    cases h
    obtain ⟨b', hrec, hblen, hbnd⟩ := sync_shape cfg st st' agg T p (fun c hc => by rw [hi.ext.sc] at hc; cases hc; exact hi.ext.sclen) hpure
    have hbb := hbnd _ hB
    rw [hYd] at hbb
    have hsk : SlashInv cfg S0 p ctx.activeCount Bm (C - (k + 1)) (k * cfg.MAX_VALIDATORS_PER_COMMITTEE) st := hi.base.inv.mono.base.slash
    have hs' : SlashInv cfg S0 p ctx.activeCount Bm (C - (k + 1)) (k * cfg.MAX_VALIDATORS_PER_COMMITTEE) st' := by
      apply hsk.with_balances (by rw [hrec]) (by rw [hrec]) (by rw [hrec]) (by rw [hrec]) (by rw [hrec])
      intro x hx
      rw [hrec] at hx
      have := hbb x hx
      rw [hW]; omega
    have hinv : P0AInv cfg S0 p Bm (C - (k + 1)) k ctx st' :=
      ⟨⟨hs', hi.base.inv.base.ctxp, by rw [hrec]; exact hi.base.inv.base.plt, by rw [hrec]; exact hi.base.inv.base.mixes,
        by rw [hrec]; exact hi.base.inv.base.vlen⟩,
       hi.base.inv.comm.keep (by rw [hrec]) (by rw [hrec]) (fun e _ _ => seed_of_mixes cfg st st' _ _ (by rw [hrec])), hi.base.inv.nd, hi.base.inv.hcur⟩
    exact hi.keepx (hi.base.after hinv (by rw [hrec]) (by rw [hrec])) (by rw [hrec]; exact ⟨rfl, rfl, rfl, rfl, rfl, rfl, rfl, hblen⟩)
      (total_active_balance_vals cfg st st' (by rw [hrec]) (by rw [hrec])) (by rw [hrec])

/-! ### deposits of altair … deneb -/

set_option maxHeartbeats 1000000 in
theorem alt_deposit (cfg : Config) (S0 : State) (p Bm C T : Nat) (committee : SyncCommittee) (F : Fork) (hF : S0.fork = F)
    (hF0 : F ≠ .phase0) (K : P0Const cfg S0 Bm C) (KD : P0DConst cfg Bm) (l : List Deposit)
    (hl : ∀ d ∈ l, d.proof.length = Block.DEPOSIT_CONTRACT_TREE_DEPTH + 1 ∧ d.data.amount ≤ cfg.MAX_VALIDATORS_PER_COMMITTEE * (2 * Bm)) :
    ∀ k ctx st d, d ∈ l → AltInv cfg S0 p Bm C T committee (k + 1) ctx st →
      Sim (Block.process_deposit cfg st d) (processDeposit cfg ctx st d >>= fun r => Res.ok r.2) ∧
      ∀ r, processDeposit cfg ctx st d = .ok r → AltInv cfg S0 p Bm C T committee k r.1 r.2 := by
  intro k ctx st d hd hi
  obtain ⟨h1, h2⟩ := p0d_deposit cfg S0 p Bm C K KD l hl k ctx st d hd hi.base
  refine ⟨h1, fun r hr => ?_⟩
  have hbase := h2 r hr
  obtain ⟨ctx', st'⟩ := r
  simp only [] at hbase ⊢
  suffices hsuf : AltExtra cfg T committee ctx' st' ∧ WdInv cfg k st' from ⟨hbase, hsuf.1, hsuf.2⟩
  have hs := hi.base.inv.base.slash
  obtain ⟨t1, t2, t3, t4, t5⟩ := processDeposit_ctx cfg ctx ctx' st st' d hr
  have hsidx : ∃ l, ctx'.syncIndices = some l ∧ committee.pubkeys.mapM ctx'.pubkeyIndex = some l := by
    obtain ⟨li, a1, a2⟩ := hi.ext.sidx
    exact ⟨li, by rw [t3, a1], mapM_mono _ _ t5 _ _ a2⟩
  have hctxT : ctx'.totalActiveStake = T := by rw [t1]; exact hi.ext.ctxT
  have hctxS : ctx'.totalActiveStakeSqRoot = integer_squareroot T := by rw [t2]; exact hi.ext.ctxS
  have heb := t4 hi.ext.heb
  rcases processDeposit_shape cfg ctx ctx' st st' d hr with ⟨i, b, _, hlt, hb, hc, hst⟩ | ⟨hc, hst⟩ | ⟨hnone, hadd, c1, c2, c3, c4, c5⟩
  · have hv : st'.validators = st.validators := by rw [hst]
    refine ⟨⟨by rw [hst]; exact hi.ext.roots, by rw [hst]; exact hi.ext.partc, by rw [hst]; exact hi.ext.partp,
      by rw [total_active_balance_vals cfg st st' hv (by rw [hst])]; exact hi.ext.tab, hctxT, hctxS, heb, by rw [hst]; exact hi.ext.sc,
      hi.ext.sclen, hsidx, by rw [hst]; exact hi.ext.gt⟩, ?_⟩
    exact ⟨by rw [hst]; simp only [List.length_set]; exact hi.wd.wbal, by rw [hst]; exact hi.wd.vlim, by rw [hst]; exact hi.wd.curv,
      by rw [hst]; exact hi.wd.mono.nwi⟩
  · have hv : st'.validators = st.validators := by rw [hst]
    refine ⟨⟨by rw [hst]; exact hi.ext.roots, by rw [hst]; exact hi.ext.partc, by rw [hst]; exact hi.ext.partp,
      by rw [total_active_balance_vals cfg st st' hv (by rw [hst])]; exact hi.ext.tab, hctxT, hctxS, heb, by rw [hst]; exact hi.ext.sc,
      hi.ext.sclen, hsidx, by rw [hst]; exact hi.ext.gt⟩, ?_⟩
    exact ⟨by rw [hst]; exact hi.wd.wbal, by rw [hst]; exact hi.wd.vlim, by rw [hst]; exact hi.wd.curv,
      by rw [hst]; exact hi.wd.mono.nwi⟩
  · obtain ⟨eff, heff, hlim, hvals0, hbals, hslot, hmix, hfk, hsls, hdi, he1, hbr, hscc, hgt, hnwi, hnwv, hpart⟩ := addValidator_fields cfg
      { st with eth1_deposit_index := w64 (st.eth1_deposit_index + 1) } st' d.data.pubkey d.data.withdrawal_credentials d.data.amount hadd
    have hfork : st.fork ≠ .phase0 := by rw [hs.fork, hF]; exact hF0
    obtain ⟨hpc, hpp⟩ := hpart hfork
    simp only [] at hvals0 hslot hbr hscc hpc hpp hgt hnwi hnwv hbals hlim
    generalize hvdef : (⟨d.data.pubkey, d.data.withdrawal_credentials, eff, false, FAR_FUTURE_EPOCH, FAR_FUTURE_EPOCH, FAR_FUTURE_EPOCH,
      FAR_FUTURE_EPOCH⟩ : Validator) = v at hvals0
    have hfresh : FreshValidator v := by rw [← hvdef]; exact ⟨rfl, rfl, rfl, rfl, rfl⟩
    have hcurfar := hs.curfar (K.le (Nat.sub_le C (k + 1))).hC
    have hinact := fresh_inactive v hfresh _ hcurfar
    have hlen : st'.validators.length = st.validators.length + 1 := by rw [hvals0]; simp
    refine ⟨⟨by rw [hbr]; exact hi.ext.roots, ⟨by rw [hpc, hlen]; simp [hi.ext.partc.1], ?_⟩, ⟨by rw [hpp, hlen]; simp [hi.ext.partp.1], ?_⟩,
      by rw [total_active_balance_append cfg st st' v hslot hvals0 hinact]; exact hi.ext.tab, hctxT, hctxS, heb,
      by rw [hscc]; exact hi.ext.sc, hi.ext.sclen, hsidx, by rw [hgt]; exact hi.ext.gt⟩, ?_⟩
    · rw [hpc]
      intro e he
      rcases List.mem_append.mp he with h | h
      · exact hi.ext.partc.2 e h
      · simp only [List.mem_singleton] at h; omega
    · rw [hpp]
      intro e he
      rcases List.mem_append.mp he with h | h
      · exact hi.ext.partp.2 e h
      · simp only [List.mem_singleton] at h; omega
    · refine ⟨by rw [hbals, hlen]; simp [hi.wd.wbal], by rw [hlen]; omega, by rw [hnwv, hlen]; have := hi.wd.curv; omega, by rw [hnwi]; exact hi.wd.mono.nwi⟩

/-! ### the blocks of altair … deneb -/

/-- what the block containers of altair … deneb have in common: every list element inside its type limits, deposit
amounts within one unit of the balance budget, the sync aggregate's bit vector of the configured size with zero padding -/
structure AltBody (cfg : Config) (Bm : Nat) (block : SignedBlock) : Prop where
  aslen : ∀ op ∈ block.attester_slashings, op.attestation_1.attesting_indices.length ≤ cfg.MAX_VALIDATORS_PER_COMMITTEE ∧
    op.attestation_2.attesting_indices.length ≤ cfg.MAX_VALIDATORS_PER_COMMITTEE
  atyped : ∀ att ∈ block.attestations, att.bits_wellformed = true ∧ att.aggregation_bits.length ≤ cfg.MAX_VALIDATORS_PER_COMMITTEE
  dtyped : ∀ d ∈ block.deposits, d.proof.length = Block.DEPOSIT_CONTRACT_TREE_DEPTH + 1 ∧
    d.data.amount ≤ cfg.MAX_VALIDATORS_PER_COMMITTEE * (2 * Bm)
  styped : ∀ agg, block.sync_aggregate = some agg →
    agg.sync_committee_bits.length = 8 * ((cfg.SYNC_COMMITTEE_SIZE + 7) / 8) ∧
    (agg.sync_committee_bits.drop cfg.SYNC_COMMITTEE_SIZE).all (· = false) = true

/-- `OpSteps` for `AltInv` on a fork `F` after phase0, given the steps of the operations that only later forks have
(execution payload, withdrawals, BLS changes) -/
theorem opSteps_alt (cfg : Config) (S0 : State) (p Bm C T : Nat) (committee : SyncCommittee) (F : Fork) (K : P0Const cfg S0 Bm C) (KA : P0AConst cfg)
    (KD : P0DConst cfg Bm) (KL : AltConst cfg S0 Bm T) (hF : S0.fork = F) (hF0 : F ≠ .phase0) (block : SignedBlock) (hb : AltBody cfg Bm block)
    (hpayload : ∀ ctx payload, block.execution_payload = some payload →
      Step (fun k => AltInv cfg S0 p Bm C T committee k ctx) false [()] (fun st _ => Block.process_execution_payload cfg st block payload)
        (fun st _ => processExecutionPayload cfg st block payload))
    (hwithdrawals : F ≥ .capella → ∀ ctx payload, block.execution_payload = some payload →
      Step (fun k => AltInv cfg S0 p Bm C T committee k ctx) false [()] (fun st _ => Block.process_withdrawals cfg st payload)
        (fun st _ => processWithdrawals cfg st payload))
    (hbls : ∀ ctx, Step (fun k => AltInv cfg S0 p Bm C T committee k ctx) false block.bls_to_execution_changes
      (Block.process_bls_to_execution_change cfg) (fun st op => processBLSToExecutionChange st op)) :
    OpSteps cfg block F (AltInv cfg S0 p Bm C T committee) :=
  { mono := fun _ _ _ h => h.mono
    fork := fun _ _ _ h => by rw [h.base.inv.base.slash.fork]; exact hF
    header := fun k ctx st hi => alt_header cfg S0 p Bm C T committee block k ctx st hi
    payload := hpayload
    withdrawals := hwithdrawals
    randao := fun ctx => alt_randao cfg S0 p Bm C T committee K KA block ctx
    eth1 := fun ctx => alt_eth1 cfg S0 p Bm C T committee K block ctx
    proposerSlashing := fun ctx => alt_proposerSlashing cfg S0 p Bm C T committee K _ ctx
    attesterSlashing := fun ctx => alt_attesterSlashing cfg S0 p Bm C T committee K _ ctx hb.aslen
    attestation := fun ctx => alt_attestation cfg S0 p Bm C T committee F hF hF0 K KA KD KL _ ctx hb.atyped
    deposit := fun k ctx st d hd hi => alt_deposit cfg S0 p Bm C T committee F hF hF0 K KD _ hb.dtyped k ctx st d hd hi
    exit := fun ctx => alt_exit cfg S0 p Bm C T committee K _ ctx
    blsChange := hbls
    sync := fun ctx agg hsa => alt_sync cfg S0 p Bm C T committee K KA KD KL ctx agg (hb.styped agg hsa).1 (hb.styped agg hsa).2 }

/-! ### altair -/

/-- an altair block container: no execution payload, no BLS changes -/
structure AltairBlock (cfg : Config) (Bm : Nat) (block : SignedBlock) : Prop where
  bls : block.bls_to_execution_changes = []
  payload : block.execution_payload = none
  body : AltBody cfg Bm block

/-- `OpSteps` for `AltInv`: every field discharged for every altair block -/
theorem opSteps_altair (cfg : Config) (S0 : State) (p Bm C T : Nat) (committee : SyncCommittee) (K : P0Const cfg S0 Bm C) (KA : P0AConst cfg)
    (KD : P0DConst cfg Bm) (KL : AltConst cfg S0 Bm T) (hF : S0.fork = .altair) (block : SignedBlock) (hb : AltairBlock cfg Bm block) :
    OpSteps cfg block .altair (AltInv cfg S0 p Bm C T committee) :=
  opSteps_alt cfg S0 p Bm C T committee .altair K KA KD KL hF (by decide) block hb.body
    (fun ctx payload hpl => by rw [hb.payload] at hpl; cases hpl)
    (fun _ ctx payload hpl => by rw [hb.payload] at hpl; cases hpl)
    (fun ctx k st x hx => by rw [hb.bls] at hx; cases hx)

/-- `processBlock_altair_eq`: for EVERY altair block, `ProcessBlock` simulates `process_block`, and the state after an
accepted block satisfies the invariant again (with the budget that is left) -/
theorem processBlock_altair (cfg : Config) (S0 : State) (p Bm C T k : Nat) (committee : SyncCommittee) (K : P0Const cfg S0 Bm C) (KA : P0AConst cfg)
    (KD : P0DConst cfg Bm) (KL : AltConst cfg S0 Bm T) (hF : S0.fork = .altair) (ctx : Ctx) (block : SignedBlock) (hb : AltairBlock cfg Bm block)
    (hi : AltInv cfg S0 p Bm C T committee (blockNeed block k) ctx S0) (htyped : Block.check_types cfg block = .ok ()) :
    Sim (Block.process_block cfg S0 block) (processBlock cfg ctx S0 block) ∧
    ∀ st', processBlock cfg ctx S0 block = .ok st' → ∃ ctx', AltInv cfg S0 p Bm C T committee k ctx' st' :=
  ⟨processBlock_sim (opSteps_altair cfg S0 p Bm C T committee K KA KD KL hF block hb) k ctx S0 hi htyped,
   processBlock_inv (opSteps_altair cfg S0 p Bm C T committee K KA KD KL hF block hb) k ctx S0 hi⟩

theorem postSlot_altair (cfg : Config) (S0 : State) (p Bm C T k : Nat) (committee : SyncCommittee) (K : P0Const cfg S0 Bm C) (KA : P0AConst cfg)
    (KD : P0DConst cfg Bm) (KL : AltConst cfg S0 Bm T) (hF : S0.fork = .altair) (ctx : Ctx) (block : SignedBlock) (hb : AltairBlock cfg Bm block)
    (hi : AltInv cfg S0 p Bm C T committee (blockNeed block k) ctx S0) (htyped : Block.check_types cfg block = .ok ())
    (r : Bytes) (hroot : block.o_post_root = some r) :
    Sim (Block.state_transition_post_slots cfg S0 block) (postSlotTransition cfg ctx S0 block) :=
  postSlot_sim (opSteps_altair cfg S0 p Bm C T committee K KA KD KL hF block hb) k ctx S0 hi htyped r hroot

/-! ### bellatrix: the execution payload -/

/-- an operation that leaves registry, slot, fork, slashings vector, balances, randao history and deposit index alone
keeps `P0DInv` -/
theorem P0DInv.keep_all {cfg : Config} {S0 : State} {p Bm C k : Nat} {ctx : Ctx} {st st' : State}
    (h : P0DInv cfg S0 p Bm C (k + 1) ctx st)
    (hv : st'.validators = st.validators) (hslot : st'.slot = st.slot) (hf : st'.fork = st.fork)
    (hsl : st'.slashings = st.slashings) (hb : st'.balances = st.balances) (hm : st'.randao_mixes = st.randao_mixes)
    (hd : st'.eth1_deposit_index = st.eth1_deposit_index) : P0DInv cfg S0 p Bm C k ctx st' :=
  h.after ⟨h.inv.base.keep hv hslot hf hsl hb (by rw [hm]) (seed_of_mixes cfg st st' _ _ hm),
    h.inv.comm.keep hv hslot (fun e _ _ => seed_of_mixes cfg st st' _ _ hm), h.inv.nd, h.inv.hcur⟩ (by rw [hv]) hd

/-- an accepted execution payload writes the latest payload header only -/
theorem processExecutionPayload_rec (cfg : Config) (st st' : State) (block : SignedBlock) (payload : ExecutionPayload)
    (h : processExecutionPayload cfg st block payload = .ok st') :
    st' = { st with latest_execution_payload_header := some payload.fields } := by
  unfold processExecutionPayload at h
  simp only [guard_bind, ofOpt_bind, rget_bind] at h
  repeat' split at h
  all_goals first | (cases h; done) | skip
  all_goals
    cases ht : timeAtSlot cfg st.slot st.genesis_time with
    | ok t =>
      rw [ht] at h
      simp only [res_bind_ok, guard_bind] at h
      repeat' split at h
      all_goals first | (cases h; done) | (cases h; rfl)
    | err => rw [ht] at h; cases h
    | panic => rw [ht] at h; cases h
    | outOfFuel => rw [ht] at h; cases h

theorem alt_payload (cfg : Config) (S0 : State) (p Bm C T : Nat) (committee : SyncCommittee) (F : Fork) (hF : S0.fork = F)
    (hFb : F ≥ .bellatrix) (K : P0Const cfg S0 Bm C) (hsps : 0 < cfg.SECONDS_PER_SLOT) (block : SignedBlock) (ctx : Ctx)
    (payload : ExecutionPayload) (hx : payload.fields.extra_data.size ≤ cfg.MAX_EXTRA_DATA_BYTES) :
    Step (fun k => AltInv cfg S0 p Bm C T committee k ctx) false [()] (fun st _ => Block.process_execution_payload cfg st block payload)
      (fun st _ => processExecutionPayload cfg st block payload) := by
  intro k st u hu hi
  have hf : st.fork ≥ .bellatrix := by rw [hi.base.inv.base.slash.fork, hF]; exact hFb
  refine ⟨sim_payload cfg st block payload hf hx hi.base.inv.base.mixes K.hpos hsps hi.ext.gt, fun st' h => ⟨?_, fun hf => by cases hf⟩⟩
  show AltInv cfg S0 p Bm C T committee k ctx st'
  have hrec := processExecutionPayload_rec cfg st st' block payload h
  exact hi.keepx (hi.base.keep_all (by rw [hrec]) (by rw [hrec]) (by rw [hrec]) (by rw [hrec]) (by rw [hrec]) (by rw [hrec]) (by rw [hrec]))
    (by rw [hrec]; exact ⟨rfl, rfl, rfl, rfl, rfl, rfl, rfl, rfl⟩) (total_active_balance_vals cfg st st' (by rw [hrec]) (by rw [hrec])) (by rw [hrec])

/-- a bellatrix block container: no BLS changes; the payload's `extra_data` inside its type limit -/
structure BellatrixBlock (cfg : Config) (Bm : Nat) (block : SignedBlock) : Prop where
  bls : block.bls_to_execution_changes = []
  xdata : ∀ payload, block.execution_payload = some payload → payload.fields.extra_data.size ≤ cfg.MAX_EXTRA_DATA_BYTES
  body : AltBody cfg Bm block

theorem opSteps_bellatrix (cfg : Config) (S0 : State) (p Bm C T : Nat) (committee : SyncCommittee) (K : P0Const cfg S0 Bm C) (KA : P0AConst cfg)
    (KD : P0DConst cfg Bm) (KL : AltConst cfg S0 Bm T) (hsps : 0 < cfg.SECONDS_PER_SLOT) (hF : S0.fork = .bellatrix) (block : SignedBlock)
    (hb : BellatrixBlock cfg Bm block) : OpSteps cfg block .bellatrix (AltInv cfg S0 p Bm C T committee) :=
  opSteps_alt cfg S0 p Bm C T committee .bellatrix K KA KD KL hF (by decide) block hb.body
    (fun ctx payload hpl => alt_payload cfg S0 p Bm C T committee .bellatrix hF (by decide) K hsps block ctx payload (hb.xdata payload hpl))
    (fun hge => absurd hge (by decide))
    (fun ctx k st x hx => by rw [hb.bls] at hx; cases hx)

/-- `processBlock_bellatrix_eq`: for EVERY bellatrix block (the engine's verdict is an input) -/
theorem processBlock_bellatrix (cfg : Config) (S0 : State) (p Bm C T k : Nat) (committee : SyncCommittee) (K : P0Const cfg S0 Bm C) (KA : P0AConst cfg)
    (KD : P0DConst cfg Bm) (KL : AltConst cfg S0 Bm T) (hsps : 0 < cfg.SECONDS_PER_SLOT) (hF : S0.fork = .bellatrix) (ctx : Ctx) (block : SignedBlock)
    (hb : BellatrixBlock cfg Bm block)
    (hi : AltInv cfg S0 p Bm C T committee (blockNeed block k) ctx S0) (htyped : Block.check_types cfg block = .ok ()) :
    Sim (Block.process_block cfg S0 block) (processBlock cfg ctx S0 block) ∧
    ∀ st', processBlock cfg ctx S0 block = .ok st' → ∃ ctx', AltInv cfg S0 p Bm C T committee k ctx' st' :=
  ⟨processBlock_sim (opSteps_bellatrix cfg S0 p Bm C T committee K KA KD KL hsps hF block hb) k ctx S0 hi htyped,
   processBlock_inv (opSteps_bellatrix cfg S0 p Bm C T committee K KA KD KL hsps hF block hb) k ctx S0 hi⟩

theorem postSlot_bellatrix (cfg : Config) (S0 : State) (p Bm C T k : Nat) (committee : SyncCommittee) (K : P0Const cfg S0 Bm C) (KA : P0AConst cfg)
    (KD : P0DConst cfg Bm) (KL : AltConst cfg S0 Bm T) (hsps : 0 < cfg.SECONDS_PER_SLOT) (hF : S0.fork = .bellatrix) (ctx : Ctx) (block : SignedBlock)
    (hb : BellatrixBlock cfg Bm block)
    (hi : AltInv cfg S0 p Bm C T committee (blockNeed block k) ctx S0) (htyped : Block.check_types cfg block = .ok ())
    (r : Bytes) (hroot : block.o_post_root = some r) :
    Sim (Block.state_transition_post_slots cfg S0 block) (postSlotTransition cfg ctx S0 block) :=
  postSlot_sim (opSteps_bellatrix cfg S0 p Bm C T committee K KA KD KL hsps hF block hb) k ctx S0 hi htyped r hroot

/-! ### capella: BLS-to-execution changes -/

/-- an accepted BLS change rewrites the withdrawal credentials of one validator -/
theorem processBLSToExecutionChange_shape (st st' : State) (op : SignedBLSToExecutionChange)
    (h : processBLSToExecutionChange st op = .ok st') :
    ∃ v wc, st.validators[op.validator_index]? = some v ∧
      st' = { st with validators := st.validators.set op.validator_index { v with withdrawal_credentials := wc } } := by
  unfold processBLSToExecutionChange at h
  simp only [guard_bind, rget_bind] at h
  repeat' split at h
  all_goals first | (cases h; done) | skip
  rename_i v hv _ _ _
  cases h
  exact ⟨v, _, hv, rfl⟩

/-- `SlashInv` only looks at effective balances, activity, exit and withdrawable epochs of the registry -/
theorem SlashInv.of_same {cfg : Config} {s0 : State} {p A Bm C j : Nat} {st st' : State}
    (h : SlashInv cfg s0 p A Bm C j st) (hsc : SameCommittees cfg st st')
    (hex : st'.validators.map (·.exit_epoch) = st.validators.map (·.exit_epoch))
    (hwd : st'.validators.map (·.withdrawable_epoch) = st.validators.map (·.withdrawable_epoch))
    (hf : st'.fork = st.fork) (hsl : st'.slashings = st.slashings) (hb : st'.balances = st.balances) :
    SlashInv cfg s0 p A Bm C j st' := by
  have hd := hsc.duties
  have hcur : st.slot / cfg.SLOTS_PER_EPOCH = s0.slot / cfg.SLOTS_PER_EPOCH := by rw [h.slot]
  have heffm := map_eff_same cfg st st' hsc
  obtain ⟨hexits, hq⟩ := exits_congr st'.validators st.validators hex
  refine ⟨by rw [hsc.1]; exact h.slot, by rw [hf]; exact h.fork, by rw [proposer_frame cfg st st' hd]; exact h.proposer, ?_, ?_, ?_, ?_,
    by rw [hsl]; exact h.slashings, by rw [hb]; exact h.balances, by rw [hsl]; exact h.slen⟩
  · rw [← h.active]
    apply filter_length_congr _ _ _ hd.2.2.1.symm
    intro j w w' h1 h2
    have := (hd.2.2.2 j w w' h1 h2).2
    unfold get_current_epoch compute_epoch_at_slot at this
    rw [hcur] at this
    exact this
  · unfold qmax farCount
    rw [hexits, hq]
    exact h.budget
  · intro v hv
    have h1 : v.exit_epoch ∈ st'.validators.map (·.exit_epoch) := List.mem_map.mpr ⟨v, hv, rfl⟩
    have h2 : v.withdrawable_epoch ∈ st'.validators.map (·.withdrawable_epoch) := List.mem_map.mpr ⟨v, hv, rfl⟩
    rw [hex] at h1
    rw [hwd] at h2
    obtain ⟨u1, hu1, e1⟩ := List.mem_map.mp h1
    obtain ⟨u2, hu2, e2⟩ := List.mem_map.mp h2
    exact ⟨by rw [← e1]; exact (h.reg u1 hu1).1, by rw [← e2]; exact (h.reg u2 hu2).2⟩
  · intro v hv
    have h1 : v.effective_balance ∈ st'.validators.map (·.effective_balance) := List.mem_map.mpr ⟨v, hv, rfl⟩
    rw [heffm] at h1
    obtain ⟨u1, hu1, e1⟩ := List.mem_map.mp h1
    rw [← e1]; exact h.eff u1 hu1

theorem alt_bls (cfg : Config) (S0 : State) (p Bm C T : Nat) (committee : SyncCommittee) (l : List SignedBLSToExecutionChange) (ctx : Ctx) :
    Step (fun k => AltInv cfg S0 p Bm C T committee k ctx) false l (Block.process_bls_to_execution_change cfg)
      (fun st op => processBLSToExecutionChange st op) := by
  intro k st op hop hi
  refine ⟨sim_blsChange cfg st op, fun st' h => ⟨?_, fun hf => by cases hf⟩⟩
  show AltInv cfg S0 p Bm C T committee k ctx st'
  have h : processBLSToExecutionChange st op = .ok st' := h
  obtain ⟨v, wc, hv, hrec⟩ := processBLSToExecutionChange_shape st st' op h
  have hvals : st'.validators = st.validators.set op.validator_index { v with withdrawal_credentials := wc } := by rw [hrec]
  have hsc : SameCommittees cfg st st' :=
    sameCommittees_set_same cfg st st' op.validator_index v { v with withdrawal_credentials := wc } (by rw [hrec]) (by rw [hrec]) hv hvals rfl rfl rfl
  have hlen : st'.validators.length = st.validators.length := hsc.2.2.1
  have hsk : SlashInv cfg S0 p ctx.activeCount Bm (C - (k + 1)) (k * cfg.MAX_VALIDATORS_PER_COMMITTEE) st := hi.base.inv.mono.base.slash
  have hs' := hsk.of_same hsc (by rw [hvals]; exact map_set_same (·.exit_epoch) _ _ v _ hv rfl)
    (by rw [hvals]; exact map_set_same (·.withdrawable_epoch) _ _ v _ hv rfl) (by rw [hrec]) (by rw [hrec]) (by rw [hrec])
  have hinv : P0AInv cfg S0 p Bm (C - (k + 1)) k ctx st' :=
    ⟨⟨hs', hi.base.inv.base.ctxp, by rw [hlen]; exact hi.base.inv.base.plt, by rw [hrec]; exact hi.base.inv.base.mixes,
      by rw [hlen]; exact hi.base.inv.base.vlen⟩, hi.base.inv.comm.of_same hsc, hi.base.inv.nd, hi.base.inv.hcur⟩
  exact hi.samex (hi.base.after hinv (by rw [hvals]; exact map_set_same (·.pubkey) _ _ v _ hv rfl) (by rw [hrec]))
    (by rw [hrec]; exact ⟨rfl, rfl, rfl, rfl, rfl, rfl, rfl, rfl⟩) hsc

/-! ### capella: withdrawals -/

/-- the withdrawals the sweep collects carry consecutive indices from the state's withdrawal index on, name validators
of the registry, and are at most `MAX_WITHDRAWALS_PER_PAYLOAD` many -/
theorem withdrawalsLoop_bounds (cfg : Config) (s : State) (epoch : Nat) (base : Nat) :
    ∀ (fuel i wi vi : Nat) (ws r : List Withdrawal), ws.length < cfg.MAX_WITHDRAWALS_PER_PAYLOAD → wi = base + ws.length →
      (∀ w ∈ ws, w.index < wi ∧ w.validator_index < s.validators.length) → wi + fuel < 2 ^ 64 →
      withdrawalsLoop cfg s epoch s.validators.length fuel i wi vi ws = .ok r →
      r.length ≤ cfg.MAX_WITHDRAWALS_PER_PAYLOAD ∧ ∀ w ∈ r, w.index < base + r.length ∧ w.validator_index < s.validators.length := by
  intro fuel
  induction fuel with
  | zero => intro i wi vi ws r _ _ _ _ h; unfold withdrawalsLoop at h; cases h
  | succ f ih =>
    intro i wi vi ws r hlt hwi hws hroom h
    have hdone : r = ws → r.length ≤ cfg.MAX_WITHDRAWALS_PER_PAYLOAD ∧ ∀ w ∈ r, w.index < base + r.length ∧ w.validator_index < s.validators.length := by
      intro hr; subst hr
      exact ⟨by omega, fun w hw => ⟨by have := (hws w hw).1; omega, (hws w hw).2⟩⟩
    unfold withdrawalsLoop at h
    cases hv : s.validators[vi]? with
    | none => rw [hv] at h; cases h
    | some validator =>
      cases hb : s.balances[vi]? with
      | none => rw [hv, hb] at h; cases h
      | some balance =>
        rw [hv, hb] at h
        simp only [] at h
        have hvi : vi < s.validators.length := (List.getElem?_eq_some_iff.mp hv).1
        split at h
        · cases h; exact hdone rfl
        · -- the step
          have hw1 : (wi + 1) % 2 ^ 64 = wi + 1 := Nat.mod_eq_of_lt (by omega)
          have hstep : ∀ (ws' : List Withdrawal) (wi' : Nat), ws'.length ≤ cfg.MAX_WITHDRAWALS_PER_PAYLOAD → wi' = base + ws'.length →
              (∀ w ∈ ws', w.index < wi' ∧ w.validator_index < s.validators.length) → wi' + f < 2 ^ 64 →
              (if ws'.length = cfg.MAX_WITHDRAWALS_PER_PAYLOAD then Res.ok ws'
                else if s.validators.length = 0 then Res.panic
                else withdrawalsLoop cfg s epoch s.validators.length f (i + 1) wi' ((vi + 1) % 2 ^ 64 % s.validators.length) ws') = .ok r →
              r.length ≤ cfg.MAX_WITHDRAWALS_PER_PAYLOAD ∧ ∀ w ∈ r, w.index < base + r.length ∧ w.validator_index < s.validators.length := by
            intro ws' wi' hle hwi' hws' hroom' h'
            split at h'
            · cases h'
              exact ⟨hle, fun w hw => ⟨by have := (hws' w hw).1; omega, (hws' w hw).2⟩⟩
            · rename_i hne
              split at h'
              · cases h'
              · exact ih _ wi' _ ws' r (by omega) hwi' hws' hroom' h'
          have happ : ∀ (a : Bytes) (amt : Nat), ∀ w ∈ ws ++ [(⟨wi, vi, a, amt⟩ : Withdrawal)], w.index < wi + 1 ∧ w.validator_index < s.validators.length := by
            intro a amt w hw
            rcases List.mem_append.mp hw with h1 | h1
            · exact ⟨by have := (hws w h1).1; omega, (hws w h1).2⟩
            · simp only [List.mem_singleton] at h1
              subst h1; exact ⟨by simp, hvi⟩
          by_cases hfull : Block.is_fully_withdrawable_validator validator balance epoch = true
          · simp only [hfull, if_true, hw1] at h
            exact hstep _ _ (by simp; omega) (by simp; omega) (happ _ _) (by omega) h
          · by_cases hpart : Block.is_partially_withdrawable_validator cfg validator balance = true
            · simp only [hfull, hpart, if_true, if_false, Bool.false_eq_true, hw1] at h
              exact hstep _ _ (by simp; omega) (by simp; omega) (happ _ _) (by omega) h
            · simp only [hfull, hpart, if_false, Bool.false_eq_true] at h
              exact hstep _ _ (by omega) hwi hws (by omega) h

theorem expectedWithdrawals_bounds (cfg : Config) (s : State) (r : List Withdrawal) (hmax : cfg.MAX_WITHDRAWALS_PER_PAYLOAD ≠ 0)
    (hroom : s.next_withdrawal_index + s.validators.length + 1 < 2 ^ 64) (h : expectedWithdrawals cfg s = .ok r) :
    r.length ≤ cfg.MAX_WITHDRAWALS_PER_PAYLOAD ∧
    ∀ w ∈ r, w.index < s.next_withdrawal_index + r.length ∧ w.validator_index < s.validators.length := by
  unfold expectedWithdrawals at h
  exact withdrawalsLoop_bounds cfg s _ s.next_withdrawal_index _ _ _ _ [] r (by simp; omega) (by simp) (fun w hw => by cases hw) (by omega) h

/-- the balance loop of `ProcessWithdrawals` writes the balances only, none of them upwards -/
theorem withdrawalsApplyLoop_shape : ∀ (es ws : List Withdrawal) (s s' : State), withdrawalsApplyLoop es ws s = .ok s' →
    ∃ b', s' = { s with balances := b' } ∧ b'.length = s.balances.length ∧ ∀ B, (∀ x ∈ s.balances, x ≤ B) → ∀ x ∈ b', x ≤ B := by
  intro es
  induction es with
  | nil =>
    intro ws s s' h
    unfold withdrawalsApplyLoop at h
    cases h
    exact ⟨s.balances, rfl, rfl, fun B hB => hB⟩
  | cons e es ih =>
    intro ws s s' h
    unfold withdrawalsApplyLoop at h
    cases ws with
    | nil => cases h
    | cons w ws' =>
      simp only [] at h
      split at h
      · cases h
      · cases hd : decreaseBalance s e.validator_index e.amount with
        | ok s1 =>
          rw [hd] at h
          simp only [] at h
          unfold decreaseBalance at hd
          simp only [rget_bind] at hd
          cases hx : s.balances[e.validator_index]? with
          | none => rw [hx] at hd; cases hd
          | some x =>
            rw [hx] at hd
            simp only [res_bind_ok, Res.pure_eq] at hd
            cases hd
            obtain ⟨b', h1, h2, h3⟩ := ih ws' _ s' h
            refine ⟨b', h1, by rw [h2]; simp, fun B hB => h3 B ?_⟩
            simp only []
            exact mem_set_le _ _ _ _ hB (by have := hB x (List.mem_of_getElem? hx); split <;> omega)
        | err => rw [hd] at h; cases h
        | panic => rw [hd] at h; cases h
        | outOfFuel => rw [hd] at h; cases h

/-- an accepted `ProcessWithdrawals`: balances (none upwards), the withdrawal index (by at most one payload's worth) and
the sweep cursor (inside the registry) -/
theorem processWithdrawals_shape (cfg : Config) (st st' : State) (payload : ExecutionPayload)
    (hmax : cfg.MAX_WITHDRAWALS_PER_PAYLOAD ≠ 0)
    (hroom : st.next_withdrawal_index + st.validators.length + 1 < 2 ^ 64)
    (hroom2 : st.next_withdrawal_index + cfg.MAX_WITHDRAWALS_PER_PAYLOAD < 2 ^ 64)
    (h : processWithdrawals cfg st payload = .ok st') :
    ∃ b' nwi' nwv', st' = { st with balances := b', next_withdrawal_index := nwi', next_withdrawal_validator_index := nwv' } ∧
      b'.length = st.balances.length ∧ (∀ B, (∀ x ∈ st.balances, x ≤ B) → ∀ x ∈ b', x ≤ B) ∧
      nwi' ≤ st.next_withdrawal_index + cfg.MAX_WITHDRAWALS_PER_PAYLOAD ∧ nwv' < st.validators.length := by
  unfold processWithdrawals at h
  cases he : expectedWithdrawals cfg st with
  | ok expected =>
    rw [he] at h
    simp only [res_bind_ok, guard_bind] at h
    obtain ⟨hle, hws⟩ := expectedWithdrawals_bounds cfg st expected hmax hroom he
    split at h
    · cases hl : withdrawalsApplyLoop expected payload.withdrawals st with
      | ok s1 =>
        rw [hl] at h
        simp only [res_bind_ok] at h
        obtain ⟨b', hs1, hbl, hbb⟩ := withdrawalsApplyLoop_shape expected payload.withdrawals st s1 hl
        subst hs1
        cases hg : expected.getLast? with
        | none =>
          rw [hg] at h
          simp only [] at h
          split at h
          · cases h
          · split at h
            · cases h
            · rename_i hne
              simp only [Res.pure_eq] at h
              cases h
              exact ⟨b', _, _, rfl, hbl, hbb, by omega, Nat.mod_lt _ (by omega)⟩
        | some latest =>
          rw [hg] at h
          simp only [] at h
          have hmem : latest ∈ expected := List.mem_of_getLast? hg
          have hli := (hws latest hmem).1
          have hw : w64 (latest.index + 1) = latest.index + 1 := w64_id _ (by omega)
          split at h
          · split at h
            · cases h
            · rename_i hne
              simp only [Res.pure_eq] at h
              cases h
              exact ⟨b', _, _, rfl, hbl, hbb, by rw [hw]; omega, Nat.mod_lt _ (by omega)⟩
          · split at h
            · cases h
            · rename_i hne
              simp only [Res.pure_eq] at h
              cases h
              exact ⟨b', _, _, rfl, hbl, hbb, by rw [hw]; omega, Nat.mod_lt _ (by omega)⟩
      | err => rw [hl] at h; cases h
      | panic => rw [hl] at h; cases h
      | outOfFuel => rw [hl] at h; cases h
    · cases h
  | err => rw [he] at h; cases h
  | panic => rw [he] at h; cases h
  | outOfFuel => rw [he] at h; cases h

/-- configuration facts for capella and deneb -/
structure CapConst (cfg : Config) : Prop where
  hmaxw : cfg.MAX_WITHDRAWALS_PER_PAYLOAD ≠ 0
  hsweep : cfg.VALIDATOR_REGISTRY_LIMIT + cfg.MAX_VALIDATORS_PER_WITHDRAWALS_SWEEP < 2 ^ 64

set_option maxHeartbeats 1000000 in
theorem alt_withdrawals (cfg : Config) (S0 : State) (p Bm C T : Nat) (committee : SyncCommittee) (KC : CapConst cfg) (ctx : Ctx)
    (payload : ExecutionPayload) :
    Step (fun k => AltInv cfg S0 p Bm C T committee k ctx) false [()] (fun st _ => Block.process_withdrawals cfg st payload)
      (fun st _ => processWithdrawals cfg st payload) := by
  intro k st u hu hi
  have hnwi := hi.wd.nwi
  rw [Nat.succ_mul] at hnwi
  have hvlim := hi.wd.vlim
  have hcurv := hi.wd.curv
  have hsweep := KC.hsweep
  have hroom : st.next_withdrawal_index + st.validators.length + 1 < 2 ^ 64 := by omega
  have hroom2 : st.next_withdrawal_index + cfg.MAX_WITHDRAWALS_PER_PAYLOAD < 2 ^ 64 := by omega
  refine ⟨sim_withdrawals cfg st payload hi.wd.wbal (by omega) hcurv (by omega) ?_ (by omega) KC.hmaxw, fun st' h => ⟨?_, fun hf => by cases hf⟩⟩
  · intro expected he w hw
    obtain ⟨hle, hws⟩ := expectedWithdrawals_bounds cfg st expected KC.hmaxw hroom he
    have := hws w hw
    omega
  · show AltInv cfg S0 p Bm C T committee k ctx st'
    have h : processWithdrawals cfg st payload = .ok st' := h
    obtain ⟨b', nwi', nwv', hrec, hblen, hbb, hn1, hn2⟩ := processWithdrawals_shape cfg st st' payload KC.hmaxw hroom hroom2 h
    have hsk : SlashInv cfg S0 p ctx.activeCount Bm (C - (k + 1)) (k * cfg.MAX_VALIDATORS_PER_COMMITTEE) st := hi.base.inv.mono.base.slash
    have hs' : SlashInv cfg S0 p ctx.activeCount Bm (C - (k + 1)) (k * cfg.MAX_VALIDATORS_PER_COMMITTEE) st' := by
      apply hsk.with_balances (by rw [hrec]) (by rw [hrec]) (by rw [hrec]) (by rw [hrec]) (by rw [hrec])
      intro x hx
      rw [hrec] at hx
      have hold := hsk.balances
      generalize k * cfg.MAX_VALIDATORS_PER_COMMITTEE * (2 * Bm) = W at hold ⊢
      have := hbb (2 ^ 64 - 1 - W) (fun y hy => by have := hold y hy; omega) x hx
      have hne : st.balances ≠ [] ∨ st.balances = [] := by by_cases h0 : st.balances = [] <;> simp [h0]
      rcases hne with h0 | h0
      · obtain ⟨y, hy⟩ := List.exists_mem_of_ne_nil _ h0
        have := hold y hy
        omega
      · have : b' = [] := by apply List.eq_nil_of_length_eq_zero; rw [hblen, h0]; rfl
        rw [this] at hx; cases hx
    have hinv : P0AInv cfg S0 p Bm (C - (k + 1)) k ctx st' :=
      ⟨⟨hs', hi.base.inv.base.ctxp, by rw [hrec]; exact hi.base.inv.base.plt, by rw [hrec]; exact hi.base.inv.base.mixes,
        by rw [hrec]; exact hi.base.inv.base.vlen⟩,
       hi.base.inv.comm.keep (by rw [hrec]) (by rw [hrec]) (fun e _ _ => seed_of_mixes cfg st st' _ _ (by rw [hrec])), hi.base.inv.nd, hi.base.inv.hcur⟩
    refine ⟨hi.base.after hinv (by rw [hrec]) (by rw [hrec]), ?_, ?_⟩
    · exact ⟨by rw [hrec]; exact hi.ext.roots, by rw [hrec]; exact hi.ext.partc, by rw [hrec]; exact hi.ext.partp,
        by rw [total_active_balance_vals cfg st st' (by rw [hrec]) (by rw [hrec])]; exact hi.ext.tab, hi.ext.ctxT, hi.ext.ctxS,
        by rw [hrec]; exact hi.ext.heb, by rw [hrec]; exact hi.ext.sc, hi.ext.sclen, hi.ext.sidx, by rw [hrec]; exact hi.ext.gt⟩
    · refine ⟨by rw [hrec]; simp only []; rw [hblen]; exact hi.wd.wbal, by rw [hrec]; exact hvlim, by rw [hrec]; exact hn2, ?_⟩
      rw [hrec]; simp only []; omega

/-! ### capella and deneb blocks -/

/-- a capella / deneb block container: the payload's `extra_data` inside its type limit, BLS changes in any number -/
structure CapellaBlock (cfg : Config) (Bm : Nat) (block : SignedBlock) : Prop where
  xdata : ∀ payload, block.execution_payload = some payload → payload.fields.extra_data.size ≤ cfg.MAX_EXTRA_DATA_BYTES
  body : AltBody cfg Bm block

/-- `OpSteps` for `AltInv`: every field discharged for every capella or deneb block -/
theorem opSteps_capella (cfg : Config) (S0 : State) (p Bm C T : Nat) (committee : SyncCommittee) (F : Fork) (hFc : F ≥ .capella)
    (K : P0Const cfg S0 Bm C) (KA : P0AConst cfg)
    (KD : P0DConst cfg Bm) (KL : AltConst cfg S0 Bm T) (KC : CapConst cfg) (hsps : 0 < cfg.SECONDS_PER_SLOT) (hF : S0.fork = F) (block : SignedBlock)
    (hb : CapellaBlock cfg Bm block) : OpSteps cfg block F (AltInv cfg S0 p Bm C T committee) :=
  opSteps_alt cfg S0 p Bm C T committee F K KA KD KL hF (by intro h; rw [h] at hFc; exact absurd hFc (by decide)) block hb.body
    (fun ctx payload hpl => alt_payload cfg S0 p Bm C T committee F hF (by cases F <;> first | decide | exact absurd hFc (by decide)) K hsps block ctx payload (hb.xdata payload hpl))
    (fun _ ctx payload hpl => alt_withdrawals cfg S0 p Bm C T committee KC ctx payload)
    (fun ctx => alt_bls cfg S0 p Bm C T committee _ ctx)

theorem processBlock_capella (cfg : Config) (S0 : State) (p Bm C T k : Nat) (committee : SyncCommittee) (F : Fork) (hFc : F ≥ .capella)
    (K : P0Const cfg S0 Bm C) (KA : P0AConst cfg)
    (KD : P0DConst cfg Bm) (KL : AltConst cfg S0 Bm T) (KC : CapConst cfg) (hsps : 0 < cfg.SECONDS_PER_SLOT) (hF : S0.fork = F) (ctx : Ctx) (block : SignedBlock)
    (hb : CapellaBlock cfg Bm block)
    (hi : AltInv cfg S0 p Bm C T committee (blockNeed block k) ctx S0) (htyped : Block.check_types cfg block = .ok ()) :
    Sim (Block.process_block cfg S0 block) (processBlock cfg ctx S0 block) ∧
    ∀ st', processBlock cfg ctx S0 block = .ok st' → ∃ ctx', AltInv cfg S0 p Bm C T committee k ctx' st' :=
  ⟨processBlock_sim (opSteps_capella cfg S0 p Bm C T committee F hFc K KA KD KL KC hsps hF block hb) k ctx S0 hi htyped,
   processBlock_inv (opSteps_capella cfg S0 p Bm C T committee F hFc K KA KD KL KC hsps hF block hb) k ctx S0 hi⟩

theorem postSlot_capella (cfg : Config) (S0 : State) (p Bm C T k : Nat) (committee : SyncCommittee) (F : Fork) (hFc : F ≥ .capella)
    (K : P0Const cfg S0 Bm C) (KA : P0AConst cfg)
    (KD : P0DConst cfg Bm) (KL : AltConst cfg S0 Bm T) (KC : CapConst cfg) (hsps : 0 < cfg.SECONDS_PER_SLOT) (hF : S0.fork = F) (ctx : Ctx) (block : SignedBlock)
    (hb : CapellaBlock cfg Bm block)
    (hi : AltInv cfg S0 p Bm C T committee (blockNeed block k) ctx S0) (htyped : Block.check_types cfg block = .ok ())
    (r : Bytes) (hroot : block.o_post_root = some r) :
    Sim (Block.state_transition_post_slots cfg S0 block) (postSlotTransition cfg ctx S0 block) :=
  postSlot_sim (opSteps_capella cfg S0 p Bm C T committee F hFc K KA KD KL KC hsps hF block hb) k ctx S0 hi htyped r hroot

/-! ### all five forks -/

/-- the hypotheses of the per-fork theorems, as one disjunction over the fork of the pre-state `S0`: the block is of the
fork's container class and `S0` satisfies the fork's invariant with `blockNeed block k` units of budget -/
def Admissible (cfg : Config) (S0 : State) (p Bm C T : Nat) (committee : SyncCommittee) (k : Nat) (ctx : Ctx) (block : SignedBlock) : Prop :=
  (S0.fork = .phase0 ∧ Phase0Block cfg Bm block ∧ P0DInv cfg S0 p Bm C (blockNeed block k) ctx S0) ∨
  (S0.fork = .altair ∧ AltConst cfg S0 Bm T ∧ AltairBlock cfg Bm block ∧ AltInv cfg S0 p Bm C T committee (blockNeed block k) ctx S0) ∨
  (S0.fork = .bellatrix ∧ AltConst cfg S0 Bm T ∧ 0 < cfg.SECONDS_PER_SLOT ∧ BellatrixBlock cfg Bm block ∧
    AltInv cfg S0 p Bm C T committee (blockNeed block k) ctx S0) ∨
  (S0.fork ≥ .capella ∧ AltConst cfg S0 Bm T ∧ CapConst cfg ∧ 0 < cfg.SECONDS_PER_SLOT ∧ CapellaBlock cfg Bm block ∧
    AltInv cfg S0 p Bm C T committee (blockNeed block k) ctx S0)

/-- `ProcessBlock` simulates `process_block` on every fork, with no premise about the operations -/
theorem processBlock_any (cfg : Config) (S0 : State) (p Bm C T k : Nat) (committee : SyncCommittee) (K : P0Const cfg S0 Bm C) (KA : P0AConst cfg)
    (KD : P0DConst cfg Bm) (ctx : Ctx) (block : SignedBlock) (ha : Admissible cfg S0 p Bm C T committee k ctx block)
    (htyped : Block.check_types cfg block = .ok ()) :
    Sim (Block.process_block cfg S0 block) (processBlock cfg ctx S0 block) := by
  rcases ha with ⟨hF, hb, hi⟩ | ⟨hF, KL, hb, hi⟩ | ⟨hF, KL, hsps, hb, hi⟩ | ⟨hF, KL, KC, hsps, hb, hi⟩
  · exact (processBlock_phase0 cfg S0 p Bm C k K KA KD hF ctx block hb hi htyped).1
  · exact (processBlock_altair cfg S0 p Bm C T k committee K KA KD KL hF ctx block hb hi htyped).1
  · exact (processBlock_bellatrix cfg S0 p Bm C T k committee K KA KD KL hsps hF ctx block hb hi htyped).1
  · exact (processBlock_capella cfg S0 p Bm C T k committee S0.fork hF K KA KD KL KC hsps rfl ctx block hb hi htyped).1

/-- the same for `PostSlotTransition` -/
theorem postSlot_any (cfg : Config) (S0 : State) (p Bm C T k : Nat) (committee : SyncCommittee) (K : P0Const cfg S0 Bm C) (KA : P0AConst cfg)
    (KD : P0DConst cfg Bm) (ctx : Ctx) (block : SignedBlock) (ha : Admissible cfg S0 p Bm C T committee k ctx block)
    (htyped : Block.check_types cfg block = .ok ()) (r : Bytes) (hroot : block.o_post_root = some r) :
    Sim (Block.state_transition_post_slots cfg S0 block) (postSlotTransition cfg ctx S0 block) := by
  rcases ha with ⟨hF, hb, hi⟩ | ⟨hF, KL, hb, hi⟩ | ⟨hF, KL, hsps, hb, hi⟩ | ⟨hF, KL, KC, hsps, hb, hi⟩
  · exact postSlot_phase0 cfg S0 p Bm C k K KA KD hF ctx block hb hi htyped r hroot
  · exact postSlot_altair cfg S0 p Bm C T k committee K KA KD KL hF ctx block hb hi htyped r hroot
  · exact postSlot_bellatrix cfg S0 p Bm C T k committee K KA KD KL hsps hF ctx block hb hi htyped r hroot
  · exact postSlot_capella cfg S0 p Bm C T k committee S0.fork hF K KA KD KL KC hsps rfl ctx block hb hi htyped r hroot

/-- the disjunction leaves no fork out -/
theorem fork_cases (f : Fork) : f = .phase0 ∨ f = .altair ∨ f = .bellatrix ∨ f ≥ .capella := by
  cases f <;> simp <;> decide

end Zrnt.Proofs.BlockM
