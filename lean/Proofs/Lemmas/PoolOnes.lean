import Proofs.Lemmas.PoolBits
/-! `BitlistOnesCount` counts exactly the set bits below the delimiter — for every byte string. -/
namespace Zrnt.Pool

/-- number of set bits among the first `N` bit positions of `b` -/
def countBits (b : Bits) (N : Nat) : Nat := (((List.range N).map (bitAt b)).filter id).length

theorem onesCount_bools (b : Bits) : BitSpec.onesCount (toBools b) = countBits b (bitlistLen b) := rfl

theorem length_filter_id_map {α : Type} (f : α → Bool) (l : List α) :
    ((l.map f).filter id).length = (l.filter f).length := by
  induction l with
  | nil => rfl
  | cons a t ih => by_cases h : f a <;> simp [h, ih]

theorem bitAt_cons_lt (x : UInt8) (t : Bits) {j : Nat} (hj : j < 8) : bitAt (x :: t) j = x.toNat.testBit j := by
  simp [bitAt, Nat.div_eq_of_lt hj, Nat.mod_eq_of_lt hj]

theorem bitAt_cons_add (x : UInt8) (t : Bits) (i : Nat) : bitAt (x :: t) (8 + i) = bitAt t i := by
  have h1 : (8 + i) / 8 = i / 8 + 1 := by omega
  have h2 : (8 + i) % 8 = i % 8 := by omega
  simp [bitAt, h1, h2]

theorem countBits_cons (x : UInt8) (t : Bits) (N : Nat) : countBits (x :: t) (8 + N) = onesCount8 x + countBits t N := by
  unfold countBits
  rw [List.range_add, List.map_append, List.filter_append, List.length_append]
  congr 1
  · rw [length_filter_id_map, onesCount8]
    apply congrArg
    apply List.filter_congr
    intro j hj
    rw [bitAt_cons_lt x t (List.mem_range.mp hj)]
  · rw [List.map_map]
    congr 2
    apply List.map_congr_left
    intro i _
    simp [bitAt_cons_add]

/-- one byte: the bits below the highest set bit are the byte without that bit -/
theorem countBits_single_nat : ∀ n < 256,
    countBits [UInt8.ofNat n] (bitIndex (UInt8.ofNat n)) =
      if UInt8.ofNat n = 0 then 0
      else onesCount8 (UInt8.ofNat n ^^^ ((1 : UInt8) <<< UInt8.ofNat (bitIndex (UInt8.ofNat n)))) := by
  decide +kernel

theorem countBits_single (x : UInt8) :
    countBits [x] (bitIndex x) = if x = 0 then 0 else onesCount8 (x ^^^ ((1 : UInt8) <<< UInt8.ofNat (bitIndex x))) := by
  have := countBits_single_nat x.toNat x.toNat_lt
  simpa using this

/-- `onesCount` is the number of set bits of the denoted bit list — for EVERY byte string (also a
malformed one: empty, or ending in a zero byte). -/
theorem onesCount_spec' : ∀ b : Bits, onesCount b = BitSpec.onesCount (toBools b) := by
  intro b
  rw [onesCount_bools]
  induction b with
  | nil => rfl
  | cons x t ih =>
    cases t with
    | nil =>
      have h := countBits_single x
      simp only [onesCount, bitlistLen, List.getLast?_singleton, List.dropLast_singleton, List.map_nil, List.sum_nil,
        List.length_singleton, Nat.sub_self, Nat.zero_mul, Nat.zero_add]
      rw [h]
    | cons y t' =>
      have hl : (x :: y :: t').getLast? = (y :: t').getLast? := by simp [List.getLast?_cons_cons]
      obtain ⟨last, hlast⟩ : ∃ last, (y :: t').getLast? = some last := by
        cases h : (y :: t').getLast? with
        | none => simp at h
        | some l => exact ⟨l, rfl⟩
      have hlen : bitlistLen (x :: y :: t') = 8 + bitlistLen (y :: t') := by
        simp only [bitlistLen, hl, hlast, List.length_cons]; omega
      have hones : onesCount (x :: y :: t') = onesCount8 x + onesCount (y :: t') := by
        simp only [onesCount, hl, hlast, List.dropLast_cons_cons, List.map_cons, List.sum_cons]
        split <;> omega
      rw [hlen, countBits_cons, hones, ih]

end Zrnt.Pool
