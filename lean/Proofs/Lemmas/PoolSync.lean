import Proofs.Lemmas.PoolMap
import Zrnt.Pool.Spec
/-!
# SyncCommitteePool: the six rotating buffers against the three-slot window specification
-/
set_option linter.unusedSectionVars false
set_option linter.unusedSimpArgs false
namespace Zrnt.Pool
open Zrnt Zrnt.Pool.Spec

/-- wrap-around arithmetic facts on `UInt64` via `BitVec 64` and `omega` -/
macro "u64_omega" : tactic => `(tactic|
  (simp only [← UInt64.toBitVec_inj, UInt64.toBitVec_add, UInt64.toBitVec_sub, UInt64.toBitVec_ofNat,
      UInt64.toBitVec_one, ne_eq] at * <;> bv_omega))

/-- the messages a buffer holds -/
def msgsOf (b : MsgBuf) : List SyncMsg := b.entries.map (·.2)
/-- the contributions a buffer holds (root ↦ subnet ↦ list, flattened) -/
def contribsOf (b : ContribBuf) : List Contrib := b.entries.flatMap (fun e => e.2.entries.flatMap (·.2))

theorem window_cases (c s : UInt64) :
    (window c s = .prev ∧ s = c - 1) ∨ (window c s = .current ∧ s = c) ∨ (window c s = .next ∧ s = c + 1) ∨
    (window c s = .outside ∧ s ≠ c - 1 ∧ s ≠ c ∧ s ≠ c + 1) := by
  unfold window
  by_cases h1 : c = s + 1
  · left; exact ⟨by simp [h1], by u64_omega⟩
  · by_cases h2 : c = s
    · right; left; exact ⟨by simp [h1, h2], h2.symm⟩
    · by_cases h3 : c + 1 = s
      · right; right; left; exact ⟨by simp [h1, h2, h3], h3.symm⟩
      · right; right; right
        refine ⟨by simp [h1, h2, h3], ?_, ?_, ?_⟩ <;> u64_omega

theorem inWindow_iff (c s : UInt64) : inWindow c s = true ↔ s = c - 1 ∨ s = c ∨ s = c + 1 := by
  simp [inWindow, or_assoc]

theorem prev_ne_cur (c : UInt64) : c - 1 ≠ c := by u64_omega
theorem prev_ne_next (c : UInt64) : c - 1 ≠ c + 1 := by u64_omega
theorem cur_ne_next (c : UInt64) : c ≠ c + 1 := by u64_omega

/-! ## message buffers -/

structure MsgBufInv (b : MsgBuf) (msgs : List SyncMsg) (slot : UInt64) : Prop where
  wf : b.WF
  key : ∀ e ∈ b.entries, e.1 = e.2.validator
  eq : msgsOf b = msgs.filter (fun m => m.slot = slot)

theorem msgBufInv_make {msgs : List SyncMsg} {slot : UInt64} (h : ∀ m ∈ msgs, m.slot ≠ slot) :
    MsgBufInv .make msgs slot := by
  refine ⟨GoMap.wf_make, by simp, ?_⟩
  simp only [msgsOf, GoMap.entries_make, List.map_nil]
  symm; apply List.filter_eq_nil_iff.mpr
  intro m hm; simpa using h m hm

theorem msgBufInv_filter {b : MsgBuf} {msgs : List SyncMsg} {slot : UInt64} (h : MsgBufInv b msgs slot)
    (P : SyncMsg → Bool) (hP : ∀ m ∈ msgs, m.slot = slot → P m = true) : MsgBufInv b (msgs.filter P) slot := by
  refine ⟨h.wf, h.key, ?_⟩
  rw [h.eq, List.filter_filter]
  apply List.filter_congr
  intro m hm
  by_cases hs : m.slot = slot
  · simp [hs, hP m hm hs]
  · simp [hs]

theorem filter_map_snd (l : List (Nat × SyncMsg)) (v : Nat) (hk : ∀ e ∈ l, e.1 = e.2.validator) :
    (l.filter (fun e => e.1 ≠ v)).map (·.2) = (l.map (·.2)).filter (fun m => m.validator ≠ v) := by
  induction l with
  | nil => rfl
  | cons a l ih =>
    have ha := hk a List.mem_cons_self
    have ih' := ih (fun e he => hk e (List.mem_cons_of_mem _ he))
    grind

theorem msgBufInv_insert {b : MsgBuf} {msgs : List SyncMsg} {slot : UInt64} (h : MsgBufInv b msgs slot)
    (m : SyncMsg) (hm : m.slot = slot) :
    MsgBufInv (b.insert m.validator m)
      (m :: msgs.filter (fun x => !(x.slot = m.slot && x.validator = m.validator))) slot := by
  refine ⟨GoMap.wf_insert h.wf.nodup _ _, ?_, ?_⟩
  · intro e he
    simp only [GoMap.insert, List.mem_cons, List.mem_filter] at he
    rcases he with rfl | ⟨he, _⟩
    · rfl
    · exact h.key e he
  · simp only [msgsOf, GoMap.insert, List.map_cons, filter_map_snd _ _ h.key]
    have := h.eq; simp only [msgsOf] at this
    simp only [this, List.filter_cons, hm, decide_true, if_true, List.filter_filter]
    congr 1
    apply List.filter_congr
    intro x _
    by_cases hs : x.slot = slot <;> simp [hs]

theorem msgBufInv_other {b : MsgBuf} {msgs : List SyncMsg} {slot : UInt64} (h : MsgBufInv b msgs slot)
    (m : SyncMsg) (hm : m.slot ≠ slot) :
    MsgBufInv b (m :: msgs.filter (fun x => !(x.slot = m.slot && x.validator = m.validator))) slot := by
  refine ⟨h.wf, h.key, ?_⟩
  rw [h.eq]
  simp only [List.filter_cons, hm, decide_false, Bool.false_eq_true, if_false, List.filter_filter]
  apply List.filter_congr
  intro x _
  by_cases hs : x.slot = slot
  · have : ¬ slot = m.slot := fun e => hm e.symm
    simp [hs, this]
  · simp [hs]

/-! ## contribution buffers -/

structure ContribBufInv (b : ContribBuf) (cs : List Contrib) (slot : UInt64) : Prop where
  wf : b.WF
  sub : ∀ e ∈ b.entries, e.2.WF
  perm : (contribsOf b).Perm (cs.filter (fun c => c.slot = slot))

theorem contribBufInv_make {cs : List Contrib} {slot : UInt64} (h : ∀ c ∈ cs, c.slot ≠ slot) :
    ContribBufInv .make cs slot := by
  refine ⟨GoMap.wf_make, by simp, ?_⟩
  have : cs.filter (fun c => c.slot = slot) = [] := by
    apply List.filter_eq_nil_iff.mpr
    intro c hc; simpa using h c hc
  simp [contribsOf, this]

theorem contribBufInv_filter {b : ContribBuf} {cs : List Contrib} {slot : UInt64} (h : ContribBufInv b cs slot)
    (P : Contrib → Bool) (hP : ∀ c ∈ cs, c.slot = slot → P c = true) : ContribBufInv b (cs.filter P) slot := by
  refine ⟨h.wf, h.sub, ?_⟩
  have : (cs.filter P).filter (fun c => c.slot = slot) = cs.filter (fun c => c.slot = slot) := by
    rw [List.filter_filter]
    apply List.filter_congr
    intro c hc
    by_cases hs : c.slot = slot
    · simp [hs, hP c hc hs]
    · simp [hs]
  rw [this]; exact h.perm

theorem contribBufInv_other {b : ContribBuf} {cs : List Contrib} {slot : UInt64} (h : ContribBufInv b cs slot)
    (c : Contrib) (hc : c.slot ≠ slot) : ContribBufInv b (cs ++ [c]) slot := by
  refine ⟨h.wf, h.sub, ?_⟩
  simpa [List.filter_append, List.filter_cons, hc] using h.perm

theorem insert_insert {κ ν : Type} [DecidableEq κ] (m : GoMap κ ν) (k : κ) (v v' : ν) :
    (m.insert k v).insert k v' = m.insert k v' := by
  simp only [GoMap.insert, List.filter_cons, ne_eq, not_true_eq_false, decide_false, Bool.false_eq_true,
    if_false, List.filter_filter, Bool.and_self]

/-- appending to the list of one (root, subnet) cell adds exactly that contribution -/
theorem contribInsert_sim {b : ContribBuf} {cs : List Contrib} {slot : UInt64} (h : ContribBufInv b cs slot)
    (c : Contrib) (hc : c.slot = slot) :
    ∃ b', contribInsert b c = .ok b' ∧ ContribBufInv b' (cs ++ [c]) slot := by
  have htarget : (cs ++ [c]).filter (fun x => x.slot = slot) = cs.filter (fun x => x.slot = slot) ++ [c] := by
    simp [List.filter_append, List.filter_cons, hc]
  unfold contribInsert
  cases hg : b.get? c.root with
  | some subs =>
    have hsubs : subs.WF := h.sub _ (GoMap.mem_of_get? hg)
    let subs' := subs.insert c.subnet ((subs.get? c.subnet).getD [] ++ [c])
    have hsubs' : subs'.WF := GoMap.wf_insert hsubs.nodup _ _
    refine ⟨b.insert c.root subs', by simp [GoMap.set_of_wf hsubs, GoMap.set_of_wf h.wf, subs'],
      GoMap.wf_insert h.wf.nodup _ _, ?_, ?_⟩
    · intro e he
      simp only [GoMap.insert, List.mem_cons, List.mem_filter] at he
      rcases he with rfl | ⟨he, _⟩
      · exact hsubs'
      · exact h.sub e he
    · rw [htarget]
      -- the cell
      have hcell : (subs'.entries.flatMap (·.2)).Perm (subs.entries.flatMap (·.2) ++ [c]) := by
        cases hs : subs.get? c.subnet with
        | none =>
          have hn := GoMap.get?_eq_none_iff.mp hs
          simp only [subs', hs, Option.getD_none, List.nil_append, GoMap.insert_of_not_mem hn,
            List.flatMap_cons]
          exact List.perm_append_comm
        | some old =>
          have hp := (GoMap.perm_of_get? hsubs.nodup hs).flatMap_right (·.2)
          simp only [List.flatMap_cons] at hp
          simp only [subs', hs, Option.getD_some, GoMap.insert, List.flatMap_cons]
          refine List.Perm.trans ?_ (hp.symm.append_right [c])
          simp only [List.append_assoc]
          exact List.Perm.append_left old List.perm_append_comm
      have hp := (GoMap.perm_of_get? h.wf.nodup hg).flatMap_right (fun e => e.2.entries.flatMap (·.2))
      simp only [List.flatMap_cons] at hp
      simp only [contribsOf, GoMap.insert, List.flatMap_cons]
      have h1 := (hcell.append_right ((b.entries.filter (fun e => e.1 ≠ c.root)).flatMap
        (fun e => e.2.entries.flatMap (·.2))))
      refine h1.trans ?_
      have h2 := h.perm
      simp only [contribsOf] at h2
      refine List.Perm.trans ?_ (h2.append_right [c])
      refine List.Perm.trans ?_ (hp.symm.append_right [c])
      simp only [List.append_assoc]
      exact List.Perm.append_left _ List.perm_append_comm
  | none =>
    have hn := GoMap.get?_eq_none_iff.mp hg
    let subs' : GoMap Nat (List Contrib) := GoMap.make.insert c.subnet [c]
    have hsubs' : subs'.WF := GoMap.wf_insert GoMap.wf_make.nodup _ _
    refine ⟨b.insert c.root subs', ?_, GoMap.wf_insert h.wf.nodup _ _, ?_, ?_⟩
    · simp only [GoMap.set_of_wf h.wf, GoMap.set_of_wf GoMap.wf_make,
        GoMap.set_of_wf (GoMap.wf_insert h.wf.nodup _ _), insert_insert, subs']
    · intro e he
      simp only [GoMap.insert, List.mem_cons, List.mem_filter] at he
      rcases he with rfl | ⟨he, _⟩
      · exact hsubs'
      · exact h.sub e he
    · rw [htarget]
      have hsub : subs'.entries.flatMap (·.2) = [c] := by
        simp [subs', GoMap.insert]
      simp only [contribsOf, GoMap.insert_of_not_mem hn, List.flatMap_cons, hsub]
      have h2 := h.perm
      simp only [contribsOf] at h2
      exact (List.perm_append_comm).trans (h2.append_right [c])

/-! ## the pool -/

structure SyncInv (p : SyncPool) (s : SyncSpec) : Prop where
  cur : p.currentSlot = s.cur
  prevM : MsgBufInv p.prevMsgs s.msgs (s.cur - 1)
  curM : MsgBufInv p.currentMsgs s.msgs s.cur
  nextM : MsgBufInv p.nextMsgs s.msgs (s.cur + 1)
  prevC : ContribBufInv p.prevContribs s.contribs (s.cur - 1)
  curC : ContribBufInv p.currentContribs s.contribs s.cur
  nextC : ContribBufInv p.nextContribs s.contribs (s.cur + 1)
  msgsIn : ∀ m ∈ s.msgs, inWindow s.cur m.slot = true
  contribsIn : ∀ c ∈ s.contribs, inWindow s.cur c.slot = true

theorem syncInv_new : SyncInv (SyncPool.new Cfg.fixed) SyncSpec.new := by
  refine ⟨by decide, ?_, ?_, ?_, ?_, ?_, ?_, by simp [SyncSpec.new], by simp [SyncSpec.new]⟩ <;>
    first
    | exact msgBufInv_make (by simp [SyncSpec.new])
    | exact contribBufInv_make (by simp [SyncSpec.new])

theorem sync_addMessage_sim {p : SyncPool} {s : SyncSpec} (h : SyncInv p s) (m : SyncMsg) :
    ∃ p', p.addMessage m = .ok (p', (s.addMessage m).2) ∧ SyncInv p' (s.addMessage m).1 := by
  unfold SyncPool.addMessage SyncSpec.addMessage
  rw [h.cur]
  have hin : ∀ x ∈ m :: s.msgs.filter (fun x => !(x.slot = m.slot && x.validator = m.validator)),
      inWindow s.cur m.slot = true → inWindow s.cur x.slot = true := by
    intro x hx hm
    rcases List.mem_cons.mp hx with rfl | hx
    · exact hm
    · exact h.msgsIn x (List.mem_filter.mp hx).1
  rcases window_cases s.cur m.slot with ⟨hw, hs⟩ | ⟨hw, hs⟩ | ⟨hw, hs⟩ | ⟨hw, h1, h2, h3⟩
  · have hI : inWindow s.cur m.slot = true := (inWindow_iff _ _).mpr (Or.inl hs)
    simp only [hw, hI, if_true, GoMap.set_of_wf h.prevM.wf]
    exact ⟨_, rfl, rfl, msgBufInv_insert h.prevM m hs,
      msgBufInv_other h.curM m (by rw [hs]; exact prev_ne_cur _),
      msgBufInv_other h.nextM m (by rw [hs]; exact prev_ne_next _),
      h.prevC, h.curC, h.nextC, fun x hx => hin x hx hI, h.contribsIn⟩
  · have hI : inWindow s.cur m.slot = true := (inWindow_iff _ _).mpr (Or.inr (Or.inl hs))
    simp only [hw, hI, if_true, GoMap.set_of_wf h.curM.wf]
    exact ⟨_, rfl, rfl, msgBufInv_other h.prevM m (by rw [hs]; exact (prev_ne_cur _).symm),
      msgBufInv_insert h.curM m hs,
      msgBufInv_other h.nextM m (by rw [hs]; exact cur_ne_next _),
      h.prevC, h.curC, h.nextC, fun x hx => hin x hx hI, h.contribsIn⟩
  · have hI : inWindow s.cur m.slot = true := (inWindow_iff _ _).mpr (Or.inr (Or.inr hs))
    simp only [hw, hI, if_true, GoMap.set_of_wf h.nextM.wf]
    exact ⟨_, rfl, rfl, msgBufInv_other h.prevM m (by rw [hs]; exact (prev_ne_next _).symm),
      msgBufInv_other h.curM m (by rw [hs]; exact (cur_ne_next _).symm),
      msgBufInv_insert h.nextM m hs,
      h.prevC, h.curC, h.nextC, fun x hx => hin x hx hI, h.contribsIn⟩
  · have hI : inWindow s.cur m.slot = false := by
      rw [Bool.eq_false_iff]; intro hI
      rcases (inWindow_iff _ _).mp hI with e | e | e
      · exact h1 e
      · exact h2 e
      · exact h3 e
    simp only [hw, hI, Bool.false_eq_true, if_false]
    exact ⟨_, rfl, h⟩

theorem sync_addContribution_sim {p : SyncPool} {s : SyncSpec} (h : SyncInv p s) (c : Contrib) :
    ∃ p', p.addContribution c = .ok (p', (s.addContribution c).2) ∧ SyncInv p' (s.addContribution c).1 := by
  unfold SyncPool.addContribution SyncSpec.addContribution
  rw [h.cur]
  have hin : ∀ x ∈ s.contribs ++ [c], inWindow s.cur c.slot = true → inWindow s.cur x.slot = true := by
    intro x hx hm
    rcases List.mem_append.mp hx with hx | hx
    · exact h.contribsIn x hx
    · simp only [List.mem_singleton] at hx; subst hx; exact hm
  rcases window_cases s.cur c.slot with ⟨hw, hs⟩ | ⟨hw, hs⟩ | ⟨hw, hs⟩ | ⟨hw, h1, h2, h3⟩
  · have hI : inWindow s.cur c.slot = true := (inWindow_iff _ _).mpr (Or.inl hs)
    obtain ⟨b', hb', hinv⟩ := contribInsert_sim h.prevC c hs
    simp only [hw, hI, if_true, hb']
    exact ⟨_, rfl, rfl, h.prevM, h.curM, h.nextM, hinv,
      contribBufInv_other h.curC c (by rw [hs]; exact prev_ne_cur _),
      contribBufInv_other h.nextC c (by rw [hs]; exact prev_ne_next _),
      h.msgsIn, fun x hx => hin x hx hI⟩
  · have hI : inWindow s.cur c.slot = true := (inWindow_iff _ _).mpr (Or.inr (Or.inl hs))
    obtain ⟨b', hb', hinv⟩ := contribInsert_sim h.curC c hs
    simp only [hw, hI, if_true, hb']
    exact ⟨_, rfl, rfl, h.prevM, h.curM, h.nextM,
      contribBufInv_other h.prevC c (by rw [hs]; exact (prev_ne_cur _).symm), hinv,
      contribBufInv_other h.nextC c (by rw [hs]; exact cur_ne_next _),
      h.msgsIn, fun x hx => hin x hx hI⟩
  · have hI : inWindow s.cur c.slot = true := (inWindow_iff _ _).mpr (Or.inr (Or.inr hs))
    obtain ⟨b', hb', hinv⟩ := contribInsert_sim h.nextC c hs
    simp only [hw, hI, if_true, hb']
    exact ⟨_, rfl, rfl, h.prevM, h.curM, h.nextM,
      contribBufInv_other h.prevC c (by rw [hs]; exact (prev_ne_next _).symm),
      contribBufInv_other h.curC c (by rw [hs]; exact (cur_ne_next _).symm), hinv,
      h.msgsIn, fun x hx => hin x hx hI⟩
  · have hI : inWindow s.cur c.slot = false := by
      rw [Bool.eq_false_iff]; intro hI
      rcases (inWindow_iff _ _).mp hI with e | e | e
      · exact h1 e
      · exact h2 e
      · exact h3 e
    simp only [hw, hI, Bool.false_eq_true, if_false]
    exact ⟨_, rfl, h⟩

theorem inWindow_self (c : UInt64) : inWindow c c = true := (inWindow_iff _ _).mpr (Or.inr (Or.inl rfl))

theorem sync_reset_sim {p : SyncPool} {s : SyncSpec} (h : SyncInv p s) (slot : UInt64) :
    SyncInv (p.reset slot) (s.reset slot) := by
  obtain ⟨cur, msgs, contribs⟩ := s
  obtain ⟨hcur, hpM, hcM, hnM, hpC, hcC, hnC, hmI, hcI⟩ := h
  simp only at hcur hpM hcM hnM hpC hcC hnC hmI hcI
  unfold SyncPool.reset SyncSpec.reset
  rw [hcur]
  simp only
  have hmW : ∀ m ∈ msgs, m.slot = cur - 1 ∨ m.slot = cur ∨ m.slot = cur + 1 :=
    fun m hm => (inWindow_iff _ _).mp (hmI m hm)
  have hcW : ∀ c ∈ contribs, c.slot = cur - 1 ∨ c.slot = cur ∨ c.slot = cur + 1 :=
    fun c hc => (inWindow_iff _ _).mp (hcI c hc)
  by_cases h1 : cur = slot + 1
  · -- one slot back
    subst h1
    have hI : inWindow (slot + 1) slot = true := (inWindow_iff _ _).mpr (Or.inl (by u64_omega))
    have e1 : slot + 1 - 1 = slot := by u64_omega
    simp only [hI, if_true]
    rw [e1] at hpM hpC
    refine ⟨rfl, ?_, ?_, ?_, ?_, ?_, ?_, ?_, ?_⟩
    · apply msgBufInv_make
      intro m hm; have := hmW m (List.mem_filter.mp hm).1
      rcases this with e | e | e <;> rw [e] <;> u64_omega
    · exact msgBufInv_filter hpM _ (fun m _ e => by rw [e, inWindow_self, hI]; rfl)
    · refine msgBufInv_filter hcM _ (fun m _ e => ?_)
      rw [e, inWindow_self, (inWindow_iff _ _).mpr (Or.inr (Or.inr rfl))]; rfl
    · apply contribBufInv_make
      intro m hm; have := hcW m (List.mem_filter.mp hm).1
      rcases this with e | e | e <;> rw [e] <;> u64_omega
    · exact contribBufInv_filter hpC _ (fun m _ e => by rw [e, inWindow_self, hI]; rfl)
    · refine contribBufInv_filter hcC _ (fun m _ e => ?_)
      rw [e, inWindow_self, (inWindow_iff _ _).mpr (Or.inr (Or.inr rfl))]; rfl
    · intro m hm; have := (List.mem_filter.mp hm).2; simp only [Bool.and_eq_true] at this; exact this.1
    · intro m hm; have := (List.mem_filter.mp hm).2; simp only [Bool.and_eq_true] at this; exact this.1
  · by_cases h2 : cur = slot
    · subst h2
      have hfm : msgs.filter (fun m => inWindow cur m.slot && inWindow cur m.slot) = msgs :=
        List.filter_eq_self.mpr (fun m hm => by simp [hmI m hm])
      have hfc : contribs.filter (fun m => inWindow cur m.slot && inWindow cur m.slot) = contribs :=
        List.filter_eq_self.mpr (fun m hm => by simp [hcI m hm])
      simp only [h1, if_false, if_true, inWindow_self, hfm, hfc]
      exact ⟨hcur, hpM, hcM, hnM, hpC, hcC, hnC, hmI, hcI⟩
    · by_cases h3 : cur + 1 = slot
      · -- one slot forward
        have hI : inWindow cur slot = true := (inWindow_iff _ _).mpr (Or.inr (Or.inr h3.symm))
        have e1 : cur = slot - 1 := by u64_omega
        simp only [h1, h2, h3, hI, if_true, if_false]
        rw [h3] at hnM hnC
        rw [e1] at hcM hcC
        refine ⟨rfl, ?_, ?_, ?_, ?_, ?_, ?_, ?_, ?_⟩
        · refine msgBufInv_filter hcM _ (fun m _ e => ?_)
          rw [e, ← e1, inWindow_self, (inWindow_iff _ _).mpr (Or.inl e1)]; rfl
        · exact msgBufInv_filter hnM _ (fun m _ e => by rw [e, inWindow_self, hI]; rfl)
        · apply msgBufInv_make
          intro m hm; have := hmW m (List.mem_filter.mp hm).1
          rcases this with e | e | e <;> rw [e] <;> u64_omega
        · refine contribBufInv_filter hcC _ (fun m _ e => ?_)
          rw [e, ← e1, inWindow_self, (inWindow_iff _ _).mpr (Or.inl e1)]; rfl
        · exact contribBufInv_filter hnC _ (fun m _ e => by rw [e, inWindow_self, hI]; rfl)
        · apply contribBufInv_make
          intro m hm; have := hcW m (List.mem_filter.mp hm).1
          rcases this with e | e | e <;> rw [e] <;> u64_omega
        · intro m hm; have := (List.mem_filter.mp hm).2; simp only [Bool.and_eq_true] at this; exact this.1
        · intro m hm; have := (List.mem_filter.mp hm).2; simp only [Bool.and_eq_true] at this; exact this.1
      · have hI : inWindow cur slot = false := by
          rw [Bool.eq_false_iff]; intro hI
          rcases (inWindow_iff _ _).mp hI with e | e | e
          · apply h1; u64_omega
          · exact h2 e.symm
          · exact h3 e.symm
        simp only [h1, h2, h3, hI, if_false, Bool.false_eq_true]
        exact ⟨rfl, msgBufInv_make (by simp), msgBufInv_make (by simp), msgBufInv_make (by simp),
          contribBufInv_make (by simp), contribBufInv_make (by simp), contribBufInv_make (by simp),
          by simp, by simp⟩

end Zrnt.Pool
