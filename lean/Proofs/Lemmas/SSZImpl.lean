import Zrnt.SSZ.Impl
import Proofs.Lemmas.SSZRoundTrip
/-! The ztyp combinators over field implementations that meet the specification meet the specification of the
composite type (containers; lists and vectors of one element type). -/
namespace Zrnt.Proofs.SSZ
open Zrnt.SSZ

def specImpls (H : Hash2) : Fields → List Impl
  | .nil => []
  | .cons _ t r => specImpl H t :: specImpls H r

theorem specImpls_length (H : Hash2) : ∀ fs : Fields, (specImpls H fs).length = fs.length
  | .nil => rfl
  | .cons _ _ r => by simp [specImpls, Fields.length, specImpls_length H r]

/-- for legal types "FixedLength() = 0" is "variable size" -/
theorem legal_layout_entry (t : Ty) (hl : t.Legal) : (if t.fixedLen = 0 then none else some t.fixedLen) = t.fixedLen? := by
  unfold Ty.fixedLen
  cases h : t.fixedLen? with
  | none => simp
  | some s => have := legal_fixed_pos t s hl h; simp; omega

theorem goLayout_spec (H : Hash2) : ∀ fs : Fields, fs.Legal → goLayout (specImpls H fs) = fs.layout
  | .nil, _ => rfl
  | .cons _ t r, hl => by
    simp only [Fields.Legal] at hl
    simp only [specImpls, goLayout, List.map_cons, Fields.layout, specImpl]
    rw [legal_layout_entry t hl.1]
    congr 1
    exact goLayout_spec H r hl.2

theorem zipSer_spec (H : Hash2) : ∀ (fs : Fields) (vs : List Val), zipSer (specImpls H fs) vs = encodeFields fs vs
  | .nil, vs => by cases vs <;> simp [specImpls, zipSer, encodeFields]
  | .cons _ t r, [] => by simp [specImpls, zipSer, encodeFields]
  | .cons _ t r, v :: vs => by simp [specImpls, zipSer, encodeFields, specImpl, zipSer_spec H r vs]

theorem zipDes_spec (H : Hash2) : ∀ (fs : Fields) (ps : List Bytes), zipDes (specImpls H fs) ps = decodeFields fs ps
  | .nil, ps => by cases ps <;> simp [specImpls, zipDes, decodeFields]
  | .cons _ t r, [] => by simp [specImpls, zipDes, decodeFields]
  | .cons _ t r, p :: ps => by
    simp only [specImpls, zipDes, decodeFields, specImpl, zipDes_spec H r ps]
    cases decode t p <;> cases decodeFields r ps <;> rfl

theorem zipRoot_spec (H : Hash2) : ∀ (fs : Fields) (vs : List Val), zipRoot (specImpls H fs) vs = htrFields H fs vs
  | .nil, vs => by cases vs <;> simp [specImpls, zipRoot, htrFields]
  | .cons _ t r, [] => by simp [specImpls, zipRoot, htrFields]
  | .cons _ t r, v :: vs => by simp [specImpls, zipRoot, htrFields, specImpl, zipRoot_spec H r vs]

theorem sumLen_spec (H : Hash2) : ∀ (fs : Fields) (vs : List Val), fs.Legal →
    sumLen (specImpls H fs) vs = byteLengthFields fs vs
  | .nil, vs, _ => by cases vs <;> simp [specImpls, sumLen, byteLengthFields]
  | .cons _ t r, [], _ => by simp [specImpls, sumLen, byteLengthFields]
  | .cons _ t r, v :: vs, hl => by
    simp only [Fields.Legal] at hl
    simp only [specImpls, sumLen, byteLengthFields, specImpl, sumLen_spec H r vs hl.2]
    congr 1
    unfold Ty.fixedLen
    cases h : t.fixedLen? with
    | none => simp
    | some s => have := legal_fixed_pos t s hl.1 h; simp; omega

/-- **`w.Container` over correct fields is `encode` of the container.** -/
theorem containerSer_spec (H : Hash2) (fs : Fields) (hl : fs.Legal) :
    containerSer (specImpls H fs) = encode (.container fs) := by
  funext v
  cases v <;> simp [containerSer, encode, goLayout_spec H fs hl, zipSer_spec]

/-- **`dr.Container` over correct fields is `decode` of the container.** -/
theorem containerDes_spec (H : Hash2) (fs : Fields) (hl : fs.Legal) :
    containerDes (specImpls H fs) = decode (.container fs) := by
  funext bs
  simp only [containerDes, decode, goLayout_spec H fs hl]
  cases splitParts fs.layout bs <;> simp [zipDes_spec]

/-- **`codec.ContainerLength` over correct fields is `byteLength` of the container.** -/
theorem containerLength_spec (H : Hash2) (fs : Fields) (hl : fs.Legal) :
    containerLength (specImpls H fs) = byteLength (.container fs) := by
  funext v
  cases v <;> simp [containerLength, byteLength, sumLen_spec H fs _ hl]

/-- **`hFn.HashTreeRoot` over correct fields is `htr` of the container.** -/
theorem fieldsRoot_spec (H : Hash2) (fs : Fields) : fieldsRoot H (specImpls H fs) = htr H (.container fs) := by
  funext v
  cases v <;> simp [fieldsRoot, htr, zipRoot_spec, specImpls_length]

/-! fixed-size containers: the `FixedLenContainer` shortcuts -/

theorem fixedSection_allFixed : ∀ (lay : Layout) (ps : List Bytes) (off : Nat), (∀ e ∈ lay, e ≠ none) → ps.length ≤ lay.length →
    fixedSection lay ps off = ps.flatten ∧ varSection lay ps = []
  | [], ps, _, _, hlen => by
    have : ps = [] := List.length_eq_zero_iff.mp (by simpa using hlen)
    subst this; simp [fixedSection, varSection]
  | e :: l, [], _, _, _ => by cases e <;> simp [fixedSection, varSection]
  | none :: l, p :: ps, _, h, _ => by exact absurd rfl (h none (by simp))
  | some n :: l, p :: ps, off, h, hlen => by
    have ih := fixedSection_allFixed l ps off (fun e he => h e (by simp [he])) (by simpa using hlen)
    simp [fixedSection, varSection, ih.1, ih.2]

theorem zipSer_length_le : ∀ (fs : List Impl) (vs : List Val), (zipSer fs vs).length ≤ fs.length
  | [], vs => by cases vs <;> simp [zipSer]
  | _ :: _, [] => by simp [zipSer]
  | f :: fs, v :: vs => by simp [zipSer, zipSer_length_le fs vs]

theorem layout_allFixed : ∀ (fs : Fields) (n : Nat), fs.fixedLen? = some n → ∀ e ∈ fs.layout, e ≠ none
  | .nil, _, _ => by simp [Fields.layout]
  | .cons _ t r, n, h => by
    simp only [Fields.fixedLen?] at h
    split at h
    · rename_i a b ha hb
      intro e he
      simp only [Fields.layout, List.mem_cons] at he
      rcases he with rfl | he
      · simp [ha]
      · exact layout_allFixed r b hb e he
    · simp at h

theorem layout_length : ∀ fs : Fields, fs.layout.length = fs.length
  | .nil => rfl
  | .cons _ _ r => by simp [Fields.layout, Fields.length, layout_length r]

/-- **`w.FixedLenContainer` over correct fields of a fixed-size container is `encode`.** -/
theorem fixedContainerSer_spec (H : Hash2) (fs : Fields) (n : Nat) (hf : fs.fixedLen? = some n) :
    fixedContainerSer (specImpls H fs) = encode (.container fs) := by
  funext v
  cases v <;> simp only [fixedContainerSer, encode]
  rename_i vs
  have hle : (encodeFields fs vs).length ≤ fs.layout.length := by
    rw [← zipSer_spec H, layout_length]
    have := zipSer_length_le (specImpls H fs) vs
    rw [specImpls_length] at this
    exact this
  have := fixedSection_allFixed fs.layout (encodeFields fs vs) (fixedPartLen fs.layout) (layout_allFixed fs n hf) hle
  simp [joinParts, this.1, this.2, zipSer_spec]

theorem fixedLayout_spec (H : Hash2) : ∀ (fs : Fields) (n : Nat), fs.fixedLen? = some n →
    (specImpls H fs).map (fun f => some f.flen) = fs.layout
  | .nil, _, _ => rfl
  | .cons _ t r, n, h => by
    simp only [Fields.fixedLen?] at h
    split at h
    · rename_i a b ha hb
      simp only [specImpls, List.map_cons, Fields.layout, specImpl, Ty.fixedLen, ha, Option.getD_some]
      congr 1
      exact fixedLayout_spec H r b hb
    · simp at h

/-- **`dr.FixedLenContainer` over correct fields of a fixed-size container is `decode`.** -/
theorem fixedContainerDes_spec (H : Hash2) (fs : Fields) (n : Nat) (hf : fs.fixedLen? = some n) :
    fixedContainerDes (specImpls H fs) = decode (.container fs) := by
  funext bs
  simp only [fixedContainerDes, decode, fixedLayout_spec H fs n hf]
  cases splitParts fs.layout bs <;> simp [zipDes_spec]

/-! lists and vectors -/

theorem seqSer_list (H : Hash2) (t : Ty) (lim size : Nat) (hs : sizeLayout size = t.fixedLen?) :
    seqSer (specImpl H t) size = encode (.list t lim) := by
  funext v
  cases v <;> simp [seqSer, encode, hs, specImpl]

theorem seqSer_vector (H : Hash2) (t : Ty) (n size : Nat) (hs : sizeLayout size = t.fixedLen?) :
    seqSer (specImpl H t) size = encode (.vector t n) := by
  funext v
  cases v <;> simp [seqSer, encode, hs, specImpl]

theorem listDes_spec (H : Hash2) (t : Ty) (lim size : Nat) (hs : sizeLayout size = t.fixedLen?) :
    listDes (specImpl H t) size lim = decode (.list t lim) := by
  funext bs
  simp only [listDes, decode, hs, specImpl]
  cases splitList t.fixedLen? lim bs <;> rfl

theorem vectorDes_spec (H : Hash2) (t : Ty) (n size : Nat) (hs : sizeLayout size = t.fixedLen?) :
    vectorDes (specImpl H t) size n = decode (.vector t n) := by
  funext bs
  simp only [vectorDes, decode, hs, specImpl]
  cases splitParts (List.replicate n t.fixedLen?) bs <;> rfl

theorem complexListRoot_spec (H : Hash2) (t : Ty) (lim : Nat) (hb : t.isBasic = false) :
    complexListRoot H (specImpl H t) lim = htr H (.list t lim) := by
  funext v
  cases v <;> simp [complexListRoot, htr, hb, specImpl]

theorem complexVectorRoot_spec (H : Hash2) (t : Ty) (n : Nat) (hb : t.isBasic = false) :
    complexVectorRoot H (specImpl H t) n = htr H (.vector t n) := by
  funext v
  cases v <;> simp [complexVectorRoot, htr, hb, specImpl]

theorem uintListRoot_spec (H : Hash2) (t : Ty) (k lim : Nat) (hb : t.isBasic = true) (hk : t.fixedLen = k) :
    uintListRoot H (specImpl H t) k lim = htr H (.list t lim) := by
  funext v
  cases v <;> simp [uintListRoot, htr, hb, hk, specImpl]

theorem uintVectorRoot_spec (H : Hash2) (t : Ty) (k n : Nat) (hb : t.isBasic = true) (hk : t.fixedLen = k) :
    uintVectorRoot H (specImpl H t) k n = htr H (.vector t n) := by
  funext v
  cases v <;> simp [uintVectorRoot, htr, hb, hk, specImpl]

/-- the size argument Go passes (`XType.TypeByteLength()`, i.e. `fixedLen`) yields the element's layout entry -/
theorem sizeLayout_fixedLen (t : Ty) (hl : t.Legal) : sizeLayout t.fixedLen = t.fixedLen? := by
  unfold sizeLayout
  exact legal_layout_entry t hl

end Zrnt.Proofs.SSZ
