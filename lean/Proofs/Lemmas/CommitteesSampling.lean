import Proofs.Lemmas.Committees
/-! Helper lemmas for C07, sampling part: `ComputeProposerIndex` and the sync-committee loop against the
specification's candidate sequence. -/
namespace Zrnt.Proofs.Committees
open Zrnt Zrnt.Shuffle Zrnt.Beacon.Committees Zrnt.Proofs.Shuffle

/-- standing assumptions of the sampling theorems -/
structure SampleOK (H : ByteArray → ByteArray) (cfg : Cfg) (vals : Array Val) (active : Array Nat) : Prop where
  hash32 : ∀ x, (H x).size = 32
  rounds : cfg.SHUFFLE_ROUND_COUNT ≤ 255
  nonempty : 0 < active.size
  size : active.size ≤ 2 ^ 40
  valid : ∀ k (hk : k < active.size), active[k] < vals.size

/-- index into `active` of the `c`-th candidate -/
def candPos (H : ByteArray → ByteArray) (cfg : Cfg) (active : Array Nat) (seed : ByteArray) (c : Nat) : Nat :=
  permUp (Hasher.ofHash H seed) active.size cfg.SHUFFLE_ROUND_COUNT (c % active.size)

theorem candPos_lt {H cfg vals active} (ok : SampleOK H cfg vals active) (seed : ByteArray) (c : Nat) :
    candPos H cfg active seed c < active.size :=
  permUp_lt (by have := ok.size; omega) _ _ (Nat.mod_lt _ ok.nonempty)

theorem permuteIndex_cand {H cfg vals active} (ok : SampleOK H cfg vals active) (seed : ByteArray) (c : Nat) :
    permuteIndex (Hasher.ofHash H seed) (rounds8 cfg) (c % active.size) active.size = .ok (candPos H cfg active seed c) := by
  rw [rounds8_eq ok.rounds]
  exact innerPermuteIndex_up ok.nonempty

/-- the specification's `c`-th candidate and its acceptance, in the model's terms -/
theorem candidate_ok {H cfg vals active} (ok : SampleOK H cfg vals active) (seed : ByteArray) (c : Nat) :
    Spec.candidate H cfg vals.toList active.toList seed c =
      .ok (active[candPos H cfg active seed c]'(candPos_lt ok seed c),
           accepts cfg (vals[active[candPos H cfg active seed c]'(candPos_lt ok seed c)]'(ok.valid _ _)).effBal
             (byteAt (H (seed ++ putUint64 (c / 32))) (c % 32))) := by
  have hlt := candPos_lt ok seed c
  have hn0 : ¬ active.size = 0 := by have := ok.nonempty; omega
  unfold Spec.candidate
  simp only [Array.length_toList, hn0, if_false]
  have hsp : Zrnt.Shuffle.Spec.computeShuffledIndex H cfg.SHUFFLE_ROUND_COUNT (c % active.size) active.size seed =
      some (candPos H cfg active seed c) := by
    rw [spec_unfold H _ _ active.size seed (Nat.mod_lt _ ok.nonempty)]
    exact foldlM_spec_eq ok.hash32 ok.size _ _ (by have := ok.rounds; omega) (Nat.mod_lt _ ok.nonempty)
  rw [hsp]
  simp only [Array.getElem?_toList, Array.getElem?_eq_getElem hlt, Array.getElem?_eq_getElem (ok.valid _ hlt), uintToBytes8]
  unfold accepts byteAt
  simp

theorem shl5_or (i j : Nat) (hj : j < 32) : (i <<< 5) ||| j = 32 * i + j := by
  rw [← Nat.shiftLeft_add_eq_or_of_lt (by simpa using hj), Nat.shiftLeft_eq]
  omega

/-- one block of 32 candidates of `ComputeProposerIndex` against the specification's loop -/
theorem proposerInner_spec {H cfg vals active} (ok : SampleOK H cfg vals active) (seed : ByteArray) (i : Nat) (F : Nat) :
    ∀ k j, j + k = 32 →
      (∃ c, proposerInner H cfg vals active seed i (H (seed ++ putUint64 i)) k j = .ok (some c) ∧
        Spec.compute_proposer_index H cfg vals.toList active.toList seed (k + F) (32 * i + j) = .ok c) ∨
      (proposerInner H cfg vals active seed i (H (seed ++ putUint64 i)) k j = .ok none ∧
        Spec.compute_proposer_index H cfg vals.toList active.toList seed (k + F) (32 * i + j) =
          Spec.compute_proposer_index H cfg vals.toList active.toList seed F (32 * i + 32)) := by
  intro k
  induction k with
  | zero =>
    intro j hj
    right
    have : j = 32 := by omega
    subst this
    exact ⟨rfl, by rw [Nat.zero_add]⟩
  | succ k ih =>
    intro j hj
    have hj32 : j < 32 := by omega
    have hn0 : ¬ active.toList.length = 0 := by have := ok.nonempty; rw [Array.length_toList]; omega
    have hc := candidate_ok ok seed (32 * i + j)
    have hdiv : (32 * i + j) / 32 = i := by omega
    have hmod : (32 * i + j) % 32 = j := by omega
    rw [hdiv, hmod] at hc
    have hfuel : k + 1 + F = (k + F) + 1 := by omega
    rw [hfuel]
    rw [proposerInner, Spec.compute_proposer_index]
    simp only [hn0, if_false, hc]
    rw [shl5_or i j hj32, permuteIndex_cand ok seed (32 * i + j)]
    simp only [candPos_lt ok seed (32 * i + j), dite_true, ok.valid _ (candPos_lt ok seed (32 * i + j))]
    cases hacc : accepts cfg (vals[active[candPos H cfg active seed (32 * i + j)]'(candPos_lt ok seed _)]'(ok.valid _ _)).effBal
        (byteAt (H (seed ++ putUint64 i)) j)
    · simp only [Bool.false_eq_true, if_false]
      have := ih (j + 1) (by omega)
      rw [show 32 * i + (j + 1) = 32 * i + j + 1 by omega] at this
      exact this
    · left
      exact ⟨_, by simp, rfl⟩

theorem proposerOuter_spec {H cfg vals active} (ok : SampleOK H cfg vals active) (seed : ByteArray) :
    ∀ K i F,
      (∃ c, proposerOuter H cfg vals active seed K i = .ok c ∧
        Spec.compute_proposer_index H cfg vals.toList active.toList seed (32 * K + F) (32 * i) = .ok c) ∨
      (proposerOuter H cfg vals active seed K i = .err ∧
        Spec.compute_proposer_index H cfg vals.toList active.toList seed (32 * K + F) (32 * i) =
          Spec.compute_proposer_index H cfg vals.toList active.toList seed F (32 * (i + K))) := by
  intro K
  induction K with
  | zero => intro i F; right; exact ⟨rfl, by simp⟩
  | succ K ih =>
    intro i F
    have hfuel : 32 * (K + 1) + F = 32 + (32 * K + F) := by omega
    rw [hfuel, proposerOuter]
    rcases proposerInner_spec ok seed i (32 * K + F) 32 0 (by omega) with ⟨c, hin, hsp⟩ | ⟨hin, hsp⟩
    · left
      rw [hin]
      exact ⟨c, rfl, by simpa using hsp⟩
    · rw [hin]
      simp only []
      rw [Nat.add_zero] at hsp
      rw [hsp]
      rcases ih (i + 1) F with ⟨c, ho, hs⟩ | ⟨ho, hs⟩
      · left; exact ⟨c, ho, by rw [show 32 * i + 32 = 32 * (i + 1) by omega]; exact hs⟩
      · right
        refine ⟨ho, ?_⟩
        rw [show 32 * i + 32 = 32 * (i + 1) by omega, hs, show i + 1 + K = i + (K + 1) by omega]

/-- `ComputeProposerIndex` against `compute_proposer_index`: the value when it returns one; when it gives up
after 32 000 candidates the specification is still looking (from candidate 32 000 on) -/
theorem computeProposerIndex_spec {H cfg vals active} (ok : SampleOK H cfg vals active) (seed : ByteArray) (F : Nat) :
    (∃ c, computeProposerIndex H cfg vals active seed = .ok c ∧
      Spec.compute_proposer_index H cfg vals.toList active.toList seed (32000 + F) 0 = .ok c) ∨
    (computeProposerIndex H cfg vals active seed = .err ∧
      Spec.compute_proposer_index H cfg vals.toList active.toList seed (32000 + F) 0 =
        Spec.compute_proposer_index H cfg vals.toList active.toList seed F 32000) := by
  have hn0 : ¬ active.size = 0 := by have := ok.nonempty; omega
  unfold computeProposerIndex
  simp only [hn0, if_false]
  have := proposerOuter_spec ok seed 1000 0 F
  simpa using this

/-- a list result seen as the array the Go code builds -/
def toArr : Res (List Nat) → Res (Array Nat)
  | .ok l => .ok l.toArray
  | .err => .err
  | .panic => .panic
  | .outOfFuel => .outOfFuel

/-- the sync-committee sampling loop (hash cached per 32 candidates) is the specification's loop,
iteration for iteration -/
theorem syncLoop_spec {H cfg vals active} (ok : SampleOK H cfg vals active) (seed : ByteArray) :
    ∀ fuel i h out, (i % 32 ≠ 0 → h = H (seed ++ putUint64 (i / 32))) →
      syncLoop H cfg vals active seed fuel i h out =
        toArr (Spec.sync_loop H cfg vals.toList active.toList seed fuel i out.toList) := by
  intro fuel
  induction fuel with
  | zero => intro i h out _; rfl
  | succ fuel ih =>
    intro i h out hinv
    rw [syncLoop, Spec.sync_loop]
    simp only [Array.length_toList]
    by_cases hsz : out.size < cfg.SYNC_COMMITTEE_SIZE
    · simp only [hsz, not_true_eq_false, if_false]
      have hc := candidate_ok ok seed i
      rw [hc, permuteIndex_cand ok seed i]
      simp only [candPos_lt ok seed i, dite_true, ok.valid _ (candPos_lt ok seed i)]
      have hh : (if i % 32 = 0 then H (seed ++ putUint64 (i / 32)) else h) = H (seed ++ putUint64 (i / 32)) := by
        split
        · rfl
        · exact hinv ‹_›
      rw [hh]
      have hnext : (i + 1) % 32 ≠ 0 → H (seed ++ putUint64 (i / 32)) = H (seed ++ putUint64 ((i + 1) / 32)) := by
        intro hne
        have : (i + 1) / 32 = i / 32 := by omega
        rw [this]
      cases hacc : accepts cfg (vals[active[candPos H cfg active seed i]'(candPos_lt ok seed _)]'(ok.valid _ _)).effBal
          (byteAt (H (seed ++ putUint64 (i / 32))) (i % 32))
      · simp only [Bool.false_eq_true, if_false]
        exact ih (i + 1) _ out hnext
      · simp only [if_true]
        have := ih (i + 1) _ (out.push (active[candPos H cfg active seed i]'(candPos_lt ok seed _))) hnext
        rw [Array.toList_push] at this
        exact this
    · simp only [hsz, not_false_eq_true, if_true]
      simp [toArr]

theorem computeShufflingEpoch_epoch {H : ByteArray → ByteArray} {cfg : Cfg} (ok : CfgOK cfg) (vals : Array Val)
    (mixes : Nat → ByteArray) (e : Nat) (hv : vals.size < 2 ^ 63) (se : ShufflingEpoch)
    (h : computeShufflingEpoch H cfg vals mixes e = .ok se) : se.epoch = e := by
  have := newShufflingEpoch_ok (H := H) ok vals (getSeed H cfg mixes e DOMAIN_BEACON_ATTESTER) e hv
  unfold computeShufflingEpoch at h
  rw [this] at h
  injection h with h
  rw [← h]


/-- the standing assumptions of the sampling theorems hold for the active set of any epoch with an active validator -/
theorem sampleOK_active {H : ByteArray → ByteArray} (hH : ∀ x, (H x).size = 32) {cfg : Cfg}
    (hsrc : cfg.SHUFFLE_ROUND_COUNT ≤ 255) (vals : Array Val) (hv : vals.size ≤ 2 ^ 40) (e : Nat)
    (hne : 0 < (activeIndices vals e).size) : SampleOK H cfg vals (activeIndices vals e) :=
  ⟨hH, hsrc, hne, by have := size_activeIndices_le vals e; omega, fun k hk =>
    ((mem_activeIndices vals e _).mp (by
      rw [← Array.getElem_toList (h := by simpa using hk)]; exact List.getElem_mem _)).1⟩



/-! ## termination under "some active validator has the maximum effective balance" -/

/-- some active validator has (at least) the maximum effective balance: it is accepted whatever the random byte -/
def HasMaxBalance (cfg : Cfg) (vals : Array Val) (active : Array Nat) : Prop :=
  ∃ p, ∃ hp : p < active.size, ∃ hv : active[p] < vals.size, cfg.MAX_EFFECTIVE_BALANCE ≤ (vals[active[p]]).effBal

theorem accepts_of_max (cfg : Cfg) (eff byte : Nat) (he : cfg.MAX_EFFECTIVE_BALANCE ≤ eff) (hb : byte ≤ 255) :
    accepts cfg eff byte = true := by
  unfold accepts
  simp only [decide_eq_true_eq, ge_iff_le]
  calc cfg.MAX_EFFECTIVE_BALANCE * byte ≤ cfg.MAX_EFFECTIVE_BALANCE * 255 := Nat.mul_le_mul_left _ hb
    _ ≤ eff * 255 := Nat.mul_le_mul_right _ he

theorem byteAt_le (b : ByteArray) (i : Nat) : byteAt b i ≤ 255 := by
  unfold byteAt
  have := (b.get! i).toNat_lt
  omega

/-- in every window of `n` consecutive candidates one is accepted -/
theorem window_accepts {H cfg vals active} (ok : SampleOK H cfg vals active) (hm : HasMaxBalance cfg vals active)
    (seed : ByteArray) (i : Nat) :
    ∃ d, d < active.size ∧ ∃ x, Spec.candidate H cfg vals.toList active.toList seed (i + d) = .ok (x, true) := by
  obtain ⟨p, hp, hv, hmax⟩ := hm
  have hn63 : active.size ≤ 2 ^ 63 := by have := ok.size; omega
  have hn := ok.nonempty
  -- the candidate number (mod n) that the permutation sends to position p
  let cs := permDown (Hasher.ofHash H seed) active.size cfg.SHUFFLE_ROUND_COUNT p
  have hcs : cs < active.size := permDown_lt hn63 _ p hp
  have hup : permUp (Hasher.ofHash H seed) active.size cfg.SHUFFLE_ROUND_COUNT cs = p := permUp_permDown hn63 _ p hp
  have hr : i % active.size < active.size := Nat.mod_lt _ hn
  have key : ∀ d, (i % active.size + d) % active.size = cs → d < active.size →
      ∃ x, Spec.candidate H cfg vals.toList active.toList seed (i + d) = .ok (x, true) := by
    intro d hd _
    have hmod : (i + d) % active.size = cs := by
      rw [← hd, Nat.mod_add_mod]
    have hc := candidate_ok ok seed (i + d)
    have hpos : candPos H cfg active seed (i + d) = p := by unfold candPos; rw [hmod]; exact hup
    have gen : ∀ q (hq : q < active.size) (hqv : active[q] < vals.size), q = p →
        cfg.MAX_EFFECTIVE_BALANCE ≤ (vals[active[q]]).effBal := by
      intro q hq hqv e; subst e; exact hmax
    refine ⟨active[candPos H cfg active seed (i + d)]'(candPos_lt ok seed _), ?_⟩
    rw [hc, accepts_of_max cfg _ _ (gen _ (candPos_lt ok seed _) (ok.valid _ _) hpos) (byteAt_le _ _)]
  by_cases hle : i % active.size ≤ cs
  · exact ⟨cs - i % active.size, by omega, key _ (by
      have : i % active.size + (cs - i % active.size) = cs := by omega
      rw [this, Nat.mod_eq_of_lt hcs]) (by omega)⟩
  · exact ⟨cs + active.size - i % active.size, by omega, key _ (by
      have : i % active.size + (cs + active.size - i % active.size) = cs + active.size := by omega
      rw [this, Nat.add_mod_right, Nat.mod_eq_of_lt hcs]) (by omega)⟩

/-- the specification's proposer loop stops as soon as an accepted candidate is within its fuel -/
theorem spec_cpi_ok_of_accept {H cfg vals active} (ok : SampleOK H cfg vals active) (seed : ByteArray) :
    ∀ fuel i, (∃ d, d < fuel ∧ ∃ x, Spec.candidate H cfg vals.toList active.toList seed (i + d) = .ok (x, true)) →
      ∃ c, Spec.compute_proposer_index H cfg vals.toList active.toList seed fuel i = .ok c := by
  intro fuel
  induction fuel with
  | zero => intro i ⟨d, hd, _⟩; omega
  | succ fuel ih =>
    intro i ⟨d, hd, x, hx⟩
    have hn0 : ¬ active.toList.length = 0 := by have := ok.nonempty; rw [Array.length_toList]; omega
    rw [Spec.compute_proposer_index]
    simp only [hn0, if_false]
    have hc := candidate_ok ok seed i
    rw [hc]
    cases hacc : accepts cfg (vals[active[candPos H cfg active seed i]'(candPos_lt ok seed _)]'(ok.valid _ _)).effBal
        (byteAt (H (seed ++ putUint64 (i / 32))) (i % 32))
    · simp only
      cases d with
      | zero =>
        rw [Nat.add_zero, hc, hacc] at hx
        injection hx with hx; injection hx with _ hx; cases hx
      | succ d =>
        apply ih (i + 1)
        exact ⟨d, by omega, x, by rw [show i + 1 + d = i + (d + 1) by omega]; exact hx⟩
    · exact ⟨_, rfl⟩

/-- **with an active validator at the maximum effective balance and at most 32 000 active validators,
`ComputeProposerIndex` never reaches its cut-off**: it returns, and the value is the specification's -/
theorem computeProposerIndex_total {H cfg vals active} (ok : SampleOK H cfg vals active)
    (hm : HasMaxBalance cfg vals active) (hsmall : active.size ≤ 32000) (seed : ByteArray) :
    ∃ c, computeProposerIndex H cfg vals active seed = .ok c ∧
      ∀ F, Spec.compute_proposer_index H cfg vals.toList active.toList seed (32000 + F) 0 = .ok c := by
  obtain ⟨d, hd, hx⟩ := window_accepts ok hm seed 0
  have hspec : ∀ F, ∃ c, Spec.compute_proposer_index H cfg vals.toList active.toList seed (32000 + F) 0 = .ok c :=
    fun F => spec_cpi_ok_of_accept ok seed (32000 + F) 0 ⟨d, by omega, hx⟩
  rcases computeProposerIndex_spec ok seed 0 with ⟨c, hmod, _⟩ | ⟨_, hsp⟩
  · refine ⟨c, hmod, fun F => ?_⟩
    rcases computeProposerIndex_spec ok seed F with ⟨c', hmod', hsp'⟩ | ⟨hmod', _⟩
    · rw [hmod] at hmod'; injection hmod' with e; rw [e]; exact hsp'
    · rw [hmod] at hmod'; cases hmod'
  · obtain ⟨c, hc⟩ := hspec 0
    rw [hsp] at hc
    simp [Spec.compute_proposer_index] at hc

/-- one more member: from candidate `i`, with an accepted candidate `d` steps ahead, the specification's sync
loop appends exactly one index after at most `d + 1` iterations -/
theorem sync_loop_one_more {H cfg vals active} (ok : SampleOK H cfg vals active) (seed : ByteArray) :
    ∀ d i acc, acc.length < cfg.SYNC_COMMITTEE_SIZE →
      (∃ x, Spec.candidate H cfg vals.toList active.toList seed (i + d) = .ok (x, true)) →
      ∃ j, j ≤ d ∧ ∃ c, ∀ fuel, Spec.sync_loop H cfg vals.toList active.toList seed (fuel + (j + 1)) i acc =
        Spec.sync_loop H cfg vals.toList active.toList seed fuel (i + j + 1) (acc ++ [c]) := by
  intro d
  induction d with
  | zero =>
    intro i acc hlen ⟨x, hx⟩
    refine ⟨0, Nat.le_refl _, x, fun fuel => ?_⟩
    rw [Nat.add_zero] at hx
    rw [show fuel + (0 + 1) = fuel + 1 by omega, Spec.sync_loop]
    simp only [hlen, not_true_eq_false, if_false, hx, Nat.add_zero]
  | succ d ih =>
    intro i acc hlen ⟨x, hx⟩
    have hc := candidate_ok ok seed i
    cases hacc : accepts cfg (vals[active[candPos H cfg active seed i]'(candPos_lt ok seed _)]'(ok.valid _ _)).effBal
        (byteAt (H (seed ++ putUint64 (i / 32))) (i % 32))
    · obtain ⟨j, hj, c, hjc⟩ := ih (i + 1) acc hlen ⟨x, by rw [show i + 1 + d = i + (d + 1) by omega]; exact hx⟩
      refine ⟨j + 1, by omega, c, fun fuel => ?_⟩
      rw [show fuel + (j + 1 + 1) = (fuel + (j + 1)) + 1 by omega, Spec.sync_loop]
      simp only [hlen, not_true_eq_false, if_false, hc, hacc]
      rw [hjc fuel, show i + 1 + j + 1 = i + (j + 1) + 1 by omega]
    · refine ⟨0, by omega, active[candPos H cfg active seed i]'(candPos_lt ok seed _), fun fuel => ?_⟩
      rw [show fuel + (0 + 1) = fuel + 1 by omega, Spec.sync_loop]
      simp only [hlen, not_true_eq_false, if_false, hc, hacc, Nat.add_zero]

/-- **the specification's sync-committee loop terminates within `SYNC_COMMITTEE_SIZE · n + 1` iterations** when
some active validator has the maximum effective balance, and returns exactly `SYNC_COMMITTEE_SIZE` indices -/
theorem sync_loop_terminates {H cfg vals active} (ok : SampleOK H cfg vals active)
    (hm : HasMaxBalance cfg vals active) (seed : ByteArray) :
    ∀ need acc i fuel, cfg.SYNC_COMMITTEE_SIZE ≤ acc.length + need → need * active.size + 1 ≤ fuel →
      ∃ l, Spec.sync_loop H cfg vals.toList active.toList seed fuel i acc = .ok l ∧
        (acc.length ≤ cfg.SYNC_COMMITTEE_SIZE → l.length = cfg.SYNC_COMMITTEE_SIZE) := by
  intro need
  induction need with
  | zero =>
    intro acc i fuel h1 h2
    obtain ⟨f, rfl⟩ : ∃ f, fuel = f + 1 := ⟨fuel - 1, by omega⟩
    have : ¬ acc.length < cfg.SYNC_COMMITTEE_SIZE := by omega
    exact ⟨acc, by rw [Spec.sync_loop]; simp only [this, not_false_eq_true, if_true], by omega⟩
  | succ need ih =>
    intro acc i fuel h1 h2
    rw [Nat.succ_mul] at h2
    by_cases hlen : acc.length < cfg.SYNC_COMMITTEE_SIZE
    · obtain ⟨d, hd, hx⟩ := window_accepts ok hm seed i
      obtain ⟨j, hj, c, hjc⟩ := sync_loop_one_more ok seed d i acc hlen hx
      have hf : fuel = (fuel - (j + 1)) + (j + 1) := by omega
      rw [hf, hjc]
      obtain ⟨l, hl, hlen'⟩ := ih (acc ++ [c]) (i + j + 1) (fuel - (j + 1))
        (by rw [List.length_append, List.length_singleton]; omega) (by omega)
      exact ⟨l, hl, fun _ => hlen' (by rw [List.length_append, List.length_singleton]; omega)⟩
    · obtain ⟨f, rfl⟩ : ∃ f, fuel = f + 1 := ⟨fuel - 1, by omega⟩
      exact ⟨acc, by rw [Spec.sync_loop]; simp only [hlen, not_false_eq_true, if_true], by omega⟩
end Zrnt.Proofs.Committees
