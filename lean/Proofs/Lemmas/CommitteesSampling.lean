import Proofs.Lemmas.Committees
/-! Helper lemmas for C07, sampling part: `ComputeProposerIndex` and the sync-committee loop against the
specification's candidate sequence. -/
namespace Zrnt.Proofs.Committees
open Zrnt Zrnt.Shuffle Zrnt.Beacon.Committees Zrnt.Proofs.Shuffle

/-- standing assumptions of the sampling theorems -/
structure SampleOK (H : ByteArray → ByteArray) (cfg : Cfg) (vals : Array Val) (active : Array Nat) : Prop where
  hash32 : ∀ x, (H x).size = 32
  rounds : cfg.SHUFFLE_ROUND_COUNT ≤ 255
  nonempty : 0 < active.size
  size : active.size ≤ 2 ^ 40
  valid : ∀ k (hk : k < active.size), active[k] < vals.size

/-- index into `active` of the `c`-th candidate -/
def candPos (H : ByteArray → ByteArray) (cfg : Cfg) (active : Array Nat) (seed : ByteArray) (c : Nat) : Nat :=
  permUp (Hasher.ofHash H seed) active.size cfg.SHUFFLE_ROUND_COUNT (c % active.size)

theorem candPos_lt {H cfg vals active} (ok : SampleOK H cfg vals active) (seed : ByteArray) (c : Nat) :
    candPos H cfg active seed c < active.size :=
  permUp_lt (by have := ok.size; omega) _ _ (Nat.mod_lt _ ok.nonempty)

theorem permuteIndex_cand {H cfg vals active} (ok : SampleOK H cfg vals active) (seed : ByteArray) (c : Nat) :
    permuteIndex (Hasher.ofHash H seed) (rounds8 cfg) (c % active.size) active.size = .ok (candPos H cfg active seed c) := by
  rw [rounds8_eq ok.rounds]
  exact innerPermuteIndex_up ok.nonempty

/-- the specification's `c`-th candidate and its acceptance, in the model's terms -/
theorem candidate_ok {H cfg vals active} (ok : SampleOK H cfg vals active) (seed : ByteArray) (c : Nat) :
    Spec.candidate H cfg vals.toList active.toList seed c =
      .ok (active[candPos H cfg active seed c]'(candPos_lt ok seed c),
           accepts cfg (vals[active[candPos H cfg active seed c]'(candPos_lt ok seed c)]'(ok.valid _ _)).effBal
             (byteAt (H (seed ++ putUint64 (c / 32))) (c % 32))) := by
  have hlt := candPos_lt ok seed c
  have hn0 : ¬ active.size = 0 := by have := ok.nonempty; omega
  unfold Spec.candidate
  simp only [Array.length_toList, hn0, if_false]
  have hsp : Zrnt.Shuffle.Spec.computeShuffledIndex H cfg.SHUFFLE_ROUND_COUNT (c % active.size) active.size seed =
      some (candPos H cfg active seed c) := by
    rw [spec_unfold H _ _ active.size seed (Nat.mod_lt _ ok.nonempty)]
    exact foldlM_spec_eq ok.hash32 ok.size _ _ (by have := ok.rounds; omega) (Nat.mod_lt _ ok.nonempty)
  rw [hsp]
  simp only [Array.getElem?_toList, Array.getElem?_eq_getElem hlt, Array.getElem?_eq_getElem (ok.valid _ hlt), uintToBytes8]
  unfold accepts byteAt
  simp

theorem shl5_or (i j : Nat) (hj : j < 32) : (i <<< 5) ||| j = 32 * i + j := by
  rw [← Nat.shiftLeft_add_eq_or_of_lt (by simpa using hj), Nat.shiftLeft_eq]
  omega

/-- one block of 32 candidates of `ComputeProposerIndex` against the specification's loop -/
theorem proposerInner_spec {H cfg vals active} (ok : SampleOK H cfg vals active) (seed : ByteArray) (i : Nat) (F : Nat) :
    ∀ k j, j + k = 32 →
      (∃ c, proposerInner H cfg vals active seed i (H (seed ++ putUint64 i)) k j = .ok (some c) ∧
        Spec.compute_proposer_index H cfg vals.toList active.toList seed (k + F) (32 * i + j) = .ok c) ∨
      (proposerInner H cfg vals active seed i (H (seed ++ putUint64 i)) k j = .ok none ∧
        Spec.compute_proposer_index H cfg vals.toList active.toList seed (k + F) (32 * i + j) =
          Spec.compute_proposer_index H cfg vals.toList active.toList seed F (32 * i + 32)) := by
  intro k
  induction k with
  | zero =>
    intro j hj
    right
    have : j = 32 := by omega
    subst this
    exact ⟨rfl, by rw [Nat.zero_add]⟩
  | succ k ih =>
    intro j hj
    have hj32 : j < 32 := by omega
    have hn0 : ¬ active.toList.length = 0 := by have := ok.nonempty; rw [Array.length_toList]; omega
    have hc := candidate_ok ok seed (32 * i + j)
    have hdiv : (32 * i + j) / 32 = i := by omega
    have hmod : (32 * i + j) % 32 = j := by omega
    rw [hdiv, hmod] at hc
    have hfuel : k + 1 + F = (k + F) + 1 := by omega
    rw [hfuel]
    rw [proposerInner, Spec.compute_proposer_index]
    simp only [hn0, if_false, hc]
    rw [shl5_or i j hj32, permuteIndex_cand ok seed (32 * i + j)]
    simp only [candPos_lt ok seed (32 * i + j), dite_true, ok.valid _ (candPos_lt ok seed (32 * i + j))]
    cases hacc : accepts cfg (vals[active[candPos H cfg active seed (32 * i + j)]'(candPos_lt ok seed _)]'(ok.valid _ _)).effBal
        (byteAt (H (seed ++ putUint64 i)) j)
    · simp only [Bool.false_eq_true, if_false]
      have := ih (j + 1) (by omega)
      rw [show 32 * i + (j + 1) = 32 * i + j + 1 by omega] at this
      exact this
    · left
      exact ⟨_, by simp, rfl⟩

theorem proposerOuter_spec {H cfg vals active} (ok : SampleOK H cfg vals active) (seed : ByteArray) :
    ∀ K i F,
      (∃ c, proposerOuter H cfg vals active seed K i = .ok c ∧
        Spec.compute_proposer_index H cfg vals.toList active.toList seed (32 * K + F) (32 * i) = .ok c) ∨
      (proposerOuter H cfg vals active seed K i = .err ∧
        Spec.compute_proposer_index H cfg vals.toList active.toList seed (32 * K + F) (32 * i) =
          Spec.compute_proposer_index H cfg vals.toList active.toList seed F (32 * (i + K))) := by
  intro K
  induction K with
  | zero => intro i F; right; exact ⟨rfl, by simp⟩
  | succ K ih =>
    intro i F
    have hfuel : 32 * (K + 1) + F = 32 + (32 * K + F) := by omega
    rw [hfuel, proposerOuter]
    rcases proposerInner_spec ok seed i (32 * K + F) 32 0 (by omega) with ⟨c, hin, hsp⟩ | ⟨hin, hsp⟩
    · left
      rw [hin]
      exact ⟨c, rfl, by simpa using hsp⟩
    · rw [hin]
      simp only []
      rw [Nat.add_zero] at hsp
      rw [hsp]
      rcases ih (i + 1) F with ⟨c, ho, hs⟩ | ⟨ho, hs⟩
      · left; exact ⟨c, ho, by rw [show 32 * i + 32 = 32 * (i + 1) by omega]; exact hs⟩
      · right
        refine ⟨ho, ?_⟩
        rw [show 32 * i + 32 = 32 * (i + 1) by omega, hs, show i + 1 + K = i + (K + 1) by omega]

/-- `ComputeProposerIndex` against `compute_proposer_index`: the value when it returns one; when it gives up
after 32 000 candidates the specification is still looking (from candidate 32 000 on) -/
theorem computeProposerIndex_spec {H cfg vals active} (ok : SampleOK H cfg vals active) (seed : ByteArray) (F : Nat) :
    (∃ c, computeProposerIndex H cfg vals active seed = .ok c ∧
      Spec.compute_proposer_index H cfg vals.toList active.toList seed (32000 + F) 0 = .ok c) ∨
    (computeProposerIndex H cfg vals active seed = .err ∧
      Spec.compute_proposer_index H cfg vals.toList active.toList seed (32000 + F) 0 =
        Spec.compute_proposer_index H cfg vals.toList active.toList seed F 32000) := by
  have hn0 : ¬ active.size = 0 := by have := ok.nonempty; omega
  unfold computeProposerIndex
  simp only [hn0, if_false]
  have := proposerOuter_spec ok seed 1000 0 F
  simpa using this

/-- a list result seen as the array the Go code builds -/
def toArr : Res (List Nat) → Res (Array Nat)
  | .ok l => .ok l.toArray
  | .err => .err
  | .panic => .panic
  | .outOfFuel => .outOfFuel

/-- the sync-committee sampling loop (hash cached per 32 candidates) is the specification's loop,
iteration for iteration -/
theorem syncLoop_spec {H cfg vals active} (ok : SampleOK H cfg vals active) (seed : ByteArray) :
    ∀ fuel i h out, (i % 32 ≠ 0 → h = H (seed ++ putUint64 (i / 32))) →
      syncLoop H cfg vals active seed fuel i h out =
        toArr (Spec.sync_loop H cfg vals.toList active.toList seed fuel i out.toList) := by
  intro fuel
  induction fuel with
  | zero => intro i h out _; rfl
  | succ fuel ih =>
    intro i h out hinv
    rw [syncLoop, Spec.sync_loop]
    simp only [Array.length_toList]
    by_cases hsz : out.size < cfg.SYNC_COMMITTEE_SIZE
    · simp only [hsz, not_true_eq_false, if_false]
      have hc := candidate_ok ok seed i
      rw [hc, permuteIndex_cand ok seed i]
      simp only [candPos_lt ok seed i, dite_true, ok.valid _ (candPos_lt ok seed i)]
      have hh : (if i % 32 = 0 then H (seed ++ putUint64 (i / 32)) else h) = H (seed ++ putUint64 (i / 32)) := by
        split
        · rfl
        · exact hinv ‹_›
      rw [hh]
      have hnext : (i + 1) % 32 ≠ 0 → H (seed ++ putUint64 (i / 32)) = H (seed ++ putUint64 ((i + 1) / 32)) := by
        intro hne
        have : (i + 1) / 32 = i / 32 := by omega
        rw [this]
      cases hacc : accepts cfg (vals[active[candPos H cfg active seed i]'(candPos_lt ok seed _)]'(ok.valid _ _)).effBal
          (byteAt (H (seed ++ putUint64 (i / 32))) (i % 32))
      · simp only [Bool.false_eq_true, if_false]
        exact ih (i + 1) _ out hnext
      · simp only [if_true]
        have := ih (i + 1) _ (out.push (active[candPos H cfg active seed i]'(candPos_lt ok seed _))) hnext
        rw [Array.toList_push] at this
        exact this
    · simp only [hsz, not_false_eq_true, if_true]
      simp [toArr]

theorem computeShufflingEpoch_epoch {H : ByteArray → ByteArray} {cfg : Cfg} (ok : CfgOK cfg) (vals : Array Val)
    (mixes : Nat → ByteArray) (e : Nat) (hv : vals.size < 2 ^ 63) (se : ShufflingEpoch)
    (h : computeShufflingEpoch H cfg vals mixes e = .ok se) : se.epoch = e := by
  have := newShufflingEpoch_ok (H := H) ok vals (getSeed H cfg mixes e DOMAIN_BEACON_ATTESTER) e hv
  unfold computeShufflingEpoch at h
  rw [this] at h
  injection h with h
  rw [← h]


/-- the standing assumptions of the sampling theorems hold for the active set of any epoch with an active validator -/
theorem sampleOK_active {H : ByteArray → ByteArray} (hH : ∀ x, (H x).size = 32) {cfg : Cfg}
    (hsrc : cfg.SHUFFLE_ROUND_COUNT ≤ 255) (vals : Array Val) (hv : vals.size ≤ 2 ^ 40) (e : Nat)
    (hne : 0 < (activeIndices vals e).size) : SampleOK H cfg vals (activeIndices vals e) :=
  ⟨hH, hsrc, hne, by have := size_activeIndices_le vals e; omega, fun k hk =>
    ((mem_activeIndices vals e _).mp (by
      rw [← Array.getElem_toList (h := by simpa using hk)]; exact List.getElem_mem _)).1⟩


end Zrnt.Proofs.Committees
