import Zrnt.Config.Spec
/-! Helper lemmas for C14 `envelope_signature_version`: domain separation, constructively (a failure of
separation exhibits a collision of the hash function, resp. of its first 28 bytes). -/
namespace Zrnt.Proofs.Domain
open Zrnt Zrnt.Config

/-- two different inputs with the same hash -/
def Collision (H : ByteArray → ByteArray) : Prop := ∃ x y, x ≠ y ∧ H x = H y
/-- two different inputs whose hashes agree on the first 28 bytes (what `compute_domain` keeps) -/
def Collision28 (H : ByteArray → ByteArray) : Prop := ∃ x y, x ≠ y ∧ (H x).extract 0 28 = (H y).extract 0 28

theorem append_cancel_of_size {a a' b b' : ByteArray} (hs : a.size = a'.size) (h : a ++ b = a' ++ b') :
    a = a' ∧ b = b' := by
  constructor
  · have h1 : (a ++ b).extract 0 a.size = (a' ++ b').extract 0 a.size := by rw [h]
    rw [ByteArray.extract_append_eq_left rfl, ByteArray.extract_append_eq_left hs] at h1
    exact h1
  · have hb : b.size = b'.size := by
      have := congrArg ByteArray.size h
      simp [ByteArray.size_append] at this; omega
    have h1 : (a ++ b).extract a.size (a.size + b.size) = (a' ++ b').extract a.size (a.size + b.size) := by rw [h]
    rw [ByteArray.extract_append_eq_right rfl rfl, ByteArray.extract_append_eq_right hs (by rw [hs, hb])] at h1
    exact h1

theorem versionBytes_size (v : UInt32) : (versionBytes v).size = 4 := rfl

theorem versionBytes_inj {v v' : UInt32} (h : versionBytes v = versionBytes v') : v = v' := by
  have hd : (versionBytes v).data = (versionBytes v').data := by rw [h]
  simp only [versionBytes, Array.mk.injEq, List.cons.injEq, and_true] at hd
  obtain ⟨h0, h1, h2, h3⟩ := hd
  apply UInt32.toNat_inj.mp
  have e0 := congrArg UInt8.toNat h0
  have e1 := congrArg UInt8.toNat h1
  have e2 := congrArg UInt8.toNat h2
  have e3 := congrArg UInt8.toNat h3
  simp [UInt32.toNat_toUInt8, UInt32.toNat_shiftRight, Nat.shiftRight_eq_div_pow] at e0 e1 e2 e3
  have := v.toNat_lt
  have := v'.toNat_lt
  omega

theorem zeros_size (n : Nat) : (zeros n).size = n := by simp [zeros, ByteArray.size]

/-- the 64-byte fork-data input determines (version, genesis validators root) -/
theorem forkDataInput_inj {v v' : UInt32} {g g' : ByteArray} (h : forkDataInput v g = forkDataInput v' g') :
    v = v' ∧ g = g' := by
  unfold forkDataInput at h
  have hs : (versionBytes v ++ zeros 28).size = (versionBytes v' ++ zeros 28).size := by
    simp [ByteArray.size_append, versionBytes_size]
  obtain ⟨h1, h2⟩ := append_cancel_of_size hs h
  obtain ⟨h3, _⟩ := append_cancel_of_size (by simp [versionBytes_size]) h1
  exact ⟨versionBytes_inj h3, h2⟩

/-- **Domain separation, constructively.** Two (version, genesis validators root) pairs with the same
signature domain are equal, or their fork-data inputs are an explicit collision of `H` on the 28 bytes
`compute_domain` keeps. -/
theorem domain_separation (H : ByteArray → ByteArray) (dt : ByteArray) (v v' : UInt32) (g g' : ByteArray)
    (h : computeDomain H dt v g = computeDomain H dt v' g') :
    (v = v' ∧ g = g') ∨
    (forkDataInput v g ≠ forkDataInput v' g' ∧
      (H (forkDataInput v g)).extract 0 28 = (H (forkDataInput v' g')).extract 0 28) := by
  unfold computeDomain forkDataRoot at h
  obtain ⟨_, h2⟩ := append_cancel_of_size rfl h
  by_cases he : forkDataInput v g = forkDataInput v' g'
  · exact Or.inl (forkDataInput_inj he)
  · exact Or.inr ⟨he, h2⟩

/-- **Signing-root separation, constructively.** Equal signing roots of the same object root under two
domains: the domains are equal, or the two 64-byte inputs are an explicit collision of `H`. -/
theorem signingRoot_separation (H : ByteArray → ByteArray) (r d d' : ByteArray)
    (h : signingRoot H r d = signingRoot H r d') :
    d = d' ∨ (r ++ d ≠ r ++ d' ∧ H (r ++ d) = H (r ++ d')) := by
  by_cases he : r ++ d = r ++ d'
  · exact Or.inl (append_cancel_of_size rfl he).2
  · exact Or.inr ⟨he, h⟩

/-- `VerifySignatureVersioned` for an envelope whose digest and signature were made under (v', g') by the
expected proposer's key (ideal BLS: the signature verifies for exactly the message it was made over),
checked under (v, g): accepted if the pairs are equal; if accepted although they differ, a collision is
exhibited. -/
theorem verifyVersioned_iff (H : ByteArray → ByteArray) (v v' : UInt32) (g g' root : ByteArray) (p : UInt64) :
    let signed := signingRoot H root (computeDomain H DOMAIN_BEACON_PROPOSER v' g')
    let accept := verifyEnvelopeVersioned H (fun m => decide (m = signed)) v g p p (forkDigest H v' g') root
    ((v = v' ∧ g = g') → accept = true) ∧
    (accept = true → (v = v' ∧ g = g') ∨ Collision28 H ∨ Collision H) := by
  intro signed accept
  constructor
  · rintro ⟨rfl, rfl⟩
    simp [accept, signed, verifyEnvelopeVersioned]
  · intro h
    simp only [accept, verifyEnvelopeVersioned, Bool.and_eq_true, decide_eq_true_eq] at h
    obtain ⟨_, hs⟩ := h
    rcases signingRoot_separation H root _ _ hs with hd | ⟨hne, heq⟩
    · rcases domain_separation H _ v v' g g' hd with hvg | ⟨hne, heq⟩
      · exact Or.inl hvg
      · exact Or.inr (Or.inl ⟨_, _, hne, heq⟩)
    · exact Or.inr (Or.inr ⟨_, _, hne, heq⟩)
end Zrnt.Proofs.Domain
