import Zrnt.SSZ.Tree
import Proofs.Lemmas.SSZMerkle
/-! No stale caches in the persistent tree model: after any `setLeaf` the cached root equals the root rebuilt from the leaves. -/
namespace Zrnt.Proofs.SSZ
open Zrnt.SSZ Zrnt.SSZ.CTree

theorem valid_hash (H : Hash2) : ∀ t : CTree, t.Valid H → t.cachedRoot = t.rehash H
  | .leaf _, _ => rfl
  | .node h l r, hv => by
    simp only [Valid] at hv
    have h1 := valid_hash H l hv.1
    have h2 := valid_hash H r hv.2.1
    show h = H (l.rehash H) (r.rehash H)
    rw [hv.2.2, h1, h2]

theorem set_valid (H : Hash2) : ∀ (t : CTree) (p : List Bool) (c : Chunk), t.Valid H → (t.setLeaf H p c).Valid H
  | .leaf _, [], _, _ => by simp [setLeaf, Valid]
  | .leaf _, _ :: _, _, hv => by simpa [setLeaf] using hv
  | .node _ _ _, [], _, hv => by simpa [setLeaf] using hv
  | .node _ l r, false :: p, c, hv => by
    simp only [Valid] at hv
    simp only [setLeaf, Valid]
    exact ⟨set_valid H l p c hv.1, hv.2.1, trivial⟩
  | .node _ l r, true :: p, c, hv => by
    simp only [Valid] at hv
    simp only [setLeaf, Valid]
    exact ⟨hv.1, set_valid H r p c hv.2.1, trivial⟩

theorem build_valid (H : Hash2) : ∀ (d : Nat) (cs : List Chunk), (build H d cs).Valid H
  | 0, _ => by simp [build, Valid]
  | d + 1, cs => by
    simp only [build, Valid]
    exact ⟨build_valid H d _, build_valid H d _, trivial⟩

theorem build_perfect (H : Hash2) : ∀ (d : Nat) (cs : List Chunk), Perfect d (build H d cs)
  | 0, _ => by simp [build, Perfect]
  | d + 1, cs => by
    simp only [build, Perfect]
    exact ⟨build_perfect H d _, build_perfect H d _⟩

theorem rehash_build (H : Hash2) : ∀ (d : Nat) (cs : List Chunk), (build H d cs).rehash H = treeRoot H d cs
  | 0, _ => by simp [build, rehash, treeRoot]
  | d + 1, cs => by simp only [build, rehash, treeRoot, rehash_build H d]

theorem leaves_length : ∀ (d : Nat) (t : CTree), Perfect d t → t.leaves.length = 2 ^ d
  | 0, .leaf _, _ => by simp [leaves]
  | 0, .node _ _ _, h => by simp [Perfect] at h
  | d + 1, .leaf _, h => by simp [Perfect] at h
  | d + 1, .node _ l r, h => by
    simp only [Perfect] at h
    simp only [leaves, List.length_append, leaves_length d l h.1, leaves_length d r h.2, Nat.pow_succ]; omega

/-- rebuilding a perfect tree from its leaves gives the same root as hashing it from scratch -/
theorem rehash_build_leaves (H : Hash2) : ∀ (d : Nat) (t : CTree), Perfect d t →
    (build H d t.leaves).rehash H = t.rehash H
  | 0, .leaf _, _ => by simp [leaves, build, rehash]
  | 0, .node _ _ _, h => by simp [Perfect] at h
  | d + 1, .leaf _, h => by simp [Perfect] at h
  | d + 1, .node _ l r, h => by
    simp only [Perfect] at h
    have hl := leaves_length d l h.1
    simp only [leaves, build, rehash]
    rw [List.take_left' hl, List.drop_left' hl, rehash_build_leaves H d l h.1, rehash_build_leaves H d r h.2]

theorem set_perfect (H : Hash2) : ∀ (d : Nat) (t : CTree) (p : List Bool) (c : Chunk), Perfect d t →
    Perfect d (t.setLeaf H p c)
  | 0, .leaf _, [], _, _ => by simp [setLeaf, Perfect]
  | 0, .leaf _, _ :: _, _, h => by simpa [setLeaf] using h
  | 0, .node _ _ _, _, _, h => by simp [Perfect] at h
  | d + 1, .leaf _, _, _, h => by simp [Perfect] at h
  | d + 1, .node _ _ _, [], _, h => by simpa [setLeaf] using h
  | d + 1, .node _ l r, false :: p, c, h => by
    simp only [Perfect] at h
    simp only [setLeaf, Perfect]
    exact ⟨set_perfect H d l p c h.1, h.2⟩
  | d + 1, .node _ l r, true :: p, c, h => by
    simp only [Perfect] at h
    simp only [setLeaf, Perfect]
    exact ⟨h.1, set_perfect H d r p c h.2⟩

/-- `setLeaf` along a full-length path replaces exactly the addressed leaf -/
theorem leaves_set (H : Hash2) : ∀ (d : Nat) (t : CTree) (p : List Bool) (c : Chunk), Perfect d t → p.length = d →
    (t.setLeaf H p c).leaves = t.leaves.set (pathIndex p) c
  | 0, .leaf _, [], _, _, _ => by simp [setLeaf, leaves, pathIndex]
  | 0, .leaf _, _ :: _, _, _, hp => by simp at hp
  | 0, .node _ _ _, _, _, h, _ => by simp [Perfect] at h
  | d + 1, .leaf _, _, _, h, _ => by simp [Perfect] at h
  | d + 1, .node _ _ _, [], _, _, hp => by simp at hp
  | d + 1, .node _ l r, false :: p, c, h, hp => by
    simp only [Perfect] at h
    simp only [List.length_cons, Nat.add_right_cancel_iff] at hp
    have hl := leaves_length d l h.1
    have hidx : pathIndex p < 2 ^ d := by
      clear hl h
      induction p generalizing d with
      | nil => simp [pathIndex]; exact Nat.two_pow_pos d
      | cons b q ih =>
        subst hp
        have := ih q.length rfl
        simp only [pathIndex, List.length_cons]
        rw [Nat.pow_succ]
        split <;> omega
    simp only [setLeaf, leaves, pathIndex, leaves_set H d l p c h.1 hp]
    rw [List.set_append]
    simp [hl, hidx]
  | d + 1, .node _ l r, true :: p, c, h, hp => by
    simp only [Perfect] at h
    simp only [List.length_cons, Nat.add_right_cancel_iff] at hp
    have hl := leaves_length d l h.1
    simp only [setLeaf, leaves, pathIndex, leaves_set H d r p c h.2 hp]
    rw [List.set_append]
    subst hp
    simp only [if_true]
    rw [hl, if_neg (by omega), Nat.add_sub_cancel_left]

end Zrnt.Proofs.SSZ
