import Proofs.Lemmas.ForkChoiceDefs
/-!
# Fork choice: the weak structure invariant `WF0`

`WF` (ForkChoiceDefs) is not preserved by `OnPrune` on an array built by malformed insertions: after the compaction
`renumber` maps a dropped best child / best descendant to `NONE` independently of the other link, so `bc_bd`,
`bc_child` and the ancestry part of `bd_desc` can break. `WF0` keeps exactly the part of `WF` that every operation
(`OnPrune` included) preserves without any side condition, and that still excludes every panic and every endless
loop of the model: the index map is a bijection onto the node positions, parents have smaller positions, and the
best links stay inside the array.
-/
namespace Zrnt.ForkChoice

/-- Weak structure invariant of the proto array: what every operation preserves unconditionally. -/
structure WF0 (pr : PA) : Prop where
  off : pr.offset = 0
  len : pr.indices.length = pr.nodes.length
  /-- the index map points at the node with that reference -/
  idx_sound : ∀ ref i, aGet pr.indices ref = some i → ∃ n, pr.nodes[i]? = some n ∧ n.ref = ref
  /-- every node is found under its reference (so references are unique) -/
  idx_complete : ∀ (i : Nat) (n : Node), pr.nodes[i]? = some n → aGet pr.indices n.ref = some i
  /-- parents have smaller indices -/
  tpar_lt : ∀ (i : Nat) (n : Node) (p : Nat), pr.nodes[i]? = some n → n.tparent = some p → p < i
  fpar_lt : ∀ (i : Nat) (n : Node) (p : Nat), pr.nodes[i]? = some n → n.fparent = some p → p < i
  /-- best links stay inside the array -/
  bc_lt : ∀ (i : Nat) (n : Node) (c : Nat), pr.nodes[i]? = some n → n.bestChild = some c → c < pr.nodes.length
  bd_lt : ∀ (i : Nat) (n : Node) (d : Nat), pr.nodes[i]? = some n → n.bestDesc = some d → d < pr.nodes.length
  /-- every root in `blockSlots` has its node -/
  bs_node : ∀ root s, aGet pr.blockSlots root = some s → (aGet pr.indices ⟨s, root⟩).isSome

theorem fpar_lt_len (ns : List Node) (c i : Nat) (h : fpar ns c = some i) : c < ns.length := by
  unfold fpar at h
  cases hc : ns[c]? with
  | none => simp [hc] at h
  | some n => exact (List.getElem?_eq_some_iff.mp hc).1

/-- the full structure invariant implies the weak one -/
theorem WF.toWF0 {pr : PA} (h : WF pr) : WF0 pr where
  off := h.off
  len := h.len
  idx_sound := h.idx_sound
  idx_complete := h.idx_complete
  tpar_lt := h.tpar_lt
  fpar_lt := h.fpar_lt
  bc_lt := fun i n c hn hc => fpar_lt_len _ _ _ (h.bc_child i n c hn hc)
  bd_lt := fun i n d hn hd => (h.bd_desc i n d hn hd).1
  bs_node := h.bs_node

/-- an index found in the map is inside the array -/
theorem WF0.idx_lt {pr : PA} (h : WF0 pr) {r : NodeRef} {i : Nat} (hi : aGet pr.indices r = some i) :
    i < pr.nodes.length := by
  obtain ⟨n, hn, _⟩ := h.idx_sound r i hi
  exact (List.getElem?_eq_some_iff.1 hn).1

theorem WF0.tpar_valid {pr : PA} (h : WF0 pr) {i : Nat} {n : Node} (hn : pr.nodes[i]? = some n) :
    ∀ p, n.tparent = some p → p < pr.nodes.length := by
  intro p hp
  have h1 := h.tpar_lt i n p hn hp
  have h2 := (List.getElem?_eq_some_iff.mp hn).1
  exact Nat.lt_trans h1 h2

theorem WF0.fpar_lt' {pr : PA} (h : WF0 pr) (j p : Nat) (hp : fpar pr.nodes j = some p) : p < j := by
  unfold fpar at hp
  cases hj : pr.nodes[j]? with
  | none => simp [hj] at hp
  | some n =>
    simp [hj] at hp
    exact h.fpar_lt j n p hj hp

/-- `WF0` only looks at `offset`, `nodes`, `indices`, `blockSlots` -/
theorem WF0.congr {pr pr' : PA} (h : WF0 pr) (ho : pr'.offset = pr.offset) (hn : pr'.nodes = pr.nodes)
    (hi : pr'.indices = pr.indices) (hb : pr'.blockSlots = pr.blockSlots) : WF0 pr' where
  off := by rw [ho]; exact h.off
  len := by rw [hi, hn]; exact h.len
  idx_sound := by rw [hi, hn]; exact h.idx_sound
  idx_complete := by rw [hi, hn]; exact h.idx_complete
  tpar_lt := by rw [hn]; exact h.tpar_lt
  fpar_lt := by rw [hn]; exact h.fpar_lt
  bc_lt := by rw [hn]; exact h.bc_lt
  bd_lt := by rw [hn]; exact h.bd_lt
  bs_node := by rw [hi, hb]; exact h.bs_node

end Zrnt.ForkChoice
