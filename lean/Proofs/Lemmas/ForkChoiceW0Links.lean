import Proofs.Lemmas.ForkChoiceW0Defs
import Proofs.Lemmas.ForkChoiceLinks
/-!
# Fork choice: the best-child / best-descendant maintenance keeps the weak invariant `WF0`

Port of ForkChoiceLinks.lean to `WF0`: `maybeUpdate`, `pass2`, `updateConnections`, `applyScoreChanges`, `findHead`
never take an error branch and never panic on an array satisfying `WF0`, keep `WF0`, and change nothing but links
(`Frame`), resp. links, weights and epochs (`FrameS`). The frames, `pass1_some`, `findHeadStep`, … are reused.
-/
namespace Zrnt.ForkChoice

/-- A weakly framed array satisfies `WF0` as soon as its links stay inside. -/
theorem WF0.of_frameS {pr pr' : PA} (h : WF0 pr) (fr : FrameS pr pr')
    (hbc : ∀ (i : Nat) (n : Node) (c : Nat), pr'.nodes[i]? = some n → n.bestChild = some c →
      c < pr'.nodes.length)
    (hbd : ∀ (i : Nat) (n : Node) (d : Nat), pr'.nodes[i]? = some n → n.bestDesc = some d →
      d < pr'.nodes.length) :
    WF0 pr' where
  off := fr.off.trans h.off
  len := by rw [fr.indices, fr.len]; exact h.len
  idx_sound := by
    intro ref i hi
    rw [fr.indices] at hi
    obtain ⟨n, hn, hr⟩ := h.idx_sound ref i hi
    have := fr.skel i
    rw [hn] at this
    obtain ⟨n', hn', hs⟩ := map_skel_some this
    refine ⟨n', hn', ?_⟩
    simp [Node.skel] at hs
    rw [hs.1, hr]
  idx_complete := by
    intro i n' hn'
    have := (fr.skel i).symm
    rw [hn'] at this
    obtain ⟨n, hn, hs⟩ := map_skel_some this
    simp [Node.skel] at hs
    rw [fr.indices, ← hs.1]
    exact h.idx_complete i n hn
  tpar_lt := by
    intro i n' p hn' hp
    have := (fr.skel i).symm
    rw [hn'] at this
    obtain ⟨n, hn, hs⟩ := map_skel_some this
    simp [Node.skel] at hs
    exact h.tpar_lt i n p hn (by rw [hs.2.1, hp])
  fpar_lt := by
    intro i n' p hn' hp
    have := (fr.skel i).symm
    rw [hn'] at this
    obtain ⟨n, hn, hs⟩ := map_skel_some this
    simp [Node.skel] at hs
    exact h.fpar_lt i n p hn (by rw [hs.2.2.1, hp])
  bc_lt := hbc
  bd_lt := hbd
  bs_node := by
    intro root s hs
    rw [fr.blockSlots] at hs
    rw [fr.indices]
    exact h.bs_node root s hs

namespace W0

/-! ## writing the two links of one node -/

theorem getNode_eq {pr : PA} (h : WF0 pr) (i : Nat) : pr.getNode i = pr.nodes[i]? := by
  simp [PA.getNode, h.off]

theorem setNode_nodes {pr : PA} (h : WF0 pr) (p : Nat) (n : Node) :
    (pr.setNode p n).nodes = pr.nodes.set p n := by
  simp [PA.setNode, h.off]

/-- replacing the links of node `p` is a (strong) frame -/
theorem frame_setLinks {pr : PA} (h : WF0 pr) (p : Nat) (parent : Node) (hp : pr.nodes[p]? = some parent)
    (bc bd : Option Idx) :
    Frame pr (pr.setNode p { parent with bestChild := bc, bestDesc := bd }) := by
  have hpl : p < pr.nodes.length := (List.getElem?_eq_some_iff.mp hp).1
  refine ⟨⟨rfl, rfl, rfl, rfl, rfl, ?_, ?_⟩, rfl, rfl, ?_⟩
  · simp [PA.setNode]
  · intro i
    rw [setNode_nodes h, List.getElem?_set]
    by_cases hpi : p = i
    · subst hpi; rw [hp]; simp [hpl, Node.skel]
    · simp [hpi]
  · intro i
    rw [setNode_nodes h, List.getElem?_set]
    by_cases hpi : p = i
    · subst hpi; rw [hp]; simp [hpl]
    · simp [hpi]

/-- replacing the links of node `p` by links inside the array keeps `WF0` -/
theorem wf_setLinks {pr : PA} (h : WF0 pr) (p : Nat) (parent : Node) (hp : pr.nodes[p]? = some parent)
    (bc bd : Option Idx)
    (hbc : ∀ c, bc = some c → c < pr.nodes.length)
    (hbd : ∀ d, bd = some d → d < pr.nodes.length) :
    WF0 (pr.setNode p { parent with bestChild := bc, bestDesc := bd }) := by
  have fr := (frame_setLinks h p parent hp bc bd).toFrameS
  have hpl : p < pr.nodes.length := (List.getElem?_eq_some_iff.mp hp).1
  have key : ∀ (i : Nat) (n : Node),
      (pr.setNode p { parent with bestChild := bc, bestDesc := bd }).nodes[i]? = some n →
      (i = p ∧ n.bestChild = bc ∧ n.bestDesc = bd) ∨ pr.nodes[i]? = some n := by
    intro i n hn
    rw [setNode_nodes h, List.getElem?_set] at hn
    by_cases hpi : p = i
    · subst hpi
      simp [hpl] at hn
      subst hn
      exact Or.inl ⟨rfl, rfl, rfl⟩
    · simp [hpi] at hn
      exact Or.inr hn
  refine h.of_frameS fr ?_ ?_
  · intro i n c hn hc
    rw [fr.len]
    rcases key i n hn with ⟨rfl, h1, _⟩ | h0
    · exact hbc c (h1 ▸ hc)
    · exact h.bc_lt i n c h0 hc
  · intro i n d hn hd
    rw [fr.len]
    rcases key i n hn with ⟨rfl, _, h2⟩ | h0
    · exact hbd d (h2 ▸ hd)
    · exact h.bd_lt i n d h0 hd

/-! ## `maybeUpdate` -/

theorem nodeLeads_some {pr : PA} (h : WF0 pr) (i : Nat) (n : Node) (hn : pr.nodes[i]? = some n) :
    ∃ b, pr.nodeLeads n = some b := by
  unfold PA.nodeLeads
  cases hd : n.bestDesc with
  | none => exact ⟨_, rfl⟩
  | some d =>
    have hl := h.bd_lt i n d hn hd
    simp only [getNode_eq h]
    rw [List.getElem?_eq_getElem hl]
    exact ⟨_, rfl⟩

/-- the three possible results of `maybeUpdate` -/
theorem maybeUpdate_cases (pr : PA) (h : WF0 pr) (p c : Nat) (hc : fpar pr.nodes c = some p) :
    ∃ child parent, pr.nodes[c]? = some child ∧ pr.nodes[p]? = some parent ∧
      (pr.maybeUpdate p c = some pr ∨
       pr.maybeUpdate p c = some (pr.setNode p { parent with bestChild := none, bestDesc := none }) ∨
       pr.maybeUpdate p c = some (pr.setNode p
         { parent with bestChild := some c, bestDesc := some (child.bestDesc.getD c) })) := by
  obtain ⟨child, hchild, hfp⟩ := fpar_node hc
  have hcl : c < pr.nodes.length := (List.getElem?_eq_some_iff.mp hchild).1
  have hpc : p < c := h.fpar_lt c child p hchild hfp
  have hpl : p < pr.nodes.length := by omega
  have hparent : pr.nodes[p]? = some pr.nodes[p] := List.getElem?_eq_getElem hpl
  obtain ⟨cl, hcl'⟩ := nodeLeads_some h c child hchild
  refine ⟨child, pr.nodes[p], hchild, hparent, ?_⟩
  unfold PA.maybeUpdate
  simp only [getNode_eq h, hchild, hparent, hcl']
  cases hb : (pr.nodes[p]).bestChild with
  | none =>
    simp only []
    split
    · exact Or.inr (Or.inr rfl)
    · exact Or.inl rfl
  | some bc =>
    simp only []
    have hbcl : bc < pr.nodes.length := h.bc_lt p _ bc hparent hb
    have hbest : pr.nodes[bc]? = some pr.nodes[bc] := List.getElem?_eq_getElem hbcl
    obtain ⟨bl, hbl⟩ := nodeLeads_some h bc _ hbest
    simp only [hbest, hbl]
    repeat' split
    all_goals first
      | exact Or.inl rfl
      | exact Or.inr (Or.inl rfl)
      | exact Or.inr (Or.inr rfl)

/-- one update: defined (no error), keeps `WF0`, changes nothing but the two links of the parent -/
theorem wf_maybeUpdate (pr : PA) (h : WF0 pr) (p c : Nat) (hc : fpar pr.nodes c = some p) :
    ∃ pr', pr.maybeUpdate p c = some pr' ∧ WF0 pr' ∧ Frame pr pr' := by
  obtain ⟨child, parent, hchild, hparent, hres⟩ := maybeUpdate_cases pr h p c hc
  have hcl : c < pr.nodes.length := (List.getElem?_eq_some_iff.mp hchild).1
  rcases hres with hres | hres | hres
  · exact ⟨_, hres, h, Frame.refl pr⟩
  · refine ⟨_, hres, ?_, frame_setLinks h p parent hparent none none⟩
    exact wf_setLinks h p parent hparent none none (by simp) (by simp)
  · refine ⟨_, hres, ?_, frame_setLinks h p parent hparent _ _⟩
    refine wf_setLinks h p parent hparent _ _ ?_ ?_
    · intro c' hc'
      cases hc'
      exact hcl
    · intro d hd
      simp only [Option.some.injEq] at hd
      cases hbd : child.bestDesc with
      | none =>
        simp [hbd] at hd
        subst hd
        exact hcl
      | some d' =>
        simp [hbd] at hd
        subst hd
        exact h.bd_lt c child d' hchild hbd

theorem wf_pass2 (pr : PA) (h : WF0 pr) (k : Nat) (hk : k ≤ pr.nodes.length) :
    ∃ pr', pr.pass2 k = (pr', true) ∧ WF0 pr' ∧ Frame pr pr' := by
  induction k generalizing pr with
  | zero => exact ⟨pr, rfl, h, Frame.refl pr⟩
  | succ i ih =>
    have hil : i < pr.nodes.length := by omega
    rw [PA.pass2, List.getElem?_eq_getElem hil]
    simp only []
    cases hf : (pr.nodes[i]).fparent with
    | none => exact ih pr h (by omega)
    | some p =>
      simp only [h.off, Nat.zero_add]
      have hc : fpar pr.nodes i = some p := by
        simp [fpar, List.getElem?_eq_getElem hil, hf]
      obtain ⟨pr1, hm, hw1, hf1⟩ := wf_maybeUpdate pr h p i hc
      simp only [hm]
      obtain ⟨pr2, hp2, hw2, hf2⟩ := ih pr1 hw1 (by rw [hf1.len]; omega)
      exact ⟨pr2, hp2, hw2, hf1.trans hf2⟩

theorem wf_updated {pr : PA} (h : WF0 pr) (b : Bool) : WF0 { pr with updated := b } :=
  h.congr rfl rfl rfl rfl

theorem wf_updateConnections (pr : PA) (h : WF0 pr) :
    ∃ pr', pr.updateConnections = (pr', true) ∧ WF0 pr' ∧ pr'.updated = true ∧ Frame pr pr' := by
  obtain ⟨pr1, h1, hw1, hf1⟩ := wf_pass2 pr h pr.nodes.length (Nat.le_refl _)
  refine ⟨{ pr1 with updated := true }, ?_, wf_updated hw1 true, rfl, hf1.trans (frame_updated pr1 true)⟩
  simp [PA.updateConnections, h1]

/-- replacing the nodes by nodes that differ in weights only keeps `WF0` (and the epochs do not matter) -/
theorem wf_of_nw {pr : PA} (h : WF0 pr) (ns : List Node) (jE fE : Nat) (hl : ns.length = pr.nodes.length)
    (hnw : ∀ i : Nat, (ns[i]?).map Node.nw = (pr.nodes[i]?).map Node.nw) :
    WF0 { pr with jEpoch := jE, fEpoch := fE, nodes := ns } ∧
    FrameS pr { pr with jEpoch := jE, fEpoch := fE, nodes := ns } := by
  have hsk : ∀ i : Nat, (ns[i]?).map Node.skel = (pr.nodes[i]?).map Node.skel := by
    intro i
    have := hnw i
    cases h1 : ns[i]? <;> cases h2 : pr.nodes[i]? <;> simp [h1, h2, Node.nw] at this ⊢
    exact this.1
  have key : ∀ (i : Nat) (n : Node), ns[i]? = some n →
      ∃ n0, pr.nodes[i]? = some n0 ∧ n.bestChild = n0.bestChild ∧ n.bestDesc = n0.bestDesc := by
    intro i n hn
    have := hnw i
    rw [hn] at this
    cases h2 : pr.nodes[i]? with
    | none => simp [h2] at this
    | some n0 =>
      simp [h2, Node.nw] at this
      exact ⟨n0, rfl, this.2.1, this.2.2⟩
  have fr : FrameS pr { pr with jEpoch := jE, fEpoch := fE, nodes := ns } :=
    ⟨rfl, rfl, rfl, rfl, rfl, hl, hsk⟩
  refine ⟨h.of_frameS fr ?_ ?_, fr⟩
  · intro i n c hn hc
    rw [fr.len]
    obtain ⟨n0, h0, e1, _⟩ := key i n hn
    exact h.bc_lt i n0 c h0 (e1 ▸ hc)
  · intro i n d hn hd
    rw [fr.len]
    obtain ⟨n0, h0, _, e2⟩ := key i n hn
    exact h.bd_lt i n0 d h0 (e2 ▸ hd)

/-- ApplyScoreChanges with a delta vector of the right length succeeds and keeps `WF0` -/
theorem wf_applyScoreChanges (pr : PA) (h : WF0 pr) (ds : List Int) (hl : ds.length = pr.nodes.length)
    (jE fE : Nat) :
    ∃ pr', pr.applyScoreChanges ds jE fE = .ok pr' () ∧ WF0 pr' ∧ pr'.jEpoch = jE ∧ pr'.fEpoch = fE ∧
      pr'.updated = true ∧ FrameS pr pr' := by
  obtain ⟨ns, ds', h1, hlen, hnw⟩ := pass1_some pr.nodes.length pr.nodes ds (Nat.le_refl _) hl h.fpar_lt
  obtain ⟨hw1, hf1⟩ := wf_of_nw h ns jE fE hlen hnw
  obtain ⟨pr2, h2, hw2, hf2⟩ :=
    wf_pass2 { pr with jEpoch := jE, fEpoch := fE, nodes := ns } hw1 ns.length (Nat.le_refl _)
  refine ⟨{ pr2 with updated := true }, ?_, wf_updated hw2 true, hf2.jE, hf2.fE, rfl,
    hf1.trans (hf2.toFrameS.trans (frame_updated pr2 true).toFrameS)⟩
  rw [← h.off] at h1
  unfold PA.applyScoreChanges
  simp only [hl, ne_eq, not_true_eq_false, if_false, h1, h2]

/-! ## `findHead` -/

theorem findHeadStep_cases (pr : PA) (h : WF0 pr) (root : Root) (slot : Nat) :
    (∃ r, findHeadStep pr root slot = .ok pr r ∧ (aGet pr.indices r).isSome) ∨
    findHeadStep pr root slot = .err pr := by
  unfold findHeadStep
  repeat' split
  all_goals first
    | exact Or.inr rfl
    | skip
  rename_i bestNode hb _
  rw [getNode_eq h] at hb
  exact Or.inl ⟨_, rfl, by rw [h.idx_complete _ _ hb]; rfl⟩

/-- FindHead never panics and keeps `WF0`, whether it returns a head or an error -/
theorem wf_findHead (pr : PA) (h : WF0 pr) (root : Root) (slot : Nat) :
    (∃ pr' r, pr.findHead root slot = .ok pr' r ∧ WF0 pr' ∧ FrameS pr pr' ∧ (aGet pr'.indices r).isSome) ∨
    (∃ pr', pr.findHead root slot = .err pr' ∧ WF0 pr' ∧ FrameS pr pr') := by
  rw [findHead_eq]
  cases hu : pr.updated with
  | true =>
    simp only [if_true]
    rcases findHeadStep_cases pr h root slot with ⟨r, h1, h2⟩ | h1
    · exact Or.inl ⟨pr, r, h1, h, FrameS.refl pr, h2⟩
    · exact Or.inr ⟨pr, h1, h, FrameS.refl pr⟩
  | false =>
    obtain ⟨pr1, hc, hw1, _, hf1⟩ := wf_updateConnections pr h
    simp only [Bool.false_eq_true, if_false, hc]
    rcases findHeadStep_cases pr1 hw1 root slot with ⟨r, h1, h2⟩ | h1
    · exact Or.inl ⟨pr1, r, h1, hw1, hf1.toFrameS, h2⟩
    · exact Or.inr ⟨pr1, h1, hw1, hf1.toFrameS⟩

end W0
end Zrnt.ForkChoice
