import Zrnt.ForkChoice.Model
/-!
# Fork choice: the keys of the index map, in order, are the node references, in array order

`IdxOrd pr`: `pr.indices.map (·.1) = pr.nodes.map (·.ref)`, and these references are pairwise distinct.
The second component makes the invariant self-contained: it is kept by EVERY operation of the machine on every
argument, with no structure hypothesis (`WF`) and no admissibility hypothesis (`step_ord`, `run_ord`).

* insertions (`push` in `fillGaps`/`ProcessSlot`/`ProcessBlock`) append a node together with a key that the code
  has just checked to be absent, and `aSet` of an absent key appends (`aSet_fresh`);
* everything that rewrites weights / best links / epochs / the sink log keeps `indices` and every `ref` (`Same`);
* `OnPrune` keeps a sublist of the nodes (`compact`, references untouched, so still distinct), rebuilds the map
  from them in order (`rebuildIndices_keys`) and `reparent` touches only `fparent`/`weight`.

The helper lemmas live in the namespace `Zrnt.ForkChoice.NodesOrd`; this file imports the model only.
-/
namespace Zrnt.ForkChoice

/-- the keys of the index map, in order, are the references of the nodes, in order (and no reference occurs twice) -/
def IdxOrd (pr : PA) : Prop :=
  pr.indices.map (·.1) = pr.nodes.map (·.ref) ∧ (pr.nodes.map (·.ref)).Nodup

def MOrd : MState → Prop
  | .live fc => IdxOrd fc.pa
  | _ => True

instance (pr : PA) : Decidable (IdxOrd pr) :=
  inferInstanceAs (Decidable (pr.indices.map (·.1) = pr.nodes.map (·.ref) ∧ (pr.nodes.map (·.ref)).Nodup))

instance : (st : MState) → Decidable (MOrd st)
  | .live fc => inferInstanceAs (Decidable (IdxOrd fc.pa))
  | .none => inferInstanceAs (Decidable True)
  | .dead => inferInstanceAs (Decidable True)

namespace NodesOrd

/-! ## association lists -/

theorem aGet_none_iff {κ ν : Type} [DecidableEq κ] (m : List (κ × ν)) (k : κ) :
    aGet m k = none ↔ k ∉ m.map (·.1) := by
  induction m with
  | nil => simp [aGet]
  | cons hd t ih =>
    obtain ⟨a, b⟩ := hd
    by_cases hak : a = k
    · simp [aGet, hak]
    · have hka : ¬ k = a := fun e => hak e.symm
      simp [aGet, hak, hka, ih]

/-- writing a key that is absent appends it -/
theorem aSet_fresh {κ ν : Type} [DecidableEq κ] (m : List (κ × ν)) (k : κ) (v : ν) (h : aGet m k = none) :
    aSet m k v = m ++ [(k, v)] := by
  induction m with
  | nil => simp [aSet]
  | cons hd t ih =>
    obtain ⟨a, b⟩ := hd
    by_cases hak : a = k
    · simp [aGet, hak] at h
    · simp [aGet, hak] at h; simp [aSet, hak, ih h]

theorem aGet_aSet_ne {κ ν : Type} [DecidableEq κ] (m : List (κ × ν)) (k k' : κ) (v : ν) (h : k ≠ k') :
    aGet (aSet m k v) k' = aGet m k' := by
  induction m with
  | nil => simp [aSet, aGet, h]
  | cons hd t ih =>
    obtain ⟨a, b⟩ := hd
    by_cases hak : a = k
    · subst hak; simp [aSet, aGet, h]
    · by_cases hak' : a = k'
      · subst hak'; simp [aSet, aGet, hak]
      · simp [aSet, aGet, hak, hak', ih]

/-! ## lists -/

theorem set_same {α : Type} (l : List α) (i : Nat) (a : α) (h : l[i]? = some a) : l.set i a = l := by
  induction l generalizing i with
  | nil => rfl
  | cons x t ih =>
    cases i with
    | zero => simp at h; subst h; rfl
    | succ i => simp at h; simp [ih i h]

/-- overwriting a node by one with the same reference keeps the list of references -/
theorem map_ref_set (ns : List Node) (i : Nat) (n m : Node) (hn : ns[i]? = some n) (hm : m.ref = n.ref) :
    (ns.set i m).map (·.ref) = ns.map (·.ref) := by
  rw [List.map_set]
  apply set_same
  rw [List.getElem?_map, hn, hm]; rfl

/-! ## what leaves the index map and every reference alone -/

/-- `pr'` has the index map of `pr` and the same references in the same places -/
def Same (pr pr' : PA) : Prop :=
  pr'.indices = pr.indices ∧ pr'.nodes.map (·.ref) = pr.nodes.map (·.ref)

theorem Same.refl (pr : PA) : Same pr pr := ⟨rfl, rfl⟩

theorem Same.trans {a b c : PA} (h1 : Same a b) (h2 : Same b c) : Same a c :=
  ⟨h2.1.trans h1.1, h2.2.trans h1.2⟩

theorem ord_of_same {pr pr' : PA} (h : IdxOrd pr) (s : Same pr pr') : IdxOrd pr' := by
  unfold IdxOrd
  rw [s.1, s.2]
  exact h

/-- outcome of a proto-array call: the state it leaves (if any) satisfies `IdxOrd` -/
def POutOrd {α : Type} : POut PA α → Prop
  | .ok s _ => IdxOrd s
  | .err s => IdxOrd s
  | .panic => True
  | .spin => True

theorem getNode_some {pr : PA} {i : Idx} {n : Node} (h : pr.getNode i = some n) :
    pr.nodes[i - pr.offset]? = some n := by
  unfold PA.getNode at h
  split at h
  · cases h
  · exact h

theorem setNode_same (pr : PA) (p : Idx) (parent m : Node) (hp : pr.getNode p = some parent)
    (hm : m.ref = parent.ref) : Same pr (pr.setNode p m) :=
  ⟨rfl, map_ref_set pr.nodes (p - pr.offset) parent m (getNode_some hp) hm⟩

theorem maybeUpdate_same (pr pr' : PA) (p c : Idx) (h : pr.maybeUpdate p c = some pr') : Same pr pr' := by
  unfold PA.maybeUpdate at h
  cases hc : pr.getNode c with
  | none => simp [hc] at h
  | some child =>
  cases hp : pr.getNode p with
  | none => simp [hc, hp] at h
  | some parent =>
  simp only [hc, hp] at h
  have hN := setNode_same pr p parent { parent with bestChild := none, bestDesc := none } hp rfl
  have hC := setNode_same pr p parent
    { parent with bestChild := some c, bestDesc := some (child.bestDesc.getD c) } hp rfl
  repeat' split at h
  all_goals first
    | (cases h; done)
    | (cases h; first | exact hN | exact hC | exact Same.refl _)

theorem pass2_same : ∀ (i : Nat) (pr : PA), Same pr (pr.pass2 i).1
  | 0, pr => Same.refl pr
  | i + 1, pr => by
    unfold PA.pass2
    cases hn : pr.nodes[i]? with
    | none => simp only []; exact pass2_same i pr
    | some node =>
      cases hf : node.fparent with
      | none => simp only [hf]; exact pass2_same i pr
      | some p =>
        cases hm : pr.maybeUpdate p (pr.offset + i) with
        | none => simp only [hf, hm]; exact Same.refl pr
        | some pr' => simp only [hf, hm]; exact (maybeUpdate_same pr pr' _ _ hm).trans (pass2_same i pr')

theorem updateConnections_same (pr : PA) : Same pr pr.updateConnections.1 := by
  unfold PA.updateConnections
  have h := pass2_same pr.nodes.length pr
  generalize pr.pass2 pr.nodes.length = r at h ⊢
  obtain ⟨pr', b⟩ := r
  cases b <;> exact h

theorem pass1_refs (off : Nat) : ∀ (k : Nat) (ns : List Node) (ds : List Int) (ns' : List Node) (ds' : List Int),
    PA.pass1 off k ns ds = some (ns', ds') → ns'.map (·.ref) = ns.map (·.ref)
  | 0, ns, ds, ns', ds', h => by
    unfold PA.pass1 at h
    cases h; rfl
  | k + 1, ns, ds, ns', ds', h => by
    unfold PA.pass1 at h
    split at h
    · next n d hn hd =>
      have hs : (ns.set k { n with weight := n.weight + d }).map (·.ref) = ns.map (·.ref) :=
        map_ref_set ns k n _ hn rfl
      simp only [] at h
      split at h
      · exact (pass1_refs off k _ _ _ _ h).trans hs
      · split at h
        · cases h
        · split at h
          · cases h
          · exact (pass1_refs off k _ _ _ _ h).trans hs
    · cases h

theorem applyScoreChanges_ord (pr : PA) (h : IdxOrd pr) (ds : List Int) (jE fE : Nat) :
    POutOrd (pr.applyScoreChanges ds jE fE) := by
  generalize hr : pr.applyScoreChanges ds jE fE = r
  unfold PA.applyScoreChanges at hr
  split at hr
  · subst hr; exact h
  · simp only [] at hr
    split at hr
    · subst hr; trivial
    · next ns ds' h1 =>
      have hs : Same pr { pr with jEpoch := jE, fEpoch := fE, nodes := ns } :=
        ⟨rfl, pass1_refs _ _ _ _ _ _ h1⟩
      have h2 := pass2_same ns.length { pr with jEpoch := jE, fEpoch := fE, nodes := ns }
      split at hr
      · next pr2 hp =>
        subst hr
        rw [hp] at h2
        exact ord_of_same h (hs.trans h2)
      · next pr2 hp =>
        subst hr
        rw [hp] at h2
        exact ord_of_same h (hs.trans h2)

/-! ## queries -/

/-- the part of `FindHead` after the connections are up to date -/
def findHeadStep (pr : PA) (anchorRoot : Root) (anchorSlot : Nat) : POut PA NodeRef :=
  match aGet pr.indices ⟨anchorSlot, anchorRoot⟩ with
  | none => .err pr
  | some anchorIndex =>
    match pr.getNode anchorIndex with
    | none => .err pr
    | some anchorNode =>
      match pr.getNode (anchorNode.bestDesc.getD anchorIndex) with
      | none => .err pr
      | some bestNode => if pr.viable bestNode then .ok pr bestNode.ref else .err pr

theorem findHead_eq (pr : PA) (root : Root) (slot : Nat) :
    pr.findHead root slot =
      if pr.updated then findHeadStep pr root slot else
        match pr.updateConnections with
        | (pr', true) => findHeadStep pr' root slot
        | (pr', false) => .err pr' := rfl

theorem findHeadStep_ord (pr : PA) (h : IdxOrd pr) (root : Root) (slot : Nat) :
    POutOrd (findHeadStep pr root slot) := by
  generalize hr : findHeadStep pr root slot = r
  unfold findHeadStep at hr
  repeat' split at hr
  all_goals (subst hr; exact h)

theorem findHead_ord (pr : PA) (h : IdxOrd pr) (root : Root) (slot : Nat) :
    POutOrd (pr.findHead root slot) := by
  rw [findHead_eq]
  cases hu : pr.updated with
  | true => simp only [if_true]; exact findHeadStep_ord pr h root slot
  | false =>
    simp only [Bool.false_eq_true, if_false]
    have h1 := ord_of_same h (updateConnections_same pr)
    generalize pr.updateConnections = r at h1 ⊢
    obtain ⟨pr', b⟩ := r
    cases b with
    | true => exact findHeadStep_ord pr' h1 root slot
    | false => exact h1

theorem canonicalChain_ord (pr : PA) (h : IdxOrd pr) (root : Root) (slot : Nat) :
    POutOrd (pr.canonicalChain root slot) := by
  generalize hr : pr.canonicalChain root slot = r
  unfold PA.canonicalChain at hr
  have h1 := findHead_ord pr h root slot
  generalize pr.findHead root slot = q at h1 hr
  cases q with
  | err s => subst hr; exact h1
  | panic => subst hr; trivial
  | spin => subst hr; trivial
  | ok s a =>
    simp only [] at hr
    split at hr <;> (subst hr; exact h1)

theorem canonAtSlot_ord (pr : PA) (h : IdxOrd pr) (root : Root) (slot : Nat) (wb : Bool) :
    POutOrd (pr.canonAtSlot root slot wb) := by
  generalize hr : pr.canonAtSlot root slot wb = r
  unfold PA.canonAtSlot at hr
  split at hr
  · subst hr; exact h
  next anchorSlot _ =>
  split at hr
  · subst hr; exact h
  split at hr
  · repeat' split at hr
    all_goals (subst hr; first | exact h | trivial)
  · have h1 := findHead_ord pr h root anchorSlot
    generalize pr.findHead root anchorSlot = q at h1 hr
    cases q with
    | err s => subst hr; exact h1
    | panic => subst hr; trivial
    | spin => subst hr; trivial
    | ok s a =>
      simp only [] at hr
      repeat' split at hr
      all_goals (subst hr; exact h1)

/-- the part of `InSubtree` after the connections are up to date -/
def inSubtreeStep (anchor root : Root) (pr : PA) : POut PA (Bool × Bool) :=
  match aGet pr.blockSlots anchor with
  | none => .ok pr (true, false)
  | some anchorSlot =>
    match aGet pr.indices ⟨anchorSlot, anchor⟩ with
    | none => .ok pr (true, false)
    | some anchorIndex =>
      match aGet pr.blockSlots root with
      | none => .ok pr (true, false)
      | some slot =>
        match aGet pr.indices ⟨slot, root⟩ with
        | none => .ok pr (true, false)
        | some lookupIndex =>
          if pr.inSubtreeSpins anchorIndex lookupIndex then .spin else
          match pr.inSubtreeIdx anchorIndex lookupIndex with
          | none => .panic
          | some r => .ok pr r

theorem inSubtree_eq (pr : PA) (anchor root : Root) :
    pr.inSubtree anchor root =
      if anchor = root then
        (match aGet pr.blockSlots anchor with
         | some _ => .ok pr (false, true)
         | none => .ok pr (true, false)) else
      if pr.updated then inSubtreeStep anchor root pr else
        match pr.updateConnections with
        | (pr', true) => inSubtreeStep anchor root pr'
        | (pr', false) => .ok pr' (true, false) := rfl

theorem inSubtreeStep_ord (pr : PA) (h : IdxOrd pr) (anchor root : Root) :
    POutOrd (inSubtreeStep anchor root pr) := by
  generalize hr : inSubtreeStep anchor root pr = r
  unfold inSubtreeStep at hr
  repeat' split at hr
  all_goals (subst hr; first | exact h | trivial)

theorem inSubtree_ord (pr : PA) (h : IdxOrd pr) (anchor root : Root) :
    POutOrd (pr.inSubtree anchor root) := by
  rw [inSubtree_eq]
  by_cases e : anchor = root
  · simp only [e, if_true]
    cases aGet pr.blockSlots root <;> exact h
  · simp only [e, if_false]
    cases hu : pr.updated with
    | true => simp only [if_true]; exact inSubtreeStep_ord pr h anchor root
    | false =>
      simp only [Bool.false_eq_true, if_false]
      have h1 := ord_of_same h (updateConnections_same pr)
      generalize pr.updateConnections = r at h1 ⊢
      obtain ⟨pr', b⟩ := r
      cases b with
      | true => exact inSubtreeStep_ord pr' h1 anchor root
      | false => exact h1

theorem search_ord (pr : PA) (h : IdxOrd pr) (anchor : NodeRef) (pRoot : Option Root) (slot : Option Nat) :
    POutOrd (pr.search anchor pRoot slot) := by
  generalize hr : pr.search anchor pRoot slot = r
  unfold PA.search at hr
  have h1 := findHead_ord pr h anchor.root anchor.slot
  generalize pr.findHead anchor.root anchor.slot = q at h1 hr
  cases q with
  | err s => subst hr; exact h1
  | panic => subst hr; trivial
  | spin => subst hr; trivial
  | ok s a =>
    simp only [] at hr
    split at hr <;> (subst hr; first | exact h1 | trivial)

/-! ## insertions -/

theorem push_ord (pr : PA) (h : IdxOrd pr) (ref : NodeRef) (tp fp : Option Idx) (pRoot : Root) (jE fE : Nat)
    (hnew : aGet pr.indices ref = none) : IdxOrd (pr.push ref tp fp pRoot jE fE) := by
  obtain ⟨h1, h2⟩ := h
  have hnot : ref ∉ pr.nodes.map (·.ref) := by
    rw [← h1]; exact (aGet_none_iff _ _).1 hnew
  unfold IdxOrd PA.push
  simp only [aSet_fresh _ _ _ hnew, List.map_append, List.map_cons, List.map_nil, h1, true_and]
  rw [List.nodup_append]
  refine ⟨h2, by simp, ?_⟩
  intro a ha b hb
  simp only [List.mem_singleton] at hb
  subst hb
  intro e; subst e; exact hnot ha

theorem push_indices_ne (pr : PA) (ref r : NodeRef) (tp fp : Option Idx) (pRoot : Root) (jE fE : Nat)
    (h : ref ≠ r) : aGet (pr.push ref tp fp pRoot jE fE).indices r = aGet pr.indices r := by
  simp [PA.push, aGet_aSet_ne _ _ _ _ h]

theorem fillGaps_ord (parent : Root) (jE fE : Nat) : ∀ (n i : Nat) (pr : PA) (pi : Option Idx), IdxOrd pr →
    IdxOrd (PA.fillGaps parent jE fE n i pr pi).1 ∧
    (∀ ref : NodeRef, (ref.root ≠ parent ∨ ref.slot < i ∨ i + n ≤ ref.slot) →
      aGet (PA.fillGaps parent jE fE n i pr pi).1.indices ref = aGet pr.indices ref)
  | 0, i, pr, pi, h => ⟨h, fun _ _ => rfl⟩
  | n + 1, i, pr, pi, h => by
    unfold PA.fillGaps
    cases hg : aGet pr.indices ⟨i, parent⟩ with
    | some ni =>
      simp only []
      obtain ⟨a, e⟩ := fillGaps_ord parent jE fE n (i + 1) pr (some ni) h
      refine ⟨a, fun ref hc => e ref ?_⟩
      rcases hc with hc | hc | hc
      · exact Or.inl hc
      · exact Or.inr (Or.inl (by omega))
      · exact Or.inr (Or.inr (by omega))
    | none =>
      simp only []
      obtain ⟨a, e⟩ := fillGaps_ord parent jE fE n (i + 1) (pr.push ⟨i, parent⟩ pi pi parent jE fE)
        (some (pr.offset + pr.nodes.length)) (push_ord pr h ⟨i, parent⟩ pi pi parent jE fE hg)
      refine ⟨a, fun ref hc => ?_⟩
      have hne : (⟨i, parent⟩ : NodeRef) ≠ ref := by
        intro e; subst e
        rcases hc with hc | hc | hc
        · exact hc rfl
        · exact Nat.lt_irrefl _ hc
        · have hc' : i + (n + 1) ≤ i := hc
          omega
      rw [e ref, push_indices_ne _ _ _ _ _ _ _ _ hne]
      rcases hc with hc | hc | hc
      · exact Or.inl hc
      · exact Or.inr (Or.inl (by omega))
      · exact Or.inr (Or.inr (by omega))

/-- the gap-filling prefix of `ProcessSlot` -/
def gapFill (pr : PA) (parent : Root) (slot jE fE : Nat) : PA × Option Idx :=
  match aGet pr.blockSlots parent with
  | some ps =>
    PA.fillGaps parent jE fE (slot - (ps + 1)) (ps + 1) pr (some ((aGet pr.indices ⟨ps, parent⟩).getD 0))
  | none => (pr, none)

theorem processSlot_eq (pr : PA) (parent : Root) (slot jE fE : Nat) :
    pr.processSlot parent slot jE fE =
      if (aGet pr.indices ⟨slot, parent⟩).isSome then pr else
      { (gapFill pr parent slot jE fE).1.push ⟨slot, parent⟩ (gapFill pr parent slot jE fE).2
          (gapFill pr parent slot jE fE).2 parent jE fE with updated := false } := rfl

theorem gapFill_ord (pr : PA) (h : IdxOrd pr) (parent : Root) (slot jE fE : Nat) :
    IdxOrd (gapFill pr parent slot jE fE).1 ∧
    (∀ ref : NodeRef, (ref.root ≠ parent ∨ slot ≤ ref.slot) →
      aGet (gapFill pr parent slot jE fE).1.indices ref = aGet pr.indices ref) := by
  unfold gapFill
  cases hb : aGet pr.blockSlots parent with
  | none => exact ⟨h, fun _ _ => rfl⟩
  | some ps =>
    simp only []
    obtain ⟨a, e⟩ := fillGaps_ord parent jE fE (slot - (ps + 1)) (ps + 1) pr
      (some ((aGet pr.indices ⟨ps, parent⟩).getD 0)) h
    refine ⟨a, fun ref hc => e ref ?_⟩
    rcases hc with hc | hc
    · exact Or.inl hc
    · by_cases hl : ref.slot < ps + 1
      · exact Or.inr (Or.inl hl)
      · exact Or.inr (Or.inr (by omega))

theorem processSlot_ord (pr : PA) (h : IdxOrd pr) (parent : Root) (slot jE fE : Nat) :
    IdxOrd (pr.processSlot parent slot jE fE) ∧
    (∀ ref : NodeRef, ref.root ≠ parent →
      aGet (pr.processSlot parent slot jE fE).indices ref = aGet pr.indices ref) := by
  rw [processSlot_eq]
  cases hs : aGet pr.indices ⟨slot, parent⟩ with
  | some i => simp only [Option.isSome_some, if_true]; exact ⟨h, by simp⟩
  | none =>
    simp only [Option.isSome_none, Bool.false_eq_true, if_false]
    obtain ⟨a, e⟩ := gapFill_ord pr h parent slot jE fE
    have hnew : aGet (gapFill pr parent slot jE fE).1.indices ⟨slot, parent⟩ = none := by
      rw [e ⟨slot, parent⟩ (Or.inr (Nat.le_refl _))]; exact hs
    refine ⟨push_ord _ a ⟨slot, parent⟩ _ _ parent jE fE hnew, fun ref hne => ?_⟩
    have hne' : (⟨slot, parent⟩ : NodeRef) ≠ ref := by
      intro e'; subst e'; exact hne rfl
    show aGet ((gapFill pr parent slot jE fE).1.push ⟨slot, parent⟩ _ _ parent jE fE).indices ref = _
    rw [push_indices_ne _ _ _ _ _ _ _ _ hne', e ref (Or.inl hne)]

theorem processBlock_ord (pr : PA) (h : IdxOrd pr) (parent root : Root) (slot jE fE : Nat) (pr' : PA) (b : Bool)
    (hr : pr.processBlock parent root slot jE fE = some (pr', b)) : IdxOrd pr' := by
  unfold PA.processBlock at hr
  split at hr
  · cases hr; exact h
  next h1 =>
  split at hr
  · cases hr; exact h
  next h2 =>
  split at hr
  · cases hr; exact h
  next pbs hp =>
  split at hr
  · cases hr; exact h
  obtain ⟨a, e⟩ := processSlot_ord pr h parent slot jE fE
  simp only [] at hr
  split at hr
  · cases hr; exact a
  split at hr
  · cases hr
  have hne : root ≠ parent := by
    intro e'; subst e'; rw [hp] at h2; exact h2 rfl
  have hnew : aGet (pr.processSlot parent slot jE fE).indices ⟨slot, root⟩ = none := by
    rw [e ⟨slot, root⟩ hne]; simpa using h1
  cases hr
  exact push_ord _ a ⟨slot, root⟩ _ _ parent jE fE hnew

/-! ## `OnPrune` -/

theorem sinkLoop_same : ∀ (t : List (NodeRef × Bool × Bool)) (pr : PA), Same pr (PA.sinkLoop t pr).1
  | [], pr => Same.refl pr
  | (ref, keep, canonical) :: rest, pr => by
    unfold PA.sinkLoop
    split
    · exact sinkLoop_same rest pr
    · split
      · exact sinkLoop_same rest pr
      · have hs : Same pr (pr.sinkCall ref canonical).1 := ⟨rfl, rfl⟩
        generalize pr.sinkCall ref canonical = q at hs
        obtain ⟨pr', ok⟩ := q
        cases ok with
        | true => exact hs.trans (sinkLoop_same rest pr')
        | false => exact hs

theorem compact_refs (off : Nat) (keep : List Bool) : ∀ (ns : List Node) (i : Nat),
    ((PA.compact off keep i ns).map (·.ref)).Sublist (ns.map (·.ref))
  | [], i => by simp [PA.compact]
  | n :: rest, i => by
    unfold PA.compact
    split
    · simp only [List.map_cons]
      exact (compact_refs off keep rest (i + 1)).cons_cons _
    · simp only [List.map_cons]
      exact (compact_refs off keep rest (i + 1)).cons _

/-- rebuilding the map from nodes with distinct fresh references appends their references in order -/
theorem rebuildIndices_keys (off : Nat) : ∀ (ns : List Node) (i : Nat) (m : List (NodeRef × Idx)),
    (m.map (·.1) ++ ns.map (·.ref)).Nodup →
    (PA.rebuildIndices off i ns m).map (·.1) = m.map (·.1) ++ ns.map (·.ref)
  | [], i, m, _ => by simp [PA.rebuildIndices]
  | n :: rest, i, m, hd => by
    unfold PA.rebuildIndices
    have hnew : aGet m n.ref = none := by
      rw [aGet_none_iff]
      intro hm
      rw [List.nodup_append] at hd
      have hne := hd.2.2 _ hm n.ref (by simp)
      exact hne rfl
    have hd' : ((aSet m n.ref (off + i)).map (·.1) ++ rest.map (·.ref)).Nodup := by
      rw [aSet_fresh _ _ _ hnew]
      simpa [List.append_assoc] using hd
    rw [rebuildIndices_keys off rest (i + 1) _ hd', aSet_fresh _ _ _ hnew]
    simp [List.append_assoc]

theorem reparent_refs (off : Nat) (I : List (NodeRef × Idx)) (B : List (Root × Nat)) :
    ∀ (todo i : Nat) (ns : List Node), (PA.reparent off I B todo i ns).map (·.ref) = ns.map (·.ref)
  | 0, i, ns => by unfold PA.reparent; rfl
  | todo + 1, i, ns => by
    generalize hr : PA.reparent off I B (todo + 1) i ns = r
    unfold PA.reparent at hr
    simp only [] at hr
    split at hr
    · subst hr; rfl
    next node hn =>
    split at hr
    · subst hr; exact reparent_refs off I B todo (i + 1) ns
    split at hr
    · subst hr; exact reparent_refs off I B todo (i + 1) ns
    next parentSlot _ =>
    split at hr
    · split at hr
      · next hlt =>
        split at hr
        · subst hr; exact reparent_refs off I B todo (i + 1) ns
        · next parent hpn =>
          subst hr
          rw [reparent_refs off I B todo (i + 1)]
          have h1 : (ns.set i { node with fparent := some ((aGet I ⟨parentSlot, node.parentRoot⟩).getD 0) }).map (·.ref)
              = ns.map (·.ref) := map_ref_set ns i node _ hn rfl
          rw [List.map_set, h1]
          apply set_same
          rw [List.getElem?_map, hpn]; rfl
      · subst hr; exact reparent_refs off I B todo (i + 1) ns
    · subst hr; exact reparent_refs off I B todo (i + 1) ns

theorem onPrune_ord (pr : PA) (h : IdxOrd pr) (root : Root) (slot : Nat) : POutOrd (pr.onPrune root slot) := by
  generalize hr : pr.onPrune root slot = r
  unfold PA.onPrune at hr
  split at hr
  · subst hr; exact h
  next anchorIndex _ =>
  split at hr
  · subst hr; exact h
  next anchorNode _ =>
  simp only [] at hr
  generalize hq : PA.sinkLoop _ pr = q at hr
  have hs1 : Same pr q.1 := by rw [← hq]; exact sinkLoop_same _ pr
  obtain ⟨pr1, b⟩ := q
  have h1 : IdxOrd pr1 := ord_of_same h hs1
  cases b with
  | false => simp only [] at hr; subst hr; exact h1
  | true =>
    simp only [] at hr
    split at hr
    · subst hr; exact h1
    · subst hr
      have hd : ((PA.compact pr1.offset
          (PA.keepFlags pr.offset (anchorIndex - pr.offset) slot pr.nodes []) 0 pr1.nodes).map (·.ref)).Nodup :=
        List.Nodup.sublist (compact_refs _ _ _ _) h1.2
      refine ⟨?_, ?_⟩
      · show (PA.rebuildIndices pr1.offset 0 _ []).map (·.1) = (PA.reparent _ _ _ _ _ _).map (·.ref)
        rw [reparent_refs, rebuildIndices_keys _ _ _ _ (by simpa using hd)]
        simp
      · show ((PA.reparent _ _ _ _ _ _).map (·.ref)).Nodup
        rw [reparent_refs]
        exact hd

/-! ## the wrapper -/

/-- outcome of an exported call: the instance it leaves (if any) satisfies `IdxOrd` -/
def OutOrd {α : Type} : Out FC α → Prop
  | .ok s _ => IdxOrd s.pa
  | .err s => IdxOrd s.pa
  | .panic => True
  | .blocked => True

theorem withLock_ord {α : Type} (fc : FC) (h : IdxOrd fc.pa) (body : FC → Out FC α)
    (hb : ∀ fc' : FC, IdxOrd fc'.pa → OutOrd (body fc')) : OutOrd (fc.withLock body) := by
  unfold FC.withLock
  split
  · trivial
  · have h1 := hb { fc with held := true } h
    generalize body { fc with held := true } = r at h1 ⊢
    cases r <;> exact h1

theorem liftPA_ord {α : Type} (fc : FC) (r : POut PA α) (h : POutOrd r) : OutOrd (fc.liftPA r) := by
  cases r <;> exact h

theorem updateVotesMaybe_ord (fc : FC) (h : IdxOrd fc.pa) : OutOrd fc.updateVotesMaybe := by
  unfold FC.updateVotesMaybe
  split
  · exact h
  · cases hcd : computeDeltas fc.pa.indices fc.votes fc.balances fc.balances with
    | none => trivial
    | some val =>
      obtain ⟨deltas, votes'⟩ := val
      simp only []
      have h1 := applyScoreChanges_ord fc.pa h deltas fc.justified.epoch fc.finalized.epoch
      generalize fc.pa.applyScoreChanges deltas fc.justified.epoch fc.finalized.epoch = q at h1 ⊢
      cases q <;> exact h1

theorem afterVotes_ord {α : Type} (fc : FC) (h : IdxOrd fc.pa) (f : PA → POut PA α)
    (hf : ∀ pa, IdxOrd pa → POutOrd (f pa)) : OutOrd (fc.afterVotes f) := by
  unfold FC.afterVotes
  have h1 := updateVotesMaybe_ord fc h
  generalize fc.updateVotesMaybe = r at h1 ⊢
  cases r with
  | ok s a => exact liftPA_ord s _ (hf s.pa h1)
  | err s => exact h1
  | panic => trivial
  | blocked => trivial

theorem checkCp_ord (fc : FC) (h : IdxOrd fc.pa) (ch : Bool) (cp : Checkpoint) (k : FC → Out FC Unit)
    (hk : ∀ fc' : FC, IdxOrd fc'.pa → OutOrd (k fc')) : OutOrd (fc.checkCp ch cp k) := by
  unfold FC.checkCp
  cases ch with
  | false => simp only [Bool.false_eq_true, if_false]; exact hk fc h
  | true =>
    simp only [if_true]
    have h1 := inSubtree_ord fc.pa h fc.finalized.root cp.root
    generalize fc.pa.inSubtree fc.finalized.root cp.root = r at h1 ⊢
    cases r with
    | panic => trivial
    | spin => trivial
    | err pa => exact h1
    | ok pa x =>
      obtain ⟨unknown, inS⟩ := x
      simp only []
      split
      · exact h1
      · split
        · exact h1
        · exact hk _ h1

theorem updateJustifiedInner_ord (fc : FC) (h : IdxOrd fc.pa) (fin just : Checkpoint) (bals : Option (List Nat)) :
    OutOrd (fc.updateJustifiedInner fin just bals) := by
  unfold FC.updateJustifiedInner
  split
  · exact h
  · apply checkCp_ord fc h
    intro fc1 h1
    apply checkCp_ord fc1 h1
    intro fc2 h2
    cases bals with
    | none => exact h2
    | some newBals =>
      simp only []
      cases hcd : computeDeltas fc2.pa.indices fc2.votes fc2.balances newBals with
      | none => trivial
      | some val =>
        obtain ⟨deltas, votes'⟩ := val
        simp only []
        have h3 := applyScoreChanges_ord fc2.pa h2 deltas just.epoch fin.epoch
        generalize fc2.pa.applyScoreChanges deltas just.epoch fin.epoch = q at h3 ⊢
        cases q <;> exact h3

/-- the part of `UpdateJustified` after the pin check -/
def afterPin (justified finalized : Checkpoint) (balances : Option (List Nat)) (fc : FC) : Out FC Unit :=
  let prevFinalized := fc.finalized
  match fc.updateJustifiedInner finalized justified balances with
  | .panic => .panic
  | .blocked => .blocked
  | .err fc => .err fc
  | .ok fc _ =>
    if prevFinalized ≠ finalized then
      let fc := { fc with pin := none }
      match fc.pa.onPrune finalized.root (finalized.epoch * fc.spe) with
      | .panic => .panic
      | .spin => .blocked
      | .err pa => .err { fc with pa := pa }
      | .ok pa _ => .ok { fc with pa := pa } ()
    else .ok fc ()

/-- the body of `UpdateJustified` under the lock -/
def justifyBody (trigger : Root) (justified finalized : Checkpoint) (balances : Option (List Nat)) (fc : FC) :
    Out FC Unit :=
  if fc.justified.epoch ≥ justified.epoch && fc.finalized.epoch ≥ finalized.epoch then .ok fc () else
  match fc.pin with
  | some pin =>
    if trigger ≠ pin.root then
      match fc.pa.inSubtree pin.root trigger with
      | .panic => .panic
      | .spin => .blocked
      | .err pa => .err { fc with pa := pa }
      | .ok pa (unknown, inS) =>
        let fc := { fc with pa := pa }
        if unknown then .err fc else if !inS then .err fc else afterPin justified finalized balances fc
    else afterPin justified finalized balances fc
  | none => afterPin justified finalized balances fc

theorem updateJustified_eq (fc : FC) (trigger : Root) (justified finalized : Checkpoint)
    (balances : Option (List Nat)) :
    fc.updateJustified trigger justified finalized balances =
      fc.withLock (justifyBody trigger justified finalized balances) := rfl

theorem afterPin_ord (fc : FC) (h : IdxOrd fc.pa) (just fin : Checkpoint) (bals : Option (List Nat)) :
    OutOrd (afterPin just fin bals fc) := by
  unfold afterPin
  simp only []
  have h1 := updateJustifiedInner_ord fc h fin just bals
  generalize fc.updateJustifiedInner fin just bals = r at h1 ⊢
  cases r with
  | panic => trivial
  | blocked => trivial
  | err s => exact h1
  | ok s a =>
    simp only []
    split
    · have h2 := onPrune_ord s.pa h1 fin.root (fin.epoch * s.spe)
      generalize s.pa.onPrune fin.root (fin.epoch * s.spe) = q at h2 ⊢
      cases q <;> exact h2
    · exact h1

theorem justifyBody_ord (fc : FC) (h : IdxOrd fc.pa) (trigger : Root) (just fin : Checkpoint)
    (bals : Option (List Nat)) : OutOrd (justifyBody trigger just fin bals fc) := by
  unfold justifyBody
  split
  · exact h
  · cases hp : fc.pin with
    | none => exact afterPin_ord fc h just fin bals
    | some pin =>
      simp only []
      split
      · have h1 := inSubtree_ord fc.pa h pin.root trigger
        generalize fc.pa.inSubtree pin.root trigger = r at h1 ⊢
        cases r with
        | panic => trivial
        | spin => trivial
        | err pa => exact h1
        | ok pa x =>
          obtain ⟨unknown, inS⟩ := x
          simp only []
          split
          · exact h1
          · split
            · exact h1
            · refine afterPin_ord _ ?_ just fin bals
              exact h1
      · exact afterPin_ord fc h just fin bals

theorem updateJustified_ord (fc : FC) (h : IdxOrd fc.pa) (trigger : Root) (just fin : Checkpoint)
    (bals : Option (List Nat)) : OutOrd (fc.updateJustified trigger just fin bals) := by
  rw [updateJustified_eq]
  exact withLock_ord fc h _ (fun fc' h' => justifyBody_ord fc' h' trigger just fin bals)

theorem setPinBody_ord (fc : FC) (h : IdxOrd fc.pa) (root : Root) (slot : Nat) :
    OutOrd (fc.setPinBody root slot) := by
  unfold FC.setPinBody
  split
  · exact h
  · split <;> exact h

theorem setPin_ord (fc : FC) (h : IdxOrd fc.pa) (root : Root) (slot : Nat) : OutOrd (fc.setPin root slot) :=
  withLock_ord fc h _ (fun fc' h' => setPinBody_ord fc' h' root slot)

theorem processAttestation_ord (fc : FC) (h : IdxOrd fc.pa) (index : Nat) (root : Root) (headSlot : Nat) :
    OutOrd (fc.processAttestation index root headSlot) := by
  unfold FC.processAttestation
  apply withLock_ord fc h
  intro fc' h'
  simp only []
  repeat' split
  all_goals exact h'

theorem processSlotFC_ord (fc : FC) (h : IdxOrd fc.pa) (parent : Root) (slot jE fE : Nat) :
    OutOrd (fc.processSlot parent slot jE fE) :=
  withLock_ord fc h _ (fun fc' h' => (processSlot_ord fc'.pa h' parent slot jE fE).1)

theorem processBlockFC_ord (fc : FC) (h : IdxOrd fc.pa) (parent root : Root) (slot jE fE : Nat) :
    OutOrd (fc.processBlock parent root slot jE fE) := by
  unfold FC.processBlock
  apply withLock_ord fc h
  intro fc' h'
  cases hb : fc'.pa.processBlock parent root slot jE fE with
  | none => trivial
  | some val =>
    obtain ⟨pa, b⟩ := val
    exact processBlock_ord fc'.pa h' parent root slot jE fE pa b hb

theorem canonicalChainFC_ord (fc : FC) (h : IdxOrd fc.pa) (root : Root) (slot : Nat) :
    OutOrd (fc.canonicalChain root slot) :=
  withLock_ord fc h _ (fun fc' h' => afterVotes_ord fc' h' _ (fun pa hp => canonicalChain_ord pa hp root slot))

theorem inSubtreeFC_ord (fc : FC) (h : IdxOrd fc.pa) (anchor root : Root) : OutOrd (fc.inSubtree anchor root) :=
  withLock_ord fc h _ (fun fc' h' => liftPA_ord fc' _ (inSubtree_ord fc'.pa h' anchor root))

theorem searchFC_ord (fc : FC) (h : IdxOrd fc.pa) (anchor : NodeRef) (pRoot : Option Root) (slot : Option Nat) :
    OutOrd (fc.search anchor pRoot slot) :=
  withLock_ord fc h _ (fun fc' h' => afterVotes_ord fc' h' _ (fun pa hp => search_ord pa hp anchor pRoot slot))

theorem closestToSlotFC_ord (fc : FC) (h : IdxOrd fc.pa) (anchor : Root) (slot : Nat) :
    OutOrd (fc.closestToSlot anchor slot) := by
  unfold FC.closestToSlot
  apply withLock_ord fc h
  intro fc' h'
  split <;> exact h'

theorem canonAtSlotFC_ord (fc : FC) (h : IdxOrd fc.pa) (anchor : Root) (slot : Nat) (wb : Bool) :
    OutOrd (fc.canonAtSlot anchor slot wb) :=
  withLock_ord fc h _ (fun fc' h' => afterVotes_ord fc' h' _ (fun pa hp => canonAtSlot_ord pa hp anchor slot wb))

theorem getSlotFC_ord (fc : FC) (h : IdxOrd fc.pa) (root : Root) : OutOrd (fc.getSlot root) :=
  withLock_ord fc h _ (fun _ h' => h')

theorem findHeadFC_ord (fc : FC) (h : IdxOrd fc.pa) (root : Root) (slot : Nat) : OutOrd (fc.findHead root slot) :=
  withLock_ord fc h _ (fun fc' h' => afterVotes_ord fc' h' _ (fun pa hp => findHead_ord pa hp root slot))

theorem headFC_ord (fc : FC) (h : IdxOrd fc.pa) : OutOrd fc.head := by
  unfold FC.head
  apply withLock_ord fc h
  intro fc' h'
  have h1 := updateVotesMaybe_ord fc' h'
  generalize fc'.updateVotesMaybe = r at h1 ⊢
  cases r with
  | panic => trivial
  | blocked => trivial
  | err s => exact h1
  | ok s a =>
    simp only []
    split <;> exact liftPA_ord _ _ (findHead_ord _ h1 _ _)

theorem new_ord (parent root : Root) (slot jE fE : Nat) (sink : SinkKind) :
    IdxOrd (PA.new parent root slot jE fE sink) := by
  simp [IdxOrd, PA.new]

/-- the instance `NewProtoForkChoice` starts from -/
def initFC (spe : Nat) (finalized justified : Checkpoint) (anchorRoot : Root) (anchorSlot : Nat)
    (anchorParent : Root) (sink : SinkKind) : FC :=
  { pa := PA.new anchorParent anchorRoot anchorSlot justified.epoch finalized.epoch sink,
    votes := [], changed := true, spe := spe, balances := [], pin := none,
    justified := justified, finalized := finalized, held := false }

theorem newFC_eq (spe : Nat) (finalized justified : Checkpoint) (anchorRoot : Root) (anchorSlot : Nat)
    (anchorParent : Root) (balances : List Nat) (sink : SinkKind) :
    FC.new spe finalized justified anchorRoot anchorSlot anchorParent balances sink =
      match (initFC spe finalized justified anchorRoot anchorSlot anchorParent sink).setPin anchorRoot anchorSlot with
      | .ok fc _ => fc.updateJustifiedInner finalized justified (some balances)
      | .err fc => .err fc
      | .panic => .panic
      | .blocked => .blocked := rfl

theorem newFC_ord (spe : Nat) (finalized justified : Checkpoint) (anchorRoot : Root) (anchorSlot : Nat)
    (anchorParent : Root) (balances : List Nat) (sink : SinkKind) :
    OutOrd (FC.new spe finalized justified anchorRoot anchorSlot anchorParent balances sink) := by
  rw [newFC_eq]
  have h1 := setPin_ord (initFC spe finalized justified anchorRoot anchorSlot anchorParent sink)
    (new_ord _ _ _ _ _ _) anchorRoot anchorSlot
  generalize (initFC spe finalized justified anchorRoot anchorSlot anchorParent sink).setPin anchorRoot anchorSlot
    = r at h1 ⊢
  cases r with
  | panic => trivial
  | blocked => trivial
  | err s => exact h1
  | ok s a => exact updateJustifiedInner_ord s h1 finalized justified (some balances)

theorem finish_ord {α : Type} (r : Out FC α) (f : α → Ans) (h : OutOrd r) : MOrd (finish r f).1 := by
  cases r <;> exact h

theorem stepLive_ord (fc : FC) (h : IdxOrd fc.pa) (op : Op) : MOrd (stepLive fc op).1 := by
  cases op with
  | init spe ar as ap j f sink bals => exact h
  | slot p s j f => exact finish_ord _ _ (processSlotFC_ord fc h p s j f)
  | block p r s j f => exact finish_ord _ _ (processBlockFC_ord fc h p r s j f)
  | att v r s => exact finish_ord _ _ (processAttestation_ord fc h v r s)
  | justify t j f b =>
    have h0 : IdxOrd ({ fc with pa := { fc.pa with sinkLog := [] } } : FC).pa := h
    have h1 := updateJustified_ord { fc with pa := { fc.pa with sinkLog := [] } } h0 t j f b
    simp only [stepLive]
    generalize FC.updateJustified _ t j f b = r at h1 ⊢
    cases r <;> exact h1
  | pin r s => exact finish_ord _ _ (setPin_ord fc h r s)
  | head => exact finish_ord _ _ (headFC_ord fc h)
  | findHead r s => exact finish_ord _ _ (findHeadFC_ord fc h r s)
  | chain r s => exact finish_ord _ _ (canonicalChainFC_ord fc h r s)
  | closest r s => exact finish_ord _ _ (closestToSlotFC_ord fc h r s)
  | canonAt r s w => exact finish_ord _ _ (canonAtSlotFC_ord fc h r s w)
  | getSlot r => exact finish_ord _ _ (getSlotFC_ord fc h r)
  | inSub a r => exact finish_ord _ _ (inSubtreeFC_ord fc h a r)
  | search a p s => exact finish_ord _ _ (searchFC_ord fc h a p s)
  | just => exact h
  | fin => exact h
  | pinq => exact h
  | nodes => exact h

end NodesOrd

open NodesOrd

/-- Every step of the machine keeps `MOrd` — for every operation and every argument, with no hypothesis on the
pre-state other than `MOrd` itself. -/
theorem step_ord (st : MState) (op : Op) (h : MOrd st) : MOrd (step st op).1 := by
  cases op with
  | init spe ar as ap j f sink bals =>
    have h1 := newFC_ord spe f j ar as ap bals sink
    show MOrd (match FC.new spe f j ar as ap bals sink with
      | .ok fc _ => (MState.live fc, Ans.unit)
      | .err _ => (MState.none, Ans.err)
      | .panic => (MState.dead, Ans.panic)
      | .blocked => (MState.dead, Ans.blocked)).1
    generalize FC.new spe f j ar as ap bals sink = r at h1 ⊢
    cases r with
    | ok s a => exact h1
    | err s => trivial
    | panic => trivial
    | blocked => trivial
  | _ =>
    cases st with
    | none => trivial
    | dead => trivial
    | live fc => exact stepLive_ord fc h _

theorem run_cons_fst (st : MState) (op : Op) (ops : List Op) :
    (run st (op :: ops)).1 = (run (step st op).1 ops).1 := rfl

/-- Every history keeps `MOrd`, from any state that has it (in particular from `.none`). -/
theorem run_ord : ∀ (ops : List Op) (st : MState), MOrd st → MOrd (run st ops).1
  | [], _, h => h
  | op :: ops, st, h => by
    rw [run_cons_fst]
    exact run_ord ops _ (step_ord st op h)

/-- from no instance: every reachable state has it -/
theorem run_ord_none (ops : List Op) : MOrd (run .none ops).1 := run_ord ops .none trivial

/-- The answer of the harness op `nodes` (the keys of `Indices()`) is the list of node references in array order. -/
theorem nodes_answer (fc : FC) (h : IdxOrd fc.pa) :
    (stepLive fc .nodes).2 = Ans.nodes (fc.pa.nodes.map (·.ref)) := by
  show Ans.nodes (fc.pa.indices.map (·.1)) = _
  rw [h.1]

/-! ## non-vacuity: a history with a finalizing `justify` (an effective prune: nine nodes, three stay) -/

/-- the history `witPrune` of `Proofs/Properties/C10.lean` (roots given by their first byte) -/
def ordWit : List Op := [
  .init 4 (1 * 256 ^ 31) 0 0 ⟨0, 1 * 256 ^ 31⟩ ⟨0, 1 * 256 ^ 31⟩ .recording [32, 32, 32],
  .block (1 * 256 ^ 31) (2 * 256 ^ 31) 1 0 0, .block (2 * 256 ^ 31) (0x0201 * 256 ^ 30) 4 0 0,
  .block (0x0201 * 256 ^ 30) (0xfe * 256 ^ 31) 5 1 1,
  .justify (0xfe * 256 ^ 31) ⟨1, 0x0201 * 256 ^ 30⟩ ⟨1, 0x0201 * 256 ^ 30⟩ (some [32, 32, 33]),
  .nodes]

example : MOrd (run .none ordWit).1 := by decide

/-- the invariant is not vacuous on it: the machine is live, the prune was effective, three nodes are left -/
example : (match (run .none ordWit).1 with
    | .live fc => fc.pa.nodes.map (·.ref)
    | _ => []) = [⟨4, 0x0201 * 256 ^ 30⟩, ⟨5, 0x0201 * 256 ^ 30⟩, ⟨5, 0xfe * 256 ^ 31⟩] := by decide

example : (run .none ordWit).2.getLast? =
    some (Ans.nodes [⟨4, 0x0201 * 256 ^ 30⟩, ⟨5, 0x0201 * 256 ^ 30⟩, ⟨5, 0xfe * 256 ^ 31⟩]) := by decide

end Zrnt.ForkChoice
