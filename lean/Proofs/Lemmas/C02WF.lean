import Proofs.Lemmas.C02Registry
import Proofs.Lemmas.C02Altair
/-! The reachable-registry invariant `WF`, its preservation by the epoch transition, and what the registry update leaves
alone for the slashings step (snapshot soundness). -/
namespace Zrnt.Proofs.Lemmas
open Zrnt.Beacon Zrnt.Beacon.Spec

/-- The reachable-registry invariant (per validator): a slashed validator has had its exit initiated; the exit is not
after the withdrawable epoch; activation is not after the exit. -/
def WFv (v : Validator) : Prop :=
  (v.slashed = true → v.exit_epoch ≠ FAR_FUTURE_EPOCH) ∧ v.exit_epoch ≤ v.withdrawable_epoch ∧ v.activation_epoch ≤ v.exit_epoch

def WF (vals : List Validator) : Prop := ∀ v ∈ vals, WFv v

theorem WF_set (w : List Validator) (j : Nat) (u : Validator) (hw : WF w) (hu : WFv u) : WF (w.set j u) := by
  intro v hv
  rcases List.mem_or_eq_of_mem_set hv with h | h
  · exact hw v h
  · rw [h]; exact hu

theorem WF_getElem? (w : List Validator) (j : Nat) (u : Validator) (hw : WF w) (hj : w[j]? = some u) : WFv u :=
  hw u (List.mem_of_getElem? hj)

/-- the first loop of `process_registry_updates` preserves `WF` -/
theorem WF_first_loop (cfg : Config) (cur : Nat) (vals : List Validator) (h : WF vals) :
    WF (registry_eligibility_and_ejections_pure cfg cur vals) := by
  unfold registry_eligibility_and_ejections_pure
  refine foldl_preserves (fun (w : List Validator) => WF w) _ _ _ h ?_
  intro w j hw
  cases hj : w[j]? with
  | none => simpa using hw
  | some u =>
    simp only []
    have hu := WF_getElem? w j u hw hj
    have h1 : WF (if is_eligible_for_activation_queue cfg u = true then
        w.set j { u with activation_eligibility_epoch := cur + 1 } else w) := by
      split
      · exact WF_set w j _ hw hu
      · exact hw
    split
    · rename_i hact
      simp only [Bool.and_eq_true, decide_eq_true_eq] at hact
      rw [ive_unfold]
      generalize hW : (if is_eligible_for_activation_queue cfg u = true then
        w.set j { u with activation_eligibility_epoch := cur + 1 } else w) = W at h1 ⊢
      cases hWj : W[j]? with
      | none => exact h1
      | some u' =>
        simp only []
        split
        · exact h1
        · rename_i hfar
          have hfar' : u'.exit_epoch = FAR_FUTURE_EPOCH := by simpa using hfar
          have hu' := WF_getElem? W j u' h1 hWj
          -- `W[j]` is `u` up to the eligibility epoch
          have hae : u'.activation_epoch = u.activation_epoch := by
            rw [← hW] at hWj
            split at hWj
            · obtain ⟨hi, _⟩ := List.getElem?_eq_some_iff.mp hj
              simp only [List.getElem?_set, ↓reduceIte, hi, Option.some.injEq] at hWj
              subst hWj; rfl
            · rw [hj] at hWj; injection hWj with e; subst e; rfl
          apply WF_set W j _ h1
          have hcur := (next_ge cfg cur W).2
          refine ⟨?_, ?_, ?_⟩
          · intro hs
            exact absurd hfar' (hu'.1 hs)
          · simp [exited]
          · simp only [exited]
            have : u.activation_epoch ≤ cur := by
              have := hact.1; unfold is_active_validator at this
              simp only [Bool.and_eq_true, decide_eq_true_eq] at this; exact this.1
            rw [hae]; omega
    · exact h1

/-- the activation loop preserves `WF` (the assigned activation epoch is below `FAR_FUTURE_EPOCH`) -/
theorem WF_activations (cfg : Config) (cur fin limit : Nat) (vals : List Validator) (h : WF vals)
    (hcae : compute_activation_exit_epoch cfg cur ≤ FAR_FUTURE_EPOCH) :
    WF (registry_activations_pure cfg cur fin limit vals) := by
  unfold registry_activations_pure
  -- only validators of the queue are touched; they have `activation_epoch = FAR_FUTURE_EPOCH`
  have hq : ∀ i ∈ (activation_queue_pure fin vals).take limit, ∀ v, vals[i]? = some v → v.activation_epoch = FAR_FUTURE_EPOCH := by
    intro i hi v hv
    have hi' := List.mem_of_mem_take hi
    unfold activation_queue_pure at hi'
    simp only [List.mem_mergeSort, List.mem_filter, hv, Bool.and_eq_true, beq_iff_eq] at hi'
    exact hi'.2.2
  generalize (activation_queue_pure fin vals).take limit = q at hq
  -- invariant: WF and the activation epochs outside what was already touched are the original ones
  suffices hs : ∀ (q : List Nat) (w : List Validator), WF w →
      (∀ i ∈ q, ∀ v, w[i]? = some v → FAR_FUTURE_EPOCH ≤ v.exit_epoch) →
      WF (q.foldl (fun w index => match w[index]? with
        | none => w
        | some validator => w.set index { validator with activation_epoch := compute_activation_exit_epoch cfg cur }) w) by
    apply hs q vals h
    intro i hi v hv
    have := (WF_getElem? vals i v h hv).2.2
    rw [hq i hi v hv] at this; exact this
  intro q
  induction q with
  | nil => intro w hw _; exact hw
  | cons i rest ih =>
    intro w hw hex
    simp only [List.foldl_cons]
    cases hi : w[i]? with
    | none => exact ih w hw (fun j hj => hex j (by simp [hj]))
    | some v =>
      simp only []
      apply ih
      · apply WF_set w i _ hw
        have hv := WF_getElem? w i v hw hi
        have := hex i (by simp) v hi
        exact ⟨hv.1, hv.2.1, by simp only []; omega⟩
      · intro j hj u hu
        rw [List.getElem?_set] at hu
        by_cases hij : i = j
        · subst hij
          obtain ⟨hlt, _⟩ := List.getElem?_eq_some_iff.mp hi
          simp only [↓reduceIte, hlt, Option.some.injEq] at hu
          subst hu
          exact hex i (by simp) v hi
        · simp only [hij, ↓reduceIte] at hu
          exact hex j (by simp [hj]) u hu

theorem WF_effective_balance (cfg : Config) (vals : List Validator) (balances : List Nat) (h : WF vals) :
    WF (process_effective_balance_updates_pure cfg vals balances) := by
  unfold process_effective_balance_updates_pure
  intro v hv
  simp only [List.mem_map] at hv
  obtain ⟨⟨u, b⟩, hmem, rfl⟩ := hv
  have hu : u ∈ vals := (List.of_mem_zip hmem).1
  exact h u hu

/-! ### the snapshot and the slashings step -/

/-- what `process_slashings` reads of a validator -/
def slashKey (v : Validator) : Bool × Nat × Nat :=
  (v.slashed, v.effective_balance, if v.slashed then v.withdrawable_epoch else 0)

/-- the first loop leaves the slashings-relevant view of every validator alone, provided slashed validators have an exit epoch -/
theorem first_loop_slashKey (cfg : Config) (cur : Nat) (vals : List Validator) (h : WF vals) :
    (registry_eligibility_and_ejections_pure cfg cur vals).map slashKey = vals.map slashKey := by
  unfold registry_eligibility_and_ejections_pure
  refine (foldl_preserves (fun (w : List Validator) => WF w ∧ w.map slashKey = vals.map slashKey) _ _ _ ⟨h, rfl⟩ ?_).2
  intro w j ⟨hw, hk⟩
  -- `WF` of the next registry is `WF_first_loop`'s step; redo it through the one-step instance of that theorem
  cases hj : w[j]? with
  | none => simpa using ⟨hw, hk⟩
  | some u =>
    simp only []
    have hu := WF_getElem? w j u hw hj
    have h1 : WF (if is_eligible_for_activation_queue cfg u = true then
          w.set j { u with activation_eligibility_epoch := cur + 1 } else w) ∧
        (if is_eligible_for_activation_queue cfg u = true then
          w.set j { u with activation_eligibility_epoch := cur + 1 } else w).map slashKey = vals.map slashKey := by
      split
      · exact ⟨WF_set w j _ hw hu, by
          rw [map_set_same slashKey w j u { u with activation_eligibility_epoch := cur + 1 } hj rfl]; exact hk⟩
      · exact ⟨hw, hk⟩
    split
    · rename_i hact
      simp only [Bool.and_eq_true, decide_eq_true_eq] at hact
      rw [ive_unfold]
      generalize hW : (if is_eligible_for_activation_queue cfg u = true then
        w.set j { u with activation_eligibility_epoch := cur + 1 } else w) = W at h1 ⊢
      cases hWj : W[j]? with
      | none => exact h1
      | some u' =>
        simp only []
        split
        · exact h1
        · rename_i hfar
          have hfar' : u'.exit_epoch = FAR_FUTURE_EPOCH := by simpa using hfar
          have hu' := WF_getElem? W j u' h1.1 hWj
          have hns : u'.slashed = false := by
            cases hs : u'.slashed
            · rfl
            · exact absurd hfar' (hu'.1 hs)
          have hae : u'.activation_epoch = u.activation_epoch := by
            rw [← hW] at hWj
            split at hWj
            · obtain ⟨hi, _⟩ := List.getElem?_eq_some_iff.mp hj
              simp only [List.getElem?_set, ↓reduceIte, hi, Option.some.injEq] at hWj
              subst hWj; rfl
            · rw [hj] at hWj; injection hWj with e; subst e; rfl
          have hcur := (next_ge cfg cur W).2
          constructor
          · apply WF_set W j _ h1.1
            refine ⟨fun hs => ?_, by simp [exited], ?_⟩
            · simp only [exited] at hs; rw [hns] at hs; cases hs
            · simp only [exited]
              have : u.activation_epoch ≤ cur := by
                have := hact.1; unfold is_active_validator at this
                simp only [Bool.and_eq_true, decide_eq_true_eq] at this; exact this.1
              rw [hae]; omega
          · rw [map_set_same slashKey W j u' (exited cfg u' (next cfg cur W)) hWj (by simp [slashKey, exited, hns])]
            exact h1.2
    · exact h1

/-- the activation loop does not change who is active in the current epoch -/
theorem activations_active_same (cfg : Config) (cur fin limit : Nat) (vals : List Validator) (hcur : cur < FAR_FUTURE_EPOCH) :
    (registry_activations_pure cfg cur fin limit vals).map (is_active_validator · cur) = vals.map (is_active_validator · cur) := by
  unfold registry_activations_pure
  have hq : ∀ i ∈ (activation_queue_pure fin vals).take limit, ∀ v, vals[i]? = some v → cur < v.activation_epoch := by
    intro i hi v hv
    have hi' := List.mem_of_mem_take hi
    unfold activation_queue_pure at hi'
    simp only [List.mem_mergeSort, List.mem_filter, hv, Bool.and_eq_true, beq_iff_eq] at hi'
    rw [hi'.2.2]; exact hcur
  generalize (activation_queue_pure fin vals).take limit = q at hq
  suffices hs : ∀ (q : List Nat) (w : List Validator),
      (∀ i ∈ q, ∀ v, w[i]? = some v → cur < v.activation_epoch) →
      (q.foldl (fun w index => match w[index]? with
        | none => w
        | some validator => w.set index { validator with activation_epoch := compute_activation_exit_epoch cfg cur }) w).map
          (is_active_validator · cur) = w.map (is_active_validator · cur) from hs q vals hq
  intro q
  induction q with
  | nil => intro w _; rfl
  | cons i rest ih =>
    intro w hex
    simp only [List.foldl_cons]
    cases hi : w[i]? with
    | none => exact ih w (fun j hj => hex j (by simp [hj]))
    | some v =>
      simp only []
      have hv := hex i (by simp) v hi
      have hcae : cur < compute_activation_exit_epoch cfg cur := by unfold compute_activation_exit_epoch; omega
      rw [ih]
      · apply map_set_same (is_active_validator · cur) w i v _ hi
        unfold is_active_validator
        have h1 : ¬ v.activation_epoch ≤ cur := by omega
        have h2 : ¬ compute_activation_exit_epoch cfg cur ≤ cur := by omega
        simp [h1, h2]
      · intro j hj u hu
        rw [List.getElem?_set] at hu
        by_cases hij : i = j
        · subst hij
          obtain ⟨hlt, _⟩ := List.getElem?_eq_some_iff.mp hi
          simp only [↓reduceIte, hlt, Option.some.injEq] at hu
          subst hu; exact hcae
        · simp only [hij, ↓reduceIte] at hu
          exact hex j (by simp [hj]) u hu

/-- index-based sums are sums over the filtered registry -/
theorem idx_sum' (l : List Validator) (s : Nat) (p : Validator → Bool) (f : Validator → Nat) :
    (((List.range' s l.length).filter (fun i => match l[i - s]? with | some v => p v | none => false)).map
        (fun i => f (l.getD (i - s) default))).sum = ((l.filter p).map f).sum := by
  induction l generalizing s with
  | nil => simp
  | cons x xs ih =>
    simp only [List.length_cons, List.range'_succ, List.filter_cons, Nat.sub_self, List.getElem?_cons_zero]
    have htail : ((List.range' (s + 1) xs.length).filter (fun i => match (x :: xs)[i - s]? with | some v => p v | none => false)).map
          (fun i => f ((x :: xs).getD (i - s) default)) =
        ((List.range' (s + 1) xs.length).filter (fun i => match xs[i - (s + 1)]? with | some v => p v | none => false)).map
          (fun i => f (xs.getD (i - (s + 1)) default)) := by
      have hf : (List.range' (s + 1) xs.length).filter (fun i => match (x :: xs)[i - s]? with | some v => p v | none => false) =
          (List.range' (s + 1) xs.length).filter (fun i => match xs[i - (s + 1)]? with | some v => p v | none => false) := by
        apply List.filter_congr
        intro i hi
        have : s + 1 ≤ i := (List.mem_range'_1.mp hi).1
        have e : i - s = (i - (s + 1)) + 1 := by omega
        rw [e, List.getElem?_cons_succ]
      rw [hf]
      apply List.map_congr_left
      intro i hi
      have : s + 1 ≤ i := (List.mem_range'_1.mp (List.mem_filter.mp hi).1).1
      have e : i - s = (i - (s + 1)) + 1 := by omega
      rw [e]; simp [List.getD]
    split
    · simp only [List.map_cons, List.sum_cons, Nat.sub_self]
      rw [htail, ih (s + 1)]; simp [List.getD]
    · rw [htail, ih (s + 1)]

theorem total_active_balance_of_eq (cfg : Config) (l : List Validator) (cur : Nat) :
    total_active_balance_of cfg l cur =
      max cfg.EFFECTIVE_BALANCE_INCREMENT (((l.filter (is_active_validator · cur)).map (·.effective_balance)).sum) := by
  unfold total_active_balance_of total_balance_of active_indices_of
  have := idx_sum' l 0 (is_active_validator · cur) (·.effective_balance)
  simp only [Nat.sub_zero, ← List.range_eq_range'] at this
  unfold eff_of
  exact congrArg (max cfg.EFFECTIVE_BALANCE_INCREMENT) this

/-- the total depends on the registry only through activity and effective balances -/
theorem total_active_congr (cfg : Config) (l l' : List Validator) (cur : Nat)
    (h : l.map (fun v => (is_active_validator v cur, v.effective_balance)) = l'.map (fun v => (is_active_validator v cur, v.effective_balance))) :
    total_active_balance_of cfg l cur = total_active_balance_of cfg l' cur := by
  rw [total_active_balance_of_eq, total_active_balance_of_eq]
  have key : ∀ m : List Validator, ((m.filter (is_active_validator · cur)).map (·.effective_balance)) =
      (((m.map (fun v => (is_active_validator v cur, v.effective_balance))).filter (·.1)).map (·.2)) := by
    intro m; rw [List.filter_map, List.map_map]; rfl
  rw [key l, key l', h]

theorem slashings_pure_congr (cfg : Config) (fork : Fork) (epoch total : Nat) (slashings : List Nat)
    (vals vals' : List Validator) (balances : List Nat) (h : vals.map slashKey = vals'.map slashKey) :
    process_slashings_pure cfg fork epoch total slashings vals balances =
      process_slashings_pure cfg fork epoch total slashings vals' balances := by
  unfold process_slashings_pure
  simp only []
  induction vals generalizing vals' balances with
  | nil =>
    cases vals' with
    | nil => rfl
    | cons _ _ => simp at h
  | cons v vs ih =>
    cases vals' with
    | nil => simp at h
    | cons v' vs' =>
      simp only [List.map_cons, List.cons.injEq] at h
      cases balances with
      | nil => rfl
      | cons b bs =>
        simp only [List.zip_cons_cons, List.map_cons, List.cons.injEq]
        refine ⟨?_, ih vs' bs h.2⟩
        have hk := h.1
        unfold slashKey at hk
        simp only [Prod.mk.injEq] at hk
        obtain ⟨h1, h2, h3⟩ := hk
        cases hs : v.slashed
        · have : v'.slashed = false := by rw [← h1]; exact hs
          simp [hs, this]
        · have hs' : v'.slashed = true := by rw [← h1]; exact hs
          simp only [hs, hs', ↓reduceIte] at h3
          simp [hs, hs', h2, h3]

/-! ### the exit-queue budget -/

/-- validators that can still be given an exit epoch -/
def farCount (vals : List Validator) : Nat := qcount vals FAR_FUTURE_EPOCH

theorem exits_congr (w w' : List Validator) (h : w.map (·.exit_epoch) = w'.map (·.exit_epoch)) :
    exits w = exits w' ∧ ∀ E, qcount w E = qcount w' E := by
  constructor
  · have : ∀ l : List Validator, exits l = ((l.map (·.exit_epoch)).filter (fun e => decide (e ≠ FAR_FUTURE_EPOCH))) := by
      intro l; unfold exits; rw [List.filter_map]; rfl
    rw [this w, this w', h]
  · intro E
    have : ∀ l : List Validator, qcount l E = ((l.map (·.exit_epoch)).filter (fun e => decide (e = E))).length := by
      intro l; unfold qcount; rw [List.filter_map, List.length_map]; rfl
    rw [this w, this w', h]

theorem qmax_congr (cfg : Config) (cur : Nat) (w w' : List Validator) (h : w.map (·.exit_epoch) = w'.map (·.exit_epoch)) :
    qmax cfg cur w = qmax cfg cur w' := by
  unfold qmax; rw [(exits_congr w w' h).1]

/-- giving an exit epoch to a validator that had none uses up one unit of the budget -/
theorem farCount_set (cfg : Config) (vals : List Validator) (i : Nat) (v : Validator) (E : Nat)
    (hv : vals[i]? = some v) (hfar : v.exit_epoch = FAR_FUTURE_EPOCH) (hE : E ≠ FAR_FUTURE_EPOCH) :
    farCount (vals.set i (exited cfg v E)) + 1 = farCount vals := by
  obtain ⟨h1, h2⟩ := split_at vals i v hv
  rw [h2]
  generalize vals.take i = a at *
  generalize vals.drop (i + 1) = b at *
  subst h1
  unfold farCount
  simp only [qcount_append, qcount_cons, exited, hfar, hE, ↓reduceIte]
  omega

/-- the exit-queue budget `qmax + farCount` does not grow in the first loop of `process_registry_updates`,
as long as it is below `FAR_FUTURE_EPOCH` -/
theorem budget_first_loop (cfg : Config) (cur C : Nat) (vals : List Validator)
    (hb : qmax cfg cur vals + farCount vals ≤ C) (hC : C < FAR_FUTURE_EPOCH) :
    qmax cfg cur (registry_eligibility_and_ejections_pure cfg cur vals) +
      farCount (registry_eligibility_and_ejections_pure cfg cur vals) ≤ C := by
  unfold registry_eligibility_and_ejections_pure
  refine foldl_preserves (fun (w : List Validator) => qmax cfg cur w + farCount w ≤ C) _ _ _ hb ?_
  intro w j hw
  cases hj : w[j]? with
  | none => simpa using hw
  | some u =>
    simp only []
    have h1 : qmax cfg cur (if is_eligible_for_activation_queue cfg u = true then
          w.set j { u with activation_eligibility_epoch := cur + 1 } else w) +
        farCount (if is_eligible_for_activation_queue cfg u = true then
          w.set j { u with activation_eligibility_epoch := cur + 1 } else w) ≤ C := by
      split
      · have hm : (w.set j { u with activation_eligibility_epoch := cur + 1 }).map (·.exit_epoch) = w.map (·.exit_epoch) :=
          map_set_same (·.exit_epoch) w j u { u with activation_eligibility_epoch := cur + 1 } hj rfl
        rw [qmax_congr cfg cur _ _ hm]
        unfold farCount
        rw [(exits_congr _ _ hm).2]
        exact hw
      · exact hw
    split
    · rename_i hact
      simp only [Bool.and_eq_true, decide_eq_true_eq] at hact
      rw [ive_unfold]
      generalize hW : (if is_eligible_for_activation_queue cfg u = true then
        w.set j { u with activation_eligibility_epoch := cur + 1 } else w) = W at h1 ⊢
      cases hWj : W[j]? with
      | none => exact h1
      | some u' =>
        simp only []
        split
        · exact h1
        · rename_i hfar
          have hfar' : u'.exit_epoch = FAR_FUTURE_EPOCH := by simpa using hfar
          -- `W[j]` is active like `u`
          have hu' : is_active_validator u' cur = true := by
            have : u'.activation_epoch = u.activation_epoch ∧ u'.exit_epoch = u.exit_epoch := by
              rw [← hW] at hWj
              split at hWj
              · obtain ⟨hi, _⟩ := List.getElem?_eq_some_iff.mp hj
                simp only [List.getElem?_set, ↓reduceIte, hi, Option.some.injEq] at hWj
                subst hWj; exact ⟨rfl, rfl⟩
              · rw [hj] at hWj; injection hWj with e; subst e; exact ⟨rfl, rfl⟩
            unfold is_active_validator at hact ⊢
            rw [this.1, this.2]; exact hact.1
          -- there is budget left: the validator being ejected still counts in `farCount`
          have hpos : 1 ≤ farCount W := by
            unfold farCount qcount
            apply List.length_pos_of_mem (a := u')
            exact List.mem_filter.mpr ⟨List.mem_of_getElem? hWj, by simp [hfar']⟩
          have hnext : next cfg cur W ≤ qmax cfg cur W + 1 := by unfold next; split <;> omega
          have hE : next cfg cur W ≠ FAR_FUTURE_EPOCH := by omega
          obtain ⟨hge, hcur⟩ := next_ge cfg cur W
          obtain ⟨hq, _, _⟩ := set_exit_summaries cfg cur W j u' (next cfg cur W) hWj hfar' hE hu' hcur
          have hf := farCount_set cfg W j u' (next cfg cur W) hWj hfar' hE
          rw [hq]
          omega
    · exact h1

end Zrnt.Proofs.Lemmas
