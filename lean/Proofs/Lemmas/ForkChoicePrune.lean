import Proofs.Lemmas.ForkChoiceChain
import Proofs.Lemmas.ForkChoiceLinks
/-!
# Fork choice: `ProtoArray.OnPrune` (the compacting prune) on a well-formed array

`PA.onPrune` drops every node that is not the anchor or a transition descendant of it (a block at the anchor's own
slot hanging from the anchor goes too), compacts the node array, renumbers every index, rebuilds `indices` and
`blockSlots`, and re-hangs a block whose fork-choice parent went away from the first node left of its parent root.
Throughout `h : WF pr` (so `pr.offset = 0`), `a` is the position of the anchor and
`keep = PA.keepFlags 0 a slot pr.nodes []`.

* A1 `keepFlags`: `Prune.keep_length`, `keep_anchor`, `keep_get`, `keep_iff`, `keep_tparent`, `keep_tanc`, `keep_ge`.
* A2 `newIndex`/`renumber`: `newIndex_lt` (strictly monotone where the flag is set), `newIndex_inj`,
  `newIndex_lt_count`, `newIndex_surj`; `renumber_some_iff`, `renumber_kept`, `renumber_dropped`.
* A3 `compact`: `compact_length`, `compact_get`, `compact_inv` (with `Prune.renum`, the renumbered node).
* A4 the rebuilt maps: `rebuildIndices_iff`, `rebuildIndices_length0` (distinct references, `DistinctRefs`);
  `rebuildBlockSlots_sound`, `rebuildBlockSlots_complete`, `rebuildBlockSlots_min`.
* A5 `reparent`: `reparent_spec`, `reparent_spec_inv` (`RNode`: what may change), `reparent_parent` (the new
  parent is the node of the parent root at its first slot), `reparent_weight` (`addedW`: weights only grow by the
  weights of the re-hung nodes).
* B `onPrune_eq`, `onPrune_cases`, `onPrune_cases_absent` (the shapes of the outcome, `Prune.pruned`),
  `onPrune_total`, `Prune.wf_pruned`, `onPrune_wf`, `keep_closed_of_chain`, `onPrune_wf_of_chain`;
  the pruned array read through the old one: `pruned_indices_get`, `pruned_blockSlots_sound/_complete`,
  `pruned_node_skel`, `pruned_node_fparent`, `pruned_node_weight`, `pruned_fpar`, `pruned_reach`.

`WF` of the result needs that the fork-choice children of the nodes that stay stay (otherwise `renumber` could
keep one of `bestChild`/`bestDesc` and drop the other, and a best descendant could lose its path): that is the
hypothesis `hclosed` of `onPrune_wf`, and `keep_closed_of_chain` proves it from the chain structure `Chain pr`
without exception.
-/
namespace Zrnt.ForkChoice
namespace Prune


/-! ## A1: `keepFlags` -/

/-- the flag `keepFlags` computes for the node `n` at position `acc.length` -/
def kflag (off a s : Nat) (acc : List Bool) (n : Node) : Bool :=
  if acc.length = a then true else
    match PA.relPos off n.tparent acc.length with
    | some p => acc.getD p false && !(p == a && n.ref.slot == s)
    | none => false

theorem keepFlags_cons (off a s : Nat) (n : Node) (rest : List Node) (acc : List Bool) :
    PA.keepFlags off a s (n :: rest) acc = PA.keepFlags off a s rest (acc ++ [kflag off a s acc n]) := rfl

theorem keepFlags_append (off a s : Nat) (ns : List Node) : ∀ acc : List Bool,
    ∃ t, PA.keepFlags off a s ns acc = acc ++ t ∧ t.length = ns.length := by
  induction ns with
  | nil => intro acc; exact ⟨[], by simp [PA.keepFlags]⟩
  | cons n rest ih =>
    intro acc
    rw [keepFlags_cons]
    obtain ⟨t, e, hl⟩ := ih (acc ++ [kflag off a s acc n])
    refine ⟨kflag off a s acc n :: t, ?_, by simp [hl]⟩
    rw [e]; simp

theorem keepFlags_length (off a s : Nat) (ns : List Node) (acc : List Bool) :
    (PA.keepFlags off a s ns acc).length = acc.length + ns.length := by
  obtain ⟨t, e, hl⟩ := keepFlags_append off a s ns acc
  rw [e]; simp [hl]

theorem keepFlags_old (off a s : Nat) (ns : List Node) (acc : List Bool) (p : Nat) (hp : p < acc.length) :
    (PA.keepFlags off a s ns acc).getD p false = acc.getD p false := by
  obtain ⟨t, e, _⟩ := keepFlags_append off a s ns acc
  rw [e]; simp [List.getD_eq_getElem?_getD, List.getElem?_append_left hp]

theorem relPos_some_nat {off x i p : Nat} (h : PA.relPos off (some x) i = some p) :
    off ≤ x ∧ x - off < i ∧ p = x - off := by
  unfold PA.relPos at h
  simp only at h
  by_cases hc : x < off ∨ x - off ≥ i
  · rw [if_pos hc] at h; cases h
  · rw [if_neg hc] at h; cases h
    have h1 : ¬ x < off := fun h => hc (Or.inl h)
    have h2 : ¬ x - off ≥ i := fun h => hc (Or.inr h)
    exact ⟨by omega, by omega, rfl⟩

theorem relPos_some {off : Nat} {o : Option Idx} {i p : Nat} (h : PA.relPos off o i = some p) :
    ∃ x : Nat, o = some x ∧ off ≤ x ∧ x - off < i ∧ p = x - off := by
  cases o with
  | none => cases h
  | some x => exact ⟨x, rfl, relPos_some_nat h⟩

theorem relPos_lt {off : Nat} {o : Option Idx} {i p : Nat} (h : PA.relPos off o i = some p) : p < i := by
  obtain ⟨x, _, _, h3, h4⟩ := relPos_some h
  omega

/-- the flag of every visited position, in terms of the final flags -/
theorem keepFlags_get (off a s : Nat) (ns : List Node) : ∀ (acc : List Bool) (k : Nat) (n : Node),
    ns[k]? = some n →
    (PA.keepFlags off a s ns acc).getD (acc.length + k) false =
      (if acc.length + k = a then true else
        match PA.relPos off n.tparent (acc.length + k) with
        | some p => (PA.keepFlags off a s ns acc).getD p false && !(p == a && n.ref.slot == s)
        | none => false) := by
  induction ns with
  | nil => intro acc k n h; simp at h
  | cons n0 rest ih =>
    intro acc k n hk
    rw [keepFlags_cons]
    cases k with
    | zero =>
      simp only [List.getElem?_cons_zero, Option.some.injEq] at hk
      subst hk
      simp only [Nat.add_zero]
      rw [keepFlags_old _ _ _ _ _ acc.length (by simp)]
      have e1 : (acc ++ [kflag off a s acc n0]).getD acc.length false = kflag off a s acc n0 := by
        simp [List.getD_eq_getElem?_getD]
      rw [e1]
      unfold kflag
      split
      · rfl
      · cases hr : PA.relPos off n0.tparent acc.length with
        | none => rfl
        | some p =>
          have hp := relPos_lt hr
          simp only
          rw [keepFlags_old off a s rest _ p (by simp; omega)]
          simp [List.getD_eq_getElem?_getD, List.getElem?_append_left hp]
    | succ k =>
      simp only [List.getElem?_cons_succ] at hk
      have := ih (acc ++ [kflag off a s acc n0]) k n hk
      simp only [List.length_append, List.length_cons, List.length_nil, Nat.zero_add] at this
      rw [show acc.length + (k + 1) = acc.length + 1 + k by omega]
      exact this

theorem relPos_zero_of_lt {x i : Nat} (h : x < i) : PA.relPos 0 (some x) i = some x := by
  unfold PA.relPos
  simp only
  have hc : ¬ (x < 0 ∨ x - 0 ≥ i) := by omega
  exact (if_neg hc).trans (by simp)

theorem getD_false_of_ge (l : List Bool) (i : Nat) (h : l.length ≤ i) : l.getD i false = false := by
  simp [List.getD_eq_getElem?_getD, List.getElem?_eq_none h]

theorem getD_true_lt {l : List Bool} {i : Nat} (h : l.getD i false = true) : i < l.length := by
  by_cases hi : i < l.length
  · exact hi
  · rw [getD_false_of_ge l i (by omega)] at h; cases h

/-- `keep` of `OnPrune` before any effective prune -/
theorem keep_length (ns : List Node) (a slot : Nat) : (PA.keepFlags 0 a slot ns []).length = ns.length := by
  rw [keepFlags_length]; simp

theorem keep_get {pr : PA} (h : WF pr) (a slot : Nat) {i : Nat} {n : Node} (hn : pr.nodes[i]? = some n) :
    (PA.keepFlags 0 a slot pr.nodes []).getD i false =
      (if i = a then true else
        match n.tparent with
        | some p => (PA.keepFlags 0 a slot pr.nodes []).getD p false && !(p == a && n.ref.slot == slot)
        | none => false) := by
  have := keepFlags_get 0 a slot pr.nodes [] i n hn
  simp only [List.length_nil, Nat.zero_add] at this
  rw [this]
  cases ht : n.tparent with
  | none => rfl
  | some p => rw [relPos_zero_of_lt (h.tpar_lt i n p hn ht)]

theorem keep_anchor {pr : PA} (h : WF pr) (a slot : Nat) (ha : a < pr.nodes.length) :
    (PA.keepFlags 0 a slot pr.nodes []).getD a false = true := by
  obtain ⟨n, hn⟩ : ∃ n, pr.nodes[a]? = some n := ⟨pr.nodes[a], List.getElem?_eq_getElem ha⟩
  rw [keep_get h a slot hn]; simp

/-- A1: what stays besides the anchor -/
theorem keep_iff {pr : PA} (h : WF pr) (a slot : Nat) {i : Nat} (hia : i ≠ a) :
    (PA.keepFlags 0 a slot pr.nodes []).getD i false = true ↔
      ∃ p n, pr.nodes[i]? = some n ∧ n.tparent = some p ∧
        (PA.keepFlags 0 a slot pr.nodes []).getD p false = true ∧ ¬ (p = a ∧ n.ref.slot = slot) := by
  constructor
  · intro hk
    have hi := getD_true_lt hk
    rw [keep_length] at hi
    obtain ⟨n, hn⟩ : ∃ n, pr.nodes[i]? = some n := ⟨pr.nodes[i], List.getElem?_eq_getElem hi⟩
    rw [keep_get h a slot hn, if_neg hia] at hk
    cases ht : n.tparent with
    | none => rw [ht] at hk; cases hk
    | some p =>
      rw [ht] at hk
      simp only [Bool.and_eq_true, Bool.not_eq_true', Bool.and_eq_false_imp, beq_iff_eq, beq_eq_false_iff_ne] at hk
      exact ⟨p, n, hn, ht, hk.1, fun ⟨e1, e2⟩ => hk.2 e1 e2⟩
  · rintro ⟨p, n, hn, ht, hp, hx⟩
    rw [keep_get h a slot hn, if_neg hia, ht]
    simp only [Bool.and_eq_true, Bool.not_eq_true', Bool.and_eq_false_imp, beq_iff_eq, beq_eq_false_iff_ne]
    exact ⟨hp, fun e1 e2 => hx ⟨e1, e2⟩⟩

/-- (k1) what stays besides the anchor has a transition parent that stays -/
theorem keep_tparent {pr : PA} (h : WF pr) (a slot : Nat) {i : Nat} (hia : i ≠ a)
    (hk : (PA.keepFlags 0 a slot pr.nodes []).getD i false = true) :
    ∃ p, tpar pr.nodes i = some p ∧ (PA.keepFlags 0 a slot pr.nodes []).getD p false = true := by
  obtain ⟨p, n, hn, ht, hp, _⟩ := (keep_iff h a slot hia).1 hk
  exact ⟨p, by rw [tpar_of_node hn]; exact ht, hp⟩

/-- what stays is the anchor or a transition descendant of it -/
theorem keep_treach {pr : PA} (h : WF pr) (a slot : Nat) : ∀ i : Nat,
    (PA.keepFlags 0 a slot pr.nodes []).getD i false = true → PReach (tpar pr.nodes) a i := by
  intro i
  induction i using Nat.strongRecOn with
  | _ i ih =>
    intro hk
    by_cases hia : i = a
    · subst hia; exact .refl
    · obtain ⟨p, hp, hkp⟩ := keep_tparent h a slot hia hk
      exact .step hp (ih p (h.tpar_lt2 i p hp) hkp)

theorem keep_tanc {pr : PA} (h : WF pr) (a slot : Nat) {i : Nat}
    (hk : (PA.keepFlags 0 a slot pr.nodes []).getD i false = true) : tanc pr.nodes a i = true :=
  (tanc_iff_reach _ h.tpar_lt2 a i).2 (keep_treach h a slot i hk)

theorem keep_ge {pr : PA} (h : WF pr) (a slot : Nat) {i : Nat}
    (hk : (PA.keepFlags 0 a slot pr.nodes []).getD i false = true) : a ≤ i :=
  (keep_treach h a slot i hk).le h.tpar_lt2

/-! ## A2: `newIndex` -/

theorem newIndex_zero (keep : List Bool) : PA.newIndex 0 keep 0 = 0 := by
  simp [PA.newIndex]

theorem newIndex_succ (keep : List Bool) (i : Nat) :
    PA.newIndex 0 keep (i + 1) = PA.newIndex 0 keep i + (if keep.getD i false = true then 1 else 0) := by
  unfold PA.newIndex
  rw [List.take_add_one]
  cases hi : keep[i]? with
  | none => simp [List.getD_eq_getElem?_getD, hi]
  | some b => cases b <;> simp [List.getD_eq_getElem?_getD, hi, List.count_append]

theorem newIndex_mono (keep : List Bool) {i j : Nat} (hij : i ≤ j) : PA.newIndex 0 keep i ≤ PA.newIndex 0 keep j := by
  induction j with
  | zero => have : i = 0 := by omega
            subst this; exact Nat.le_refl _
  | succ j ih =>
    by_cases e : i = j + 1
    · subst e; exact Nat.le_refl _
    · have := ih (by omega)
      rw [newIndex_succ]; omega

/-- strictly monotone on the positions that stay -/
theorem newIndex_lt (keep : List Bool) {i j : Nat} (hk : keep.getD i false = true) (hij : i < j) :
    PA.newIndex 0 keep i < PA.newIndex 0 keep j := by
  have h1 := newIndex_succ keep i
  rw [if_pos hk] at h1
  have h2 := newIndex_mono keep (show i + 1 ≤ j by omega)
  omega

theorem newIndex_inj (keep : List Bool) {i j : Nat} (hi : keep.getD i false = true) (hj : keep.getD j false = true)
    (e : PA.newIndex 0 keep i = PA.newIndex 0 keep j) : i = j := by
  rcases Nat.lt_trichotomy i j with h | h | h
  · have := newIndex_lt keep hi h; omega
  · exact h
  · have := newIndex_lt keep hj h; omega

theorem newIndex_ge_length (keep : List Bool) {i : Nat} (hi : keep.length ≤ i) :
    PA.newIndex 0 keep i = keep.count true := by
  unfold PA.newIndex
  rw [List.take_of_length_le hi]; simp

theorem newIndex_le_count (keep : List Bool) (i : Nat) : PA.newIndex 0 keep i ≤ keep.count true := by
  have := newIndex_mono keep (show i ≤ max i keep.length by omega)
  rw [newIndex_ge_length keep (show keep.length ≤ max i keep.length by omega)] at this
  exact this

theorem newIndex_lt_count (keep : List Bool) {i : Nat} (hk : keep.getD i false = true) :
    PA.newIndex 0 keep i < keep.count true := by
  have h1 := newIndex_succ keep i
  rw [if_pos hk] at h1
  have := newIndex_le_count keep (i + 1)
  omega

/-- every new position below `newIndex m` comes from a position below `m` that stays -/
theorem newIndex_surj_below (keep : List Bool) : ∀ m j, j < PA.newIndex 0 keep m →
    ∃ i, i < m ∧ keep.getD i false = true ∧ PA.newIndex 0 keep i = j := by
  intro m
  induction m with
  | zero => intro j hj; rw [newIndex_zero] at hj; omega
  | succ m ih =>
    intro j hj
    rw [newIndex_succ] at hj
    by_cases hlt : j < PA.newIndex 0 keep m
    · obtain ⟨i, h1, h2, h3⟩ := ih j hlt
      exact ⟨i, by omega, h2, h3⟩
    · by_cases hk : keep.getD m false = true
      · rw [if_pos hk] at hj
        exact ⟨m, by omega, hk, by omega⟩
      · rw [if_neg hk] at hj; omega

/-- A2: `newIndex` is a bijection between the positions that stay and `[0, count)` -/
theorem newIndex_surj (keep : List Bool) {j : Nat} (hj : j < keep.count true) :
    ∃ i, i < keep.length ∧ keep.getD i false = true ∧ PA.newIndex 0 keep i = j := by
  rw [← newIndex_ge_length keep (Nat.le_refl _)] at hj
  exact newIndex_surj_below keep _ j hj

/-! `renumber` -/

theorem renumber_kept (keep : List Bool) {x : Nat} (hk : keep.getD x false = true) :
    PA.renumber 0 keep (some x) = some (PA.newIndex 0 keep x) := by
  have hx : x < keep.length := getD_true_lt hk
  have hc : ¬ (x < 0 ∨ x - 0 ≥ keep.length) := by omega
  unfold PA.renumber
  simp only
  rw [if_neg hc, Nat.sub_zero, if_pos hk]

theorem renumber_dropped (keep : List Bool) {x : Nat} (hk : keep.getD x false ≠ true) :
    PA.renumber 0 keep (some x) = none := by
  unfold PA.renumber
  simp only
  split
  · rfl
  · rw [Nat.sub_zero, if_neg hk]

theorem renumber_some_iff (keep : List Bool) (o : Option Idx) (y : Nat) :
    PA.renumber 0 keep o = some y ↔ ∃ x : Nat, o = some x ∧ keep.getD x false = true ∧ y = PA.newIndex 0 keep x := by
  cases o with
  | none => simp [PA.renumber]
  | some x =>
    by_cases hk : keep.getD x false = true
    · rw [renumber_kept keep hk]
      constructor
      · intro e; cases e; exact ⟨x, rfl, hk, rfl⟩
      · rintro ⟨x', e, _, rfl⟩; cases e; rfl
    · rw [renumber_dropped keep hk]
      constructor
      · intro e; cases e
      · rintro ⟨x', e, hk', _⟩; cases e; exact absurd hk' hk

theorem renumber_none (keep : List Bool) : PA.renumber 0 keep none = none := rfl

/-! ## A3: `compact` -/

/-- a node that stays, as `compact` writes it -/
def renum (keep : List Bool) (n : Node) : Node :=
  { n with tparent := PA.renumber 0 keep n.tparent, fparent := PA.renumber 0 keep n.fparent,
           bestChild := PA.renumber 0 keep n.bestChild, bestDesc := PA.renumber 0 keep n.bestDesc }

theorem compact_cons (keep : List Bool) (i : Nat) (n : Node) (rest : List Node) :
    PA.compact 0 keep i (n :: rest) =
      if keep.getD i false = true then renum keep n :: PA.compact 0 keep (i + 1) rest
      else PA.compact 0 keep (i + 1) rest := rfl

theorem compact_length_gen (keep : List Bool) : ∀ (ns : List Node) (i : Nat),
    (PA.compact 0 keep i ns).length + PA.newIndex 0 keep i = PA.newIndex 0 keep (i + ns.length) := by
  intro ns
  induction ns with
  | nil => intro i; simp [PA.compact]
  | cons n rest ih =>
    intro i
    rw [compact_cons]
    have h1 := ih (i + 1)
    have h2 := newIndex_succ keep i
    rw [show i + (n :: rest).length = i + 1 + rest.length by simp; omega]
    split
    · rename_i hk; rw [if_pos hk] at h2; simp only [List.length_cons]; omega
    · rename_i hk; rw [if_neg hk] at h2; omega

theorem compact_get_gen (keep : List Bool) : ∀ (ns : List Node) (i k : Nat) (n : Node),
    ns[k]? = some n → keep.getD (i + k) false = true →
    ∃ j, j + PA.newIndex 0 keep i = PA.newIndex 0 keep (i + k) ∧ (PA.compact 0 keep i ns)[j]? = some (renum keep n) := by
  intro ns
  induction ns with
  | nil => intro i k n h; simp at h
  | cons n0 rest ih =>
    intro i k n hn hk
    rw [compact_cons]
    have h2 := newIndex_succ keep i
    cases k with
    | zero =>
      simp only [List.getElem?_cons_zero, Option.some.injEq] at hn
      subst hn
      rw [Nat.add_zero] at hk
      rw [if_pos hk]
      exact ⟨0, by simp, rfl⟩
    | succ k =>
      simp only [List.getElem?_cons_succ] at hn
      obtain ⟨j, hj, hg⟩ := ih (i + 1) k n hn (by rw [show i + 1 + k = i + (k + 1) by omega]; exact hk)
      rw [show i + 1 + k = i + (k + 1) by omega] at hj
      split
      · rename_i hki; rw [if_pos hki] at h2
        exact ⟨j + 1, by omega, by rw [List.getElem?_cons_succ]; exact hg⟩
      · rename_i hki; rw [if_neg hki] at h2
        exact ⟨j, by omega, hg⟩

/-- A3: the length of the compacted array -/
theorem compact_length (keep : List Bool) (ns : List Node) (hl : keep.length = ns.length) :
    (PA.compact 0 keep 0 ns).length = keep.count true := by
  have := compact_length_gen keep ns 0
  rw [newIndex_zero, Nat.zero_add, newIndex_ge_length keep (by omega)] at this
  exact this

/-- A3: where a node that stays goes -/
theorem compact_get (keep : List Bool) (ns : List Node) {i : Nat} {n : Node} (hn : ns[i]? = some n)
    (hk : keep.getD i false = true) :
    (PA.compact 0 keep 0 ns)[PA.newIndex 0 keep i]? = some (renum keep n) := by
  obtain ⟨j, hj, hg⟩ := compact_get_gen keep ns 0 i n hn (by rw [Nat.zero_add]; exact hk)
  rw [newIndex_zero, Nat.zero_add, Nat.add_zero] at hj
  rw [← hj]; exact hg

/-- A3: every node of the compacted array is a node that stayed -/
theorem compact_inv (keep : List Bool) (ns : List Node) (hl : keep.length = ns.length) {j : Nat} {m : Node}
    (hm : (PA.compact 0 keep 0 ns)[j]? = some m) :
    ∃ i n, ns[i]? = some n ∧ keep.getD i false = true ∧ j = PA.newIndex 0 keep i ∧ m = renum keep n := by
  have hj : j < keep.count true := by
    rw [← compact_length keep ns hl]; exact (List.getElem?_eq_some_iff.1 hm).1
  obtain ⟨i, hi, hk, e⟩ := newIndex_surj keep hj
  have hn : ns[i]? = some ns[i] := List.getElem?_eq_getElem (by omega)
  have := compact_get keep ns hn hk
  rw [e, hm] at this
  exact ⟨i, ns[i], hn, hk, e.symm, by cases this; rfl⟩

@[simp] theorem renum_ref (keep : List Bool) (n : Node) : (renum keep n).ref = n.ref := rfl
@[simp] theorem renum_parentRoot (keep : List Bool) (n : Node) : (renum keep n).parentRoot = n.parentRoot := rfl
@[simp] theorem renum_jEpoch (keep : List Bool) (n : Node) : (renum keep n).jEpoch = n.jEpoch := rfl
@[simp] theorem renum_fEpoch (keep : List Bool) (n : Node) : (renum keep n).fEpoch = n.fEpoch := rfl
@[simp] theorem renum_weight (keep : List Bool) (n : Node) : (renum keep n).weight = n.weight := rfl
@[simp] theorem renum_tparent (keep : List Bool) (n : Node) : (renum keep n).tparent = PA.renumber 0 keep n.tparent := rfl
@[simp] theorem renum_fparent (keep : List Bool) (n : Node) : (renum keep n).fparent = PA.renumber 0 keep n.fparent := rfl
@[simp] theorem renum_bestChild (keep : List Bool) (n : Node) : (renum keep n).bestChild = PA.renumber 0 keep n.bestChild := rfl
@[simp] theorem renum_bestDesc (keep : List Bool) (n : Node) : (renum keep n).bestDesc = PA.renumber 0 keep n.bestDesc := rfl

/-! ## A4: the rebuilt maps -/

/-- the references of a node list are pairwise distinct -/
def DistinctRefs (ns : List Node) : Prop :=
  ∀ (k k' : Nat) (n n' : Node), ns[k]? = some n → ns[k']? = some n' → n.ref = n'.ref → k = k'

theorem DistinctRefs.tail {n : Node} {rest : List Node} (h : DistinctRefs (n :: rest)) : DistinctRefs rest := by
  intro k k' m m' hk hk' e
  have := h (k + 1) (k' + 1) m m' (by simpa using hk) (by simpa using hk') e
  omega

theorem DistinctRefs.head_ne {n : Node} {rest : List Node} (h : DistinctRefs (n :: rest)) (k : Nat) (m : Node)
    (hk : rest[k]? = some m) : n.ref ≠ m.ref := by
  intro e
  have := h 0 (k + 1) n m (by simp) (by simpa using hk) e
  omega

theorem rebuildIndices_cons (i : Nat) (n : Node) (rest : List Node) (m : List (NodeRef × Idx)) :
    PA.rebuildIndices 0 i (n :: rest) m = PA.rebuildIndices 0 (i + 1) rest (aSet m n.ref i) := by
  simp [PA.rebuildIndices]

theorem rebuildIndices_other (r : NodeRef) : ∀ (ns : List Node) (i : Nat) (m : List (NodeRef × Idx)),
    (∀ (k : Nat) (n : Node), ns[k]? = some n → n.ref ≠ r) → aGet (PA.rebuildIndices 0 i ns m) r = aGet m r := by
  intro ns
  induction ns with
  | nil => intro i m _; rfl
  | cons n rest ih =>
    intro i m hne
    rw [rebuildIndices_cons, ih (i + 1) _ (fun k n' hk => hne (k + 1) n' (by simpa using hk))]
    exact aGet_aSet_ne m n.ref r i (hne 0 n (by simp))

theorem rebuildIndices_get : ∀ (ns : List Node) (i : Nat) (m : List (NodeRef × Idx)), DistinctRefs ns →
    ∀ (k : Nat) (n : Node), ns[k]? = some n → aGet (PA.rebuildIndices 0 i ns m) n.ref = some (i + k) := by
  intro ns
  induction ns with
  | nil => intro i m _ k n h; simp at h
  | cons n0 rest ih =>
    intro i m hd k n hk
    rw [rebuildIndices_cons]
    cases k with
    | zero =>
      simp only [List.getElem?_cons_zero, Option.some.injEq] at hk
      subst hk
      rw [rebuildIndices_other n0.ref rest (i + 1) _ (fun k n' hk' e => hd.head_ne k n' hk' e.symm)]
      exact aGet_aSet_self m n0.ref i
    | succ k =>
      simp only [List.getElem?_cons_succ] at hk
      rw [ih (i + 1) _ hd.tail k n hk]
      congr 1; omega

theorem rebuildIndices_length : ∀ (ns : List Node) (i : Nat) (m : List (NodeRef × Idx)), DistinctRefs ns →
    (∀ (k : Nat) (n : Node), ns[k]? = some n → aGet m n.ref = none) →
    (PA.rebuildIndices 0 i ns m).length = m.length + ns.length := by
  intro ns
  induction ns with
  | nil => intro i m _ _; rfl
  | cons n0 rest ih =>
    intro i m hd hm
    rw [rebuildIndices_cons, ih (i + 1) _ hd.tail, aSet_length_new m n0.ref i (hm 0 n0 (by simp))]
    · simp only [List.length_cons]; omega
    · intro k n hk
      rw [aGet_aSet_ne m n0.ref n.ref i (hd.head_ne k n hk)]
      exact hm (k + 1) n (by simpa using hk)

/-- A4: the rebuilt index map of a list with distinct references -/
theorem rebuildIndices_iff (ns : List Node) (hd : DistinctRefs ns) (r : NodeRef) (j : Nat) :
    aGet (PA.rebuildIndices 0 0 ns []) r = some j ↔ ∃ n, ns[j]? = some n ∧ n.ref = r := by
  constructor
  · intro hg
    by_cases hex : ∃ (k : Nat) (n : Node), ns[k]? = some n ∧ n.ref = r
    · obtain ⟨k, n, hk, e⟩ := hex
      have := rebuildIndices_get ns 0 [] hd k n hk
      rw [e, hg, Nat.zero_add] at this
      cases this
      exact ⟨n, hk, e⟩
    · rw [rebuildIndices_other r ns 0 [] (fun k n hk e => hex ⟨k, n, hk, e⟩)] at hg
      cases hg
  · rintro ⟨n, hn, e⟩
    have := rebuildIndices_get ns 0 [] hd j n hn
    rw [e, Nat.zero_add] at this
    exact this

theorem rebuildIndices_length0 (ns : List Node) (hd : DistinctRefs ns) :
    (PA.rebuildIndices 0 0 ns []).length = ns.length := by
  rw [rebuildIndices_length ns 0 [] hd (fun _ _ _ => rfl)]; simp

/-! `rebuildBlockSlots` -/

/-- one step of `rebuildBlockSlots` -/
def bsStep (old : List (Root × Nat)) (n : Node) (m : List (Root × Nat)) : List (Root × Nat) :=
  if (aGet old n.ref.root).isSome then
    match aGet m n.ref.root with
    | some s => if n.ref.slot < s then aSet m n.ref.root n.ref.slot else m
    | none => aSet m n.ref.root n.ref.slot
  else m

theorem rebuildBlockSlots_cons (old : List (Root × Nat)) (n : Node) (rest : List Node) (m : List (Root × Nat)) :
    PA.rebuildBlockSlots old (n :: rest) m = PA.rebuildBlockSlots old rest (bsStep old n m) := by
  unfold bsStep
  rw [PA.rebuildBlockSlots]
  by_cases ho : (aGet old n.ref.root).isSome = true
  · rw [if_pos ho, if_pos ho]
    cases hm : aGet m n.ref.root with
    | none => rfl
    | some s =>
      simp only
      by_cases hlt : n.ref.slot < s
      · rw [if_pos hlt, if_pos hlt]
      · rw [if_neg hlt, if_neg hlt]
  · rw [if_neg ho, if_neg ho]

/-- what one step does to the entry of a root -/
theorem bsStep_get (old : List (Root × Nat)) (n : Node) (m : List (Root × Nat)) (root : Root) :
    aGet (bsStep old n m) root =
      if n.ref.root = root ∧ (aGet old root).isSome = true then
        (match aGet m root with
         | some s => some (min s n.ref.slot)
         | none => some n.ref.slot)
      else aGet m root := by
  unfold bsStep
  by_cases hr : n.ref.root = root
  · subst hr
    by_cases ho : (aGet old n.ref.root).isSome = true
    · rw [if_pos ho, if_pos ⟨rfl, ho⟩]
      cases hm : aGet m n.ref.root with
      | none => simp only; exact aGet_aSet_self _ _ _
      | some s =>
        simp only
        split
        · rw [aGet_aSet_self]; congr 1; omega
        · rw [hm]; congr 1; omega
    · rw [if_neg ho, if_neg (fun (h : n.ref.root = n.ref.root ∧ (aGet old n.ref.root).isSome = true) => ho h.2)]
  · rw [if_neg (fun (h : n.ref.root = root ∧ (aGet old root).isSome = true) => hr h.1)]
    split
    · split
      · split
        · exact aGet_aSet_ne _ _ _ _ hr
        · rfl
      · exact aGet_aSet_ne _ _ _ _ hr
    · rfl

/-- entries only go down -/
theorem rebuildBlockSlots_mono (old : List (Root × Nat)) (root : Root) : ∀ (ns : List Node) (m : List (Root × Nat)) (s : Nat),
    aGet m root = some s → ∃ s', aGet (PA.rebuildBlockSlots old ns m) root = some s' ∧ s' ≤ s := by
  intro ns
  induction ns with
  | nil => intro m s h; exact ⟨s, h, Nat.le_refl _⟩
  | cons n rest ih =>
    intro m s hm
    rw [rebuildBlockSlots_cons]
    have hs := bsStep_get old n m root
    rw [hm] at hs
    by_cases hc : n.ref.root = root ∧ (aGet old root).isSome = true
    · rw [if_pos hc] at hs
      obtain ⟨s', h1, h2⟩ := ih _ _ hs
      exact ⟨s', h1, by omega⟩
    · rw [if_neg hc] at hs
      exact ih _ _ hs

/-- A4 (i): an entry of the rebuilt `blockSlots` was there before the loop or is the slot of a node of a known root -/
theorem rebuildBlockSlots_sound (old : List (Root × Nat)) (root : Root) : ∀ (ns : List Node) (m : List (Root × Nat)) (s : Nat),
    aGet (PA.rebuildBlockSlots old ns m) root = some s →
    aGet m root = some s ∨ ((aGet old root).isSome = true ∧ ∃ (k : Nat) (n : Node), ns[k]? = some n ∧ n.ref = ⟨s, root⟩) := by
  intro ns
  induction ns with
  | nil => intro m s h; exact Or.inl h
  | cons n rest ih =>
    intro m s hg
    rw [rebuildBlockSlots_cons] at hg
    rcases ih _ _ hg with h1 | ⟨ho, k, n', hk, e⟩
    · rw [bsStep_get] at h1
      by_cases hc : n.ref.root = root ∧ (aGet old root).isSome = true
      · rw [if_pos hc] at h1
        have hn : s = n.ref.slot → n.ref = ⟨s, root⟩ := by
          intro e; rw [e, ← hc.1]
        cases hm : aGet m root with
        | none =>
          rw [hm] at h1; simp only [Option.some.injEq] at h1
          exact Or.inr ⟨hc.2, 0, n, by simp, hn h1.symm⟩
        | some s0 =>
          rw [hm] at h1; simp only [Option.some.injEq] at h1
          by_cases hlt : s0 ≤ n.ref.slot
          · left; congr 1; omega
          · exact Or.inr ⟨hc.2, 0, n, by simp, hn (by omega)⟩
      · rw [if_neg hc] at h1; exact Or.inl h1
    · exact Or.inr ⟨ho, k + 1, n', by simpa using hk, e⟩

/-- A4 (ii): every node of a known root has an entry, at most its slot -/
theorem rebuildBlockSlots_complete (old : List (Root × Nat)) : ∀ (ns : List Node) (m : List (Root × Nat)) (k : Nat) (n : Node),
    ns[k]? = some n → (aGet old n.ref.root).isSome = true →
    ∃ s, aGet (PA.rebuildBlockSlots old ns m) n.ref.root = some s ∧ s ≤ n.ref.slot := by
  intro ns
  induction ns with
  | nil => intro m k n h; simp at h
  | cons n0 rest ih =>
    intro m k n hk ho
    rw [rebuildBlockSlots_cons]
    cases k with
    | zero =>
      simp only [List.getElem?_cons_zero, Option.some.injEq] at hk
      subst hk
      have hs := bsStep_get old n0 m n0.ref.root
      rw [if_pos ⟨rfl, ho⟩] at hs
      cases hm : aGet m n0.ref.root with
      | none =>
        rw [hm] at hs
        exact rebuildBlockSlots_mono old _ rest _ _ hs
      | some s0 =>
        rw [hm] at hs
        obtain ⟨s', h1, h2⟩ := rebuildBlockSlots_mono old _ rest _ _ hs
        exact ⟨s', h1, by omega⟩
    | succ k =>
      simp only [List.getElem?_cons_succ] at hk
      exact ih _ k n hk ho

/-- the first slot of a root is the lowest slot among its nodes -/
theorem rebuildBlockSlots_min (old : List (Root × Nat)) (root : Root) : ∀ (ns : List Node) (m : List (Root × Nat)) (s : Nat),
    aGet (PA.rebuildBlockSlots old ns m) root = some s → (aGet old root).isSome = true →
    ∀ (k : Nat) (n : Node), ns[k]? = some n → n.ref.root = root → s ≤ n.ref.slot := by
  intro ns m s hg ho k n hk hr
  subst hr
  obtain ⟨s', h1, h2⟩ := rebuildBlockSlots_complete old ns m k n hk ho
  rw [hg] at h1; cases h1; exact h2

/-! ## A5: `reparent` -/

/-- what the last loop of `OnPrune` does at position `i`, where the node `node` sits -/
def rpStep (I : List (NodeRef × Idx)) (B : List (Root × Nat)) (i : Nat) (ns : List Node) (node : Node) : List Node :=
  if node.fparent.isSome || node.parentRoot = node.ref.root then ns else
  match aGet B node.parentRoot with
  | none => ns
  | some parentSlot =>
    if parentSlot < node.ref.slot then
      let parentIndex := (aGet I ⟨parentSlot, node.parentRoot⟩).getD 0
      if parentIndex ≥ 0 ∧ parentIndex - 0 < i then
        match ns[parentIndex - 0]? with
        | none => ns
        | some parent =>
          (ns.set i { node with fparent := some parentIndex }).set (parentIndex - 0)
            { parent with weight := parent.weight + node.weight }
      else ns
    else ns

theorem reparent_zero (I : List (NodeRef × Idx)) (B : List (Root × Nat)) (i : Nat) (ns : List Node) :
    PA.reparent 0 I B 0 i ns = ns := by
  rw [PA.reparent]

theorem reparent_none (I : List (NodeRef × Idx)) (B : List (Root × Nat)) (todo i : Nat) (ns : List Node)
    (h : ns[i]? = none) : PA.reparent 0 I B todo i ns = ns := by
  cases todo with
  | zero => exact reparent_zero I B i ns
  | succ t => rw [PA.reparent]; simp only [h]

theorem reparent_succ (I : List (NodeRef × Idx)) (B : List (Root × Nat)) (todo i : Nat) (ns : List Node)
    (node : Node) (h : ns[i]? = some node) :
    PA.reparent 0 I B (todo + 1) i ns = PA.reparent 0 I B todo (i + 1) (rpStep I B i ns node) := by
  rw [PA.reparent]
  simp only [h]
  unfold rpStep
  by_cases c1 : (node.fparent.isSome || decide (node.parentRoot = node.ref.root)) = true
  · rw [if_pos c1, if_pos c1]
  · rw [if_neg c1, if_neg c1]
    cases c2 : aGet B node.parentRoot with
    | none => rfl
    | some ps =>
      simp only
      by_cases c3 : ps < node.ref.slot
      · rw [if_pos c3, if_pos c3]
        by_cases c4 : (aGet I ⟨ps, node.parentRoot⟩).getD 0 ≥ 0 ∧ (aGet I ⟨ps, node.parentRoot⟩).getD 0 - 0 < i
        · rw [if_pos c4, if_pos c4]
          cases c5 : ns[(aGet I ⟨ps, node.parentRoot⟩).getD 0 - 0]? <;> rfl
        · rw [if_neg c4, if_neg c4]
      · rw [if_neg c3, if_neg c3]

/-- a step of the loop changes nothing, or re-hangs the node and hands its weight to the new parent -/
theorem rpStep_cases (I : List (NodeRef × Idx)) (B : List (Root × Nat)) (i : Nat) (ns : List Node) (node : Node) :
    rpStep I B i ns node = ns ∨
    ∃ (ps q : Nat) (parent : Node), node.fparent = none ∧ node.parentRoot ≠ node.ref.root ∧
      aGet B node.parentRoot = some ps ∧ ps < node.ref.slot ∧
      q = (aGet I ⟨ps, node.parentRoot⟩).getD 0 ∧ q < i ∧ ns[q]? = some parent ∧
      rpStep I B i ns node =
        (ns.set i { node with fparent := some q }).set q { parent with weight := parent.weight + node.weight } := by
  unfold rpStep
  by_cases c1 : (node.fparent.isSome || decide (node.parentRoot = node.ref.root)) = true
  · rw [if_pos c1]; exact Or.inl rfl
  · rw [if_neg c1]
    simp only [Bool.or_eq_true, decide_eq_true_eq, not_or, Bool.not_eq_true, Option.isSome_eq_false_iff,
      Option.isNone_iff_eq_none] at c1
    cases c2 : aGet B node.parentRoot with
    | none => exact Or.inl rfl
    | some ps =>
      simp only
      by_cases c3 : ps < node.ref.slot
      · rw [if_pos c3]
        by_cases c4 : (aGet I ⟨ps, node.parentRoot⟩).getD 0 ≥ 0 ∧ (aGet I ⟨ps, node.parentRoot⟩).getD 0 - 0 < i
        · rw [if_pos c4]
          simp only [Nat.sub_zero] at c4 ⊢
          cases c5 : ns[(aGet I ⟨ps, node.parentRoot⟩).getD 0]? with
          | none => exact Or.inl rfl
          | some parent =>
            exact Or.inr ⟨ps, _, parent, c1.1, c1.2, rfl, c3, rfl, c4.2, c5, rfl⟩
        · rw [if_neg c4]; exact Or.inl rfl
      · rw [if_neg c3]; exact Or.inl rfl

/-- what `reparent` may have done to the node `n0` at position `j` (now `n`), weights apart -/
structure RNode (I : List (NodeRef × Idx)) (B : List (Root × Nat)) (j : Nat) (n0 n : Node) : Prop where
  ref : n.ref = n0.ref
  tparent : n.tparent = n0.tparent
  parentRoot : n.parentRoot = n0.parentRoot
  jEpoch : n.jEpoch = n0.jEpoch
  fEpoch : n.fEpoch = n0.fEpoch
  bestChild : n.bestChild = n0.bestChild
  bestDesc : n.bestDesc = n0.bestDesc
  fparent : n.fparent = n0.fparent ∨
    (n0.fparent = none ∧ n0.parentRoot ≠ n0.ref.root ∧ ∃ ps q : Nat, aGet B n0.parentRoot = some ps ∧
      ps < n0.ref.slot ∧ q = (aGet I ⟨ps, n0.parentRoot⟩).getD 0 ∧ q < j ∧ n.fparent = some q)

theorem RNode.refl (I : List (NodeRef × Idx)) (B : List (Root × Nat)) (j : Nat) (n : Node) : RNode I B j n n :=
  ⟨rfl, rfl, rfl, rfl, rfl, rfl, rfl, Or.inl rfl⟩

/-- a later change of the weight only -/
theorem RNode.weight {I : List (NodeRef × Idx)} {B : List (Root × Nat)} {j : Nat} {n0 n : Node}
    (h : RNode I B j n0 n) (w : Int) : RNode I B j n0 { n with weight := w } :=
  ⟨h.ref, h.tparent, h.parentRoot, h.jEpoch, h.fEpoch, h.bestChild, h.bestDesc, h.fparent⟩

/-- a fork-choice parent that was there is left alone -/
theorem RNode.fparent_of_some {I : List (NodeRef × Idx)} {B : List (Root × Nat)} {j : Nat} {n0 n : Node}
    (h : RNode I B j n0 n) (hs : n0.fparent.isSome = true) : n.fparent = n0.fparent := by
  rcases h.fparent with e | ⟨e, _⟩
  · exact e
  · rw [e] at hs; cases hs

/-- the node at position `c` had no fork-choice parent in `ns0` and hangs from `j` in `ns` -/
def rehung (ns0 ns : List Node) (j c : Nat) : Bool := (fpar ns0 c).isNone && (fpar ns c == some j)

/-- the weight `c` had in `ns0` -/
def w0 (ns0 : List Node) (c : Nat) : Int := ((ns0[c]?).map (·.weight)).getD 0

/-- the weights (in `ns0`) of the positions below `k` that were re-hung from `j` -/
def addedW (ns0 ns : List Node) (j : Nat) : Nat → Int
  | 0 => 0
  | k + 1 => addedW ns0 ns j k + (if rehung ns0 ns j k = true then w0 ns0 k else 0)

theorem addedW_eq_sum (ns0 ns : List Node) (j : Nat) : ∀ k,
    addedW ns0 ns j k = (((List.range k).filter (rehung ns0 ns j)).map (w0 ns0)).sum := by
  intro k
  induction k with
  | zero => rfl
  | succ k ih =>
    rw [addedW, ih, List.range_succ, List.filter_append, List.map_append, List.sum_append]
    by_cases hr : rehung ns0 ns j k = true
    · simp [hr]
    · simp [hr]

theorem addedW_congr (ns0 ns ns' : List Node) (j : Nat) : ∀ k, (∀ c, c < k → fpar ns' c = fpar ns c) →
    addedW ns0 ns' j k = addedW ns0 ns j k := by
  intro k
  induction k with
  | zero => intro _; rfl
  | succ k ih =>
    intro hc
    rw [addedW, addedW, ih (fun c hck => hc c (by omega))]
    unfold rehung
    rw [hc k (by omega)]

theorem addedW_zero (ns0 ns : List Node) (j : Nat) (hlt : ∀ c, rehung ns0 ns j c = true → j < c) :
    ∀ k, k ≤ j + 1 → addedW ns0 ns j k = 0 := by
  intro k
  induction k with
  | zero => intro _; rfl
  | succ k ih =>
    intro hk
    rw [addedW, ih (by omega)]
    by_cases hr : rehung ns0 ns j k = true
    · have := hlt k hr; omega
    · rw [if_neg hr]; rfl

/-- beyond the end of the array nothing is added -/
theorem addedW_ge (ns0 ns : List Node) (j : Nat) : ∀ d, addedW ns0 ns j (ns.length + d) = addedW ns0 ns j ns.length := by
  intro d
  induction d with
  | zero => rfl
  | succ d ih =>
    rw [show ns.length + (d + 1) = (ns.length + d) + 1 by omega, addedW, ih]
    have : rehung ns0 ns j (ns.length + d) = false := by
      unfold rehung
      rw [fpar_none_of_ge ns _ (by omega)]; simp
    rw [this]; simp

theorem fpar_set_ne (ns : List Node) (k : Nat) (m : Node) (c : Nat) (hc : c ≠ k) :
    fpar (ns.set k m) c = fpar ns c := by
  unfold fpar
  rw [List.getElem?_set_ne (fun e => hc e.symm)]

theorem fpar_set_self (ns : List Node) (k : Nat) (m : Node) (hk : k < ns.length) :
    fpar (ns.set k m) k = m.fparent := by
  unfold fpar
  rw [List.getElem?_set_self hk]; rfl

theorem fpar_set_same (ns : List Node) (k : Nat) (n m : Node) (hn : ns[k]? = some n) (hf : m.fparent = n.fparent)
    (c : Nat) : fpar (ns.set k m) c = fpar ns c := by
  by_cases hc : c = k
  · subst hc
    rw [fpar_set_self ns c m (List.getElem?_eq_some_iff.1 hn).1, fpar_of_node hn, hf]
  · exact fpar_set_ne ns k m c hc

/-- loop invariant of `reparent`: before position `i` is visited -/
structure RInv (I : List (NodeRef × Idx)) (B : List (Root × Nat)) (ns0 : List Node) (i : Nat) (ns : List Node) : Prop where
  len : ns.length = ns0.length
  node : ∀ (j : Nat) (n0 : Node), ns0[j]? = some n0 → ∃ n, ns[j]? = some n ∧ RNode I B j n0 n ∧
    (i ≤ j → n.fparent = n0.fparent) ∧ n.weight = n0.weight + addedW ns0 ns j i

theorem RInv.init (I : List (NodeRef × Idx)) (B : List (Root × Nat)) (ns0 : List Node) : RInv I B ns0 0 ns0 :=
  ⟨rfl, fun j n0 h => ⟨n0, h, RNode.refl I B j n0, fun _ => rfl, by simp [addedW]⟩⟩

/-- only later positions are re-hung from `j` -/
theorem RInv.rehung_lt {I : List (NodeRef × Idx)} {B : List (Root × Nat)} {ns0 ns : List Node} {i : Nat}
    (h : RInv I B ns0 i ns) (j c : Nat) (hr : rehung ns0 ns j c = true) : j < c := by
  unfold rehung at hr
  simp only [Bool.and_eq_true, Option.isNone_iff_eq_none, beq_iff_eq] at hr
  obtain ⟨h0, h1⟩ := hr
  obtain ⟨n, hn, hf⟩ := fpar_some h1
  have hc : c < ns0.length := by rw [← h.len]; exact (List.getElem?_eq_some_iff.1 hn).1
  obtain ⟨n', hn', hr', _⟩ := h.node c ns0[c] (List.getElem?_eq_getElem hc)
  rw [hn] at hn'; cases hn'
  have hf0 : ns0[c].fparent = none := by
    rw [← fpar_of_node (List.getElem?_eq_getElem hc)]; exact h0
  rcases hr'.fparent with e | ⟨_, _, ps, q, _, _, _, hq, e⟩
  · rw [e, hf0] at hf; cases hf
  · rw [e] at hf; cases hf; exact hq

/-- once the end of the array is reached the invariant holds for every later position -/
theorem RInv.beyond {I : List (NodeRef × Idx)} {B : List (Root × Nat)} {ns0 ns : List Node} {i : Nat}
    (h : RInv I B ns0 i ns) (hi : ns.length ≤ i) (d : Nat) : RInv I B ns0 (i + d) ns := by
  refine ⟨h.len, fun j n0 hj => ?_⟩
  obtain ⟨n, h1, h2, h3, h4⟩ := h.node j n0 hj
  have hjl : j < ns.length := (List.getElem?_eq_some_iff.1 h1).1
  refine ⟨n, h1, h2, fun hle => by omega, ?_⟩
  rw [h4]
  have e1 := addedW_ge ns0 ns j (i - ns.length)
  have e2 := addedW_ge ns0 ns j (i + d - ns.length)
  rw [show ns.length + (i - ns.length) = i by omega] at e1
  rw [show ns.length + (i + d - ns.length) = i + d by omega] at e2
  rw [e1, e2]

theorem RInv.step {I : List (NodeRef × Idx)} {B : List (Root × Nat)} {ns0 ns : List Node} {i : Nat}
    (h : RInv I B ns0 i ns) (node : Node) (hn : ns[i]? = some node) : RInv I B ns0 (i + 1) (rpStep I B i ns node) := by
  have hil : i < ns.length := (List.getElem?_eq_some_iff.1 hn).1
  have hi0 : i < ns0.length := by rw [← h.len]; exact hil
  obtain ⟨ni, hni, hri, hfi, hwi⟩ := h.node i ns0[i] (List.getElem?_eq_getElem hi0)
  rw [hn] at hni; cases hni
  have hfpi : fpar ns i = fpar ns0 i := by
    rw [fpar_of_node hn, fpar_of_node (List.getElem?_eq_getElem hi0)]; exact hfi (Nat.le_refl _)
  rcases rpStep_cases I B i ns node with e | ⟨ps, q, parent, f1, f2, f3, f4, f5, f6, f7, e⟩
  · rw [e]
    refine ⟨h.len, fun j n0 hj => ?_⟩
    obtain ⟨n, h1, h2, h3, h4⟩ := h.node j n0 hj
    refine ⟨n, h1, h2, fun hle => h3 (by omega), ?_⟩
    rw [h4, addedW]
    have : rehung ns0 ns j i = false := by
      unfold rehung
      rw [hfpi]
      cases fpar ns0 i <;> simp
    rw [this]; simp
  · rw [e]
    have hqi : q ≠ i := by omega
    -- the fork-choice parents after the step
    have hfp : ∀ c, c ≠ i → fpar ((ns.set i { node with fparent := some q }).set q
        { parent with weight := parent.weight + node.weight }) c = fpar ns c := by
      intro c hc
      refine (fpar_set_same _ q parent { parent with weight := parent.weight + node.weight } ?_ rfl c).trans
        (fpar_set_ne ns i _ c hc)
      rw [List.getElem?_set_ne (fun e => hqi e.symm)]; exact f7
    have hfpi' : fpar ((ns.set i { node with fparent := some q }).set q
        { parent with weight := parent.weight + node.weight }) i = some q := by
      rw [fpar_set_ne _ q _ i (fun e => hqi e.symm), fpar_set_self ns i _ hil]
    have hf0 : fpar ns0 i = none := by rw [← hfpi, fpar_of_node hn]; exact f1
    have hadd : ∀ j, addedW ns0 ((ns.set i { node with fparent := some q }).set q
        { parent with weight := parent.weight + node.weight }) j (i + 1) =
        addedW ns0 ns j i + (if q = j then ns0[i].weight else 0) := by
      intro j
      rw [addedW, addedW_congr ns0 ns _ j i (fun c hc => hfp c (by omega))]
      unfold rehung
      rw [hf0, hfpi']
      have hw : w0 ns0 i = ns0[i].weight := by
        unfold w0; rw [List.getElem?_eq_getElem hi0]; rfl
      rw [hw]
      by_cases hqj : q = j
      · subst hqj; simp
      · simp [hqj]
    have hwnode : node.weight = ns0[i].weight := by
      rw [hwi, addedW_zero ns0 ns i (h.rehung_lt i) i (by omega)]; simp
    refine ⟨by simp [h.len], fun j n0 hj => ?_⟩
    obtain ⟨n, h1, h2, h3, h4⟩ := h.node j n0 hj
    have hjl : j < ns.length := (List.getElem?_eq_some_iff.1 h1).1
    by_cases hjq : j = q
    · subst hjq
      rw [h1] at f7; cases f7
      refine ⟨{ parent with weight := parent.weight + node.weight }, ?_, h2.weight _, fun hle => by omega, ?_⟩
      · rw [List.getElem?_set_self (by simp; exact hjl)]
      · show parent.weight + node.weight = _
        rw [hadd, if_pos rfl, h4, hwnode]; omega
    · rw [List.getElem?_set_ne (fun e => hjq e.symm)]
      by_cases hji : j = i
      · subst hji
        rw [h1] at hn; cases hn
        rw [List.getElem?_eq_getElem hi0] at hj; cases hj
        refine ⟨{ node with fparent := some q }, List.getElem?_set_self hjl, ?_, fun hle => by omega, ?_⟩
        · have hf0' : ns0[j].fparent = none := by rw [← h3 (Nat.le_refl _)]; exact f1
          exact ⟨h2.ref, h2.tparent, h2.parentRoot, h2.jEpoch, h2.fEpoch, h2.bestChild, h2.bestDesc,
            Or.inr ⟨hf0', by rw [← h2.parentRoot, ← h2.ref]; exact f2, ps, q,
              by rw [← h2.parentRoot]; exact f3, by rw [← h2.ref]; exact f4,
              by rw [← h2.parentRoot]; exact f5, f6, rfl⟩⟩
        · show node.weight = _
          rw [hadd, if_neg (fun e => hjq e.symm), h4]; simp
      · rw [List.getElem?_set_ne (fun e => hji e.symm)]
        refine ⟨n, h1, h2, fun hle => h3 (by omega), ?_⟩
        rw [hadd, if_neg (fun e => hjq e.symm), h4]; simp

/-- the outcome of the loop, whatever is left to do -/
theorem reparent_inv (I : List (NodeRef × Idx)) (B : List (Root × Nat)) (ns0 : List Node) :
    ∀ (todo i : Nat) (ns : List Node), RInv I B ns0 i ns → RInv I B ns0 (i + todo) (PA.reparent 0 I B todo i ns) := by
  intro todo
  induction todo with
  | zero => intro i ns h; rw [reparent_zero]; exact h
  | succ t ih =>
    intro i ns h
    cases hn : ns[i]? with
    | none =>
      rw [reparent_none _ _ _ _ _ hn]
      exact h.beyond (by simpa using hn) _
    | some node =>
      rw [reparent_succ _ _ _ _ _ node hn, show i + (t + 1) = i + 1 + t by omega]
      exact ih (i + 1) _ (h.step node hn)

/-- A5: `reparent` keeps the length and everything about a node but `fparent` and `weight`; a fork-choice
parent is only ever filled in where there was none, with a smaller position found through the two maps; the
weight of a node grows by the weights of the nodes re-hung from it -/
theorem reparent_spec (I : List (NodeRef × Idx)) (B : List (Root × Nat)) (ns0 : List Node) (todo : Nat) :
    (PA.reparent 0 I B todo 0 ns0).length = ns0.length ∧
    ∀ (j : Nat) (n0 : Node), ns0[j]? = some n0 →
      ∃ n, (PA.reparent 0 I B todo 0 ns0)[j]? = some n ∧ RNode I B j n0 n := by
  have h := reparent_inv I B ns0 todo 0 ns0 (RInv.init I B ns0)
  refine ⟨h.len, fun j n0 hj => ?_⟩
  obtain ⟨n, h1, h2, _⟩ := h.node j n0 hj
  exact ⟨n, h1, h2⟩

/-- … and conversely every node of the outcome comes from the node at its position -/
theorem reparent_spec_inv (I : List (NodeRef × Idx)) (B : List (Root × Nat)) (ns0 : List Node) (todo : Nat)
    {j : Nat} {n : Node} (hn : (PA.reparent 0 I B todo 0 ns0)[j]? = some n) :
    ∃ n0, ns0[j]? = some n0 ∧ RNode I B j n0 n := by
  obtain ⟨hl, hnode⟩ := reparent_spec I B ns0 todo
  have hj : j < ns0.length := by rw [← hl]; exact (List.getElem?_eq_some_iff.1 hn).1
  obtain ⟨n', h1, h2⟩ := hnode j ns0[j] (List.getElem?_eq_getElem hj)
  rw [hn] at h1; cases h1
  exact ⟨ns0[j], List.getElem?_eq_getElem hj, h2⟩

/-- A5, weights: after the whole loop a node weighs what it weighed plus what the nodes re-hung from it weighed -/
theorem reparent_weight (I : List (NodeRef × Idx)) (B : List (Root × Nat)) (ns0 : List Node)
    {j : Nat} {n0 n : Node} (hn0 : ns0[j]? = some n0) (hn : (PA.reparent 0 I B ns0.length 0 ns0)[j]? = some n) :
    n.weight = n0.weight + addedW ns0 (PA.reparent 0 I B ns0.length 0 ns0) j ns0.length := by
  have h := reparent_inv I B ns0 ns0.length 0 ns0 (RInv.init I B ns0)
  obtain ⟨n', h1, _, _, h4⟩ := h.node j n0 hn0
  rw [hn] at h1; cases h1
  rw [Nat.zero_add] at h4
  exact h4

/-- A5, the new parent: if the index map is sound for the references of `ns0` and covers the entries of
`blockSlots`, a re-hung node hangs from the node of its parent root at that root's first slot -/
theorem reparent_parent (I : List (NodeRef × Idx)) (B : List (Root × Nat)) (ns0 : List Node) (todo : Nat)
    (hI : ∀ (r : NodeRef) (j : Nat), aGet I r = some j → ∃ n, ns0[j]? = some n ∧ n.ref = r)
    (hB : ∀ root s, aGet B root = some s → (aGet I ⟨s, root⟩).isSome = true)
    {j : Nat} {n0 n : Node} (hn0 : ns0[j]? = some n0) (hn : (PA.reparent 0 I B todo 0 ns0)[j]? = some n)
    (hf0 : n0.fparent = none) {q : Nat} (hq : n.fparent = some q) :
    ∃ ps parent, n0.parentRoot ≠ n0.ref.root ∧ aGet B n0.parentRoot = some ps ∧ ps < n0.ref.slot ∧ q < j ∧
      aGet I ⟨ps, n0.parentRoot⟩ = some q ∧ (PA.reparent 0 I B todo 0 ns0)[q]? = some parent ∧
      parent.ref = ⟨ps, n0.parentRoot⟩ := by
  obtain ⟨n', hn', hr⟩ := (reparent_spec I B ns0 todo).2 j n0 hn0
  rw [hn] at hn'; cases hn'
  rcases hr.fparent with e | ⟨_, hne, ps, q', hb, hps, hq', hlt, e⟩
  · rw [e, hf0] at hq; cases hq
  · rw [e] at hq; cases hq
    obtain ⟨k, hk⟩ := Option.isSome_iff_exists.1 (hB _ _ hb)
    rw [hk] at hq'
    simp only [Option.getD_some] at hq'
    subst hq'
    obtain ⟨m, hm, hmr⟩ := hI _ _ hk
    obtain ⟨parent, hp, hrp⟩ := (reparent_spec I B ns0 todo).2 q m hm
    exact ⟨ps, parent, hne, hb, hps, hlt, hk, hp, by rw [hrp.ref, hmr]⟩

/-! ## B: the shapes of the outcome of `OnPrune` -/

theorem sinkCall_frame (pr : PA) (ref : NodeRef) (c : Bool) :
    (pr.sinkCall ref c).1 = { pr with sinkLog := (pr.sinkCall ref c).1.sinkLog } := rfl

/-- the sink loop only writes `sinkLog` -/
theorem sinkLoop_frame : ∀ (t : List (NodeRef × Bool × Bool)) (pr : PA),
    (PA.sinkLoop t pr).1 = { pr with sinkLog := (PA.sinkLoop t pr).1.sinkLog } := by
  intro t
  induction t with
  | nil => intro pr; rfl
  | cons x rest ih =>
    intro pr
    obtain ⟨ref, keep, canonical⟩ := x
    rw [PA.sinkLoop]
    split
    · exact ih pr
    · split
      · exact ih pr
      · split
        · rename_i pr' hc
          have e : pr' = (pr.sinkCall ref canonical).1 := by rw [hc]
          have := ih pr'
          rw [this, e, sinkCall_frame]
        · rename_i pr' hc
          have e : pr' = (pr.sinkCall ref canonical).1 := by rw [hc]
          show pr' = { pr with sinkLog := pr'.sinkLog }
          rw [e, sinkCall_frame]

/-- without a sink the loop does nothing -/
theorem sinkLoop_absent : ∀ (t : List (NodeRef × Bool × Bool)) (pr : PA), pr.sink = .absent →
    PA.sinkLoop t pr = (pr, true) := by
  intro t
  induction t with
  | nil => intro pr _; rfl
  | cons x rest ih =>
    intro pr hs
    obtain ⟨ref, keep, canonical⟩ := x
    rw [PA.sinkLoop]
    split
    · exact ih pr hs
    · first | exact ih pr hs | (rw [if_pos hs]; exact ih pr hs)

/-- the sink loop only appends to `sinkLog` -/
theorem sinkLoop_log : ∀ (t : List (NodeRef × Bool × Bool)) (pr : PA),
    ∃ t', (PA.sinkLoop t pr).1.sinkLog = pr.sinkLog ++ t' := by
  intro t
  induction t with
  | nil => intro pr; exact ⟨[], by simp [PA.sinkLoop]⟩
  | cons x rest ih =>
    intro pr
    obtain ⟨ref, keep, canonical⟩ := x
    rw [PA.sinkLoop]
    split
    · exact ih pr
    · split
      · exact ih pr
      · split
        · rename_i pr' hc
          have e : pr' = (pr.sinkCall ref canonical).1 := by rw [hc]
          obtain ⟨t', ht'⟩ := ih pr'
          refine ⟨(ref, canonical, (pr.sinkCall ref canonical).2) :: t', ?_⟩
          rw [ht', e]; simp [PA.sinkCall]
        · rename_i pr' hc
          have e : pr' = (pr.sinkCall ref canonical).1 := by rw [hc]
          refine ⟨[(ref, canonical, (pr.sinkCall ref canonical).2)], ?_⟩
          show pr'.sinkLog = _
          rw [e]; rfl

/-- the calls `OnPrune` makes to the sink: reference, stays?, canonical? of every node -/
def triples (pr : PA) (a slot : Nat) (an : Node) : List (NodeRef × Bool × Bool) :=
  (pr.nodes.zip ((PA.keepFlags 0 a slot pr.nodes []).zip
    (PA.canonFlags 0 pr.nodes pr.nodes.length (PA.relPos 0 an.tparent a) (List.replicate pr.nodes.length false)))).map
    (fun x => (x.1.ref, x.2.1, x.2.2))

/-- the array after an effective prune with flags `keep`, the sink log being `l` -/
def pruned (pr : PA) (keep : List Bool) (l : List (NodeRef × Bool × Bool)) : PA :=
  { pr with
    sinkLog := l
    nodes := PA.reparent 0 (PA.rebuildIndices 0 0 (PA.compact 0 keep 0 pr.nodes) [])
      (PA.rebuildBlockSlots pr.blockSlots (PA.compact 0 keep 0 pr.nodes) [])
      (PA.compact 0 keep 0 pr.nodes).length 0 (PA.compact 0 keep 0 pr.nodes)
    indices := PA.rebuildIndices 0 0 (PA.compact 0 keep 0 pr.nodes) []
    blockSlots := PA.rebuildBlockSlots pr.blockSlots (PA.compact 0 keep 0 pr.nodes) []
    updated := false }

/-- `OnPrune` on a well-formed array whose anchor sits at position `a`, as one equation -/
theorem onPrune_eq (pr : PA) (h : WF pr) (root : Root) (slot a : Nat)
    (ha : aGet pr.indices ⟨slot, root⟩ = some a) :
    ∃ an, pr.nodes[a]? = some an ∧ an.ref = ⟨slot, root⟩ ∧
      pr.onPrune root slot =
        if (PA.sinkLoop (triples pr a slot an) pr).2 = false then
          .err { pr with sinkLog := (PA.sinkLoop (triples pr a slot an) pr).1.sinkLog }
        else if (PA.keepFlags 0 a slot pr.nodes []).count false = 0 then
          .ok { pr with sinkLog := (PA.sinkLoop (triples pr a slot an) pr).1.sinkLog } ()
        else .ok (pruned pr (PA.keepFlags 0 a slot pr.nodes []) (PA.sinkLoop (triples pr a slot an) pr).1.sinkLog) () := by
  obtain ⟨an, han, hr⟩ := h.idx_sound _ _ ha
  refine ⟨an, han, hr, ?_⟩
  have hg : pr.getNode a = some an := by rw [getNode_eq h]; exact han
  have hoff := h.off
  obtain ⟨sink, sinkLog, offset, jE, fE, nodes, indices, blockSlots, updated⟩ := pr
  simp only at hoff han ha hg
  subst hoff
  unfold PA.onPrune
  simp only [ha, hg, Nat.sub_zero]
  have hfr := sinkLoop_frame (triples ⟨sink, sinkLog, 0, jE, fE, nodes, indices, blockSlots, updated⟩ a slot an)
    ⟨sink, sinkLog, 0, jE, fE, nodes, indices, blockSlots, updated⟩
  unfold triples at hfr ⊢
  simp only at hfr ⊢
  generalize PA.sinkLoop _ _ = out at hfr ⊢
  obtain ⟨pr1, b⟩ := out
  obtain ⟨s1, l1, o1, j1, f1, n1, i1, b1, u1⟩ := pr1
  simp only [PA.mk.injEq] at hfr
  obtain ⟨rfl, -, rfl, rfl, rfl, rfl, rfl, rfl, rfl⟩ := hfr
  cases b with
  | false => rfl
  | true => rfl

@[simp] theorem pruned_offset (pr : PA) (keep : List Bool) (l : List (NodeRef × Bool × Bool)) :
    (pruned pr keep l).offset = pr.offset := rfl
@[simp] theorem pruned_sink (pr : PA) (keep : List Bool) (l : List (NodeRef × Bool × Bool)) :
    (pruned pr keep l).sink = pr.sink := rfl
@[simp] theorem pruned_sinkLog (pr : PA) (keep : List Bool) (l : List (NodeRef × Bool × Bool)) :
    (pruned pr keep l).sinkLog = l := rfl
@[simp] theorem pruned_jEpoch (pr : PA) (keep : List Bool) (l : List (NodeRef × Bool × Bool)) :
    (pruned pr keep l).jEpoch = pr.jEpoch := rfl
@[simp] theorem pruned_fEpoch (pr : PA) (keep : List Bool) (l : List (NodeRef × Bool × Bool)) :
    (pruned pr keep l).fEpoch = pr.fEpoch := rfl
@[simp] theorem pruned_updated (pr : PA) (keep : List Bool) (l : List (NodeRef × Bool × Bool)) :
    (pruned pr keep l).updated = false := rfl
theorem pruned_indices (pr : PA) (keep : List Bool) (l : List (NodeRef × Bool × Bool)) :
    (pruned pr keep l).indices = PA.rebuildIndices 0 0 (PA.compact 0 keep 0 pr.nodes) [] := rfl
theorem pruned_blockSlots (pr : PA) (keep : List Bool) (l : List (NodeRef × Bool × Bool)) :
    (pruned pr keep l).blockSlots = PA.rebuildBlockSlots pr.blockSlots (PA.compact 0 keep 0 pr.nodes) [] := rfl
theorem pruned_nodes (pr : PA) (keep : List Bool) (l : List (NodeRef × Bool × Bool)) :
    (pruned pr keep l).nodes =
      PA.reparent 0 (pruned pr keep l).indices (pruned pr keep l).blockSlots (PA.compact 0 keep 0 pr.nodes).length 0
        (PA.compact 0 keep 0 pr.nodes) := rfl

/-! ## B: an effective prune keeps the array well formed -/

/-- the nodes that stay have pairwise distinct references -/
theorem compact_distinct {pr : PA} (h : WF pr) (keep : List Bool) (hl : keep.length = pr.nodes.length) :
    DistinctRefs (PA.compact 0 keep 0 pr.nodes) := by
  intro j j' m m' hm hm' e
  obtain ⟨i, n, hn, _, rfl, rfl⟩ := compact_inv keep pr.nodes hl hm
  obtain ⟨i', n', hn', _, rfl, rfl⟩ := compact_inv keep pr.nodes hl hm'
  simp only [renum_ref] at e
  have h1 := h.idx_complete i n hn
  have h2 := h.idx_complete i' n' hn'
  rw [e, h2] at h1
  cases h1; rfl

theorem pruned_length {pr : PA} (keep : List Bool) (hl : keep.length = pr.nodes.length)
    (l : List (NodeRef × Bool × Bool)) : (pruned pr keep l).nodes.length = keep.count true := by
  rw [pruned_nodes, (reparent_spec _ _ _ _).1, compact_length keep pr.nodes hl]

/-- every node of the pruned array is a node that stayed, renumbered and possibly re-hung -/
theorem pruned_node_inv {pr : PA} (keep : List Bool) (hl : keep.length = pr.nodes.length)
    (l : List (NodeRef × Bool × Bool)) {j : Nat} {n : Node} (hn : (pruned pr keep l).nodes[j]? = some n) :
    ∃ i0 n0, pr.nodes[i0]? = some n0 ∧ keep.getD i0 false = true ∧ j = PA.newIndex 0 keep i0 ∧
      RNode (pruned pr keep l).indices (pruned pr keep l).blockSlots j (renum keep n0) n := by
  rw [pruned_nodes] at hn
  obtain ⟨m, hm, hr⟩ := reparent_spec_inv _ _ _ _ hn
  obtain ⟨i0, n0, hn0, hk, e, rfl⟩ := compact_inv keep pr.nodes hl hm
  exact ⟨i0, n0, hn0, hk, e, hr⟩

/-- where a node that stays ends up -/
theorem pruned_node_of {pr : PA} (keep : List Bool) (l : List (NodeRef × Bool × Bool)) {i0 : Nat} {n0 : Node}
    (hn0 : pr.nodes[i0]? = some n0) (hk : keep.getD i0 false = true) :
    ∃ n, (pruned pr keep l).nodes[PA.newIndex 0 keep i0]? = some n ∧
      RNode (pruned pr keep l).indices (pruned pr keep l).blockSlots (PA.newIndex 0 keep i0) (renum keep n0) n := by
  rw [pruned_nodes]
  exact (reparent_spec _ _ _ _).2 _ _ (compact_get keep pr.nodes hn0 hk)

theorem pruned_tpar_lt {pr : PA} (h : WF pr) (keep : List Bool) (hl : keep.length = pr.nodes.length)
    (l : List (NodeRef × Bool × Bool)) (i : Nat) (n : Node) (p : Nat)
    (hn : (pruned pr keep l).nodes[i]? = some n) (hp : n.tparent = some p) : p < i := by
  obtain ⟨i0, n0, hn0, hk, rfl, hr⟩ := pruned_node_inv keep hl l hn
  rw [hr.tparent, renum_tparent] at hp
  obtain ⟨x, hx, hkx, rfl⟩ := (renumber_some_iff keep _ p).1 hp
  exact newIndex_lt keep hkx (h.tpar_lt i0 n0 x hn0 hx)

theorem pruned_fpar_lt {pr : PA} (h : WF pr) (keep : List Bool) (hl : keep.length = pr.nodes.length)
    (l : List (NodeRef × Bool × Bool)) (i : Nat) (n : Node) (p : Nat)
    (hn : (pruned pr keep l).nodes[i]? = some n) (hp : n.fparent = some p) : p < i := by
  obtain ⟨i0, n0, hn0, hk, rfl, hr⟩ := pruned_node_inv keep hl l hn
  rcases hr.fparent with e | ⟨_, _, ps, q, _, _, _, hq, e⟩
  · rw [e, renum_fparent] at hp
    obtain ⟨x, hx, hkx, rfl⟩ := (renumber_some_iff keep _ p).1 hp
    exact newIndex_lt keep hkx (h.fpar_lt i0 n0 x hn0 hx)
  · rw [e] at hp; cases hp; exact hq

theorem pruned_fpar_lt2 {pr : PA} (h : WF pr) (keep : List Bool) (hl : keep.length = pr.nodes.length)
    (l : List (NodeRef × Bool × Bool)) (j p : Nat) (hp : fpar (pruned pr keep l).nodes j = some p) : p < j := by
  obtain ⟨n, hn, hf⟩ := fpar_some hp
  exact pruned_fpar_lt h keep hl l j n p hn hf

/-- a fork-choice link between two nodes that stay survives the prune -/
theorem pruned_fpar {pr : PA} (keep : List Bool) (l : List (NodeRef × Bool × Bool)) {c0 i0 : Nat}
    (hc : keep.getD c0 false = true) (hi : keep.getD i0 false = true) (hf : fpar pr.nodes c0 = some i0) :
    fpar (pruned pr keep l).nodes (PA.newIndex 0 keep c0) = some (PA.newIndex 0 keep i0) := by
  obtain ⟨nc, hnc, hfc⟩ := fpar_some hf
  obtain ⟨n, hn, hr⟩ := pruned_node_of keep l hnc hc
  rw [fpar_of_node hn]
  have e : (renum keep nc).fparent = some (PA.newIndex 0 keep i0) := by
    rw [renum_fparent, hfc]; exact renumber_kept keep hi
  rcases hr.fparent with e' | ⟨e', _⟩
  · rw [e', e]
  · rw [e] at e'; cases e'

/-- with the fork-choice children of what stays staying, whole fork-choice paths stay -/
theorem pruned_reach {pr : PA} (keep : List Bool) (l : List (NodeRef × Bool × Bool))
    (hclosed : ∀ i c, keep.getD i false = true → fpar pr.nodes c = some i → keep.getD c false = true)
    {i0 d0 : Nat} (hi : keep.getD i0 false = true) (hr : PReach (fpar pr.nodes) i0 d0) :
    keep.getD d0 false = true ∧
      PReach (fpar (pruned pr keep l).nodes) (PA.newIndex 0 keep i0) (PA.newIndex 0 keep d0) := by
  induction hr with
  | refl => exact ⟨hi, .refl⟩
  | @step j p hp _ ih =>
    have hj := hclosed p j ih.1 hp
    exact ⟨hj, .step (pruned_fpar keep l hj ih.1 hp) ih.2⟩

/-- B: the array after an effective prune is well formed, provided the fork-choice children of the nodes that
stay stay -/
theorem wf_pruned {pr : PA} (h : WF pr) (keep : List Bool) (hl : keep.length = pr.nodes.length)
    (hclosed : ∀ i c, keep.getD i false = true → fpar pr.nodes c = some i → keep.getD c false = true)
    (l : List (NodeRef × Bool × Bool)) : WF (pruned pr keep l) := by
  have hd := compact_distinct h keep hl
  have hlen : (pruned pr keep l).nodes.length = (PA.compact 0 keep 0 pr.nodes).length := by
    rw [pruned_nodes]; exact (reparent_spec _ _ _ _).1
  refine ⟨h.off, ?_, ?_, ?_, pruned_tpar_lt h keep hl l, pruned_fpar_lt h keep hl l, ?_, ?_, ?_, ?_⟩
  · -- len
    rw [hlen, pruned_indices, rebuildIndices_length0 _ hd]
  · -- idx_sound
    intro ref i hi
    rw [pruned_indices] at hi
    obtain ⟨m, hm, e⟩ := (rebuildIndices_iff _ hd ref i).1 hi
    obtain ⟨n, hn, hr⟩ := (reparent_spec (pruned pr keep l).indices (pruned pr keep l).blockSlots _
      (PA.compact 0 keep 0 pr.nodes).length).2 i m hm
    exact ⟨n, hn, by rw [hr.ref, e]⟩
  · -- idx_complete
    intro i n hn
    rw [pruned_nodes] at hn
    obtain ⟨m, hm, hr⟩ := reparent_spec_inv _ _ _ _ hn
    rw [pruned_indices]
    exact (rebuildIndices_iff _ hd n.ref i).2 ⟨m, hm, hr.ref.symm⟩
  · -- bc_child
    intro i n c hn hc
    obtain ⟨i0, n0, hn0, hk, rfl, hr⟩ := pruned_node_inv keep hl l hn
    rw [hr.bestChild, renum_bestChild] at hc
    obtain ⟨c0, hc0, hkc, rfl⟩ := (renumber_some_iff keep _ c).1 hc
    exact pruned_fpar keep l hkc hk (h.bc_child i0 n0 c0 hn0 hc0)
  · -- bd_desc
    intro i n d hn hdd
    obtain ⟨i0, n0, hn0, hk, rfl, hr⟩ := pruned_node_inv keep hl l hn
    rw [hr.bestDesc, renum_bestDesc] at hdd
    obtain ⟨d0, hd0, hkd, rfl⟩ := (renumber_some_iff keep _ d).1 hdd
    obtain ⟨_, hne, hanc⟩ := h.bd_desc i0 n0 d0 hn0 hd0
    refine ⟨?_, fun e => hne (newIndex_inj keep hk hkd e), ?_⟩
    · rw [pruned_length keep hl l]; exact newIndex_lt_count keep hkd
    · exact (anc_iff_reach _ (pruned_fpar_lt2 h keep hl l) _ _).2
        (pruned_reach keep l hclosed hk ((anc_iff_reach _ h.fpar_lt2 i0 d0).1 hanc)).2
  · -- bc_bd
    intro i n hn
    obtain ⟨i0, n0, hn0, hk, rfl, hr⟩ := pruned_node_inv keep hl l hn
    rw [hr.bestChild, hr.bestDesc, renum_bestChild, renum_bestDesc]
    have hbb := h.bc_bd i0 n0 hn0
    cases hc : n0.bestChild with
    | none =>
      rw [hc] at hbb
      cases hdd : n0.bestDesc with
      | none => rfl
      | some d0 => rw [hdd] at hbb; simp at hbb
    | some c0 =>
      rw [hc] at hbb
      cases hdd : n0.bestDesc with
      | none => rw [hdd] at hbb; simp at hbb
      | some d0 =>
        have hkc := hclosed i0 c0 hk (h.bc_child i0 n0 c0 hn0 hc)
        have hkd := (pruned_reach keep l hclosed hk
          ((anc_iff_reach _ h.fpar_lt2 i0 d0).1 (h.bd_desc i0 n0 d0 hn0 hdd).2.2)).1
        rw [renumber_kept keep hkc, renumber_kept keep hkd]; simp
  · -- bs_node
    intro root s hs
    rw [pruned_blockSlots] at hs
    rcases rebuildBlockSlots_sound _ root _ [] s hs with e | ⟨_, k, m, hm, e⟩
    · cases e
    · rw [pruned_indices, (rebuildIndices_iff _ hd ⟨s, root⟩ k).2 ⟨m, hm, e⟩]; rfl

/-! ## the pruned array read through the old one -/

/-- the rebuilt index map: the old index, renumbered, of a node that stays -/
theorem pruned_indices_iff {pr : PA} (h : WF pr) (keep : List Bool) (hl : keep.length = pr.nodes.length)
    (l : List (NodeRef × Bool × Bool)) (r : NodeRef) (j : Nat) :
    aGet (pruned pr keep l).indices r = some j ↔
      ∃ i, aGet pr.indices r = some i ∧ keep.getD i false = true ∧ j = PA.newIndex 0 keep i := by
  have hd := compact_distinct h keep hl
  rw [pruned_indices, rebuildIndices_iff _ hd r j]
  constructor
  · rintro ⟨m, hm, e⟩
    obtain ⟨i0, n0, hn0, hk, ej, rfl⟩ := compact_inv keep pr.nodes hl hm
    rw [renum_ref] at e
    exact ⟨i0, by rw [← e]; exact h.idx_complete i0 n0 hn0, hk, ej⟩
  · rintro ⟨i, hi, hk, rfl⟩
    obtain ⟨n, hn, e⟩ := h.idx_sound r i hi
    exact ⟨renum keep n, compact_get keep pr.nodes hn hk, by rw [renum_ref]; exact e⟩

theorem pruned_indices_get {pr : PA} (h : WF pr) (keep : List Bool) (hl : keep.length = pr.nodes.length)
    (l : List (NodeRef × Bool × Bool)) (r : NodeRef) :
    aGet (pruned pr keep l).indices r =
      match aGet pr.indices r with
      | some i => if keep.getD i false = true then some (PA.newIndex 0 keep i) else none
      | none => none := by
  cases hres : aGet (pruned pr keep l).indices r with
  | some j =>
    obtain ⟨i, hi, hk, rfl⟩ := (pruned_indices_iff h keep hl l r j).1 hres
    rw [hi]; simp only; rw [if_pos hk]
  | none =>
    cases hi : aGet pr.indices r with
    | none => rfl
    | some i =>
      simp only
      by_cases hk : keep.getD i false = true
      · have := (pruned_indices_iff h keep hl l r _).2 ⟨i, hi, hk, rfl⟩
        rw [hres] at this; cases this
      · rw [if_neg hk]

/-- the rebuilt `blockSlots`: an entry is the slot of a node that stays, of a root that was known -/
theorem pruned_blockSlots_sound {pr : PA} (keep : List Bool) (hl : keep.length = pr.nodes.length)
    (l : List (NodeRef × Bool × Bool)) (root : Root) (s : Nat)
    (hs : aGet (pruned pr keep l).blockSlots root = some s) :
    (aGet pr.blockSlots root).isSome = true ∧
      ∃ (i : Nat) (n : Node), pr.nodes[i]? = some n ∧ keep.getD i false = true ∧ n.ref = ⟨s, root⟩ := by
  rw [pruned_blockSlots] at hs
  rcases rebuildBlockSlots_sound _ root _ [] s hs with e | ⟨ho, k, m, hm, e⟩
  · cases e
  · obtain ⟨i0, n0, hn0, hk, _, rfl⟩ := compact_inv keep pr.nodes hl hm
    exact ⟨ho, i0, n0, hn0, hk, by rw [← e, renum_ref]⟩

/-- … and it is the lowest slot among the nodes of that root that stay -/
theorem pruned_blockSlots_complete {pr : PA} (keep : List Bool) (l : List (NodeRef × Bool × Bool))
    {i : Nat} {n : Node} (hn : pr.nodes[i]? = some n) (hk : keep.getD i false = true)
    (ho : (aGet pr.blockSlots n.ref.root).isSome = true) :
    ∃ s, aGet (pruned pr keep l).blockSlots n.ref.root = some s ∧ s ≤ n.ref.slot := by
  rw [pruned_blockSlots]
  exact rebuildBlockSlots_complete pr.blockSlots _ [] _ (renum keep n) (compact_get keep pr.nodes hn hk) ho

/-- a node that stays: everything but `fparent` and `weight` -/
theorem pruned_node_skel {pr : PA} (keep : List Bool) (l : List (NodeRef × Bool × Bool)) {i0 : Nat} {n0 n : Node}
    (hn0 : pr.nodes[i0]? = some n0) (hk : keep.getD i0 false = true)
    (hn : (pruned pr keep l).nodes[PA.newIndex 0 keep i0]? = some n) :
    n.ref = n0.ref ∧ n.parentRoot = n0.parentRoot ∧ n.jEpoch = n0.jEpoch ∧ n.fEpoch = n0.fEpoch ∧
    n.tparent = PA.renumber 0 keep n0.tparent ∧ n.bestChild = PA.renumber 0 keep n0.bestChild ∧
    n.bestDesc = PA.renumber 0 keep n0.bestDesc := by
  obtain ⟨n', hn', hr⟩ := pruned_node_of keep l hn0 hk
  rw [hn] at hn'; cases hn'
  exact ⟨hr.ref, hr.parentRoot, hr.jEpoch, hr.fEpoch, hr.tparent, hr.bestChild, hr.bestDesc⟩

/-- a node that stays: its fork-choice parent is the old one renumbered if that stays; otherwise there is none, or
the node was re-hung from the first node left of its parent root -/
theorem pruned_node_fparent {pr : PA} (h : WF pr) (keep : List Bool) (hl : keep.length = pr.nodes.length)
    (l : List (NodeRef × Bool × Bool)) {i0 : Nat} {n0 n : Node}
    (hn0 : pr.nodes[i0]? = some n0) (hk : keep.getD i0 false = true)
    (hn : (pruned pr keep l).nodes[PA.newIndex 0 keep i0]? = some n) :
    (∃ p : Nat, n0.fparent = some p ∧ keep.getD p false = true ∧ n.fparent = some (PA.newIndex 0 keep p)) ∨
    (PA.renumber 0 keep n0.fparent = none ∧
      (n.fparent = none ∨
       ∃ (q ps : Nat) (parent : Node), n.fparent = some q ∧ q < PA.newIndex 0 keep i0 ∧
        n0.parentRoot ≠ n0.ref.root ∧ aGet (pruned pr keep l).blockSlots n0.parentRoot = some ps ∧
        ps < n0.ref.slot ∧ aGet (pruned pr keep l).indices ⟨ps, n0.parentRoot⟩ = some q ∧
        (pruned pr keep l).nodes[q]? = some parent ∧ parent.ref = ⟨ps, n0.parentRoot⟩)) := by
  have hd := compact_distinct h keep hl
  obtain ⟨n', hn', hr⟩ := pruned_node_of keep l hn0 hk
  rw [hn] at hn'; cases hn'
  cases hf : PA.renumber 0 keep n0.fparent with
  | some y =>
    left
    obtain ⟨p, hp, hkp, rfl⟩ := (renumber_some_iff keep _ y).1 hf
    refine ⟨p, hp, hkp, ?_⟩
    rw [hr.fparent_of_some (by rw [renum_fparent, hf]; rfl), renum_fparent, hf]
  | none =>
    right
    refine ⟨rfl, ?_⟩
    cases hq : n.fparent with
    | none => exact Or.inl rfl
    | some q =>
      right
      rw [pruned_nodes] at hn
      obtain ⟨ps, parent, h1, h2, h3, h4, h5, h6, h7⟩ :=
        reparent_parent (pruned pr keep l).indices (pruned pr keep l).blockSlots _ _
          (fun r j hj => (rebuildIndices_iff _ hd r j).1 hj)
          (fun root s hs => by
            rcases rebuildBlockSlots_sound _ root _ [] s hs with e | ⟨_, k, m, hm, e⟩
            · cases e
            · rw [pruned_indices, (rebuildIndices_iff _ hd ⟨s, root⟩ k).2 ⟨m, hm, e⟩]; rfl)
          (compact_get keep pr.nodes hn0 hk) hn (by rw [renum_fparent]; exact hf) hq
      simp only [renum_parentRoot, renum_ref] at h1 h2 h3 h5 h7
      exact ⟨q, ps, parent, rfl, h4, h1, h2, h3, h5, h6, h7⟩

/-- a node that stays weighs what it weighed plus what the nodes re-hung from it weighed -/
theorem pruned_node_weight {pr : PA} (keep : List Bool) (l : List (NodeRef × Bool × Bool)) {i0 : Nat} {n0 n : Node}
    (hn0 : pr.nodes[i0]? = some n0) (hk : keep.getD i0 false = true)
    (hn : (pruned pr keep l).nodes[PA.newIndex 0 keep i0]? = some n) :
    n.weight = n0.weight + addedW (PA.compact 0 keep 0 pr.nodes) (pruned pr keep l).nodes (PA.newIndex 0 keep i0)
      (PA.compact 0 keep 0 pr.nodes).length := by
  rw [pruned_nodes] at hn ⊢
  have := reparent_weight _ _ _ (compact_get keep pr.nodes hn0 hk) hn
  rw [renum_weight] at this
  exact this

/-! ## B: under the chain structure the fork-choice children of what stays stay -/

/-- along the empty-slot nodes of a root: if the node at slot `p0` stays, so do the later ones -/
theorem chain_kept {pr : PA} (h : WF pr) (hc : Chain pr) {root : Root} {slot a : Nat}
    (ha : aGet pr.indices ⟨slot, root⟩ = some a) (P : Root) (p0 i : Nat)
    (hb : aGet pr.blockSlots P = some p0) (hi : aGet pr.indices ⟨p0, P⟩ = some i)
    (hki : (PA.keepFlags 0 a slot pr.nodes []).getD i false = true) :
    ∀ (d s j : Nat), s = p0 + d → aGet pr.indices ⟨s, P⟩ = some j →
      (PA.keepFlags 0 a slot pr.nodes []).getD j false = true := by
  obtain ⟨na, hna, hnar⟩ := h.idx_sound _ _ ha
  intro d
  induction d with
  | zero =>
    intro s j hs hj
    rw [hs, Nat.add_zero, hi] at hj
    cases hj; exact hki
  | succ d ih =>
    intro s j hs hj
    obtain ⟨nj, hnj, hnjr⟩ := h.idx_sound _ _ hj
    obtain ⟨q, ht, _, hq⟩ := hc.slot_node h P p0 s j nj hb hj (by omega) hnj
    have hkq := ih (s - 1) q (by omega) hq
    by_cases hja : j = a
    · subst hja; exact keep_anchor h j slot (h.idx_lt ha)
    · refine (keep_iff h a slot hja).2 ⟨q, nj, hnj, ht, hkq, ?_⟩
      rintro ⟨rfl, hsl⟩
      obtain ⟨m, hm, hmr⟩ := h.idx_sound _ _ hq
      rw [hna] at hm; cases hm
      rw [hnar] at hmr
      have e1 : slot = s - 1 := congrArg NodeRef.slot hmr
      have e2 : nj.ref.slot = s := by rw [hnjr]
      omega

end Prune

open Prune

/-- under the chain structure, a fork-choice child of a node that stays stays -/
theorem keep_closed_of_chain (pr : PA) (h : WF pr) (hc : Chain pr) (root : Root) (slot a : Nat)
    (ha : aGet pr.indices ⟨slot, root⟩ = some a) :
    ∀ i c, (PA.keepFlags 0 a slot pr.nodes []).getD i false = true → fpar pr.nodes c = some i →
      (PA.keepFlags 0 a slot pr.nodes []).getD c false = true := by
  intro i c hki hf
  obtain ⟨na, hna, hnar⟩ := h.idx_sound _ _ ha
  by_cases hca : c = a
  · subst hca; exact keep_anchor h c slot (h.idx_lt ha)
  obtain ⟨nc, hnc, hfc⟩ := fpar_some hf
  obtain ⟨s0, hb, hk⟩ := hc.ok c nc hnc
  rcases hk with ⟨hlt, q, ht, hfq, hq⟩ | ⟨heq, hk⟩
  · -- an empty-slot node: its transition parent is its fork-choice parent, one slot earlier
    rw [hfq] at hfc; cases hfc
    refine (keep_iff h a slot hca).2 ⟨i, nc, hnc, ht, hki, ?_⟩
    rintro ⟨rfl, hs⟩
    obtain ⟨m, hm, hmr⟩ := h.idx_sound _ _ hq
    rw [hna] at hm; cases hm
    rw [hnar] at hmr
    have e1 : slot = nc.ref.slot - 1 := congrArg NodeRef.slot hmr
    omega
  · rcases hk with ⟨_, h2⟩ | ⟨_, p0, t, f, hbp, hp0, ht, hti, hf', hfi⟩
    · rw [h2] at hfc; cases hfc
    · -- a block: fork-choice parent = first node of the parent root, transition parent further along its chain
      rw [hf'] at hfc; cases hfc
      have htk := chain_kept h hc ha nc.parentRoot p0 i hbp hfi hki (s0 - p0) s0 t (by omega) hti
      refine (keep_iff h a slot hca).2 ⟨t, nc, hnc, ht, htk, ?_⟩
      rintro ⟨rfl, _⟩
      obtain ⟨m, hm, hmr⟩ := h.idx_sound _ _ hti
      have hreach := (reach_first h hc t m i hm ⟨p0, by rw [hmr]; exact hbp, by rw [hmr]; exact hfi⟩).2
      have hle : i ≤ t := hreach.le h.tpar_lt2
      have hge : t ≤ i := keep_ge h t slot hki
      have hit : i = t := Nat.le_antisymm hle hge
      subst hit
      obtain ⟨m', hm', hmr'⟩ := h.idx_sound _ _ hfi
      rw [hm] at hm'; cases hm'
      rw [hmr] at hmr'
      have e1 : s0 = p0 := congrArg NodeRef.slot hmr'
      omega

/-! ## B: the main results -/

theorem wf_setSinkLog {pr : PA} (h : WF pr) (l : List (NodeRef × Bool × Bool)) : WF { pr with sinkLog := l } :=
  ⟨h.off, h.len, h.idx_sound, h.idx_complete, h.tpar_lt, h.fpar_lt, h.bc_child, h.bd_desc, h.bc_bd, h.bs_node⟩

/-- The four shapes of the outcome of `OnPrune` on a well-formed array: anchor unknown (nothing happens); the sink
failed (only `sinkLog` differs); nothing to drop (only `sinkLog` differs); pruned (`Prune.pruned`: `nodes`,
`indices`, `blockSlots` are the model's expressions, `updated = false`, `offset`/`jEpoch`/`fEpoch`/`sink` stay). -/
theorem onPrune_cases (pr : PA) (h : WF pr) (root : Root) (slot : Nat) :
    (aGet pr.indices ⟨slot, root⟩ = none ∧ pr.onPrune root slot = .ok pr ()) ∨
    ∃ a, aGet pr.indices ⟨slot, root⟩ = some a ∧ ∃ l,
      pr.onPrune root slot = .err { pr with sinkLog := l } ∨
      ((PA.keepFlags 0 a slot pr.nodes []).count false = 0 ∧
        pr.onPrune root slot = .ok { pr with sinkLog := l } ()) ∨
      ((PA.keepFlags 0 a slot pr.nodes []).count false ≠ 0 ∧
        pr.onPrune root slot = .ok (Prune.pruned pr (PA.keepFlags 0 a slot pr.nodes []) l) ()) := by
  cases ha : aGet pr.indices ⟨slot, root⟩ with
  | none => left; refine ⟨rfl, ?_⟩; unfold PA.onPrune; rw [ha]
  | some a =>
    right
    obtain ⟨an, _, _, e⟩ := onPrune_eq pr h root slot a ha
    refine ⟨a, rfl, (PA.sinkLoop (triples pr a slot an) pr).1.sinkLog, ?_⟩
    rw [e]
    by_cases c1 : (PA.sinkLoop (triples pr a slot an) pr).2 = false
    · rw [if_pos c1]; exact Or.inl rfl
    · rw [if_neg c1]
      by_cases c2 : (PA.keepFlags 0 a slot pr.nodes []).count false = 0
      · rw [if_pos c2]; exact Or.inr (Or.inl ⟨c2, rfl⟩)
      · rw [if_neg c2]; exact Or.inr (Or.inr ⟨c2, rfl⟩)

/-- `OnPrune` never panics or loops on a well-formed array -/
theorem onPrune_total (pr : PA) (h : WF pr) (root : Root) (slot : Nat) :
    (∃ s, pr.onPrune root slot = .ok s ()) ∨ (∃ s, pr.onPrune root slot = .err s) := by
  rcases onPrune_cases pr h root slot with ⟨_, e⟩ | ⟨a, _, l, e | ⟨_, e⟩ | ⟨_, e⟩⟩
  · exact Or.inl ⟨_, e⟩
  · exact Or.inr ⟨_, e⟩
  · exact Or.inl ⟨_, e⟩
  · exact Or.inl ⟨_, e⟩

/-- without a sink: nothing happens, or the array is pruned; `sinkLog` stays -/
theorem onPrune_cases_absent (pr : PA) (h : WF pr) (hs : pr.sink = .absent) (root : Root) (slot : Nat) :
    pr.onPrune root slot = .ok pr () ∨
    ∃ a, aGet pr.indices ⟨slot, root⟩ = some a ∧ (PA.keepFlags 0 a slot pr.nodes []).count false ≠ 0 ∧
      pr.onPrune root slot = .ok (Prune.pruned pr (PA.keepFlags 0 a slot pr.nodes []) pr.sinkLog) () := by
  cases ha : aGet pr.indices ⟨slot, root⟩ with
  | none => left; unfold PA.onPrune; rw [ha]
  | some a =>
    obtain ⟨an, _, _, e⟩ := onPrune_eq pr h root slot a ha
    rw [sinkLoop_absent _ pr hs] at e
    simp only [Bool.true_eq_false, if_false] at e
    by_cases c2 : (PA.keepFlags 0 a slot pr.nodes []).count false = 0
    · rw [if_pos c2] at e; exact Or.inl e
    · rw [if_neg c2] at e; exact Or.inr ⟨a, rfl, c2, e⟩

/-- the outcome carries a well-formed array -/
def Prune.OutWF : POut PA Unit → Prop
  | .ok s _ => WF s
  | .err s => WF s
  | _ => False

theorem Prune.onPrune_outWF (pr : PA) (h : WF pr) (root : Root) (slot : Nat)
    (hclosed : ∀ a, aGet pr.indices ⟨slot, root⟩ = some a → ∀ i c,
        (PA.keepFlags 0 a slot pr.nodes []).getD i false = true →
        fpar pr.nodes c = some i → (PA.keepFlags 0 a slot pr.nodes []).getD c false = true) :
    Prune.OutWF (pr.onPrune root slot) := by
  rcases onPrune_cases pr h root slot with ⟨_, e⟩ | ⟨a, ha, l, e | ⟨_, e⟩ | ⟨_, e⟩⟩
  · rw [e]; exact h
  · rw [e]; exact wf_setSinkLog h l
  · rw [e]; exact wf_setSinkLog h l
  · rw [e]; exact wf_pruned h _ (keep_length pr.nodes a slot) (hclosed a ha) l

/-- … and keeps the array well formed, given that the fork-choice children of the nodes that stay stay
(`keep_closed_of_chain`: the chain structure guarantees it) -/
theorem onPrune_wf (pr : PA) (h : WF pr) (root : Root) (slot : Nat)
    (hclosed : ∀ a, aGet pr.indices ⟨slot, root⟩ = some a → ∀ i c,
        (PA.keepFlags 0 a slot pr.nodes []).getD i false = true →
        fpar pr.nodes c = some i → (PA.keepFlags 0 a slot pr.nodes []).getD c false = true) :
    match pr.onPrune root slot with | .ok s _ => WF s | .err s => WF s | _ => False := by
  have := Prune.onPrune_outWF pr h root slot hclosed
  generalize pr.onPrune root slot = out at this
  cases out <;> exact this

/-- with the chain structure no side condition is left -/
theorem onPrune_wf_of_chain (pr : PA) (h : WF pr) (hc : Chain pr) (root : Root) (slot : Nat) :
    match pr.onPrune root slot with | .ok s _ => WF s | .err s => WF s | _ => False :=
  onPrune_wf pr h root slot (fun a ha => keep_closed_of_chain pr h hc root slot a ha)

/-! ## non-vacuity: an effective prune of a concrete array

`chainEx` has the nodes `0:(1,0) 1:(1,1) 2:(2,1) 3:(1,2) 4:(3,2)` (root, slot). Pruning at the empty-slot node `(1,1)`
drops the old anchor `(1,0)` and block 2 (a block at the anchor's own slot hanging from it); block 3, whose
fork-choice parent `(1,0)` went away, is re-hung from `(1,1)`, the first node left of its parent root. -/

/-- the state carried by a successful outcome -/
def Prune.outState : POut PA Unit → Option PA
  | .ok s _ => some s
  | _ => none

example : PA.keepFlags 0 1 1 chainEx.nodes [] = [false, true, false, true, true] := by decide
example : (Prune.outState (chainEx.onPrune 1 1)).map
      (fun s => s.nodes.map (fun (n : Node) => (n.ref, n.tparent, n.fparent))) =
    some [(⟨1, 1⟩, none, none), (⟨2, 1⟩, some 0, some 0), (⟨2, 3⟩, some 1, some 0)] := by decide
example : (Prune.outState (chainEx.onPrune 1 1)).map (·.indices) =
    some [(⟨1, 1⟩, 0), (⟨2, 1⟩, 1), (⟨2, 3⟩, 2)] := by decide
example : (Prune.outState (chainEx.onPrune 1 1)).map (fun s => (s.blockSlots, s.updated, s.offset)) =
    some ([(1, 1), (3, 2)], false, 0) := by decide
/-- the hypothesis of `onPrune_wf` is satisfiable (here through `keep_closed_of_chain`) and the theorem applies -/
example : match chainEx.onPrune 1 1 with | .ok s _ => WF s | .err s => WF s | _ => False :=
  onPrune_wf chainEx chainEx_ok.1 1 1 (fun a ha => keep_closed_of_chain chainEx chainEx_ok.1 chainEx_ok.2 1 1 a ha)
/-- … so the pruned three-node array above is well formed -/
example : ∃ s, chainEx.onPrune 1 1 = .ok s () ∧ s.nodes.length = 3 ∧ WF s := by
  have hw := onPrune_wf_of_chain chainEx chainEx_ok.1 chainEx_ok.2 1 1
  rcases onPrune_total chainEx chainEx_ok.1 1 1 with ⟨s, e⟩ | ⟨s, e⟩
  · rw [e] at hw
    refine ⟨s, e, ?_, hw⟩
    have h3 : (Prune.outState (chainEx.onPrune 1 1)).map (·.nodes.length) = some 3 := by decide
    rw [e] at h3
    exact Option.some.inj h3
  · have h3 : (Prune.outState (chainEx.onPrune 1 1)).isSome = true := by decide
    rw [e] at h3; cases h3


end Zrnt.ForkChoice
