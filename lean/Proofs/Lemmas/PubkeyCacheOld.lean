import Zrnt.PubkeyCache.Model
/-! The code before the fix: `AddValidator(1, key 0)` on a cache holding key 0 at index 0 forks out level after level, for every fuel. -/
namespace Zrnt.PubkeyCache

/-- the root holding key 0 at index 0, followed by `n` levels forked out at 0, each the child of the previous one -/
def divChain (n : Nat) : Store :=
  ⟨none, 0, [0], [(0, 0)]⟩ :: (List.range n).map (fun i => ⟨some i, 0, [], []⟩)

theorem divChain_length (n : Nat) : (divChain n).length = n + 1 := by simp [divChain]

theorem divChain_fork (n : Nat) : fork (divChain n) n 0 = divChain (n + 1) := by
  simp [fork, divChain, List.range_succ]

theorem divChain_zero (n : Nat) : (divChain n)[0]? = some ⟨none, 0, [0], [(0, 0)]⟩ := by simp [divChain]

theorem divChain_succ {n m : Nat} (h : m < n) : (divChain n)[m + 1]? = some ⟨some m, 0, [], []⟩ := by
  simp [divChain, h]

theorem old_vi_chain (n : Nat) : ∀ f m, m ≤ n →
    Old.validatorIndex (divChain n) f m 0 = .ok (some 0) ∨ Old.validatorIndex (divChain n) f m 0 = .outOfFuel := by
  intro f
  induction f with
  | zero => intro m _; right; rfl
  | succ f ih =>
    intro m hm
    cases m with
    | zero => left; simp [Old.validatorIndex, divChain_zero]
    | succ k =>
      have := ih k (by omega)
      simp only [Old.validatorIndex, divChain_succ (show k < n by omega), List.lookup_nil]
      exact this

theorem pubkey_chain (n f : Nat) : pubkey (divChain n) (f + 1) n 1 = .ok none := by
  cases n with
  | zero => simp [pubkey, divChain_zero]
  | succ k => simp [pubkey, divChain_succ (show k < k + 1 by omega)]

theorem old_add_chain : ∀ f n, Old.addValidator (divChain n) f n 1 0 = .outOfFuel := by
  intro f
  induction f with
  | zero => intro n; rfl
  | succ f ih =>
    intro n
    unfold Old.addValidator
    rw [pubkey_chain]
    rcases old_vi_chain n (f + 1) n (Nat.le_refl _) with h | h
    · rw [h]
      simp only [show (0 : Nat) ≠ 1 by decide, ne_eq, not_false_eq_true, ↓reduceIte]
      rw [divChain_fork, divChain_length]
      exact ih (n + 1)
    · rw [h]

end Zrnt.PubkeyCache
