import Zrnt.Beacon.Genesis
/-! Lemmas about the specification's genesis construction (C13): case analysis of `process_deposit`,
invariants of the deposit loop (`Fresh`: registry/balances aligned, new validators inactive, pubkeys distinct). -/
namespace Zrnt.Proofs.Genesis
open Zrnt.Beacon Zrnt.Beacon.Spec Zrnt.Beacon.Genesis

variable {cfg : Config} {cp : Bool} {s s' : State} {d : DepositIn}

theorem process_deposit_cases (h : process_deposit cfg cp s d = .ok s') :
    (s.validators.findIdx? (fun v => decide (v.pubkey = d.pubkey)) = none ∧ d.sigValid = true ∧
      s'.validators = s.validators ++ [get_validator_from_deposit cfg d] ∧ s'.balances = s.balances ++ [d.amount])
    ∨ (s.validators.findIdx? (fun v => decide (v.pubkey = d.pubkey)) = none ∧ d.sigValid = false ∧
      s'.validators = s.validators ∧ s'.balances = s.balances)
    ∨ (∃ i b, s.validators.findIdx? (fun v => decide (v.pubkey = d.pubkey)) = some i ∧ s.balances[i]? = some b ∧
      b + d.amount < 2 ^ 64 ∧ s'.validators = s.validators ∧ s'.balances = s.balances.set i (b + d.amount)) := by
  unfold process_deposit at h
  simp only [require, invalid, u64, bind, Except.bind, pure, Except.pure] at h
  split at h
  · cases h
  · split at h
    · cases h
    · rename_i x y z w
      split at w
      · cases w
        skip
        split at h
        · rename_i hnone
          split at h
          · rename_i hsig
            left; cases h
            exact ⟨hnone, hsig, rfl, rfl⟩
          · rename_i hsig
            right; left; cases h
            exact ⟨hnone, by simpa using hsig, rfl, rfl⟩
        · rename_i i hsome
          right; right
          simp only [increase_balance, idx, bind, Except.bind, u64, pure, Except.pure, invalid] at h
          split at h
          · cases h
          · rename_i b hb
            split at hb
            · rename_i b' hb'
              cases hb
              split at h
              · cases h
              · rename_i q r
                split at r
                · cases r; cases h
                  exact ⟨i, b, hsome, hb', by assumption, rfl, rfl⟩
                · cases r
            · cases hb
      · cases w

/-- `process_deposit` touches only the deposit index, the registry and the balances -/
theorem process_deposit_time (h : process_deposit cfg cp s d = .ok s') : s'.genesis_time = s.genesis_time := by
  unfold process_deposit at h
  simp only [require, invalid, u64, bind, Except.bind, pure, Except.pure] at h
  split at h
  · cases h
  · split at h
    · cases h
    · rename_i x y z w
      split at w
      · cases w
        split at h
        · split at h <;> (cases h; rfl)
        · simp only [increase_balance, idx, bind, Except.bind, u64, pure, Except.pure, invalid] at h
          split at h
          · cases h
          · split at h
            · cases h
            · rename_i q r
              split at r
              · cases r; cases h; rfl
              · cases r
      · cases w

/-- an invariant of single deposits that does not mention the deposit root survives the genesis deposit loop -/
theorem deposits_inv (P : State → Prop)
    (hroot : ∀ s r, P s → P { s with eth1_data := { s.eth1_data with deposit_root := r } })
    (hstep : ∀ s d s', P s → process_deposit cfg cp s d = .ok s' → P s')
    (leaves : List Bytes) :
    ∀ (ds : List DepositIn) (i : Nat) (s s' : State), P s → processGenesisDeposits cfg cp leaves i s ds = .ok s' → P s' := by
  intro ds
  induction ds with
  | nil => intro i s s' hp h; simp [processGenesisDeposits, pure, Except.pure] at h; subst h; exact hp
  | cons d rest ih =>
    intro i s s' hp h
    simp only [processGenesisDeposits, bind, Except.bind] at h
    split at h
    · cases h
    · rename_i s1 hs1
      exact ih _ _ _ (hstep _ _ _ (hroot _ _ hp) hs1) h

/-- registry well-formedness established by genesis deposits -/
structure Fresh (s : State) : Prop where
  len : s.validators.length = s.balances.length
  far : ∀ v ∈ s.validators, v.activation_eligibility_epoch = FAR_FUTURE_EPOCH ∧ v.activation_epoch = FAR_FUTURE_EPOCH ∧
    v.exit_epoch = FAR_FUTURE_EPOCH ∧ v.withdrawable_epoch = FAR_FUTURE_EPOCH ∧ v.slashed = false
  nodup : (s.validators.map (·.pubkey)).Nodup

theorem fresh_step (hp : Fresh s) (h : process_deposit cfg cp s d = .ok s') : Fresh s' := by
  rcases process_deposit_cases h with ⟨hn, _, hv, hb⟩ | ⟨_, _, hv, hb⟩ | ⟨i, b, _, _, _, hv, hb⟩
  · refine ⟨by simp [hv, hb, hp.len], ?_, ?_⟩
    · intro v hvm
      rw [hv] at hvm
      rcases List.mem_append.mp hvm with h1 | h1
      · exact hp.far v h1
      · simp at h1; subst h1; simp [get_validator_from_deposit]
    · rw [hv]
      simp only [List.map_append, List.map_cons, List.map_nil]
      rw [List.nodup_append]
      refine ⟨hp.nodup, by simp, ?_⟩
      intro a ha b hb'
      simp at hb'; subst hb'
      rw [List.findIdx?_eq_none_iff] at hn
      obtain ⟨v, hvm, rfl⟩ := List.mem_map.mp ha
      have := hn v hvm
      simp only [get_validator_from_deposit]
      intro e; simp [e] at this
  · exact ⟨by rw [hv, hb]; exact hp.len, by rw [hv]; exact hp.far, by rw [hv]; exact hp.nodup⟩
  · exact ⟨by rw [hv, hb]; simp [hp.len], by rw [hv]; exact hp.far, by rw [hv]; exact hp.nodup⟩

theorem genesisActivate_eff (v : Validator) (b : Nat) :
    (genesisActivate cfg v b).effective_balance = min (b - b % cfg.EFFECTIVE_BALANCE_INCREMENT) cfg.MAX_EFFECTIVE_BALANCE := by
  unfold genesisActivate; dsimp only; split <;> rfl

theorem genesisActivate_pubkey (v : Validator) (b : Nat) : (genesisActivate cfg v b).pubkey = v.pubkey := by
  unfold genesisActivate; dsimp only; split <;> rfl

theorem genesisActivate_rest (v : Validator) (b : Nat) :
    (genesisActivate cfg v b).exit_epoch = v.exit_epoch ∧ (genesisActivate cfg v b).withdrawable_epoch = v.withdrawable_epoch ∧
    (genesisActivate cfg v b).slashed = v.slashed ∧ (genesisActivate cfg v b).withdrawal_credentials = v.withdrawal_credentials := by
  unfold genesisActivate; dsimp only; split <;> exact ⟨rfl, rfl, rfl, rfl⟩

theorem genesisActivate_act (v : Validator) (b : Nat) :
    ((genesisActivate cfg v b).effective_balance = cfg.MAX_EFFECTIVE_BALANCE ∧
      (genesisActivate cfg v b).activation_eligibility_epoch = GENESIS_EPOCH ∧ (genesisActivate cfg v b).activation_epoch = GENESIS_EPOCH) ∨
    ((genesisActivate cfg v b).effective_balance ≠ cfg.MAX_EFFECTIVE_BALANCE ∧
      (genesisActivate cfg v b).activation_eligibility_epoch = v.activation_eligibility_epoch ∧
      (genesisActivate cfg v b).activation_epoch = v.activation_epoch) := by
  unfold genesisActivate; dsimp only
  split
  · rename_i h; exact .inl ⟨h, rfl, rfl⟩
  · rename_i h; exact .inr ⟨h, rfl, rfl⟩

theorem fresh_blank (hash : Bytes) (t n : Nat) : Fresh (genesisBlank cfg hash t n) :=
  ⟨rfl, by intro v hv; simp [genesisBlank] at hv, by simp [genesisBlank]⟩

/-- a successful `initialize_beacon_state_from_eth1` is: a `Fresh` state `s1` (after the deposits), then the
activation pass over `s1`'s registry and balances, then the validators root. -/
theorem initialize_ok_decomp {hash : Bytes} {time : Nat} {deps : List DepositIn}
    (h : initialize_beacon_state_from_eth1 cfg hash time deps cp = .ok s) :
    ∃ s1, Fresh s1 ∧ s.validators = List.zipWith (genesisActivate cfg) s1.validators s1.balances ∧
      s.balances = s1.balances ∧ s.genesis_time = time + cfg.GENESIS_DELAY ∧
      s.genesis_validators_root = htrValidators cfg s.validators := by
  unfold initialize_beacon_state_from_eth1 at h
  simp only [u64, bind, Except.bind, pure, Except.pure] at h
  split at h
  · cases h
  · rename_i t ht
    split at ht
    · cases ht
      split at h
      · cases h
      · rename_i s1 hs1
        cases h
        refine ⟨s1, ?_, rfl, rfl, ?_, rfl⟩
        · exact deposits_inv Fresh (fun s r hp => ⟨hp.len, hp.far, hp.nodup⟩) (fun s d s' hp hd => fresh_step hp hd) _ _ _ _ _
            (fresh_blank _ _ _) hs1
        · have : ∀ s0 : State, Fresh s0 → True := fun _ _ => trivial
          have hgt := deposits_inv (cfg := cfg) (cp := cp) (fun st => st.genesis_time = time + cfg.GENESIS_DELAY)
            (fun s r hp => hp) (fun s d s' hp hd => by
              rcases process_deposit_time hd with e; rw [e]; exact hp) _ _ _ _ _ rfl hs1
          simpa [processGenesisActivations] using hgt
    · cases ht

/-! ### `IsValidGenesisState` -/

theorem foldl_count (p : Validator → Bool) (l : List Validator) (n : Nat) :
    l.foldl (fun c v => if p v then c + 1 else c) n = n + l.countP p := by
  induction l generalizing n with
  | nil => simp
  | cons a t ih =>
    simp only [List.foldl_cons, List.countP_cons]
    rw [ih]
    split <;> omega

theorem filter_range'_countP (p : Validator → Bool) : ∀ (l : List Validator) (k : Nat) (q : Nat → Bool),
    (∀ i (h : i < l.length), q (k + i) = p l[i]) → ((List.range' k l.length).filter q).length = l.countP p := by
  intro l
  induction l with
  | nil => intro k q _; rfl
  | cons a t ih =>
    intro k q hq
    simp only [List.length_cons, List.range'_succ, List.filter_cons, List.countP_cons]
    have h0 : q k = p a := hq 0 (by simp)
    have ht := ih (k + 1) q (fun i h => by
      have := hq (i + 1) (by simp; omega)
      simpa [Nat.add_assoc, Nat.add_comm 1 i] using this)
    rw [h0]
    cases hp : p a <;> simp [ht]

theorem active_length_countP (l : List Validator) (e : Nat) :
    (active_indices_of l e).length = l.countP (fun v => is_active_validator v e) := by
  unfold active_indices_of
  rw [List.range_eq_range']
  apply filter_range'_countP
  intro i h
  simp [List.getElem?_eq_getElem h]

/-- **`IsValidGenesisState` is `is_valid_genesis_state`** (code shape: time check, then a counting loop over the
registry; specification: `len(get_active_validator_indices(state, GENESIS_EPOCH))`). -/
theorem isValidGenesisState_eq_spec (cfg : Config) (s : State) :
    Impl.isValidGenesisState cfg s = is_valid_genesis_state cfg s := by
  unfold Impl.isValidGenesisState is_valid_genesis_state get_active_validator_indices
  rw [active_length_countP]
  by_cases ht : s.genesis_time < cfg.MIN_GENESIS_TIME
  · simp [ht]
  · simp only [ht, if_false]
    have hf := foldl_count (fun v => decide (v.activation_epoch ≤ GENESIS_EPOCH) && decide (GENESIS_EPOCH < v.exit_epoch)) s.validators 0
    simp only [is_active_validator]
    simp only [Bool.and_eq_true, decide_eq_true_eq] at hf ⊢
    simp only [Nat.zero_add] at hf
    rw [hf]
    have key : ∀ n m : Nat, decide (n ≥ m) = if n < m then false else true := by
      intro n m
      by_cases h : n < m
      · simp [h]
      · simp [h]; omega
    exact key _ _

end Zrnt.Proofs.Genesis
