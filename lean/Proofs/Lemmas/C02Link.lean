import Zrnt.Beacon.Spec.Transition
import Proofs.Lemmas.C02WF
/-! Links between the executable (monadic, checked) specification functions and their pure theorem-facing forms:
whenever the monadic function returns `ok s'`, `s'` is what the pure stage function gives. -/
namespace Zrnt.Proofs.Lemmas
open Zrnt.Beacon Zrnt.Beacon.Spec

theorem bind_ok {α β : Type} (x : SM α) (f : α → SM β) (r : β) (h : (x >>= f) = .ok r) :
    ∃ a, x = .ok a ∧ f a = .ok r := by
  cases x with
  | error e => cases h
  | ok a => exact ⟨a, rfl, h⟩

theorem crossCheck_ok {α : Type} [DecidableEq α] (a b : α) (w : String) (h : crossCheck a b w = .ok ()) : a = b := by
  unfold crossCheck at h
  split at h
  · assumption
  · cases h

theorem inactivity_link (cfg : Config) (s s' : State) (h : process_inactivity_updates cfg s = .ok s')
    (hg : get_current_epoch cfg s ≠ GENESIS_EPOCH) :
    ∃ leak, is_in_inactivity_leak cfg s = .ok leak ∧
      s' = { s with inactivity_scores := (process_inactivity_updates_pure cfg s.validators s.previous_epoch_participation
        s.inactivity_scores (get_previous_epoch cfg s) leak) } := by
  unfold process_inactivity_updates at h
  simp only [hg, ↓reduceIte] at h
  obtain ⟨participating, _, h⟩ := bind_ok _ _ _ h
  obtain ⟨leak, hl, h⟩ := bind_ok _ _ _ h
  obtain ⟨sc, _, h⟩ := bind_ok _ _ _ h
  obtain ⟨u, hc, h⟩ := bind_ok _ _ _ h
  have e := crossCheck_ok _ _ _ hc
  refine ⟨leak, hl, ?_⟩
  injection h with h
  rw [← h, e]

theorem leak_link (cfg : Config) (s : State) (leak : Bool) (h : is_in_inactivity_leak cfg s = .ok leak) :
    leak = in_leak_of cfg (get_previous_epoch cfg s) s ∧
    get_finality_delay cfg s = .ok (finality_delay_of (get_previous_epoch cfg s) s) := by
  unfold is_in_inactivity_leak at h
  obtain ⟨fd, hfd, h⟩ := bind_ok _ _ _ h
  have hfd' : get_finality_delay cfg s = .ok (finality_delay_of (get_previous_epoch cfg s) s) ∧
      fd = finality_delay_of (get_previous_epoch cfg s) s := by
    unfold get_finality_delay at hfd ⊢
    simp only [] at hfd ⊢
    split at hfd
    · cases hfd
    · rename_i hlt
      simp only [hlt, ↓reduceIte]
      injection hfd with hfd
      exact ⟨rfl, hfd.symm⟩
  injection h with h
  rw [← h, hfd'.2]
  exact ⟨rfl, hfd'.1⟩

theorem inactivity_stage_link (cfg : Config) (s s' : State) (h : process_inactivity_updates cfg s = .ok s')
    (hf : s.fork ≠ .phase0) :
    s' = inactivity_stage cfg (get_previous_epoch cfg s) (get_current_epoch cfg s) s := by
  unfold inactivity_stage
  by_cases hg : get_current_epoch cfg s = GENESIS_EPOCH
  · unfold process_inactivity_updates at h
    simp only [hg, ↓reduceIte] at h
    injection h with h
    subst h
    rw [if_pos (Or.inr hg)]
  · obtain ⟨leak, hl, e⟩ := inactivity_link cfg s s' h hg
    rw [(leak_link cfg s leak hl).1] at e
    rw [if_neg (by intro hc; rcases hc with hc | hc; exact hf hc; exact hg hc)]
    exact e

theorem eth1_stage_link (cfg : Config) (s s' : State) (h : process_eth1_data_reset cfg s = .ok s') :
    s' = eth1_stage cfg (get_current_epoch cfg s) s := by
  unfold process_eth1_data_reset at h
  split at h
  · cases h
  · injection h with h; exact h.symm

theorem slashings_reset_stage_link (cfg : Config) (s s' : State) (h : process_slashings_reset cfg s = .ok s') :
    s' = slashings_reset_stage cfg (get_current_epoch cfg s) s := by
  unfold process_slashings_reset at h
  simp only [] at h
  split at h
  · cases h
  · obtain ⟨_, _, h⟩ := bind_ok _ _ _ h
    injection h with h; exact h.symm

theorem randao_stage_link (cfg : Config) (s s' : State) (h : process_randao_mixes_reset cfg s = .ok s') :
    s' = randao_stage cfg (get_current_epoch cfg s) s := by
  unfold process_randao_mixes_reset at h
  simp only [] at h
  obtain ⟨_, _, h⟩ := bind_ok _ _ _ h
  obtain ⟨_, _, h⟩ := bind_ok _ _ _ h
  injection h with h; exact h.symm

theorem effective_balance_stage_link (cfg : Config) (s s' : State) (h : process_effective_balance_updates cfg s = .ok s') :
    s' = effective_balance_stage cfg s := by
  unfold process_effective_balance_updates at h
  split at h
  · cases h
  · obtain ⟨_, _, h⟩ := bind_ok _ _ _ h
    obtain ⟨_, _, h⟩ := bind_ok _ _ _ h
    injection h with h; exact h.symm

/-- a `for` loop in the spec monad keeps every invariant its body keeps -/
theorem forIn_preserves {α β : Type} (P : β → Prop) (l : List α) (init : β) (f : α → β → SM (ForInStep β)) (r : β)
    (hinit : P init) (hstep : ∀ a b r', P b → f a b = .ok r' → P (match r' with | .yield x => x | .done x => x))
    (h : forIn l init f = .ok r) : P r := by
  induction l generalizing init with
  | nil =>
    simp only [List.forIn_nil] at h
    injection h with h; rw [← h]; exact hinit
  | cons x xs ih =>
    rw [List.forIn_cons] at h
    obtain ⟨r', hr', h⟩ := bind_ok _ _ _ h
    have := hstep x init r' hinit hr'
    cases r' with
    | done y => simp only [] at h; injection h with h; rw [← h]; exact this
    | yield y => exact ih y this h

/-- everything but the balances -/
def sameButBalances (s x : State) : Prop := x = { s with balances := x.balances }

theorem apply_deltas_frame (s x s' : State) (d : Deltas) (hx : sameButBalances s x) (h : apply_deltas x d = .ok s') :
    sameButBalances s s' := by
  unfold apply_deltas at h
  obtain ⟨r, hr, h⟩ := bind_ok _ _ _ h
  injection h with h
  rw [← h]
  refine forIn_preserves (sameButBalances s) _ _ _ _ hx ?_ hr
  intro i b r' hb hf
  obtain ⟨v1, _, hf⟩ := bind_ok _ _ _ hf
  obtain ⟨b1, hb1, hf⟩ := bind_ok _ _ _ hf
  obtain ⟨v2, _, hf⟩ := bind_ok _ _ _ hf
  obtain ⟨b2, hb2, hf⟩ := bind_ok _ _ _ hf
  injection hf with hf
  rw [← hf]
  simp only []
  -- increase_balance / decrease_balance only write balances
  unfold increase_balance at hb1
  obtain ⟨_, _, hb1⟩ := bind_ok _ _ _ hb1
  obtain ⟨_, _, hb1⟩ := bind_ok _ _ _ hb1
  injection hb1 with hb1
  unfold decrease_balance at hb2
  obtain ⟨_, _, hb2⟩ := bind_ok _ _ _ hb2
  injection hb2 with hb2
  unfold sameButBalances at hb ⊢
  rw [← hb2, ← hb1]
  simp only []
  rw [hb]

theorem foldlM_preserves {α β : Type} (P : β → Prop) (l : List α) (init : β) (f : β → α → SM β) (r : β)
    (hinit : P init) (hstep : ∀ b a b', P b → f b a = .ok b' → P b') (h : l.foldlM f init = .ok r) : P r := by
  induction l generalizing init with
  | nil => simp only [List.foldlM_nil] at h; injection h with h; rw [← h]; exact hinit
  | cons x xs ih =>
    rw [List.foldlM_cons] at h
    obtain ⟨b', hb', h⟩ := bind_ok _ _ _ h
    exact ih b' (hstep init x b' hinit hb') h

theorem rewards_stage_link (cfg : Config) (s s' : State) (h : process_rewards_and_penalties cfg s = .ok s') :
    ∃ atts, (s.fork = .phase0 → get_current_epoch cfg s ≠ GENESIS_EPOCH →
        resolve_attestations cfg s (get_previous_epoch cfg s) = .ok atts) ∧
      s' = rewards_stage cfg ⟨atts, [], ZERO32, ZERO32, none⟩ (get_previous_epoch cfg s) (get_current_epoch cfg s) s := by
  by_cases hg : get_current_epoch cfg s = GENESIS_EPOCH
  · unfold process_rewards_and_penalties at h
    simp only [hg, ↓reduceIte] at h
    injection h with h
    refine ⟨[], fun _ hne => absurd hg hne, ?_⟩
    unfold rewards_stage
    rw [if_pos hg]; exact h.symm
  · unfold process_rewards_and_penalties at h
    simp only [hg, ↓reduceIte] at h
    by_cases hf : s.fork = .phase0
    · simp only [hf, ↓reduceIte] at h
      obtain ⟨d, _, h⟩ := bind_ok _ _ _ h
      obtain ⟨x, hx, h⟩ := bind_ok _ _ _ h
      obtain ⟨fd, hfd, h⟩ := bind_ok _ _ _ h
      obtain ⟨leak, hl, h⟩ := bind_ok _ _ _ h
      obtain ⟨atts, hatts, h⟩ := bind_ok _ _ _ h
      obtain ⟨_, hc, h⟩ := bind_ok _ _ _ h
      injection h with h
      have e := crossCheck_ok _ _ _ hc
      obtain ⟨l1, l2⟩ := leak_link cfg s leak hl
      rw [l2] at hfd; injection hfd with hfd
      have hfr := apply_deltas_frame s s x d rfl hx
      refine ⟨atts, fun _ _ => hatts, ?_⟩
      unfold rewards_stage
      rw [if_neg hg, if_pos hf, ← h, hfr, e, ← hfd, l1]
    · simp only [hf, ↓reduceIte] at h
      obtain ⟨fds, _, h⟩ := bind_ok _ _ _ h
      obtain ⟨ipd, _, h⟩ := bind_ok _ _ _ h
      obtain ⟨x, hx, h⟩ := bind_ok _ _ _ h
      obtain ⟨leak, hl, h⟩ := bind_ok _ _ _ h
      obtain ⟨_, hc, h⟩ := bind_ok _ _ _ h
      injection h with h
      have e := crossCheck_ok _ _ _ hc
      obtain ⟨l1, _⟩ := leak_link cfg s leak hl
      have hfr : sameButBalances s x :=
        foldlM_preserves (sameButBalances s) _ s _ x rfl (fun b a b' hb hab => apply_deltas_frame s b b' a hb hab) hx
      refine ⟨[], fun h0 => absurd h0 hf, ?_⟩
      unfold rewards_stage
      rw [if_neg hg, if_neg hf, ← h, hfr, e, l1]

theorem active_indices_length (l : List Validator) (e : Nat) :
    (active_indices_of l e).length = (l.filter (is_active_validator · e)).length := by
  have h := idx_sum' l 0 (is_active_validator · e) (fun _ => 1)
  simp only [Nat.sub_zero, ← List.range_eq_range'] at h
  have c : ∀ {α : Type} (m : List α), (m.map (fun _ => 1)).sum = m.length := by
    intro α m; induction m with
    | nil => rfl
    | cons x xs ih => simp [ih]; omega
  rw [c, c] at h
  exact h

theorem churn_limit_link (cfg : Config) (s : State) (r : Nat) (h : get_validator_churn_limit cfg s = .ok r) :
    r = churn_limit_of cfg s.validators (get_current_epoch cfg s) := by
  unfold get_validator_churn_limit at h
  split at h
  · cases h
  · injection h with h
    rw [← h]
    unfold churn_limit_of get_active_validator_indices
    rw [active_indices_length]

theorem registry_stage_link (cfg : Config) (s s' : State) (h : process_registry_updates cfg s = .ok s') :
    s' = registry_stage cfg (get_current_epoch cfg s) s := by
  unfold process_registry_updates at h
  split at h
  · cases h
  · unfold registry_stage
    by_cases hd : s.fork ≥ .deneb
    · simp only [hd, ↓reduceIte] at h ⊢
      obtain ⟨limit, hl, h⟩ := bind_ok _ _ _ h
      obtain ⟨_, _, h⟩ := bind_ok _ _ _ h
      injection h with h
      unfold get_validator_activation_churn_limit at hl
      obtain ⟨c, hc, hl⟩ := bind_ok _ _ _ hl
      injection hl with hl
      have := churn_limit_link cfg _ c hc
      simp only [get_current_epoch] at this
      rw [← h, ← hl, this]
      rfl
    · simp only [hd, ↓reduceIte] at h ⊢
      obtain ⟨limit, hl, h⟩ := bind_ok _ _ _ h
      obtain ⟨_, _, h⟩ := bind_ok _ _ _ h
      injection h with h
      have := churn_limit_link cfg _ limit hl
      simp only [get_current_epoch] at this
      rw [← h, this]
      rfl

theorem sync_stage_link (cfg : Config) (agg : AggOracle) (s s' : State) (h : process_sync_committee_updates cfg agg s = .ok s')
    (hf : s.fork ≠ .phase0) :
    ∃ computed, s' = sync_stage cfg ⟨[], [], ZERO32, ZERO32, computed⟩ (get_current_epoch cfg s) s := by
  unfold process_sync_committee_updates at h
  simp only [] at h
  split at h
  · cases h
  · split at h
    · obtain ⟨computed, _, h⟩ := bind_ok _ _ _ h
      injection h with h
      refine ⟨computed, ?_⟩
      unfold sync_stage
      rw [if_neg hf, ← h]
    · obtain ⟨computed, _, h⟩ := bind_ok _ _ _ h
      injection h with h
      refine ⟨computed, ?_⟩
      unfold sync_stage
      rw [if_neg hf, ← h]

theorem process_slot_link (cfg : Config) (roots : RootOracle) (s s' : State) (h : process_slot cfg roots s = .ok s') :
    ∃ root, roots s.slot = some root ∧ s' = process_slot_pure cfg root s := by
  unfold process_slot at h
  cases hr : roots s.slot with
  | none => simp [hr] at h
  | some root =>
    simp only [hr] at h
    split at h
    · cases h
    · obtain ⟨_, _, h⟩ := bind_ok _ _ _ h
      obtain ⟨_, _, h⟩ := bind_ok _ _ _ h
      injection h with h
      exact ⟨root, rfl, h.symm⟩

theorem upgrade_links (cfg : Config) (pre post : State) :
    (upgrade_to_bellatrix cfg pre = .ok post → post = upgrade_to_bellatrix_pure cfg pre) ∧
    (upgrade_to_capella cfg pre = .ok post → post = upgrade_to_capella_pure cfg pre) ∧
    (upgrade_to_deneb cfg pre = .ok post → post = upgrade_to_deneb_pure cfg pre) := by
  refine ⟨?_, ?_, ?_⟩
  · intro h; unfold upgrade_to_bellatrix at h; injection h with h; exact h.symm
  · intro h; unfold upgrade_to_capella at h
    cases hh : pre.latest_execution_payload_header with
    | none => simp [hh] at h; cases h
    | some _ => simp only [hh] at h; injection h with h; exact h.symm
  · intro h; unfold upgrade_to_deneb at h
    cases hh : pre.latest_execution_payload_header with
    | none => simp [hh] at h; cases h
    | some _ => simp only [hh] at h; injection h with h; exact h.symm

theorem upgrade_altair_link (cfg : Config) (agg : AggOracle) (pre post : State) (h : upgrade_to_altair cfg agg pre = .ok post) :
    ∃ atts c, post = upgrade_to_altair_pure cfg ⟨atts, some c⟩ pre := by
  unfold upgrade_to_altair at h
  simp only [] at h
  obtain ⟨p1, _, h⟩ := bind_ok _ _ _ h
  obtain ⟨c, _, h⟩ := bind_ok _ _ _ h
  obtain ⟨n, _, h⟩ := bind_ok _ _ _ h
  obtain ⟨atts, _, h⟩ := bind_ok _ _ _ h
  obtain ⟨_, hc, h⟩ := bind_ok _ _ _ h
  injection h with h
  exact ⟨atts, c, by rw [← h]; exact crossCheck_ok _ _ _ hc⟩

theorem participation_stage_link (s s' : State) :
    (s.fork = .phase0 → process_participation_record_updates s = .ok s' → s' = participation_stage s) ∧
    (s.fork ≠ .phase0 → process_participation_flag_updates s = .ok s' → s' = participation_stage s) := by
  constructor
  · intro hf h
    unfold process_participation_record_updates at h
    injection h with h
    unfold participation_stage; rw [if_pos hf]; exact h.symm
  · intro hf h
    unfold process_participation_flag_updates at h
    injection h with h
    unfold participation_stage; rw [if_neg hf]; exact h.symm

end Zrnt.Proofs.Lemmas
