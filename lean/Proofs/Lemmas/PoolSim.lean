import Proofs.Lemmas.PoolKeyed
import Proofs.Lemmas.PoolSync
import Proofs.Lemmas.PoolAtt
/-!
# The five pools together: simulation between `Pools.step` and `Spec.SPools.step`
-/
set_option linter.unusedSectionVars false
set_option linter.unusedSimpArgs false
namespace Zrnt.Pool
open Zrnt Zrnt.Pool.Spec

namespace Spec
theorem OutEquiv.refl (a : Out) : OutEquiv a a := by
  cases a <;> simp [OutEquiv]

theorem OutEquiv.symm {a b : Out} (h : OutEquiv a b) : OutEquiv b a := by
  cases a <;> cases b <;> simp_all [OutEquiv] <;> exact h.symm

theorem OutEquiv.trans {a b c : Out} (h1 : OutEquiv a b) (h2 : OutEquiv b c) : OutEquiv a c := by
  cases a <;> cases b <;> simp_all [OutEquiv] <;> cases c <;> simp_all [OutEquiv] <;> exact h1.trans h2

theorem OutEquiv.ok_iff {a : Out} : OutEquiv a .ok ↔ a = .ok := by cases a <;> simp [OutEquiv]
theorem OutEquiv.err_iff {a : Out} : OutEquiv a .err ↔ a = .err := by cases a <;> simp [OutEquiv]
theorem OutEquiv.atts_iff {a : Out} {l : List Att} : OutEquiv a (.atts l) ↔ ∃ l', a = .atts l' ∧ l'.Perm l := by
  cases a <;> simp [OutEquiv]
theorem OutEquiv.pairs_iff {a : Out} {l : List (Nat × Nat)} :
    OutEquiv a (.pairs l) ↔ ∃ l', a = .pairs l' ∧ l'.Perm l := by
  cases a <;> simp [OutEquiv]

end Spec

theorem Spec.OutsEquiv.symm {l1 l2 : List Out} (h : OutsEquiv l1 l2) : OutsEquiv l2 l1 := by
  induction h with
  | nil => exact .nil
  | cons hab _ ih => exact .cons (OutEquiv.symm hab) ih

theorem Spec.OutsEquiv.trans {l1 l2 l3 : List Out} (h1 : OutsEquiv l1 l2) (h2 : OutsEquiv l2 l3) :
    OutsEquiv l1 l3 := by
  induction h1 generalizing l3 with
  | nil => exact h2
  | cons hab _ ih =>
    cases h2 with
    | cons hbc h2' => exact .cons (OutEquiv.trans hab hbc) (ih h2')

theorem outOfBool_ne_panic (b : Bool) : outOfBool b ≠ .panic := by cases b <;> simp [outOfBool]

/-- the specification never answers `panic` -/
theorem spec_step_ne_panic (sw : SPools) (op : Op) : (sw.step op).2 ≠ .panic := by
  cases op <;> simp [SPools.step, outOfBool_ne_panic]

theorem Spec.OutEquiv.ne_panic {a b : Out} (h : OutEquiv a b) (hb : b ≠ .panic) : a ≠ .panic := by
  intro e; subst e; cases b <;> simp_all [OutEquiv]

/-- the simulation relation between the model state and the specification state -/
structure PoolsInv (w : Pools) (sw : SPools) : Prop where
  att : AttInv w.att sw.att
  asl : KeyedInv w.asl sw.asl
  psl : KeyedInv w.psl sw.psl
  exits : KeyedInv w.exits sw.exits
  sync : SyncInv w.sync sw.sync

theorem poolsInv_new : PoolsInv (Pools.new Cfg.fixed) SPools.new :=
  ⟨attInv_new, keyedInv_new, keyedInv_new, keyedInv_new, syncInv_new⟩

theorem outOfAdd_ok {σ : Type} (old s : σ) (b : Bool) : outOfAdd old (.ok (s, b)) = (s, outOfBool b) := by
  cases b <;> rfl

theorem step_sim {w : Pools} {sw : SPools} (h : PoolsInv w sw) (op : Op) :
    PoolsInv (w.step Cfg.fixed op).1 (sw.step op).1 ∧ OutEquiv (w.step Cfg.fixed op).2 (sw.step op).2 := by
  cases op with
  | att a c =>
    obtain ⟨p', hp, hinv⟩ := att_add_sim h.att a c
    simp only [Pools.step, SPools.step, hp, outOfAdd_ok]
    exact ⟨⟨hinv, h.asl, h.psl, h.exits, h.sync⟩, OutEquiv.refl _⟩
  | search s i =>
    obtain ⟨l, hl, hperm⟩ := att_search_sim h.att s i
    simp only [Pools.step, SPools.step, hl]
    exact ⟨h, hperm⟩
  | prune e =>
    simp only [Pools.step, SPools.step]
    exact ⟨⟨att_prune_sim h.att e, h.asl, h.psl, h.exits, h.sync⟩, rfl⟩
  | aslash a b =>
    obtain ⟨p', hp, hinv⟩ := keyed_add_sim h.asl (a, b) (a, b)
    simp only [Pools.step, SPools.step, hp, outOfAdd_ok]
    exact ⟨⟨h.att, hinv, h.psl, h.exits, h.sync⟩, OutEquiv.refl _⟩
  | aslashes => exact ⟨h, h.asl.all⟩
  | pslash pr i =>
    obtain ⟨p', hp, hinv⟩ := keyed_add_sim h.psl pr (pr, i)
    simp only [Pools.step, SPools.step, hp, outOfAdd_ok]
    exact ⟨⟨h.att, h.asl, hinv, h.exits, h.sync⟩, OutEquiv.refl _⟩
  | pslashes => exact ⟨h, h.psl.all⟩
  | exit v e =>
    obtain ⟨p', hp, hinv⟩ := keyed_add_sim h.exits v (v, e)
    simp only [Pools.step, SPools.step, hp, outOfAdd_ok]
    exact ⟨⟨h.att, h.asl, h.psl, hinv, h.sync⟩, OutEquiv.refl _⟩
  | exits => exact ⟨h, h.exits.all⟩
  | smsg m =>
    obtain ⟨p', hp, hinv⟩ := sync_addMessage_sim h.sync m
    simp only [Pools.step, SPools.step, hp, outOfAdd_ok]
    exact ⟨⟨h.att, h.asl, h.psl, h.exits, hinv⟩, OutEquiv.refl _⟩
  | scontrib c =>
    obtain ⟨p', hp, hinv⟩ := sync_addContribution_sim h.sync c
    simp only [Pools.step, SPools.step, hp, outOfAdd_ok]
    exact ⟨⟨h.att, h.asl, h.psl, h.exits, hinv⟩, OutEquiv.refl _⟩
  | sreset s =>
    simp only [Pools.step, SPools.step]
    exact ⟨⟨h.att, h.asl, h.psl, h.exits, sync_reset_sim h.sync s⟩, rfl⟩

theorem run_cons (cfg : Cfg) (w : Pools) (op : Op) (ops : List Op) :
    w.run cfg (op :: ops) = (((w.step cfg op).1.run cfg ops).1, (w.step cfg op).2 :: ((w.step cfg op).1.run cfg ops).2) := rfl

theorem srun_cons (sw : SPools) (op : Op) (ops : List Op) :
    sw.run (op :: ops) = (((sw.step op).1.run ops).1, (sw.step op).2 :: ((sw.step op).1.run ops).2) := rfl

theorem run_sim {w : Pools} {sw : SPools} (h : PoolsInv w sw) (ops : List Op) :
    PoolsInv (w.run Cfg.fixed ops).1 (sw.run ops).1 ∧
      OutsEquiv (w.run Cfg.fixed ops).2 (sw.run ops).2 := by
  induction ops generalizing w sw with
  | nil => exact ⟨h, OutsEquiv.nil⟩
  | cons op ops ih =>
    obtain ⟨h1, h2⟩ := step_sim h op
    obtain ⟨h3, h4⟩ := ih h1
    rw [run_cons, srun_cons]
    exact ⟨h3, OutsEquiv.cons h2 h4⟩

theorem srun_ne_panic (sw : SPools) (ops : List Op) : ∀ o ∈ (sw.run ops).2, o ≠ .panic := by
  induction ops generalizing sw with
  | nil => intro o ho; simp [SPools.run] at ho
  | cons op ops ih =>
    intro o ho
    rw [srun_cons] at ho
    rcases List.mem_cons.mp ho with rfl | ho
    · exact spec_step_ne_panic sw op
    · exact ih _ o ho

theorem forall₂_ne_panic {l1 l2 : List Out} (h : OutsEquiv l1 l2) (h2 : ∀ o ∈ l2, o ≠ .panic) :
    ∀ o ∈ l1, o ≠ .panic := by
  induction h with
  | nil => intro o ho; simp at ho
  | cons hab _ ih =>
    intro o ho
    rcases List.mem_cons.mp ho with rfl | ho
    · exact OutEquiv.ne_panic hab (h2 _ List.mem_cons_self)
    · exact ih (fun o ho => h2 o (List.mem_cons_of_mem _ ho)) o ho

theorem run_append (cfg : Cfg) (w : Pools) (l1 l2 : List Op) :
    w.run cfg (l1 ++ l2) = (((w.run cfg l1).1.run cfg l2).1, (w.run cfg l1).2 ++ ((w.run cfg l1).1.run cfg l2).2) := by
  induction l1 generalizing w with
  | nil => rfl
  | cons op l1 ih => simp only [List.cons_append, run_cons, ih, List.cons_append]

theorem srun_append (sw : SPools) (l1 l2 : List Op) :
    sw.run (l1 ++ l2) = (((sw.run l1).1.run l2).1, (sw.run l1).2 ++ ((sw.run l1).1.run l2).2) := by
  induction l1 generalizing sw with
  | nil => rfl
  | cons op l1 ih => simp only [List.cons_append, srun_cons, ih, List.cons_append]

/-! ## map consistency on its own (no reference to the specification) -/

theorem singleRef_target {log : AttSpec} {v e : Nat} {d : AttData} {sig : Nat}
    (h : singleRef log v e = some (d, sig)) : d.target = e := by
  induction log with
  | nil => simp [singleRef] at h
  | cons ev log ih =>
    cases ev with
    | single v' d' s' =>
      rw [singleRef_cons_single] at h
      split at h
      · rename_i hc; cases h; exact hc.2
      · exact ih h
    | agg d' b s c => rw [singleRef_cons_agg] at h; exact ih h

/-- the four indexes of the attestation pool fit together -/
structure AttPool.Consistent (p : AttPool) : Prop where
  datasWF : p.datas.WF
  indWF : p.individual.WF
  aggWF : p.aggregate.WF
  apvWF : p.aggPerValidator.WF
  datasKey : ∀ k v, p.datas.get? k = some v → v.1 = k
  aggSub : ∀ k, k ∈ p.aggregate.keys → k ∈ p.datas.keys
  aggParts : ∀ d m, p.aggregate.get? d = some m → m.aggregates ≠ [] ∧ m.participants = unionAll m.aggregates
  indEpoch : ∀ v e d sig, p.individual.get? (v, e) = some (d, sig) → d.target = e

/-- the six buffers of the sync-committee pool are allocated and each holds only items of its slot -/
structure SyncPool.Consistent (p : SyncPool) : Prop where
  prevM : p.prevMsgs.WF
  curM : p.currentMsgs.WF
  nextM : p.nextMsgs.WF
  prevC : p.prevContribs.WF
  curC : p.currentContribs.WF
  nextC : p.nextContribs.WF
  subWF : ∀ b ∈ [p.prevContribs, p.currentContribs, p.nextContribs], ∀ e ∈ b.entries, e.2.WF
  msgKey : ∀ b ∈ [p.prevMsgs, p.currentMsgs, p.nextMsgs], ∀ e ∈ b.entries, e.1 = e.2.validator
  prevSlotM : ∀ m ∈ msgsOf p.prevMsgs, m.slot = p.currentSlot - 1
  curSlotM : ∀ m ∈ msgsOf p.currentMsgs, m.slot = p.currentSlot
  nextSlotM : ∀ m ∈ msgsOf p.nextMsgs, m.slot = p.currentSlot + 1
  prevSlotC : ∀ c ∈ contribsOf p.prevContribs, c.slot = p.currentSlot - 1
  curSlotC : ∀ c ∈ contribsOf p.currentContribs, c.slot = p.currentSlot
  nextSlotC : ∀ c ∈ contribsOf p.nextContribs, c.slot = p.currentSlot + 1

structure Pools.Consistent (w : Pools) : Prop where
  att : w.att.Consistent
  asl : w.asl.items.WF
  psl : w.psl.items.WF
  exits : w.exits.items.WF
  sync : w.sync.Consistent

theorem msgBufInv_slot {b : MsgBuf} {msgs : List SyncMsg} {slot : UInt64} (h : MsgBufInv b msgs slot) :
    ∀ m ∈ msgsOf b, m.slot = slot := by
  intro m hm; rw [h.eq] at hm
  simpa using (List.mem_filter.mp hm).2

theorem contribBufInv_slot {b : ContribBuf} {cs : List Contrib} {slot : UInt64} (h : ContribBufInv b cs slot) :
    ∀ c ∈ contribsOf b, c.slot = slot := by
  intro c hc
  have := h.perm.mem_iff.mp hc
  simpa using (List.mem_filter.mp this).2

theorem consistent_of_inv {w : Pools} {sw : SPools} (h : PoolsInv w sw) : w.Consistent := by
  refine ⟨⟨h.att.datasWF, h.att.indWF, h.att.aggWF, h.att.apvWF, h.att.datasKey, h.att.aggSub, ?_, ?_⟩,
    h.asl.wf, h.psl.wf, h.exits.wf, ?_⟩
  · intro d m hm
    obtain ⟨h1, h2⟩ := h.att.aggSome d m hm
    refine ⟨?_, by rw [h1, h2]⟩
    rw [h1]; intro e
    rw [(h.att.aggNone d).mpr e] at hm; cases hm
  · intro v e d sig hg
    rw [h.att.ind v e] at hg
    exact singleRef_target hg
  · have hs := h.sync
    refine ⟨hs.prevM.wf, hs.curM.wf, hs.nextM.wf, hs.prevC.wf, hs.curC.wf, hs.nextC.wf, ?_, ?_,
      ?_, ?_, ?_, ?_, ?_, ?_⟩
    · intro b hb
      simp only [List.mem_cons, List.not_mem_nil, or_false] at hb
      rcases hb with rfl | rfl | rfl
      · exact hs.prevC.sub
      · exact hs.curC.sub
      · exact hs.nextC.sub
    · intro b hb
      simp only [List.mem_cons, List.not_mem_nil, or_false] at hb
      rcases hb with rfl | rfl | rfl
      · exact hs.prevM.key
      · exact hs.curM.key
      · exact hs.nextM.key
    · rw [hs.cur]; exact msgBufInv_slot hs.prevM
    · rw [hs.cur]; exact msgBufInv_slot hs.curM
    · rw [hs.cur]; exact msgBufInv_slot hs.nextM
    · rw [hs.cur]; exact contribBufInv_slot hs.prevC
    · rw [hs.cur]; exact contribBufInv_slot hs.curC
    · rw [hs.cur]; exact contribBufInv_slot hs.nextC

end Zrnt.Pool
