import Proofs.Lemmas.BeaconBlockOps
import Proofs.Lemmas.BeaconBlockWF
/-!
# C01/C03 — the attester-slashing loop: an invariant that carries the hypotheses of `slash_eq` from one slashing to the next

`SlashInv … k st`: the facts `slash_eq` / `slash_link` need about a state (`proposer`, `active`, `RegU64`, exit-queue
budget, magnitudes), with room for `k` more slashings. `SlashInv_step` shows that an accepted `slash_validator` of a
slashable validator takes `SlashInv (k+1)` to `SlashInv k`; the exit-queue budget is C02's `qmax + farCount ≤ C`
(`Proofs/Lemmas/C02WF.lean`), which needs no step counter.
-/
set_option linter.unusedSimpArgs false
set_option linter.unusedVariables false
namespace Zrnt.Proofs.BlockM
open Zrnt Zrnt.Beacon Zrnt.Beacon.Spec Zrnt.Beacon.BlockImpl Zrnt.Beacon.BlockM Zrnt.Proofs.BeaconBlock Zrnt.Proofs.Lemmas

theorem filter_length_congr {α} (P : α → Bool) : ∀ (l l' : List α), l.length = l'.length →
    (∀ (j : Nat) (v v' : α), l[j]? = some v → l'[j]? = some v' → P v' = P v) → (l'.filter P).length = (l.filter P).length := by
  intro l
  induction l with
  | nil => intro l' hl _; cases l' with
    | nil => rfl
    | cons _ _ => simp at hl
  | cons a t ih =>
    intro l' hl h
    cases l' with
    | nil => simp at hl
    | cons b t' =>
      have hab : P b = P a := h 0 a b rfl rfl
      have hrec := ih t' (by simpa using hl) (fun j v v' h1 h2 => h (j + 1) v v' (by simpa using h1) (by simpa using h2))
      simp only [List.filter_cons, hab]
      split <;> simp [hrec]

theorem qmax_eq_maxOf (cfg : Config) (cur : Nat) (vals : List Validator) :
    qmax cfg cur vals = maxOf (compute_activation_exit_epoch cfg cur) (vals.map (·.exit_epoch)) := by
  unfold qmax exits; exact spec_max_eq vals _

/-- the facts the slashing theorems need about a state, with room for `k` more slashings -/
structure SlashInv (cfg : Config) (s0 : State) (p A Bm C k : Nat) (st : State) : Prop where
  slot : st.slot = s0.slot
  fork : st.fork = s0.fork
  proposer : Block.get_beacon_proposer_index cfg st = .ok p
  active : (st.validators.filter (is_active_validator · (s0.slot / cfg.SLOTS_PER_EPOCH))).length = A
  budget : qmax cfg (s0.slot / cfg.SLOTS_PER_EPOCH) st.validators + farCount st.validators ≤ C
  reg : RegU64 st.validators
  eff : ∀ v ∈ st.validators, v.effective_balance ≤ Bm
  slashings : ∀ x ∈ st.slashings, x + k * Bm < 2 ^ 64
  balances : ∀ b ∈ st.balances, b + k * (2 * Bm) < 2 ^ 64
  slen : st.slashings.length = cfg.EPOCHS_PER_SLASHINGS_VECTOR

theorem SlashInv.mono {cfg : Config} {s0 : State} {p A Bm C k : Nat} {st : State}
    (h : SlashInv cfg s0 p A Bm C (k + 1) st) : SlashInv cfg s0 p A Bm C k st :=
  { h with
    slashings := fun x hx => by have := h.slashings x hx; rw [Nat.succ_mul] at this; omega
    balances := fun b hb => by have := h.balances b hb; rw [Nat.succ_mul] at this; omega }

theorem SlashInv.small {cfg : Config} {s0 : State} {p A Bm C k : Nat} {st : State}
    (h : SlashInv cfg s0 p A Bm C (k + 1) st)
    (hC : C + 1 + cfg.MIN_VALIDATOR_WITHDRAWABILITY_DELAY < 2 ^ 64)
    (hepoch : s0.slot / cfg.SLOTS_PER_EPOCH + cfg.EPOCHS_PER_SLASHINGS_VECTOR < 2 ^ 64)
    (hBm : Bm * PROPOSER_WEIGHT < 2 ^ 64) : ExitSmall cfg st ∧ SlashSmall cfg st := by
  constructor
  · unfold ExitSmall
    have := h.budget
    rw [qmax_eq_maxOf] at this
    unfold compute_activation_exit_epoch at this
    rw [h.slot]; omega
  · refine ⟨by rw [h.slot]; exact hepoch, ?_, ?_, ?_, h.slen⟩
    · intro x hx v hv
      have h1 := h.slashings x hx; have h2 := h.eff v hv
      rw [Nat.succ_mul] at h1; omega
    · intro b hb v hv
      have h1 := h.balances b hb; have h2 := h.eff v hv
      rw [Nat.succ_mul] at h1; omega
    · intro v hv
      have h2 := h.eff v hv
      exact Nat.lt_of_le_of_lt (Nat.mul_le_mul_right _ h2) hBm


/-- one `initiate_validator_exit` keeps the exit-queue budget, the `uint64` range of the registry epochs and the bound
on effective balances -/
theorem ive_inv (cfg : Config) (cur C Bm : Nat) (vals : List Validator) (i : Nat) (v0 : Validator)
    (hv0 : vals[i]? = some v0) (hact : v0.exit_epoch = FAR_FUTURE_EPOCH → is_active_validator v0 cur = true)
    (hb : qmax cfg cur vals + farCount vals ≤ C) (hC : C + 1 + cfg.MIN_VALIDATOR_WITHDRAWABILITY_DELAY < 2 ^ 64)
    (hreg : RegU64 vals) (heff : ∀ v ∈ vals, v.effective_balance ≤ Bm) :
    qmax cfg cur (initiate_validator_exit_pure cfg cur vals i) + farCount (initiate_validator_exit_pure cfg cur vals i) ≤ C ∧
    RegU64 (initiate_validator_exit_pure cfg cur vals i) ∧
    (∀ v ∈ initiate_validator_exit_pure cfg cur vals i, v.effective_balance ≤ Bm) := by
  rw [ive_unfold]
  simp only [hv0]
  split
  · exact ⟨hb, hreg, heff⟩
  · rename_i hfar
    have hfar' : v0.exit_epoch = FAR_FUTURE_EPOCH := by simpa using hfar
    have hu := hact hfar'
    have hpos : 1 ≤ farCount vals := by
      unfold farCount qcount
      apply List.length_pos_of_mem (a := v0)
      exact List.mem_filter.mpr ⟨List.mem_of_getElem? hv0, by simp [hfar']⟩
    have hnext : next cfg cur vals ≤ qmax cfg cur vals + 1 := by unfold next; split <;> omega
    have hE : next cfg cur vals ≠ FAR_FUTURE_EPOCH := by unfold FAR_FUTURE_EPOCH; omega
    obtain ⟨hge, hcur⟩ := next_ge cfg cur vals
    obtain ⟨hq, _, _⟩ := set_exit_summaries cfg cur vals i v0 (next cfg cur vals) hv0 hfar' hE hu hcur
    have hf := farCount_set cfg vals i v0 (next cfg cur vals) hv0 hfar' hE
    refine ⟨by rw [hq]; omega, ?_, ?_⟩
    · intro w hw
      rcases List.mem_or_eq_of_mem_set hw with h | h
      · exact hreg w h
      · subst h; unfold exited; simp only; constructor <;> omega
    · intro w hw
      rcases List.mem_or_eq_of_mem_set hw with h | h
      · exact heff w h
      · subst h; unfold exited; simp only; exact heff v0 (List.mem_of_getElem? hv0)

/-- an accepted `slash_validator` of a slashable validator uses up one unit of the slashing budget of `SlashInv` -/
theorem SlashInv_step {cfg : Config} {s0 : State} {p A Bm C k : Nat} {st st' : State} (i : Nat) (v0 : Validator)
    (h : SlashInv cfg s0 p A Bm C (k + 1) st)
    (hC : C + 1 + cfg.MIN_VALIDATOR_WITHDRAWABILITY_DELAY < 2 ^ 64)
    (hepoch : s0.slot / cfg.SLOTS_PER_EPOCH + cfg.EPOCHS_PER_SLASHINGS_VECTOR < 2 ^ 64)
    (hv0 : st.validators[i]? = some v0) (hsl : is_slashable_validator v0 (s0.slot / cfg.SLOTS_PER_EPOCH) = true)
    (hok : Block.slash_validator_pure cfg st i p = some st') : SlashInv cfg s0 p A Bm C k st' := by
  obtain ⟨v, sl, b, nb, pb, pr, W, hv, hvals, hslv, hslash, hb, hnb, hpb, hpr, hW, hbal, hslot, hmix, hfork⟩ :=
    slash_pure_shape cfg st st' i p hok
  rw [h.slot] at hv hvals hslv hslash
  have hz1 : cfg.EPOCHS_PER_SLASHINGS_VECTOR ≠ 0 := by
    intro h0
    have hl := h.slen; rw [h0] at hl
    have := (List.getElem?_eq_some_iff.mp hslv).1; omega
  have hcurfar : s0.slot / cfg.SLOTS_PER_EPOCH < FAR_FUTURE_EPOCH := by unfold FAR_FUTURE_EPOCH; omega
  unfold is_slashable_validator at hsl
  simp only [Bool.and_eq_true, Bool.not_eq_true', decide_eq_true_eq] at hsl
  have hact : v0.exit_epoch = FAR_FUTURE_EPOCH → is_active_validator v0 (s0.slot / cfg.SLOTS_PER_EPOCH) = true := by
    intro hf; unfold is_active_validator; rw [hf]; simp [hsl.1.2, hcurfar]
  obtain ⟨hbud, hreg, heff⟩ := ive_inv cfg _ C Bm st.validators i v0 hv0 hact h.budget hC h.reg h.eff
  generalize hive : initiate_validator_exit_pure cfg (s0.slot / cfg.SLOTS_PER_EPOCH) st.validators i = ive at *
  have hvm : v ∈ ive := List.mem_of_getElem? hv
  have hmap : (st'.validators).map (·.exit_epoch) = ive.map (·.exit_epoch) := by
    rw [hvals]; exact map_set_same (·.exit_epoch) ive i v _ hv rfl
  have hduties : SameDuties cfg st st' := by
    apply sameDuties_slashed cfg st st' i _ (by rw [h.slot]; exact hcurfar) hslot hmix
    · rw [h.slot, hive]; exact hvals
    · intro w hw; rw [h.slot, hive, hv] at hw; cases hw; exact ⟨rfl, rfl, rfl⟩
  refine ⟨by rw [hslot, h.slot], by rw [hfork, h.fork], ?_, ?_, ?_, ?_, ?_, ?_, ?_, ?_⟩
  · rw [proposer_frame cfg st st' hduties]; exact h.proposer
  · rw [← h.active]
    apply filter_length_congr _ _ _ hduties.2.2.1.symm
    intro j w w' h1 h2
    have := (hduties.2.2.2 j w w' h1 h2).2
    unfold get_current_epoch compute_epoch_at_slot at this
    rw [h.slot] at this; exact this
  · rw [qmax_congr cfg _ _ _ hmap]
    unfold farCount
    rw [(exits_congr _ _ hmap).2]
    exact hbud
  · rw [hvals]
    intro w hw
    rcases List.mem_or_eq_of_mem_set hw with h1 | h1
    · exact hreg w h1
    · subst h1
      have := hreg v hvm
      simp only
      constructor
      · exact this.1
      · have := this.2; omega
  · rw [hvals]
    intro w hw
    rcases List.mem_or_eq_of_mem_set hw with h1 | h1
    · exact heff w h1
    · subst h1; exact heff v hvm
  · rw [hslash]
    intro x hx
    have hE := heff v hvm
    rcases List.mem_or_eq_of_mem_set hx with h1 | h1
    · have := h.slashings x h1; rw [Nat.succ_mul] at this; omega
    · subst h1
      have := h.slashings sl (List.mem_of_getElem? hslv); rw [Nat.succ_mul] at this; omega
  · rw [hbal]
    have hE := heff v hvm
    have hold : ∀ x ∈ st.balances, x + k * (2 * Bm) + 2 * Bm < 2 ^ 64 := by
      intro x hx; have := h.balances x hx; rw [Nat.succ_mul] at this; omega
    have h1 : ∀ x ∈ st.balances.set i nb, x + k * (2 * Bm) + 2 * Bm < 2 ^ 64 := by
      intro x hx
      rcases List.mem_or_eq_of_mem_set hx with h1 | h1
      · exact hold x h1
      · subst h1; have := hold b (List.mem_of_getElem? hb); omega
    have hpbm := h1 pb (List.mem_of_getElem? hpb)
    intro x hx
    rcases List.mem_or_eq_of_mem_set hx with h2 | h2
    · rcases List.mem_or_eq_of_mem_set h2 with h3 | h3
      · have := h1 x h3; omega
      · subst h3; omega
    · subst h2; omega
  · rw [hslash, List.length_set]; exact h.slen


theorem toRes_foldlM {α β} (f : β → α → SM β) : ∀ (l : List α) (b : β),
    toRes (l.foldlM f b) = l.foldlM (fun b a => toRes (f b a)) b := by
  intro l
  induction l with
  | nil => intro b; rfl
  | cons a t ih =>
    intro b
    simp only [List.foldlM_cons]
    rw [toRes_bind]
    congr 1
    funext b'
    exact ih b'

/-- the callback of `ZigZagJoin` in `ProcessAttesterSlashing` -/
def slashStepM (cfg : Config) (ctx : Ctx) (cur : Nat) (acc : State × Bool) (i : Nat) : Res (State × Bool) := do
  let validator ← rget acc.1.validators i
  if isSlashable validator cur then
    let s' ← slashValidator cfg ctx acc.1 i
    pure (s', true)
  else pure acc

/-- the loop body of `process_attester_slashing` -/
def slashStepS (cfg : Config) (acc : State × Bool) (index : Nat) : SM (State × Bool) := do
  if is_slashable_validator (← idx acc.1.validators index "validators") (get_current_epoch cfg acc.1) then
    pure ((← Block.slash_validator cfg acc.1 index), true)
  else pure acc

theorem slash_step (cfg : Config) (ctx : Ctx) (s0 : State) (p A Bm C k : Nat) (st : State) (b : Bool) (i : Nat)
    (hp : ctx.proposer = some p) (hA : ctx.activeCount = A)
    (hq : cfg.CHURN_LIMIT_QUOTIENT ≠ 0)
    (hz : cfg.EPOCHS_PER_SLASHINGS_VECTOR ≠ 0 ∧ min_slashing_penalty_quotient cfg s0.fork ≠ 0 ∧
          cfg.WHISTLEBLOWER_REWARD_QUOTIENT ≠ 0 ∧ cfg.PROPOSER_REWARD_QUOTIENT ≠ 0)
    (hC : C + 1 + cfg.MIN_VALIDATOR_WITHDRAWABILITY_DELAY < 2 ^ 64)
    (hepoch : s0.slot / cfg.SLOTS_PER_EPOCH + cfg.EPOCHS_PER_SLASHINGS_VECTOR < 2 ^ 64)
    (hBm : Bm * PROPOSER_WEIGHT < 2 ^ 64)
    (h : SlashInv cfg s0 p A Bm C (k + 1) st) :
    slashStepM cfg ctx (s0.slot / cfg.SLOTS_PER_EPOCH) (st, b) i = toRes (slashStepS cfg (st, b) i) ∧
    ∀ st' b', toRes (slashStepS cfg (st, b) i) = Res.ok (st', b') → SlashInv cfg s0 p A Bm C k st' := by
  obtain ⟨hes, hss⟩ := h.small hC hepoch hBm
  have hz' : cfg.EPOCHS_PER_SLASHINGS_VECTOR ≠ 0 ∧ min_slashing_penalty_quotient cfg st.fork ≠ 0 ∧
      cfg.WHISTLEBLOWER_REWARD_QUOTIENT ≠ 0 ∧ cfg.PROPOSER_REWARD_QUOTIENT ≠ 0 := by rw [h.fork]; exact hz
  have hact : ctx.activeCount = (st.validators.filter (is_active_validator · (st.slot / cfg.SLOTS_PER_EPOCH))).length := by
    rw [hA, h.slot, h.active]
  unfold slashStepM slashStepS get_current_epoch compute_epoch_at_slot
  simp only [toRes_bind, toRes_idx, rget_bind, h.slot, isSlashable_eq]
  cases hv : st.validators[i]? with
  | none => exact ⟨rfl, fun _ _ hh => by cases hh⟩
  | some v =>
    simp only []
    cases hsl : is_slashable_validator v (s0.slot / cfg.SLOTS_PER_EPOCH) with
    | false =>
      simp only [Bool.false_eq_true, if_false, toRes_pure]
      refine ⟨rfl, fun st' b' hh => ?_⟩
      cases hh
      exact h.mono
    | true =>
      simp only [if_true, toRes_bind, toRes_pure]
      rw [slash_S_eq cfg ctx st i p hp h.proposer hact hq h.reg hes hss hz']
      refine ⟨rfl, fun st' b' hh => ?_⟩
      rw [slash_link cfg st i p h.proposer hq h.reg hes hss hz'] at hh
      cases hpure : Block.slash_validator_pure cfg st i p with
      | none => rw [hpure] at hh; cases hh
      | some st2 =>
        rw [hpure] at hh
        simp only [optRes, res_bind_ok] at hh
        cases hh
        exact SlashInv_step i v h hC hepoch hv hsl hpure

theorem slash_fold_eq (cfg : Config) (ctx : Ctx) (s0 : State) (p A Bm C : Nat)
    (hp : ctx.proposer = some p) (hA : ctx.activeCount = A)
    (hq : cfg.CHURN_LIMIT_QUOTIENT ≠ 0)
    (hz : cfg.EPOCHS_PER_SLASHINGS_VECTOR ≠ 0 ∧ min_slashing_penalty_quotient cfg s0.fork ≠ 0 ∧
          cfg.WHISTLEBLOWER_REWARD_QUOTIENT ≠ 0 ∧ cfg.PROPOSER_REWARD_QUOTIENT ≠ 0)
    (hC : C + 1 + cfg.MIN_VALIDATOR_WITHDRAWABILITY_DELAY < 2 ^ 64)
    (hepoch : s0.slot / cfg.SLOTS_PER_EPOCH + cfg.EPOCHS_PER_SLASHINGS_VECTOR < 2 ^ 64)
    (hBm : Bm * PROPOSER_WEIGHT < 2 ^ 64) :
    ∀ (l : List Nat) (st : State) (b : Bool), SlashInv cfg s0 p A Bm C l.length st →
      l.foldlM (slashStepM cfg ctx (s0.slot / cfg.SLOTS_PER_EPOCH)) (st, b) =
        l.foldlM (fun acc i => toRes (slashStepS cfg acc i)) (st, b) := by
  intro l
  induction l with
  | nil => intro st b _; rfl
  | cons i t ih =>
    intro st b h
    simp only [List.foldlM_cons]
    obtain ⟨h1, h2⟩ := slash_step cfg ctx s0 p A Bm C t.length st b i hp hA hq hz hC hepoch hBm h
    rw [h1]
    cases hr : toRes (slashStepS cfg (st, b) i) with
    | ok r =>
      obtain ⟨st', b'⟩ := r
      simp only [res_bind_ok]
      exact ih st' b' (h2 st' b' hr)
    | err => rfl
    | panic => rfl
    | outOfFuel => rfl


theorem SlashInv.mono_le {cfg : Config} {s0 : State} {p A Bm C : Nat} {st : State} :
    ∀ (k k' : Nat), k ≤ k' → SlashInv cfg s0 p A Bm C k' st → SlashInv cfg s0 p A Bm C k st := by
  intro k k' hle
  induction hle with
  | refl => exact id
  | step _ ih => intro h; exact ih h.mono

/-- `S`'s `require (is_valid_indexed_attestation …)` as a Boolean guard -/
theorem spec_valid_indexed_res (s : State) (indices : List Nat) (sig : Bool) (m : String) :
    toRes (do let ok ← Block.is_valid_indexed_attestation s indices sig; require ok m) =
      BlockM.guard (Block.valid_indexed_pure s indices sig) := by
  unfold Block.is_valid_indexed_attestation Block.valid_indexed_pure
  by_cases h0 : indices.length = 0
  · simp [h0, toRes_bind, pure, Except.pure, bind, Except.bind, toRes, require, invalid, throw, throwThe, MonadExceptOf.throw, BlockM.guard]
  · by_cases hs : Block.sortedUnique indices = true
    · simp only [h0, hs, decide_false, Bool.not_true, Bool.or_self, Bool.false_eq_true, if_false, ne_eq, not_false_eq_true,
        decide_true, Bool.true_and]
      by_cases hr : ∀ i ∈ indices, i < s.validators.length
      · obtain ⟨r, hm⟩ := (mapM_idx_ok s.validators "indexed_attestation.index_out_of_range" indices).mpr hr
        have hall : indices.all (fun x => decide (x < s.validators.length)) = true := by
          simp only [List.all_eq_true, decide_eq_true_eq]; exact hr
        simp only [hm, hall, Bool.true_and, bind, Except.bind, pure, Except.pure]
        cases sig <;> rfl
      · have hall : indices.all (fun x => decide (x < s.validators.length)) = false := by
          cases hq : indices.all (fun x => decide (x < s.validators.length)) with
          | false => rfl
          | true =>
            simp only [List.all_eq_true, decide_eq_true_eq] at hq
            exact absurd hq hr
        cases hm : List.mapM (fun i => idx s.validators i "indexed_attestation.index_out_of_range") indices with
        | ok r => exact absurd ((mapM_idx_ok s.validators _ indices).mp ⟨r, hm⟩) hr
        | error e => simp [hall, bind, Except.bind, toRes, BlockM.guard]
    · have hs' : Block.sortedUnique indices = false := by simpa using hs
      simp [h0, hs', toRes_bind, pure, Except.pure, bind, Except.bind, toRes, require, invalid, throw, throwThe, MonadExceptOf.throw, BlockM.guard]


theorem valid_res_bind {β} (s : State) (indices : List Nat) (sig : Bool) (X : Res β) :
    (toRes (Block.is_valid_indexed_attestation s indices sig) >>= fun a => if a = true then X else Res.err) =
      if Block.valid_indexed_pure s indices sig = true then X else Res.err := by
  have h := spec_valid_indexed_res s indices sig ""
  rw [toRes_bind] at h
  simp only [toRes_require] at h
  cases hr : toRes (Block.is_valid_indexed_attestation s indices sig) with
  | ok a =>
    rw [hr] at h
    simp only [res_bind_ok] at h ⊢
    cases a <;> cases hv : Block.valid_indexed_pure s indices sig <;> simp_all [BlockM.guard]
  | err =>
    rw [hr] at h
    cases hv : Block.valid_indexed_pure s indices sig <;> simp_all [BlockM.guard, bind, Res.bind]
  | panic =>
    rw [hr] at h
    cases hv : Block.valid_indexed_pure s indices sig <;> simp_all [BlockM.guard, bind, Res.bind]
  | outOfFuel =>
    rw [hr] at h
    cases hv : Block.valid_indexed_pure s indices sig <;> simp_all [BlockM.guard, bind, Res.bind]

/-- (d) `phase0.ProcessAttesterSlashing` = `process_attester_slashing`, accept/reject and post-state: slashable-data
predicate, both indexed attestations, `ZigZagJoin` = the sorted intersection, and the slashings in that order — the
hypotheses of every single `slash_validator` are re-established from one slashing to the next by `SlashInv`. -/
theorem attesterSlashing_eq (cfg : Config) (ctx : Ctx) (s : State) (op : AttesterSlashing) (p Bm C : Nat)
    (hp : ctx.proposer = some p)
    (hinv : SlashInv cfg s p ctx.activeCount Bm C cfg.MAX_VALIDATORS_PER_COMMITTEE s)
    (hlen1 : op.attestation_1.attesting_indices.length ≤ cfg.MAX_VALIDATORS_PER_COMMITTEE)
    (hlen2 : op.attestation_2.attesting_indices.length ≤ cfg.MAX_VALIDATORS_PER_COMMITTEE)
    (hvl : s.validators.length ≤ marker)
    (hq : cfg.CHURN_LIMIT_QUOTIENT ≠ 0)
    (hz : cfg.EPOCHS_PER_SLASHINGS_VECTOR ≠ 0 ∧ min_slashing_penalty_quotient cfg s.fork ≠ 0 ∧
          cfg.WHISTLEBLOWER_REWARD_QUOTIENT ≠ 0 ∧ cfg.PROPOSER_REWARD_QUOTIENT ≠ 0)
    (hC : C + 1 + cfg.MIN_VALIDATOR_WITHDRAWABILITY_DELAY < 2 ^ 64)
    (hepoch : s.slot / cfg.SLOTS_PER_EPOCH + cfg.EPOCHS_PER_SLASHINGS_VECTOR < 2 ^ 64)
    (hBm : Bm * PROPOSER_WEIGHT < 2 ^ 64) :
    processAttesterSlashing cfg ctx s op = toRes (Block.process_attester_slashing cfg s op) := by
  unfold processAttesterSlashing Block.process_attester_slashing
  simp only []
  rw [validateIndexed_eq cfg s _ _ hlen1, validateIndexed_eq cfg s _ _ hlen2, slashable_eq]
  simp only [toRes_bind, toRes_require, guard_bind]
  by_cases hd : Block.is_slashable_attestation_data op.attestation_1.data op.attestation_2.data = true
  · simp only [hd, if_true]
    rw [valid_res_bind]
    by_cases h1 : Block.valid_indexed_pure s op.attestation_1.attesting_indices op.attestation_1.sig_ok = true
    · simp only [h1, if_true]
      rw [valid_res_bind]
      by_cases h2 : Block.valid_indexed_pure s op.attestation_2.attesting_indices op.attestation_2.sig_ok = true
      · simp only [h2, if_true]
        unfold Block.valid_indexed_pure at h1 h2
        simp only [Bool.and_eq_true, List.all_eq_true, decide_eq_true_eq] at h1 h2
        have hp1 := (sortedUnique_iff_pairwise _).mp h1.1.1.2
        have hp2 := (sortedUnique_iff_pairwise _).mp h2.1.1.2
        have hm : ∀ x ∈ op.attestation_1.attesting_indices, x < marker := fun x hx => by
          have := h1.1.2 x hx; omega
        rw [zigzagIn_eq_filter _ _ hp1 hp2 hm, sortedIntersection_eq_filter _ _ hp1]
        simp only [res_bind_ok]
        generalize hl : op.attestation_1.attesting_indices.filter (op.attestation_2.attesting_indices.contains ·) = l
        have hll : l.length ≤ cfg.MAX_VALIDATORS_PER_COMMITTEE := by
          rw [← hl]; exact Nat.le_trans (List.length_filter_le _ _) hlen1
        rw [toRes_foldlM]
        have hfold := slash_fold_eq cfg ctx s p ctx.activeCount Bm C hp rfl hq hz hC hepoch hBm l s false
          (SlashInv.mono_le _ _ hll hinv)
        have hM : (fun (acc : State × Bool) i => do
              let validator ← rget acc.1.validators i
              if isSlashable validator (s.slot / cfg.SLOTS_PER_EPOCH) = true then do
                  let s' ← slashValidator cfg ctx acc.1 i
                  pure (s', true)
                else pure acc) = slashStepM cfg ctx (s.slot / cfg.SLOTS_PER_EPOCH) := rfl
        rw [hM, hfold]
        rfl
      · simp only [h2, Bool.false_eq_true, if_false]
    · simp only [h1, Bool.false_eq_true, if_false]
  · simp only [hd, Bool.false_eq_true, if_false]

/-- one `initiate_validator_exit` keeps the exit-queue budget, and the validator has an exit epoch afterwards -/
theorem ive_budget (cfg : Config) (cur C : Nat) (vals : List Validator) (i : Nat) (v0 : Validator)
    (hv0 : vals[i]? = some v0) (hact : v0.exit_epoch = FAR_FUTURE_EPOCH → is_active_validator v0 cur = true)
    (hb : qmax cfg cur vals + farCount vals ≤ C) (hC : C < FAR_FUTURE_EPOCH) :
    qmax cfg cur (initiate_validator_exit_pure cfg cur vals i) + farCount (initiate_validator_exit_pure cfg cur vals i) ≤ C ∧
    ∀ v, (initiate_validator_exit_pure cfg cur vals i)[i]? = some v → v.exit_epoch ≠ FAR_FUTURE_EPOCH := by
  rw [ive_unfold]
  simp only [hv0]
  split
  · rename_i hne
    refine ⟨hb, fun v hv => ?_⟩
    rw [hv0] at hv; cases hv; exact hne
  · rename_i hfar
    have hfar' : v0.exit_epoch = FAR_FUTURE_EPOCH := by simpa using hfar
    have hu := hact hfar'
    have hpos : 1 ≤ farCount vals := by
      unfold farCount qcount
      apply List.length_pos_of_mem (a := v0)
      exact List.mem_filter.mpr ⟨List.mem_of_getElem? hv0, by simp [hfar']⟩
    have hnext : next cfg cur vals ≤ qmax cfg cur vals + 1 := by unfold next; split <;> omega
    have hE : next cfg cur vals ≠ FAR_FUTURE_EPOCH := by omega
    obtain ⟨hge, hcur⟩ := next_ge cfg cur vals
    obtain ⟨hq, _, _⟩ := set_exit_summaries cfg cur vals i v0 (next cfg cur vals) hv0 hfar' hE hu hcur
    have hf := farCount_set cfg vals i v0 (next cfg cur vals) hv0 hfar' hE
    refine ⟨by rw [hq]; omega, fun v hv => ?_⟩
    have hlt : i < vals.length := (List.getElem?_eq_some_iff.mp hv0).1
    rw [List.getElem?_set_self hlt] at hv
    cases hv
    exact hE

/-- the registry invariant `WF` of C02 and its exit-queue budget under an accepted `slash_validator` of a slashable
validator (what proposer and attester slashings do) -/
theorem WF_slash (cfg : Config) (st st' : State) (i p C : Nat) (v0 : Validator)
    (hwf : WF st.validators) (hb : qmax cfg (st.slot / cfg.SLOTS_PER_EPOCH) st.validators + farCount st.validators ≤ C)
    (hC : C < FAR_FUTURE_EPOCH)
    (hv0 : st.validators[i]? = some v0) (hsl : is_slashable_validator v0 (st.slot / cfg.SLOTS_PER_EPOCH) = true)
    (hok : Block.slash_validator_pure cfg st i p = some st') :
    WF st'.validators ∧ qmax cfg (st.slot / cfg.SLOTS_PER_EPOCH) st'.validators + farCount st'.validators ≤ C ∧
    st'.validators.length = st.validators.length ∧ st'.balances.length = st.balances.length ∧ st'.slot = st.slot := by
  obtain ⟨v, sl, b, nb, pb, pr, W, hv, hvals, hslv, hslash, hbb, hnb, hpb, hpr, hW, hbal, hslot, hmix, hfork⟩ :=
    slash_pure_shape cfg st st' i p hok
  unfold is_slashable_validator at hsl
  simp only [Bool.and_eq_true, Bool.not_eq_true', decide_eq_true_eq] at hsl
  generalize hcur : st.slot / cfg.SLOTS_PER_EPOCH = cur at *
  have hcurfar : cur < FAR_FUTURE_EPOCH := by
    have := cae_le_qmax cfg cur st.validators
    unfold compute_activation_exit_epoch at this; omega
  have hwfi : WF (initiate_validator_exit_pure cfg cur st.validators i) := by
    apply WF_initiate_exit cfg cur _ _ hwf
    intro v' hv'; rw [hv0] at hv'; cases hv'
    unfold compute_activation_exit_epoch; omega
  have hact : v0.exit_epoch = FAR_FUTURE_EPOCH → is_active_validator v0 cur = true := by
    intro hf; unfold is_active_validator; rw [hf]; simp [hsl.1.2, hcurfar]
  obtain ⟨hbud, hexit⟩ := ive_budget cfg cur C st.validators i v0 hv0 hact hb hC
  generalize hive : initiate_validator_exit_pure cfg cur st.validators i = ive at *
  have hmap : (st'.validators).map (·.exit_epoch) = ive.map (·.exit_epoch) := by
    rw [hvals]; exact map_set_same (·.exit_epoch) ive i v _ hv rfl
  have hwv := WF_getElem? ive i v hwfi hv
  refine ⟨?_, ?_, ?_, ?_, hslot⟩
  · rw [hvals]
    apply WF_set _ _ _ hwfi
    refine ⟨fun _ => hexit v hv, ?_, hwv.2.2⟩
    have := hwv.2.1
    simp only; omega
  · rw [qmax_congr cfg _ _ _ hmap]
    unfold farCount
    rw [(exits_congr _ _ hmap).2]
    exact hbud
  · rw [hvals, List.length_set, ← hive, initiate_pure_length]
  · rw [hbal]; simp
end Zrnt.Proofs.BlockM
