import Proofs.Lemmas.Ctx
import Proofs.Properties.C07
import Proofs.Lemmas.C02Link
import Zrnt.Beacon.Impl.Resolve
/-! C02 ↔ C07: the executable specification functions of C02 (`compute_shuffled_index`, `compute_committee`,
`get_beacon_committee` of `Zrnt/Beacon/Spec/Helpers.lean`) return what C06/C07's specification functions return, and
what the LIVE epochs context (`Committees.Ctx`, `epc.GetBeaconCommittee`) answers; hence the pending attestations as
`M` resolves them through the context are the `ResolvedAtt` / `FlagAtt` the specification computes. -/
namespace Zrnt.Proofs.Lemmas
open Zrnt Zrnt.Beacon Zrnt.Beacon.Spec Zrnt.Beacon.Ctx Zrnt.Proofs.Ctx

/-- **the SHA-256 transcription returns 32 bytes** for every input (its last loop pushes 4 bytes for each of the 8 state
words) — the hypothesis `hH` of the C06/C07 theorems, discharged for the hash function all Lean models here use -/
theorem spec_hash_size (msg : Bytes) : (Spec.hash msg).size = 32 := by
  show (Zrnt.Sha256.hash msg).size = 32
  unfold Zrnt.Sha256.hash
  simp only [Id.run, bind, pure]
  generalize (forIn (m := Id) [0:(Zrnt.Sha256.pad msg).size / 64] Zrnt.Sha256.H0 _) = h
  rw [Std.Legacy.Range.forIn_eq_forIn_range']
  simp only [Std.Legacy.Range.size, Nat.sub_zero, Nat.add_sub_cancel, Nat.div_one]
  have : List.range' 0 8 1 = [0,1,2,3,4,5,6,7] := by decide
  rw [this]
  simp only [List.forIn_cons, List.forIn_nil, bind, pure]
  simp [ByteArray.size_push, ByteArray.emptyWithCapacity]
  rfl

/-- one round of `compute_shuffled_index` as the executable specification of C02 writes it -/
def csiStep (n : Nat) (seed : Bytes) (current_round index : Nat) : Nat :=
  let r := uintToBytes 1 current_round
  let pivot := bytesToUint64 (Spec.hash (seed ++ r)) % n
  let flip := (pivot + n - index) % n
  let position := max index flip
  let source := Spec.hash (seed ++ r ++ uintToBytes 4 (position / 256))
  let byte := (source.get! ((position % 256) / 8)).toNat
  let bit := (byte >>> (position % 8)) % 2
  if bit = 1 then flip else index

theorem compute_shuffled_index_ok {cfg : Config} {i n : Nat} {seed : Bytes} {x : Nat}
    (h : compute_shuffled_index cfg i n seed = .ok x) :
    i < n ∧ x = (List.range cfg.SHUFFLE_ROUND_COUNT).foldl (fun b a => csiStep n seed a b) i := by
  unfold compute_shuffled_index at h
  simp only [bind, Except.bind, require] at h
  by_cases hi : i < n
  · simp only [hi, decide_true, if_true, pure, Except.pure] at h
    rw [Std.Legacy.Range.forIn_eq_forIn_range'] at h
    have := List.forIn_pure_yield_eq_foldl (m := SM) (l := List.range' 0 cfg.SHUFFLE_ROUND_COUNT 1)
      (fun a b => csiStep n seed a b) i
    simp only [Std.Legacy.Range.size, Nat.sub_zero, Nat.add_sub_cancel, Nat.div_one] at h
    unfold csiStep at this
    simp only [pure, Except.pure] at this
    rw [this] at h
    simp only [] at h
    injection h with h
    refine ⟨hi, ?_⟩
    rw [← h, List.range_eq_range']
    rfl
  · simp [hi, invalid] at h

theorem range8 : List.range 8 = [0,1,2,3,4,5,6,7] := by simp [List.range, List.range.loop]
theorem le8 (b0 b1 b2 b3 b4 b5 b6 b7 : Nat) : 0 + b0 * 256 ^ 0 + b1 * 256 ^ 1 + b2 * 256 ^ 2 + b3 * 256 ^ 3 + b4 * 256 ^ 4 + b5 * 256 ^ 5 + b6 * 256 ^ 6 +
      b7 * 256 ^ 7 =
    b0 + 256 * (b1 + 256 * (b2 + 256 * (b3 + 256 * (b4 + 256 * (b5 + 256 * (b6 + 256 * b7)))))) := by
  simp only [Nat.reducePow]
  omega
theorem bytesToUint64_eq (b : Bytes) : bytesToUint64 b = Zrnt.Shuffle.leUint64 b := by
  unfold bytesToUint64 Zrnt.Shuffle.leUint64 Zrnt.Shuffle.byteAt
  rw [range8]
  repeat rw [List.foldl_cons]
  rw [List.foldl_nil]
  exact le8 _ _ _ _ _ _ _ _

theorem csiStep_lt {n : Nat} {seed : Bytes} {r x : Nat} (hx : x < n) : csiStep n seed r x < n := by
  unfold csiStep
  simp only []
  split
  · exact Nat.mod_lt _ (by omega)
  · exact hx

theorem ite_bit {α : Type} (b : Nat) (A B : α) : (if b % 2 ≠ 0 then A else B) = if b % 2 = 1 then A else B := by
  rcases Nat.mod_two_eq_zero_or_one b with hb | hb <;> simp [hb]

theorem specStep_eq_csiStep (hH : ∀ x, (Spec.hash x).size = 32) {seed : Bytes} {n r x : Nat}
    (hr : r < 256) (hx : x < n) (hn : n ≤ 2 ^ 40) :
    Zrnt.Proofs.Shuffle.specStep Spec.hash n seed x r = some (csiStep n seed r x) := by
  unfold Zrnt.Proofs.Shuffle.specStep csiStep
  have h1 : r < 2 ^ 8 := by omega
  simp only [h1, not_true_eq_false, if_false]
  rw [Zrnt.Proofs.Shuffle.bytesToUint_extract8 _ (hH _), ← uintToBytes_eq, ← uintToBytes_eq, ← bytesToUint64_eq]
  have hflip : (bytesToUint64 (Spec.hash (seed ++ uintToBytes 1 r)) % n + n - x) % n < n := Nat.mod_lt _ (by omega)
  have hpos : max x ((bytesToUint64 (Spec.hash (seed ++ uintToBytes 1 r)) % n + n - x) % n) / 256 < 2 ^ 32 := by
    have : max x ((bytesToUint64 (Spec.hash (seed ++ uintToBytes 1 r)) % n + n - x) % n) < 2 ^ 40 := by
      rw [Nat.max_lt]; omega
    omega
  simp only [hpos, not_true_eq_false, if_false]
  congr 1
  exact ite_bit _ _ _

theorem computeShuffledIndex_fold (hH : ∀ x, (Spec.hash x).size = 32) (seed : Bytes) (n : Nat) (hn : n ≤ 2 ^ 40) :
    ∀ (l : List Nat) (b : Nat), (∀ r ∈ l, r < 256) → b < n →
      l.foldlM (Zrnt.Proofs.Shuffle.specStep Spec.hash n seed) b = some (l.foldl (fun b a => csiStep n seed a b) b) := by
  intro l
  induction l with
  | nil => intro b _ _; rfl
  | cons a l ih =>
    intro b hl hb
    rw [List.foldlM_cons, specStep_eq_csiStep hH (hl a (List.mem_cons_self ..)) hb hn]
    simp only [Option.bind_eq_bind, Option.bind_some, List.foldl_cons]
    exact ih _ (fun r hr => hl r (List.mem_cons_of_mem _ hr)) (csiStep_lt hb)

/-- C02's executable `compute_shuffled_index` returns what C06's specification function returns -/
theorem compute_shuffled_index_eq_C06 (hH : ∀ x, (Spec.hash x).size = 32) {cfg : Config} (hsrc : cfg.SHUFFLE_ROUND_COUNT ≤ 255)
    {i n : Nat} {seed : Bytes} {x : Nat} (hn : n ≤ 2 ^ 40) (h : compute_shuffled_index cfg i n seed = .ok x) :
    Zrnt.Shuffle.Spec.computeShuffledIndex Spec.hash cfg.SHUFFLE_ROUND_COUNT i n seed = some x ∧ x < n := by
  obtain ⟨hi, hx⟩ := compute_shuffled_index_ok h
  rw [Zrnt.Proofs.Shuffle.spec_unfold _ _ _ _ _ hi, computeShuffledIndex_fold hH seed n hn _ _ _ hi, hx]
  · refine ⟨rfl, ?_⟩
    have : ∀ (l : List Nat) (b : Nat), b < n → l.foldl (fun b a => csiStep n seed a b) b < n := by
      intro l
      induction l with
      | nil => intro b hb; exact hb
      | cons a l ih => intro b hb; exact ih _ (csiStep_lt hb)
    exact this _ _ hi
  · intro r hr; rw [List.mem_range] at hr; omega


theorem mapM_transfer {α α' β : Type} (f : α → SM β) (g : α' → Res β) (t : α → α') :
    ∀ (l : List α) (out : List β), l.mapM f = .ok out → (∀ a ∈ l, ∀ y, f a = .ok y → g (t a) = .ok y) →
      (l.map t).mapM g = .ok out := by
  intro l
  induction l with
  | nil =>
    intro out h _
    simp only [List.mapM_nil, pure, Except.pure] at h
    injection h with h
    subst h
    rfl
  | cons a l ih =>
    intro out h hf
    rw [List.mapM_cons] at h
    obtain ⟨y, hy, h⟩ := bind_ok _ _ _ h
    obtain ⟨ys, hys, h⟩ := bind_ok _ _ _ h
    simp only [pure, Except.pure] at h
    injection h with h
    subst h
    rw [List.map_cons, List.mapM_cons, hf a (List.mem_cons_self ..) y hy,
      ih ys hys (fun b hb => hf b (List.mem_cons_of_mem _ hb))]
    rfl

/-- C02's executable `compute_committee` returns what C07's specification function returns -/
theorem compute_committee_eq_C07 (hH : ∀ x, (Spec.hash x).size = 32) {cfg : Config} (hsrc : cfg.SHUFFLE_ROUND_COUNT ≤ 255)
    {indices : List Nat} {seed : Bytes} {index count : Nat} {out : List Nat} (hn : indices.length ≤ 2 ^ 40)
    (h : compute_committee cfg indices seed index count = .ok out) :
    Committees.Spec.compute_committee Spec.hash (cfgC cfg) indices seed index count = .ok out := by
  unfold compute_committee at h
  unfold Committees.Spec.compute_committee
  by_cases hc : count = 0
  · simp only [hc, if_true, invalid, bind, Except.bind] at h
    cases h
  · simp only [hc, if_false] at h ⊢
    simp only [bind, Except.bind] at h
    rw [List.range'_eq_map_range]
    refine mapM_transfer _ _ _ _ _ h ?_
    intro k _ y hy
    cases hj : compute_shuffled_index cfg (indices.length * index / count + k) indices.length seed with
    | error e => rw [hj] at hy; cases hy
    | ok j =>
      rw [hj] at hy
      simp only [pure, Except.pure] at hy
      injection hy with hy
      obtain ⟨h1, h2⟩ := compute_shuffled_index_eq_C06 hH hsrc hn hj
      show (match Zrnt.Shuffle.Spec.computeShuffledIndex Spec.hash cfg.SHUFFLE_ROUND_COUNT
        (indices.length * index / count + k) indices.length seed with
        | some s => (match indices[s]? with | some v => Res.ok v | none => Res.err)
        | none => Res.err) = Res.ok y
      rw [h1]
      simp only [List.getElem?_eq_getElem h2]
      rw [← hy]
      simp [Array.getD, h2]


theorem committee_count_eq_C07 {cfg : Config} {s : State} {e c : Nat} (h : get_committee_count_per_slot cfg s e = .ok c) :
    c = Committees.Spec.get_committee_count_per_slot (cfgC cfg) (valsC s) e := by
  unfold get_committee_count_per_slot at h
  split at h
  · cases h
  · simp only [pure, Except.pure] at h
    injection h with h
    rw [← h, active_eq_C07]
    rfl

/-- **C02's executable `get_beacon_committee` is C07's `Spec.get_beacon_committee`**: whenever the oracle of C02
returns a committee, C07's specification function, on the registry and randao mixes of the same state, returns the
same committee. -/
theorem get_beacon_committee_eq_C07 (hH : ∀ x, (Spec.hash x).size = 32) {cfg : Config} (hsrc : cfg.SHUFFLE_ROUND_COUNT ≤ 255)
    {s : State} (hv : s.validators.length ≤ 2 ^ 40) {slot index : Nat} {m : List Nat}
    (h : get_beacon_committee cfg s slot index = .ok m) :
    Committees.Spec.get_beacon_committee Spec.hash (cfgC cfg) (valsC s) (mixesC s) slot index = .ok m := by
  unfold get_beacon_committee at h
  obtain ⟨c, hc, h⟩ := bind_ok _ _ _ h
  obtain ⟨seed, hseed, h⟩ := bind_ok _ _ _ h
  have hlen : (get_active_validator_indices s (compute_epoch_at_slot cfg slot)).length ≤ 2 ^ 40 := by
    unfold get_active_validator_indices active_indices_of
    exact Nat.le_trans (List.length_filter_le _ _) (by simpa using hv)
  have := compute_committee_eq_C07 hH hsrc hlen h
  unfold Committees.Spec.get_beacon_committee
  have e1 : slot / (cfgC cfg).SLOTS_PER_EPOCH = compute_epoch_at_slot cfg slot := rfl
  simp only [e1]
  rw [← active_eq_C07, ← committee_count_eq_C07 hc, show Committees.DOMAIN_BEACON_ATTESTER = DOMAIN_BEACON_ATTESTER from rfl,
    ← seed_eq_C07 hseed]
  exact this

theorem eraseDups_of_nodup : ∀ (l : List Nat), l.Nodup → l.eraseDups = l := by
  intro l
  induction l with
  | nil => intro _; exact List.eraseDups_nil
  | cons a as ih =>
    intro h
    rw [List.nodup_cons] at h
    rw [List.eraseDups_cons]
    have : as.filter (fun b => !b == a) = as := by
      rw [List.filter_eq_self]
      intro b hb
      have : b ≠ a := fun e => h.1 (e ▸ hb)
      simp [this]
    rw [this, ih h.2]

theorem participants_nodup {committee : List Nat} {bits : List Bool} (hn : committee.Nodup) (hl : committee.length ≤ bits.length) :
    ((committee.zip bits).filterMap fun (i, b) => if b then some i else none).Nodup := by
  have hp : (committee.zip bits).Pairwise (fun p q => p.1 ≠ q.1) := by
    have := List.map_fst_zip (l₁ := committee) (l₂ := bits) hl
    rw [← this] at hn
    exact List.pairwise_map.mp hn
  refine List.Pairwise.filterMap _ ?_ hp
  intro p q hpq b hb b' hb'
  obtain ⟨p1, p2⟩ := p
  obtain ⟨q1, q2⟩ := q
  simp only at hb hb' hpq
  cases p2 with
  | false => simp at hb
  | true =>
    cases q2 with
    | false => simp at hb'
    | true =>
      simp only [if_true] at hb hb'
      injection hb with hb; injection hb' with hb'
      rw [← hb, ← hb']; exact hpq

/-- the slot's epoch and position: `slot = epoch · SLOTS_PER_EPOCH + slot mod SLOTS_PER_EPOCH` -/
theorem slot_split (cfg : Config) (slot : Nat) :
    slot = compute_epoch_at_slot cfg slot * cfg.SLOTS_PER_EPOCH + slot % cfg.SLOTS_PER_EPOCH := by
  unfold compute_epoch_at_slot
  rw [Nat.mul_comm]; exact (Nat.div_add_mod _ _).symm

/-- **the committee the LIVE context returns is the committee C02's oracle computes, and has no repeated member**:
for a slot of the previous, current or next epoch of the state and a committee index below the committee count,
`epc.GetBeaconCommittee(slot, index)` of the context `NewEpochsContext` builds from the state returns exactly what
`get_beacon_committee(state, slot, index)` (C02's executable specification) returns. Through
`get_beacon_committee_eq_C07` and C07's `ctx_committee_eq_spec`, `committees_partition`. -/
theorem get_beacon_committee_live (hH : ∀ x, (Spec.hash x).size = 32) {cfg : Config} (ok : Zrnt.Proofs.Committees.CfgOK (cfgC cfg))
    (hsrc : cfg.SHUFFLE_ROUND_COUNT ≤ 255) (hmax : 0 < cfg.MAX_COMMITTEES_PER_SLOT)
    {s : State} (hv : s.validators.length ≤ 2 ^ 40) {epc : Committees.Ctx} (hM : Impl.liveCtx cfg s = .ok epc)
    {slot index : Nat} {m : List Nat}
    (he : compute_epoch_at_slot cfg slot = get_current_epoch cfg s - 1 ∨ compute_epoch_at_slot cfg slot = get_current_epoch cfg s ∨
      compute_epoch_at_slot cfg slot = get_current_epoch cfg s + 1)
    (hi : index < Committees.Spec.get_committee_count_per_slot (cfgC cfg) (valsC s) (compute_epoch_at_slot cfg slot))
    (h : get_beacon_committee cfg s slot index = .ok m) :
    epc.getBeaconCommittee (cfgC cfg) slot index = .ok m ∧ m.Nodup := by
  have hspec := get_beacon_committee_eq_C07 hH hsrc hv h
  have hsz : (valsC s).toArray.size ≤ 2 ^ 40 := by simp [valsC, hv]
  have hslot := slot_split cfg slot
  have hs : slot % cfg.SLOTS_PER_EPOCH < cfg.SLOTS_PER_EPOCH := Nat.mod_lt _ ok.spe_pos
  have hctx := Zrnt.Proofs.C07.ctx_committee_eq_spec hH ok hsrc hmax (valsC s).toArray (mixesC s) s.slot hsz epc hM
    (compute_epoch_at_slot cfg slot) he (slot % cfg.SLOTS_PER_EPOCH) index hs (by simpa using hi)
  rw [show (cfgC cfg).SLOTS_PER_EPOCH = cfg.SLOTS_PER_EPOCH from rfl, ← hslot] at hctx
  refine ⟨by rw [hctx]; exact hspec, ?_⟩
  -- no repeated member: the committee is a piece of a permutation of the (duplicate-free) active indices
  obtain ⟨se, m', hse, hm', hspec'⟩ := Zrnt.Proofs.C07.committee_eq_spec hH ok hsrc (valsC s).toArray (mixesC s)
    (compute_epoch_at_slot cfg slot) hsz (slot % cfg.SLOTS_PER_EPOCH) index hs (by simpa using hi)
  rw [show (cfgC cfg).SLOTS_PER_EPOCH = cfg.SLOTS_PER_EPOCH from rfl, ← hslot] at hspec'
  rw [hspec] at hspec'
  injection hspec' with hmm
  subst hmm
  obtain ⟨se', hse', _, hperm, hnd, _⟩ := Zrnt.Proofs.C07.committees_partition (H := Spec.hash) ok (valsC s).toArray
    (Committees.getSeed Spec.hash (cfgC cfg) (mixesC s) (compute_epoch_at_slot cfg slot) Committees.DOMAIN_BEACON_ATTESTER)
    (compute_epoch_at_slot cfg slot) (by omega)
  unfold Committees.computeShufflingEpoch at hse
  rw [hse] at hse'
  injection hse' with hse'
  subst hse'
  have hflat : (se.committees.flatten.flatten).Nodup := hperm.nodup_iff.mpr hnd
  cases hrow : se.committees[slot % cfg.SLOTS_PER_EPOCH]? with
  | none => rw [hrow] at hm'; simp at hm'
  | some row =>
    rw [hrow] at hm'
    simp only [Option.bind_some] at hm'
    have h1 : row ∈ se.committees := List.mem_of_getElem? hrow
    have h2 : m ∈ row := List.mem_of_getElem? hm'
    have h3 : m ∈ se.committees.flatten := List.mem_flatten.mpr ⟨row, h1, h2⟩
    exact (List.sublist_flatten_of_mem h3).nodup hflat

/-- what `process_attestation` established of a pending attestation when it was included, as far as resolving it
needs: its slot lies in an epoch the context covers, its committee index is below the committee count of that epoch,
it has one aggregation bit per committee member, and the block root of its slot is still in the state. -/
structure PendingOK (cfg : Config) (s : State) (a : PendingAttestation) : Prop where
  epoch : compute_epoch_at_slot cfg a.data.slot = get_current_epoch cfg s - 1 ∨
    compute_epoch_at_slot cfg a.data.slot = get_current_epoch cfg s ∨
    compute_epoch_at_slot cfg a.data.slot = get_current_epoch cfg s + 1
  index : a.data.index < Committees.Spec.get_committee_count_per_slot (cfgC cfg) (valsC s) (compute_epoch_at_slot cfg a.data.slot)
  bits : ∀ m, get_beacon_committee cfg s a.data.slot a.data.index = .ok m → a.aggregation_bits.length = m.length
  head : ∃ r, get_block_root_at_slot cfg s a.data.slot = .ok r

/-- the hypotheses about configuration and registry size under which C06/C07 prove the context right, and `epc` being
the context `NewEpochsContext` builds from `s` -/
structure LiveHyps (cfg : Config) (s : State) (epc : Committees.Ctx) : Prop where
  cfgOK : Zrnt.Proofs.Committees.CfgOK (cfgC cfg)
  rounds : cfg.SHUFFLE_ROUND_COUNT ≤ 255
  maxc : 0 < cfg.MAX_COMMITTEES_PER_SLOT
  vlen : s.validators.length ≤ 2 ^ 40
  ctx : Impl.liveCtx cfg s = .ok epc

/-- `get_attesting_indices` of the specification = `epc.GetBeaconCommittee` + `FilterParticipants` of the code -/
theorem attesting_indices_live {cfg : Config} {s : State} {epc : Committees.Ctx} (L : LiveHyps cfg s epc)
    {a : PendingAttestation} (hok : PendingOK cfg s a) {ix : List Nat}
    (h : get_attesting_indices cfg s a.data a.aggregation_bits = .ok ix) :
    ∃ committee, epc.getBeaconCommittee (cfgC cfg) a.data.slot a.data.index = .ok committee ∧
      Impl.filterParticipants committee a.aggregation_bits = .ok ix := by
  unfold get_attesting_indices at h
  obtain ⟨m, hm, h⟩ := bind_ok _ _ _ h
  obtain ⟨hlive, hnd⟩ := get_beacon_committee_live spec_hash_size L.cfgOK L.rounds L.maxc L.vlen L.ctx hok.epoch hok.index hm
  have hlen := hok.bits m hm
  refine ⟨m, hlive, ?_⟩
  unfold Impl.filterParticipants
  simp only [hlen, ne_eq, not_true_eq_false, if_false]
  have hlt : ¬ a.aggregation_bits.length < m.length := by omega
  simp only [hlt, if_false, bind, Except.bind, pure, Except.pure] at h
  injection h with h
  rw [← h, eraseDups_of_nodup _ (participants_nodup hnd (by omega))]
  rfl


/-- **the phase0 pending attestations as the code resolves them through the LIVE context are the specification's**:
whenever the specification's `resolve_attestations` (committees by `get_beacon_committee`) accepts, the closure
`processEpoch` of `ComputeEpochAttesterData` — target root, head root, `epc.GetBeaconCommittee`, `FilterParticipants` —
returns the same resolved attestations. -/
theorem resolve_attestations_live {cfg : Config} {s : State} {epc : Committees.Ctx} (L : LiveHyps cfg s epc)
    (epoch : Nat) (atts : List PendingAttestation)
    (hatts : atts = if epoch = get_current_epoch cfg s then s.current_epoch_attestations else s.previous_epoch_attestations)
    (hok : ∀ a ∈ atts, PendingOK cfg s a) (hroot : ∃ r, get_block_root cfg s epoch = .ok r)
    {out : List ResolvedAtt} (h : resolve_attestations cfg s epoch = .ok out) :
    Impl.resolveAttsCtx cfg epc s epoch atts = .ok out := by
  obtain ⟨root, hroot⟩ := hroot
  unfold resolve_attestations at h
  obtain ⟨src, hsrc, h⟩ := bind_ok _ _ _ h
  have hsrc' : src = atts := by
    unfold get_matching_source_attestations at hsrc
    obtain ⟨_, _, hsrc⟩ := bind_ok _ _ _ hsrc
    simp only [pure, Except.pure] at hsrc
    injection hsrc with hsrc
    rw [← hsrc, hatts]
  subst hsrc'
  unfold Impl.resolveAttsCtx
  have hroot' : get_block_root_at_slot cfg s (compute_start_slot_at_epoch cfg epoch) = .ok root := hroot
  rw [hroot']
  simp only [bind, Except.bind]
  by_cases hemp : src.isEmpty = true
  · simp only [hemp, if_true, pure, Except.pure] at h
    injection h with h
    rw [List.isEmpty_iff] at hemp
    subst hemp
    rw [← h]
    rfl
  · simp only [hemp, Bool.false_eq_true, if_false] at h
    rw [hroot] at h
    simp only [bind, Except.bind] at h
    refine mapM_ok_mono _ _ ?_ h
    intro a ha y hy
    obtain ⟨ix, hix, hy⟩ := bind_ok _ _ _ hy
    obtain ⟨committee, hc, hf⟩ := attesting_indices_live L (hok a ha) hix
    obtain ⟨hr, hhead⟩ := (hok a ha).head
    rw [hhead, hc]
    simp only [liftRes, pure, Except.pure, hf]
    by_cases ht : a.data.target.root = root
    · simp only [ht, decide_true, if_true, hhead, pure, Except.pure] at hy ⊢
      rw [← hy]
      simp
    · simp only [ht, decide_false, Bool.false_eq_true, if_false, pure, Except.pure] at hy ⊢
      rw [← hy]
      simp


/-- **the pending attestations as `altair.TranslateParticipation` resolves them through the LIVE context are the
specification's** (`resolve_flag_atts`: the comparisons of `get_attestation_participation_flag_indices` and
`get_attesting_indices`). The code looks both block roots up before comparing; `hroots` says they are in the state. -/
theorem resolve_flag_atts_live {cfg : Config} {s : State} {epc : Committees.Ctx} (L : LiveHyps cfg s epc)
    (pending : List PendingAttestation) (hok : ∀ a ∈ pending, PendingOK cfg s a)
    (hroots : ∀ a ∈ pending, ∃ r, get_block_root cfg s a.data.target.epoch = .ok r)
    {out : List FlagAtt} (h : resolve_flag_atts cfg s pending = .ok out) :
    Impl.resolveFlagAttsCtx cfg epc s pending = .ok out := by
  unfold resolve_flag_atts at h
  unfold Impl.resolveFlagAttsCtx
  refine mapM_ok_mono _ _ ?_ h
  intro a ha y hy
  obtain ⟨tr, htr⟩ := hroots a ha
  obtain ⟨hr, hhead⟩ := (hok a ha).head
  simp only [bind, Except.bind, hhead, htr]
  simp only [] at hy
  by_cases hs : a.data.source = (if a.data.target.epoch = get_current_epoch cfg s then s.current_justified_checkpoint
      else s.previous_justified_checkpoint)
  · simp only [hs, decide_true, if_true, Bool.true_and, bind, Except.bind, htr, pure, Except.pure] at hy ⊢
    by_cases ht : a.data.target.root = tr
    · simp only [ht, decide_true, if_true, hhead] at hy ⊢
      obtain ⟨ix, hix, hy⟩ := bind_ok _ _ _ hy
      obtain ⟨committee, hc, hf⟩ := attesting_indices_live L (hok a ha) hix
      rw [hc]
      simp only [liftRes, pure, Except.pure, hf]
      rw [← hy]
      simp
    · simp only [ht, decide_false, Bool.false_eq_true, if_false] at hy ⊢
      obtain ⟨ix, hix, hy⟩ := bind_ok _ _ _ hy
      obtain ⟨committee, hc, hf⟩ := attesting_indices_live L (hok a ha) hix
      rw [hc]
      simp only [liftRes, pure, Except.pure, hf]
      rw [← hy]
      simp
  · simp only [hs, decide_false, Bool.false_eq_true, if_false, Bool.false_and, bind, Except.bind, pure, Except.pure] at hy ⊢
    obtain ⟨ix, hix, hy⟩ := bind_ok _ _ _ hy
    obtain ⟨committee, hc, hf⟩ := attesting_indices_live L (hok a ha) hix
    rw [hc]
    simp only [liftRes, pure, Except.pure, hf]
    rw [← hy]

theorem compute_committee_length {cfg : Config} {indices : List Nat} {seed : Bytes} {index count : Nat} {out : List Nat}
    (h : compute_committee cfg indices seed index count = .ok out) :
    out.length = indices.length * (index + 1) / count - indices.length * index / count := by
  unfold compute_committee at h
  by_cases hc : count = 0
  · simp only [hc, if_true, invalid, bind, Except.bind] at h
    cases h
  · simp only [hc, if_false] at h
    simp only [bind, Except.bind] at h
    have := (smMapM_ok_getElem _ _ _ h).1
    rw [this, List.length_range]

end Zrnt.Proofs.Lemmas
