import Zrnt.Fault.Model
/-! Lemmas about the fault semantics of C18: a successful run met no fault (`run_clean`), and a run only
depends on the polls and engine answers it consumed (`run_agree`). -/
namespace Zrnt.Fault
variable {σ : Type}

/-- what a successful run tells about the environment: counters only grow and no fault was met -/
def Clean (env : Env) (c c' : Cfg σ) : Prop :=
  c.polls ≤ c'.polls ∧ c.queries ≤ c'.queries ∧
  (∀ i, c.polls ≤ i → i < c'.polls → env.cancelledAt i = false) ∧
  (∀ j, c.queries ≤ j → j < c'.queries → env.engine j = .valid)

theorem Clean.refl (env : Env) (c : Cfg σ) : Clean env c c :=
  ⟨Nat.le_refl _, Nat.le_refl _, fun i h1 h2 => by omega, fun j h1 h2 => by omega⟩

theorem Clean.trans {env : Env} {a b c : Cfg σ} (h1 : Clean env a b) (h2 : Clean env b c) : Clean env a c := by
  obtain ⟨p1, q1, f1, g1⟩ := h1
  obtain ⟨p2, q2, f2, g2⟩ := h2
  refine ⟨by omega, by omega, ?_, ?_⟩
  · intro i hi1 hi2
    by_cases h : i < b.polls
    · exact f1 i hi1 h
    · exact f2 i (by omega) hi2
  · intro j hj1 hj2
    by_cases h : j < b.queries
    · exact g1 j hj1 h
    · exact g2 j (by omega) hj2

theorem runN_clean (env : Env) (f : Cfg σ → Except Err (Cfg σ))
    (hf : ∀ c c', f c = .ok c' → Clean env c c') :
    ∀ n c c', runN f n c = .ok c' → Clean env c c' := by
  intro n
  induction n with
  | zero => intro c c' h; simp [runN] at h; subst h; exact Clean.refl env c
  | succ n ih =>
    intro c c' h
    simp only [runN] at h
    cases hfc : f c with
    | error e => rw [hfc] at h; cases h
    | ok c1 => rw [hfc] at h; exact (hf c c1 hfc).trans (ih c1 c' h)

theorem run_clean (env : Env) (p : Prog σ) : ∀ c c', run env p c = .ok c' → Clean env c c' := by
  induction p with
  | step f =>
    intro c c' h
    simp only [run] at h
    cases hf : f c.st with
    | none => rw [hf] at h; cases h
    | some s => rw [hf] at h; cases h; exact Clean.refl env _ |> fun x => ⟨x.1, x.2.1, x.2.2.1, x.2.2.2⟩
  | poll =>
    intro c c' h
    simp only [run] at h
    by_cases hc : env.cancelledAt c.polls = true
    · rw [if_pos hc] at h; cases h
    · rw [if_neg hc] at h; cases h
      refine ⟨Nat.le_succ _, Nat.le_refl _, ?_, fun j h1 h2 => by simp at h2; omega⟩
      intro i h1 h2
      have : i = c.polls := by simp at h2; omega
      subst this; simpa using hc
  | query =>
    intro c c' h
    simp only [run] at h
    cases hv : env.engine c.queries with
    | valid =>
      rw [hv] at h; cases h
      refine ⟨Nat.le_refl _, Nat.le_succ _, fun i h1 h2 => by simp at h2; omega, ?_⟩
      intro j h1 h2
      have : j = c.queries := by simp at h2; omega
      subst this; exact hv
    | invalid => rw [hv] at h; cases h
    | error => rw [hv] at h; cases h
  | seq a b iha ihb =>
    intro c c' h
    simp only [run] at h
    cases ha : run env a c with
    | error e => rw [ha] at h; cases h
    | ok c1 => rw [ha] at h; exact (iha c c1 ha).trans (ihb c1 c' h)
  | iter n body ih =>
    intro c c' h
    simp only [run] at h
    exact runN_clean env _ ih _ c c' h

/-- two environments that agree on the polls and queries a successful run consumed give the same run -/
def Agree (e1 e2 : Env) (c c' : Cfg σ) : Prop :=
  (∀ i, c.polls ≤ i → i < c'.polls → e2.cancelledAt i = e1.cancelledAt i) ∧
  (∀ j, c.queries ≤ j → j < c'.queries → e2.engine j = e1.engine j)

theorem Agree.left {e1 e2 : Env} {a b c : Cfg σ} (h : Agree e1 e2 a c) (hb : Clean e1 b c) : Agree e1 e2 a b :=
  ⟨fun i h1 h2 => h.1 i h1 (by have := hb.1; omega), fun j h1 h2 => h.2 j h1 (by have := hb.2.1; omega)⟩

theorem Agree.right {e1 e2 : Env} {a b c : Cfg σ} (h : Agree e1 e2 a c) (ha : Clean e1 a b) : Agree e1 e2 b c :=
  ⟨fun i h1 h2 => h.1 i (by have := ha.1; omega) h2, fun j h1 h2 => h.2 j (by have := ha.2.1; omega) h2⟩

theorem runN_agree (e1 e2 : Env) (body : Prog σ)
    (ih : ∀ c c', run e1 body c = .ok c' → Agree e1 e2 c c' → run e2 body c = .ok c') :
    ∀ n c c', runN (run e1 body) n c = .ok c' → Agree e1 e2 c c' → runN (run e2 body) n c = .ok c' := by
  intro n
  induction n with
  | zero => intro c c' h _; simpa [runN] using h
  | succ n ihn =>
    intro c c' h hag
    simp only [runN] at h ⊢
    cases hb : run e1 body c with
    | error e => rw [hb] at h; cases h
    | ok c1 =>
      rw [hb] at h
      have hc1 : Clean e1 c c1 := run_clean e1 body c c1 hb
      have hc2 : Clean e1 c1 c' := runN_clean e1 _ (run_clean e1 body) n c1 c' h
      rw [ih c c1 hb (hag.left hc2)]
      exact ihn c1 c' h (hag.right hc1)

theorem run_agree (e1 e2 : Env) (p : Prog σ) :
    ∀ c c', run e1 p c = .ok c' → Agree e1 e2 c c' → run e2 p c = .ok c' := by
  induction p with
  | step f => intro c c' h _; simpa [run] using h
  | poll =>
    intro c c' h hag
    simp only [run] at h ⊢
    by_cases hc : e1.cancelledAt c.polls = true
    · rw [if_pos hc] at h; cases h
    · rw [if_neg hc] at h; cases h
      have := hag.1 c.polls (Nat.le_refl _) (by simp)
      rw [this, if_neg hc]
  | query =>
    intro c c' h hag
    simp only [run] at h ⊢
    cases hv : e1.engine c.queries with
    | valid =>
      rw [hv] at h; cases h
      have := hag.2 c.queries (Nat.le_refl _) (by simp)
      rw [this, hv]
    | invalid => rw [hv] at h; cases h
    | error => rw [hv] at h; cases h
  | seq a b iha ihb =>
    intro c c' h hag
    simp only [run] at h ⊢
    cases ha : run e1 a c with
    | error e => rw [ha] at h; cases h
    | ok c1 =>
      rw [ha] at h
      have hc1 := run_clean e1 a c c1 ha
      have hc2 := run_clean e1 b c1 c' h
      rw [iha c c1 ha (hag.left hc2)]
      exact ihb c1 c' h (hag.right hc1)
  | iter n body ih =>
    intro c c' h hag
    simp only [run] at h ⊢
    exact runN_agree e1 e2 body ih _ c c' h hag

end Zrnt.Fault
