import Proofs.Lemmas.BeaconBlockP0All
/-!
# C01/C03 — the premise `OpSteps` discharged for EVERY phase0 block (deposits included)

Frames for an appended validator that is not active (proposer, active count, committee count, committees unchanged;
exit-queue budget: `farCount + 1`; the pubkey cache as `ProcessDeposit` extends it answers as the extended registry);
the three outcomes of an accepted `ProcessDeposit`; `P0DInv k` = `P0AInv` with an exit budget `C − k` (room for `k` more
validators), `PubkeyOK`, and room for `k` more deposits in the deposit index and the balances.
-/
set_option linter.unusedSimpArgs false
set_option linter.unusedVariables false
namespace Zrnt.Proofs.BlockM
open Zrnt Zrnt.Beacon Zrnt.Beacon.Spec Zrnt.Beacon.BlockImpl Zrnt.Beacon.BlockM Zrnt.Proofs.BeaconBlock Zrnt.Proofs.Lemmas

/-! ### frames for an appended validator that is not active -/

theorem active_indices_append (vals : List Validator) (v : Validator) (e : Nat) (hv : is_active_validator v e = false) :
    active_indices_of (vals ++ [v]) e = active_indices_of vals e := by
  unfold active_indices_of
  rw [List.length_append, List.length_singleton, List.range_succ, List.filter_append]
  have hlast : (vals ++ [v])[vals.length]? = some v := by simp
  simp only [List.filter_cons, List.filter_nil, hlast, hv, Bool.false_eq_true, if_false, List.append_nil]
  apply List.filter_congr
  intro i hi
  have hi' : i < vals.length := by simpa using hi
  rw [List.getElem?_append_left hi']

theorem active_indices_lt (vals : List Validator) (e : Nat) : ∀ c ∈ active_indices_of vals e, c < vals.length := by
  intro c hc
  unfold active_indices_of at hc
  have := (List.mem_filter.mp hc).1
  simpa using this

theorem proposer_loop_append (cfg : Config) (s s' : State) (indices : List Nat) (seed : Bytes)
    (hin : ∀ c ∈ indices, c < s.validators.length)
    (heff : ∀ (i : Nat) (v v' : Validator), s.validators[i]? = some v → s'.validators[i]? = some v' → v'.effective_balance = v.effective_balance)
    (hlen : s.validators.length ≤ s'.validators.length) :
    ∀ fuel i, Block.compute_proposer_index.loop cfg s' indices seed indices.length fuel i =
              Block.compute_proposer_index.loop cfg s indices seed indices.length fuel i := by
  intro fuel
  induction fuel with
  | zero => intro i; rfl
  | succ f ih =>
    intro i
    unfold Block.compute_proposer_index.loop
    cases hsh : compute_shuffled_index cfg (i % indices.length) indices.length seed with
    | error e => rfl
    | ok j =>
      simp only [bind, Except.bind]
      cases hc : idx indices j "indices" with
      | error e => rfl
      | ok c =>
        simp only []
        have hcm : c ∈ indices := by
          unfold idx at hc
          cases hj : indices[j]? with
          | none => rw [hj] at hc; cases hc
          | some c' =>
            rw [hj] at hc
            cases hc
            exact List.mem_of_getElem? hj
        have hcl := hin c hcm
        have hcl' : c < s'.validators.length := by omega
        unfold idx
        have h1 : s.validators[c]? = some s.validators[c] := List.getElem?_eq_getElem hcl
        have h2 : s'.validators[c]? = some s'.validators[c] := List.getElem?_eq_getElem hcl'
        rw [h1, h2]
        simp only [pure, Except.pure, heff c _ _ h1 h2, ih]

theorem compute_proposer_index_append (cfg : Config) (s s' : State) (indices : List Nat) (seed : Bytes)
    (hin : ∀ c ∈ indices, c < s.validators.length)
    (heff : ∀ (i : Nat) (v v' : Validator), s.validators[i]? = some v → s'.validators[i]? = some v' → v'.effective_balance = v.effective_balance)
    (hlen : s.validators.length ≤ s'.validators.length) :
    Block.compute_proposer_index cfg s' indices seed = Block.compute_proposer_index cfg s indices seed := by
  unfold Block.compute_proposer_index
  simp only [proposer_loop_append cfg s s' indices seed hin heff hlen]

/-- appending a validator that is not active in the current epoch keeps the proposer of the slot -/
theorem proposer_append (cfg : Config) (s s' : State) (v : Validator)
    (hslot : s'.slot = s.slot) (hmix : s'.randao_mixes = s.randao_mixes) (hvals : s'.validators = s.validators ++ [v])
    (hv : is_active_validator v (get_current_epoch cfg s) = false) :
    Block.get_beacon_proposer_index cfg s' = Block.get_beacon_proposer_index cfg s := by
  have hcur : get_current_epoch cfg s' = get_current_epoch cfg s := by unfold get_current_epoch; rw [hslot]
  have hidx : get_active_validator_indices s' (get_current_epoch cfg s) = get_active_validator_indices s (get_current_epoch cfg s) := by
    unfold get_active_validator_indices; rw [hvals]; exact active_indices_append _ _ _ hv
  have hseed := seed_of_mixes cfg s s' (get_current_epoch cfg s) DOMAIN_BEACON_PROPOSER hmix
  have heff : ∀ (i : Nat) (w w' : Validator), s.validators[i]? = some w → s'.validators[i]? = some w' → w'.effective_balance = w.effective_balance := by
    intro i w w' h1 h2
    rw [hvals] at h2
    have hi : i < s.validators.length := (List.getElem?_eq_some_iff.mp h1).1
    rw [List.getElem?_append_left hi, h1] at h2
    cases h2; rfl
  have hlen : s.validators.length ≤ s'.validators.length := by rw [hvals]; simp
  have hcpi : ∀ seed, Block.compute_proposer_index cfg s' (get_active_validator_indices s (get_current_epoch cfg s)) seed =
      Block.compute_proposer_index cfg s (get_active_validator_indices s (get_current_epoch cfg s)) seed :=
    fun seed => compute_proposer_index_append cfg s s' _ seed (active_indices_lt _ _) heff hlen
  unfold Block.get_beacon_proposer_index
  simp only [hcur, hidx, hslot, hseed, hcpi]


/-- a validator as a deposit creates it -/
def FreshValidator (v : Validator) : Prop :=
  v.slashed = false ∧ v.activation_eligibility_epoch = FAR_FUTURE_EPOCH ∧ v.activation_epoch = FAR_FUTURE_EPOCH ∧
  v.exit_epoch = FAR_FUTURE_EPOCH ∧ v.withdrawable_epoch = FAR_FUTURE_EPOCH

theorem fresh_inactive (v : Validator) (hv : FreshValidator v) (e : Nat) (he : e < FAR_FUTURE_EPOCH) : is_active_validator v e = false := by
  unfold is_active_validator
  rw [hv.2.2.1]
  have : ¬ FAR_FUTURE_EPOCH ≤ e := by omega
  simp [this]

/-- committee count and committees of the epochs up to the current one do not see an appended fresh validator -/
theorem committee_append (cfg : Config) (s s' : State) (v : Validator) (hf : FreshValidator v)
    (hmix : s'.randao_mixes = s.randao_mixes) (hvals : s'.validators = s.validators ++ [v]) (e : Nat) (he : e < FAR_FUTURE_EPOCH) :
    get_committee_count_per_slot cfg s' e = get_committee_count_per_slot cfg s e ∧
    ∀ slot index, compute_epoch_at_slot cfg slot = e → get_beacon_committee cfg s' slot index = get_beacon_committee cfg s slot index := by
  have hidx : get_active_validator_indices s' e = get_active_validator_indices s e := by
    unfold get_active_validator_indices; rw [hvals]; exact active_indices_append _ _ _ (fresh_inactive v hf e he)
  have hc : get_committee_count_per_slot cfg s' e = get_committee_count_per_slot cfg s e := by
    unfold get_committee_count_per_slot; rw [hidx]
  refine ⟨hc, fun slot index hse => ?_⟩
  unfold get_beacon_committee
  simp only []
  rw [hse, hc, hidx, seed_of_mixes cfg s s' _ _ hmix]

theorem CommOK.append {cfg : Config} {ctx : Ctx} {st st' : State} (h : CommOK cfg ctx st) (v : Validator) (hf : FreshValidator v)
    (hslot : st'.slot = st.slot) (hmix : st'.randao_mixes = st.randao_mixes) (hvals : st'.validators = st.validators ++ [v])
    (hcur : st.slot / cfg.SLOTS_PER_EPOCH < FAR_FUTURE_EPOCH) : CommOK cfg ctx st' := by
  constructor
  · intro e h1 h2
    rw [hslot] at h1 h2
    rw [(committee_append cfg st st' v hf hmix hvals e (by omega)).1]
    exact h.cc e h1 h2
  · intro slot idx n h1 h2 hn hlt
    rw [hslot] at h1 h2
    obtain ⟨hc, hcm⟩ := committee_append cfg st st' v hf hmix hvals (slot / cfg.SLOTS_PER_EPOCH) (by omega)
    rw [hc] at hn
    rw [hcm slot idx rfl]
    exact h.com slot idx n h1 h2 hn hlt

theorem active_count_append (vals : List Validator) (v : Validator) (e : Nat) (hv : is_active_validator v e = false) :
    ((vals ++ [v]).filter (is_active_validator · e)).length = (vals.filter (is_active_validator · e)).length := by
  rw [List.filter_append]
  simp [List.filter_cons, hv]

theorem budget_append (cfg : Config) (cur : Nat) (vals : List Validator) (v : Validator) (hf : FreshValidator v) :
    qmax cfg cur (vals ++ [v]) = qmax cfg cur vals ∧ farCount (vals ++ [v]) = farCount vals + 1 := by
  constructor
  · unfold qmax
    rw [exits_append]
    have : exits [v] = [] := by rw [exits_cons]; simp [hf.2.2.2.1, exits]
    rw [this, List.append_nil]
  · unfold farCount
    rw [qcount_append, qcount_cons]
    simp [hf.2.2.2.1, qcount]

/-- the pubkey cache after a new validator: the cache as `ProcessDeposit` extends it answers as the extended registry -/
theorem PubkeyOK.append (s s' : State) (ctx : Ctx) (v : Validator) (pkf : Bytes → Option Nat)
    (h : PubkeyOK s ctx) (hvals : s'.validators = s.validators ++ [v])
    (hnew : ctx.pubkeyIndex v.pubkey = none)
    (hpkf : ∀ k, pkf k = if k = v.pubkey then (match ctx.pubkeyIndex k with | some i => some i | none => some s.validators.length) else ctx.pubkeyIndex k) :
    ∀ pk, pkf pk = (let i := (s'.validators.map (·.pubkey)).findIdx (· = pk); if i < s'.validators.length then some i else none) := by
  intro pk
  rw [hpkf pk, hvals]
  have hold := h pk
  simp only [] at hold ⊢
  have hfa : ((s.validators ++ [v]).map (·.pubkey)).findIdx (· = pk) =
      if (s.validators.map (·.pubkey)).findIdx (· = pk) < s.validators.length then (s.validators.map (·.pubkey)).findIdx (· = pk)
      else (if v.pubkey = pk then 0 else 1) + s.validators.length := by
    rw [List.map_append, List.findIdx_append, List.length_map]
    simp only [List.map_cons, List.map_nil, List.findIdx_cons, List.findIdx_nil]
    by_cases hvp : v.pubkey = pk <;> simp [hvp]
  rw [hfa, List.length_append, List.length_singleton]
  generalize (s.validators.map (·.pubkey)).findIdx (· = pk) = F at *
  by_cases hpk : pk = v.pubkey
  · have hn : ¬ F < s.validators.length := by
      intro hlt
      rw [hpk, hnew] at hold
      simp [hlt] at hold
    have hvp : v.pubkey = pk := hpk.symm
    simp only [hpk, if_true, hnew, hn, if_false]
    rw [hpk] at hvp
    simp
  · have hvp : ¬ v.pubkey = pk := fun e => hpk e.symm
    simp only [hpk, if_false, hvp]
    rw [hold]
    by_cases hlt : F < s.validators.length
    · have : F < s.validators.length + 1 := by omega
      simp only [hlt, if_true, this]
    · have : ¬ 1 + s.validators.length < s.validators.length + 1 := by omega
      simp only [hlt, if_false, this]


/-- what `state.AddValidator` does in phase0 -/
theorem addValidator_shape (cfg : Config) (s1 s' : State) (pk wc : Bytes) (amt : Nat) (hf : s1.fork = .phase0)
    (h : addValidator cfg s1 pk wc amt = .ok s') :
    ∃ eff, eff ≤ cfg.MAX_EFFECTIVE_BALANCE ∧ s1.validators.length < cfg.VALIDATOR_REGISTRY_LIMIT ∧
      s' = { s1 with validators := s1.validators ++ [⟨pk, wc, eff, false, FAR_FUTURE_EPOCH, FAR_FUTURE_EPOCH, FAR_FUTURE_EPOCH, FAR_FUTURE_EPOCH⟩],
                     balances := s1.balances ++ [amt] } := by
  unfold addValidator at h
  simp only [guard_bind] at h
  split at h
  · cases h
  · split at h
    · rename_i hlim
      simp only [show (s1.fork = Fork.phase0) = True from eq_true hf, if_true, Res.pure_eq] at h
      cases h
      refine ⟨_, ?_, by simpa using hlim, rfl⟩
      split <;> omega
    · cases h

/-- what `state.AddValidator` does on any fork, field by field (altair … deneb also append a participation byte to both
lists and an inactivity score) -/
theorem addValidator_fields (cfg : Config) (s1 s' : State) (pk wc : Bytes) (amt : Nat)
    (h : addValidator cfg s1 pk wc amt = .ok s') :
    ∃ eff, eff ≤ cfg.MAX_EFFECTIVE_BALANCE ∧ s1.validators.length < cfg.VALIDATOR_REGISTRY_LIMIT ∧
      s'.validators = s1.validators ++ [⟨pk, wc, eff, false, FAR_FUTURE_EPOCH, FAR_FUTURE_EPOCH, FAR_FUTURE_EPOCH, FAR_FUTURE_EPOCH⟩] ∧
      s'.balances = s1.balances ++ [amt] ∧ s'.slot = s1.slot ∧ s'.randao_mixes = s1.randao_mixes ∧ s'.fork = s1.fork ∧
      s'.slashings = s1.slashings ∧ s'.eth1_deposit_index = s1.eth1_deposit_index ∧ s'.eth1_data = s1.eth1_data ∧
      s'.block_roots = s1.block_roots ∧ s'.current_sync_committee = s1.current_sync_committee ∧
      s'.genesis_time = s1.genesis_time ∧ s'.next_withdrawal_index = s1.next_withdrawal_index ∧
      s'.next_withdrawal_validator_index = s1.next_withdrawal_validator_index ∧
      (s1.fork ≠ .phase0 → s'.current_epoch_participation = s1.current_epoch_participation ++ [0] ∧
        s'.previous_epoch_participation = s1.previous_epoch_participation ++ [0]) := by
  unfold addValidator at h
  simp only [guard_bind] at h
  split at h
  · cases h
  · split at h
    · rename_i hlim
      have hcap : (if amt - amt % cfg.EFFECTIVE_BALANCE_INCREMENT > cfg.MAX_EFFECTIVE_BALANCE then cfg.MAX_EFFECTIVE_BALANCE
          else amt - amt % cfg.EFFECTIVE_BALANCE_INCREMENT) ≤ cfg.MAX_EFFECTIVE_BALANCE := by split <;> omega
      by_cases hf : s1.fork = .phase0
      · simp only [show (s1.fork = Fork.phase0) = True from eq_true hf, if_true, Res.pure_eq] at h
        cases h
        exact ⟨_, hcap, by simpa using hlim, rfl, rfl, rfl, rfl, rfl, rfl, rfl, rfl, rfl, rfl, rfl, rfl, rfl, fun hne => absurd hf hne⟩
      · simp only [show (s1.fork = Fork.phase0) = False from eq_false hf, if_false, Res.pure_eq] at h
        cases h
        exact ⟨_, hcap, by simpa using hlim, rfl, rfl, rfl, rfl, rfl, rfl, rfl, rfl, rfl, rfl, rfl, rfl, rfl, fun _ => ⟨rfl, rfl⟩⟩
    · cases h

/-- the three outcomes of an accepted `ProcessDeposit`: top-up, skipped (failing proof of possession), new validator -/
theorem processDeposit_shape (cfg : Config) (ctx ctx' : Ctx) (st st' : State) (dep : Deposit)
    (h : processDeposit cfg ctx st dep = .ok (ctx', st')) :
    (∃ i b, ctx.pubkeyIndex dep.data.pubkey = some i ∧ i < st.validators.length ∧ st.balances[i]? = some b ∧ ctx' = ctx ∧
        st' = { st with eth1_deposit_index := w64 (st.eth1_deposit_index + 1),
                        balances := st.balances.set i (w64 (b + dep.data.amount)) }) ∨
    (ctx' = ctx ∧ st' = { st with eth1_deposit_index := w64 (st.eth1_deposit_index + 1) }) ∨
    ((∀ i, ctx.pubkeyIndex dep.data.pubkey = some i → ¬ i < st.validators.length) ∧
      addValidator cfg { st with eth1_deposit_index := w64 (st.eth1_deposit_index + 1) } dep.data.pubkey dep.data.withdrawal_credentials
        dep.data.amount = .ok st' ∧
      ctx'.proposer = ctx.proposer ∧ ctx'.activeCount = ctx.activeCount ∧ ctx'.committeeCount = ctx.committeeCount ∧
      ctx'.committee = ctx.committee ∧
      ∀ k, ctx'.pubkeyIndex k = if k = dep.data.pubkey then (match ctx.pubkeyIndex k with | some i => some i | none => some st.validators.length)
        else ctx.pubkeyIndex k) := by
  unfold processDeposit at h
  simp only [guard_bind] at h
  cases hb : verifyMerkleBranch dep.data_root dep.proof (Block.DEPOSIT_CONTRACT_TREE_DEPTH + 1) st.eth1_deposit_index st.eth1_data.deposit_root with
  | ok okb =>
    rw [hb] at h
    simp only [res_bind_ok] at h
    cases okb with
    | false => simp only [Bool.false_eq_true, if_false] at h; cases h
    | true =>
      simp only [if_true] at h
      cases hpk : ctx.pubkeyIndex dep.data.pubkey with
      | some i =>
        rw [hpk] at h
        simp only [] at h
        by_cases hlt : i < st.validators.length
        · simp only [hlt, if_true] at h
          unfold increaseBalance at h
          simp only [rget_bind] at h
          cases hbal : st.balances[i]? with
          | none => rw [hbal] at h; cases h
          | some b =>
            rw [hbal] at h
            simp only [res_bind_ok, Res.pure_eq] at h
            cases h
            exact Or.inl ⟨i, b, rfl, hlt, hbal, rfl, rfl⟩
        · simp only [hlt, if_false] at h
          by_cases hsig : dep.sig_ok = true
          · simp only [hsig, Bool.not_true, Bool.false_eq_true, if_false] at h
            cases hadd : addValidator cfg { st with eth1_deposit_index := w64 (st.eth1_deposit_index + 1) } dep.data.pubkey
                dep.data.withdrawal_credentials dep.data.amount with
            | ok s2 =>
              rw [hadd] at h
              simp only [res_bind_ok] at h
              refine Or.inr (Or.inr ?_)
              split at h
              · simp only [rget_bind] at h
                split at h
                · simp only [res_bind_ok, Res.pure_eq] at h
                  cases h
                  exact ⟨(fun j hj => by cases hj; exact hlt), rfl, rfl, rfl, rfl, rfl, fun k => rfl⟩
                · cases h
              · simp only [res_bind_ok, Res.pure_eq] at h
                cases h
                exact ⟨(fun j hj => by cases hj; exact hlt), rfl, rfl, rfl, rfl, rfl, fun k => rfl⟩
            | err => rw [hadd] at h; cases h
            | panic => rw [hadd] at h; cases h
            | outOfFuel => rw [hadd] at h; cases h
          · have hsig' : dep.sig_ok = false := by simpa using hsig
            simp only [hsig', Bool.not_false, if_true, Res.pure_eq] at h
            cases h
            exact Or.inr (Or.inl ⟨rfl, rfl⟩)
      | none =>
        rw [hpk] at h
        simp only [] at h
        by_cases hsig : dep.sig_ok = true
        · simp only [hsig, Bool.not_true, Bool.false_eq_true, if_false] at h
          cases hadd : addValidator cfg { st with eth1_deposit_index := w64 (st.eth1_deposit_index + 1) } dep.data.pubkey
              dep.data.withdrawal_credentials dep.data.amount with
          | ok s2 =>
            rw [hadd] at h
            simp only [res_bind_ok] at h
            refine Or.inr (Or.inr ?_)
            split at h
            · simp only [rget_bind] at h
              split at h
              · simp only [res_bind_ok, Res.pure_eq] at h
                cases h
                exact ⟨(fun j hj => by cases hj), rfl, rfl, rfl, rfl, rfl, fun k => rfl⟩
              · cases h
            · simp only [res_bind_ok, Res.pure_eq] at h
              cases h
              exact ⟨(fun j hj => by cases hj), rfl, rfl, rfl, rfl, rfl, fun k => rfl⟩
          | err => rw [hadd] at h; cases h
          | panic => rw [hadd] at h; cases h
          | outOfFuel => rw [hadd] at h; cases h
        · have hsig' : dep.sig_ok = false := by simpa using hsig
          simp only [hsig', Bool.not_false, if_true, Res.pure_eq] at h
          cases h
          exact Or.inr (Or.inl ⟨rfl, rfl⟩)
  | err => rw [hb] at h; cases h
  | panic => rw [hb] at h; cases h
  | outOfFuel => rw [hb] at h; cases h


/-! ### what the other operations leave alone: pubkeys and the deposit index -/

theorem processHeader_keys (st st' : State) (block : SignedBlock) (p : Nat) (h : processHeader st block p = .ok st') :
    st'.validators = st.validators ∧ st'.eth1_deposit_index = st.eth1_deposit_index := by
  unfold processHeader at h
  simp only [guard_bind, rget_bind] at h
  repeat' split at h
  all_goals first | (cases h; done) | (cases h; exact ⟨rfl, rfl⟩)

theorem processRandao_keys (cfg : Config) (ctx : Ctx) (st st' : State) (block : SignedBlock)
    (h : processRandaoReveal cfg ctx st block = .ok st') :
    st'.validators = st.validators ∧ st'.eth1_deposit_index = st.eth1_deposit_index := by
  unfold processRandaoReveal at h
  simp only [guard_bind, rget_bind, ofOpt_bind] at h
  repeat' split at h
  all_goals first | (cases h; done) | (cases h; exact ⟨rfl, rfl⟩)

theorem processEth1_keys (cfg : Config) (st st' : State) (data : Eth1Data) (h : processEth1Vote cfg st data = .ok st') :
    st'.validators = st.validators ∧ st'.eth1_deposit_index = st.eth1_deposit_index := by
  unfold processEth1Vote at h
  simp only [guard_bind] at h
  repeat' split at h
  all_goals first | (cases h; done) | (cases h; exact ⟨rfl, rfl⟩)

theorem initiate_pure_pubkeys (cfg : Config) (cur : Nat) (vals : List Validator) (i : Nat) :
    (initiate_validator_exit_pure cfg cur vals i).map (·.pubkey) = vals.map (·.pubkey) := by
  rw [ive_unfold]
  cases hv : vals[i]? with
  | none => rfl
  | some v =>
    simp only []
    split
    · rfl
    · exact map_set_same (·.pubkey) vals i v _ hv rfl

/-- `PubkeyOK` only looks at the pubkeys of the registry -/
theorem PubkeyOK.of_pubkeys {s s' : State} {ctx : Ctx} (h : PubkeyOK s ctx)
    (hk : s'.validators.map (·.pubkey) = s.validators.map (·.pubkey)) : PubkeyOK s' ctx := by
  intro pk
  have hl : s'.validators.length = s.validators.length := by
    have := congrArg List.length hk; simpa using this
  rw [h pk, hk, hl]

theorem slash_pubkeys (cfg : Config) (s s' : State) (i p : Nat) (h : Block.slash_validator_pure cfg s i p = some s') :
    s'.validators.map (·.pubkey) = s.validators.map (·.pubkey) := by
  obtain ⟨v, _, _, _, _, _, _, hv, hvals, _⟩ := slash_pure_shape cfg s s' i p h
  rw [hvals]
  exact (map_set_same (·.pubkey) _ i v
    { v with slashed := true, withdrawable_epoch := max v.withdrawable_epoch (s.slot / cfg.SLOTS_PER_EPOCH + cfg.EPOCHS_PER_SLASHINGS_VECTOR) }
    hv rfl).trans (initiate_pure_pubkeys cfg _ s.validators i)

/-- the slashing loop of `ProcessAttesterSlashing` keeps every reflexive, transitive relation that one accepted
`slash_validator` keeps -/
theorem slash_fold_rel (cfg : Config) (ctx : Ctx) (S0 : State) (p Bm C : Nat) (K : P0Const cfg S0 Bm C)
    (hp : ctx.proposer = some p) (R : State → State → Prop) (hrefl : ∀ s, R s s) (htrans : ∀ a b c, R a b → R b c → R a c)
    (hstepR : ∀ st st2 i, Block.slash_validator_pure cfg st i p = some st2 → R st st2) :
    ∀ (l : List Nat) (st : State) (b : Bool) (j : Nat) (r : State × Bool),
      SlashInv cfg S0 p ctx.activeCount Bm C (j + l.length) st →
      l.foldlM (slashStepM cfg ctx (S0.slot / cfg.SLOTS_PER_EPOCH)) (st, b) = .ok r → R st r.1 := by
  intro l
  induction l with
  | nil =>
    intro st b j r h hf
    simp only [List.foldlM_nil, Res.pure_eq] at hf
    cases hf
    exact hrefl st
  | cons i t ih =>
    intro st b j r h hf
    simp only [List.foldlM_cons] at hf
    have h' : SlashInv cfg S0 p ctx.activeCount Bm C (j + t.length + 1) st := h
    cases hstep : slashStepM cfg ctx (S0.slot / cfg.SLOTS_PER_EPOCH) (st, b) i with
    | ok r1 =>
      rw [hstep] at hf
      simp only [res_bind_ok] at hf
      have hkeep : SlashInv cfg S0 p ctx.activeCount Bm C (j + t.length) r1.1 ∧ R st r1.1 := by
        unfold slashStepM at hstep
        simp only [rget_bind] at hstep
        cases hv : st.validators[i]? with
        | none => rw [hv] at hstep; cases hstep
        | some v =>
          rw [hv] at hstep
          simp only [] at hstep
          by_cases hsl : isSlashable v (S0.slot / cfg.SLOTS_PER_EPOCH) = true
          · simp only [hsl, if_true] at hstep
            obtain ⟨hes, hsm⟩ := h'.small K.hC K.hepoch K.hBm
            have hact : ctx.activeCount = (st.validators.filter (is_active_validator · (st.slot / cfg.SLOTS_PER_EPOCH))).length := by
              rw [h'.slot]; exact h'.active.symm
            have hz' : cfg.EPOCHS_PER_SLASHINGS_VECTOR ≠ 0 ∧ min_slashing_penalty_quotient cfg st.fork ≠ 0 ∧
                cfg.WHISTLEBLOWER_REWARD_QUOTIENT ≠ 0 ∧ cfg.PROPOSER_REWARD_QUOTIENT ≠ 0 := by rw [h'.fork]; exact K.hz
            rw [slash_eq cfg ctx st i p hp hact K.hq h'.reg hes hsm hz'] at hstep
            cases hpure : Block.slash_validator_pure cfg st i p with
            | none => rw [hpure] at hstep; cases hstep
            | some st2 =>
              rw [hpure] at hstep
              simp only [optRes, res_bind_ok, Res.pure_eq] at hstep
              cases hstep
              have hsl2 : isSlashable v (st.slot / cfg.SLOTS_PER_EPOCH) = true := by rw [h'.slot]; exact hsl
              exact ⟨(slash_keeps cfg S0 p _ Bm C _ K st st2 i v h' hv hsl2 hpure).1, hstepR st st2 i hpure⟩
          · simp only [hsl, if_false, Res.pure_eq] at hstep
            cases hstep
            exact ⟨h'.mono, hrefl st⟩
      exact htrans _ _ _ hkeep.2 (ih r1.1 r1.2 j r hkeep.1 hf)
    | err => rw [hstep] at hf; cases hf
    | panic => rw [hstep] at hf; cases hf
    | outOfFuel => rw [hstep] at hf; cases hf


/-! ### the invariant of arbitrary phase0 blocks -/

theorem P0Const.le {cfg : Config} {S0 : State} {Bm C C' : Nat} (K : P0Const cfg S0 Bm C) (h : C' ≤ C) : P0Const cfg S0 Bm C' :=
  { K with hC := by have := K.hC; omega }

theorem SlashInv.weakenC {cfg : Config} {s0 : State} {p A Bm C1 C2 j : Nat} {st : State}
    (h : SlashInv cfg s0 p A Bm C1 j st) (hle : C1 ≤ C2) : SlashInv cfg s0 p A Bm C2 j st :=
  { h with budget := Nat.le_trans h.budget hle }

theorem P0AInv.weakenC {cfg : Config} {S0 : State} {p Bm C1 C2 k : Nat} {ctx : Ctx} {st : State}
    (h : P0AInv cfg S0 p Bm C1 k ctx st) (hle : C1 ≤ C2) : P0AInv cfg S0 p Bm C2 k ctx st :=
  ⟨⟨h.base.slash.weakenC hle, h.base.ctxp, h.base.plt, h.base.mixes, h.base.vlen⟩, h.comm, h.nd, h.hcur⟩

/-- further configuration facts for deposits -/
structure P0DConst (cfg : Config) (Bm : Nat) : Prop where
  hebi : cfg.EFFECTIVE_BALANCE_INCREMENT ≠ 0
  hmaxeb : cfg.MAX_EFFECTIVE_BALANCE ≤ Bm
  hlimit : cfg.VALIDATOR_REGISTRY_LIMIT ≤ marker

/-- the invariant of phase0 block processing, deposits included: `P0AInv` with an exit-queue budget that leaves room for
`k` more validators, the pubkey cache answering as the registry, and room for `k` more deposits in the deposit index
and in the balances -/
structure P0DInv (cfg : Config) (S0 : State) (p Bm C : Nat) (k : Nat) (ctx : Ctx) (st : State) : Prop where
  inv : P0AInv cfg S0 p Bm (C - k) k ctx st
  pk : PubkeyOK st ctx
  didx : st.eth1_deposit_index + k < 2 ^ 64
  room : k * cfg.MAX_VALIDATORS_PER_COMMITTEE * (2 * Bm) + cfg.MAX_VALIDATORS_PER_COMMITTEE * (2 * Bm) < 2 ^ 64

theorem P0DInv.mono {cfg : Config} {S0 : State} {p Bm C k : Nat} {ctx : Ctx} {st : State}
    (h : P0DInv cfg S0 p Bm C (k + 1) ctx st) : P0DInv cfg S0 p Bm C k ctx st :=
  ⟨h.inv.mono.weakenC (by omega), h.pk, by have := h.didx; omega,
   by have := h.room; rw [Nat.succ_mul, Nat.add_mul] at this; omega⟩

/-- an operation other than a deposit: the `P0AInv` step with the smaller exit budget, pubkeys and deposit index kept -/
theorem P0DInv.after {cfg : Config} {S0 : State} {p Bm C k : Nat} {ctx : Ctx} {st st' : State}
    (h : P0DInv cfg S0 p Bm C (k + 1) ctx st) (hinv : P0AInv cfg S0 p Bm (C - (k + 1)) k ctx st')
    (hk : st'.validators.map (·.pubkey) = st.validators.map (·.pubkey)) (hd : st'.eth1_deposit_index = st.eth1_deposit_index) :
    P0DInv cfg S0 p Bm C k ctx st' :=
  ⟨hinv.weakenC (by omega), h.pk.of_pubkeys hk, by rw [hd]; have := h.didx; omega,
   by have := h.room; rw [Nat.succ_mul, Nat.add_mul] at this; omega⟩

theorem p0d_header (cfg : Config) (S0 : State) (p Bm C : Nat) (block : SignedBlock) (k : Nat) (ctx : Ctx) (st : State)
    (hi : P0DInv cfg S0 p Bm C (k + 1) ctx st) :
    Sim (Block.process_block_header cfg st block) (ofOpt ctx.proposer >>= fun p => processHeader st block p) ∧
    ∀ st', (ofOpt ctx.proposer >>= fun p => processHeader st block p) = .ok st' → P0DInv cfg S0 p Bm C k ctx st' := by
  obtain ⟨h1, h2⟩ := p0a_header cfg S0 p Bm _ block k ctx st hi.inv
  refine ⟨h1, fun st' h => ?_⟩
  have h' := h
  rw [hi.inv.base.ctxp] at h'
  simp only [ofOpt, res_bind_ok] at h'
  obtain ⟨hv, hd⟩ := processHeader_keys st st' block p h'
  exact hi.after (h2 st' h) (by rw [hv]) hd

theorem p0d_randao (cfg : Config) (S0 : State) (p Bm C : Nat) (K : P0Const cfg S0 Bm C) (KA : P0AConst cfg) (block : SignedBlock) (ctx : Ctx) :
    Step (fun k => P0DInv cfg S0 p Bm C k ctx) false [()] (fun st _ => Block.process_randao cfg st block)
      (fun st _ => processRandaoReveal cfg ctx st block) := by
  intro k st u hu hi
  obtain ⟨h1, h2⟩ := p0a_randao cfg S0 p Bm _ (K.le (Nat.sub_le C (k + 1))) KA block ctx k st u hu hi.inv
  refine ⟨h1, fun st' h => ⟨?_, fun hf => by cases hf⟩⟩
  obtain ⟨hv, hd⟩ := processRandao_keys cfg ctx st st' block h
  exact hi.after (h2 st' h).1 (by rw [hv]) hd

theorem p0d_eth1 (cfg : Config) (S0 : State) (p Bm C : Nat) (K : P0Const cfg S0 Bm C) (block : SignedBlock) (ctx : Ctx) :
    Step (fun k => P0DInv cfg S0 p Bm C k ctx) false [()] (fun st _ => Block.process_eth1_data cfg st block)
      (fun st _ => processEth1Vote cfg st block.eth1_data) := by
  intro k st u hu hi
  obtain ⟨h1, h2⟩ := p0a_eth1 cfg S0 p Bm _ (K.le (Nat.sub_le C (k + 1))) block ctx k st u hu hi.inv
  refine ⟨h1, fun st' h => ⟨?_, fun hf => by cases hf⟩⟩
  obtain ⟨hv, hd⟩ := processEth1_keys cfg st st' block.eth1_data h
  exact hi.after (h2 st' h).1 (by rw [hv]) hd

theorem p0d_exit (cfg : Config) (S0 : State) (p Bm C : Nat) (K : P0Const cfg S0 Bm C) (l : List SignedVoluntaryExit) (ctx : Ctx) :
    Step (fun k => P0DInv cfg S0 p Bm C k ctx) false l (Block.process_voluntary_exit cfg) (processVoluntaryExit cfg ctx) := by
  intro k st exit hx hi
  have K' := K.le (Nat.sub_le C (k + 1))
  obtain ⟨h1, h2⟩ := p0a_exit cfg S0 p Bm _ K' l ctx k st exit hx hi.inv
  refine ⟨h1, fun st' h => ⟨?_, fun hf => by cases hf⟩⟩
  obtain ⟨hact, hes, _, _, hs⟩ := hi.inv.base.facts K'
  obtain ⟨v, hv, _, hst'⟩ := processVoluntaryExit_shape cfg ctx st st' exit hact K.hq hs.reg hes h
  exact hi.after (h2 st' h).1 (by rw [hst']; exact initiate_pure_pubkeys _ _ _ _) (by rw [hst'])

theorem p0d_proposerSlashing (cfg : Config) (S0 : State) (p Bm C : Nat) (K : P0Const cfg S0 Bm C) (l : List ProposerSlashing) (ctx : Ctx) :
    Step (fun k => P0DInv cfg S0 p Bm C k ctx) true l (Block.process_proposer_slashing cfg) (processProposerSlashing cfg ctx) := by
  intro k st ps hx hi
  have K' := K.le (Nat.sub_le C (k + 1))
  obtain ⟨h1, h2⟩ := p0a_proposerSlashing cfg S0 p Bm _ K' l ctx k st ps hx hi.inv
  refine ⟨h1, fun st' h => ⟨?_, (h2 st' h).2⟩⟩
  obtain ⟨hact, hes, hsm, _, hs⟩ := hi.inv.base.facts K'
  have hz' : cfg.EPOCHS_PER_SLASHINGS_VECTOR ≠ 0 ∧ min_slashing_penalty_quotient cfg st.fork ≠ 0 ∧
      cfg.WHISTLEBLOWER_REWARD_QUOTIENT ≠ 0 ∧ cfg.PROPOSER_REWARD_QUOTIENT ≠ 0 := by rw [hs.fork]; exact K.hz
  obtain ⟨v0, hv0, hsl, hsv⟩ := processProposerSlashing_shape cfg ctx st st' ps h
  rw [slash_eq cfg ctx st _ p hi.inv.base.ctxp hact K.hq hs.reg hes hsm hz'] at hsv
  cases hpure : Block.slash_validator_pure cfg st ps.signed_header_1.message.proposer_index p with
  | none => rw [hpure] at hsv; cases hsv
  | some st2 =>
    rw [hpure] at hsv
    simp only [optRes] at hsv
    cases hsv
    exact hi.after (h2 st' h).1 (slash_pubkeys cfg st st' _ p hpure) ((h2 st' h).2 rfl).2

theorem p0d_attesterSlashing (cfg : Config) (S0 : State) (p Bm C : Nat) (K : P0Const cfg S0 Bm C) (l : List AttesterSlashing) (ctx : Ctx)
    (hl : ∀ op ∈ l, op.attestation_1.attesting_indices.length ≤ cfg.MAX_VALIDATORS_PER_COMMITTEE ∧
      op.attestation_2.attesting_indices.length ≤ cfg.MAX_VALIDATORS_PER_COMMITTEE) :
    Step (fun k => P0DInv cfg S0 p Bm C k ctx) true l (Block.process_attester_slashing cfg) (processAttesterSlashing cfg ctx) := by
  intro k st op hop hi
  have K' := K.le (Nat.sub_le C (k + 1))
  obtain ⟨h1, h2⟩ := p0a_attesterSlashing cfg S0 p Bm _ K' l ctx hl k st op hop hi.inv
  refine ⟨h1, fun st' h => ⟨?_, (h2 st' h).2⟩⟩
  obtain ⟨_, _, _, _, hs⟩ := hi.inv.base.facts K'
  obtain ⟨hlen1, hlen2⟩ := hl op hop
  obtain ⟨lst, b, hll, hfold⟩ := processAttesterSlashing_shape cfg ctx st st' op hlen1 hlen2 hi.inv.base.vlen h
  rw [hs.slot] at hfold
  have hstart : SlashInv cfg S0 p ctx.activeCount Bm (C - (k + 1)) (k * cfg.MAX_VALIDATORS_PER_COMMITTEE + (cfg.MAX_VALIDATORS_PER_COMMITTEE - lst.length) + lst.length) st := by
    have : k * cfg.MAX_VALIDATORS_PER_COMMITTEE + (cfg.MAX_VALIDATORS_PER_COMMITTEE - lst.length) + lst.length =
        k * cfg.MAX_VALIDATORS_PER_COMMITTEE + cfg.MAX_VALIDATORS_PER_COMMITTEE := by omega
    rw [this]; exact hs
  have hk := slash_fold_rel cfg ctx S0 p Bm _ K' hi.inv.base.ctxp
    (fun a b => b.validators.map (·.pubkey) = a.validators.map (·.pubkey)) (fun _ => rfl) (fun a b c h1 h2 => h2.trans h1)
    (fun a b i hp => slash_pubkeys cfg a b i p hp) lst st false _ (st', b) hstart hfold
  exact hi.after (h2 st' h).1 hk ((h2 st' h).2 rfl).2

theorem p0d_attestation (cfg : Config) (S0 : State) (p Bm C : Nat) (K : P0Const cfg S0 Bm C) (KA : P0AConst cfg) (hF : S0.fork = .phase0) (l : List Attestation) (ctx : Ctx)
    (hl : ∀ att ∈ l, att.bits_wellformed = true ∧ att.aggregation_bits.length ≤ cfg.MAX_VALIDATORS_PER_COMMITTEE) :
    Step (fun k => P0DInv cfg S0 p Bm C k ctx) true l (Block.process_attestation cfg)
      (if Fork.phase0 = .phase0 then processAttestationPhase0 cfg ctx else processAttestationAltair cfg ctx) := by
  intro k st att hatt hi
  have K' := K.le (Nat.sub_le C (k + 1))
  obtain ⟨h1, h2⟩ := p0a_attestation cfg S0 p Bm _ K' KA hF l ctx hl k st att hatt hi.inv
  refine ⟨h1, fun st' h => ⟨?_, (h2 st' h).2⟩⟩
  obtain ⟨hwf, hmaxbits⟩ := hl att hatt
  have hfork : st.fork = .phase0 := by rw [hi.inv.base.slash.fork]; exact hF
  have hcur : st.slot + 2 * cfg.SLOTS_PER_EPOCH < 2 ^ 64 := by rw [hi.inv.base.slash.slot]; exact hi.inv.hcur
  have h' := h
  simp only [if_true] at h'
  rw [attestation_phase0_eq cfg ctx st att _ _ _ hfork rfl rfl rfl (hi.inv.nd _ _) hwf hmaxbits KA.hspe KA.hmin hcur] at h'
  cases hpure : Block.process_attestation_phase0_pure cfg st att (ctx.committeeCount att.data.target.epoch)
      (ctx.committee att.data.slot att.data.index) ctx.proposer with
  | none => rw [hpure] at h'; cases h'
  | some s2 =>
    rw [hpure] at h'
    simp only [optRes] at h'
    cases h'
    obtain ⟨hv, _, _, _, _, _, _, e2⟩ := phase0_attestation_frame cfg st st' att _ _ _ hpure
    exact hi.after (h2 st' h).1 (by rw [hv]) e2


/-- `SlashInv` for a state that differs in the balances only, given the bound on the new balances -/
theorem SlashInv.with_balances {cfg : Config} {s0 : State} {p A Bm C j : Nat} {st st' : State}
    (h : SlashInv cfg s0 p A Bm C j st)
    (hv : st'.validators = st.validators) (hsl : st'.slashings = st.slashings)
    (hslot : st'.slot = st.slot) (hf : st'.fork = st.fork) (hmix : st'.randao_mixes = st.randao_mixes)
    (hb : ∀ b ∈ st'.balances, b + j * (2 * Bm) < 2 ^ 64) : SlashInv cfg s0 p A Bm C j st' :=
  ⟨by rw [hslot]; exact h.slot, by rw [hf]; exact h.fork,
   by rw [proposer_frame cfg st st' (sameDuties_of_frame cfg st st' hv hslot (seed_of_mixes cfg st st' _ _ hmix))]; exact h.proposer,
   by rw [hv]; exact h.active, by rw [hv]; exact h.budget, by rw [hv]; exact h.reg, by rw [hv]; exact h.eff,
   by rw [hsl]; exact h.slashings, hb, by rw [hsl]; exact h.slen⟩

set_option maxHeartbeats 2000000 in
theorem p0d_deposit (cfg : Config) (S0 : State) (p Bm C : Nat) (K : P0Const cfg S0 Bm C) (KD : P0DConst cfg Bm) (l : List Deposit)
    (hl : ∀ d ∈ l, d.proof.length = Block.DEPOSIT_CONTRACT_TREE_DEPTH + 1 ∧ d.data.amount ≤ cfg.MAX_VALIDATORS_PER_COMMITTEE * (2 * Bm)) :
    ∀ k ctx st d, d ∈ l → P0DInv cfg S0 p Bm C (k + 1) ctx st →
      Sim (Block.process_deposit cfg st d) (processDeposit cfg ctx st d >>= fun r => Res.ok r.2) ∧
      ∀ r, processDeposit cfg ctx st d = .ok r → P0DInv cfg S0 p Bm C k r.1 r.2 := by
  intro k ctx st d hd hi
  obtain ⟨hproof, hamt⟩ := hl d hd
  have hs := hi.inv.base.slash
  -- budgets
  have hidx : st.eth1_deposit_index + 1 < 2 ^ 64 := by have := hi.didx; omega
  have hbud : ∀ b ∈ st.balances, b + k * cfg.MAX_VALIDATORS_PER_COMMITTEE * (2 * Bm) + cfg.MAX_VALIDATORS_PER_COMMITTEE * (2 * Bm) < 2 ^ 64 := by
    intro b hb
    have := hs.balances b hb
    rw [Nat.succ_mul, Nat.add_mul] at this
    omega
  have hbal : ∀ b ∈ st.balances, b + d.data.amount < 2 ^ 64 := fun b hb => by have := hbud b hb; omega
  refine ⟨sim_deposit cfg ctx st d hi.pk hproof KD.hebi hidx hbal, ?_⟩
  intro r hr
  obtain ⟨ctx', st'⟩ := r
  simp only []
  have hroom : k * cfg.MAX_VALIDATORS_PER_COMMITTEE * (2 * Bm) + cfg.MAX_VALIDATORS_PER_COMMITTEE * (2 * Bm) < 2 ^ 64 := by
    have := hi.room; rw [Nat.succ_mul, Nat.add_mul] at this; omega
  have hw : w64 (st.eth1_deposit_index + 1) = st.eth1_deposit_index + 1 := w64_id _ hidx
  have hdidx : st.eth1_deposit_index + 1 + k < 2 ^ 64 := by have := hi.didx; omega
  have hsk : SlashInv cfg S0 p ctx.activeCount Bm (C - (k + 1)) (k * cfg.MAX_VALIDATORS_PER_COMMITTEE) st := hi.inv.mono.base.slash
  have hkC : k + 1 < C := by
    have h1 := cae_le_qmax cfg (S0.slot / cfg.SLOTS_PER_EPOCH) st.validators
    have h2 := hs.budget
    unfold compute_activation_exit_epoch at h1
    generalize S0.slot / cfg.SLOTS_PER_EPOCH = cur0 at h1 h2
    omega
  rcases processDeposit_shape cfg ctx ctx' st st' d hr with ⟨i, b, _, hlt, hb, hc, hst⟩ | ⟨hc, hst⟩ | ⟨hnone, hadd, c1, c2, c3, c4, c5⟩
  · -- top-up
    have hc' := hc.symm
    subst hc' 
    have hbm : b ∈ st.balances := List.mem_of_getElem? hb
    have hwb : w64 (b + d.data.amount) = b + d.data.amount := w64_id _ (hbal b hbm)
    have hs' : SlashInv cfg S0 p ctx.activeCount Bm (C - (k + 1)) (k * cfg.MAX_VALIDATORS_PER_COMMITTEE) st' := by
      apply hsk.with_balances (by rw [hst]) (by rw [hst]) (by rw [hst]) (by rw [hst]) (by rw [hst])
      intro x hx
      rw [hst] at hx
      simp only [] at hx
      rcases List.mem_or_eq_of_mem_set hx with h1 | h1
      · have := hbud x h1; omega
      · rw [h1, hwb]; have := hbud b hbm; omega
    refine ⟨⟨⟨hs'.weakenC (by omega), hi.inv.base.ctxp, by rw [hst]; exact hi.inv.base.plt, by rw [hst]; exact hi.inv.base.mixes,
      by rw [hst]; exact hi.inv.base.vlen⟩, ?_, hi.inv.nd, hi.inv.hcur⟩, ?_, ?_, hroom⟩
    · exact hi.inv.comm.keep (by rw [hst]) (by rw [hst]) (fun e _ _ => seed_of_mixes cfg st st' _ _ (by rw [hst]))
    · exact hi.pk.of_pubkeys (by rw [hst])
    · rw [hst]; simp only []; rw [hw]; exact hdidx
  · -- skipped
    have hc' := hc.symm
    subst hc' 
    have hs' : SlashInv cfg S0 p ctx.activeCount Bm (C - (k + 1)) (k * cfg.MAX_VALIDATORS_PER_COMMITTEE) st' :=
      hsk.frame (by rw [hst]) (by rw [hst]) (by rw [hst]) (by rw [hst]) (by rw [hst]) (seed_of_mixes cfg st st' _ _ (by rw [hst]))
    refine ⟨⟨⟨hs'.weakenC (by omega), hi.inv.base.ctxp, by rw [hst]; exact hi.inv.base.plt, by rw [hst]; exact hi.inv.base.mixes,
      by rw [hst]; exact hi.inv.base.vlen⟩, ?_, hi.inv.nd, hi.inv.hcur⟩, ?_, ?_, hroom⟩
    · exact hi.inv.comm.keep (by rw [hst]) (by rw [hst]) (fun e _ _ => seed_of_mixes cfg st st' _ _ (by rw [hst]))
    · exact hi.pk.of_pubkeys (by rw [hst])
    · rw [hst]; simp only []; rw [hw]; exact hdidx
  · -- new validator
    obtain ⟨eff, heff, hlim, hvals0, hbals, hslot, hmix, hfk, hsls, hdi, he1, _, _, _⟩ := addValidator_fields cfg
      { st with eth1_deposit_index := w64 (st.eth1_deposit_index + 1) } st' d.data.pubkey d.data.withdrawal_credentials d.data.amount hadd
    simp only [] at hvals0 hbals hslot hmix hfk hsls hdi he1 hlim
    generalize hvdef : (⟨d.data.pubkey, d.data.withdrawal_credentials, eff, false, FAR_FUTURE_EPOCH, FAR_FUTURE_EPOCH, FAR_FUTURE_EPOCH,
      FAR_FUTURE_EPOCH⟩ : Validator) = v at hvals0
    have hfresh : FreshValidator v := by rw [← hvdef]; exact ⟨rfl, rfl, rfl, rfl, rfl⟩
    have hvpk : v.pubkey = d.data.pubkey := by rw [← hvdef]
    have hveff : v.effective_balance ≤ Bm := by rw [← hvdef]; exact Nat.le_trans heff KD.hmaxeb
    have hcurfar := hs.curfar (K.le (Nat.sub_le C (k + 1))).hC
    have hcur' : S0.slot / cfg.SLOTS_PER_EPOCH < FAR_FUTURE_EPOCH := by
      unfold get_current_epoch compute_epoch_at_slot at hcurfar; rw [hs.slot] at hcurfar; exact hcurfar
    have hvals : st'.validators = st.validators ++ [v] := hvals0
    have hinact := fresh_inactive v hfresh _ hcur'
    obtain ⟨hq, hfc⟩ := budget_append cfg (S0.slot / cfg.SLOTS_PER_EPOCH) st.validators v hfresh
    have hs' : SlashInv cfg S0 p ctx'.activeCount Bm (C - k) (k * cfg.MAX_VALIDATORS_PER_COMMITTEE) st' := by
      refine ⟨by rw [hslot]; exact hsk.slot, by rw [hfk]; exact hsk.fork, ?_, ?_, ?_, ?_, ?_, by rw [hsls]; exact hsk.slashings, ?_,
        by rw [hsls]; exact hsk.slen⟩
      · rw [proposer_append cfg st st' v hslot hmix hvals (by unfold get_current_epoch compute_epoch_at_slot; rw [hs.slot]; exact hinact)]
        exact hsk.proposer
      · rw [hvals, active_count_append _ _ _ hinact, c2]; exact hsk.active
      · rw [hvals, hq, hfc]; have := hsk.budget; omega
      · rw [hvals]
        intro w hw
        rcases List.mem_append.mp hw with h1 | h1
        · exact hsk.reg w h1
        · simp only [List.mem_singleton] at h1
          subst h1
          rw [hfresh.2.2.2.1, hfresh.2.2.2.2]
          unfold FAR_FUTURE_EPOCH; omega
      · rw [hvals]
        intro w hw
        rcases List.mem_append.mp hw with h1 | h1
        · exact hsk.eff w h1
        · simp only [List.mem_singleton] at h1
          subst h1; exact hveff
      · rw [hbals]
        intro x hx
        rcases List.mem_append.mp hx with h1 | h1
        · have := hbud x h1; omega
        · simp only [List.mem_singleton] at h1
          subst h1; omega
    have hcomm : CommOK cfg ctx' st' := by
      have h0 := hi.inv.comm.append v hfresh hslot hmix hvals (by rw [hs.slot]; exact hcur')
      exact ⟨fun e h1 h2 => by rw [c3]; exact h0.cc e h1 h2, fun slot idx n h1 h2 hn hlt => by rw [c4]; exact h0.com slot idx n h1 h2 hn hlt⟩
    have hnew : ctx.pubkeyIndex v.pubkey = none := by
      rw [hvpk]
      cases hpk : ctx.pubkeyIndex d.data.pubkey with
      | none => rfl
      | some i =>
        exfalso
        have h1 := hi.pk d.data.pubkey
        rw [hpk] at h1
        simp only [] at h1
        split at h1
        · rename_i hlt2
          cases h1
          exact hnone _ hpk hlt2
        · cases h1
    refine ⟨⟨⟨hs', by rw [c1]; exact hi.inv.base.ctxp, by rw [hvals, List.length_append]; have := hi.inv.base.plt; omega,
      by rw [hmix]; exact hi.inv.base.mixes, ?_⟩, hcomm, fun slot idx c hc => by rw [c4] at hc; exact hi.inv.nd slot idx c hc, hi.inv.hcur⟩,
      ?_, ?_, hroom⟩
    · rw [hvals, List.length_append, List.length_singleton]
      have := KD.hlimit; omega
    · exact PubkeyOK.append st st' ctx v ctx'.pubkeyIndex hi.pk hvals hnew (fun k' => by rw [c5 k', hvpk])
    · rw [hdi, hw]; exact hdidx


/-- a phase0 block container: every operation list inside the type limits of its elements; deposit amounts within one
unit of the balance budget -/
structure Phase0Block (cfg : Config) (Bm : Nat) (block : SignedBlock) : Prop where
  bls : block.bls_to_execution_changes = []
  payload : block.execution_payload = none
  sync : block.sync_aggregate = none
  aslen : ∀ op ∈ block.attester_slashings, op.attestation_1.attesting_indices.length ≤ cfg.MAX_VALIDATORS_PER_COMMITTEE ∧
    op.attestation_2.attesting_indices.length ≤ cfg.MAX_VALIDATORS_PER_COMMITTEE
  atyped : ∀ att ∈ block.attestations, att.bits_wellformed = true ∧ att.aggregation_bits.length ≤ cfg.MAX_VALIDATORS_PER_COMMITTEE
  dtyped : ∀ d ∈ block.deposits, d.proof.length = Block.DEPOSIT_CONTRACT_TREE_DEPTH + 1 ∧
    d.data.amount ≤ cfg.MAX_VALIDATORS_PER_COMMITTEE * (2 * Bm)

/-- `OpSteps` for `P0DInv`: every field discharged for every phase0 block -/
theorem opSteps_phase0 (cfg : Config) (S0 : State) (p Bm C : Nat) (K : P0Const cfg S0 Bm C) (KA : P0AConst cfg) (KD : P0DConst cfg Bm)
    (hF : S0.fork = .phase0) (block : SignedBlock) (hb : Phase0Block cfg Bm block) : OpSteps cfg block .phase0 (P0DInv cfg S0 p Bm C) :=
  { mono := fun _ _ _ h => h.mono
    fork := fun _ _ _ h => by rw [h.inv.base.slash.fork]; exact hF
    header := fun k ctx st hi => p0d_header cfg S0 p Bm C block k ctx st hi
    payload := fun ctx payload hpl => by rw [hb.payload] at hpl; cases hpl
    withdrawals := fun _ ctx payload hpl => by rw [hb.payload] at hpl; cases hpl
    randao := fun ctx => p0d_randao cfg S0 p Bm C K KA block ctx
    eth1 := fun ctx => p0d_eth1 cfg S0 p Bm C K block ctx
    proposerSlashing := fun ctx => p0d_proposerSlashing cfg S0 p Bm C K _ ctx
    attesterSlashing := fun ctx => p0d_attesterSlashing cfg S0 p Bm C K _ ctx hb.aslen
    attestation := fun ctx => p0d_attestation cfg S0 p Bm C K KA hF _ ctx hb.atyped
    deposit := fun k ctx st d hd hi => p0d_deposit cfg S0 p Bm C K KD _ hb.dtyped k ctx st d hd hi
    exit := fun ctx => p0d_exit cfg S0 p Bm C K _ ctx
    blsChange := fun ctx k st x hx => by rw [hb.bls] at hx; cases hx
    sync := fun ctx agg hsa => by rw [hb.sync] at hsa; cases hsa }

/-- `processBlock_phase0_eq`: for EVERY phase0 block, `ProcessBlock` simulates `process_block`, and the state after an
accepted block satisfies the invariant again (with the budget that is left) -/
theorem processBlock_phase0 (cfg : Config) (S0 : State) (p Bm C k : Nat) (K : P0Const cfg S0 Bm C) (KA : P0AConst cfg) (KD : P0DConst cfg Bm)
    (hF : S0.fork = .phase0) (ctx : Ctx) (block : SignedBlock) (hb : Phase0Block cfg Bm block)
    (hi : P0DInv cfg S0 p Bm C (blockNeed block k) ctx S0) (htyped : Block.check_types cfg block = .ok ()) :
    Sim (Block.process_block cfg S0 block) (processBlock cfg ctx S0 block) ∧
    ∀ st', processBlock cfg ctx S0 block = .ok st' → ∃ ctx', P0DInv cfg S0 p Bm C k ctx' st' :=
  ⟨processBlock_sim (opSteps_phase0 cfg S0 p Bm C K KA KD hF block hb) k ctx S0 hi htyped,
   processBlock_inv (opSteps_phase0 cfg S0 p Bm C K KA KD hF block hb) k ctx S0 hi⟩

/-- the same for `PostSlotTransition` (block signature, `process_block`, state root) -/
theorem postSlot_phase0 (cfg : Config) (S0 : State) (p Bm C k : Nat) (K : P0Const cfg S0 Bm C) (KA : P0AConst cfg) (KD : P0DConst cfg Bm)
    (hF : S0.fork = .phase0) (ctx : Ctx) (block : SignedBlock) (hb : Phase0Block cfg Bm block)
    (hi : P0DInv cfg S0 p Bm C (blockNeed block k) ctx S0) (htyped : Block.check_types cfg block = .ok ())
    (r : Bytes) (hroot : block.o_post_root = some r) :
    Sim (Block.state_transition_post_slots cfg S0 block) (postSlotTransition cfg ctx S0 block) :=
  postSlot_sim (opSteps_phase0 cfg S0 p Bm C K KA KD hF block hb) k ctx S0 hi htyped r hroot

end Zrnt.Proofs.BlockM
