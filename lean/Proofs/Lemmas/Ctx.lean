import Zrnt.Beacon.Ctx
import Proofs.Lemmas.Committees
/-! Lemmas for C08: what an epoch may write to the inputs of shufflings and seeds (`EpochWrites`), and the
stability of active sets and seeds under such writes. -/
namespace Zrnt.Proofs.Ctx
open Zrnt Zrnt.Beacon Zrnt.Beacon.Spec Zrnt.Beacon.Ctx

/-- One registry field (activation or exit epoch) may only be written, during epoch `N`, from "never" to an
epoch at or after `compute_activation_exit_epoch(N) = N + 1 + MAX_SEED_LOOKAHEAD`. -/
def FieldWrite (cfg : Config) (N old new : Nat) : Prop :=
  new = old ∨ (old = FAR_FUTURE_EPOCH ∧ compute_activation_exit_epoch cfg N ≤ new)

/-- **What blocks and the epoch transition of epoch `N` may write** to the inputs of shufflings and seeds:
the registry only grows; activation and exit epochs move only from `FAR_FUTURE_EPOCH` to
`≥ compute_activation_exit_epoch(N)`; validators added by deposits are not activated; of the randao mixes
only entry `N` (every block's reveal) and entry `N + 1` (the reset at the epoch transition) are written. -/
structure EpochWrites (cfg : Config) (N : Nat) (st st' : State) : Prop where
  len : st.validators.length ≤ st'.validators.length
  act : ∀ (i : Nat) (v v' : Validator), st.validators[i]? = some v → st'.validators[i]? = some v' →
    FieldWrite cfg N v.activation_epoch v'.activation_epoch
  exit : ∀ (i : Nat) (v v' : Validator), st.validators[i]? = some v → st'.validators[i]? = some v' →
    FieldWrite cfg N v.exit_epoch v'.exit_epoch
  fresh : ∀ (i : Nat) (v' : Validator), st.validators.length ≤ i → st'.validators[i]? = some v' → v'.activation_epoch = FAR_FUTURE_EPOCH
  mixesLen : st'.randao_mixes.length = st.randao_mixes.length
  mixes : ∀ j : Nat, j ≠ N % cfg.EPOCHS_PER_HISTORICAL_VECTOR → j ≠ (N + 1) % cfg.EPOCHS_PER_HISTORICAL_VECTOR →
    st'.randao_mixes[j]? = st.randao_mixes[j]?

variable {cfg : Config} {N : Nat} {st st' : State}

theorem fieldWrite_le_iff {old new e : Nat} (h : FieldWrite cfg N old new) (he : e ≤ N + 1)
    (hla : 1 ≤ cfg.MAX_SEED_LOOKAHEAD) (hfar : N + 1 < FAR_FUTURE_EPOCH) : (new ≤ e ↔ old ≤ e) := by
  rcases h with h | ⟨h1, h2⟩
  · rw [h]
  · subst h1
    unfold compute_activation_exit_epoch at h2
    constructor <;> intro h <;> omega

def actPred (s : State) (e : Nat) (i : Nat) : Bool :=
  match s.validators[i]? with
  | some v => is_active_validator v e
  | none => false

theorem get_active_eq (s : State) (e : Nat) :
    get_active_validator_indices s e = (List.range s.validators.length).filter (actPred s e) := rfl

/-- the active set of every epoch up to `N + 1` is untouched by what epoch `N` writes -/
theorem active_stable (hw : EpochWrites cfg N st st') (e : Nat) (he : e ≤ N + 1)
    (hla : 1 ≤ cfg.MAX_SEED_LOOKAHEAD) (hfar : N + 1 < FAR_FUTURE_EPOCH) :
    get_active_validator_indices st' e = get_active_validator_indices st e := by
  rw [get_active_eq, get_active_eq]
  have hsplit : List.range st'.validators.length =
      List.range st.validators.length ++ (List.range' st.validators.length (st'.validators.length - st.validators.length)) := by
    have := hw.len
    rw [List.range_eq_range', List.range_eq_range']
    have h := List.range'_append_1 (s := 0) (m := st.validators.length) (n := st'.validators.length - st.validators.length)
    simp only [Nat.zero_add] at h
    rw [h]; congr 1; omega
  rw [hsplit, List.filter_append]
  have h2 : (List.range' st.validators.length (st'.validators.length - st.validators.length)).filter (actPred st' e) = [] := by
    rw [List.filter_eq_nil_iff]
    intro i hi
    rw [List.mem_range'_1] at hi
    unfold actPred
    cases hv : st'.validators[i]? with
    | none => simp
    | some v' =>
      have := hw.fresh i v' hi.1 hv
      simp only [is_active_validator, this]
      simp; intro h; omega
  rw [h2, List.append_nil]
  apply List.filter_congr
  intro i hi
  rw [List.mem_range] at hi
  have hv : st.validators[i]? = some st.validators[i] := List.getElem?_eq_getElem hi
  have hi' : i < st'.validators.length := Nat.lt_of_lt_of_le hi hw.len
  have hv' : st'.validators[i]? = some st'.validators[i] := List.getElem?_eq_getElem hi'
  unfold actPred
  rw [hv, hv']
  simp only [is_active_validator]
  have ha := fieldWrite_le_iff (hw.act i _ _ hv hv') he hla hfar
  have hx := fieldWrite_le_iff (e := e) (hw.exit i _ _ hv hv') he hla hfar
  have h1 : (decide (st'.validators[i].activation_epoch ≤ e)) = decide (st.validators[i].activation_epoch ≤ e) := by
    simp [ha]
  have hx2 : (decide (e < st'.validators[i].exit_epoch)) = decide (e < st.validators[i].exit_epoch) := by
    have : (e < st'.validators[i].exit_epoch) ↔ (e < st.validators[i].exit_epoch) := by
      constructor <;> intro h <;> omega
    simp [this]
  rw [h1, hx2]

theorem mod_ne_of_lt_diff {a b V : Nat} (h1 : a < b) (h2 : b - a < V) : a % V ≠ b % V := by
  intro h
  have := Nat.sub_mod_eq_zero_of_mod_eq h.symm
  rw [Nat.mod_eq_of_lt h2] at this
  omega

/-- a seed only reads one randao mix; it is unchanged if that entry is neither `N` nor `N + 1` (mod the vector length) -/
theorem seed_stable_of_index (hw : EpochWrites cfg N st st') (e : Nat) (d : Bytes)
    (h1 : (e + cfg.EPOCHS_PER_HISTORICAL_VECTOR - cfg.MIN_SEED_LOOKAHEAD - 1) % cfg.EPOCHS_PER_HISTORICAL_VECTOR ≠ N % cfg.EPOCHS_PER_HISTORICAL_VECTOR)
    (h2 : (e + cfg.EPOCHS_PER_HISTORICAL_VECTOR - cfg.MIN_SEED_LOOKAHEAD - 1) % cfg.EPOCHS_PER_HISTORICAL_VECTOR ≠ (N + 1) % cfg.EPOCHS_PER_HISTORICAL_VECTOR) :
    get_seed cfg st' e d = get_seed cfg st e d := by
  unfold get_seed get_randao_mix idx
  simp only [bind, Except.bind, u64]
  by_cases hlt : e + cfg.EPOCHS_PER_HISTORICAL_VECTOR < 2 ^ 64
  · simp only [hlt, ite_true, pure, Except.pure]
    rw [hw.mixes _ h1 h2]
  · simp only [hlt, ite_false]
    rfl

/-- the seeds of the epochs `N - 1`, `N`, `N + 1` read mixes that epoch `N` does not write -/
theorem seed_stable (hw : EpochWrites cfg N st st') (e : Nat) (d : Bytes) (he : e ≤ N + 1) (he' : N ≤ e + 1)
    (hmin : 1 ≤ cfg.MIN_SEED_LOOKAHEAD) (hvec : cfg.MIN_SEED_LOOKAHEAD + 3 < cfg.EPOCHS_PER_HISTORICAL_VECTOR) :
    get_seed cfg st' e d = get_seed cfg st e d := by
  apply seed_stable_of_index hw
  · have h := mod_ne_of_lt_diff (a := e + cfg.EPOCHS_PER_HISTORICAL_VECTOR - cfg.MIN_SEED_LOOKAHEAD - 1)
      (b := N + cfg.EPOCHS_PER_HISTORICAL_VECTOR) (V := cfg.EPOCHS_PER_HISTORICAL_VECTOR) (by omega) (by omega)
    rwa [Nat.add_mod_right] at h
  · have h := mod_ne_of_lt_diff (a := e + cfg.EPOCHS_PER_HISTORICAL_VECTOR - cfg.MIN_SEED_LOOKAHEAD - 1)
      (b := N + 1 + cfg.EPOCHS_PER_HISTORICAL_VECTOR) (V := cfg.EPOCHS_PER_HISTORICAL_VECTOR) (by omega) (by omega)
    rwa [Nat.add_mod_right] at h

/-! ### decomposition of `ctxOf`, congruence, and the rotation step -/

section Rotate
variable {c : Ctx}

theorem ctxOf_ok (h : ctxOf cfg st = .ok c) :
    shufflingOf cfg st (get_current_epoch cfg st) = .ok c.cur ∧
    shufflingOf cfg st (get_previous_epoch cfg st) = .ok c.prev ∧
    shufflingOf cfg st (get_current_epoch cfg st + 1) = .ok c.next ∧
    proposersOf cfg st (get_current_epoch cfg st) c.cur.active = .ok c.proposers ∧
    syncOfOpt st.validators st.current_sync_committee = .ok c.syncCurrent ∧
    syncOfOpt st.validators st.next_sync_committee = .ok c.syncNext ∧
    c.effBalances = st.validators.map (·.effective_balance) ∧
    c.totalActiveStake = totalActiveStakeOf cfg st (get_current_epoch cfg st) ∧
    c.totalActiveStakeSqrt = integer_squareroot (totalActiveStakeOf cfg st (get_current_epoch cfg st)) ∧
    c.pubkeys = st.validators.map (·.pubkey) := by
  unfold ctxOf at h
  simp only [bind, Except.bind, pure, Except.pure] at h
  split at h
  · cases h
  · rename_i cur hcur
    split at h
    · cases h
    · rename_i prev hprev
      split at h
      · cases h
      · rename_i next hnext
        split at h
        · cases h
        · rename_i props hprops
          split at h
          · cases h
          · rename_i sc hsc
            split at h
            · cases h
            · rename_i sn hsn
              cases h
              exact ⟨hcur, hprev, hnext, hprops, hsc, hsn, rfl, rfl, rfl, rfl⟩

theorem shufflingOfParts_fields {e : Nat} {a : List Nat} {seed : Bytes} {s : ShufflingEpoch}
    (h : shufflingOfParts cfg e a seed = .ok s) : s.epoch = e ∧ s.active = a := by
  unfold shufflingOfParts at h
  simp only [bind, Except.bind, pure, Except.pure] at h
  split at h
  · cases h
  · split at h
    · cases h
    · cases h; exact ⟨rfl, rfl⟩

theorem shufflingOf_fields {e : Nat} {s : ShufflingEpoch} (h : shufflingOf cfg st e = .ok s) :
    s.epoch = e ∧ s.active = get_active_validator_indices st e := by
  unfold shufflingOf at h
  simp only [bind, Except.bind] at h
  split at h
  · cases h
  · exact shufflingOfParts_fields h

theorem indexOfPubkey_map (vs : List Validator) (pk : Bytes) :
    indexOfPubkey vs pk = (vs.map (·.pubkey)).findIdx? (fun q => decide (q = pk)) := by
  unfold indexOfPubkey
  rw [List.findIdx?_map]
  rfl

/-- the indexed sync committee depends on the registry only through its list of pubkeys -/
theorem syncOfOpt_congr {vs vs' : List Validator} (h : vs'.map (·.pubkey) = vs.map (·.pubkey)) (sc : Option SyncCommittee) :
    syncOfOpt vs' sc = syncOfOpt vs sc := by
  cases sc with
  | none => rfl
  | some sc =>
    simp only [syncOfOpt, syncOf]
    have : memberIndex vs' = memberIndex vs := by
      funext pk; unfold memberIndex; rw [indexOfPubkey_map, indexOfPubkey_map, h]
    rw [this]

/-- what the epoch transition at the end of epoch `N` does to the state's sync committees
(`process_sync_committee_updates`): at a period boundary the next committee becomes the current one (and a new
next one is computed), otherwise both stay. Before altair there are none. -/
structure SyncStep (cfg : Config) (N : Nat) (st st' : State) : Prop where
  boundary : st'.fork ≥ Fork.altair → (N + 1) % cfg.EPOCHS_PER_SYNC_COMMITTEE_PERIOD = 0 →
    st'.current_sync_committee = st.next_sync_committee
  inside : ¬ (st'.fork ≥ Fork.altair ∧ (N + 1) % cfg.EPOCHS_PER_SYNC_COMMITTEE_PERIOD = 0) →
    st'.current_sync_committee = st.current_sync_committee ∧ st'.next_sync_committee = st.next_sync_committee

theorem rotate_eq_ctxOf_aux {N : Nat}
    (hc : ctxOf cfg st = .ok c)
    (hN : get_current_epoch cfg st = N) (hN' : get_current_epoch cfg st' = N + 1)
    (hprev : shufflingOf cfg st' N = shufflingOf cfg st N)
    (hcur : shufflingOf cfg st' (N + 1) = shufflingOf cfg st (N + 1))
    (hreg : st'.validators.map (·.pubkey) = st.validators.map (·.pubkey))
    (hsync : SyncStep cfg N st st') :
    rotate cfg c st' = ctxOf cfg st' := by
  obtain ⟨h1, _, h3, _, h5, h6, _, _, _, h10⟩ := ctxOf_ok hc
  rw [hN] at h1 h3
  obtain ⟨hne, hna⟩ := shufflingOf_fields h3
  have hprevEpoch : get_previous_epoch cfg st' = N := by
    unfold get_previous_epoch; rw [hN']; simp [GENESIS_EPOCH]
  unfold rotate ctxOf
  rw [hN', hprevEpoch]
  dsimp only
  rw [hcur, h3, hprev, h1, hne]
  simp only [bind, Except.bind, pure, Except.pure]
  cases hnext : shufflingOf cfg st' (N + 1 + 1) with
  | error e => rfl
  | ok next =>
    simp only []
    cases hprop : proposersOf cfg st' (N + 1) c.next.active with
    | error e => rfl
    | ok props =>
      simp only []
      have hsc := syncOfOpt_congr hreg
      simp only [hsc]
      by_cases hb : st'.fork ≥ Fork.altair ∧ (N + 1) % cfg.EPOCHS_PER_SYNC_COMMITTEE_PERIOD = 0
      · rw [if_pos hb]
        have hcurSync := hsync.boundary hb.1 hb.2
        rw [hcurSync, h6]
        cases hsn : c.syncNext with
        | none =>
          simp only []
          cases hn2 : syncOfOpt st.validators st'.next_sync_committee with
          | error e => rfl
          | ok sn => simp [h10, hreg]
        | some sn0 =>
          simp only []
          cases hn2 : syncOfOpt st.validators st'.next_sync_committee with
          | error e => rfl
          | ok sn => simp [h10, hreg]
      · rw [if_neg hb]
        obtain ⟨e1, e2⟩ := hsync.inside hb
        rw [e1, e2, h5, h6]
        simp [h10, hreg]

/-- the context reads the state only through its slot, registry, randao mixes and sync committees -/
theorem ctxOf_congr {st st' : State} (hslot : st'.slot = st.slot) (hv : st'.validators = st.validators)
    (hm : st'.randao_mixes = st.randao_mixes) (hsc : st'.current_sync_committee = st.current_sync_committee)
    (hsn : st'.next_sync_committee = st.next_sync_committee) : ctxOf cfg st' = ctxOf cfg st := by
  have hseed : ∀ e d, get_seed cfg st' e d = get_seed cfg st e d := by
    intro e d; unfold get_seed get_randao_mix; rw [hm]
  have hact : ∀ e, get_active_validator_indices st' e = get_active_validator_indices st e := by
    intro e; unfold get_active_validator_indices; rw [hv]
  have hsh : ∀ e, shufflingOf cfg st' e = shufflingOf cfg st e := by
    intro e; unfold shufflingOf; rw [hseed, hact]
  have hpr : ∀ e a, proposersOf cfg st' e a = proposersOf cfg st e a := by
    intro e a; unfold proposersOf; rw [hseed, hv]
  have htot : ∀ e, totalActiveStakeOf cfg st' e = totalActiveStakeOf cfg st e := by
    intro e; unfold totalActiveStakeOf; rw [hact, hv]
  unfold ctxOf get_current_epoch get_previous_epoch get_current_epoch
  simp only [hsh, hpr, htot, hslot, hv, hsc, hsn]

end Rotate

/-- replacing the state's sync committees only changes the sync part of its context -/
theorem ctxOf_with_sync {cfg : Config} {pre : State} {c : Ctx} (hc : ctxOf cfg pre = .ok c)
    (a b : Option SyncCommittee) :
    ctxOf cfg { pre with current_sync_committee := a, next_sync_committee := b } =
      (do
        let sc ← syncOfOpt pre.validators a
        let sn ← syncOfOpt pre.validators b
        pure { c with syncCurrent := sc, syncNext := sn }) := by
  obtain ⟨h1, h2, h3, h4, _, _, h7, h8, h9, h10⟩ := ctxOf_ok hc
  have e1 : ∀ e, shufflingOf cfg { pre with current_sync_committee := a, next_sync_committee := b } e = shufflingOf cfg pre e :=
    fun _ => rfl
  have e2 : ∀ e l, proposersOf cfg { pre with current_sync_committee := a, next_sync_committee := b } e l = proposersOf cfg pre e l :=
    fun _ _ => rfl
  have e3 : get_current_epoch cfg { pre with current_sync_committee := a, next_sync_committee := b } = get_current_epoch cfg pre := rfl
  have e4 : get_previous_epoch cfg { pre with current_sync_committee := a, next_sync_committee := b } = get_previous_epoch cfg pre := rfl
  have e5 : ∀ e, totalActiveStakeOf cfg { pre with current_sync_committee := a, next_sync_committee := b } e = totalActiveStakeOf cfg pre e :=
    fun _ => rfl
  unfold ctxOf
  simp only [e1, e2, e3, e4, e5, h1, h2, h3, h4, bind, Except.bind, pure, Except.pure]
  cases syncOfOpt pre.validators a with
  | error e => rfl
  | ok sc =>
    cases syncOfOpt pre.validators b with
    | error e => rfl
    | ok sn =>
      simp only []
      congr 1
      cases c
      simp_all

/-! ### steps inside an epoch: congruence of proposers, stake and sync lookups; deposits -/

/-- registries that agree on the effective balances of the given indices -/
def EffAgree (vs vs' : List Validator) (indices : List Nat) : Prop :=
  ∀ i ∈ indices, (vs'[i]?).map (·.effective_balance) = (vs[i]?).map (·.effective_balance)

/-- the sampling step of the specification reads a registry only through the effective balances of the candidates -/
theorem candidate_congr {vs vs' : List Validator} {indices : List Nat} (h : EffAgree vs vs' indices) (seed : Bytes) (i : Nat) :
    Committees.Spec.candidate Spec.hash (cfgC cfg) (vs'.map valC) indices seed i =
      Committees.Spec.candidate Spec.hash (cfgC cfg) (vs.map valC) indices seed i := by
  unfold Committees.Spec.candidate
  simp only
  split
  · rfl
  · split
    · rfl
    · rename_i s hs
      cases hc : indices[s]? with
      | none => rfl
      | some cand =>
        have := h cand (List.mem_of_getElem? hc)
        simp only [List.getElem?_map]
        cases h1 : vs[cand]? <;> cases h2 : vs'[cand]? <;> simp_all [valC]

theorem proposer_loop_congr {vs vs' : List Validator} {indices : List Nat} (h : EffAgree vs vs' indices) (seed : Bytes) :
    ∀ fuel i, Committees.Spec.compute_proposer_index Spec.hash (cfgC cfg) (vs'.map valC) indices seed fuel i =
      Committees.Spec.compute_proposer_index Spec.hash (cfgC cfg) (vs.map valC) indices seed fuel i := by
  intro fuel
  induction fuel with
  | zero => intro i; rfl
  | succ fuel ih =>
    intro i
    simp only [Committees.Spec.compute_proposer_index, candidate_congr h, ih]

theorem compute_proposer_index_congr {vs vs' : List Validator} {indices : List Nat} (h : EffAgree vs vs' indices)
    (seed : Bytes) : compute_proposer_index cfg vs' indices seed = compute_proposer_index cfg vs indices seed := by
  unfold compute_proposer_index
  rw [proposer_loop_congr h]

theorem active_lt {st : State} {e i : Nat} (h : i ∈ get_active_validator_indices st e) : i < st.validators.length := by
  rw [get_active_eq] at h
  exact List.mem_range.mp (List.mem_filter.mp h).1

theorem proposersOf_congr {st st' : State} {e : Nat} {active : List Nat}
    (hseed : get_seed cfg st' e DOMAIN_BEACON_PROPOSER = get_seed cfg st e DOMAIN_BEACON_PROPOSER)
    (h : EffAgree st.validators st'.validators active) :
    proposersOf cfg st' e active = proposersOf cfg st e active := by
  unfold proposersOf
  rw [hseed]
  simp only [compute_proposer_index_congr h]

theorem totalActiveStakeOf_congr {st st' : State} {e : Nat}
    (hact : get_active_validator_indices st' e = get_active_validator_indices st e)
    (h : EffAgree st.validators st'.validators (get_active_validator_indices st e)) :
    totalActiveStakeOf cfg st' e = totalActiveStakeOf cfg st e := by
  unfold totalActiveStakeOf
  rw [hact]
  congr 2
  apply List.map_congr_left
  intro i hi
  have := h i hi
  simp only [List.getD_eq_getElem?_getD]
  cases h1 : st.validators[i]? <;> cases h2 : st'.validators[i]? <;> simp_all

/-- extending the registry keeps the index of every pubkey that was found -/
theorem indexOfPubkey_append {vs extra : List Validator} {pk : Bytes} {i : Nat}
    (h : indexOfPubkey vs pk = some i) : indexOfPubkey (vs ++ extra) pk = some i := by
  unfold indexOfPubkey at *
  rw [List.findIdx?_append, h]
  rfl

theorem mapM_ok_mono {α β : Type} {f g : α → SM β} : ∀ (l : List α) (out : List β),
    (∀ x ∈ l, ∀ y, f x = .ok y → g x = .ok y) → l.mapM f = .ok out → l.mapM g = .ok out := by
  intro l
  induction l with
  | nil => intro out _ h; simpa using h
  | cons x rest ih =>
    intro out hfg h
    simp only [List.mapM_cons, bind, Except.bind, pure, Except.pure] at h ⊢
    cases hx : f x with
    | error e => simp [hx] at h
    | ok y =>
      rw [hfg x (List.mem_cons_self) y hx]
      simp only [hx] at h
      cases hr : rest.mapM f with
      | error e => simp [hr] at h
      | ok out' =>
        rw [hr] at h
        rw [ih out' (fun z hz => hfg z (List.mem_cons_of_mem _ hz)) hr]
        exact h

theorem memberIndex_append {vs extra : List Validator} {pk : Bytes} {i : Nat}
    (h : memberIndex vs pk = .ok i) : memberIndex (vs ++ extra) pk = .ok i := by
  unfold memberIndex at *
  cases hi : indexOfPubkey vs pk with
  | none => simp [hi, invalid, throw, throwThe, MonadExceptOf.throw] at h
  | some j => rw [indexOfPubkey_append hi]; rw [hi] at h; exact h

theorem syncOf_append {vs extra : List Validator} {sc : SyncCommittee} {r : SyncC}
    (h : syncOf vs sc = .ok r) : syncOf (vs ++ extra) sc = .ok r := by
  unfold syncOf at *
  simp only [bind, Except.bind, pure, Except.pure] at *
  split at h
  · cases h
  · rename_i out hout
    rw [mapM_ok_mono _ _ (fun x _ y hy => memberIndex_append hy) hout]
    exact h

theorem syncOfOpt_append {vs extra : List Validator} {sc : Option SyncCommittee} {r : Option SyncC}
    (h : syncOfOpt vs sc = .ok r) : syncOfOpt (vs ++ extra) sc = .ok r := by
  cases sc with
  | none => exact h
  | some sc =>
    simp only [syncOfOpt, Functor.map, Except.map] at *
    split at h
    · cases h
    · rename_i r0 hr0
      rw [syncOf_append hr0]
      exact h

theorem foldl_afterDeposit (news : List Validator) : ∀ c : Ctx,
    news.foldl afterDeposit c =
      { c with pubkeys := c.pubkeys ++ news.map (·.pubkey), effBalances := c.effBalances ++ news.map (·.effective_balance) } := by
  induction news with
  | nil => intro c; simp
  | cons v rest ih => intro c; simp [List.foldl_cons, ih, afterDeposit, List.append_assoc]

/-- **A step inside an epoch** (slot processing without an epoch transition, or a block with any operations):
the registry keeps its existing validators' pubkeys and effective balances and gains the validators `news`
(deposits with new pubkeys), everything written is within `EpochWrites`, the state's sync committees are untouched.
Then the context of the new state is the old context with `afterDeposit` applied for each new validator. -/
theorem block_eq_ctxOf_aux {N : Nat} {st st1 : State} {c : Ctx} (old news : List Validator)
    (hc : ctxOf cfg st = .ok c)
    (hN : get_current_epoch cfg st = N) (hN1 : get_current_epoch cfg st1 = N)
    (hw : EpochWrites cfg N st st1)
    (hmin : 1 ≤ cfg.MIN_SEED_LOOKAHEAD) (hmax : 1 ≤ cfg.MAX_SEED_LOOKAHEAD)
    (hvec : cfg.MIN_SEED_LOOKAHEAD + 3 < cfg.EPOCHS_PER_HISTORICAL_VECTOR) (hfar : N + 1 < FAR_FUTURE_EPOCH)
    (hvals : st1.validators = old ++ news)
    (hpk : old.map (·.pubkey) = st.validators.map (·.pubkey))
    (heff : old.map (·.effective_balance) = st.validators.map (·.effective_balance))
    (hsc : st1.current_sync_committee = st.current_sync_committee)
    (hsn : st1.next_sync_committee = st.next_sync_committee) :
    ctxOf cfg st1 = .ok (news.foldl afterDeposit c) := by
  obtain ⟨h1, h2, h3, h4, h5, h6, h7, h8, h9, h10⟩ := ctxOf_ok hc
  have hprevE : get_previous_epoch cfg st1 = get_previous_epoch cfg st := by
    unfold get_previous_epoch; rw [hN, hN1]
  have hP1 : get_previous_epoch cfg st ≤ N + 1 := by
    unfold get_previous_epoch; rw [hN]; dsimp only [GENESIS_EPOCH]; by_cases h0 : N = 0 <;> simp [h0] <;> omega
  have hP2 : N ≤ get_previous_epoch cfg st + 1 := by
    unfold get_previous_epoch; rw [hN]; dsimp only [GENESIS_EPOCH]; by_cases h0 : N = 0 <;> simp [h0] <;> omega
  have hstab : ∀ e, e ≤ N + 1 → N ≤ e + 1 → shufflingOf cfg st1 e = shufflingOf cfg st e := by
    intro e he he'
    unfold shufflingOf
    rw [active_stable hw e he hmax hfar, seed_stable hw e _ he he' hmin hvec]
  obtain ⟨_, hact⟩ := shufflingOf_fields h1
  rw [hN] at hact
  have holdlen : old.length = st.validators.length := by
    have := congrArg List.length hpk; simpa using this
  have hagree : EffAgree st.validators st1.validators (get_active_validator_indices st N) := by
    intro i hi
    have hlt := active_lt hi
    rw [hvals, List.getElem?_append_left (by omega)]
    have e1 : (old[i]?).map (·.effective_balance) = (old.map (·.effective_balance))[i]? := by simp
    have e2 : (st.validators[i]?).map (·.effective_balance) = (st.validators.map (·.effective_balance))[i]? := by simp
    rw [e1, e2, heff]
  have hprop : proposersOf cfg st1 N c.cur.active = proposersOf cfg st N c.cur.active := by
    apply proposersOf_congr (seed_stable hw N _ (by omega) (by omega) hmin hvec)
    rw [hact]; exact hagree
  have htot : totalActiveStakeOf cfg st1 N = totalActiveStakeOf cfg st N :=
    totalActiveStakeOf_congr (active_stable hw N (by omega) hmax hfar) hagree
  have hsync : ∀ sc r, syncOfOpt st.validators sc = .ok r → syncOfOpt st1.validators sc = .ok r := by
    intro sc r h
    rw [hvals]
    apply syncOfOpt_append
    rw [syncOfOpt_congr hpk]; exact h
  rw [hN] at h1 h3 h4 h8 h9
  unfold ctxOf
  rw [hN1, hprevE]
  dsimp only
  rw [hstab N (by omega) (by omega), h1, hstab _ hP1 hP2, h2, hstab (N + 1) (by omega) (by omega), h3]
  simp only [bind, Except.bind, pure, Except.pure]
  rw [hprop, h4, hsc, hsn, hsync _ _ h5, hsync _ _ h6]
  simp only []
  rw [foldl_afterDeposit, htot, hvals]
  congr 1
  cases c
  simp_all

/-! ### where the indices held by a context come from -/

theorem candidate_mem {vs : List Committees.Val} {indices : List Nat} {seed : Bytes} {i c : Nat} {b : Bool}
    (h : Committees.Spec.candidate Spec.hash (cfgC cfg) vs indices seed i = .ok (c, b)) : c ∈ indices := by
  unfold Committees.Spec.candidate at h
  simp only at h
  split at h
  · cases h
  · split at h
    · cases h
    · rename_i s hs
      split at h
      · cases h
      · rename_i ci hci
        split at h
        · cases h
        · cases h; exact List.mem_of_getElem? hci

theorem proposer_loop_mem {vs : List Committees.Val} {indices : List Nat} {seed : Bytes} :
    ∀ fuel i r, Committees.Spec.compute_proposer_index Spec.hash (cfgC cfg) vs indices seed fuel i = .ok r → r ∈ indices := by
  intro fuel
  induction fuel with
  | zero => intro i r h; cases h
  | succ fuel ih =>
    intro i r h
    simp only [Committees.Spec.compute_proposer_index] at h
    split at h
    · cases h
    · split at h
      · rename_i c hc; cases h; exact candidate_mem hc
      · exact ih _ _ h
      · cases h
      · cases h
      · cases h

theorem liftRes_ok {α : Type} {r : Res α} {a : α} (h : liftRes r = .ok a) : r = .ok a := by
  cases r <;> simp [liftRes, pure, Except.pure, invalid, throw, throwThe, MonadExceptOf.throw] at h
  rw [h]

theorem compute_proposer_index_mem {vs : List Validator} {indices : List Nat} {seed : Bytes} {r : Nat}
    (h : compute_proposer_index cfg vs indices seed = .ok r) : r ∈ indices :=
  proposer_loop_mem _ _ _ (liftRes_ok h)

theorem mapM_ok_forall {α β : Type} {f : α → SM β} {P : β → Prop} : ∀ (l : List α) (out : List β),
    (∀ x ∈ l, ∀ y, f x = .ok y → P y) → l.mapM f = .ok out → ∀ y ∈ out, P y := by
  intro l
  induction l with
  | nil => intro out _ h; simp [pure, Except.pure] at h; subst h; simp
  | cons x rest ih =>
    intro out hf h
    simp only [List.mapM_cons, bind, Except.bind, pure, Except.pure] at h
    cases hx : f x with
    | error e => simp [hx] at h
    | ok y =>
      simp only [hx] at h
      cases hr : rest.mapM f with
      | error e => simp [hr] at h
      | ok out' =>
        rw [hr] at h
        cases h
        intro z hz
        rcases List.mem_cons.mp hz with rfl | hz
        · exact hf x List.mem_cons_self _ hx
        · exact ih out' (fun w hw => hf w (List.mem_cons_of_mem _ hw)) hr z hz

theorem proposersOf_mem {st : State} {e : Nat} {active : List Nat} {p : Proposers}
    (h : proposersOf cfg st e active = .ok p) : ∀ r ∈ p.proposers, r ∈ active := by
  unfold proposersOf at h
  simp only [bind, Except.bind, pure, Except.pure] at h
  split at h
  · cases h
  · split at h
    · cases h
    · rename_i ps hps
      cases h
      exact mapM_ok_forall _ _ (fun x _ y hy => compute_proposer_index_mem hy) hps

theorem resMapM_ok_forall {α β : Type} {f : α → Res β} {P : β → Prop} (l : List α) (out : List β)
    (hf : ∀ x ∈ l, ∀ y, f x = .ok y → P y) (h : l.mapM f = .ok out) : ∀ y ∈ out, P y := by
  obtain ⟨hlen, hget⟩ := Zrnt.Proofs.Committees.mapM_ok_getElem f l out h
  intro y hy
  obtain ⟨i, hi, rfl⟩ := List.mem_iff_getElem.mp hy
  exact hf l[i] (List.getElem_mem (by omega)) _ (hget i (by omega) hi)

/-- every member of a committee computed by the specification is a member of the index list it was cut from -/
theorem compute_committee_mem {indices : List Nat} {seed : Bytes} {index count : Nat} {out : List Nat}
    (h : Committees.Spec.compute_committee Spec.hash (cfgC cfg) indices seed index count = .ok out) :
    ∀ v ∈ out, v ∈ indices := by
  unfold Committees.Spec.compute_committee at h
  split at h
  · cases h
  · refine resMapM_ok_forall _ _ ?_ h
    intro i _ y hy
    split at hy
    · split at hy
      · rename_i s hs v hv
        cases hy
        exact List.mem_of_getElem? hv
      · cases hy
    · cases hy

theorem shuffledAt_mem {active : List Nat} {seed : Bytes} {j v : Nat}
    (h : shuffledAt cfg active seed j = .ok v) : v ∈ active := by
  unfold shuffledAt at h
  split at h
  · rename_i k hk
    unfold idx at h
    split at h
    · rename_i a ha; cases h; exact List.mem_of_getElem? ha
    · cases h
  · cases h

/-- all entries of a shuffling — the shuffled list and every committee — are members of its active list -/
theorem shufflingOfParts_mem {e : Nat} {active : List Nat} {seed : Bytes} {s : ShufflingEpoch}
    (h : shufflingOfParts cfg e active seed = .ok s) :
    (∀ v ∈ s.shuffling, v ∈ active) ∧ (∀ slot ∈ s.committees, ∀ committee ∈ slot, ∀ v ∈ committee, v ∈ active) := by
  unfold shufflingOfParts at h
  simp only [bind, Except.bind, pure, Except.pure] at h
  split at h
  · cases h
  · rename_i sh hsh
    split at h
    · cases h
    · rename_i cs hcs
      cases h
      refine ⟨mapM_ok_forall _ _ (fun x _ y hy => shuffledAt_mem hy) hsh, ?_⟩
      refine mapM_ok_forall (P := fun slot => ∀ committee ∈ slot, ∀ v ∈ committee, v ∈ active) _ _ ?_ hcs
      intro slot _ comms hcomms
      refine mapM_ok_forall (P := fun committee => ∀ v ∈ committee, v ∈ active) _ _ ?_ hcomms
      intro index _ c hc
      exact compute_committee_mem (liftRes_ok hc)

theorem shufflingOf_mem {st : State} {e : Nat} {s : ShufflingEpoch} (h : shufflingOf cfg st e = .ok s) :
    (∀ v ∈ s.shuffling, v ∈ get_active_validator_indices st e) ∧
    (∀ slot ∈ s.committees, ∀ committee ∈ slot, ∀ v ∈ committee, v ∈ get_active_validator_indices st e) := by
  unfold shufflingOf at h
  simp only [bind, Except.bind] at h
  split at h
  · cases h
  · exact shufflingOfParts_mem h

/-! ### the context's answers are the answers of C07's specification functions -/

/-- the registry as `Committees.Spec` sees it -/
def valsC (st : State) : List Committees.Val := st.validators.map valC
/-- the randao mixes as `Committees.Spec` sees them -/
def mixesC (st : State) : Nat → ByteArray := fun i => st.randao_mixes.getD i ByteArray.empty

theorem active_eq_C07 (st : State) (e : Nat) :
    get_active_validator_indices st e = Committees.Spec.get_active_validator_indices (valsC st) e := by
  unfold Committees.Spec.get_active_validator_indices
  have := Zrnt.Proofs.Committees.zipIdx_filterMap (fun v => Committees.Spec.is_active_validator v e) (valsC st) 0
  simp only [Nat.sub_zero] at this
  rw [show (fun (x : Committees.Val × Nat) => match x with
        | (v, i) => if Committees.Spec.is_active_validator v e = true then some i else none) =
      (fun (x : Committees.Val × Nat) => if Committees.Spec.is_active_validator x.1 e = true then some x.2 else none) from by
    funext x; cases x; rfl]
  rw [this, get_active_eq, ← List.range_eq_range']
  have hl : (valsC st).length = st.validators.length := by simp [valsC]
  rw [hl]
  apply List.filter_congr
  intro i hi
  rw [List.mem_range] at hi
  unfold actPred
  rw [List.getElem?_eq_getElem hi]
  have : (valsC st)[i]! = valC st.validators[i] := by
    simp [valsC, hi]
  rw [this]
  simp only [is_active_validator, Committees.Spec.is_active_validator, valC]
  by_cases ha : st.validators[i].activation_epoch ≤ e <;> by_cases hb : e < st.validators[i].exit_epoch <;> simp [ha, hb]

theorem uintToBytes_eq (n v : Nat) : Spec.uintToBytes n v = Zrnt.Shuffle.Spec.uintToBytes n v := by
  unfold Spec.uintToBytes Zrnt.Shuffle.Spec.uintToBytes
  congr 1
  simp [Array.range]

theorem seed_eq_C07 {st : State} {e : Nat} {d x : Bytes} (h : get_seed cfg st e d = .ok x) :
    x = Committees.Spec.get_seed Spec.hash (cfgC cfg) (mixesC st) e d := by
  unfold get_seed get_randao_mix idx at h
  simp only [bind, Except.bind, u64, pure, Except.pure] at h
  by_cases h1 : e + cfg.EPOCHS_PER_HISTORICAL_VECTOR < 2 ^ 64
  · simp only [h1, if_true] at h
    by_cases h2 : e + cfg.EPOCHS_PER_HISTORICAL_VECTOR < cfg.MIN_SEED_LOOKAHEAD + 1
    · simp only [h2, if_true] at h
      cases h
    · simp only [h2, if_false] at h
      by_cases h3 : cfg.EPOCHS_PER_HISTORICAL_VECTOR = 0
      · simp only [h3, if_true] at h
        cases h
      · simp only [h3, if_false] at h
        cases hm : st.randao_mixes[(e + cfg.EPOCHS_PER_HISTORICAL_VECTOR - cfg.MIN_SEED_LOOKAHEAD - 1) % cfg.EPOCHS_PER_HISTORICAL_VECTOR]? with
        | none => rw [hm] at h; cases h
        | some mix =>
          rw [hm] at h
          cases h
          unfold Committees.Spec.get_seed Committees.Spec.get_randao_mix mixesC
          simp [cfgC, uintToBytes_eq, List.getD, hm]
  · simp only [h1, if_false] at h
    cases h

theorem smMapM_ok_getElem {α β : Type} (f : α → SM β) :
    ∀ (l : List α) (r : List β), l.mapM f = .ok r →
      r.length = l.length ∧ ∀ i (hi : i < l.length) (hr : i < r.length), f l[i] = .ok r[i] := by
  intro l
  induction l with
  | nil =>
    intro r h
    simp [pure, Except.pure] at h
    subst h
    exact ⟨rfl, fun i hi => absurd hi (by simp)⟩
  | cons a l ih =>
    intro r h
    simp only [List.mapM_cons, bind, Except.bind, pure, Except.pure] at h
    cases hfa : f a with
    | error e => simp [hfa] at h
    | ok b =>
      simp only [hfa] at h
      cases hl : l.mapM f with
      | error e => simp [hl] at h
      | ok r' =>
        rw [hl] at h
        cases h
        obtain ⟨hlen, hget⟩ := ih r' hl
        refine ⟨by simp [hlen], fun i hi hr => ?_⟩
        cases i with
        | zero => simpa using hfa
        | succ i => simpa using hget i (by simpa using hi) (by simpa using hr)

/-- **The committees a context holds are the specification's `get_beacon_committee`** (the literal function of
`Committees.Spec`, C07's oracle) of the state's registry and randao mixes. -/
theorem shufflingOf_committee_eq_spec {st : State} {e : Nat} {sh : ShufflingEpoch} (hspe : 0 < cfg.SLOTS_PER_EPOCH)
    (h : shufflingOf cfg st e = .ok sh) (s index : Nat) (hs : s < cfg.SLOTS_PER_EPOCH)
    (hi : index < Committees.Spec.get_committee_count_per_slot (cfgC cfg) (valsC st) e) :
    ∃ committee, sh.committees[s]?.bind (·[index]?) = some committee ∧
      Committees.Spec.get_beacon_committee Spec.hash (cfgC cfg) (valsC st) (mixesC st) (e * cfg.SLOTS_PER_EPOCH + s) index =
        .ok committee := by
  unfold shufflingOf at h
  simp only [bind, Except.bind] at h
  split at h
  · cases h
  · rename_i seed hseed
    have hseedC := seed_eq_C07 hseed
    unfold shufflingOfParts at h
    simp only [bind, Except.bind, pure, Except.pure] at h
    split at h
    · cases h
    · split at h
      · cases h
      · rename_i cs hcs
        cases h
        simp only
        have hcps : committeesPerSlot cfg (get_active_validator_indices st e).length =
            Committees.Spec.get_committee_count_per_slot (cfgC cfg) (valsC st) e := by
          unfold committeesPerSlot Committees.Spec.get_committee_count_per_slot
          rw [active_eq_C07]; rfl
        rw [hcps] at hcs
        obtain ⟨hlen, hget⟩ := smMapM_ok_getElem _ _ _ hcs
        simp only [List.length_range] at hlen hget
        have hs' : s < cs.length := by omega
        have hrow := hget s hs hs'
        simp only [List.getElem_range] at hrow
        obtain ⟨hlen2, hget2⟩ := smMapM_ok_getElem _ _ _ hrow
        simp only [List.length_range] at hlen2 hget2
        have hi' : index < cs[s].length := by omega
        have hcell := hget2 index hi hi'
        simp only [List.getElem_range] at hcell
        refine ⟨cs[s][index], by simp [List.getElem?_eq_getElem hs', List.getElem?_eq_getElem hi'], ?_⟩
        have hcell' := liftRes_ok hcell
        unfold Committees.Spec.get_beacon_committee
        have e1 : (e * cfg.SLOTS_PER_EPOCH + s) / (cfgC cfg).SLOTS_PER_EPOCH = e := by
          show (e * cfg.SLOTS_PER_EPOCH + s) / cfg.SLOTS_PER_EPOCH = e
          rw [Nat.mul_comm, Nat.mul_add_div hspe, Nat.div_eq_of_lt hs, Nat.add_zero]
        have e2 : (e * cfg.SLOTS_PER_EPOCH + s) % (cfgC cfg).SLOTS_PER_EPOCH = s := by
          show (e * cfg.SLOTS_PER_EPOCH + s) % cfg.SLOTS_PER_EPOCH = s
          rw [Nat.mul_comm, Nat.mul_add_mod, Nat.mod_eq_of_lt hs]
        simp only [e1, e2]
        rw [← active_eq_C07, show Committees.DOMAIN_BEACON_ATTESTER = DOMAIN_BEACON_ATTESTER from rfl, ← hseedC]
        exact hcell'

/-- **The proposers a context holds are the specification's `get_beacon_proposer_index`** of each slot of the epoch
(the literal function of `Committees.Spec`, its `while True` allowed the 32 000 iterations zrnt tries). -/
theorem proposersOf_eq_spec {st : State} {e : Nat} {p : Proposers} (hspe : 0 < cfg.SLOTS_PER_EPOCH)
    (h : proposersOf cfg st e (get_active_validator_indices st e) = .ok p) (s : Nat) (hs : s < cfg.SLOTS_PER_EPOCH) :
    ∃ r, p.proposers[s]? = some r ∧
      Committees.Spec.get_beacon_proposer_index Spec.hash (cfgC cfg) (valsC st) (mixesC st) (e * cfg.SLOTS_PER_EPOCH + s) 32000 =
        .ok r := by
  unfold proposersOf at h
  simp only [bind, Except.bind, pure, Except.pure] at h
  split at h
  · cases h
  · rename_i seed hseed
    have hseedC := seed_eq_C07 hseed
    split at h
    · cases h
    · rename_i ps hps
      cases h
      simp only
      obtain ⟨hlen, hget⟩ := smMapM_ok_getElem _ _ _ hps
      simp only [List.length_range] at hlen hget
      have hs' : s < ps.length := by omega
      have hcell := hget s hs hs'
      simp only [List.getElem_range] at hcell
      refine ⟨ps[s], List.getElem?_eq_getElem hs', ?_⟩
      have hcell' := liftRes_ok hcell
      unfold Committees.Spec.get_beacon_proposer_index
      have e1 : (e * cfg.SLOTS_PER_EPOCH + s) / (cfgC cfg).SLOTS_PER_EPOCH = e := by
        show (e * cfg.SLOTS_PER_EPOCH + s) / cfg.SLOTS_PER_EPOCH = e
        rw [Nat.mul_comm, Nat.mul_add_div hspe, Nat.div_eq_of_lt hs, Nat.add_zero]
      simp only [e1]
      rw [← active_eq_C07, show Committees.DOMAIN_BEACON_PROPOSER = DOMAIN_BEACON_PROPOSER from rfl, ← hseedC,
        ← uintToBytes_eq]
      unfold compute_start_slot_at_epoch at hcell'
      exact hcell'

/-! ### hydrating the state's sync committees -/

/-- in a registry without repeated pubkeys, looking up the pubkey of validator `i` gives `i` -/
theorem indexOfPubkey_getElem {vs : List Validator} (hnd : (vs.map (·.pubkey)).Nodup) {i : Nat} (hi : i < vs.length) :
    indexOfPubkey vs (vs[i].pubkey) = some i := by
  unfold indexOfPubkey
  rw [List.findIdx?_eq_some_iff_getElem]
  refine ⟨hi, by simp, ?_⟩
  intro j hj
  simp only [decide_eq_true_eq]
  intro heq
  have hj' : j < vs.length := by omega
  have := (List.Nodup.getElem_inj_iff hnd (i := j) (j := i) (hi := by simpa using hj') (hj := by simpa using hi)).mp
    (by simpa using heq)
  omega

theorem memberIndex_getElem {vs : List Validator} (hnd : (vs.map (·.pubkey)).Nodup) {i : Nat} (hi : i < vs.length) :
    memberIndex vs ((vs.getD i default).pubkey) = .ok i := by
  unfold memberIndex
  have : vs.getD i default = vs[i] := by simp [List.getD, hi]
  rw [this, indexOfPubkey_getElem hnd hi]
  rfl

theorem mapM_memberIndex {vs : List Validator} (hnd : (vs.map (·.pubkey)).Nodup) : ∀ (l : List Nat),
    (∀ i ∈ l, i < vs.length) →
    (l.map (fun i => (vs.getD i default).pubkey)).mapM (memberIndex vs) = .ok l := by
  intro l
  induction l with
  | nil => intro _; rfl
  | cons a t ih =>
    intro h
    simp only [List.map_cons, List.mapM_cons, bind, Except.bind, pure, Except.pure]
    rw [memberIndex_getElem hnd (h a List.mem_cons_self), ih (fun i hi => h i (List.mem_cons_of_mem _ hi))]

/-- **Hydrating a stored sync committee recovers the indices it was built from**: if the committee's pubkeys are those of
the validators `l` (all in the registry, which holds no pubkey twice), the indexed committee is `l` itself. -/
theorem syncOfOpt_of_indices {vs : List Validator} (hnd : (vs.map (·.pubkey)).Nodup) (l : List Nat)
    (hl : ∀ i ∈ l, i < vs.length) (sc : SyncCommittee)
    (hpk : sc.pubkeys = l.map (fun i => (vs.getD i default).pubkey)) :
    syncOfOpt vs (some sc) = .ok (some ⟨l, sc.pubkeys⟩) := by
  simp only [syncOfOpt, syncOf, Functor.map, Except.map, bind, Except.bind, pure, Except.pure]
  rw [hpk, mapM_memberIndex hnd l hl]

/-! ### soundness of the executable step checks -/

theorem fieldWriteB_sound {cfg : Config} {N old new : Nat} (h : fieldWriteB cfg N old new = true) :
    FieldWrite cfg N old new := by
  unfold fieldWriteB at h
  simp only [Bool.or_eq_true, Bool.and_eq_true, decide_eq_true_eq] at h
  exact h

/-- the executable check decides (soundly) the write relation the theorems assume -/
theorem mixesOkFrom_sound (a b : Nat) : ∀ (xs ys : List Bytes) (j : Nat), mixesOkFrom a b j xs ys = true →
    ys.length = xs.length ∧ ∀ k, j + k ≠ a → j + k ≠ b → ys[k]? = xs[k]? := by
  intro xs
  induction xs with
  | nil =>
    intro ys j h
    cases ys with
    | nil => exact ⟨rfl, fun _ _ _ => rfl⟩
    | cons y ys => simp [mixesOkFrom] at h
  | cons x xs ih =>
    intro ys j h
    cases ys with
    | nil => simp [mixesOkFrom] at h
    | cons y ys =>
      simp only [mixesOkFrom, Bool.and_eq_true, Bool.or_eq_true, decide_eq_true_eq] at h
      obtain ⟨h0, hrest⟩ := h
      obtain ⟨hl, hk⟩ := ih ys (j + 1) hrest
      refine ⟨by simp [hl], ?_⟩
      intro k h1 h2
      cases k with
      | zero =>
        rcases h0 with (h | h) | h
        · exact absurd h (by simpa using h1)
        · exact absurd h (by simpa using h2)
        · simp [h]
      | succ k =>
        simp only [List.getElem?_cons_succ]
        exact hk k (by omega) (by omega)

/-- the executable check decides (soundly) the write relation the theorems assume -/
theorem epochWritesB_sound' {cfg : Config} {N : Nat} {st st' : State} (h : epochWritesB cfg N st st' = true) :
    EpochWrites cfg N st st' := by
  unfold epochWritesB at h
  simp only [Bool.and_eq_true, decide_eq_true_eq, List.all_eq_true] at h
  obtain ⟨⟨⟨hlen, hold⟩, hnew⟩, hmix⟩ := h
  obtain ⟨hml, hmk⟩ := mixesOkFrom_sound _ _ _ _ 0 hmix
  refine ⟨hlen, ?_, ?_, ?_, hml, ?_⟩
  · intro i v v' hv hv'
    have hi : i < st.validators.length := (List.getElem?_eq_some_iff.mp hv).1
    have := hold i (List.mem_range.mpr hi)
    rw [hv, hv'] at this
    simp only [Bool.and_eq_true] at this
    exact fieldWriteB_sound this.1
  · intro i v v' hv hv'
    have hi : i < st.validators.length := (List.getElem?_eq_some_iff.mp hv).1
    have := hold i (List.mem_range.mpr hi)
    rw [hv, hv'] at this
    simp only [Bool.and_eq_true] at this
    exact fieldWriteB_sound this.2
  · intro i v' hi hv'
    have hi' : i < st'.validators.length := (List.getElem?_eq_some_iff.mp hv').1
    have := hnew i (List.mem_range'_1.mpr ⟨hi, by omega⟩)
    rw [hv'] at this
    simpa using this
  · intro j h1 h2
    exact hmk j (by simpa using h1) (by simpa using h2)

theorem inEpochHypsB_sound {st st' : State} (h : inEpochHypsB st st' = true) :
    st'.validators = st'.validators.take st.validators.length ++ st'.validators.drop st.validators.length ∧
    (st'.validators.take st.validators.length).map (·.pubkey) = st.validators.map (·.pubkey) ∧
    (st'.validators.take st.validators.length).map (·.effective_balance) = st.validators.map (·.effective_balance) ∧
    st'.current_sync_committee = st.current_sync_committee ∧ st'.next_sync_committee = st.next_sync_committee := by
  unfold inEpochHypsB at h
  simp only [Bool.and_eq_true, decide_eq_true_eq] at h
  obtain ⟨⟨⟨h1, h2⟩, h3⟩, h4⟩ := h
  exact ⟨(List.take_append_drop _ _).symm, h1, h2, h3, h4⟩

theorem boundaryHypsB_sound {cfg : Config} {N : Nat} {st st' : State} (h : boundaryHypsB cfg N st st' = true) :
    st'.validators.map (·.pubkey) = st.validators.map (·.pubkey) ∧ SyncStep cfg N st st' := by
  unfold boundaryHypsB at h
  simp only [Bool.and_eq_true, decide_eq_true_eq] at h
  obtain ⟨h1, h2⟩ := h
  refine ⟨h1, ?_, ?_⟩
  · intro hf hp
    rw [if_pos ⟨hf, hp⟩] at h2
    simpa using h2
  · intro hn
    rw [if_neg hn] at h2
    simpa using h2

end Zrnt.Proofs.Ctx
