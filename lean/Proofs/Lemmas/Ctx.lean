import Zrnt.Beacon.Ctx
/-! Lemmas for C08: what an epoch may write to the inputs of shufflings and seeds (`EpochWrites`), and the
stability of active sets and seeds under such writes. -/
namespace Zrnt.Proofs.Ctx
open Zrnt.Beacon Zrnt.Beacon.Spec Zrnt.Beacon.Ctx

/-- One registry field (activation or exit epoch) may only be written, during epoch `N`, from "never" to an
epoch at or after `compute_activation_exit_epoch(N) = N + 1 + MAX_SEED_LOOKAHEAD`. -/
def FieldWrite (cfg : Config) (N old new : Nat) : Prop :=
  new = old ∨ (old = FAR_FUTURE_EPOCH ∧ compute_activation_exit_epoch cfg N ≤ new)

/-- **What blocks and the epoch transition of epoch `N` may write** to the inputs of shufflings and seeds:
the registry only grows; activation and exit epochs move only from `FAR_FUTURE_EPOCH` to
`≥ compute_activation_exit_epoch(N)`; validators added by deposits are not activated; of the randao mixes
only entry `N` (every block's reveal) and entry `N + 1` (the reset at the epoch transition) are written. -/
structure EpochWrites (cfg : Config) (N : Nat) (st st' : State) : Prop where
  len : st.validators.length ≤ st'.validators.length
  act : ∀ (i : Nat) (v v' : Validator), st.validators[i]? = some v → st'.validators[i]? = some v' →
    FieldWrite cfg N v.activation_epoch v'.activation_epoch
  exit : ∀ (i : Nat) (v v' : Validator), st.validators[i]? = some v → st'.validators[i]? = some v' →
    FieldWrite cfg N v.exit_epoch v'.exit_epoch
  fresh : ∀ (i : Nat) (v' : Validator), st.validators.length ≤ i → st'.validators[i]? = some v' → v'.activation_epoch = FAR_FUTURE_EPOCH
  mixesLen : st'.randao_mixes.length = st.randao_mixes.length
  mixes : ∀ j : Nat, j ≠ N % cfg.EPOCHS_PER_HISTORICAL_VECTOR → j ≠ (N + 1) % cfg.EPOCHS_PER_HISTORICAL_VECTOR →
    st'.randao_mixes[j]? = st.randao_mixes[j]?

variable {cfg : Config} {N : Nat} {st st' : State}

theorem fieldWrite_le_iff {old new e : Nat} (h : FieldWrite cfg N old new) (he : e ≤ N + 1)
    (hla : 1 ≤ cfg.MAX_SEED_LOOKAHEAD) (hfar : N + 1 < FAR_FUTURE_EPOCH) : (new ≤ e ↔ old ≤ e) := by
  rcases h with h | ⟨h1, h2⟩
  · rw [h]
  · subst h1
    unfold compute_activation_exit_epoch at h2
    constructor <;> intro h <;> omega

def actPred (s : State) (e : Nat) (i : Nat) : Bool :=
  match s.validators[i]? with
  | some v => is_active_validator v e
  | none => false

theorem get_active_eq (s : State) (e : Nat) :
    get_active_validator_indices s e = (List.range s.validators.length).filter (actPred s e) := rfl

/-- the active set of every epoch up to `N + 1` is untouched by what epoch `N` writes -/
theorem active_stable (hw : EpochWrites cfg N st st') (e : Nat) (he : e ≤ N + 1)
    (hla : 1 ≤ cfg.MAX_SEED_LOOKAHEAD) (hfar : N + 1 < FAR_FUTURE_EPOCH) :
    get_active_validator_indices st' e = get_active_validator_indices st e := by
  rw [get_active_eq, get_active_eq]
  have hsplit : List.range st'.validators.length =
      List.range st.validators.length ++ (List.range' st.validators.length (st'.validators.length - st.validators.length)) := by
    have := hw.len
    rw [List.range_eq_range', List.range_eq_range']
    have h := List.range'_append_1 (s := 0) (m := st.validators.length) (n := st'.validators.length - st.validators.length)
    simp only [Nat.zero_add] at h
    rw [h]; congr 1; omega
  rw [hsplit, List.filter_append]
  have h2 : (List.range' st.validators.length (st'.validators.length - st.validators.length)).filter (actPred st' e) = [] := by
    rw [List.filter_eq_nil_iff]
    intro i hi
    rw [List.mem_range'_1] at hi
    unfold actPred
    cases hv : st'.validators[i]? with
    | none => simp
    | some v' =>
      have := hw.fresh i v' hi.1 hv
      simp only [is_active_validator, this]
      simp; intro h; omega
  rw [h2, List.append_nil]
  apply List.filter_congr
  intro i hi
  rw [List.mem_range] at hi
  have hv : st.validators[i]? = some st.validators[i] := List.getElem?_eq_getElem hi
  have hi' : i < st'.validators.length := Nat.lt_of_lt_of_le hi hw.len
  have hv' : st'.validators[i]? = some st'.validators[i] := List.getElem?_eq_getElem hi'
  unfold actPred
  rw [hv, hv']
  simp only [is_active_validator]
  have ha := fieldWrite_le_iff (hw.act i _ _ hv hv') he hla hfar
  have hx := fieldWrite_le_iff (e := e) (hw.exit i _ _ hv hv') he hla hfar
  have h1 : (decide (st'.validators[i].activation_epoch ≤ e)) = decide (st.validators[i].activation_epoch ≤ e) := by
    simp [ha]
  have hx2 : (decide (e < st'.validators[i].exit_epoch)) = decide (e < st.validators[i].exit_epoch) := by
    have : (e < st'.validators[i].exit_epoch) ↔ (e < st.validators[i].exit_epoch) := by
      constructor <;> intro h <;> omega
    simp [this]
  rw [h1, hx2]

theorem mod_ne_of_lt_diff {a b V : Nat} (h1 : a < b) (h2 : b - a < V) : a % V ≠ b % V := by
  intro h
  have := Nat.sub_mod_eq_zero_of_mod_eq h.symm
  rw [Nat.mod_eq_of_lt h2] at this
  omega

/-- a seed only reads one randao mix; it is unchanged if that entry is neither `N` nor `N + 1` (mod the vector length) -/
theorem seed_stable_of_index (hw : EpochWrites cfg N st st') (e : Nat) (d : Bytes)
    (h1 : (e + cfg.EPOCHS_PER_HISTORICAL_VECTOR - cfg.MIN_SEED_LOOKAHEAD - 1) % cfg.EPOCHS_PER_HISTORICAL_VECTOR ≠ N % cfg.EPOCHS_PER_HISTORICAL_VECTOR)
    (h2 : (e + cfg.EPOCHS_PER_HISTORICAL_VECTOR - cfg.MIN_SEED_LOOKAHEAD - 1) % cfg.EPOCHS_PER_HISTORICAL_VECTOR ≠ (N + 1) % cfg.EPOCHS_PER_HISTORICAL_VECTOR) :
    get_seed cfg st' e d = get_seed cfg st e d := by
  unfold get_seed get_randao_mix idx
  simp only [bind, Except.bind, u64]
  by_cases hlt : e + cfg.EPOCHS_PER_HISTORICAL_VECTOR < 2 ^ 64
  · simp only [hlt, ite_true, pure, Except.pure]
    rw [hw.mixes _ h1 h2]
  · simp only [hlt, ite_false]
    rfl

/-- the seeds of the epochs `N - 1`, `N`, `N + 1` read mixes that epoch `N` does not write -/
theorem seed_stable (hw : EpochWrites cfg N st st') (e : Nat) (d : Bytes) (he : e ≤ N + 1) (he' : N ≤ e + 1)
    (hmin : 1 ≤ cfg.MIN_SEED_LOOKAHEAD) (hvec : cfg.MIN_SEED_LOOKAHEAD + 3 < cfg.EPOCHS_PER_HISTORICAL_VECTOR) :
    get_seed cfg st' e d = get_seed cfg st e d := by
  apply seed_stable_of_index hw
  · have h := mod_ne_of_lt_diff (a := e + cfg.EPOCHS_PER_HISTORICAL_VECTOR - cfg.MIN_SEED_LOOKAHEAD - 1)
      (b := N + cfg.EPOCHS_PER_HISTORICAL_VECTOR) (V := cfg.EPOCHS_PER_HISTORICAL_VECTOR) (by omega) (by omega)
    rwa [Nat.add_mod_right] at h
  · have h := mod_ne_of_lt_diff (a := e + cfg.EPOCHS_PER_HISTORICAL_VECTOR - cfg.MIN_SEED_LOOKAHEAD - 1)
      (b := N + 1 + cfg.EPOCHS_PER_HISTORICAL_VECTOR) (V := cfg.EPOCHS_PER_HISTORICAL_VECTOR) (by omega) (by omega)
    rwa [Nat.add_mod_right] at h

end Zrnt.Proofs.Ctx
