import Proofs.Lemmas.BeaconBlockCompose
/-!
# C01/C03 — every operation theorem as a simulation `Sim (S op) (M op)`

The `Sim` halves of the fields of `OpSteps` (`BeaconBlockCompose.lean`), each from the operation's `M = S` theorem under
that theorem's hypotheses at the CURRENT state; for the operations whose specification is compared with a pure core
(`crossCheck`) the simulation holds whatever the monadic version does (`Sim.cross`).
-/
set_option linter.unusedSimpArgs false
set_option linter.unusedVariables false
namespace Zrnt.Proofs.BlockM
open Zrnt Zrnt.Beacon Zrnt.Beacon.Spec Zrnt.Beacon.BlockImpl Zrnt.Beacon.BlockM Zrnt.Proofs.BeaconBlock Zrnt.Proofs.Lemmas

theorem sim_header (cfg : Config) (ctx : Ctx) (s : State) (block : SignedBlock) (p : Nat)
    (hp : Block.get_beacon_proposer_index cfg s = .ok p) (hctx : ctx.proposer = some p) :
    Sim (Block.process_block_header cfg s block) (ofOpt ctx.proposer >>= fun p => processHeader s block p) := by
  rw [hctx]
  exact Sim.of_eq (header_eq cfg s block p hp)

theorem sim_withdrawals (cfg : Config) (s : State) (payload : ExecutionPayload)
    (hbal : s.balances.length = s.validators.length) (hlen : s.validators.length < 2 ^ 64)
    (hcurv : s.next_withdrawal_validator_index < s.validators.length)
    (hwi : s.next_withdrawal_index + s.validators.length < 2 ^ 64)
    (hidx : ∀ expected, expectedWithdrawals cfg s = .ok expected → ∀ w ∈ expected, w.index + 1 < 2 ^ 64 ∧ w.validator_index + 1 < 2 ^ 64)
    (hcur : s.next_withdrawal_validator_index + cfg.MAX_VALIDATORS_PER_WITHDRAWALS_SWEEP < 2 ^ 64)
    (hmax : cfg.MAX_WITHDRAWALS_PER_PAYLOAD ≠ 0) :
    Sim (Block.process_withdrawals cfg s payload) (processWithdrawals cfg s payload) := by
  have he := withdrawals_eq cfg s hbal hlen hcurv hwi
  unfold Block.process_withdrawals
  cases hx : Block.get_expected_withdrawals cfg s with
  | ok expected =>
    rw [hx] at he
    have hM := withdrawalsApply_eq cfg s payload expected he (hidx expected he) hcur hmax
    rw [hM]
    exact Sim.cross _ _ _
  | error e =>
    rw [hx] at he
    have hM : processWithdrawals cfg s payload = Res.err := by
      unfold processWithdrawals; rw [he]; rfl
    rw [hM]
    exact sim_err e

theorem sim_sync (cfg : Config) (ctx : Ctx) (s : State) (agg : SyncAggregate) (T p B : Nat) (committee : SyncCommittee)
    (hTs : get_total_active_balance cfg s = .ok T) (hps : Block.get_beacon_proposer_index cfg s = .ok p)
    (hsc : s.current_sync_committee = some committee)
    (hp : ctx.proposer = some p) (hidx : ctx.syncIndices = committee.pubkeys.mapM (Block.pubkey_index s))
    (hT : ctx.totalActiveStake = T) (hsq : ctx.totalActiveStakeSqRoot = integer_squareroot T)
    (hclen : committee.pubkeys.length = cfg.SYNC_COMMITTEE_SIZE)
    (hbits : agg.sync_committee_bits.length = 8 * ((cfg.SYNC_COMMITTEE_SIZE + 7) / 8))
    (hpad : (agg.sync_committee_bits.drop cfg.SYNC_COMMITTEE_SIZE).all (· = false) = true)
    (hslot : s.slot + cfg.SLOTS_PER_HISTORICAL_ROOT < 2 ^ 64)
    (h1 : cfg.EFFECTIVE_BALANCE_INCREMENT * cfg.BASE_REWARD_FACTOR < 2 ^ 64)
    (h2 : cfg.EFFECTIVE_BALANCE_INCREMENT * cfg.BASE_REWARD_FACTOR / integer_squareroot T * (T / cfg.EFFECTIVE_BALANCE_INCREMENT) * SYNC_REWARD_WEIGHT < 2 ^ 64)
    (h3 : (Block.sync_rewards cfg T).1 * PROPOSER_WEIGHT < 2 ^ 64)
    (hB : ∀ x ∈ s.balances, x ≤ B)
    (hsum : B + cfg.SYNC_COMMITTEE_SIZE * ((Block.sync_rewards cfg T).1 + (Block.sync_rewards cfg T).2) < 2 ^ 64)
    (hnz : cfg.EFFECTIVE_BALANCE_INCREMENT ≠ 0 ∧ cfg.SLOTS_PER_EPOCH ≠ 0 ∧ cfg.SYNC_COMMITTEE_SIZE ≠ 0 ∧ integer_squareroot T ≠ 0) :
    Sim (Block.process_sync_aggregate cfg s agg) (processSyncAggregate cfg ctx s agg) := by
  unfold Block.process_sync_aggregate
  simp only [hTs, hps]
  rw [syncAggregate_eq cfg ctx s agg T p B committee hsc hp hidx hT hsq hclen hbits hpad hslot h1 h2 h3 hB hsum hnz]
  exact Sim.cross _ _ _

/-- phase0 attestations: the context's committee count, committee and proposer are the specification's -/
theorem sim_attestation_phase0 (cfg : Config) (ctx : Ctx) (s : State) (att : Attestation)
    (hfork : s.fork = .phase0)
    (hcc : ctx.committeeCount att.data.target.epoch = (get_committee_count_per_slot cfg s att.data.target.epoch).toOption)
    (hcom : ctx.committee att.data.slot att.data.index = (get_beacon_committee cfg s att.data.slot att.data.index).toOption)
    (hprop : ctx.proposer = (Block.get_beacon_proposer_index cfg s).toOption)
    (hnd : ∀ c, (get_beacon_committee cfg s att.data.slot att.data.index).toOption = some c → c.Nodup)
    (hwf : att.bits_wellformed = true) (hmaxbits : att.aggregation_bits.length ≤ cfg.MAX_VALIDATORS_PER_COMMITTEE)
    (hspe : 0 < cfg.SLOTS_PER_EPOCH) (hmin : cfg.MIN_ATTESTATION_INCLUSION_DELAY ≤ cfg.SLOTS_PER_EPOCH)
    (hcur : s.slot + 2 * cfg.SLOTS_PER_EPOCH < 2 ^ 64) :
    Sim (Block.process_attestation cfg s att) (processAttestationPhase0 cfg ctx s att) := by
  unfold Block.process_attestation
  simp only [hfork, if_true]
  rw [attestation_phase0_eq cfg ctx s att _ _ _ hfork hcc hcom hprop hnd hwf hmaxbits hspe hmin hcur]
  exact Sim.cross _ _ _

/-- altair … deneb attestations -/
theorem sim_attestation_altair (cfg : Config) (ctx : Ctx) (s : State) (att : Attestation) (T R : Nat)
    (hfork : s.fork ≠ .phase0) (hTs : get_total_active_balance cfg s = .ok T)
    (hcc : ctx.committeeCount att.data.target.epoch = (get_committee_count_per_slot cfg s att.data.target.epoch).toOption)
    (hcom : ctx.committee att.data.slot att.data.index = (get_beacon_committee cfg s att.data.slot att.data.index).toOption)
    (hprop : ctx.proposer = (Block.get_beacon_proposer_index cfg s).toOption)
    (hsq : ctx.totalActiveStakeSqRoot = integer_squareroot T)
    (heb : ctx.effectiveBalances = s.validators.map (·.effective_balance))
    (hnd : ∀ c, (get_beacon_committee cfg s att.data.slot att.data.index).toOption = some c → c.Nodup)
    (hwf : att.bits_wellformed = true) (hmaxbits : att.aggregation_bits.length ≤ cfg.MAX_VALIDATORS_PER_COMMITTEE)
    (hspe : 0 < cfg.SLOTS_PER_EPOCH) (hmin : cfg.MIN_ATTESTATION_INCLUSION_DELAY ≤ cfg.SLOTS_PER_EPOCH)
    (hmin1 : 1 ≤ cfg.MIN_ATTESTATION_INCLUSION_DELAY)
    (hcur : s.slot + 2 * cfg.SLOTS_PER_EPOCH < 2 ^ 64)
    (hsphr : 2 * cfg.SLOTS_PER_EPOCH ≤ cfg.SLOTS_PER_HISTORICAL_ROOT)
    (hroots : s.block_roots.length = cfg.SLOTS_PER_HISTORICAL_ROOT)
    (hslot : s.slot + cfg.SLOTS_PER_HISTORICAL_ROOT < 2 ^ 64)
    (hnz : cfg.EFFECTIVE_BALANCE_INCREMENT ≠ 0 ∧ integer_squareroot T ≠ 0)
    (hbrf : cfg.EFFECTIVE_BALANCE_INCREMENT * cfg.BASE_REWARD_FACTOR < 2 ^ 64)
    (hR : ∀ v ∈ s.validators, v.effective_balance / cfg.EFFECTIVE_BALANCE_INCREMENT *
      (cfg.EFFECTIVE_BALANCE_INCREMENT * cfg.BASE_REWARD_FACTOR / integer_squareroot T) ≤ R)
    (hsum : cfg.MAX_VALIDATORS_PER_COMMITTEE * (R * 54) < 2 ^ 64)
    (hbal : ∀ b ∈ s.balances, b + cfg.MAX_VALIDATORS_PER_COMMITTEE * (R * 54) < 2 ^ 64)
    (hpc : s.current_epoch_participation.length = s.validators.length ∧ ∀ e ∈ s.current_epoch_participation, e < 256)
    (hpp : s.previous_epoch_participation.length = s.validators.length ∧ ∀ e ∈ s.previous_epoch_participation, e < 256) :
    Sim (Block.process_attestation cfg s att) (processAttestationAltair cfg ctx s att) := by
  unfold Block.process_attestation
  simp only [hfork, if_false, hTs]
  rw [attestation_altair_eq cfg ctx s att _ _ _ T R hcc hcom hprop hsq heb hnd hwf hmaxbits hspe hmin hmin1 hcur hsphr hroots hslot
    hnz hbrf hR hsum hbal hpc hpp]
  exact Sim.cross _ _ _


theorem sim_randao (cfg : Config) (ctx : Ctx) (s : State) (block : SignedBlock) (p : Nat)
    (hp : Block.get_beacon_proposer_index cfg s = .ok p) (hctx : ctx.proposer = some p) (hpv : p < s.validators.length)
    (hlen : s.randao_mixes.length = cfg.EPOCHS_PER_HISTORICAL_VECTOR) (hpos : 0 < cfg.EPOCHS_PER_HISTORICAL_VECTOR) :
    Sim (Block.process_randao cfg s block) (processRandaoReveal cfg ctx s block) :=
  Sim.of_eq (randao_eq cfg ctx s block p hp hctx hpv hlen hpos)

theorem sim_eth1 (cfg : Config) (s : State) (block : SignedBlock)
    (hsmall : cfg.EPOCHS_PER_ETH1_VOTING_PERIOD * cfg.SLOTS_PER_EPOCH * 2 + 2 < 2 ^ 64) :
    Sim (Block.process_eth1_data cfg s block) (processEth1Vote cfg s block.eth1_data) :=
  Sim.of_eq (eth1vote_eq cfg s block hsmall)

theorem sim_payload (cfg : Config) (s : State) (block : SignedBlock) (payload : ExecutionPayload)
    (hf : s.fork ≥ .bellatrix) (hx : payload.fields.extra_data.size ≤ cfg.MAX_EXTRA_DATA_BYTES)
    (hlen : s.randao_mixes.length = cfg.EPOCHS_PER_HISTORICAL_VECTOR) (hpos : 0 < cfg.EPOCHS_PER_HISTORICAL_VECTOR)
    (hsps : 0 < cfg.SECONDS_PER_SLOT) (hg : s.genesis_time < 2 ^ 64) :
    Sim (Block.process_execution_payload cfg s block payload) (processExecutionPayload cfg s block payload) :=
  Sim.of_eq (payload_eq cfg s block payload hf hx hlen hpos hsps hg)

theorem sim_exit (cfg : Config) (ctx : Ctx) (s : State) (exit : SignedVoluntaryExit)
    (hact : ctx.activeCount = (s.validators.filter (is_active_validator · (s.slot / cfg.SLOTS_PER_EPOCH))).length)
    (hq : cfg.CHURN_LIMIT_QUOTIENT ≠ 0) (hreg : RegU64 s.validators) (hsmall : ExitSmall cfg s)
    (hshard : s.slot / cfg.SLOTS_PER_EPOCH + cfg.SHARD_COMMITTEE_PERIOD < 2 ^ 64) :
    Sim (Block.process_voluntary_exit cfg s exit) (processVoluntaryExit cfg ctx s exit) :=
  Sim.of_eq (exit_eq cfg ctx s exit hact hq hreg hsmall hshard)

theorem sim_blsChange (cfg : Config) (s : State) (op : SignedBLSToExecutionChange) :
    Sim (Block.process_bls_to_execution_change cfg s op) (processBLSToExecutionChange s op) :=
  Sim.of_eq (blsChange_eq cfg s op)

theorem sim_deposit (cfg : Config) (ctx : Ctx) (s : State) (dep : Deposit)
    (hpk : PubkeyOK s ctx) (hproof : dep.proof.length = Block.DEPOSIT_CONTRACT_TREE_DEPTH + 1)
    (hebi : cfg.EFFECTIVE_BALANCE_INCREMENT ≠ 0) (hidx : s.eth1_deposit_index + 1 < 2 ^ 64)
    (hbal : ∀ b ∈ s.balances, b + dep.data.amount < 2 ^ 64) :
    Sim (Block.process_deposit cfg s dep) (processDeposit cfg ctx s dep >>= fun r => Res.ok r.2) :=
  Sim.of_eq (deposit_eq cfg ctx s dep hpk hproof hebi hidx hbal)

theorem sim_proposerSlashing (cfg : Config) (ctx : Ctx) (s : State) (ps : ProposerSlashing) (p : Nat)
    (hp : ctx.proposer = some p) (hps : Block.get_beacon_proposer_index cfg s = .ok p)
    (hact : ctx.activeCount = (s.validators.filter (is_active_validator · (s.slot / cfg.SLOTS_PER_EPOCH))).length)
    (hq : cfg.CHURN_LIMIT_QUOTIENT ≠ 0) (hreg : RegU64 s.validators) (hsmall : ExitSmall cfg s) (hs : SlashSmall cfg s)
    (hz : cfg.EPOCHS_PER_SLASHINGS_VECTOR ≠ 0 ∧ min_slashing_penalty_quotient cfg s.fork ≠ 0 ∧
          cfg.WHISTLEBLOWER_REWARD_QUOTIENT ≠ 0 ∧ cfg.PROPOSER_REWARD_QUOTIENT ≠ 0) :
    Sim (Block.process_proposer_slashing cfg s ps) (processProposerSlashing cfg ctx s ps) :=
  Sim.of_eq (proposerSlashing_eq cfg ctx s ps p hp hps hact hq hreg hsmall hs hz)

theorem sim_attesterSlashing (cfg : Config) (ctx : Ctx) (s : State) (op : AttesterSlashing) (p Bm C : Nat)
    (hp : ctx.proposer = some p)
    (hinv : SlashInv cfg s p ctx.activeCount Bm C cfg.MAX_VALIDATORS_PER_COMMITTEE s)
    (hlen1 : op.attestation_1.attesting_indices.length ≤ cfg.MAX_VALIDATORS_PER_COMMITTEE)
    (hlen2 : op.attestation_2.attesting_indices.length ≤ cfg.MAX_VALIDATORS_PER_COMMITTEE)
    (hvl : s.validators.length ≤ marker)
    (hq : cfg.CHURN_LIMIT_QUOTIENT ≠ 0)
    (hz : cfg.EPOCHS_PER_SLASHINGS_VECTOR ≠ 0 ∧ min_slashing_penalty_quotient cfg s.fork ≠ 0 ∧
          cfg.WHISTLEBLOWER_REWARD_QUOTIENT ≠ 0 ∧ cfg.PROPOSER_REWARD_QUOTIENT ≠ 0)
    (hC : C + 1 + cfg.MIN_VALIDATOR_WITHDRAWABILITY_DELAY < 2 ^ 64)
    (hepoch : s.slot / cfg.SLOTS_PER_EPOCH + cfg.EPOCHS_PER_SLASHINGS_VECTOR < 2 ^ 64)
    (hBm : Bm * PROPOSER_WEIGHT < 2 ^ 64) :
    Sim (Block.process_attester_slashing cfg s op) (processAttesterSlashing cfg ctx s op) :=
  Sim.of_eq (attesterSlashing_eq cfg ctx s op p Bm C hp hinv hlen1 hlen2 hvl hq hz hC hepoch hBm)


/-! ### the head of a block (header, randao, eth1 vote): frames, and the composition without a premise for blocks that carry no operations -/

theorem processHeader_frame (st st' : State) (block : SignedBlock) (p : Nat) (h : processHeader st block p = .ok st') :
    st'.validators = st.validators ∧ st'.slot = st.slot ∧ st'.randao_mixes = st.randao_mixes ∧ st'.fork = st.fork := by
  unfold processHeader at h
  simp only [guard_bind, rget_bind] at h
  repeat' split at h
  all_goals first | (cases h; done) | (cases h; exact ⟨rfl, rfl, rfl, rfl⟩)

theorem processRandao_frame (cfg : Config) (ctx : Ctx) (st st' : State) (block : SignedBlock)
    (h : processRandaoReveal cfg ctx st block = .ok st') :
    st'.validators = st.validators ∧ st'.slot = st.slot ∧ st'.fork = st.fork ∧
    ∃ x, st'.randao_mixes = st.randao_mixes.set (st.slot / cfg.SLOTS_PER_EPOCH % st.randao_mixes.length) x := by
  unfold processRandaoReveal at h
  simp only [guard_bind, rget_bind, ofOpt_bind] at h
  repeat' split at h
  all_goals first | (cases h; done) | (cases h; exact ⟨rfl, rfl, rfl, _, rfl⟩)

theorem processEth1_frame (cfg : Config) (st st' : State) (data : Eth1Data) (h : processEth1Vote cfg st data = .ok st') :
    st'.validators = st.validators ∧ st'.slot = st.slot ∧ st'.randao_mixes = st.randao_mixes ∧ st'.fork = st.fork := by
  unfold processEth1Vote at h
  simp only [guard_bind] at h
  repeat' split at h
  all_goals first | (cases h; done) | (cases h; exact ⟨rfl, rfl, rfl, rfl⟩)

/-- the same registry, slot and proposer seed: the same duties -/
theorem sameDuties_of_frame (cfg : Config) (s s' : State) (hv : s'.validators = s.validators) (hs : s'.slot = s.slot)
    (hseed : get_seed cfg s' (get_current_epoch cfg s) DOMAIN_BEACON_PROPOSER = get_seed cfg s (get_current_epoch cfg s) DOMAIN_BEACON_PROPOSER) :
    SameDuties cfg s s' :=
  ⟨hs, hseed, by rw [hv], fun i v v' h h' => by rw [hv, h] at h'; cases h'; exact ⟨rfl, rfl⟩⟩

/-- what header, randao and eth1 vote need and keep -/
structure HeadInv (cfg : Config) (p : Nat) (ctx : Ctx) (st : State) : Prop where
  fork : st.fork = .phase0
  ctxp : ctx.proposer = some p
  prop : Block.get_beacon_proposer_index cfg st = .ok p
  plt : p < st.validators.length
  mixes : st.randao_mixes.length = cfg.EPOCHS_PER_HISTORICAL_VECTOR


/-- a block that carries no operations (phase0 container) -/
structure NoOps (block : SignedBlock) : Prop where
  ps : block.proposer_slashings = []
  as : block.attester_slashings = []
  att : block.attestations = []
  dep : block.deposits = []
  ex : block.voluntary_exits = []
  bls : block.bls_to_execution_changes = []
  payload : block.execution_payload = none
  sync : block.sync_aggregate = none

/-- `OpSteps` for `HeadInv`, for phase0 blocks without operations: every field is discharged — the head operations by
their `M = S` theorems and the frame lemmas (the proposer survives the header, the RANDAO mix-in and the eth1 vote),
the operation lists are empty -/
theorem opSteps_noOps (cfg : Config) (block : SignedBlock) (p : Nat) (hno : NoOps block)
    (hpos : 0 < cfg.EPOCHS_PER_HISTORICAL_VECTOR)
    (hlook : (cfg.MIN_SEED_LOOKAHEAD + 1) % cfg.EPOCHS_PER_HISTORICAL_VECTOR ≠ 0)
    (hsmall : cfg.EPOCHS_PER_ETH1_VOTING_PERIOD * cfg.SLOTS_PER_EPOCH * 2 + 2 < 2 ^ 64) :
    OpSteps cfg block .phase0 (fun _ => HeadInv cfg p) := by
  have hkeep : ∀ ctx st st', HeadInv cfg p ctx st → st'.validators = st.validators → st'.slot = st.slot → st'.fork = st.fork →
      st'.randao_mixes.length = st.randao_mixes.length →
      get_seed cfg st' (get_current_epoch cfg st) DOMAIN_BEACON_PROPOSER = get_seed cfg st (get_current_epoch cfg st) DOMAIN_BEACON_PROPOSER →
      HeadInv cfg p ctx st' := by
    intro ctx st st' hi hv hs hf hl hseed
    refine ⟨by rw [hf]; exact hi.fork, hi.ctxp, ?_, by rw [hv]; exact hi.plt, by rw [hl]; exact hi.mixes⟩
    rw [proposer_frame cfg st st' (sameDuties_of_frame cfg st st' hv hs hseed)]
    exact hi.prop
  refine
    { mono := fun _ _ _ h => h
      fork := fun _ ctx st hi => hi.fork
      header := ?_, payload := ?_, withdrawals := ?_, randao := ?_, eth1 := ?_, proposerSlashing := ?_, attesterSlashing := ?_,
      attestation := ?_, deposit := ?_, exit := ?_, blsChange := ?_, sync := ?_ }
  · intro _ ctx st hi
    refine ⟨sim_header cfg ctx st block p hi.prop hi.ctxp, fun st' h => ?_⟩
    rw [hi.ctxp] at h
    simp only [ofOpt, res_bind_ok] at h
    obtain ⟨hv, hs, hm, hf⟩ := processHeader_frame st st' block p h
    exact hkeep ctx st st' hi hv hs hf (by rw [hm]) (seed_of_mixes cfg st st' _ _ hm)
  · intro ctx payload hpl; rw [hno.payload] at hpl; cases hpl
  · intro _ ctx payload hpl; rw [hno.payload] at hpl; cases hpl
  · intro ctx _ st _ _ hi
    refine ⟨sim_randao cfg ctx st block p hi.prop hi.ctxp hi.plt hi.mixes hpos, fun st' h => ⟨?_, fun hf => by cases hf⟩⟩
    obtain ⟨hv, hs, hf, x, hm⟩ := processRandao_frame cfg ctx st st' block h
    refine hkeep ctx st st' hi hv hs hf (by rw [hm, List.length_set]) ?_
    apply seed_set_frame cfg st st' x _ hlook
    rw [hm, hi.mixes]; rfl
  · intro ctx _ st _ _ hi
    refine ⟨sim_eth1 cfg st block hsmall, fun st' h => ⟨?_, fun hf => by cases hf⟩⟩
    obtain ⟨hv, hs, hm, hf⟩ := processEth1_frame cfg st st' block.eth1_data h
    exact hkeep ctx st st' hi hv hs hf (by rw [hm]) (seed_of_mixes cfg st st' _ _ hm)
  · intro ctx _ st x hx; rw [hno.ps] at hx; cases hx
  · intro ctx _ st x hx; rw [hno.as] at hx; cases hx
  · intro ctx _ st x hx; rw [hno.att] at hx; cases hx
  · intro _ ctx st d hd; rw [hno.dep] at hd; cases hd
  · intro ctx _ st x hx; rw [hno.ex] at hx; cases hx
  · intro ctx _ st x hx; rw [hno.bls] at hx; cases hx
  · intro ctx agg hsa; rw [hno.sync] at hsa; cases hsa

/-- `M_block_refines_S` and `M_sound` WITHOUT a premise, for phase0 blocks that carry no operations: fork/container
check, type limits, header, RANDAO, eth1 vote, operation-count limits and the deposit-count rule. For every phase0
state whose context has the specification's proposer. -/
theorem processBlock_noOps (cfg : Config) (ctx : Ctx) (st : State) (block : SignedBlock) (p : Nat) (hno : NoOps block)
    (hfork : st.fork = .phase0) (hctx : ctx.proposer = some p) (hp : Block.get_beacon_proposer_index cfg st = .ok p)
    (hplt : p < st.validators.length) (hmix : st.randao_mixes.length = cfg.EPOCHS_PER_HISTORICAL_VECTOR)
    (hpos : 0 < cfg.EPOCHS_PER_HISTORICAL_VECTOR)
    (hlook : (cfg.MIN_SEED_LOOKAHEAD + 1) % cfg.EPOCHS_PER_HISTORICAL_VECTOR ≠ 0)
    (hsmall : cfg.EPOCHS_PER_ETH1_VOTING_PERIOD * cfg.SLOTS_PER_EPOCH * 2 + 2 < 2 ^ 64)
    (htyped : Block.check_types cfg block = .ok ()) :
    Sim (Block.process_block cfg st block) (processBlock cfg ctx st block) :=
  processBlock_sim (opSteps_noOps cfg block p hno hpos hlook hsmall) 0 ctx st ⟨hfork, hctx, hp, hplt, hmix⟩ htyped

end Zrnt.Proofs.BlockM
