import Proofs.Lemmas.BeaconBlockCompose
/-!
# C01/C03 — every operation theorem as a simulation `Sim (S op) (M op)`

The `Sim` halves of the fields of `OpSteps` (`BeaconBlockCompose.lean`), each from the operation's `M = S` theorem under
that theorem's hypotheses at the CURRENT state; for the operations whose specification is compared with a pure core
(`crossCheck`) the simulation holds whatever the monadic version does (`Sim.cross`).
-/
set_option linter.unusedSimpArgs false
set_option linter.unusedVariables false
namespace Zrnt.Proofs.BlockM
open Zrnt Zrnt.Beacon Zrnt.Beacon.Spec Zrnt.Beacon.BlockImpl Zrnt.Beacon.BlockM Zrnt.Proofs.BeaconBlock Zrnt.Proofs.Lemmas

theorem sim_header (cfg : Config) (ctx : Ctx) (s : State) (block : SignedBlock) (p : Nat)
    (hp : Block.get_beacon_proposer_index cfg s = .ok p) (hctx : ctx.proposer = some p) :
    Sim (Block.process_block_header cfg s block) (ofOpt ctx.proposer >>= fun p => processHeader s block p) := by
  rw [hctx]
  exact Sim.of_eq (header_eq cfg s block p hp)

theorem sim_withdrawals (cfg : Config) (s : State) (payload : ExecutionPayload)
    (hbal : s.balances.length = s.validators.length) (hlen : s.validators.length < 2 ^ 64)
    (hcurv : s.next_withdrawal_validator_index < s.validators.length)
    (hwi : s.next_withdrawal_index + s.validators.length < 2 ^ 64)
    (hidx : ∀ expected, expectedWithdrawals cfg s = .ok expected → ∀ w ∈ expected, w.index + 1 < 2 ^ 64 ∧ w.validator_index + 1 < 2 ^ 64)
    (hcur : s.next_withdrawal_validator_index + cfg.MAX_VALIDATORS_PER_WITHDRAWALS_SWEEP < 2 ^ 64)
    (hmax : cfg.MAX_WITHDRAWALS_PER_PAYLOAD ≠ 0) :
    Sim (Block.process_withdrawals cfg s payload) (processWithdrawals cfg s payload) := by
  have he := withdrawals_eq cfg s hbal hlen hcurv hwi
  unfold Block.process_withdrawals
  cases hx : Block.get_expected_withdrawals cfg s with
  | ok expected =>
    rw [hx] at he
    have hM := withdrawalsApply_eq cfg s payload expected he (hidx expected he) hcur hmax
    rw [hM]
    exact Sim.cross _ _ _
  | error e =>
    rw [hx] at he
    have hM : processWithdrawals cfg s payload = Res.err := by
      unfold processWithdrawals; rw [he]; rfl
    rw [hM]
    exact sim_err e

theorem sim_sync (cfg : Config) (ctx : Ctx) (s : State) (agg : SyncAggregate) (T p B : Nat) (committee : SyncCommittee)
    (hTs : get_total_active_balance cfg s = .ok T) (hps : Block.get_beacon_proposer_index cfg s = .ok p)
    (hsc : s.current_sync_committee = some committee)
    (hp : ctx.proposer = some p) (hidx : ctx.syncIndices = committee.pubkeys.mapM (Block.pubkey_index s))
    (hT : ctx.totalActiveStake = T) (hsq : ctx.totalActiveStakeSqRoot = integer_squareroot T)
    (hclen : committee.pubkeys.length = cfg.SYNC_COMMITTEE_SIZE)
    (hbits : agg.sync_committee_bits.length = 8 * ((cfg.SYNC_COMMITTEE_SIZE + 7) / 8))
    (hpad : (agg.sync_committee_bits.drop cfg.SYNC_COMMITTEE_SIZE).all (· = false) = true)
    (hslot : s.slot + cfg.SLOTS_PER_HISTORICAL_ROOT < 2 ^ 64)
    (h1 : cfg.EFFECTIVE_BALANCE_INCREMENT * cfg.BASE_REWARD_FACTOR < 2 ^ 64)
    (h2 : cfg.EFFECTIVE_BALANCE_INCREMENT * cfg.BASE_REWARD_FACTOR / integer_squareroot T * (T / cfg.EFFECTIVE_BALANCE_INCREMENT) * SYNC_REWARD_WEIGHT < 2 ^ 64)
    (h3 : (Block.sync_rewards cfg T).1 * PROPOSER_WEIGHT < 2 ^ 64)
    (hB : ∀ x ∈ s.balances, x ≤ B)
    (hsum : B + cfg.SYNC_COMMITTEE_SIZE * ((Block.sync_rewards cfg T).1 + (Block.sync_rewards cfg T).2) < 2 ^ 64)
    (hnz : cfg.EFFECTIVE_BALANCE_INCREMENT ≠ 0 ∧ cfg.SLOTS_PER_EPOCH ≠ 0 ∧ cfg.SYNC_COMMITTEE_SIZE ≠ 0 ∧ integer_squareroot T ≠ 0) :
    Sim (Block.process_sync_aggregate cfg s agg) (processSyncAggregate cfg ctx s agg) := by
  unfold Block.process_sync_aggregate
  simp only [hTs, hps]
  rw [syncAggregate_eq cfg ctx s agg T p B committee hsc hp hidx hT hsq hclen hbits hpad hslot h1 h2 h3 hB hsum hnz]
  exact Sim.cross _ _ _

/-- phase0 attestations: the context's committee count, committee and proposer are the specification's -/
theorem sim_attestation_phase0 (cfg : Config) (ctx : Ctx) (s : State) (att : Attestation)
    (hfork : s.fork = .phase0)
    (hcc : ctx.committeeCount att.data.target.epoch = (get_committee_count_per_slot cfg s att.data.target.epoch).toOption)
    (hcom : ctx.committee att.data.slot att.data.index = (get_beacon_committee cfg s att.data.slot att.data.index).toOption)
    (hprop : ctx.proposer = (Block.get_beacon_proposer_index cfg s).toOption)
    (hnd : ∀ c, (get_beacon_committee cfg s att.data.slot att.data.index).toOption = some c → c.Nodup)
    (hwf : att.bits_wellformed = true) (hmaxbits : att.aggregation_bits.length ≤ cfg.MAX_VALIDATORS_PER_COMMITTEE)
    (hspe : 0 < cfg.SLOTS_PER_EPOCH) (hmin : cfg.MIN_ATTESTATION_INCLUSION_DELAY ≤ cfg.SLOTS_PER_EPOCH)
    (hcur : s.slot + 2 * cfg.SLOTS_PER_EPOCH < 2 ^ 64) :
    Sim (Block.process_attestation cfg s att) (processAttestationPhase0 cfg ctx s att) := by
  unfold Block.process_attestation
  simp only [hfork, if_true]
  rw [attestation_phase0_eq cfg ctx s att _ _ _ hfork hcc hcom hprop hnd hwf hmaxbits hspe hmin hcur]
  exact Sim.cross _ _ _

/-- altair … deneb attestations -/
theorem sim_attestation_altair (cfg : Config) (ctx : Ctx) (s : State) (att : Attestation) (T R : Nat)
    (hfork : s.fork ≠ .phase0) (hTs : get_total_active_balance cfg s = .ok T)
    (hcc : ctx.committeeCount att.data.target.epoch = (get_committee_count_per_slot cfg s att.data.target.epoch).toOption)
    (hcom : ctx.committee att.data.slot att.data.index = (get_beacon_committee cfg s att.data.slot att.data.index).toOption)
    (hprop : ctx.proposer = (Block.get_beacon_proposer_index cfg s).toOption)
    (hsq : ctx.totalActiveStakeSqRoot = integer_squareroot T)
    (heb : ctx.effectiveBalances = s.validators.map (·.effective_balance))
    (hnd : ∀ c, (get_beacon_committee cfg s att.data.slot att.data.index).toOption = some c → c.Nodup)
    (hwf : att.bits_wellformed = true) (hmaxbits : att.aggregation_bits.length ≤ cfg.MAX_VALIDATORS_PER_COMMITTEE)
    (hspe : 0 < cfg.SLOTS_PER_EPOCH) (hmin : cfg.MIN_ATTESTATION_INCLUSION_DELAY ≤ cfg.SLOTS_PER_EPOCH)
    (hmin1 : 1 ≤ cfg.MIN_ATTESTATION_INCLUSION_DELAY)
    (hcur : s.slot + 2 * cfg.SLOTS_PER_EPOCH < 2 ^ 64)
    (hsphr : 2 * cfg.SLOTS_PER_EPOCH ≤ cfg.SLOTS_PER_HISTORICAL_ROOT)
    (hroots : s.block_roots.length = cfg.SLOTS_PER_HISTORICAL_ROOT)
    (hslot : s.slot + cfg.SLOTS_PER_HISTORICAL_ROOT < 2 ^ 64)
    (hnz : cfg.EFFECTIVE_BALANCE_INCREMENT ≠ 0 ∧ integer_squareroot T ≠ 0)
    (hbrf : cfg.EFFECTIVE_BALANCE_INCREMENT * cfg.BASE_REWARD_FACTOR < 2 ^ 64)
    (hR : ∀ v ∈ s.validators, v.effective_balance / cfg.EFFECTIVE_BALANCE_INCREMENT *
      (cfg.EFFECTIVE_BALANCE_INCREMENT * cfg.BASE_REWARD_FACTOR / integer_squareroot T) ≤ R)
    (hsum : cfg.MAX_VALIDATORS_PER_COMMITTEE * (R * 54) < 2 ^ 64)
    (hbal : ∀ b ∈ s.balances, b + cfg.MAX_VALIDATORS_PER_COMMITTEE * (R * 54) < 2 ^ 64)
    (hpc : s.current_epoch_participation.length = s.validators.length ∧ ∀ e ∈ s.current_epoch_participation, e < 256)
    (hpp : s.previous_epoch_participation.length = s.validators.length ∧ ∀ e ∈ s.previous_epoch_participation, e < 256) :
    Sim (Block.process_attestation cfg s att) (processAttestationAltair cfg ctx s att) := by
  unfold Block.process_attestation
  simp only [hfork, if_false, hTs]
  rw [attestation_altair_eq cfg ctx s att _ _ _ T R hcc hcom hprop hsq heb hnd hwf hmaxbits hspe hmin hmin1 hcur hsphr hroots hslot
    hnz hbrf hR hsum hbal hpc hpp]
  exact Sim.cross _ _ _

end Zrnt.Proofs.BlockM
