import Zrnt.Beacon.Genesis
import Mathlib.Tactic.Ring
import Mathlib.Tactic.Linarith
/-! The deposit contract's incremental Merkle tree (`Inc`: `branch` + `count`, `deposit()`, `get_deposit_root()`) computes
the SSZ `hash_tree_root` of the list of leaves — for every node type and two-to-one hash. -/
namespace Zrnt.Proofs.DepositTree
open Zrnt.Beacon.Genesis.Merkle

variable {α : Type} (H : α → α → α) (z0 : α)

theorem treeRoot_nil (d : Nat) : treeRoot H z0 d [] = zeroAt H z0 d := by
  induction d with
  | zero => rfl
  | succ d ih => simp [treeRoot, zeroAt, ih]

/-- padding with zero leaves does not change the root -/
theorem treeRoot_append_replicate (d : Nat) : ∀ (l : List α) (k : Nat),
    treeRoot H z0 d (l ++ List.replicate k z0) = treeRoot H z0 d l := by
  induction d with
  | zero =>
    intro l k
    cases l with
    | nil => cases k <;> simp [treeRoot, List.replicate]
    | cons a t => simp [treeRoot]
  | succ d ih =>
    intro l k
    simp only [treeRoot, List.take_append, List.drop_append, List.take_replicate, List.drop_replicate]
    rw [ih, ih]

/-- only the first `2^d` leaves matter -/
theorem treeRoot_take (d : Nat) : ∀ l : List α, treeRoot H z0 d (l.take (2 ^ d)) = treeRoot H z0 d l := by
  induction d with
  | zero => intro l; cases l <;> simp [treeRoot, List.take]
  | succ d ih =>
    intro l
    simp only [treeRoot]
    have h1 : (l.take (2 ^ (d + 1))).take (2 ^ d) = l.take (2 ^ d) := by
      rw [List.take_take]; congr 1; rw [Nat.pow_succ]; omega
    have h2 : (l.take (2 ^ (d + 1))).drop (2 ^ d) = (l.drop (2 ^ d)).take (2 ^ d) := by
      rw [List.drop_take]; congr 1; rw [Nat.pow_succ]; omega
    rw [h1, h2, ih (l.drop (2 ^ d))]

/-- the executable short-circuiting tree equals the literal one -/
theorem treeRootZ_eq (Z : Nat → α) (hZ : ∀ k, Z k = zeroAt H z0 k) (d : Nat) :
    ∀ l : List α, treeRootZ H Z d l = treeRoot H z0 d l := by
  induction d with
  | zero =>
    intro l
    cases l with
    | nil => simp [treeRootZ, treeRoot, hZ, zeroAt]
    | cons a t => simp [treeRootZ, treeRoot]
  | succ d ih =>
    intro l
    cases l with
    | nil => rw [treeRoot_nil]; simp [treeRootZ, hZ]
    | cons a t => simp only [treeRootZ, treeRoot]; rw [ih, ih]

theorem treeRootZ_eq_spec (Z : Nat → α) (hZ : ∀ k, Z k = zeroAt H z0 k) (d : Nat) (l : List α) :
    treeRootZ H Z d l = merkleizeSpec H z0 d l := by
  rw [treeRootZ_eq H z0 Z hZ, merkleizeSpec, treeRoot_append_replicate]

/-- segment `[a, a + k)` of a list -/
def seg (l : List α) (a k : Nat) : List α := (l.drop a).take k

theorem seg_append (l m : List α) (a k : Nat) (h : a + k ≤ l.length) : seg (l ++ m) a k = seg l a k := by
  unfold seg
  rw [List.drop_append_of_le_length (by omega), List.take_append_of_le_length (by simp; omega)]

theorem treeRoot_succ_seg (h : Nat) (l : List α) (a : Nat) :
    treeRoot H z0 (h + 1) (seg l a (2 ^ (h + 1))) =
      H (treeRoot H z0 h (seg l a (2 ^ h))) (treeRoot H z0 h (seg l (a + 2 ^ h) (2 ^ h))) := by
  unfold seg
  simp only [treeRoot]
  have h1 : ((l.drop a).take (2 ^ (h + 1))).take (2 ^ h) = (l.drop a).take (2 ^ h) := by
    rw [List.take_take]; congr 1; rw [Nat.pow_succ]; omega
  have h2 : ((l.drop a).take (2 ^ (h + 1))).drop (2 ^ h) = (l.drop (a + 2 ^ h)).take (2 ^ h) := by
    rw [List.drop_take, List.drop_drop]; congr 1; rw [Nat.pow_succ]; omega
  rw [h1, h2]

/-! ### arithmetic of the binary counter -/

theorem div_pow_succ (n h : Nat) : n / 2 ^ (h + 1) = n / 2 ^ h / 2 := by
  rw [Nat.pow_succ, Nat.div_div_eq_div_mul]

/-- bit `h` set: the last multiple of `2^h` below `n` is the last multiple of `2^(h+1)` plus `2^h` -/
theorem bit_set (n h : Nat) (hb : (n / 2 ^ h) % 2 = 1) :
    (n / 2 ^ h) * 2 ^ h = (n / 2 ^ (h + 1)) * 2 ^ (h + 1) + 2 ^ h := by
  rw [div_pow_succ, Nat.pow_succ]
  generalize n / 2 ^ h = m at *
  generalize 2 ^ h = P
  have : m = 2 * (m / 2) + 1 := by omega
  calc m * P = (2 * (m / 2) + 1) * P := by rw [← this]
    _ = m / 2 * (P * 2) + P := by ring

theorem bit_unset (n h : Nat) (hb : (n / 2 ^ h) % 2 ≠ 1) :
    (n / 2 ^ h) * 2 ^ h = (n / 2 ^ (h + 1)) * 2 ^ (h + 1) := by
  rw [div_pow_succ, Nat.pow_succ]
  generalize n / 2 ^ h = m at *
  generalize 2 ^ h = P
  have : m = 2 * (m / 2) := by omega
  calc m * P = (2 * (m / 2)) * P := by rw [← this]
    _ = m / 2 * (P * 2) := by ring

theorem div_mul_bounds (n h : Nat) : (n / 2 ^ h) * 2 ^ h ≤ n ∧ n < (n / 2 ^ h) * 2 ^ h + 2 ^ h := by
  have hp : 0 < 2 ^ h := Nat.pow_pos (by decide)
  constructor
  · exact Nat.div_mul_le_self n (2 ^ h)
  · have := Nat.lt_div_mul_add (a := n) hp
    omega

theorem T1 (m h : Nat) (h0 : m % 2 ^ h = 0) (h1 : (m / 2 ^ h) % 2 = 0) : m % 2 ^ (h + 1) = 0 := by
  obtain ⟨k, rfl⟩ := Nat.dvd_of_mod_eq_zero h0
  have hp : 0 < 2 ^ h := Nat.pow_pos (by decide)
  rw [Nat.mul_div_cancel_left _ hp] at h1
  obtain ⟨j, rfl⟩ : ∃ j, k = 2 * j := ⟨k / 2, by omega⟩
  rw [Nat.pow_succ, show 2 ^ h * (2 * j) = 2 ^ h * 2 * j by ring]
  exact Nat.mul_mod_right _ _

theorem T2 (m h : Nat) (h0 : m % 2 ^ (h + 1) = 0) (hm : 1 ≤ m) :
    ((m - 1) / 2 ^ h) % 2 = 1 ∧ ((m - 1) / 2 ^ (h + 1)) * 2 ^ (h + 1) + 2 ^ (h + 1) = m := by
  obtain ⟨k, rfl⟩ := Nat.dvd_of_mod_eq_zero h0
  have hp : 0 < 2 ^ h := Nat.pow_pos (by decide)
  rw [Nat.pow_succ] at *
  generalize 2 ^ h = P at *
  cases k with
  | zero => simp at hm
  | succ k =>
    have e1 : (P * 2 * (k + 1) - 1) / P = 2 * k + 1 := by
      apply Nat.div_eq_of_lt_le
      · have : (2 * k + 1) * P = 2 * (P * k) + P := by ring
        have : P * 2 * (k + 1) = 2 * (P * k) + 2 * P := by ring
        generalize P * k = t at *
        omega
      · have : (2 * k + 1 + 1) * P = 2 * (P * k) + 2 * P := by ring
        have : P * 2 * (k + 1) = 2 * (P * k) + 2 * P := by ring
        generalize P * k = t at *
        omega
    have e2 : (P * 2 * (k + 1) - 1) / (P * 2) = k := by
      apply Nat.div_eq_of_lt_le
      · have : k * (P * 2) = 2 * (P * k) := by ring
        have : P * 2 * (k + 1) = 2 * (P * k) + 2 * P := by ring
        generalize P * k = t at *
        omega
      · have : (k + 1) * (P * 2) = 2 * (P * k) + 2 * P := by ring
        have : P * 2 * (k + 1) = 2 * (P * k) + 2 * P := by ring
        generalize P * k = t at *
        omega
    rw [e1, e2]
    constructor
    · omega
    · ring

theorem T3 (m h : Nat) (h0 : m % 2 ^ h = 0) (h1 : (m / 2 ^ h) % 2 = 1) :
    (m / 2 ^ (h + 1)) * 2 ^ (h + 1) + 2 ^ h = m := by
  obtain ⟨k, rfl⟩ := Nat.dvd_of_mod_eq_zero h0
  have hp : 0 < 2 ^ h := Nat.pow_pos (by decide)
  rw [Nat.mul_div_cancel_left _ hp] at h1
  rw [Nat.pow_succ, ← Nat.div_div_eq_div_mul, Nat.mul_div_cancel_left _ hp]
  generalize 2 ^ h = P at *
  have : k = 2 * (k / 2) + 1 := by omega
  calc k / 2 * (P * 2) + P = P * (2 * (k / 2) + 1) := by ring
    _ = P * k := by rw [← this]

theorem T4 (m h h' : Nat) (h0 : m % 2 ^ h = 0) (hh : h' < h) : (m / 2 ^ h') % 2 = 0 := by
  obtain ⟨k, rfl⟩ := Nat.dvd_of_mod_eq_zero h0
  obtain ⟨d, rfl⟩ : ∃ d, h = h' + 1 + d := ⟨h - h' - 1, by omega⟩
  have hp : 0 < 2 ^ h' := Nat.pow_pos (by decide)
  have : 2 ^ (h' + 1 + d) * k = 2 ^ h' * (2 * (2 ^ d * k)) := by
    rw [Nat.pow_add, Nat.pow_succ]; ring
  rw [this, Nat.mul_div_cancel_left _ hp]
  omega

theorem T5 (m h h' : Nat) (h0 : m % 2 ^ h = 0) (h1 : (m / 2 ^ h) % 2 = 1) (hh : h < h') :
    (m - 1) / 2 ^ h' = m / 2 ^ h' := by
  obtain ⟨k, rfl⟩ := Nat.dvd_of_mod_eq_zero h0
  have hp : 0 < 2 ^ h := Nat.pow_pos (by decide)
  rw [Nat.mul_div_cancel_left _ hp] at h1
  obtain ⟨d, rfl⟩ : ∃ d, h' = h + 1 + d := ⟨h' - h - 1, by omega⟩
  rw [Nat.pow_add, ← Nat.div_div_eq_div_mul, ← Nat.div_div_eq_div_mul]
  congr 1
  rw [Nat.pow_succ]
  generalize 2 ^ h = P at *
  obtain ⟨j, rfl⟩ : ∃ j, k = 2 * j + 1 := ⟨k / 2, by omega⟩
  have e1 : P * (2 * j + 1) / (P * 2) = j := by
    apply Nat.div_eq_of_lt_le
    · have : j * (P * 2) = 2 * (P * j) := by ring
      have : P * (2 * j + 1) = 2 * (P * j) + P := by ring
      generalize P * j = t at *
      omega
    · have : (j + 1) * (P * 2) = 2 * (P * j) + 2 * P := by ring
      have : P * (2 * j + 1) = 2 * (P * j) + P := by ring
      generalize P * j = t at *
      omega
  have e2 : (P * (2 * j + 1) - 1) / (P * 2) = j := by
    apply Nat.div_eq_of_lt_le
    · have : j * (P * 2) = 2 * (P * j) := by ring
      have : P * (2 * j + 1) = 2 * (P * j) + P := by ring
      generalize P * j = t at *
      omega
    · have : (j + 1) * (P * 2) = 2 * (P * j) + 2 * P := by ring
      have : P * (2 * j + 1) = 2 * (P * j) + P := by ring
      generalize P * j = t at *
      omega
  rw [e1, e2]

/-! ### the invariant of the deposit contract's `branch` -/

/-- `branch[h]`, for every set bit `h` of the count `n`, is the root of the last complete height-`h` subtree:
the leaves `[⌊n / 2^(h+1)⌋·2^(h+1), … + 2^h)`. -/
structure BrInv (br : List α) (n : Nat) (l : List α) (depth : Nat) : Prop where
  len : br.length = depth
  count : l.length = n
  node : ∀ h, h < depth → (n / 2 ^ h) % 2 = 1 →
    br[h]? = some (treeRoot H z0 h (seg l ((n / 2 ^ (h + 1)) * 2 ^ (h + 1)) (2 ^ h)))

theorem brInv_empty (depth : Nat) : BrInv H z0 (List.replicate depth z0) 0 [] depth :=
  ⟨by simp, rfl, by intro h _ hb; simp at hb⟩

/-- `get_deposit_root`'s loop after `h` rounds holds the root of the height-`h` subtree that contains the next free leaf -/
theorem rootLoop_spec (Z : Nat → α) (hZ : ∀ k, Z k = zeroAt H z0 k) {br : List α} {n : Nat} {l : List α} {depth : Nat}
    (inv : BrInv H z0 br n l depth) :
    ∀ h, h ≤ depth → rootLoop H Z br n h = treeRoot H z0 h (l.drop ((n / 2 ^ h) * 2 ^ h)) := by
  intro h
  induction h with
  | zero =>
    intro _
    simp only [rootLoop, treeRoot, Nat.pow_zero, Nat.div_one, Nat.mul_one]
    rw [← inv.count, List.drop_length]
    simp [hZ, zeroAt]
  | succ h ih =>
    intro hd
    have ih := ih (by omega)
    have hlt : h < depth := by omega
    simp only [rootLoop]
    have hb := div_mul_bounds n h
    -- the height-(h+1) subtree splits into its two halves
    have hsplit : treeRoot H z0 (h + 1) (l.drop ((n / 2 ^ (h + 1)) * 2 ^ (h + 1))) =
        H (treeRoot H z0 h (seg l ((n / 2 ^ (h + 1)) * 2 ^ (h + 1)) (2 ^ h)))
          (treeRoot H z0 h (l.drop ((n / 2 ^ (h + 1)) * 2 ^ (h + 1) + 2 ^ h))) := by
      simp only [treeRoot, seg, List.drop_drop]
    rw [hsplit]
    by_cases hbit : (n / 2 ^ h) % 2 = 1
    · rw [if_pos hbit]
      have hnode := inv.node h hlt hbit
      have : br.getD h (Z 0) = treeRoot H z0 h (seg l ((n / 2 ^ (h + 1)) * 2 ^ (h + 1)) (2 ^ h)) := by
        simp [List.getD, hnode]
      rw [this, ih, bit_set n h hbit]
    · rw [if_neg hbit, ih, bit_unset n h hbit, hZ]
      have hun := bit_unset n h hbit
      -- the left half is everything that is left; the right half is empty
      have h1 : treeRoot H z0 h (seg l ((n / 2 ^ (h + 1)) * 2 ^ (h + 1)) (2 ^ h)) =
          treeRoot H z0 h (l.drop ((n / 2 ^ (h + 1)) * 2 ^ (h + 1))) := by
        unfold seg; exact treeRoot_take H z0 h _
      have h2 : l.drop ((n / 2 ^ (h + 1)) * 2 ^ (h + 1) + 2 ^ h) = [] := by
        apply List.drop_eq_nil_of_le
        rw [inv.count]; omega
      rw [h1, h2, treeRoot_nil]

/-- **`get_deposit_root` is the hash-tree-root of the list of leaves.** -/
theorem root_spec (Z : Nat → α) (hZ : ∀ k, Z k = zeroAt H z0 k) (lenNode : Nat → α)
    {br : List α} {n : Nat} {l : List α} {depth : Nat} (inv : BrInv H z0 br n l depth) (hn : n < 2 ^ depth) :
    Inc.root H Z lenNode ⟨br, n⟩ = H (merkleizeSpec H z0 depth l) (lenNode l.length) := by
  unfold Inc.root
  simp only
  rw [inv.len, rootLoop_spec H z0 Z hZ inv depth (Nat.le_refl _), Nat.div_eq_of_lt hn]
  simp only [Nat.zero_mul, List.drop_zero]
  rw [merkleizeSpec, treeRoot_append_replicate, inv.count]

/-- the loop of `deposit()` re-establishes the invariant for `n + 1` leaves -/
theorem pushLoop_spec {br : List α} {n : Nat} {l : List α} {depth : Nat} (x : α)
    (inv : BrInv H z0 br n l depth) (hn : n + 1 < 2 ^ depth) :
    ∀ (fuel h : Nat) (node : α), h + fuel = depth → (n + 1) % 2 ^ h = 0 →
      node = treeRoot H z0 h (seg (l ++ [x]) (n + 1 - 2 ^ h) (2 ^ h)) →
      BrInv H z0 (pushLoop H br node ((n + 1) / 2 ^ h) h fuel) (n + 1) (l ++ [x]) depth := by
  intro fuel
  induction fuel with
  | zero =>
    intro h node hd h0 _
    exfalso
    have : h = depth := by omega
    subst this
    rw [Nat.mod_eq_of_lt hn] at h0
    omega
  | succ fuel ih =>
    intro h node hd h0 hnode
    have hlt : h < depth := by omega
    have hp : 0 < 2 ^ h := Nat.pow_pos (by decide)
    simp only [pushLoop]
    by_cases hb : ((n + 1) / 2 ^ h) % 2 = 1
    · rw [if_pos hb]
      refine ⟨by rw [List.length_set]; exact inv.len, by simp [inv.count], ?_⟩
      intro h' hlt' hb'
      rcases Nat.lt_trichotomy h' h with hh | hh | hh
      · have := T4 (n + 1) h h' h0 hh
        omega
      · subst hh
        rw [List.getElem?_set_self (by rw [inv.len]; exact hlt), hnode]
        have := T3 (n + 1) h' h0 hb
        congr 3
        omega
      · rw [List.getElem?_set_ne (by omega)]
        have e1 := T5 (n + 1) h h' h0 hb hh
        have e2 := T5 (n + 1) h (h' + 1) h0 hb (by omega)
        simp only [Nat.add_sub_cancel] at e1 e2
        rw [← e1] at hb'
        rw [← e2, inv.node h' hlt' hb']
        have hbs := bit_set n h' hb'
        have hbd := div_mul_bounds n h'
        rw [seg_append]
        rw [inv.count]; omega
    · rw [if_neg hb]
      have hb0 : ((n + 1) / 2 ^ h) % 2 = 0 := by omega
      have h1 := T1 (n + 1) h h0 hb0
      obtain ⟨hbn, ha⟩ := T2 (n + 1) h h1 (by omega)
      simp only [Nat.add_sub_cancel] at hbn ha
      have hbr := inv.node h hlt hbn
      have hpow : 2 ^ (h + 1) = 2 ^ h + 2 ^ h := by rw [Nat.pow_succ]; omega
      have hget : br.getD h node = treeRoot H z0 h (seg (l ++ [x]) (n + 1 - 2 ^ (h + 1)) (2 ^ h)) := by
        simp only [List.getD, hbr, Option.getD_some]
        rw [seg_append _ _ _ _ (by rw [inv.count]; omega)]
        congr 2
        omega
      have := ih (h + 1) (H (br.getD h node) node) (by omega) h1 (by
        rw [treeRoot_succ_seg, hget, hnode]
        congr 3
        omega)
      rw [div_pow_succ] at this
      exact this

theorem push_spec {br : List α} {n : Nat} {l : List α} {depth : Nat} (x : α)
    (inv : BrInv H z0 br n l depth) (hn : n + 1 < 2 ^ depth) :
    BrInv H z0 (Inc.push H ⟨br, n⟩ x).branch (Inc.push H ⟨br, n⟩ x).count (l ++ [x]) depth := by
  unfold Inc.push
  simp only
  have := pushLoop_spec H z0 x inv hn br.length 0 x (by rw [inv.len]; omega) (by rw [Nat.pow_zero]; exact Nat.mod_one _) (by
    have : seg (l ++ [x]) (n + 1 - 2 ^ 0) (2 ^ 0) = [x] := by
      unfold seg
      simp only [Nat.pow_zero, Nat.add_sub_cancel]
      rw [← inv.count, List.drop_append_of_le_length (Nat.le_refl _), List.drop_length]
      simp
    rw [this]; simp [treeRoot])
  simpa using this

/-- pushing a list of leaves one after the other keeps the invariant -/
theorem foldl_push_spec (depth : Nat) : ∀ (ls pre : List α) (s : Inc α),
    BrInv H z0 s.branch s.count pre depth → (pre ++ ls).length < 2 ^ depth →
    BrInv H z0 (ls.foldl (Inc.push H) s).branch (ls.foldl (Inc.push H) s).count (pre ++ ls) depth := by
  intro ls
  induction ls with
  | nil => intro pre s inv _; simpa using inv
  | cons x rest ih =>
    intro pre s inv hlen
    simp only [List.foldl_cons]
    have hc := inv.count
    have h1 : s.count + 1 < 2 ^ depth := by
      simp only [List.length_append, List.length_cons] at hlen
      omega
    have := ih (pre ++ [x]) (Inc.push H s x) (push_spec H z0 x (br := s.branch) (n := s.count) inv h1) (by simpa using hlen)
    simpa using this

/-! ### Merkle proofs taken from the tree verify (`is_valid_merkle_branch`) -/

/-- the Merkle proof of leaf `i` in the depth-`d` tree over `l`: the siblings along its path, bottom-up -/
def proofOf : Nat → List α → Nat → List α
  | 0, _, _ => []
  | d + 1, l, i =>
    if i < 2 ^ d then proofOf d (l.take (2 ^ d)) i ++ [treeRoot H z0 d (l.drop (2 ^ d))]
    else proofOf d (l.drop (2 ^ d)) (i - 2 ^ d) ++ [treeRoot H z0 d (l.take (2 ^ d))]

theorem proofOf_length : ∀ (d : Nat) (l : List α) (i : Nat), (proofOf H z0 d l i).length = d := by
  intro d
  induction d with
  | zero => intro l i; rfl
  | succ d ih => intro l i; simp only [proofOf]; split <;> simp [ih]

/-- the loop of `is_valid_merkle_branch` over the first `d` levels -/
def pathFold (branch : List α) (index : Nat) (leaf : α) (d : Nat) : α :=
  (List.range d).foldl (fun value k =>
    let sib := branch.getD k value
    if index / 2 ^ k % 2 = 1 then H sib value else H value sib) leaf

theorem foldl_range_congr {β : Type} (f g : β → Nat → β) : ∀ (d : Nat) (a : β),
    (∀ k, k < d → ∀ b, f b k = g b k) → (List.range d).foldl f a = (List.range d).foldl g a := by
  intro d
  induction d with
  | zero => intro a _; rfl
  | succ d ih =>
    intro a h
    rw [List.range_succ, List.foldl_append, List.foldl_append, ih a (fun k hk b => h k (by omega) b)]
    simp [h d (by omega)]

theorem pathFold_succ (branch : List α) (index : Nat) (leaf : α) (d : Nat) :
    pathFold H branch index leaf (d + 1) =
      (let value := pathFold H branch index leaf d
       let sib := branch.getD d value
       if index / 2 ^ d % 2 = 1 then H sib value else H value sib) := by
  unfold pathFold
  rw [List.range_succ, List.foldl_append]
  rfl

/-- only the first `d` entries of the branch and the low `d` bits of the index matter for `d` levels -/
theorem pathFold_congr (b1 b2 : List α) (i1 i2 : Nat) (leaf : α) (d : Nat)
    (hb : ∀ k, k < d → ∀ v, b1.getD k v = b2.getD k v) (hi : ∀ k, k < d → i1 / 2 ^ k % 2 = i2 / 2 ^ k % 2) :
    pathFold H b1 i1 leaf d = pathFold H b2 i2 leaf d := by
  unfold pathFold
  apply foldl_range_congr
  intro k hk v
  simp only [hb k hk, hi k hk]

theorem bits_sub_pow (i d k : Nat) (hk : k < d) (hi : 2 ^ d ≤ i) : (i - 2 ^ d) / 2 ^ k % 2 = i / 2 ^ k % 2 := by
  obtain ⟨e, rfl⟩ : ∃ e, d = k + 1 + e := ⟨d - k - 1, by omega⟩
  have hp : 0 < 2 ^ k := Nat.pow_pos (by decide)
  have h2 : 2 ^ (k + 1 + e) = 2 ^ k * (2 * 2 ^ e) := by rw [Nat.pow_add, Nat.pow_succ]; ring
  obtain ⟨j, rfl⟩ : ∃ j, i = j + 2 ^ (k + 1 + e) := ⟨i - 2 ^ (k + 1 + e), by omega⟩
  rw [Nat.add_sub_cancel, h2, Nat.add_mul_div_left _ _ hp]
  omega

/-- **A Merkle proof taken from the tree verifies against the tree's root.** -/
theorem pathFold_proofOf : ∀ (d : Nat) (l : List α) (i : Nat), i < 2 ^ d →
    pathFold H (proofOf H z0 d l i) i (l.getD i z0) d = treeRoot H z0 d l := by
  intro d
  induction d with
  | zero =>
    intro l i hi
    have : i = 0 := by simpa using hi
    subst this
    cases l <;> simp [pathFold, treeRoot, List.getD]
  | succ d ih =>
    intro l i hi
    have hp : 0 < 2 ^ d := Nat.pow_pos (by decide)
    rw [pathFold_succ]
    simp only [proofOf, treeRoot]
    by_cases hlt : i < 2 ^ d
    · simp only [if_pos hlt]
      have hlen := proofOf_length H z0 d (l.take (2 ^ d)) i
      have hinner : pathFold H (proofOf H z0 d (l.take (2 ^ d)) i ++ [treeRoot H z0 d (l.drop (2 ^ d))]) i (l.getD i z0) d =
          treeRoot H z0 d (l.take (2 ^ d)) := by
        rw [pathFold_congr H _ (proofOf H z0 d (l.take (2 ^ d)) i) i i _ d
          (fun k hk v => by simp [List.getD, List.getElem?_append_left (by omega : k < (proofOf H z0 d (l.take (2 ^ d)) i).length)])
          (fun _ _ => rfl)]
        have hleaf : l.getD i z0 = (l.take (2 ^ d)).getD i z0 := by
          simp [List.getD, hlt]
        rw [hleaf]
        exact ih _ _ hlt
      rw [hinner]
      have hsib : (proofOf H z0 d (l.take (2 ^ d)) i ++ [treeRoot H z0 d (l.drop (2 ^ d))]).getD d (treeRoot H z0 d (l.take (2 ^ d))) =
          treeRoot H z0 d (l.drop (2 ^ d)) := by
        simp [List.getD, hlen]
      have hbit : i / 2 ^ d % 2 ≠ 1 := by rw [Nat.div_eq_of_lt hlt]; decide
      simp only [hsib, if_neg hbit]
    · simp only [if_neg hlt]
      have hge : 2 ^ d ≤ i := by omega
      have hi' : i - 2 ^ d < 2 ^ d := by rw [Nat.pow_succ] at hi; omega
      have hlen := proofOf_length H z0 d (l.drop (2 ^ d)) (i - 2 ^ d)
      have hinner : pathFold H (proofOf H z0 d (l.drop (2 ^ d)) (i - 2 ^ d) ++ [treeRoot H z0 d (l.take (2 ^ d))]) i (l.getD i z0) d =
          treeRoot H z0 d (l.drop (2 ^ d)) := by
        rw [pathFold_congr H _ (proofOf H z0 d (l.drop (2 ^ d)) (i - 2 ^ d)) i (i - 2 ^ d) _ d
          (fun k hk v => by simp [List.getD, List.getElem?_append_left (by omega : k < (proofOf H z0 d (l.drop (2 ^ d)) (i - 2 ^ d)).length)])
          (fun k hk => (bits_sub_pow i d k hk hge).symm)]
        have hleaf : l.getD i z0 = (l.drop (2 ^ d)).getD (i - 2 ^ d) z0 := by
          simp only [List.getD, List.getElem?_drop]
          congr 2; omega
        rw [hleaf]
        exact ih _ _ hi'
      rw [hinner]
      have hsib : (proofOf H z0 d (l.drop (2 ^ d)) (i - 2 ^ d) ++ [treeRoot H z0 d (l.take (2 ^ d))]).getD d (treeRoot H z0 d (l.drop (2 ^ d))) =
          treeRoot H z0 d (l.take (2 ^ d)) := by
        simp [List.getD, hlen]
      have hbit : i / 2 ^ d % 2 = 1 := by
        have : i / 2 ^ d = 1 := by
          apply Nat.div_eq_of_lt_le <;> (rw [Nat.pow_succ] at hi; omega)
        rw [this]
      simp only [hsib, if_pos hbit]

end Zrnt.Proofs.DepositTree
