import Proofs.Lemmas.SSZTree
import Proofs.Lemmas.SSZHtrSpec
/-! The hand-built backings (`SubtreeFillToLength`) denote the same tree as the typed value. -/
namespace Zrnt.Proofs.SSZ
open Zrnt.SSZ Zrnt.SSZ.CTree

theorem treeRoot_zeros (H : Hash2) : ∀ d : Nat, treeRoot H d (List.replicate (2 ^ d) zeroChunk) = zeroHash H d
  | 0 => by simp [treeRoot, zeroHash]
  | d + 1 => by
    have h2 : 2 ^ (d + 1) = 2 ^ d + 2 ^ d := by rw [Nat.pow_succ]; omega
    have e1 : min (2 ^ d) (2 ^ d + 2 ^ d) = 2 ^ d := Nat.min_eq_left (Nat.le_add_right _ _)
    have e2 : 2 ^ d + 2 ^ d - 2 ^ d = 2 ^ d := Nat.add_sub_cancel _ _
    simp only [treeRoot, zeroHash, h2, List.take_replicate, List.drop_replicate, e1, e2, treeRoot_zeros H d]

theorem fillToDepth_valid (H : Hash2) (b : Chunk) : ∀ d, (fillToDepth H b d).Valid H
  | 0 => by simp [fillToDepth, Valid]
  | d + 1 => by simp [fillToDepth, Valid, fillToDepth_valid H b d]

theorem fillToDepth_rehash (H : Hash2) (b : Chunk) : ∀ d, (fillToDepth H b d).rehash H = treeRoot H d (List.replicate (2 ^ d) b)
  | 0 => by simp [fillToDepth, rehash, treeRoot]
  | d + 1 => by
    have h2 : 2 ^ (d + 1) = 2 ^ d + 2 ^ d := by rw [Nat.pow_succ]; omega
    have e1 : min (2 ^ d) (2 ^ d + 2 ^ d) = 2 ^ d := Nat.min_eq_left (Nat.le_add_right _ _)
    have e2 : 2 ^ d + 2 ^ d - 2 ^ d = 2 ^ d := Nat.add_sub_cancel _ _
    simp only [fillToDepth, rehash, treeRoot, h2, List.take_replicate, List.drop_replicate, e1, e2,
      fillToDepth_rehash H b d]

/-- the first `len` leaves `b`, the rest zero chunks, `n` leaves in all -/
def padded (b : Chunk) (len n : Nat) : List Chunk := List.replicate len b ++ List.replicate (n - len) zeroChunk

theorem padded_take_low (b : Chunk) (len k : Nat) (h : len ≤ k) : (padded b len (k + k)).take k = padded b len k := by
  unfold padded
  rw [List.take_append, List.take_replicate, List.take_replicate, List.length_replicate]
  have e1 : min k len = len := by omega
  have e2 : min (k - len) (k + k - len) = k - len := by omega
  rw [e1, e2]

theorem padded_drop_low (b : Chunk) (len k : Nat) (h : len ≤ k) :
    (padded b len (k + k)).drop k = List.replicate k zeroChunk := by
  unfold padded
  rw [List.drop_append, List.drop_replicate, List.drop_replicate, List.length_replicate]
  have e1 : len - k = 0 := by omega
  have e2 : k + k - len - (k - len) = k := by omega
  rw [e1, e2]; rfl

theorem padded_take_high (b : Chunk) (len k : Nat) (h : k < len) (h2 : len ≤ k + k) :
    (padded b len (k + k)).take k = List.replicate k b := by
  unfold padded
  rw [List.take_append, List.take_replicate, List.take_replicate, List.length_replicate]
  have e1 : min k len = k := by omega
  have e2 : min (k - len) (k + k - len) = 0 := by omega
  rw [e1, e2]; simp

theorem padded_drop_high (b : Chunk) (len k : Nat) (h : k < len) (h2 : len ≤ k + k) :
    (padded b len (k + k)).drop k = padded b (len - k) k := by
  unfold padded
  rw [List.drop_append, List.drop_replicate, List.drop_replicate, List.length_replicate]
  have e2 : k + k - len - (k - len) = k - (len - k) := by omega
  rw [e2]

theorem fillToLength_valid (H : Hash2) (b : Chunk) : ∀ d len, (fillToLength H b d len).Valid H
  | 0, _ => by simp [fillToLength, Valid]
  | d + 1, len => by
    simp only [fillToLength]
    split
    · exact fillToDepth_valid H b (d + 1)
    · split
      · simp [Valid, fillToLength_valid H b d len, cachedRoot]
      · simp [Valid, fillToLength_valid H b d _, fillToDepth_valid H b d]

/-- **`SubtreeFillToLength` builds the tree of `length` copies of `bottom` padded with zero chunks.** -/
theorem fillToLength_rehash (H : Hash2) (b : Chunk) : ∀ d len, 0 < len → len ≤ 2 ^ d →
    (fillToLength H b d len).rehash H = treeRoot H d (padded b len (2 ^ d))
  | 0, len, h0, h1 => by
    have : len = 1 := by simp at h1; omega
    subst this
    simp [fillToLength, rehash, treeRoot, padded]
  | d + 1, len, h0, h1 => by
    have h2 : 2 ^ (d + 1) = 2 ^ d + 2 ^ d := by rw [Nat.pow_succ]; omega
    simp only [fillToLength]
    split
    · rename_i he
      rw [fillToDepth_rehash, he]
      simp [padded]
    · rename_i hne
      split
      · rename_i hle
        simp only [rehash, treeRoot, h2, padded_take_low b len _ hle, padded_drop_low b len _ hle,
          fillToLength_rehash H b d len h0 hle, treeRoot_zeros]
      · rename_i hgt
        have hgt' : 2 ^ d < len := by omega
        simp only [rehash, treeRoot, h2, padded_take_high b len _ hgt' (by omega), padded_drop_high b len _ hgt' (by omega),
          fillToDepth_rehash, fillToLength_rehash H b d (len - 2 ^ d) (by omega) (by omega)]

/-- the root the hand-built backing reports (from its caches) is the specification's merkleization -/
theorem fillToLength_root (H : Hash2) (b : Chunk) (d len : Nat) (h0 : 0 < len) (h1 : len ≤ 2 ^ d) :
    (fillToLength H b d len).cachedRoot = merkleizeSpec H (List.replicate len b) d := by
  rw [valid_hash H _ (fillToLength_valid H b d len), fillToLength_rehash H b d len h0 h1]
  simp [merkleizeSpec, padded]

theorem packN_zeros (n len : Nat) (h : len ≤ 32 * n) :
    packN n (List.replicate len (0 : UInt8)) = List.replicate n zeroChunk := by
  induction n generalizing len with
  | zero => rfl
  | succ n ih =>
    simp only [packN, List.take_replicate, List.drop_replicate, List.replicate_succ]
    rw [ih (len - 32) (by omega)]
    congr 1
    simp only [padTo32, List.length_replicate, zeroChunk, List.replicate_append_replicate]
    congr 1; omega

end Zrnt.Proofs.SSZ
