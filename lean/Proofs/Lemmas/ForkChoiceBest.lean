import Proofs.Lemmas.ForkChoiceBestDefs
import Proofs.Lemmas.ForkChoiceLinks
import Proofs.Lemmas.ForkChoiceChain
/-!
# Fork choice (inv_best): after a connection pass every best-child / best-descendant link is the GHOST choice

* (A) `sibDistinct_of_chain`: in a chain-structured array the children of one node have different roots, so
  `beats` (`(weight, root)` lexicographic) is a strict total order among siblings.
* (B) `leads_unfold` / `leads_iff` (the fuel `nodes.length` suffices), `leads_frame` (`leads` depends on skeletons
  and epochs only), `leads_of_anc` (a node with a viable descendant leads).
* (C) `linksOK_pass2`, `linksOK_updateConnections`, `linksOK_applyScoreChanges`: the loop that calls
  `maybeUpdate parent(i) i` for `i = len-1, …, 0` leaves `LinksOK`, and every node's `nodeLeads` (the code's
  judgement through the best descendant) equals `leads` (the specification's).

  Invariant `J pr q k` for the state `q` after the indices `≥ k` were processed (`pr` = the array before the
  pass; `leads`, `beats`, `fpar` are those of `pr`, the pass keeps them, `Frame`):
  1. `nl`: every node `i ≥ k` judges itself correctly, `q.nodeLeads n = some (leads pr i)`;
  2. `par`: for every parent `p` with node `n` (`ParInv`):
     * `FreshOK`: an incumbent `b ≥ k` (installed/refreshed during this pass) leads and
       `n.bestDesc = (node b).bestDesc.getD b`;
     * `GoodC` for every processed leading child `c ≥ k` of `p`: the incumbent is `≥ k` and is `c` or beats `c`,
       **or** some not yet processed leading child `b' < k` of `p` beats `c`.
  The second alternative is what makes a *stale* incumbent (a best child `< k` left over from before the pass,
  judged through links that are only partly refreshed) harmless: a processed child may lose against it, or an
  incumbent may be installed although an earlier processed child was better — but only when a leading child
  that beats them all is still to come, and that child is compared with the incumbent when its turn comes.
  At `k = 0` the second alternative is empty and `J` is `LinksOK`. `LinkOK` as stated in `ForkChoiceBestDefs`
  is exactly what the pass establishes; no definition had to change.
* (D) `findHead_best`, `findHead_leads`: with connections up to date and `LinksOK`, `findHead` answers with the
  node at the end of the best-child path from the anchor (`bestPath`), if viable; it finds a head exactly when
  the anchor `leads`.
-/
namespace Zrnt.ForkChoice

/-! ## (A) siblings have different roots -/

theorem NodeRef.eq_of {a b : NodeRef} (h1 : a.slot = b.slot) (h2 : a.root = b.root) : a = b := by
  cases a; cases b; simp_all

theorem sibDistinct_of_chain (pr : PA) (h : WF pr) (hc : Chain pr) : SibDistinct pr := by
  intro c c' p n n' hcp hcp' hn hn' hroot
  rw [fpar_of_node hn] at hcp
  rw [fpar_of_node hn'] at hcp'
  have key : n.ref = n'.ref → c = c' := by
    intro e
    have h1 := h.idx_complete c n hn
    have h2 := h.idx_complete c' n' hn'
    rw [e] at h1; rw [h1] at h2; exact Option.some.inj h2
  obtain ⟨s0, hb, hk⟩ := hc.ok c n hn
  obtain ⟨s0', hb', hk'⟩ := hc.ok c' n' hn'
  rw [← hroot, hb] at hb'
  cases hb'
  rcases hk with ⟨hlt, q, _, hfq, hq⟩ | ⟨heq, hk⟩
  · rw [hfq] at hcp; cases hcp
    obtain ⟨m, hm, hmr⟩ := h.idx_sound _ _ hq
    rcases hk' with ⟨hlt', q', _, hfq', hq'⟩ | ⟨heq', hk'⟩
    · rw [hfq'] at hcp'; cases hcp'
      obtain ⟨m', hm', hmr'⟩ := h.idx_sound _ _ hq'
      rw [hm] at hm'; cases hm'
      rw [hmr] at hmr'
      have e : n.ref.slot - 1 = n'.ref.slot - 1 := congrArg NodeRef.slot hmr'
      exact key (NodeRef.eq_of (by omega) hroot)
    · rcases hk' with ⟨_, h2⟩ | ⟨hne, p0, t, f, _, _, _, _, hf, hfi⟩
      · rw [h2] at hcp'; cases hcp'
      · rw [hf] at hcp'; cases hcp'
        obtain ⟨m', hm', hmr'⟩ := h.idx_sound _ _ hfi
        rw [hm] at hm'; cases hm'
        rw [hmr] at hmr'
        have e : n.ref.root = n'.parentRoot := congrArg NodeRef.root hmr'
        exact absurd (e.symm.trans hroot) hne
  · rcases hk' with ⟨hlt', q', _, hfq', hq'⟩ | ⟨heq', hk'⟩
    · rw [hfq'] at hcp'; cases hcp'
      obtain ⟨m', hm', hmr'⟩ := h.idx_sound _ _ hq'
      rcases hk with ⟨_, h2⟩ | ⟨hne, p0, t, f, _, _, _, _, hf, hfi⟩
      · rw [h2] at hcp; cases hcp
      · rw [hf] at hcp; cases hcp
        obtain ⟨m, hm, hmr⟩ := h.idx_sound _ _ hfi
        rw [hm'] at hm; cases hm
        rw [hmr'] at hmr
        have e : n'.ref.root = n.parentRoot := congrArg NodeRef.root hmr
        exact absurd (e.symm.trans hroot.symm) hne
    · exact key (NodeRef.eq_of (by omega) hroot)

/-! ## (B) facts about `leads` -/

theorem mem_childrenOf {ns : List Node} {p c : Nat} : c ∈ childrenOf ns p ↔ fpar ns c = some p := by
  unfold childrenOf
  simp only [List.mem_filter, List.mem_range, decide_eq_true_eq]
  exact ⟨fun h => h.2, fun h => ⟨fpar_lt_length ns c p h, h⟩⟩

theorem any_congr_mem {l : List Nat} {f g : Nat → Bool} (h : ∀ c, c ∈ l → f c = g c) : l.any f = l.any g := by
  induction l with
  | nil => rfl
  | cons a l ih =>
    simp only [List.any_cons]
    rw [h a (List.mem_cons_self ..), ih (fun c hc => h c (List.mem_cons_of_mem _ hc))]

/-- with parents at smaller indices, one more unit of fuel changes nothing once `length ≤ i + fuel + 1` -/
theorem leadsF_stable (pr : PA) (hlt : ∀ j p, fpar pr.nodes j = some p → p < j) :
    ∀ f i, pr.nodes.length ≤ i + f + 1 → leadsF pr (f + 1) i = leadsF pr f i := by
  intro f
  induction f with
  | zero =>
    intro i hi
    simp only [leadsF]
    have : childrenOf pr.nodes i = [] := by
      apply List.eq_nil_iff_forall_not_mem.2
      intro c hc
      have h1 := mem_childrenOf.1 hc
      have := hlt c i h1
      have := fpar_lt_length _ _ _ h1
      omega
    rw [this]; simp
  | succ f ih =>
    intro i hi
    rw [leadsF, leadsF]
    congr 1
    apply any_congr_mem
    intro c hc
    have := hlt c i (mem_childrenOf.1 hc)
    exact ih c (by omega)

/-- the unfolding equation of `leads` -/
theorem leads_unfold (pr : PA) (hlt : ∀ j p, fpar pr.nodes j = some p → p < j) (i : Nat) :
    leads pr i = (viableAt pr i || (childrenOf pr.nodes i).any (leads pr)) := by
  unfold leads
  cases hL : pr.nodes.length with
  | zero =>
    simp only [leadsF]
    have : childrenOf pr.nodes i = [] := by
      unfold childrenOf; rw [hL]; rfl
    rw [this]; simp
  | succ L =>
    rw [leadsF]
    congr 1
    apply any_congr_mem
    intro c _
    exact (leadsF_stable pr hlt L c (by omega)).symm

theorem leads_iff (pr : PA) (hlt : ∀ j p, fpar pr.nodes j = some p → p < j) (i : Nat) :
    leads pr i = true ↔ viableAt pr i = true ∨ ∃ c, fpar pr.nodes c = some i ∧ leads pr c = true := by
  rw [leads_unfold pr hlt i]
  simp only [Bool.or_eq_true, List.any_eq_true, mem_childrenOf]

theorem leads_of_viable (pr : PA) (hlt : ∀ j p, fpar pr.nodes j = some p → p < j) (i : Nat)
    (h : viableAt pr i = true) : leads pr i = true :=
  (leads_iff pr hlt i).2 (Or.inl h)

theorem leads_of_child (pr : PA) (hlt : ∀ j p, fpar pr.nodes j = some p → p < j) (i c : Nat)
    (hc : fpar pr.nodes c = some i) (h : leads pr c = true) : leads pr i = true :=
  (leads_iff pr hlt i).2 (Or.inr ⟨c, hc, h⟩)

/-- a node with a leading descendant leads -/
theorem leads_of_reach (pr : PA) (hlt : ∀ j p, fpar pr.nodes j = some p → p < j) {i d : Nat}
    (hr : PReach (fpar pr.nodes) i d) (h : leads pr d = true) : leads pr i = true := by
  induction hr with
  | refl => exact h
  | @step j p hp _ ih => exact ih (leads_of_child pr hlt p j hp h)

/-- a node with a viable descendant leads -/
theorem leads_of_anc (pr : PA) (hlt : ∀ j p, fpar pr.nodes j = some p → p < j) (i d : Nat)
    (ha : anc pr.nodes i d = true) (hv : viableAt pr d = true) : leads pr i = true :=
  leads_of_reach pr hlt ((anc_iff_reach pr.nodes hlt i d).1 ha) (leads_of_viable pr hlt d hv)

/-! ### `leads`, `viableAt`, `beats` depend on skeletons, epochs and weights only -/

theorem viable_skel (pr pr' : PA) (hj : pr'.jEpoch = pr.jEpoch) (hf : pr'.fEpoch = pr.fEpoch) {n m : Node}
    (e : m.skel = n.skel) : pr'.viable m = pr.viable n := by
  simp only [Node.skel, Prod.mk.injEq] at e
  obtain ⟨_, _, _, _, e5, e6⟩ := e
  unfold PA.viable
  rw [hj, hf, e5, e6]

theorem map_viable_frame {pr pr' : PA} (fr : Frame pr pr') (i : Nat) :
    (pr'.nodes[i]?).map pr'.viable = (pr.nodes[i]?).map pr.viable := by
  have := fr.skel i
  cases h1 : pr'.nodes[i]? <;> cases h2 : pr.nodes[i]? <;> simp only [h1, h2, Option.map_some, Option.map_none] at this ⊢
  · cases this
  · cases this
  · rw [viable_skel pr pr' fr.jE fr.fE (Option.some.inj this)]

theorem viableAt_frame {pr pr' : PA} (fr : Frame pr pr') (i : Nat) : viableAt pr' i = viableAt pr i := by
  have := map_viable_frame fr i
  unfold viableAt
  cases h1 : pr'.nodes[i]? <;> cases h2 : pr.nodes[i]? <;> simp only [h1, h2, Option.map_some, Option.map_none] at this ⊢
  · cases this
  · cases this
  · exact Option.some.inj this

theorem childrenOf_frame {pr pr' : PA} (fr : FrameS pr pr') (p : Nat) :
    childrenOf pr'.nodes p = childrenOf pr.nodes p := by
  unfold childrenOf
  rw [fr.len]
  apply List.filter_congr
  intro c _
  rw [fr.fpar]

theorem leadsF_frame {pr pr' : PA} (fr : Frame pr pr') : ∀ f i, leadsF pr' f i = leadsF pr f i := by
  intro f
  induction f with
  | zero => intro i; exact viableAt_frame fr i
  | succ f ih =>
    intro i
    rw [leadsF, leadsF, viableAt_frame fr i, childrenOf_frame fr.toFrameS i]
    congr 1
    exact any_congr_mem (fun c _ => ih c)

/-- `leads` is the same on a `Frame`-related array (same skeletons, epochs, weights; other links) -/
theorem leads_frame {pr pr' : PA} (fr : Frame pr pr') (i : Nat) : leads pr' i = leads pr i := by
  unfold leads; rw [fr.len]; exact leadsF_frame fr _ i


/-! ## `beats` -/

theorem beats_nodes {ns : List Node} {b a : Nat} {nb na : Node} (hb : ns[b]? = some nb) (ha : ns[a]? = some na) :
    beats ns b a ↔ (nb.weight > na.weight ∨ (nb.weight = na.weight ∧ nb.ref.root > na.ref.root)) := by
  unfold beats; rw [hb, ha]

theorem beats_left {ns : List Node} {b a : Nat} (h : beats ns b a) : ∃ nb, ns[b]? = some nb := by
  unfold beats at h
  cases hb : ns[b]? with
  | none => rw [hb] at h; exact h.elim
  | some nb => exact ⟨nb, rfl⟩

theorem beats_right {ns : List Node} {b a : Nat} (h : beats ns b a) : ∃ na, ns[a]? = some na := by
  obtain ⟨nb, hb⟩ := beats_left h
  unfold beats at h
  cases ha : ns[a]? with
  | none => rw [hb, ha] at h; exact h.elim
  | some na => exact ⟨na, rfl⟩

theorem beats_trans {ns : List Node} {a b c : Nat} (h1 : beats ns a b) (h2 : beats ns b c) : beats ns a c := by
  obtain ⟨na, ha⟩ := beats_left h1
  obtain ⟨nb, hb⟩ := beats_right h1
  obtain ⟨nc, hc⟩ := beats_right h2
  rw [beats_nodes ha hb] at h1
  rw [beats_nodes hb hc] at h2
  rw [beats_nodes ha hc]
  rcases h1 with h1 | ⟨h1, h1'⟩ <;> rcases h2 with h2 | ⟨h2, h2'⟩
  · exact Or.inl (by omega)
  · exact Or.inl (by omega)
  · exact Or.inl (by omega)
  · exact Or.inr ⟨by omega, Nat.lt_trans h2' h1'⟩

theorem beats_wr (ns : List Node) (b a : Nat) :
    beats ns b a ↔
      (match (ns[b]?).map (fun n => (n.weight, n.ref.root)), (ns[a]?).map (fun n => (n.weight, n.ref.root)) with
       | some x, some y => x.1 > y.1 ∨ (x.1 = y.1 ∧ x.2 > y.2)
       | _, _ => False) := by
  unfold beats
  cases ns[b]? <;> cases ns[a]? <;> exact Iff.rfl

theorem beats_frame {pr pr' : PA} (fr : Frame pr pr') (b a : Nat) : beats pr'.nodes b a ↔ beats pr.nodes b a := by
  have key : ∀ i : Nat, (pr'.nodes[i]?).map (fun n => (n.weight, n.ref.root)) =
      (pr.nodes[i]?).map (fun n => (n.weight, n.ref.root)) := by
    intro i
    have h1 := fr.weight i
    have h2 := fr.skel i
    cases e1 : pr'.nodes[i]? <;> cases e2 : pr.nodes[i]? <;>
      simp only [e1, e2, Option.map_some, Option.map_none, Option.some.injEq, Node.skel, Prod.mk.injEq] at h1 h2 ⊢
    · cases h1
    · cases h1
    · exact ⟨h1, by rw [h2.1]⟩
  rw [beats_wr, beats_wr, key b, key a]

theorem sibDistinct_frame {pr pr' : PA} (fr : FrameS pr pr') (hs : SibDistinct pr) : SibDistinct pr' := by
  intro c c' p n n' hcp hcp' hn hn' hroot
  rw [fr.fpar] at hcp hcp'
  have h1 := fr.skel c
  have h2 := fr.skel c'
  rw [hn] at h1; rw [hn'] at h2
  obtain ⟨m, hm, e⟩ := map_skel_some h1.symm
  obtain ⟨m', hm', e'⟩ := map_skel_some h2.symm
  simp only [Node.skel, Prod.mk.injEq] at e e'
  exact hs c c' p m m' hcp hcp' hm hm' (by rw [e.1, e'.1]; exact hroot)

/-! ## (C) the invariant of the connection pass

`pr` is the array before the pass: `leads pr`, `beats pr.nodes`, `fpar pr.nodes` do not change during the pass
(`Frame`). `q` is the array after the indices `≥ k` have been processed. -/

/-- the incumbent of a parent, if it was installed or refreshed during the pass (index `≥ k`), leads, and the
parent's best descendant is the incumbent's (final) best descendant, or the incumbent itself -/
def FreshOK (pr q : PA) (k : Nat) (n : Node) : Prop :=
  ∀ b : Nat, n.bestChild = some b → k ≤ b →
    leads pr b = true ∧ n.bestDesc = some (((q.nodes[b]?).bind (·.bestDesc)).getD b)

/-- the processed leading child `c` of `p` is accounted for: the fresh incumbent is `c` or beats it, or a
leading child of `p` that is still to be processed beats it -/
def GoodC (pr : PA) (k p : Nat) (n : Node) (c : Nat) : Prop :=
  (∃ b : Nat, n.bestChild = some b ∧ k ≤ b ∧ (c = b ∨ beats pr.nodes b c)) ∨
  (∃ b' : Nat, b' < k ∧ fpar pr.nodes b' = some p ∧ leads pr b' = true ∧ beats pr.nodes b' c)

/-- the invariant for the parent `p` with node `n` -/
def ParInv (pr q : PA) (k p : Nat) (n : Node) : Prop :=
  FreshOK pr q k n ∧
  ∀ c : Nat, fpar pr.nodes c = some p → k ≤ c → leads pr c = true → GoodC pr k p n c

theorem goodC_of_incumbent {pr : PA} {k p : Nat} {n : Node} {c b : Nat} (hb : n.bestChild = some b)
    (hbp : fpar pr.nodes b = some p) (hl : leads pr b = true) (hbeat : beats pr.nodes b c) : GoodC pr k p n c := by
  by_cases hkb : k ≤ b
  · exact Or.inl ⟨b, hb, hkb, Or.inr hbeat⟩
  · exact Or.inr ⟨b, by omega, hbp, hl, hbeat⟩

/-- the parent keeps its links (also: node `k` is not a child of `p`) -/
theorem parInv_keep {pr q : PA} {k p : Nat} {n : Node} (hI : ParInv pr q (k + 1) p n)
    (hne : n.bestChild ≠ some k)
    (hk : fpar pr.nodes k = some p → leads pr k = true →
      ∃ b : Nat, n.bestChild = some b ∧ fpar pr.nodes b = some p ∧ leads pr b = true ∧ beats pr.nodes b k) :
    ParInv pr q k p n := by
  obtain ⟨hF, hG⟩ := hI
  refine ⟨?_, ?_⟩
  · intro b hb hkb
    have : b ≠ k := fun e => hne (e ▸ hb)
    exact hF b hb (by omega)
  · intro c hcp hkc hlc
    by_cases hck : c = k
    · subst hck
      obtain ⟨b, hb, hbp, hlb, hbeat⟩ := hk hcp hlc
      exact goodC_of_incumbent hb hbp hlb hbeat
    · rcases hG c hcp (by omega) hlc with ⟨b, hb, hkb, hor⟩ | ⟨b', hb'k, hb'p, hlb', hbeat⟩
      · exact Or.inl ⟨b, hb, by omega, hor⟩
      · by_cases hb'eq : b' = k
        · subst hb'eq
          obtain ⟨b, hb, hbp, hlb, hbeat2⟩ := hk hb'p hlb'
          exact goodC_of_incumbent hb hbp hlb (beats_trans hbeat2 hbeat)
        · exact Or.inr ⟨b', by omega, hb'p, hlb', hbeat⟩

/-- the parent's links are set to the child `k` -/
theorem parInv_toChild {pr q : PA} {k p : Nat} {parent child : Node} (hI : ParInv pr q (k + 1) p parent)
    (hchild : q.nodes[k]? = some child) (hl : leads pr k = true)
    (hbeat : ∀ b : Nat, parent.bestChild = some b → k + 1 ≤ b → beats pr.nodes k b) :
    ParInv pr q k p { parent with bestChild := some k, bestDesc := some (child.bestDesc.getD k) } := by
  obtain ⟨hF, hG⟩ := hI
  refine ⟨?_, ?_⟩
  · intro b hb hkb
    simp only [Option.some.injEq] at hb
    subst hb
    exact ⟨hl, by simp [hchild]⟩
  · intro c hcp hkc hlc
    by_cases hck : c = k
    · exact Or.inl ⟨k, rfl, Nat.le_refl _, Or.inl hck⟩
    · rcases hG c hcp (by omega) hlc with ⟨b, hb, hkb, hor⟩ | ⟨b', hb'k, hb'p, hlb', hbeat'⟩
      · have h1 := hbeat b hb hkb
        refine Or.inl ⟨k, rfl, Nat.le_refl _, Or.inr ?_⟩
        rcases hor with e | e
        · rw [e]; exact h1
        · exact beats_trans h1 e
      · by_cases hb'eq : b' = k
        · subst hb'eq
          exact Or.inl ⟨b', rfl, Nat.le_refl _, Or.inr hbeat'⟩
        · exact Or.inr ⟨b', by omega, hb'p, hlb', hbeat'⟩

/-- the parent's links are cleared -/
theorem parInv_toNone {pr q : PA} {k p : Nat} {parent : Node} (hI : ParInv pr q (k + 1) p parent)
    (hl : leads pr k = false) (hst : ∀ b : Nat, parent.bestChild = some b → b ≤ k) :
    ParInv pr q k p { parent with bestChild := none, bestDesc := none } := by
  obtain ⟨hF, hG⟩ := hI
  refine ⟨?_, ?_⟩
  · intro b hb _
    cases hb
  · intro c hcp hkc hlc
    by_cases hck : c = k
    · subst hck; rw [hl] at hlc; cases hlc
    · rcases hG c hcp (by omega) hlc with ⟨b, hb, hkb, hor⟩ | ⟨b', hb'k, hb'p, hlb', hbeat'⟩
      · have := hst b hb; omega
      · by_cases hb'eq : b' = k
        · subst hb'eq; rw [hl] at hlb'; cases hlb'
        · exact Or.inr ⟨b', by omega, hb'p, hlb', hbeat'⟩

/-- The invariant after the indices `≥ k` have been processed: these nodes judge themselves correctly
(`nodeLeads` = `leads`), and every parent satisfies `ParInv`. -/
structure J (pr q : PA) (k : Nat) : Prop where
  nl : ∀ (i : Nat) (n : Node), k ≤ i → q.nodes[i]? = some n → q.nodeLeads n = some (leads pr i)
  par : ∀ (p : Nat) (n : Node), q.nodes[p]? = some n → ParInv pr q k p n

/-- before the pass the invariant holds trivially -/
theorem j_top {pr q : PA} (hq : WF q) (fr : Frame pr q) : J pr q q.nodes.length := by
  refine ⟨?_, ?_⟩
  · intro i n hi hn
    have := (List.getElem?_eq_some_iff.mp hn).1
    omega
  · intro p n hn
    refine ⟨?_, ?_⟩
    · intro b hb hkb
      have := fpar_lt_length _ _ _ (hq.bc_child p n b hn hb)
      omega
    · intro c hcp hkc _
      have := fpar_lt_length _ _ _ hcp
      have := fr.len
      omega

theorem nodeLeads_frame {q q' : PA} (hq : WF q) (hq' : WF q') (fr : Frame q q') (n : Node) :
    q'.nodeLeads n = q.nodeLeads n := by
  unfold PA.nodeLeads
  cases n.bestDesc with
  | none => simp only []; rw [viable_skel q q' fr.jE fr.fE rfl]
  | some d => simp only [getNode_eq hq, getNode_eq hq']; exact map_viable_frame fr d

/-- a node that judges itself as leading (even on stale links) does lead: its best descendant is a descendant -/
theorem leads_of_nodeLeads {pr q : PA} (hp : WF pr) (hq : WF q) (fr : Frame pr q) {b : Nat} {n : Node}
    (hn : q.nodes[b]? = some n) (h : q.nodeLeads n = some true) : leads pr b = true := by
  unfold PA.nodeLeads at h
  cases hd : n.bestDesc with
  | none =>
    rw [hd] at h
    simp only [Option.some.injEq] at h
    apply leads_of_viable pr hp.fpar_lt'
    rw [← viableAt_frame fr]; unfold viableAt; rw [hn]; exact h
  | some d =>
    rw [hd] at h
    simp only [getNode_eq hq] at h
    have ha := (hq.bd_desc b n d hn hd).2.2
    rw [fr.anc] at ha
    apply leads_of_anc pr hp.fpar_lt' b d ha
    rw [← viableAt_frame fr]; unfold viableAt
    cases hnd : q.nodes[d]? with
    | none => rw [hnd] at h; cases h
    | some nd => rw [hnd] at h; simpa using h

/-- node `k`'s own links are final once the indices `> k` have been processed, so it judges itself correctly -/
theorem nl_at {pr q : PA} (hp : WF pr) (hq : WF q) (fr : Frame pr q) {k : Nat} (hJ : J pr q (k + 1)) {n : Node}
    (hn : q.nodes[k]? = some n) : q.nodeLeads n = some (leads pr k) := by
  obtain ⟨hF, hG⟩ := hJ.par k n hn
  cases hbc : n.bestChild with
  | none =>
    have hbd : n.bestDesc = none := by
      have := hq.bc_bd k n hn
      rw [hbc] at this
      cases hd : n.bestDesc with
      | none => rfl
      | some d => rw [hd] at this; simp at this
    unfold PA.nodeLeads; rw [hbd]
    simp only [Option.some.injEq]
    have hv : viableAt pr k = q.viable n := by rw [← viableAt_frame fr]; unfold viableAt; rw [hn]
    rw [Bool.eq_iff_iff, leads_iff pr hp.fpar_lt' k, hv]
    constructor
    · exact Or.inl
    · rintro (h | ⟨c, hc, hl⟩)
      · exact h
      · have hkc := hp.fpar_lt' c k hc
        rcases hG c hc (by omega) hl with ⟨b, hb, _⟩ | ⟨b', hb', hb'p, _⟩
        · rw [hbc] at hb; cases hb
        · have := hp.fpar_lt' b' k hb'p; omega
  | some b =>
    have hbk : fpar q.nodes b = some k := hq.bc_child k n b hn hbc
    have hbk' : fpar pr.nodes b = some k := by rw [← fr.fpar]; exact hbk
    have hlt := hp.fpar_lt' b k hbk'
    obtain ⟨hlb, hbd⟩ := hF b hbc (by omega)
    obtain ⟨nb, hnb, _⟩ := fpar_node hbk
    have h1 := hJ.nl b nb (by omega) hnb
    rw [hlb] at h1
    rw [leads_of_child pr hp.fpar_lt' k b hbk' hlb, ← h1]
    rw [hnb] at hbd
    simp only [Option.bind_some] at hbd
    unfold PA.nodeLeads
    rw [hbd]
    cases hd : nb.bestDesc with
    | none => simp [getNode_eq hq, hnb]
    | some d => simp

theorem parInv_transfer {pr q q' : PA} {k p : Nat} {n : Node} (hag : ∀ i : Nat, k ≤ i → q'.nodes[i]? = q.nodes[i]?)
    (h : ParInv pr q k p n) : ParInv pr q' k p n := by
  refine ⟨?_, h.2⟩
  intro b hb hkb
  rw [hag b hkb]
  exact h.1 b hb hkb

/-- a parent other than that of node `k` -/
theorem parInv_other {pr q : PA} (hq : WF q) (fr : Frame pr q) {k p : Nat} {n : Node} (hn : q.nodes[p]? = some n)
    (hI : ParInv pr q (k + 1) p n) (hk : fpar pr.nodes k ≠ some p) : ParInv pr q k p n := by
  apply parInv_keep hI
  · intro e
    have := hq.bc_child p n k hn e
    rw [fr.fpar] at this
    exact hk this
  · intro e; exact absurd e hk

/-- one index of the pass, given what happened to the parent of node `k` -/
theorem j_step {pr q q' : PA} (hp : WF pr) (hq : WF q) (hq' : WF q') (fr : Frame pr q) (fr' : Frame q q')
    {k p : Nat} (hJ : J pr q (k + 1))
    (hk : ∀ p' : Nat, fpar pr.nodes k = some p' → p' = p)
    (hag : ∀ i : Nat, i ≠ p → q'.nodes[i]? = q.nodes[i]?)
    (hagk : ∀ i : Nat, k ≤ i → q'.nodes[i]? = q.nodes[i]?)
    (hP : ∀ n' : Node, q'.nodes[p]? = some n' → ParInv pr q k p n') : J pr q' k := by
  refine ⟨?_, ?_⟩
  · intro i n hki hn
    rw [hagk i hki] at hn
    rw [nodeLeads_frame hq hq' fr' n]
    by_cases hik : i = k
    · subst hik; exact nl_at hp hq fr hJ hn
    · exact hJ.nl i n (by omega) hn
  · intro p' n hn
    apply parInv_transfer hagk
    by_cases hpp : p' = p
    · subst hpp; exact hP n hn
    · rw [hag p' hpp] at hn
      exact parInv_other hq fr hn (hJ.par p' n hn) (fun e => hpp (hk p' e))

/-- node `k` has no fork-choice parent -/
theorem j_skip {pr q : PA} (hp : WF pr) (hq : WF q) (fr : Frame pr q) {k : Nat} (hJ : J pr q (k + 1))
    (hk : fpar pr.nodes k = none) : J pr q k :=
  j_step hp hq hq fr (Frame.refl q) (p := k) hJ (fun p' e => by rw [hk] at e; cases e) (fun _ _ => rfl)
    (fun _ _ => rfl) (fun n' hn' => parInv_other hq fr hn' (hJ.par k n' hn') (by rw [hk]; simp))

/-- the parent of node `k` keeps its links -/
theorem j_keep {pr q : PA} (hp : WF pr) (hq : WF q) (fr : Frame pr q) {k p : Nat} {parent : Node}
    (hJ : J pr q (k + 1)) (hk : fpar pr.nodes k = some p) (hparent : q.nodes[p]? = some parent)
    (hP : ParInv pr q k p parent) : J pr q k :=
  j_step hp hq hq fr (Frame.refl q) hJ (fun p' e => by rw [hk] at e; exact (Option.some.inj e).symm)
    (fun _ _ => rfl) (fun _ _ => rfl) (fun n' hn' => by rw [hparent] at hn'; cases hn'; exact hP)

/-- the parent of node `k` gets new links -/
theorem j_set {pr q : PA} (hp : WF pr) (hq : WF q) (fr : Frame pr q) {k p : Nat} {parent : Node}
    (bc bd : Option Idx) (hJ : J pr q (k + 1)) (hk : fpar pr.nodes k = some p)
    (hparent : q.nodes[p]? = some parent)
    (hq' : WF (q.setNode p { parent with bestChild := bc, bestDesc := bd }))
    (hP : ParInv pr q k p { parent with bestChild := bc, bestDesc := bd }) :
    J pr (q.setNode p { parent with bestChild := bc, bestDesc := bd }) k := by
  have hpk := hp.fpar_lt' k p hk
  have hpl : p < q.nodes.length := (List.getElem?_eq_some_iff.mp hparent).1
  apply j_step hp hq hq' fr (frame_setLinks hq p parent hparent bc bd) hJ
    (fun p' e => by rw [hk] at e; exact (Option.some.inj e).symm)
  · intro i hi; rw [setNode_nodes hq, List.getElem?_set_ne (Ne.symm hi)]
  · intro i hi; rw [setNode_nodes hq, List.getElem?_set_ne (by omega)]
  · intro n' hn'
    rw [setNode_nodes hq, List.getElem?_set_self hpl] at hn'
    cases hn'; exact hP

/-! ### evaluating `maybeUpdate` -/

theorem mu_none {q : PA} (hq : WF q) {p k : Nat} {child parent : Node} {cl : Bool}
    (hchild : q.nodes[k]? = some child) (hparent : q.nodes[p]? = some parent)
    (hcl : q.nodeLeads child = some cl) (hbc : parent.bestChild = none) :
    q.maybeUpdate p k = some (if cl then q.setNode p
      { parent with bestChild := some k, bestDesc := some (child.bestDesc.getD k) } else q) := by
  unfold PA.maybeUpdate
  simp only [getNode_eq hq, hchild, hparent, hcl, hbc]
  cases cl <;> rfl

theorem mu_self {q : PA} (hq : WF q) {p k : Nat} {child parent : Node} {cl : Bool}
    (hchild : q.nodes[k]? = some child) (hparent : q.nodes[p]? = some parent)
    (hcl : q.nodeLeads child = some cl) (hbc : parent.bestChild = some k) :
    q.maybeUpdate p k = some (if cl then q.setNode p
      { parent with bestChild := some k, bestDesc := some (child.bestDesc.getD k) }
      else q.setNode p { parent with bestChild := none, bestDesc := none }) := by
  unfold PA.maybeUpdate
  simp only [getNode_eq hq, hchild, hparent, hcl, hbc, if_true]
  cases cl <;> rfl

theorem mu_other {q : PA} (hq : WF q) {p k bc : Nat} {child parent best : Node} {cl bl : Bool}
    (hchild : q.nodes[k]? = some child) (hparent : q.nodes[p]? = some parent)
    (hcl : q.nodeLeads child = some cl) (hbc : parent.bestChild = some bc) (hne : bc ≠ k)
    (hbest : q.nodes[bc]? = some best) (hbl : q.nodeLeads best = some bl) :
    q.maybeUpdate p k = some (
      if cl && !bl then q.setNode p { parent with bestChild := some k, bestDesc := some (child.bestDesc.getD k) }
      else if !cl && bl then q
      else if !cl && !bl then q.setNode p { parent with bestChild := none, bestDesc := none }
      else if child.weight = best.weight then
        (if child.ref.root > best.ref.root then
          q.setNode p { parent with bestChild := some k, bestDesc := some (child.bestDesc.getD k) } else q)
      else
        (if child.weight ≥ best.weight then
          q.setNode p { parent with bestChild := some k, bestDesc := some (child.bestDesc.getD k) } else q)) := by
  unfold PA.maybeUpdate
  simp only [getNode_eq hq, hchild, hparent, hcl, hbc, hne, if_false, hbest, hbl]
  repeat' split
  all_goals rfl

/-! ### one call of `maybeUpdate` inside the pass -/

theorem j_maybeUpdate {pr q : PA} (hp : WF pr) (hs : SibDistinct pr) (hq : WF q) (fr : Frame pr q) {k p : Nat}
    (hJ : J pr q (k + 1)) (hk : fpar pr.nodes k = some p) :
    ∃ q', q.maybeUpdate p k = some q' ∧ WF q' ∧ Frame pr q' ∧ J pr q' k := by
  have hkq : fpar q.nodes k = some p := by rw [fr.fpar]; exact hk
  obtain ⟨q', hm, hw', hf'⟩ := wf_maybeUpdate q hq p k hkq
  refine ⟨q', hm, hw', fr.trans hf', ?_⟩
  obtain ⟨child, hchild, _⟩ := fpar_node hkq
  have hpk := hp.fpar_lt' k p hk
  have hkl := (List.getElem?_eq_some_iff.mp hchild).1
  obtain ⟨parent, hparent⟩ : ∃ n, q.nodes[p]? = some n := ⟨_, List.getElem?_eq_getElem (by omega)⟩
  have hcl := nl_at hp hq fr hJ hchild
  have hI := hJ.par p parent hparent
  have toChild : leads pr k = true →
      (∀ b : Nat, parent.bestChild = some b → k + 1 ≤ b → beats pr.nodes k b) →
      q' = q.setNode p { parent with bestChild := some k, bestDesc := some (child.bestDesc.getD k) } →
      J pr q' k := by
    intro hl hb e
    subst e
    exact j_set hp hq fr _ _ hJ hk hparent hw' (parInv_toChild hI hchild hl hb)
  have toNone : leads pr k = false → (∀ b : Nat, parent.bestChild = some b → b ≤ k) →
      q' = q.setNode p { parent with bestChild := none, bestDesc := none } → J pr q' k := by
    intro hl hb e
    subst e
    exact j_set hp hq fr _ _ hJ hk hparent hw' (parInv_toNone hI hl hb)
  have keep : parent.bestChild ≠ some k →
      (leads pr k = true → ∃ b : Nat, parent.bestChild = some b ∧ fpar pr.nodes b = some p ∧
        leads pr b = true ∧ beats pr.nodes b k) →
      q' = q → J pr q' k := by
    intro hne hb e
    subst e
    exact j_keep hp hq fr hJ hk hparent (parInv_keep hI hne (fun _ => hb))
  cases hbc : parent.bestChild with
  | none =>
    have hr := mu_none hq hchild hparent hcl hbc
    rw [hm] at hr
    cases hl : leads pr k with
    | false =>
      rw [hl] at hr
      exact keep (by rw [hbc]; simp) (by intro h; rw [hl] at h; cases h) (Option.some.inj hr)
    | true =>
      rw [hl] at hr
      exact toChild hl (by intro b hb; rw [hbc] at hb; cases hb) (Option.some.inj hr)
  | some bc =>
    by_cases hbk : bc = k
    · subst hbk
      have hr := mu_self hq hchild hparent hcl hbc
      rw [hm] at hr
      cases hl : leads pr bc with
      | false =>
        rw [hl] at hr
        exact toNone hl (by intro b hb; rw [hbc] at hb; cases hb; exact Nat.le_refl _) (Option.some.inj hr)
      | true =>
        rw [hl] at hr
        exact toChild hl (by intro b hb hlt; rw [hbc] at hb; cases hb; omega) (Option.some.inj hr)
    · have hbp : fpar q.nodes bc = some p := hq.bc_child p parent bc hparent hbc
      have hbp' : fpar pr.nodes bc = some p := by rw [← fr.fpar]; exact hbp
      obtain ⟨best, hbest, _⟩ := fpar_node hbp
      obtain ⟨bl, hbl⟩ := nodeLeads_some hq bc best hbest
      have hr := mu_other hq hchild hparent hcl hbc hbk hbest hbl
      rw [hm] at hr
      have hr := Option.some.inj hr
      -- a fresh incumbent leads; an incumbent that says it leads does lead
      have F1 : k + 1 ≤ bc → bl = true := by
        intro hlt
        have h1 := hJ.nl bc best hlt hbest
        rw [(hI.1 bc hbc hlt).1, hbl] at h1
        exact Option.some.inj h1
      have F2 : bl = true → leads pr bc = true := by
        intro e; rw [e] at hbl
        exact leads_of_nodeLeads hp hq fr hbest hbl
      have hsq : SibDistinct q := sibDistinct_frame fr.toFrameS hs
      have hroot : child.ref.root ≠ best.ref.root := by
        intro e
        exact hbk (hsq k bc p child best hkq hbp hchild hbest e).symm
      have hbeat1 : beats pr.nodes k bc ↔
          (child.weight > best.weight ∨ (child.weight = best.weight ∧ child.ref.root > best.ref.root)) := by
        rw [← beats_frame fr, beats_nodes hchild hbest]
      have hbeat2 : beats pr.nodes bc k ↔
          (best.weight > child.weight ∨ (best.weight = child.weight ∧ best.ref.root > child.ref.root)) := by
        rw [← beats_frame fr, beats_nodes hbest hchild]
      have hone : ∀ b : Nat, parent.bestChild = some b → b = bc := by
        intro b hb; rw [hbc] at hb; exact (Option.some.inj hb).symm
      cases hl : leads pr k with
      | false =>
        cases hbl' : bl with
        | false =>
          rw [hl, hbl'] at hr
          refine toNone hl ?_ hr
          intro b hb
          rw [hone b hb]
          apply Nat.le_of_not_lt
          intro hlt
          have := F1 hlt
          rw [hbl'] at this; cases this
        | true =>
          rw [hl, hbl'] at hr
          exact keep (by rw [hbc]; intro e; exact hbk (Option.some.inj e))
            (by intro h; rw [hl] at h; cases h) hr
      | true =>
        cases hbl' : bl with
        | false =>
          rw [hl, hbl'] at hr
          refine toChild hl ?_ hr
          intro b hb hlt
          rw [hone b hb] at hlt
          have := F1 hlt
          rw [hbl'] at this; cases this
        | true =>
          rw [hl, hbl'] at hr
          simp only [Bool.not_true, Bool.and_false, Bool.and_true, Bool.false_eq_true, if_false] at hr
          have hlb := F2 hbl'
          have keep' : beats pr.nodes bc k → q' = q → J pr q' k := fun hb e =>
            keep (by rw [hbc]; intro e; exact hbk (Option.some.inj e)) (fun _ => ⟨bc, hbc, hbp', hlb, hb⟩) e
          have toChild' : beats pr.nodes k bc → q' = q.setNode p
              { parent with bestChild := some k, bestDesc := some (child.bestDesc.getD k) } → J pr q' k :=
            fun hb e => toChild hl (fun b hb' _ => by rw [hone b hb']; exact hb) e
          by_cases hw : child.weight = best.weight
          · rw [if_pos hw] at hr
            by_cases hrt : child.ref.root > best.ref.root
            · rw [if_pos hrt] at hr
              exact toChild' (hbeat1.2 (Or.inr ⟨hw, hrt⟩)) hr
            · rw [if_neg hrt] at hr
              refine keep' (hbeat2.2 (Or.inr ⟨hw.symm, ?_⟩)) hr
              exact Nat.lt_of_le_of_ne (Nat.le_of_not_lt hrt) hroot
          · rw [if_neg hw] at hr
            by_cases hge : child.weight ≥ best.weight
            · rw [if_pos hge] at hr
              exact toChild' (hbeat1.2 (Or.inl (by omega))) hr
            · rw [if_neg hge] at hr
              exact keep' (hbeat2.2 (Or.inl (by omega))) hr

/-! ### the whole pass -/

theorem j_pass2 {pr : PA} (hp : WF pr) (hs : SibDistinct pr) :
    ∀ (k : Nat) (q : PA), WF q → Frame pr q → k ≤ q.nodes.length → J pr q k →
      ∃ q', q.pass2 k = (q', true) ∧ WF q' ∧ Frame pr q' ∧ J pr q' 0 := by
  intro k
  induction k with
  | zero => intro q hq fr _ hJ; exact ⟨q, rfl, hq, fr, hJ⟩
  | succ i ih =>
    intro q hq fr hk hJ
    have hil : i < q.nodes.length := by omega
    rw [PA.pass2, List.getElem?_eq_getElem hil]
    simp only []
    cases hf : (q.nodes[i]).fparent with
    | none =>
      have : fpar pr.nodes i = none := by
        rw [← fr.fpar]; simp [fpar, List.getElem?_eq_getElem hil, hf]
      exact ih q hq fr (by omega) (j_skip hp hq fr hJ this)
    | some p =>
      simp only [hq.off, Nat.zero_add]
      have hc : fpar pr.nodes i = some p := by
        rw [← fr.fpar]; simp [fpar, List.getElem?_eq_getElem hil, hf]
      obtain ⟨q1, hm, hw1, hf1, hJ1⟩ := j_maybeUpdate hp hs hq fr hJ hc
      simp only [hm]
      exact ih q1 hw1 hf1 (by rw [hf1.len, ← fr.len]; omega) hJ1

/-- at the end of the pass the invariant is the claim -/
theorem linksOK_of_J {pr q : PA} (hq : WF q) (fr : Frame pr q) (hJ : J pr q 0) :
    LinksOK q ∧ ∀ (i : Nat) (n : Node), q.nodes[i]? = some n → q.nodeLeads n = some (leads q i) := by
  refine ⟨?_, ?_⟩
  · intro p n hn
    obtain ⟨hF, hG⟩ := hJ.par p n hn
    refine ⟨?_, ?_⟩
    · intro hbc c hcp
      rw [fr.fpar] at hcp
      rw [leads_frame fr]
      cases hl : leads pr c with
      | false => rfl
      | true =>
        rcases hG c hcp (Nat.zero_le _) hl with ⟨b, hb, _⟩ | ⟨b', hb', _⟩
        · rw [hbc] at hb; cases hb
        · omega
    · intro b hb
      obtain ⟨hlb, hbd⟩ := hF b hb (Nat.zero_le _)
      refine ⟨hq.bc_child p n b hn hb, by rw [leads_frame fr]; exact hlb, ?_, hbd⟩
      intro c hcp hlc
      rw [fr.fpar] at hcp; rw [leads_frame fr] at hlc
      rcases hG c hcp (Nat.zero_le _) hlc with ⟨b2, hb2, _, hor⟩ | ⟨b', hb', _⟩
      · rw [hb] at hb2; cases hb2
        rcases hor with e | e
        · exact Or.inl e
        · exact Or.inr ((beats_frame fr b c).2 e)
      · omega
  · intro i n hn
    rw [leads_frame fr]; exact hJ.nl i n (Nat.zero_le _) hn

/-- (C), for the loop: after `pass2` over all indices every link is the GHOST choice and every node judges
itself correctly. -/
theorem linksOK_pass2 (pr : PA) (h : WF pr) (hs : SibDistinct pr) :
    ∃ q, pr.pass2 pr.nodes.length = (q, true) ∧ WF q ∧ Frame pr q ∧ LinksOK q ∧
      ∀ (i : Nat) (n : Node), q.nodes[i]? = some n → q.nodeLeads n = some (leads q i) := by
  obtain ⟨q, h1, hw, fr, hJ⟩ :=
    j_pass2 h hs pr.nodes.length pr h (Frame.refl pr) (Nat.le_refl _) (j_top h (Frame.refl pr))
  exact ⟨q, h1, hw, fr, linksOK_of_J hw fr hJ⟩

/-- (C) THE MAIN THEOREM (inv_best): after a full connection pass every link is the GHOST choice. -/
theorem linksOK_updateConnections (pr : PA) (h : WF pr) (hs : SibDistinct pr) :
    LinksOK (pr.updateConnections).1 ∧
    ∀ (i : Nat) (n : Node), (pr.updateConnections).1.nodes[i]? = some n →
      (pr.updateConnections).1.nodeLeads n = some (leads (pr.updateConnections).1 i) := by
  obtain ⟨q, h1, hw, fr, hJ⟩ :=
    j_pass2 h hs pr.nodes.length pr h (Frame.refl pr) (Nat.le_refl _) (j_top h (Frame.refl pr))
  have e : pr.updateConnections = ({ q with updated := true }, true) := by
    simp [PA.updateConnections, h1]
  rw [e]
  exact linksOK_of_J (wf_updated hw true) (fr.trans (frame_updated q true)) ⟨hJ.nl, hJ.par⟩

/-- (C) for `ApplyScoreChanges`: it succeeds and leaves every link the GHOST choice for the new weights and
epochs. -/
theorem linksOK_applyScoreChanges (pr : PA) (h : WF pr) (hs : SibDistinct pr) (ds : List Int)
    (hl : ds.length = pr.nodes.length) (jE fE : Nat) :
    ∃ pr', pr.applyScoreChanges ds jE fE = .ok pr' () ∧ WF pr' ∧ FrameS pr pr' ∧ LinksOK pr' ∧
      ∀ (i : Nat) (n : Node), pr'.nodes[i]? = some n → pr'.nodeLeads n = some (leads pr' i) := by
  obtain ⟨ns, ds', h1, hlen, hnw⟩ := pass1_some pr.nodes.length pr.nodes ds (Nat.le_refl _) hl h.fpar_lt
  obtain ⟨hw1, hf1⟩ := wf_of_nw h ns jE fE hlen hnw
  have hs1 := sibDistinct_frame hf1 hs
  obtain ⟨q, h2, hw, fr, hJ⟩ :=
    j_pass2 hw1 hs1 ns.length _ hw1 (Frame.refl _) (Nat.le_refl _) (j_top hw1 (Frame.refl _))
  have hres := linksOK_of_J (wf_updated hw true) (fr.trans (frame_updated q true)) ⟨hJ.nl, hJ.par⟩
  refine ⟨{ q with updated := true }, ?_, wf_updated hw true,
    hf1.trans (fr.toFrameS.trans (frame_updated q true).toFrameS), hres⟩
  rw [← h.off] at h1
  unfold PA.applyScoreChanges
  simp only [hl, ne_eq, not_true_eq_false, if_false, h1, h2]

/-! ## (D) `findHead` returns the end of the best-child path -/

/-- follow best-child links from node `i` (at most `fuel` steps) -/
def bestPath (pr : PA) : Nat → Nat → Nat
  | 0, i => i
  | fuel + 1, i =>
    match (pr.nodes[i]?).bind (·.bestChild) with
    | none => i
    | some b => bestPath pr fuel b

theorem bestDesc_none {pr : PA} (h : WF pr) {i : Nat} {n : Node} (hn : pr.nodes[i]? = some n)
    (hbc : n.bestChild = none) : n.bestDesc = none := by
  have := h.bc_bd i n hn
  rw [hbc] at this
  cases hd : n.bestDesc with
  | none => rfl
  | some d => rw [hd] at this; simp at this

/-- with correct links the best descendant is where following best children ends -/
theorem bestDesc_eq_bestPath (pr : PA) (h : WF pr) (hl : LinksOK pr) :
    ∀ (f i : Nat) (n : Node), pr.nodes.length ≤ i + f → pr.nodes[i]? = some n →
      n.bestDesc.getD i = bestPath pr f i := by
  intro f
  induction f with
  | zero => intro i n hi hn; have := (List.getElem?_eq_some_iff.mp hn).1; omega
  | succ f ih =>
    intro i n hi hn
    rw [bestPath, hn]
    simp only [Option.bind_some]
    cases hbc : n.bestChild with
    | none => rw [bestDesc_none h hn hbc]; rfl
    | some b =>
      simp only []
      obtain ⟨hbp, _, _, hbd⟩ := (hl i n hn).2 b hbc
      obtain ⟨nb, hnb, _⟩ := fpar_node hbp
      have hlt := h.fpar_lt' b i hbp
      rw [hbd, hnb]
      simp only [Option.bind_some, Option.getD_some]
      exact ih b nb (by omega) hnb

/-- the path ends at a node without best child -/
theorem bestPath_end (pr : PA) (h : WF pr) :
    ∀ (f i : Nat), pr.nodes.length ≤ i + f → (pr.nodes[bestPath pr f i]?).bind (·.bestChild) = none := by
  intro f
  induction f with
  | zero => intro i hi; rw [bestPath, List.getElem?_eq_none (by omega)]; rfl
  | succ f ih =>
    intro i hi
    rw [bestPath]
    split
    · next hnone => exact hnone
    · next b hb =>
      cases hn : pr.nodes[i]? with
      | none => rw [hn] at hb; cases hb
      | some n =>
        rw [hn] at hb
        have := h.fpar_lt' b i (h.bc_child i n b hn hb)
        exact ih b (by omega)

/-- (D): with connections up to date and correct links, `findHead` answers with the node at the end of the
best-child path from the anchor if that node is viable, and with an error otherwise. -/
theorem findHead_best (pr : PA) (h : WF pr) (hu : pr.updated = true) (hl : LinksOK pr) (root : Root) (slot a : Nat)
    (ha : aGet pr.indices ⟨slot, root⟩ = some a) :
    ∃ na nb, pr.nodes[a]? = some na ∧ na.bestDesc.getD a = bestPath pr pr.nodes.length a ∧
      pr.nodes[bestPath pr pr.nodes.length a]? = some nb ∧ nb.bestChild = none ∧
      pr.findHead root slot = if pr.viable nb then .ok pr nb.ref else .err pr := by
  obtain ⟨na, hna, _⟩ := h.idx_sound _ _ ha
  have hal : a < pr.nodes.length := (List.getElem?_eq_some_iff.mp hna).1
  have hd := bestDesc_eq_bestPath pr h hl pr.nodes.length a na (by omega) hna
  have hdl : na.bestDesc.getD a < pr.nodes.length := by
    cases hbd : na.bestDesc with
    | none => exact hal
    | some d => exact (h.bd_desc a na d hna hbd).1
  obtain ⟨nb, hnb⟩ : ∃ nb, pr.nodes[na.bestDesc.getD a]? = some nb := ⟨_, List.getElem?_eq_getElem hdl⟩
  have hend := bestPath_end pr h pr.nodes.length a (by omega)
  rw [← hd, hnb] at hend
  refine ⟨na, nb, hna, hd, by rw [← hd]; exact hnb, hend, ?_⟩
  rw [findHead_eq, hu]
  simp only [if_true, findHeadStep, ha, getNode_eq h, hna, hnb]

/-- (D), second half: when moreover every node judges itself correctly (second conjunct of
`linksOK_updateConnections`), `findHead` finds a head exactly when the anchor leads to a viable node. -/
theorem findHead_leads (pr : PA) (h : WF pr) (hu : pr.updated = true) (hl : LinksOK pr)
    (hnl : ∀ (i : Nat) (n : Node), pr.nodes[i]? = some n → pr.nodeLeads n = some (leads pr i))
    (root : Root) (slot a : Nat) (ha : aGet pr.indices ⟨slot, root⟩ = some a) :
    ∃ nb, pr.nodes[bestPath pr pr.nodes.length a]? = some nb ∧
      pr.findHead root slot = if leads pr a then .ok pr nb.ref else .err pr := by
  obtain ⟨na, nb, hna, hd, hnb, _, hres⟩ := findHead_best pr h hu hl root slot a ha
  refine ⟨nb, hnb, ?_⟩
  have h1 := hnl a na hna
  have : pr.viable nb = leads pr a := by
    unfold PA.nodeLeads at h1
    cases hbd : na.bestDesc with
    | none =>
      rw [hbd] at h1 hd
      simp only [Option.getD_none] at hd
      rw [← hd, hna] at hnb
      cases hnb
      exact Option.some.inj h1
    | some d =>
      rw [hbd] at h1 hd
      simp only [Option.getD_some] at hd
      rw [← hd] at hnb
      simp only [getNode_eq h, hnb, Option.map_some] at h1
      exact Option.some.inj h1
  rw [hres, this]

/-! ## non-vacuity: two sibling blocks -/

/-- anchor `(root 1, slot 0)`; blocks 2 and 3, both at slot 1 on top of root 1 (the third block optionally with
justified epoch `jE3`): nodes `0:(1,0) 1:(1,1) 2:(2,1) 3:(3,1)`, the last three are children of node 0 -/
def bestEx0 : PA := PA.new 7 1 0 0 0 .absent
def bestEx1 : PA := ((bestEx0.processBlock 1 2 1 0 0).getD (bestEx0, false)).1
def bestExJ (jE3 : Nat) : PA := ((bestEx1.processBlock 1 3 1 jE3 0).getD (bestEx1, false)).1
def bestEx : PA := bestExJ 0

theorem bestExJ_ok (jE3 : Nat) : WF (bestExJ jE3) ∧ Chain (bestExJ jE3) := by
  have h0 : WF bestEx0 ∧ Chain bestEx0 := ⟨wf_new 7 1 0 0 0 .absent, chain_new 7 1 0 0 0 .absent⟩
  have h1 := wf_chain_processBlock bestEx0 h0.1 h0.2 1 2 1 0 0
  exact wf_chain_processBlock bestEx1 h1.1 h1.2 1 3 1 jE3 0

/-- the hypotheses of (A), (C) are satisfiable -/
theorem bestEx_hyps (jE3 : Nat) : WF (bestExJ jE3) ∧ SibDistinct (bestExJ jE3) :=
  ⟨(bestExJ_ok jE3).1, sibDistinct_of_chain _ (bestExJ_ok jE3).1 (bestExJ_ok jE3).2⟩

example : bestEx.nodes.map (fun n => (n.ref, n.fparent)) =
    [(⟨0, 1⟩, none), (⟨1, 1⟩, some 0), (⟨1, 2⟩, some 0), (⟨1, 3⟩, some 0)] := by decide

/-- the array after `ApplyScoreChanges` -/
def applied (pr : PA) (ds : List Int) (jE fE : Nat) : PA :=
  match pr.applyScoreChanges ds jE fE with
  | .ok pr' _ => pr'
  | _ => pr

/-- without weights the greatest root wins (`updateConnections`, all nodes viable) -/
example : (bestEx.updateConnections.1.nodes.map (fun n => (n.bestChild, n.bestDesc))) =
    [(some 3, some 3), (none, none), (none, none), (none, none)] := by decide
/-- the heavier sibling wins -/
example : ((applied bestEx [0, 0, 5, 3] 0 0).nodes.map (fun n => (n.weight, n.bestChild, n.bestDesc))) =
    [(8, some 2, some 2), (0, none, none), (5, none, none), (3, none, none)] := by decide
/-- equal weights: the greater root wins -/
example : ((applied bestEx [0, 0, 4, 4] 0 0).nodes.map (fun n => (n.weight, n.bestChild, n.bestDesc))) =
    [(8, some 3, some 3), (0, none, none), (4, none, none), (4, none, none)] := by decide
/-- a stale incumbent (node 2 from the pass before) is overtaken: weights become 2 and 6 -/
example : ((applied (applied bestEx [0, 0, 5, 3] 0 0) [0, 0, -3, 3] 0 0).nodes.map
      (fun n => (n.weight, n.bestChild, n.bestDesc))) =
    [(8, some 3, some 3), (0, none, none), (2, none, none), (6, none, none)] := by decide
/-- only block 3 is viable under justified epoch 1: the lighter sibling wins, the others do not lead -/
example : ((applied (bestExJ 1) [0, 0, 5, 3] 1 0).nodes.map (fun n => (n.bestChild, n.bestDesc))) =
      [(some 3, some 3), (none, none), (none, none), (none, none)] ∧
    (List.range 4).map (leads (applied (bestExJ 1) [0, 0, 5, 3] 1 0)) = [true, false, false, true] := by decide
/-- nothing is viable under justified epoch 2: the anchor's stale links are cleared -/
example : ((applied (applied bestEx [0, 0, 5, 3] 0 0) [0, 0, 0, 0] 2 0).nodes.map
      (fun n => (n.bestChild, n.bestDesc))) = [(none, none), (none, none), (none, none), (none, none)] := by decide
/-- … as the theorems say -/
example : LinksOK (bestEx.updateConnections).1 := (linksOK_updateConnections bestEx (bestEx_hyps 0).1 (bestEx_hyps 0).2).1
example : ∃ pr', (bestExJ 1).applyScoreChanges [0, 0, 5, 3] 1 0 = .ok pr' () ∧ LinksOK pr' := by
  obtain ⟨pr', h1, _, _, h2, _⟩ :=
    linksOK_applyScoreChanges (bestExJ 1) (bestEx_hyps 1).1 (bestEx_hyps 1).2 [0, 0, 5, 3] (by decide) 1 0
  exact ⟨pr', h1, h2⟩
/-- (D) on the example: the head below the anchor is block 2 when it is heavier -/
example : bestPath (applied bestEx [0, 0, 5, 3] 0 0) 4 0 = 2 ∧
    (match (applied bestEx [0, 0, 5, 3] 0 0).findHead 1 0 with | .ok _ r => some r | _ => none) = some ⟨1, 2⟩ := by
  decide

end Zrnt.ForkChoice
