import Zrnt.Sha256
/-! The SHA-256 transcription returns 32 bytes for every input: discharges the hypothesis `hH` of the C06/C07
spec-equality theorems for the concrete hash (same argument as `spec_hash_size` of `Proofs/Lemmas/C02Committee.lean`,
restated here because that file imports the C07 property file). -/
namespace Zrnt.Proofs.Shuffle

theorem sha256_size (msg : ByteArray) : (Zrnt.Sha256.hash msg).size = 32 := by
  unfold Zrnt.Sha256.hash
  simp only [Id.run, bind, pure]
  generalize (forIn (m := Id) [0:(Zrnt.Sha256.pad msg).size / 64] Zrnt.Sha256.H0 _) = h
  rw [Std.Legacy.Range.forIn_eq_forIn_range']
  simp only [Std.Legacy.Range.size, Nat.sub_zero, Nat.add_sub_cancel, Nat.div_one]
  have : List.range' 0 8 1 = [0,1,2,3,4,5,6,7] := by decide
  rw [this]
  simp only [List.forIn_cons, List.forIn_nil, bind, pure]
  simp [ByteArray.size_push, ByteArray.emptyWithCapacity]
  rfl

end Zrnt.Proofs.Shuffle
