import Proofs.Lemmas.BeaconBlockP0Att
/-!
# C01/C03 — the premise `OpSteps` discharged for arbitrary phase0 blocks without deposits

`P0AInv` = `P0Inv` (slashing budget, proposer, active count, exit-queue budget) together with `CommOK` (the context's
committees are the specification's for the attestable epochs). `CommOK` is carried through exits and slashings by
`SameCommittees`: an exit initiation and the validator record a slashing writes keep effective balance, activation epoch
and activity in every epoch up to the current one; along the slashing loop by transitivity.
-/
set_option linter.unusedSimpArgs false
set_option linter.unusedVariables false
namespace Zrnt.Proofs.BlockM
open Zrnt Zrnt.Beacon Zrnt.Beacon.Spec Zrnt.Beacon.BlockImpl Zrnt.Beacon.BlockM Zrnt.Proofs.BeaconBlock Zrnt.Proofs.Lemmas

/-- `CommOK` survives an operation that keeps the committees of the attestable epochs -/
theorem CommOK.of_same {cfg : Config} {ctx : Ctx} {st st' : State} (h : CommOK cfg ctx st) (hsc : SameCommittees cfg st st') :
    CommOK cfg ctx st' := by
  have hs : st'.slot = st.slot := hsc.1
  constructor
  · intro e h1 h2
    rw [hs] at h1 h2
    rw [committee_count_frame cfg st st' hsc e (by unfold get_current_epoch compute_epoch_at_slot; exact h1)]
    exact h.cc e h1 h2
  · intro slot idx n h1 h2 hn hlt
    rw [hs] at h1 h2
    have he : compute_epoch_at_slot cfg slot ≤ get_current_epoch cfg st := by
      unfold get_current_epoch compute_epoch_at_slot; exact h1
    rw [committee_count_frame cfg st st' hsc _ (by unfold get_current_epoch compute_epoch_at_slot; exact h1)] at hn
    rw [committee_frame cfg st st' hsc slot idx he]
    exact h.com slot idx n h1 h2 hn hlt

/-- overwriting a validator by one with the same effective balance, activation and exit epoch keeps the committees -/
theorem sameCommittees_set_same (cfg : Config) (s s' : State) (i : Nat) (v nv : Validator)
    (hslot : s'.slot = s.slot) (hmix : s'.randao_mixes = s.randao_mixes)
    (hv : s.validators[i]? = some v) (hvals : s'.validators = s.validators.set i nv)
    (h1 : nv.effective_balance = v.effective_balance) (h2 : nv.activation_epoch = v.activation_epoch) (h3 : nv.exit_epoch = v.exit_epoch) :
    SameCommittees cfg s s' := by
  refine ⟨hslot, hmix, by rw [hvals, List.length_set], ?_⟩
  intro j w w' hw hw'
  rw [hvals] at hw'
  by_cases hij : i = j
  · subst hij
    have hlt : i < s.validators.length := (List.getElem?_eq_some_iff.mp hv).1
    rw [List.getElem?_set_self hlt] at hw'
    cases hw'
    rw [hv] at hw; cases hw
    refine ⟨h1, fun e _ => ?_⟩
    unfold is_active_validator; rw [h2, h3]
  · rw [List.getElem?_set_ne hij, hw] at hw'
    cases hw'
    exact ⟨rfl, fun _ _ => rfl⟩

/-- an accepted `slash_validator` keeps the committees of the attestable epochs -/
theorem slash_sameCommittees (cfg : Config) (s s' : State) (i p : Nat) (hcur : get_current_epoch cfg s < FAR_FUTURE_EPOCH)
    (h : Block.slash_validator_pure cfg s i p = some s') : SameCommittees cfg s s' := by
  obtain ⟨v, _, _, _, _, _, _, hv, hvals, _, _, _, _, _, _, _, _, hslot, hmix, _⟩ := slash_pure_shape cfg s s' i p h
  let s1 : State := { s with validators := initiate_validator_exit_pure cfg (s.slot / cfg.SLOTS_PER_EPOCH) s.validators i }
  have h1 : SameCommittees cfg s s1 := sameCommittees_initiate cfg s s1 i hcur rfl rfl rfl
  have h2 : SameCommittees cfg s1 s' := sameCommittees_set_same cfg s1 s' i v _ hslot hmix hv hvals rfl rfl rfl
  exact h1.trans h2


theorem SlashInv.curfar {cfg : Config} {s0 : State} {p A Bm C j : Nat} {st : State} (h : SlashInv cfg s0 p A Bm C j st)
    (hC : C + 1 + cfg.MIN_VALIDATOR_WITHDRAWABILITY_DELAY < 2 ^ 64) : get_current_epoch cfg st < FAR_FUTURE_EPOCH := by
  have := cae_le_qmax cfg (s0.slot / cfg.SLOTS_PER_EPOCH) st.validators
  have hb := h.budget
  unfold compute_activation_exit_epoch at this
  unfold get_current_epoch compute_epoch_at_slot FAR_FUTURE_EPOCH
  rw [h.slot]; omega

/-- the slashing loop of `ProcessAttesterSlashing` keeps the committees of the attestable epochs -/
theorem slash_fold_same (cfg : Config) (ctx : Ctx) (S0 : State) (p Bm C : Nat) (K : P0Const cfg S0 Bm C)
    (hp : ctx.proposer = some p) :
    ∀ (l : List Nat) (st : State) (b : Bool) (j : Nat) (r : State × Bool),
      SlashInv cfg S0 p ctx.activeCount Bm C (j + l.length) st →
      l.foldlM (slashStepM cfg ctx (S0.slot / cfg.SLOTS_PER_EPOCH)) (st, b) = .ok r → SameCommittees cfg st r.1 := by
  intro l
  induction l with
  | nil =>
    intro st b j r h hf
    simp only [List.foldlM_nil, Res.pure_eq] at hf
    cases hf
    exact SameCommittees.refl cfg st
  | cons i t ih =>
    intro st b j r h hf
    simp only [List.foldlM_cons] at hf
    have h' : SlashInv cfg S0 p ctx.activeCount Bm C (j + t.length + 1) st := h
    cases hstep : slashStepM cfg ctx (S0.slot / cfg.SLOTS_PER_EPOCH) (st, b) i with
    | ok r1 =>
      rw [hstep] at hf
      simp only [res_bind_ok] at hf
      have hkeep : SlashInv cfg S0 p ctx.activeCount Bm C (j + t.length) r1.1 ∧ SameCommittees cfg st r1.1 := by
        unfold slashStepM at hstep
        simp only [rget_bind] at hstep
        cases hv : st.validators[i]? with
        | none => rw [hv] at hstep; cases hstep
        | some v =>
          rw [hv] at hstep
          simp only [] at hstep
          by_cases hsl : isSlashable v (S0.slot / cfg.SLOTS_PER_EPOCH) = true
          · simp only [hsl, if_true] at hstep
            obtain ⟨hes, hsm⟩ := h'.small K.hC K.hepoch K.hBm
            have hact : ctx.activeCount = (st.validators.filter (is_active_validator · (st.slot / cfg.SLOTS_PER_EPOCH))).length := by
              rw [h'.slot]; exact h'.active.symm
            have hz' : cfg.EPOCHS_PER_SLASHINGS_VECTOR ≠ 0 ∧ min_slashing_penalty_quotient cfg st.fork ≠ 0 ∧
                cfg.WHISTLEBLOWER_REWARD_QUOTIENT ≠ 0 ∧ cfg.PROPOSER_REWARD_QUOTIENT ≠ 0 := by rw [h'.fork]; exact K.hz
            rw [slash_eq cfg ctx st i p hp hact K.hq h'.reg hes hsm hz'] at hstep
            cases hpure : Block.slash_validator_pure cfg st i p with
            | none => rw [hpure] at hstep; cases hstep
            | some st2 =>
              rw [hpure] at hstep
              simp only [optRes, res_bind_ok, Res.pure_eq] at hstep
              cases hstep
              have hsl2 : isSlashable v (st.slot / cfg.SLOTS_PER_EPOCH) = true := by rw [h'.slot]; exact hsl
              exact ⟨(slash_keeps cfg S0 p _ Bm C _ K st st2 i v h' hv hsl2 hpure).1,
                slash_sameCommittees cfg st st2 i p (h'.curfar K.hC) hpure⟩
          · simp only [hsl, if_false, Res.pure_eq] at hstep
            cases hstep
            exact ⟨h'.mono, SameCommittees.refl cfg st⟩
      exact hkeep.2.trans (ih r1.1 r1.2 j r hkeep.1 hf)
    | err => rw [hstep] at hf; cases hf
    | panic => rw [hstep] at hf; cases hf
    | outOfFuel => rw [hstep] at hf; cases hf


/-- the invariant of phase0 block processing without deposits: `P0Inv` and the context's committees -/
structure P0AInv (cfg : Config) (S0 : State) (p Bm C : Nat) (k : Nat) (ctx : Ctx) (st : State) : Prop where
  base : P0Inv cfg S0 p Bm C k ctx st
  comm : CommOK cfg ctx st
  nd : ∀ slot idx c, ctx.committee slot idx = some c → c.Nodup
  hcur : S0.slot + 2 * cfg.SLOTS_PER_EPOCH < 2 ^ 64

/-- further configuration facts for attestations -/
structure P0AConst (cfg : Config) : Prop where
  hspe : 0 < cfg.SLOTS_PER_EPOCH
  hmin : cfg.MIN_ATTESTATION_INCLUSION_DELAY ≤ cfg.SLOTS_PER_EPOCH
  hlook2 : (cfg.MIN_SEED_LOOKAHEAD + 2) % cfg.EPOCHS_PER_HISTORICAL_VECTOR ≠ 0

/-- the attester seeds of the attestable epochs survive the RANDAO mix-in of the current epoch -/
theorem attester_seeds_randao (cfg : Config) (st st' : State) (x : Bytes)
    (hpos : 0 < cfg.EPOCHS_PER_HISTORICAL_VECTOR)
    (hlook : (cfg.MIN_SEED_LOOKAHEAD + 1) % cfg.EPOCHS_PER_HISTORICAL_VECTOR ≠ 0)
    (hlook2 : (cfg.MIN_SEED_LOOKAHEAD + 2) % cfg.EPOCHS_PER_HISTORICAL_VECTOR ≠ 0)
    (hm : st'.randao_mixes = st.randao_mixes.set (st.slot / cfg.SLOTS_PER_EPOCH % cfg.EPOCHS_PER_HISTORICAL_VECTOR) x) :
    ∀ e, e ≤ st.slot / cfg.SLOTS_PER_EPOCH → st.slot / cfg.SLOTS_PER_EPOCH ≤ e + 1 →
      get_seed cfg st' e DOMAIN_BEACON_ATTESTER = get_seed cfg st e DOMAIN_BEACON_ATTESTER := by
  intro e h1 h2
  apply seed_set_other cfg st st' x _ e _ _ hm
  intro hle
  generalize hA : st.slot / cfg.SLOTS_PER_EPOCH = A at *
  by_cases heq : e = A
  · subst heq
    exact mod_shift_ne e cfg.EPOCHS_PER_HISTORICAL_VECTOR (cfg.MIN_SEED_LOOKAHEAD + 1) hpos hlook hle
  · have he : e + 1 = A := by omega
    have h3 := mod_shift_ne A cfg.EPOCHS_PER_HISTORICAL_VECTOR (cfg.MIN_SEED_LOOKAHEAD + 2) hpos hlook2 (by omega)
    have h4 : A + cfg.EPOCHS_PER_HISTORICAL_VECTOR - (cfg.MIN_SEED_LOOKAHEAD + 2) =
        e + cfg.EPOCHS_PER_HISTORICAL_VECTOR - (cfg.MIN_SEED_LOOKAHEAD + 1) := by omega
    rw [h4] at h3
    exact h3

theorem P0AInv.mono {cfg : Config} {S0 : State} {p Bm C k : Nat} {ctx : Ctx} {st : State}
    (h : P0AInv cfg S0 p Bm C (k + 1) ctx st) : P0AInv cfg S0 p Bm C k ctx st := ⟨h.base.mono, h.comm, h.nd, h.hcur⟩

theorem p0a_header (cfg : Config) (S0 : State) (p Bm C : Nat) (block : SignedBlock) (k : Nat) (ctx : Ctx) (st : State)
    (hi : P0AInv cfg S0 p Bm C (k + 1) ctx st) :
    Sim (Block.process_block_header cfg st block) (ofOpt ctx.proposer >>= fun p => processHeader st block p) ∧
    ∀ st', (ofOpt ctx.proposer >>= fun p => processHeader st block p) = .ok st' → P0AInv cfg S0 p Bm C k ctx st' := by
  obtain ⟨h1, h2⟩ := p0_header cfg S0 p Bm C block k ctx st hi.base
  refine ⟨h1, fun st' h => ⟨h2 st' h, ?_, hi.nd, hi.hcur⟩⟩
  rw [hi.base.ctxp] at h
  simp only [ofOpt, res_bind_ok] at h
  obtain ⟨hv, hs, hm, _⟩ := processHeader_frame2 st st' block p h
  exact hi.comm.keep hv hs (fun e _ _ => seed_of_mixes cfg st st' _ _ hm)

theorem p0a_randao (cfg : Config) (S0 : State) (p Bm C : Nat) (K : P0Const cfg S0 Bm C) (KA : P0AConst cfg) (block : SignedBlock) (ctx : Ctx) :
    Step (fun k => P0AInv cfg S0 p Bm C k ctx) false [()] (fun st _ => Block.process_randao cfg st block)
      (fun st _ => processRandaoReveal cfg ctx st block) := by
  intro k st u hu hi
  obtain ⟨h1, h2⟩ := p0_randao cfg S0 p Bm C K block ctx k st u hu hi.base
  refine ⟨h1, fun st' h => ⟨⟨(h2 st' h).1, ?_, hi.nd, hi.hcur⟩, fun hf => by cases hf⟩⟩
  obtain ⟨hv, hs, _, _, _, x, hm⟩ := processRandao_frame2 cfg ctx st st' block h
  rw [hi.base.mixes] at hm
  exact hi.comm.keep hv hs (attester_seeds_randao cfg st st' x K.hpos K.hlook KA.hlook2 hm)

theorem p0a_eth1 (cfg : Config) (S0 : State) (p Bm C : Nat) (K : P0Const cfg S0 Bm C) (block : SignedBlock) (ctx : Ctx) :
    Step (fun k => P0AInv cfg S0 p Bm C k ctx) false [()] (fun st _ => Block.process_eth1_data cfg st block)
      (fun st _ => processEth1Vote cfg st block.eth1_data) := by
  intro k st u hu hi
  obtain ⟨h1, h2⟩ := p0_eth1 cfg S0 p Bm C K block ctx k st u hu hi.base
  refine ⟨h1, fun st' h => ⟨⟨(h2 st' h).1, ?_, hi.nd, hi.hcur⟩, fun hf => by cases hf⟩⟩
  obtain ⟨hv, hs, hm, _⟩ := processEth1_frame2 cfg st st' block.eth1_data h
  exact hi.comm.keep hv hs (fun e _ _ => seed_of_mixes cfg st st' _ _ hm)

theorem p0a_exit (cfg : Config) (S0 : State) (p Bm C : Nat) (K : P0Const cfg S0 Bm C) (l : List SignedVoluntaryExit) (ctx : Ctx) :
    Step (fun k => P0AInv cfg S0 p Bm C k ctx) false l (Block.process_voluntary_exit cfg) (processVoluntaryExit cfg ctx) := by
  intro k st exit hx hi
  obtain ⟨h1, h2⟩ := p0_exit cfg S0 p Bm C K l ctx k st exit hx hi.base
  refine ⟨h1, fun st' h => ⟨⟨(h2 st' h).1, ?_, hi.nd, hi.hcur⟩, fun hf => by cases hf⟩⟩
  obtain ⟨hact, hes, _, _, hs⟩ := hi.base.facts K
  obtain ⟨v, hv, _, hst'⟩ := processVoluntaryExit_shape cfg ctx st st' exit hact K.hq hs.reg hes h
  apply hi.comm.of_same
  apply sameCommittees_initiate cfg st st' exit.validator_index (hs.curfar K.hC)
  · rw [hst']
  · rw [hst']
  · rw [hst']; rfl

theorem p0a_proposerSlashing (cfg : Config) (S0 : State) (p Bm C : Nat) (K : P0Const cfg S0 Bm C) (l : List ProposerSlashing) (ctx : Ctx) :
    Step (fun k => P0AInv cfg S0 p Bm C k ctx) true l (Block.process_proposer_slashing cfg) (processProposerSlashing cfg ctx) := by
  intro k st ps hx hi
  obtain ⟨h1, h2⟩ := p0_proposerSlashing cfg S0 p Bm C K l ctx k st ps hx hi.base
  refine ⟨h1, fun st' h => ⟨⟨(h2 st' h).1, ?_, hi.nd, hi.hcur⟩, (h2 st' h).2⟩⟩
  obtain ⟨hact, hes, hsm, _, hs⟩ := hi.base.facts K
  have hz' : cfg.EPOCHS_PER_SLASHINGS_VECTOR ≠ 0 ∧ min_slashing_penalty_quotient cfg st.fork ≠ 0 ∧
      cfg.WHISTLEBLOWER_REWARD_QUOTIENT ≠ 0 ∧ cfg.PROPOSER_REWARD_QUOTIENT ≠ 0 := by rw [hs.fork]; exact K.hz
  obtain ⟨v0, hv0, hsl, hsv⟩ := processProposerSlashing_shape cfg ctx st st' ps h
  rw [slash_eq cfg ctx st _ p hi.base.ctxp hact K.hq hs.reg hes hsm hz'] at hsv
  cases hpure : Block.slash_validator_pure cfg st ps.signed_header_1.message.proposer_index p with
  | none => rw [hpure] at hsv; cases hsv
  | some st2 =>
    rw [hpure] at hsv
    simp only [optRes] at hsv
    cases hsv
    exact hi.comm.of_same (slash_sameCommittees cfg st st' _ p (hs.curfar K.hC) hpure)

theorem p0a_attesterSlashing (cfg : Config) (S0 : State) (p Bm C : Nat) (K : P0Const cfg S0 Bm C) (l : List AttesterSlashing) (ctx : Ctx)
    (hl : ∀ op ∈ l, op.attestation_1.attesting_indices.length ≤ cfg.MAX_VALIDATORS_PER_COMMITTEE ∧
      op.attestation_2.attesting_indices.length ≤ cfg.MAX_VALIDATORS_PER_COMMITTEE) :
    Step (fun k => P0AInv cfg S0 p Bm C k ctx) true l (Block.process_attester_slashing cfg) (processAttesterSlashing cfg ctx) := by
  intro k st op hop hi
  obtain ⟨h1, h2⟩ := p0_attesterSlashing cfg S0 p Bm C K l ctx hl k st op hop hi.base
  refine ⟨h1, fun st' h => ⟨⟨(h2 st' h).1, ?_, hi.nd, hi.hcur⟩, (h2 st' h).2⟩⟩
  obtain ⟨_, _, _, _, hs⟩ := hi.base.facts K
  obtain ⟨hlen1, hlen2⟩ := hl op hop
  obtain ⟨lst, b, hll, hfold⟩ := processAttesterSlashing_shape cfg ctx st st' op hlen1 hlen2 hi.base.vlen h
  rw [hs.slot] at hfold
  have hstart : SlashInv cfg S0 p ctx.activeCount Bm C (k * cfg.MAX_VALIDATORS_PER_COMMITTEE + (cfg.MAX_VALIDATORS_PER_COMMITTEE - lst.length) + lst.length) st := by
    have : k * cfg.MAX_VALIDATORS_PER_COMMITTEE + (cfg.MAX_VALIDATORS_PER_COMMITTEE - lst.length) + lst.length =
        k * cfg.MAX_VALIDATORS_PER_COMMITTEE + cfg.MAX_VALIDATORS_PER_COMMITTEE := by omega
    rw [this]; exact hs
  exact hi.comm.of_same (slash_fold_same cfg ctx S0 p Bm C K hi.base.ctxp lst st false _ (st', b) hstart hfold)

theorem p0a_attestation (cfg : Config) (S0 : State) (p Bm C : Nat) (K : P0Const cfg S0 Bm C) (KA : P0AConst cfg) (hF : S0.fork = .phase0) (l : List Attestation) (ctx : Ctx)
    (hl : ∀ att ∈ l, att.bits_wellformed = true ∧ att.aggregation_bits.length ≤ cfg.MAX_VALIDATORS_PER_COMMITTEE) :
    Step (fun k => P0AInv cfg S0 p Bm C k ctx) true l (Block.process_attestation cfg)
      (if Fork.phase0 = .phase0 then processAttestationPhase0 cfg ctx else processAttestationAltair cfg ctx) := by
  intro k st att hatt hi
  obtain ⟨hwf, hmaxbits⟩ := hl att hatt
  have hfork : st.fork = .phase0 := by rw [hi.base.slash.fork]; exact hF
  have hcur : st.slot + 2 * cfg.SLOTS_PER_EPOCH < 2 ^ 64 := by rw [hi.base.slash.slot]; exact hi.hcur
  simp only [if_true]
  refine ⟨sim_attestation_phase0' cfg ctx st att p hfork hi.comm hi.base.ctxp hi.base.slash.proposer (hi.nd _ _) hwf hmaxbits
    KA.hspe KA.hmin hcur, fun st' h => ?_⟩
  rw [attestation_phase0_eq cfg ctx st att _ _ _ hfork rfl rfl rfl (hi.nd _ _) hwf hmaxbits KA.hspe KA.hmin hcur] at h
  cases hpure : Block.process_attestation_phase0_pure cfg st att (ctx.committeeCount att.data.target.epoch)
      (ctx.committee att.data.slot att.data.index) ctx.proposer with
  | none => rw [hpure] at h; cases h
  | some s2 =>
    rw [hpure] at h
    simp only [optRes] at h
    cases h
    obtain ⟨hv, hs, hm, hf, hsl, hb, e1, e2⟩ := phase0_attestation_frame cfg st st' att _ _ _ hpure
    exact ⟨⟨hi.base.keep hv hs hf hsl hb (by rw [hm]) (seed_of_mixes cfg st st' _ _ hm),
      hi.comm.keep hv hs (fun e _ _ => seed_of_mixes cfg st st' _ _ hm), hi.nd, hi.hcur⟩, fun _ => ⟨e1, e2⟩⟩


/-- a phase0 block container without deposits: proposer slashings, attester slashings, attestations and voluntary exits in
any numbers, each inside the type limits of its elements -/
structure Phase0NoDeposits (cfg : Config) (block : SignedBlock) : Prop where
  dep : block.deposits = []
  bls : block.bls_to_execution_changes = []
  payload : block.execution_payload = none
  sync : block.sync_aggregate = none
  aslen : ∀ op ∈ block.attester_slashings, op.attestation_1.attesting_indices.length ≤ cfg.MAX_VALIDATORS_PER_COMMITTEE ∧
    op.attestation_2.attesting_indices.length ≤ cfg.MAX_VALIDATORS_PER_COMMITTEE
  atyped : ∀ att ∈ block.attestations, att.bits_wellformed = true ∧ att.aggregation_bits.length ≤ cfg.MAX_VALIDATORS_PER_COMMITTEE

/-- `OpSteps` for `P0AInv`: every field discharged for phase0 blocks without deposits -/
theorem opSteps_phase0NoDeposits (cfg : Config) (S0 : State) (p Bm C : Nat) (K : P0Const cfg S0 Bm C) (KA : P0AConst cfg) (hF : S0.fork = .phase0) (block : SignedBlock)
    (hb : Phase0NoDeposits cfg block) : OpSteps cfg block .phase0 (P0AInv cfg S0 p Bm C) :=
  { mono := fun _ _ _ h => h.mono
    fork := fun _ _ _ h => by rw [h.base.slash.fork]; exact hF
    header := fun k ctx st hi => p0a_header cfg S0 p Bm C block k ctx st hi
    payload := fun ctx payload hpl => by rw [hb.payload] at hpl; cases hpl
    withdrawals := fun _ ctx payload hpl => by rw [hb.payload] at hpl; cases hpl
    randao := fun ctx => p0a_randao cfg S0 p Bm C K KA block ctx
    eth1 := fun ctx => p0a_eth1 cfg S0 p Bm C K block ctx
    proposerSlashing := fun ctx => p0a_proposerSlashing cfg S0 p Bm C K _ ctx
    attesterSlashing := fun ctx => p0a_attesterSlashing cfg S0 p Bm C K _ ctx hb.aslen
    attestation := fun ctx => p0a_attestation cfg S0 p Bm C K KA hF _ ctx hb.atyped
    deposit := fun k ctx st d hd => by rw [hb.dep] at hd; cases hd
    exit := fun ctx => p0a_exit cfg S0 p Bm C K _ ctx
    blsChange := fun ctx k st x hx => by rw [hb.bls] at hx; cases hx
    sync := fun ctx agg hsa => by rw [hb.sync] at hsa; cases hsa }

/-- `M_block_refines_S` / `M_sound` WITHOUT a premise for arbitrary phase0 blocks without deposits -/
theorem processBlock_phase0NoDeposits (cfg : Config) (S0 : State) (p Bm C k : Nat) (K : P0Const cfg S0 Bm C) (KA : P0AConst cfg) (hF : S0.fork = .phase0)
    (ctx : Ctx) (block : SignedBlock) (hb : Phase0NoDeposits cfg block)
    (hi : P0AInv cfg S0 p Bm C (blockNeed block k) ctx S0) (htyped : Block.check_types cfg block = .ok ()) :
    Sim (Block.process_block cfg S0 block) (processBlock cfg ctx S0 block) ∧
    ∀ st', processBlock cfg ctx S0 block = .ok st' → ∃ ctx', P0AInv cfg S0 p Bm C k ctx' st' :=
  ⟨processBlock_sim (opSteps_phase0NoDeposits cfg S0 p Bm C K KA hF block hb) k ctx S0 hi htyped,
   processBlock_inv (opSteps_phase0NoDeposits cfg S0 p Bm C K KA hF block hb) k ctx S0 hi⟩

end Zrnt.Proofs.BlockM
