import Proofs.Lemmas.ForkChoiceDefs
/-!
# Fork choice: node insertion (`NewProtoArray`, `ProcessSlot`, `ProcessBlock`) preserves the structure invariant `WF`

* `wf_new`, `wf_processSlot`, `wf_processBlock` (the latter also shows that the `panic` of `ProcessBlock`
  is unreachable from a well-formed array);
* `processSlot_frame`, `processBlock_frame`: what insertion leaves alone (`Grow`).
-/
namespace Zrnt.ForkChoice

/-! ## association lists -/

theorem aGet_aSet {κ ν : Type} [DecidableEq κ] (m : List (κ × ν)) (k k' : κ) (v : ν) :
    aGet (aSet m k v) k' = if k = k' then some v else aGet m k' := by
  induction m with
  | nil => simp [aSet, aGet]
  | cons h t ih =>
    obtain ⟨a, b⟩ := h
    by_cases hak : a = k
    · subst hak; simp [aSet, aGet]; split <;> simp_all
    · by_cases hak' : a = k'
      · subst hak'; simp [aSet, aGet, hak]; intro h; exact absurd h.symm hak
      · simp [aSet, aGet, hak, hak', ih]

theorem aGet_aSet_self {κ ν : Type} [DecidableEq κ] (m : List (κ × ν)) (k : κ) (v : ν) :
    aGet (aSet m k v) k = some v := by simp [aGet_aSet]

theorem aGet_aSet_ne {κ ν : Type} [DecidableEq κ] (m : List (κ × ν)) (k k' : κ) (v : ν) (h : k ≠ k') :
    aGet (aSet m k v) k' = aGet m k' := by simp [aGet_aSet, h]

theorem aSet_length_new {κ ν : Type} [DecidableEq κ] (m : List (κ × ν)) (k : κ) (v : ν)
    (h : aGet m k = none) : (aSet m k v).length = m.length + 1 := by
  induction m with
  | nil => simp [aSet]
  | cons hd t ih =>
    obtain ⟨a, b⟩ := hd
    by_cases hak : a = k
    · simp [aGet, hak] at h
    · simp [aGet, hak] at h; simp [aSet, hak, ih h]

theorem aSet_length_old {κ ν : Type} [DecidableEq κ] (m : List (κ × ν)) (k : κ) (v : ν)
    (h : (aGet m k).isSome) : (aSet m k v).length = m.length := by
  induction m with
  | nil => simp [aGet] at h
  | cons hd t ih =>
    obtain ⟨a, b⟩ := hd
    by_cases hak : a = k
    · simp [aSet, hak]
    · simp [aGet, hak] at h; simp [aSet, hak, ih h]

/-! ## appending a node: `fpar`, `ancF`, `anc` -/

theorem getElem?_snoc_some {α : Type} (l : List α) (x n : α) (i : Nat) :
    (l ++ [x])[i]? = some n ↔ (l[i]? = some n ∨ (i = l.length ∧ n = x)) := by
  by_cases h : i < l.length
  · rw [List.getElem?_append_left h]
    constructor
    · intro h; exact Or.inl h
    · rintro (h' | ⟨h', _⟩)
      · exact h'
      · omega
  · have h1 : l[i]? = none := by simp; omega
    rw [List.getElem?_append_right (by omega), h1]
    by_cases h2 : i = l.length
    · subst h2; simp; exact eq_comm
    · have : i - l.length = (i - l.length - 1) + 1 := by omega
      rw [this]; simp [h2]

theorem getElem?_snoc_old {α : Type} (l : List α) (x n : α) (i : Nat) (h : l[i]? = some n) :
    (l ++ [x])[i]? = some n := (getElem?_snoc_some l x n i).2 (Or.inl h)

theorem fpar_snoc_some (ns : List Node) (x : Node) (j p : Nat) (h : fpar ns j = some p) :
    fpar (ns ++ [x]) j = some p := by
  unfold fpar at *
  cases hj : ns[j]? with
  | none => simp [hj] at h
  | some n => rw [getElem?_snoc_old ns x n j hj]; simpa [hj] using h

theorem ancF_snoc (ns : List Node) (x : Node) (i f j : Nat) (h : ancF ns i f j = true) :
    ancF (ns ++ [x]) i f j = true := by
  induction f generalizing j with
  | zero => simpa [ancF] using h
  | succ f ih =>
    simp only [ancF, Bool.or_eq_true] at h ⊢
    rcases h with h | h
    · exact Or.inl h
    · right
      cases hp : fpar ns j with
      | none => simp [hp] at h
      | some p => rw [fpar_snoc_some ns x j p hp]; simp only [hp] at h; exact ih p h

theorem ancF_succ (ns : List Node) (i f j : Nat) (h : ancF ns i f j = true) :
    ancF ns i (f + 1) j = true := by
  induction f generalizing j with
  | zero => simp only [ancF] at h; simp [ancF, h]
  | succ f ih =>
    rw [ancF] at h ⊢
    simp only [Bool.or_eq_true] at h ⊢
    rcases h with h | h
    · exact Or.inl h
    · right
      cases hp : fpar ns j with
      | none => simp [hp] at h
      | some p => simp only [hp] at h ⊢; exact ih p h

theorem anc_snoc (ns : List Node) (x : Node) (i j : Nat) (h : anc ns i j = true) :
    anc (ns ++ [x]) i j = true := by
  unfold anc at *
  rw [List.length_append, List.length_singleton]
  exact ancF_succ _ _ _ _ (ancF_snoc ns x i _ j h)


/-! ## what an insertion leaves alone -/

/-- `pr'` arises from `pr` by appending nodes whose reference root satisfies `P`: old nodes, old keys and
everything but `nodes`/`indices`/`blockSlots`/`updated` are untouched; new nodes are fresh. -/
structure Grow (P : Root → Prop) (pr pr' : PA) : Prop where
  nodes_old : ∀ (i : Nat) (n : Node), pr.nodes[i]? = some n → pr'.nodes[i]? = some n
  len_le : pr.nodes.length ≤ pr'.nodes.length
  nodes_new : ∀ (i : Nat) (n : Node), pr.nodes.length ≤ i → pr'.nodes[i]? = some n →
    n.weight = 0 ∧ n.bestChild = none ∧ n.bestDesc = none ∧ P n.ref.root
  idx_old : ∀ (r : NodeRef) (i : Nat), aGet pr.indices r = some i → aGet pr'.indices r = some i
  bs_old : ∀ (r : Root) (s : Nat), aGet pr.blockSlots r = some s → aGet pr'.blockSlots r = some s
  offset_eq : pr'.offset = pr.offset
  jEpoch_eq : pr'.jEpoch = pr.jEpoch
  fEpoch_eq : pr'.fEpoch = pr.fEpoch
  sink_eq : pr'.sink = pr.sink
  sinkLog_eq : pr'.sinkLog = pr.sinkLog

theorem Grow.refl (P : Root → Prop) (pr : PA) : Grow P pr pr where
  nodes_old := fun _ _ h => h
  len_le := Nat.le_refl _
  nodes_new := fun i n hi hn => by
    have : i < pr.nodes.length := (List.getElem?_eq_some_iff.1 hn).1
    omega
  idx_old := fun _ _ h => h
  bs_old := fun _ _ h => h
  offset_eq := rfl
  jEpoch_eq := rfl
  fEpoch_eq := rfl
  sink_eq := rfl
  sinkLog_eq := rfl

theorem Grow.trans {P : Root → Prop} {a b c : PA} (h1 : Grow P a b) (h2 : Grow P b c) : Grow P a c where
  nodes_old := fun i n h => h2.nodes_old i n (h1.nodes_old i n h)
  len_le := Nat.le_trans h1.len_le h2.len_le
  nodes_new := fun i n hi hn => by
    by_cases hb : i < b.nodes.length
    · obtain ⟨m, hm⟩ : ∃ m, b.nodes[i]? = some m := ⟨b.nodes[i], List.getElem?_eq_getElem hb⟩
      have := h2.nodes_old i m hm
      rw [hn] at this
      cases this
      exact h1.nodes_new i n hi hm
    · exact h2.nodes_new i n (by omega) hn
  idx_old := fun r i h => h2.idx_old r i (h1.idx_old r i h)
  bs_old := fun r s h => h2.bs_old r s (h1.bs_old r s h)
  offset_eq := h2.offset_eq.trans h1.offset_eq
  jEpoch_eq := h2.jEpoch_eq.trans h1.jEpoch_eq
  fEpoch_eq := h2.fEpoch_eq.trans h1.fEpoch_eq
  sink_eq := h2.sink_eq.trans h1.sink_eq
  sinkLog_eq := h2.sinkLog_eq.trans h1.sinkLog_eq

theorem Grow.mono {P Q : Root → Prop} {a b : PA} (hPQ : ∀ r, P r → Q r) (h : Grow P a b) : Grow Q a b :=
  ⟨h.nodes_old, h.len_le, fun i n hi hn => by
      obtain ⟨h1, h2, h3, h4⟩ := h.nodes_new i n hi hn
      exact ⟨h1, h2, h3, hPQ _ h4⟩,
    h.idx_old, h.bs_old, h.offset_eq, h.jEpoch_eq, h.fEpoch_eq, h.sink_eq, h.sinkLog_eq⟩

/-- a key that appears during an insertion belongs to a new node, so its root satisfies `P` -/
theorem Grow.idx_new {P : Root → Prop} {a b : PA} (g : Grow P a b) (ha : WF a) (hb : WF b)
    (r : NodeRef) (hr : aGet a.indices r = none) (hP : ¬ P r.root) : aGet b.indices r = none := by
  cases hbr : aGet b.indices r with
  | none => rfl
  | some i =>
    exfalso
    obtain ⟨n, hn, hnr⟩ := hb.idx_sound r i hbr
    by_cases hi : i < a.nodes.length
    · obtain ⟨m, hm⟩ : ∃ m, a.nodes[i]? = some m := ⟨a.nodes[i], List.getElem?_eq_getElem hi⟩
      have := g.nodes_old i m hm
      rw [hn] at this
      cases this
      have := ha.idx_complete i n hm
      rw [hnr, hr] at this
      cases this
    · have hi' : a.nodes.length ≤ i := Nat.le_of_not_lt hi
      have := (g.nodes_new i n hi' hn).2.2.2
      rw [hnr] at this
      exact hP this

/-! ## `push` -/

theorem push_grow (pr : PA) (ref : NodeRef) (tp fp : Option Idx) (pRoot : Root) (jE fE : Nat)
    (hnew : aGet pr.indices ref = none) :
    Grow (· = ref.root) pr (pr.push ref tp fp pRoot jE fE) where
  nodes_old := fun i n h => getElem?_snoc_old _ _ _ _ h
  len_le := by simp [PA.push]
  nodes_new := fun i n hi hn => by
    simp only [PA.push] at hn
    rcases (getElem?_snoc_some _ _ _ _).1 hn with h | ⟨_, h⟩
    · have : i < pr.nodes.length := (List.getElem?_eq_some_iff.1 h).1
      omega
    · subst h; exact ⟨rfl, rfl, rfl, rfl⟩
  idx_old := fun r i h => by
    simp only [PA.push]
    rw [aGet_aSet_ne]; exact h
    intro e; subst e; rw [hnew] at h; cases h
  bs_old := fun _ _ h => h
  offset_eq := rfl
  jEpoch_eq := rfl
  fEpoch_eq := rfl
  sink_eq := rfl
  sinkLog_eq := rfl

theorem push_indices_self (pr : PA) (ref : NodeRef) (tp fp : Option Idx) (pRoot : Root) (jE fE : Nat) :
    aGet (pr.push ref tp fp pRoot jE fE).indices ref = some (pr.offset + pr.nodes.length) := by
  simp [PA.push, aGet_aSet_self]

theorem push_indices_ne (pr : PA) (ref r : NodeRef) (tp fp : Option Idx) (pRoot : Root) (jE fE : Nat)
    (h : ref ≠ r) : aGet (pr.push ref tp fp pRoot jE fE).indices r = aGet pr.indices r := by
  simp [PA.push, aGet_aSet_ne _ _ _ _ h]

theorem wf_push (pr : PA) (h : WF pr) (ref : NodeRef) (tp fp : Option Idx) (pRoot : Root) (jE fE : Nat)
    (hnew : aGet pr.indices ref = none)
    (htp : ∀ p, tp = some p → p < pr.nodes.length) (hfp : ∀ p, fp = some p → p < pr.nodes.length) :
    WF (pr.push ref tp fp pRoot jE fE) where
  off := h.off
  len := by
    simp only [PA.push, List.length_append, List.length_singleton]
    rw [aSet_length_new _ _ _ hnew, h.len]
  idx_sound := fun r i hr => by
    by_cases e : ref = r
    · subst e
      rw [push_indices_self, h.off, Nat.zero_add] at hr
      cases hr
      exact ⟨_, (getElem?_snoc_some _ _ _ _).2 (Or.inr ⟨rfl, rfl⟩), rfl⟩
    · rw [push_indices_ne _ _ _ _ _ _ _ _ e] at hr
      obtain ⟨n, hn, hnr⟩ := h.idx_sound r i hr
      exact ⟨n, getElem?_snoc_old _ _ _ _ hn, hnr⟩
  idx_complete := fun i n hn => by
    simp only [PA.push] at hn
    rcases (getElem?_snoc_some _ _ _ _).1 hn with hn | ⟨hi, hn⟩
    · have := h.idx_complete i n hn
      rw [push_indices_ne]; exact this
      intro e; rw [← e, hnew] at this; cases this
    · subst hn; subst hi
      show aGet (pr.push ref tp fp pRoot jE fE).indices ref = _
      rw [push_indices_self, h.off, Nat.zero_add]
  tpar_lt := fun i n p hn hp => by
    simp only [PA.push] at hn
    rcases (getElem?_snoc_some _ _ _ _).1 hn with hn | ⟨hi, hn⟩
    · exact h.tpar_lt i n p hn hp
    · subst hn; subst hi; exact htp p hp
  fpar_lt := fun i n p hn hp => by
    simp only [PA.push] at hn
    rcases (getElem?_snoc_some _ _ _ _).1 hn with hn | ⟨hi, hn⟩
    · exact h.fpar_lt i n p hn hp
    · subst hn; subst hi; exact hfp p hp
  bc_child := fun i n c hn hc => by
    simp only [PA.push] at hn ⊢
    rcases (getElem?_snoc_some _ _ _ _).1 hn with hn | ⟨hi, hn⟩
    · exact fpar_snoc_some _ _ _ _ (h.bc_child i n c hn hc)
    · subst hn; cases hc
  bd_desc := fun i n d hn hd => by
    simp only [PA.push] at hn ⊢
    rcases (getElem?_snoc_some _ _ _ _).1 hn with hn | ⟨hi, hn⟩
    · obtain ⟨h1, h2, h3⟩ := h.bd_desc i n d hn hd
      refine ⟨?_, h2, anc_snoc _ _ _ _ h3⟩
      simp; omega
    · subst hn; cases hd
  bc_bd := fun i n hn => by
    simp only [PA.push] at hn
    rcases (getElem?_snoc_some _ _ _ _).1 hn with hn | ⟨hi, hn⟩
    · exact h.bc_bd i n hn
    · subst hn; simp
  bs_node := fun root s hs => by
    have := h.bs_node root s hs
    obtain ⟨i, hi⟩ := Option.isSome_iff_exists.1 this
    rw [(push_grow pr ref tp fp pRoot jE fE hnew).idx_old _ i hi]; rfl

/-- `WF` does not look at `updated` -/
theorem wf_setUpdated (pr : PA) (h : WF pr) (b : Bool) : WF { pr with updated := b } :=
  ⟨h.off, h.len, h.idx_sound, h.idx_complete, h.tpar_lt, h.fpar_lt, h.bc_child, h.bd_desc, h.bc_bd, h.bs_node⟩

theorem grow_setUpdated {P : Root → Prop} (a pr : PA) (g : Grow P a pr) (b : Bool) :
    Grow P a { pr with updated := b } :=
  ⟨g.nodes_old, g.len_le, g.nodes_new, g.idx_old, g.bs_old, g.offset_eq, g.jEpoch_eq, g.fEpoch_eq,
    g.sink_eq, g.sinkLog_eq⟩

/-- an index found in the map is inside the array -/
theorem WF.idx_lt {pr : PA} (h : WF pr) {r : NodeRef} {i : Nat} (hi : aGet pr.indices r = some i) :
    i < pr.nodes.length := by
  obtain ⟨n, hn, _⟩ := h.idx_sound r i hi
  exact (List.getElem?_eq_some_iff.1 hn).1

/-! ## `fillGaps`, `ProcessSlot` -/

theorem fillGaps_spec (parent : Root) (jE fE : Nat) (n i : Nat) (pr : PA) (pi : Option Idx) (h : WF pr)
    (hpi : ∀ p, pi = some p → p < pr.nodes.length) :
    WF (PA.fillGaps parent jE fE n i pr pi).1 ∧
    Grow (· = parent) pr (PA.fillGaps parent jE fE n i pr pi).1 ∧
    (∀ p, (PA.fillGaps parent jE fE n i pr pi).2 = some p →
      p < (PA.fillGaps parent jE fE n i pr pi).1.nodes.length) ∧
    (PA.fillGaps parent jE fE n i pr pi).1.blockSlots = pr.blockSlots ∧
    (∀ ref : NodeRef, aGet pr.indices ref = none → (ref.root ≠ parent ∨ ref.slot < i ∨ i + n ≤ ref.slot) →
      aGet (PA.fillGaps parent jE fE n i pr pi).1.indices ref = none) := by
  induction n generalizing i pr pi with
  | zero => exact ⟨h, Grow.refl _ _, hpi, rfl, fun _ hr _ => hr⟩
  | succ n ih =>
    unfold PA.fillGaps
    cases hg : aGet pr.indices ⟨i, parent⟩ with
    | some ni =>
      simp only []
      obtain ⟨a, b, c, d, e⟩ := ih (i + 1) pr (some ni) h (fun p hp => by cases hp; exact h.idx_lt hg)
      refine ⟨a, b, c, d, fun ref hr hc => e ref hr ?_⟩
      rcases hc with hc | hc | hc
      · exact Or.inl hc
      · exact Or.inr (Or.inl (by omega))
      · exact Or.inr (Or.inr (by omega))
    | none =>
      simp only []
      have hw := wf_push pr h ⟨i, parent⟩ pi pi parent jE fE hg hpi hpi
      obtain ⟨a, b, c, d, e⟩ := ih (i + 1) (pr.push ⟨i, parent⟩ pi pi parent jE fE)
        (some (pr.offset + pr.nodes.length)) hw
        (fun p hp => by cases hp; rw [h.off]; simp [PA.push])
      refine ⟨a, (push_grow pr ⟨i, parent⟩ pi pi parent jE fE hg).trans b, c, d, fun ref hr hc => ?_⟩
      have hne : (⟨i, parent⟩ : NodeRef) ≠ ref := by
        intro e; subst e
        rcases hc with hc | hc | hc
        · exact hc rfl
        · exact Nat.lt_irrefl _ hc
        · have hc' : i + (n + 1) ≤ i := hc
          omega
      apply e ref
      · rw [push_indices_ne _ _ _ _ _ _ _ _ hne]; exact hr
      · rcases hc with hc | hc | hc
        · exact Or.inl hc
        · exact Or.inr (Or.inl (by omega))
        · exact Or.inr (Or.inr (by omega))

/-- the gap-filling prefix of `ProcessSlot` -/
def gapFill (pr : PA) (parent : Root) (slot jE fE : Nat) : PA × Option Idx :=
  match aGet pr.blockSlots parent with
  | some ps =>
    PA.fillGaps parent jE fE (slot - (ps + 1)) (ps + 1) pr (some ((aGet pr.indices ⟨ps, parent⟩).getD 0))
  | none => (pr, none)

theorem processSlot_eq (pr : PA) (parent : Root) (slot jE fE : Nat) :
    pr.processSlot parent slot jE fE =
      if (aGet pr.indices ⟨slot, parent⟩).isSome then pr else
      { (gapFill pr parent slot jE fE).1.push ⟨slot, parent⟩ (gapFill pr parent slot jE fE).2
          (gapFill pr parent slot jE fE).2 parent jE fE with updated := false } := rfl

theorem gapFill_spec (pr : PA) (h : WF pr) (parent : Root) (slot jE fE : Nat)
    (hs : aGet pr.indices ⟨slot, parent⟩ = none) :
    WF (gapFill pr parent slot jE fE).1 ∧
    Grow (· = parent) pr (gapFill pr parent slot jE fE).1 ∧
    (∀ p, (gapFill pr parent slot jE fE).2 = some p → p < (gapFill pr parent slot jE fE).1.nodes.length) ∧
    (gapFill pr parent slot jE fE).1.blockSlots = pr.blockSlots ∧
    aGet (gapFill pr parent slot jE fE).1.indices ⟨slot, parent⟩ = none := by
  unfold gapFill
  cases hb : aGet pr.blockSlots parent with
  | none => exact ⟨h, Grow.refl _ _, (fun p hp => by cases hp), rfl, hs⟩
  | some ps =>
    simp only []
    obtain ⟨i, hi⟩ := Option.isSome_iff_exists.1 (h.bs_node parent ps hb)
    obtain ⟨a, b, c, d, e⟩ := fillGaps_spec parent jE fE (slot - (ps + 1)) (ps + 1) pr
      (some ((aGet pr.indices ⟨ps, parent⟩).getD 0)) h
      (fun p hp => by rw [hi] at hp; cases hp; exact h.idx_lt hi)
    refine ⟨a, b, c, d, e _ hs (Or.inr ?_)⟩
    show slot < ps + 1 ∨ ps + 1 + (slot - (ps + 1)) ≤ slot
    omega

theorem processSlot_spec (pr : PA) (h : WF pr) (parent : Root) (slot jE fE : Nat) :
    WF (pr.processSlot parent slot jE fE) ∧ Grow (· = parent) pr (pr.processSlot parent slot jE fE) ∧
    (pr.processSlot parent slot jE fE).blockSlots = pr.blockSlots ∧
    (aGet (pr.processSlot parent slot jE fE).indices ⟨slot, parent⟩).isSome := by
  rw [processSlot_eq]
  split
  · next hs => exact ⟨h, Grow.refl _ _, rfl, hs⟩
  · next hs =>
    have hs' : aGet pr.indices ⟨slot, parent⟩ = none := by simpa using hs
    obtain ⟨a, b, c, d, e⟩ := gapFill_spec pr h parent slot jE fE hs'
    refine ⟨wf_setUpdated _ (wf_push _ a ⟨slot, parent⟩ _ _ parent jE fE e c c) _,
      grow_setUpdated _ _ (b.trans (push_grow _ ⟨slot, parent⟩ _ _ parent jE fE e)) _, d, ?_⟩
    exact Option.isSome_iff_exists.2 ⟨_, push_indices_self (gapFill pr parent slot jE fE).1 ⟨slot, parent⟩
      (gapFill pr parent slot jE fE).2 (gapFill pr parent slot jE fE).2 parent jE fE⟩

/-! ## `ProcessBlock` -/

theorem wf_setBlockSlot (pr : PA) (h : WF pr) (root : Root) (slot : Nat) (b : Bool)
    (hi : (aGet pr.indices ⟨slot, root⟩).isSome) :
    WF { pr with blockSlots := aSet pr.blockSlots root slot, updated := b } :=
  ⟨h.off, h.len, h.idx_sound, h.idx_complete, h.tpar_lt, h.fpar_lt, h.bc_child, h.bd_desc, h.bc_bd,
    fun r s hs => by
      by_cases e : root = r
      · subst e
        simp only [aGet_aSet_self] at hs
        cases hs; exact hi
      · simp only [aGet_aSet_ne _ _ _ _ e] at hs
        exact h.bs_node r s hs⟩

theorem grow_setBlockSlot {P : Root → Prop} (a pr : PA) (g : Grow P a pr) (root : Root) (slot : Nat) (b : Bool)
    (hnew : aGet pr.blockSlots root = none) :
    Grow P a { pr with blockSlots := aSet pr.blockSlots root slot, updated := b } :=
  ⟨g.nodes_old, g.len_le, g.nodes_new, g.idx_old,
    fun r s hs => by
      have h1 := g.bs_old r s hs
      have e : root ≠ r := by intro e; subst e; rw [hnew] at h1; cases h1
      simp only [aGet_aSet_ne _ _ _ _ e]; exact h1,
    g.offset_eq, g.jEpoch_eq, g.fEpoch_eq, g.sink_eq, g.sinkLog_eq⟩

theorem processBlock_spec (pr : PA) (h : WF pr) (parent root : Root) (slot jE fE : Nat) :
    ∃ pr' b, pr.processBlock parent root slot jE fE = some (pr', b) ∧ WF pr' ∧
      Grow (fun r => r = parent ∨ r = root) pr pr' := by
  unfold PA.processBlock
  split
  · exact ⟨pr, true, rfl, h, Grow.refl _ _⟩
  next h1 =>
  split
  · exact ⟨pr, true, rfl, h, Grow.refl _ _⟩
  next h2 =>
  split
  · exact ⟨pr, false, rfl, h, Grow.refl _ _⟩
  next pbs hp =>
  split
  · exact ⟨pr, false, rfl, h, Grow.refl _ _⟩
  next h3 =>
  obtain ⟨w1, g1, bs1, s1⟩ := processSlot_spec pr h parent slot jE fE
  have g1' : Grow (fun r => r = parent ∨ r = root) pr (pr.processSlot parent slot jE fE) :=
    g1.mono (fun _ hr => Or.inl hr)
  simp only []
  split
  · exact ⟨_, false, rfl, w1, g1'⟩
  next fpi hf =>
  split
  · next hn => rw [hn] at s1; cases s1
  next tpi ht =>
  have hne : root ≠ parent := by
    intro e; subst e; rw [hp] at h2; exact h2 rfl
  have h1' : aGet pr.indices ⟨slot, root⟩ = none := by simpa using h1
  have h2' : aGet pr.blockSlots root = none := by simpa using h2
  have hnew : aGet (pr.processSlot parent slot jE fE).indices ⟨slot, root⟩ = none :=
    g1.idx_new h w1 ⟨slot, root⟩ h1' hne
  have w2 := wf_push _ w1 ⟨slot, root⟩ (some tpi) (some fpi) parent jE fE hnew
    (fun p hp => by cases hp; exact w1.idx_lt ht) (fun p hp => by cases hp; exact w1.idx_lt hf)
  have g2 : Grow (fun r => r = parent ∨ r = root) pr
      ((pr.processSlot parent slot jE fE).push ⟨slot, root⟩ (some tpi) (some fpi) parent jE fE) :=
    g1'.trans ((push_grow _ ⟨slot, root⟩ (some tpi) (some fpi) parent jE fE hnew).mono
      (fun _ hr => Or.inr hr))
  refine ⟨_, true, rfl, wf_setBlockSlot _ w2 root slot false ?_, grow_setBlockSlot _ _ g2 root slot false ?_⟩
  · exact Option.isSome_iff_exists.2 ⟨_, push_indices_self _ _ _ _ _ _ _⟩
  · show aGet (pr.processSlot parent slot jE fE).blockSlots root = none
    rw [bs1]; exact h2'

/-! ## the theorems -/

theorem wf_new (parent root : Root) (slot jE fE : Nat) (sink : SinkKind) :
    WF (PA.new parent root slot jE fE sink) := by
  have hget : ∀ (i : Nat) (n : Node), (PA.new parent root slot jE fE sink).nodes[i]? = some n →
      i = 0 ∧ n.ref = ⟨slot, root⟩ ∧ n.tparent = none ∧ n.fparent = none ∧ n.bestChild = none ∧
        n.bestDesc = none := by
    intro i n hn
    cases i with
    | zero => simp [PA.new] at hn; subst hn; simp
    | succ i => simp [PA.new] at hn
  refine ⟨rfl, rfl, ?_, ?_, ?_, ?_, ?_, ?_, ?_, ?_⟩
  · intro r i hr
    by_cases e : (⟨slot, root⟩ : NodeRef) = r
    · subst e; simp [PA.new, aGet] at hr; subst hr; exact ⟨_, rfl, rfl⟩
    · simp [PA.new, aGet, e] at hr
  · intro i n hn
    obtain ⟨h0, hr, -⟩ := hget i n hn
    rw [h0, hr]; simp [PA.new, aGet]
  · intro i n p hn hp; rw [(hget i n hn).2.2.1] at hp; cases hp
  · intro i n p hn hp; rw [(hget i n hn).2.2.2.1] at hp; cases hp
  · intro i n c hn hc; rw [(hget i n hn).2.2.2.2.1] at hc; cases hc
  · intro i n d hn hd; rw [(hget i n hn).2.2.2.2.2] at hd; cases hd
  · intro i n hn; rw [(hget i n hn).2.2.2.2.1, (hget i n hn).2.2.2.2.2]
  · intro r s hs
    by_cases e : root = r
    · subst e; simp [PA.new, aGet] at hs; subst hs; simp [PA.new, aGet]
    · simp [PA.new, aGet, e] at hs

theorem wf_processSlot (pr : PA) (h : WF pr) (parent : Root) (slot jE fE : Nat) :
    WF (pr.processSlot parent slot jE fE) := (processSlot_spec pr h parent slot jE fE).1

/-- `ProcessSlot` only appends fresh nodes whose reference root is `parent` (see `Grow`). -/
theorem processSlot_frame (pr : PA) (h : WF pr) (parent : Root) (slot jE fE : Nat) :
    Grow (· = parent) pr (pr.processSlot parent slot jE fE) := (processSlot_spec pr h parent slot jE fE).2.1

theorem processSlot_blockSlots (pr : PA) (h : WF pr) (parent : Root) (slot jE fE : Nat) :
    (pr.processSlot parent slot jE fE).blockSlots = pr.blockSlots :=
  (processSlot_spec pr h parent slot jE fE).2.2.1

/-- after `ProcessSlot` the reference `(slot, parent)` has a node -/
theorem processSlot_indices_self (pr : PA) (h : WF pr) (parent : Root) (slot jE fE : Nat) :
    (aGet (pr.processSlot parent slot jE fE).indices ⟨slot, parent⟩).isSome :=
  (processSlot_spec pr h parent slot jE fE).2.2.2

/-- `ProcessSlot` creates no key whose root differs from `parent` -/
theorem processSlot_indices_other (pr : PA) (h : WF pr) (parent : Root) (slot jE fE : Nat) (r : NodeRef)
    (hr : aGet pr.indices r = none) (hne : r.root ≠ parent) :
    aGet (pr.processSlot parent slot jE fE).indices r = none :=
  (processSlot_frame pr h parent slot jE fE).idx_new h (wf_processSlot pr h parent slot jE fE) r hr hne

/-- ProcessBlock never hits its panic and keeps the invariant -/
theorem wf_processBlock (pr : PA) (h : WF pr) (parent root : Root) (slot jE fE : Nat) :
    ∃ pr' b, pr.processBlock parent root slot jE fE = some (pr', b) ∧ WF pr' := by
  obtain ⟨pr', b, e, w, _⟩ := processBlock_spec pr h parent root slot jE fE
  exact ⟨pr', b, e, w⟩

/-- `ProcessBlock` only appends fresh nodes whose reference root is `parent` or `root` (see `Grow`). -/
theorem processBlock_frame (pr : PA) (h : WF pr) (parent root : Root) (slot jE fE : Nat) (pr' : PA) (b : Bool)
    (e : pr.processBlock parent root slot jE fE = some (pr', b)) :
    Grow (fun r => r = parent ∨ r = root) pr pr' := by
  obtain ⟨pr'', b', e', _, g⟩ := processBlock_spec pr h parent root slot jE fE
  rw [e] at e'; cases e'; exact g

/-! non-vacuity: `WF` is inhabited, and the insertions really insert -/

example : ∃ pr, WF pr := ⟨_, wf_new 7 1 0 0 0 .absent⟩

example : ((PA.new 7 1 0 0 0 .absent).processSlot 1 3 0 0).nodes.length = 4 := by decide

example : (((PA.new 7 1 0 0 0 .absent).processBlock 1 2 3 0 0).map (fun p => (p.1.nodes.length, p.2))) =
    some (5, true) := by decide

end Zrnt.ForkChoice
