import Proofs.Lemmas.ForkChoiceRefStatic
import Proofs.Lemmas.ForkChoiceInv2
/-!
# Fork choice: node insertion and construction preserve the refinement relation `Ref`

Model and specification append new nodes in the same order, so `a.nodes = absNodes fc.pa.nodes` is kept index by
index.

1. `absNodes_grow`: the abstraction of a grown array (`Grow`) is the old abstraction followed by the new nodes
   (old nodes' parents are old indices, whose references are unchanged); `ref_of_grow`: all other fields of `Ref`
   survive a growth.
2. `ref_processSlot` (through `fillGaps_abs`, `gapFill_abs`, `absNodes_processSlot`: the nodes pushed by
   `ProcessSlot` are, in order, the `mkSlotNode`s of the missing slots; `ref_addSlots` is the form used by
   `ProcessBlock`, where an existing target slot means nothing is missing, by `Contig`).
3. `ref_processBlock`.
4. `new_err`, `new_ok`, `ref_new`, `mref_init`.

Non-vacuity: the `example`s at the end (on `refExFC`/`refExAbs` of `ForkChoiceRefStatic`).
-/
namespace Zrnt.ForkChoice
open Spec

/-! ## 1. `absNodes` of a grown array -/

/-- a grown array starts with the old one -/
theorem Grow.nodes_eq {P : Root → Prop} {pr pr' : PA} (g : Grow P pr pr') :
    pr'.nodes = pr.nodes ++ pr'.nodes.drop pr.nodes.length := by
  have ht : pr'.nodes.take pr.nodes.length = pr.nodes := by
    apply List.ext_getElem?
    intro i
    rw [List.getElem?_take]
    split
    · next hi =>
      have := g.nodes_old i pr.nodes[i] (List.getElem?_eq_getElem hi)
      rw [this, List.getElem?_eq_getElem hi]
    · next hi => rw [List.getElem?_eq_none (Nat.le_of_not_lt hi)]
  conv => lhs; rw [← List.take_append_drop pr.nodes.length pr'.nodes, ht]

theorem refAt_grow {P : Root → Prop} {pr pr' : PA} (g : Grow P pr pr') {p : Nat} (hp : p < pr.nodes.length) :
    refAt pr'.nodes p = refAt pr.nodes p := by
  unfold refAt
  rw [g.nodes_old p pr.nodes[p] (List.getElem?_eq_getElem hp), List.getElem?_eq_getElem hp]

theorem bind_refAt_grow {P : Root → Prop} {pr pr' : PA} (g : Grow P pr pr') (o : Option Idx)
    (ho : ∀ p, o = some p → p < pr.nodes.length) : o.bind (refAt pr'.nodes) = o.bind (refAt pr.nodes) := by
  cases o with
  | none => rfl
  | some p => exact refAt_grow g (ho p rfl)

/-- old nodes keep their abstraction: their parents are old indices -/
theorem absNode_grow {P : Root → Prop} {pr pr' : PA} (h : WF pr) (g : Grow P pr pr') {i : Nat} {n : Node}
    (hn : pr.nodes[i]? = some n) : absNode pr'.nodes n = absNode pr.nodes n := by
  have hi : i < pr.nodes.length := (List.getElem?_eq_some_iff.1 hn).1
  have ht : n.tparent.bind (refAt pr'.nodes) = n.tparent.bind (refAt pr.nodes) := by
    cases hp : n.tparent with
    | none => rfl
    | some p =>
      have := h.tpar_lt i n p hn hp
      exact refAt_grow g (by omega)
  have hf : n.fparent.bind (refAt pr'.nodes) = n.fparent.bind (refAt pr.nodes) := by
    cases hp : n.fparent with
    | none => rfl
    | some p =>
      have := h.fpar_lt i n p hn hp
      exact refAt_grow g (by omega)
  unfold absNode
  rw [ht, hf]

/-- **1.** the abstraction of a grown array: the old abstraction, then the new nodes -/
theorem absNodes_grow {P : Root → Prop} {pr pr' : PA} (h : WF pr) (g : Grow P pr pr') :
    absNodes pr'.nodes =
      absNodes pr.nodes ++ (pr'.nodes.drop pr.nodes.length).map (absNode pr'.nodes) := by
  unfold absNodes
  conv => lhs; arg 2; rw [g.nodes_eq]
  rw [List.map_append]
  congr 1
  apply List.map_congr_left
  intro n hn
  obtain ⟨i, hi⟩ := List.getElem?_of_mem hn
  exact absNode_grow h g hi

/-! ## `Ref` along a growth of the array -/

/-- every field of `Ref` but `nodes` survives a growth of the array -/
theorem ref_of_grow {fc : FC} {a : Abs} (r : Ref fc a) {P : Root → Prop} {pr' : PA} (g : Grow P fc.pa pr')
    {ns : List SNode} (hn : ns = absNodes pr'.nodes) :
    Ref { fc with pa := pr' } { a with nodes := ns } :=
  { spe := r.spe, nodes := hn, votes := r.votes, balances := r.balances, justified := r.justified,
    finalized := r.finalized, pin := r.pin, sink := r.sink.trans g.sink_eq.symm, clean := r.clean,
    jE := g.jEpoch_eq.trans r.jE, fE := g.fEpoch_eq.trans r.fE, fresh := r.fresh,
    next_in := fun v hv => (r.next_in v hv).imp id (fun h => h.imp (fun h => by
      obtain ⟨i, hi⟩ := Option.isSome_iff_exists.1 h
      show (aGet pr'.indices v.next).isSome
      rw [g.idx_old _ i hi]; rfl) id),
    cur_le := r.cur_le, settled := r.settled }

/-! ## appending one node -/

theorem absNodes_push (pr : PA) (h : WF pr) (ref : NodeRef) (tp fp : Option Idx) (pRoot : Root) (jE fE : Nat)
    (hnew : aGet pr.indices ref = none)
    (htp : ∀ p, tp = some p → p < pr.nodes.length) (hfp : ∀ p, fp = some p → p < pr.nodes.length) :
    absNodes (pr.push ref tp fp pRoot jE fE).nodes = absNodes pr.nodes ++
      [{ ref := ref, parentRoot := pRoot, tparent := tp.bind (refAt pr.nodes), fparent := fp.bind (refAt pr.nodes),
         jEpoch := jE, fEpoch := fE }] := by
  have g := push_grow pr ref tp fp pRoot jE fE hnew
  rw [absNodes_grow h g]
  congr 1
  have hd : (pr.push ref tp fp pRoot jE fE).nodes.drop pr.nodes.length =
      [{ ref := ref, tparent := tp, fparent := fp, parentRoot := pRoot, jEpoch := jE, fEpoch := fE, weight := 0,
         bestChild := none, bestDesc := none }] := by
    simp [PA.push]
  rw [hd, List.map_cons, List.map_nil]
  unfold absNode
  simp only [bind_refAt_grow g tp htp, bind_refAt_grow g fp hfp]

/-- appending an empty-slot node below the node of the slot before: the specification's `mkSlotNode` -/
theorem absNodes_push_slot (pr : PA) (h : WF pr) (parent : Root) (i q jE fE : Nat)
    (hnew : aGet pr.indices ⟨i, parent⟩ = none) (hq : aGet pr.indices ⟨i - 1, parent⟩ = some q) :
    absNodes (pr.push ⟨i, parent⟩ (some q) (some q) parent jE fE).nodes =
      absNodes pr.nodes ++ [Abs.mkSlotNode parent jE fE i] := by
  have hql : q < pr.nodes.length := h.idx_lt hq
  rw [absNodes_push pr h _ _ _ _ _ _ hnew (fun p hp => by cases hp; exact hql) (fun p hp => by cases hp; exact hql)]
  obtain ⟨m, hm, hmr⟩ := h.idx_sound _ _ hq
  have : refAt pr.nodes q = some ⟨i - 1, parent⟩ := by rw [refAt_of_node hm, hmr]
  simp only [Option.bind_some, this]
  rfl

/-! ## the gap-filling loop -/

/-- the slots `i, …, i+n-1` of `parent` that have no node -/
def missingOf (pr : PA) (parent : Root) (n i : Nat) : List Nat :=
  ((List.range n).map (· + i)).filter (fun s => !(aGet pr.indices ⟨s, parent⟩).isSome)

theorem missingOf_succ (pr : PA) (parent : Root) (n i : Nat) :
    missingOf pr parent (n + 1) i =
      (if (aGet pr.indices ⟨i, parent⟩).isSome then [] else [i]) ++ missingOf pr parent n (i + 1) := by
  unfold missingOf
  rw [List.range_succ_eq_map, List.map_cons, List.map_map, List.filter_cons, Nat.zero_add]
  have : (List.range n).map ((· + i) ∘ Nat.succ) = (List.range n).map (· + (i + 1)) := by
    apply List.map_congr_left
    intro k _
    show k.succ + i = k + (i + 1)
    omega
  rw [this]
  cases (aGet pr.indices ⟨i, parent⟩).isSome <;> rfl

theorem missingOf_congr (pr pr' : PA) (parent : Root) (n i : Nat)
    (he : ∀ s, i ≤ s → aGet pr'.indices ⟨s, parent⟩ = aGet pr.indices ⟨s, parent⟩) :
    missingOf pr' parent n i = missingOf pr parent n i := by
  unfold missingOf
  apply List.filter_congr
  intro s hs
  obtain ⟨k, _, hk⟩ := List.mem_map.1 hs
  rw [he s (by omega)]

theorem fillGaps_abs (parent : Root) (jE fE : Nat) (n i : Nat) (pr : PA) (pi : Option Idx) (h : WF pr)
    (hpi : ∃ q, pi = some q ∧ aGet pr.indices ⟨i - 1, parent⟩ = some q) (hi : 0 < i) :
    absNodes (PA.fillGaps parent jE fE n i pr pi).1.nodes =
      absNodes pr.nodes ++ (missingOf pr parent n i).map (Abs.mkSlotNode parent jE fE) ∧
    ∃ q, (PA.fillGaps parent jE fE n i pr pi).2 = some q ∧
      aGet (PA.fillGaps parent jE fE n i pr pi).1.indices ⟨i + n - 1, parent⟩ = some q := by
  induction n generalizing i pr pi with
  | zero => exact ⟨by simp [PA.fillGaps, missingOf], hpi⟩
  | succ n ih =>
    have e : i + (n + 1) - 1 = i + 1 + n - 1 := by omega
    rw [e, missingOf_succ]
    unfold PA.fillGaps
    cases hg : aGet pr.indices ⟨i, parent⟩ with
    | some ni =>
      simp only []
      have := ih (i + 1) pr (some ni) h ⟨ni, rfl, by simpa using hg⟩ (by omega)
      simpa using this
    | none =>
      simp only []
      obtain ⟨q, hq1, hq2⟩ := hpi
      subst hq1
      have hql : q < pr.nodes.length := h.idx_lt hq2
      have hw := wf_push pr h ⟨i, parent⟩ (some q) (some q) parent jE fE hg
        (fun p hp => by cases hp; exact hql) (fun p hp => by cases hp; exact hql)
      obtain ⟨h1, h2⟩ := ih (i + 1) (pr.push ⟨i, parent⟩ (some q) (some q) parent jE fE)
        (some (pr.offset + pr.nodes.length)) hw
        ⟨_, rfl, by simpa using push_indices_self pr ⟨i, parent⟩ (some q) (some q) parent jE fE⟩ (by omega)
      refine ⟨?_, h2⟩
      rw [h1, absNodes_push_slot pr h parent i q jE fE hg hq2, missingOf_congr pr _ parent n (i + 1)]
      · simp
      · intro s hs
        apply push_indices_ne
        intro e
        injection e with e1 _
        omega

theorem missingOf_snoc (pr : PA) (parent : Root) (n i : Nat) :
    missingOf pr parent (n + 1) i =
      missingOf pr parent n i ++ (if (aGet pr.indices ⟨n + i, parent⟩).isSome then [] else [n + i]) := by
  unfold missingOf
  rw [List.range_succ, List.map_append, List.filter_append]
  congr 1
  simp only [List.map_cons, List.map_nil, List.filter_cons, List.filter_nil]
  cases (aGet pr.indices ⟨n + i, parent⟩).isSome <;> rfl

/-- with contiguous empty-slot nodes nothing is missing below an existing slot -/
theorem missingOf_nil (pr : PA) (hc : Contig pr) (parent : Root) (first s : Nat)
    (hb : aGet pr.blockSlots parent = some first) (hs : (aGet pr.indices ⟨s, parent⟩).isSome) :
    missingOf pr parent (s - first) (first + 1) = [] := by
  unfold missingOf
  rw [List.filter_eq_nil_iff]
  intro x hx
  obtain ⟨k, hk, e⟩ := List.mem_map.1 hx
  have hk' := List.mem_range.1 hk
  have e' : k + (first + 1) = x := e
  have := hc parent first s x hb hs (by omega) (by omega)
  simp [this]

theorem gapFill_abs (pr : PA) (h : WF pr) (parent : Root) (first s jE fE : Nat)
    (hb : aGet pr.blockSlots parent = some first) (hlt : first < s) :
    absNodes (gapFill pr parent s jE fE).1.nodes =
      absNodes pr.nodes ++ (missingOf pr parent (s - (first + 1)) (first + 1)).map (Abs.mkSlotNode parent jE fE) ∧
    ∃ q, (gapFill pr parent s jE fE).2 = some q ∧
      aGet (gapFill pr parent s jE fE).1.indices ⟨s - 1, parent⟩ = some q := by
  unfold gapFill
  rw [hb]
  simp only []
  obtain ⟨i, hi⟩ := Option.isSome_iff_exists.1 (h.bs_node parent first hb)
  have := fillGaps_abs parent jE fE (s - (first + 1)) (first + 1) pr
    (some ((aGet pr.indices ⟨first, parent⟩).getD 0)) h ⟨i, by rw [hi]; rfl, by simpa using hi⟩ (by omega)
  have e : first + 1 + (s - (first + 1)) - 1 = s - 1 := by omega
  rw [e] at this
  exact this

/-- **the heart**: `ProcessSlot` appends, in order, the `mkSlotNode`s of the missing slots `first+1 … s` -/
theorem absNodes_processSlot (pr : PA) (h : WF pr) (hc : Chain pr) (parent : Root) (first s jE fE : Nat)
    (hb : aGet pr.blockSlots parent = some first) (hle : first ≤ s) :
    absNodes (pr.processSlot parent s jE fE).nodes =
      absNodes pr.nodes ++ (missingOf pr parent (s - first) (first + 1)).map (Abs.mkSlotNode parent jE fE) := by
  rw [processSlot_eq]
  split
  · next hs => rw [missingOf_nil pr (contig_of_chain h hc) parent first s hb hs]; simp
  · next hs =>
    have hs' : aGet pr.indices ⟨s, parent⟩ = none := by simpa using hs
    have hlt : first < s := by
      rcases Nat.lt_or_ge first s with h1 | h1
      · exact h1
      · have : first = s := by omega
        subst this
        have := h.bs_node parent first hb
        rw [hs'] at this; cases this
    obtain ⟨w1, _, _, _, hnew⟩ := gapFill_spec pr h parent s jE fE hs'
    obtain ⟨h1, q, hq1, hq2⟩ := gapFill_abs pr h parent first s jE fE hb hlt
    show absNodes ((gapFill pr parent s jE fE).1.push ⟨s, parent⟩ (gapFill pr parent s jE fE).2
      (gapFill pr parent s jE fE).2 parent jE fE).nodes = _
    rw [hq1, absNodes_push_slot _ w1 parent s q jE fE hnew hq2, h1]
    have e : s - first = (s - (first + 1)) + 1 := by omega
    have e2 : s - (first + 1) + (first + 1) = s := by omega
    rw [e, missingOf_snoc, e2, hs']
    simp

theorem addSlots_eq {fc : FC} {a : Abs} (h : WF fc.pa) (r : Ref fc a) (p : Root) (first s jE fE : Nat) :
    a.addSlots p first s jE fE =
      { a with nodes := a.nodes ++ (missingOf fc.pa p (s - first) (first + 1)).map (Abs.mkSlotNode p jE fE) } := by
  have hm : (List.range (s - first)).map (· + first + 1) = (List.range (s - first)).map (· + (first + 1)) :=
    List.map_congr_left (fun k _ => Nat.add_assoc k first 1)
  have hf : (fun x => !a.has ⟨x, p⟩) = (fun x => !(aGet fc.pa.indices ⟨x, p⟩).isSome) :=
    funext fun x => by rw [has_iff h r]
  unfold Abs.addSlots missingOf
  simp only [hm, hf]

/-- model `ProcessSlot` against the specification's `addSlots` (the form `ProcessBlock` uses) -/
theorem ref_addSlots (fc : FC) (a : Abs) (I : FI fc) (r : Ref fc a) (p : Root) (first s j f : Nat)
    (hb : aGet fc.pa.blockSlots p = some first) (hle : first ≤ s) :
    Ref { fc with pa := fc.pa.processSlot p s j f } (a.addSlots p first s j f) := by
  rw [addSlots_eq I.wf r]
  refine ref_of_grow r (processSlot_frame fc.pa I.wf p s j f) ?_
  rw [absNodes_processSlot fc.pa I.wf I.chain p first s j f hb hle, r.nodes]

/-- **2.** `ProcessSlot` preserves the refinement relation (and does not poison the specification) -/
theorem ref_processSlot (fc : FC) (a : Abs) (I : FI fc) (r : Ref fc a) (p : Root) (s j f : Nat)
    (hok : (aGet fc.pa.indices ⟨s, p⟩).isSome ∨ ∃ s0, aGet fc.pa.blockSlots p = some s0 ∧ s0 ≤ s) :
    Ref { fc with pa := fc.pa.processSlot p s j f } (a.processSlot p s j f) := by
  unfold Abs.processSlot
  rw [has_iff I.wf r]
  by_cases hs : (aGet fc.pa.indices ⟨s, p⟩).isSome
  · rw [if_pos hs, processSlot_eq, if_pos hs]
    exact r
  · rw [if_neg hs]
    rcases hok with hok | ⟨s0, hb, hle⟩
    · exact absurd hok hs
    · rw [firstSlot_eq I.wf I.chain r, hb]
      simp only []
      rw [if_neg (by omega)]
      exact ref_addSlots fc a I r p s0 s j f hb hle

/-! ## `ProcessBlock` -/

/-- **3.** `ProcessBlock` preserves the refinement relation and both sides return the same flag -/
theorem ref_processBlock (fc : FC) (a : Abs) (I : FI fc) (r : Ref fc a) (p root : Root) (s j f : Nat)
    (pr' : PA) (b : Bool) (e : fc.pa.processBlock p root s j f = some (pr', b))
    (hv : aGet fc.pa.blockSlots root = none → a.refersTo root = false) :
    Ref { fc with pa := pr' } (a.processBlock p root s j f).1 ∧ (a.processBlock p root s j f).2 = b := by
  unfold Abs.processBlock
  rw [has_iff I.wf r, known_iff I.wf I.chain r, firstSlot_eq I.wf I.chain r]
  unfold PA.processBlock at e
  split at e
  · next h1 => cases e; rw [if_pos h1]; exact ⟨r, rfl⟩
  next h1 =>
  rw [if_neg h1]
  split at e
  · next h2 => cases e; rw [if_pos h2]; exact ⟨r, rfl⟩
  next h2 =>
  rw [if_neg h2]
  split at e
  · next hp => cases e; rw [hp]; exact ⟨r, rfl⟩
  next first hp =>
  rw [hp]
  simp only []
  split at e
  · next h3 => cases e; rw [if_pos h3]; exact ⟨r, rfl⟩
  next h3 =>
  rw [if_neg h3]
  have hv' : a.refersTo root = false := hv (by cases hb : aGet fc.pa.blockSlots root with | none => rfl | some x => rw [hb] at h2; exact absurd rfl h2)
  simp only [hv', Bool.false_eq_true, if_false]
  obtain ⟨w1, g1, bs1, s1⟩ := processSlot_spec fc.pa I.wf p s j f
  have r1 := ref_addSlots fc a I r p first s j f hp (by omega)
  obtain ⟨fi, nf, hfi, hnf, hnfr⟩ := first_index I.wf hp
  have hfi1 := g1.idx_old _ _ hfi
  simp only [] at e
  rw [hfi1] at e
  simp only [] at e
  obtain ⟨ti, hti⟩ := Option.isSome_iff_exists.1 s1
  rw [hti] at e
  simp only [] at e
  cases e
  have hne : root ≠ p := by
    intro e; subst e; rw [hp] at h2; exact h2 rfl
  have h1' : aGet fc.pa.indices ⟨s, root⟩ = none := by simpa using h1
  have h2' : aGet fc.pa.blockSlots root = none := by simpa using h2
  have hnew : aGet (fc.pa.processSlot p s j f).indices ⟨s, root⟩ = none :=
    g1.idx_new I.wf w1 ⟨s, root⟩ h1' hne
  have g2 := grow_setBlockSlot (fc.pa.processSlot p s j f) _
    (push_grow (fc.pa.processSlot p s j f) ⟨s, root⟩ (some ti) (some fi) p j f hnew) root s false
    (show aGet (fc.pa.processSlot p s j f).blockSlots root = none by rw [bs1]; exact h2')
  refine ⟨ref_of_grow r1 g2 ?_, rfl⟩
  show _ = absNodes ((fc.pa.processSlot p s j f).push ⟨s, root⟩ (some ti) (some fi) p j f).nodes
  rw [absNodes_push _ w1 _ _ _ _ _ _ hnew (fun q hq => by cases hq; exact w1.idx_lt hti)
    (fun q hq => by cases hq; exact w1.idx_lt hfi1), ← r1.nodes]
  obtain ⟨mt, hmt, hmtr⟩ := w1.idx_sound _ _ hti
  obtain ⟨mf, hmf, hmfr⟩ := w1.idx_sound _ _ hfi1
  have et : refAt (fc.pa.processSlot p s j f).nodes ti = some ⟨s, p⟩ := by rw [refAt_of_node hmt, hmtr]
  have ef : refAt (fc.pa.processSlot p s j f).nodes fi = some ⟨first, p⟩ := by rw [refAt_of_node hmf, hmfr]
  simp only [Option.bind_some, et, ef]

/-! ## 4. construction -/

/-- `NewProtoForkChoice` fails when the justified epoch lies before the finalized one … -/
theorem new_err (spe : Nat) (f j : Checkpoint) (ar : Root) (aslot : Nat) (ap : Root) (bals : List Nat)
    (sink : SinkKind) (h : j.epoch < f.epoch) :
    ∃ fc, FC.new spe f j ar aslot ap bals sink = .err fc := by
  unfold FC.new FC.setPin FC.withLock FC.setPinBody PA.closestToSlot
  simp [PA.new, aGet, FC.updateJustifiedInner, h]

/-- … and otherwise returns this state: the pin on the anchor always succeeds, both subtree checks are skipped
(the checkpoints are unchanged), the delta vector of the empty tracker list is `[0]` -/
theorem new_ok (spe : Nat) (f j : Checkpoint) (ar : Root) (aslot : Nat) (ap : Root) (bals : List Nat)
    (sink : SinkKind) (h : ¬ j.epoch < f.epoch) :
    FC.new spe f j ar aslot ap bals sink = .ok
      { pa := PA.new ap ar aslot j.epoch f.epoch sink,
        votes := [], changed := false, spe := spe, balances := bals, pin := some ⟨aslot, ar⟩,
        justified := j, finalized := f, held := false } () := by
  unfold FC.new FC.setPin FC.withLock FC.setPinBody PA.closestToSlot
  simp [PA.new, aGet, FC.updateJustifiedInner, h, FC.checkCp, computeDeltas, computeDeltasLoop,
    PA.applyScoreChanges, PA.pass1, PA.pass2]

/-- **4.** the two constructors fail together, and their results are related -/
theorem ref_new (spe : Nat) (f j : Checkpoint) (ar : Root) (aslot : Nat) (ap : Root) (bals : List Nat)
    (sink : SinkKind) :
    match FC.new spe f j ar aslot ap bals sink, Abs.init spe ar aslot ap j f sink bals with
    | .ok fc _, some a => Ref fc a
    | .err _, none => True
    | _, _ => False := by
  by_cases h : j.epoch < f.epoch
  · obtain ⟨fc, e⟩ := new_err spe f j ar aslot ap bals sink h
    rw [e]
    unfold Abs.init
    rw [if_pos h]
    trivial
  · rw [new_ok spe f j ar aslot ap bals sink h]
    unfold Abs.init
    rw [if_neg h]
    exact
      { spe := rfl, nodes := rfl, votes := rfl, balances := rfl, justified := rfl,
        finalized := rfl, pin := rfl, sink := rfl, clean := rfl, jE := rfl, fE := rfl,
        fresh := fun v hv => (by cases hv), next_in := fun v hv => (by cases hv),
        cur_le := fun v hv => (by cases hv), settled := fun _ v hv => (by cases hv) }

/-- the same on the two machines' states -/
theorem mref_init (st : MState) (sa : Option Abs) (spe : Nat) (ar : Root) (aslot : Nat) (ap : Root)
    (j f : Checkpoint) (sink : SinkKind) (bals : List Nat) :
    MRef (step st (.init spe ar aslot ap j f sink bals)).1 (Spec.step sa (.init spe ar aslot ap j f sink bals)).1 ∧
    (step st (.init spe ar aslot ap j f sink bals)).2 = (Spec.step sa (.init spe ar aslot ap j f sink bals)).2 := by
  have h := ref_new spe f j ar aslot ap bals sink
  unfold step Spec.step
  simp only []
  revert h
  cases FC.new spe f j ar aslot ap bals sink <;> cases Abs.init spe ar aslot ap j f sink bals <;>
    simp [MRef]

/-! ## non-vacuity -/

/-- the full invariant holds on the example instance of `ForkChoiceRefStatic` -/
theorem refEx_fi : FI refExFC := by
  have := new_inv 4 ⟨0, 1⟩ ⟨0, 1⟩ 1 0 0 [32] .absent (by decide)
  rw [new_ok 4 ⟨0, 1⟩ ⟨0, 1⟩ 1 0 0 [32] .absent (by decide)] at this
  rw [refExFC_eq]
  exact this.2

/-- 3 on the example: block `2` at slot `1` on the anchor `(root 1, slot 0)`; three nodes afterwards -/
example : Ref { refExFC with pa := refExPA2 } (refExAbs.processBlock 1 2 1 0 0).1 ∧
    (refExAbs.processBlock 1 2 1 0 0).2 = true :=
  ref_processBlock refExFC refExAbs refEx_fi refEx_ref 1 2 1 0 0 refExPA2 true (by rw [refExFC_eq]; rfl) (fun _ => by decide)

example : (refExAbs.processBlock 1 2 1 0 0).1.nodes.map (·.ref) = [⟨0, 1⟩, ⟨1, 1⟩, ⟨1, 2⟩] ∧
    (refExAbs.processBlock 1 2 1 0 0).1.poisoned = false := by decide

/-- 2 on the example: the side condition is satisfiable and three empty-slot nodes are added on both sides -/
example : Ref { refExFC with pa := refExFC.pa.processSlot 1 3 0 0 } (refExAbs.processSlot 1 3 0 0) :=
  ref_processSlot refExFC refExAbs refEx_fi refEx_ref 1 3 0 0
    (Or.inr ⟨0, by rw [refExFC_eq]; decide, Nat.zero_le _⟩)

example : (refExAbs.processSlot 1 3 0 0).nodes.map (·.ref) = [⟨0, 1⟩, ⟨1, 1⟩, ⟨2, 1⟩, ⟨3, 1⟩] ∧
    (refExFC.pa.processSlot 1 3 0 0).nodes.map (·.ref) = [⟨0, 1⟩, ⟨1, 1⟩, ⟨2, 1⟩, ⟨3, 1⟩] ∧
    (refExAbs.processSlot 1 3 0 0).poisoned = false := by
  rw [refExFC_eq, refExAbs_eq]; decide

/-- 4: both outcomes of the constructors occur -/
example : (∃ fc a, FC.new 4 ⟨0, 1⟩ ⟨0, 1⟩ 1 0 0 [32] .absent = .ok fc () ∧
      Abs.init 4 1 0 0 ⟨0, 1⟩ ⟨0, 1⟩ .absent [32] = some a ∧ Ref fc a) ∧
    (∃ fc, FC.new 4 ⟨1, 1⟩ ⟨0, 1⟩ 1 0 0 [32] .absent = .err fc) ∧
    Abs.init 4 1 0 0 ⟨0, 1⟩ ⟨1, 1⟩ .absent [32] = none := by
  refine ⟨⟨_, _, new_ok 4 ⟨0, 1⟩ ⟨0, 1⟩ 1 0 0 [32] .absent (by decide), rfl, ?_⟩,
    new_err 4 ⟨1, 1⟩ ⟨0, 1⟩ 1 0 0 [32] .absent (by decide), rfl⟩
  have := ref_new 4 ⟨0, 1⟩ ⟨0, 1⟩ 1 0 0 [32] .absent
  rw [new_ok 4 ⟨0, 1⟩ ⟨0, 1⟩ 1 0 0 [32] .absent (by decide)] at this
  exact this

end Zrnt.ForkChoice
