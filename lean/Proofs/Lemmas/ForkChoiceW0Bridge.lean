import Proofs.Lemmas.ForkChoiceInv
import Proofs.Lemmas.ForkChoiceTotal
import Proofs.Lemmas.ForkChoiceW0Inv
/-! The full structure invariant of the machine (`MInv`, ForkChoiceInv.lean) implies the weak one (`MInv0`), so every
state reached under `inv_structure_quiet` / `inv_structure` is a legitimate starting point for `inv_structure_all`;
and the answer-level form of `inv_structure_all` (`run_total_all`, with `Ans.isFatal` of ForkChoiceTotal.lean). -/
namespace Zrnt.ForkChoice

theorem minv_minv0 {st : MState} (h : MInv st) : MInv0 st := by
  cases st with
  | none => trivial
  | live fc => exact ⟨h.1, h.2.toWF0⟩
  | dead => exact h.elim

/-- from a state satisfying the full invariant, ANY continuation (malformed insertions and prunes included) keeps the
machine alive -/
theorem inv_structure_all_of_minv (ops : List Op) (st : MState) (h : MInv st) : MInv0 (run st ops).1 :=
  inv_structure_all ops st (minv_minv0 h)

theorem minv0_alive {st : MState} (h : MInv0 st) : st ≠ .dead := by
  intro e; subst e; exact h

/-- **No call of ANY history panics, blocks on the mutex or loops** — malformed insertions, finalizing updates and
pruning in any combination (`run_total` of ForkChoiceTotal.lean without the hypothesis `Admissible`). -/
theorem run_total_all : ∀ (ops : List Op) (st : MState), MInv0 st → ∀ x ∈ (run st ops).2, x.isFatal = false := by
  intro ops
  induction ops with
  | nil => intro st _ x hx; simp [run] at hx
  | cons op rest ih =>
    intro st h x hx
    have h' := step_inv0 st h op
    have e2 : (run st (op :: rest)).2 = (step st op).2 :: (run (step st op).1 rest).2 := by simp [run]
    rw [e2] at hx
    rcases List.mem_cons.mp hx with e | hx
    · rw [e]; exact step_alive st (minv0_alive h) op (minv0_alive h')
    · exact ih _ h' x hx

/-- from scratch: no answer of any history is `panic`, `blocked` or `dead` -/
theorem run_total_all_none (ops : List Op) : ∀ x ∈ (run .none ops).2, x.isFatal = false :=
  run_total_all ops .none trivial

end Zrnt.ForkChoice
