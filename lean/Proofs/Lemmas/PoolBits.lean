import Zrnt.Pool.Bits
/-!
# Lemmas about `AttestationBits` over raw bytes: the byte-level functions against the bit list they denote
-/
set_option linter.unusedSectionVars false
set_option linter.unusedSimpArgs false
namespace Zrnt.Pool
open Zrnt

/-! ## byte level -/

theorem bitIndex_nat : ∀ n < 256, bitIndex (UInt8.ofNat n) ≤ 7 ∧
    (n ≠ 0 → bitIndex (UInt8.ofNat n) = Nat.log2 n ∧ n.testBit (bitIndex (UInt8.ofNat n)) = true) ∧
    (∀ j < 8, bitIndex (UInt8.ofNat n) < j → n.testBit j = false) := by decide +kernel

theorem UInt8.ofNat_toNat' (v : UInt8) : UInt8.ofNat v.toNat = v := by simp

theorem bitIndex_le (v : UInt8) : bitIndex v ≤ 7 := by
  have := (bitIndex_nat v.toNat v.toNat_lt).1
  rwa [UInt8.ofNat_toNat'] at this

theorem toNat_ne_zero {v : UInt8} (h : v ≠ 0) : v.toNat ≠ 0 := by
  intro e; apply h; apply UInt8.toNat_inj.mp; rw [e]; rfl

theorem bitIndex_eq_log2 (v : UInt8) (h : v ≠ 0) : bitIndex v = Nat.log2 v.toNat := by
  have := ((bitIndex_nat v.toNat v.toNat_lt).2.1 (toNat_ne_zero h)).1
  rwa [UInt8.ofNat_toNat'] at this

theorem testBit_bitIndex (v : UInt8) (h : v ≠ 0) : v.toNat.testBit (bitIndex v) = true := by
  have := ((bitIndex_nat v.toNat v.toNat_lt).2.1 (toNat_ne_zero h)).2
  rwa [UInt8.ofNat_toNat'] at this

theorem testBit_above (v : UInt8) (j : Nat) (hj : j < 8) (h : bitIndex v < j) : v.toNat.testBit j = false := by
  have := (bitIndex_nat v.toNat v.toNat_lt).2.2 j hj
  rw [UInt8.ofNat_toNat'] at this
  exact this h

/-- `y &^ x == 0` says every bit of `y` is a bit of `x` -/
theorem byteCov (x y : UInt8) :
    (y &&& ~~~ x = 0) ↔ ∀ j < 8, y.toNat.testBit j = true → x.toNat.testBit j = true := by
  rw [← UInt8.toBitVec_inj]
  simp only [UInt8.toBitVec_and, UInt8.toBitVec_not, UInt8.toBitVec_zero]
  constructor
  · intro h j hj hy
    have := congrArg (fun v => v.getLsbD j) h
    simp only [BitVec.getLsbD_and, BitVec.getLsbD_not, BitVec.getLsbD_zero, hj, decide_true, Bool.true_and] at this
    simp only [BitVec.getLsbD, UInt8.toNat_toBitVec] at this
    rw [hy] at this
    simpa using this
  · intro h
    apply BitVec.eq_of_getLsbD_eq
    intro j hj
    simp only [BitVec.getLsbD_and, BitVec.getLsbD_not, BitVec.getLsbD_zero, hj, decide_true, Bool.true_and]
    simp only [BitVec.getLsbD, UInt8.toNat_toBitVec]
    have := h j hj
    cases hy : y.toNat.testBit j
    · simp
    · simp [this hy]

/-! ## `bitlistLen`, `getBit`, `bitAt` -/

theorem length_pos_of_getLast? {b : Bits} {last : UInt8} (h : b.getLast? = some last) : 0 < b.length := by
  cases b with
  | nil => simp at h
  | cons x xs => simp

theorem getD_last {b : Bits} {last : UInt8} (h : b.getLast? = some last) : b.getD (b.length - 1) 0 = last := by
  have hp := length_pos_of_getLast? h
  rw [List.getLast?_eq_getElem?] at h
  simp [List.getD, h]

theorem bitlistLen_of_last {b : Bits} {last : UInt8} (h : b.getLast? = some last) :
    bitlistLen b = (b.length - 1) * 8 + bitIndex last := by
  simp [bitlistLen, h]

theorem bitlistLen_nil : bitlistLen [] = 0 := rfl

theorem bitlistLen_lt (b : Bits) (hb : b ≠ []) : bitlistLen b < 8 * b.length := by
  cases h : b.getLast? with
  | none => simp at h; exact absurd h hb
  | some last =>
    have := bitIndex_le last
    have := length_pos_of_getLast? h
    rw [bitlistLen_of_last h]; omega

theorem bitlistLen_le (b : Bits) : bitlistLen b ≤ 8 * b.length := by
  by_cases hb : b = []
  · subst hb; simp [bitlistLen]
  · exact Nat.le_of_lt (bitlistLen_lt b hb)

theorem getBit_eq {b : Bits} {i : Nat} (h : i < 8 * b.length) : getBit b i = .ok (bitAt b i) := by
  have : i / 8 < b.length := by omega
  simp [getBit, bitAt, List.getD, List.getElem?_eq_getElem this]

theorem getBit_of_lt_bitlistLen {b : Bits} {i : Nat} (h : i < bitlistLen b) : getBit b i = .ok (bitAt b i) :=
  getBit_eq (Nat.lt_of_lt_of_le h (bitlistLen_le b))

@[simp] theorem length_toBools (b : Bits) : (toBools b).length = bitlistLen b := by simp [toBools]

/-! ## `Covers` -/

theorem all_zip_getD (f : UInt8 × UInt8 → Bool) (a b : Bits) (h : a.length = b.length) :
    (a.zip b).all f = true ↔ ∀ k < a.length, f (a.getD k 0, b.getD k 0) = true := by
  induction a generalizing b with
  | nil => simp
  | cons x xs ih =>
    cases b with
    | nil => simp at h
    | cons y ys =>
      simp only [List.length_cons, Nat.add_right_cancel_iff] at h
      simp only [List.zip_cons_cons, List.all_cons, Bool.and_eq_true, ih ys h, List.length_cons]
      constructor
      · rintro ⟨h0, hk⟩ k hlt
        cases k with
        | zero => simpa using h0
        | succ k => simpa using hk k (by omega)
      · intro hk
        exact ⟨by simpa using hk 0 (by omega), fun k hlt => by simpa using hk (k + 1) (by omega)⟩

theorem bytesCover_iff (a b : Bits) (h : a.length = b.length) :
    (a.zip b).all (fun p => p.2 &&& ~~~ p.1 = 0) = true ↔
      ∀ i < 8 * a.length, bitAt b i = true → bitAt a i = true := by
  rw [all_zip_getD _ a b h]
  simp only [decide_eq_true_eq, byteCov, bitAt]
  constructor
  · intro hk i hi
    exact hk (i / 8) (by omega) (i % 8) (Nat.mod_lt _ (by omega))
  · intro hi k hk j hj
    have := hi (8 * k + j) (by omega)
    rwa [show (8 * k + j) / 8 = k by omega, show (8 * k + j) % 8 = j by omega] at this

theorem boolsCover_iff (a b : Bits) (L : Nat) :
    (((List.range L).map (bitAt a)).zip ((List.range L).map (bitAt b))).all (fun p => !p.2 || p.1) = true ↔
      ∀ i < L, bitAt b i = true → bitAt a i = true := by
  rw [List.zip_map']
  simp only [List.all_map, List.all_eq_true, List.mem_range, Function.comp]
  constructor
  · intro h i hi hb
    have := h i hi
    simpa [hb] using this
  · intro h i hi
    cases hb : bitAt b i
    · simp
    · simp [h i hi hb]

/-- `AttestationBits.Covers` on valid bitlists is coverage of the denoted bit lists -/
theorem covers_spec' (a b : Bits) (ha : WellFormed a) (hb : WellFormed b) :
    covers a b = BitSpec.covers (toBools a) (toBools b) := by
  obtain ⟨la, hla, hna⟩ := ha
  obtain ⟨lb, hlb, hnb⟩ := hb
  have hpa := length_pos_of_getLast? hla
  have hpb := length_pos_of_getLast? hlb
  have hia := bitIndex_le la
  have hib := bitIndex_le lb
  have hLa := bitlistLen_of_last hla
  have hLb := bitlistLen_of_last hlb
  unfold covers BitSpec.covers
  simp only [length_toBools]
  by_cases hL : bitlistLen a = bitlistLen b
  · have hlen : a.length = b.length := by omega
    have hidx : bitIndex la = bitIndex lb := by omega
    simp only [hL, hlen, ne_eq, not_true_eq_false, if_false]
    congr 1
    rw [Bool.eq_iff_iff, bytesCover_iff a b hlen]
    unfold toBools
    rw [hL, boolsCover_iff]
    constructor
    · intro h i hi; exact h i (by omega)
    · intro h i hi hbi
      by_cases hlt : i < bitlistLen b
      · exact h i hlt hbi
      · have hdiv : i / 8 = a.length - 1 := by omega
        by_cases heq : i = bitlistLen b
        · -- the delimiter bit of `a`
          have hmod : i % 8 = bitIndex la := by omega
          simp only [bitAt, hdiv, getD_last hla, hmod]
          exact testBit_bitIndex la hna
        · -- above the delimiter of `b`: no bit
          exfalso
          have hdivb : i / 8 = b.length - 1 := by omega
          have hmod : bitIndex lb < i % 8 := by omega
          have := testBit_above lb (i % 8) (Nat.mod_lt _ (by omega)) hmod
          simp only [bitAt, hdivb, getD_last hlb] at hbi
          rw [this] at hbi; cases hbi
  · simp [hL]

/-! ## `SingleParticipant` -/

/-- what the loop computes from bit `i` on -/
def singleView (found : Option Nat) (l : List (Bool × Nat)) : Res Nat :=
  match found, l.filter (·.1) with
  | none, [(_, v)] => .ok v
  | none, _ => .err
  | some f, [] => .ok f
  | some _, _ => .err

theorem singleLoop_eq (b : Bits) (rest : List Nat) (i : Nat) (found : Option Nat)
    (h : i + rest.length ≤ 8 * b.length) :
    singleLoop b rest i found = singleView found (((List.range' i rest.length).map (bitAt b)).zip rest) := by
  induction rest generalizing i found with
  | nil => cases found <;> simp [singleLoop, singleView]
  | cons v rest ih =>
    simp only [List.length_cons] at h
    have hg : getBit b i = .ok (bitAt b i) := getBit_eq (by omega)
    have ih' := fun f => ih (i + 1) f (by omega)
    simp only [singleLoop, hg, List.length_cons, List.range'_succ, List.map_cons, List.zip_cons_cons]
    cases hb : bitAt b i
    · simp only [ih', singleView, List.filter_cons, Bool.false_eq_true, if_false]
    · cases found with
      | none =>
        simp only [ih', singleView, List.filter_cons, if_true]
        cases hf : List.filter (fun x => x.1) (((List.range' (i + 1) rest.length).map (bitAt b)).zip rest) with
        | nil => rfl
        | cons x xs => simp
      | some f => simp [singleView, List.filter_cons]

/-- `AttestationBits.SingleParticipant` returns the only member whose bit is set and errs otherwise;
it never panics (also for malformed bitfields) -/
theorem singleParticipant_spec' (a : Bits) (c : List Nat) :
    singleParticipant a c = BitSpec.singleParticipant (toBools a) c := by
  unfold singleParticipant BitSpec.singleParticipant
  simp only [length_toBools]
  by_cases hL : bitlistLen a = c.length
  · simp only [hL, ne_eq, not_true_eq_false, if_false]
    rw [singleLoop_eq a c 0 none (by have := bitlistLen_le a; omega)]
    simp only [singleView, toBools, hL, List.range_eq_range']
    split <;> simp_all
  · simp [hL]

theorem singleParticipant_ne_panic (a : Bits) (c : List Nat) : singleParticipant a c ≠ .panic := by
  rw [singleParticipant_spec']
  unfold BitSpec.singleParticipant
  split
  · simp
  · split <;> simp

/-! ## OR-ing a bitfield into the participants keeps them covering it -/

theorem bitIndex_le_iff_nat : ∀ n < 256, ∀ k < 8, bitIndex (UInt8.ofNat n) ≤ k ↔ n < 2 ^ (k + 1) := by decide +kernel

theorem bitIndex_le_iff (v : UInt8) (k : Nat) (hk : k < 8) : bitIndex v ≤ k ↔ v.toNat < 2 ^ (k + 1) := by
  have := bitIndex_le_iff_nat v.toNat v.toNat_lt k hk
  rwa [UInt8.ofNat_toNat'] at this

theorem bitIndex_or (x y : UInt8) (h : bitIndex x = bitIndex y) : bitIndex (x ||| y) = bitIndex y := by
  have hk := bitIndex_le y
  have hx : x.toNat < 2 ^ (bitIndex y + 1) := (bitIndex_le_iff x _ (by omega)).mp (by omega)
  have hy : y.toNat < 2 ^ (bitIndex y + 1) := (bitIndex_le_iff y _ (by omega)).mp (by omega)
  have hor : (x ||| y).toNat = x.toNat ||| y.toNat := UInt8.toNat_or x y
  have hup : bitIndex (x ||| y) ≤ bitIndex y := by
    rw [bitIndex_le_iff _ _ (by omega), hor]; exact Nat.or_lt_two_pow hx hy
  by_cases h0 : bitIndex y = 0
  · omega
  · have hlow : ¬ bitIndex (x ||| y) ≤ bitIndex y - 1 := by
      rw [bitIndex_le_iff _ _ (by omega), hor]
      have : ¬ y.toNat < 2 ^ (bitIndex y - 1 + 1) := by
        rw [← bitIndex_le_iff _ _ (by omega)]; omega
      have : y.toNat ≤ x.toNat ||| y.toNat := Nat.right_le_or
      omega
    omega

theorem byteCov_self (x : UInt8) : x &&& ~~~ x = 0 := (byteCov x x).mpr (fun _ _ h => h)

theorem byteCov_or (u x : UInt8) : x &&& ~~~ (u ||| x) = 0 := by
  rw [byteCov]
  intro j _ h
  rw [UInt8.toNat_or, Nat.testBit_or, h, Bool.or_true]

theorem bitlistLen_zipWith_or (u b : Bits) (h1 : bitlistLen u = bitlistLen b) (h2 : u.length = b.length) :
    bitlistLen (u.zipWith (· ||| ·) b) = bitlistLen b := by
  have hlen : (u.zipWith (· ||| ·) b).length = b.length := by simp [h2]
  cases hb : b.getLast? with
  | none =>
    have : b = [] := by simpa using hb
    subst this; simp [bitlistLen]
  | some lb =>
    have hpos := length_pos_of_getLast? hb
    cases hu : u.getLast? with
    | none =>
      have : u = [] := by simpa using hu
      subst this; simp at h2; omega
    | some lu =>
      have hz : (u.zipWith (· ||| ·) b).getLast? = some (lu ||| lb) := by
        rw [List.getLast?_eq_getElem?] at hb hu ⊢
        rw [hlen, List.getElem?_zipWith]
        rw [h2] at hu
        rw [hu, hb]
      rw [bitlistLen_of_last hz, bitlistLen_of_last hb, hlen]
      rw [bitlistLen_of_last hu, bitlistLen_of_last hb, h2] at h1
      have := bitIndex_or lu lb (by omega)
      omega

theorem covers_ok_lens {a b : Bits} {r : Bool} (h : covers a b = .ok r) :
    bitlistLen a = bitlistLen b ∧ a.length = b.length := by
  unfold covers at h
  split at h
  · cases h
  · split at h
    · cases h
    · rename_i h1 h2; exact ⟨by simpa using h1, by simpa using h2⟩

theorem covers_self (b : Bits) : covers b b = .ok true := by
  unfold covers
  simp only [ne_eq, not_true_eq_false, if_false]
  congr 1
  rw [all_zip_getD _ b b rfl]
  intro k _; simp [byteCov_self]

theorem covers_or_self (u b : Bits) (h1 : bitlistLen u = bitlistLen b) (h2 : u.length = b.length) :
    covers (u.zipWith (· ||| ·) b) b = .ok true := by
  have hlen : (u.zipWith (· ||| ·) b).length = b.length := by simp [h2]
  unfold covers
  rw [if_neg (by simp [bitlistLen_zipWith_or u b h1 h2]), if_neg (by simp [hlen])]
  congr 1
  rw [all_zip_getD _ _ b hlen]
  intro k hk
  rw [hlen] at hk
  have hku : k < u.length := by omega
  simp [List.getD, List.getElem?_zipWith, List.getElem?_eq_getElem hk, List.getElem?_eq_getElem hku, byteCov_or]

end Zrnt.Pool
