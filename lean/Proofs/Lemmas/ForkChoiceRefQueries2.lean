import Proofs.Lemmas.ForkChoiceSimBase
/-!
# Fork choice (C11): `CanonAtSlot` and `Search` refine the specification

For a model state `fc` related to a specification state `a` (`Ref fc a`) that satisfies the invariants of the
admissible histories (`FI fc`: structure, chain structure, weights; `LI fc.pa`: links) and whose votes are
settled:

* `canonAt_refines`: `PA.canonAtSlot` returns, leaves a related state and answers exactly `Abs.canonAt`
  (the same reference, or an error on both sides). The backwards walk `canonWalk` is related to the filtered
  list of transition ancestors by `RefQ2.canonWalk_eq`; the only chain facts needed are `RefQ2.tparent_slot`
  (slots never increase along transition parents, and decrease strictly below a non-block node), both derived
  from `Chain`. No additional well-formedness hypothesis is needed.
* `search_refines` (and the stronger `search_refines_eq`: the lists are equal, both sides enumerate the nodes in
  array order): whenever the specification constrains the answer (the anchor is the first node of its root; with
  or without options: a search without options answers the heads, the blocks without a child block),
  `PA.search` returns, leaves a related state and answers `Abs.search`. Ingredients: `RefQ2.inSubtreeIdx_eq_anc'` (the subtree test for an arbitrary lookup
  node), `RefQ2.canon_eq` (head or best descendant = head ⇔ ancestor-or-self of the head, through
  `RefQ2.bestPath_onpath`), `RefQ2.searchLoop_eq` (the loop as two filters), `RefQ2.hasChildBlock_eq` (the model's
  list of parent roots of block nodes contains a root iff the specification's `hasChildBlock` holds for it).

Non-vacuity: `q2Ex_hyps` and the examples at the end (a forked array with six nodes on which the walk of
`CanonAtSlot` runs through block and empty-slot nodes and `Search`, with and without options, finds canonical
and non-canonical blocks), and `q3Ex_hyps` (the same array before the last empty slot: the head is a block node,
and `CanonAtSlot` at the slot of the head respects the wanted kind).
-/
namespace Zrnt.ForkChoice.RefQ2
open Zrnt.ForkChoice Spec

/-- everything the queries need to know about the `findHead` they start with -/
def HeadPost (fc : FC) (a : Abs) (root : Root) (slot : Nat) : POut PA NodeRef → Prop
  | .ok s ref => Ref { fc with pa := s } a ∧ FI { fc with pa := s } ∧ LI s ∧ s.updated = true ∧
      a.headFrom ⟨slot, root⟩ = some ref ∧ s.findHead root slot = .ok s ref ∧ (aGet s.indices ref).isSome
  | .err s => Ref { fc with pa := s } a ∧ a.headFrom ⟨slot, root⟩ = none
  | _ => False

theorem headPost_updated (fc : FC) (a : Abs) (I : FI fc) (hl : LI fc.pa) (r : Ref fc a)
    (hset : ∀ v ∈ fc.votes, v.cur = v.next) (hu : fc.pa.updated = true) (root : Root) (slot : Nat) :
    HeadPost fc a root slot (fc.pa.findHead root slot) := by
  have hs := findHead_sim fc a I hl r hset root slot
  have hfe := findHead_eq fc.pa root slot
  rw [hu] at hfe
  simp only [if_true] at hfe
  rcases findHeadStep_cases fc.pa I.wf root slot with ⟨ref, e, hi⟩ | e
  · rw [e] at hfe
    rw [hfe] at hs ⊢
    exact ⟨hs.1, I, hl, hu, hs.2, hfe, hi⟩
  · rw [e] at hfe
    rw [hfe] at hs ⊢
    exact hs

theorem headPost (fc : FC) (a : Abs) (I : FI fc) (hl : LI fc.pa) (r : Ref fc a)
    (hset : ∀ v ∈ fc.votes, v.cur = v.next) (root : Root) (slot : Nat) :
    HeadPost fc a root slot (fc.pa.findHead root slot) := by
  by_cases hu : fc.pa.updated = true
  · exact headPost_updated fc a I hl r hset hu root slot
  · have hu' : fc.pa.updated = false := by simpa using hu
    obtain ⟨pr1, h1, hw1, hu1, hf1⟩ := wf_updateConnections fc.pa I.wf
    have e1 : (fc.pa.updateConnections).1 = pr1 := by rw [h1]
    rw [findHead_refresh fc.pa I.wf hu', e1]
    have r1 : Ref { fc with pa := pr1 } a := ref_frame fc a r pr1 hf1
    have I1 : FI { fc with pa := pr1 } := PInv.frame I hw1 hf1
    have hl1 : LI pr1 := li_conn fc.pa pr1 I.wf I.chain hl (Or.inr ⟨hu', e1.symm⟩)
    have := headPost_updated { fc with pa := pr1 } a I1 hl1 r1 hset hu1 root slot
    revert this
    show HeadPost { fc with pa := pr1 } a root slot (pr1.findHead root slot) → _
    cases pr1.findHead root slot with
    | ok s ref => exact fun h => h
    | err s => exact fun h => h
    | panic => exact fun h => h
    | spin => exact fun h => h


/-! ## the transition-parent chain: slots never increase -/

/-- one step along a transition parent: the parent exists, its slot is not higher, and it is strictly lower
unless the node is a block node -/
theorem tparent_slot {pr : PA} (h : WF pr) (hc : Chain pr) {i p : Nat} {n : Node}
    (hn : pr.nodes[i]? = some n) (hp : n.tparent = some p) :
    ∃ m, pr.nodes[p]? = some m ∧ m.ref.slot ≤ n.ref.slot ∧
      (n.parentRoot = n.ref.root → m.ref.slot < n.ref.slot) := by
  obtain ⟨s0, hb, hk⟩ := hc.ok i n hn
  rcases hk with ⟨hlt, q, ht, _, hq⟩ | ⟨heq, hk⟩
  · rw [ht] at hp; cases hp
    obtain ⟨m, hm, hmr⟩ := h.idx_sound _ _ hq
    refine ⟨m, hm, ?_, fun _ => ?_⟩
    · rw [hmr]; show n.ref.slot - 1 ≤ n.ref.slot; omega
    · rw [hmr]; show n.ref.slot - 1 < n.ref.slot; omega
  · rcases hk with ⟨h1, _⟩ | ⟨hne, p0, t, f, _, _, ht, hti, _, _⟩
    · rw [h1] at hp; cases hp
    · rw [ht] at hp; cases hp
      obtain ⟨m, hm, hmr⟩ := h.idx_sound _ _ hti
      refine ⟨m, hm, ?_, fun e => absurd e hne⟩
      rw [hmr]; show s0 ≤ n.ref.slot; omega

section
variable {fc : FC} {a : Abs}

/-- unfolding the specification's list of transition ancestors at a node of the array -/
theorem tAncestors_node (h : WF fc.pa) (r : Ref fc a) {i : Nat} {n : Node} (hn : fc.pa.nodes[i]? = some n)
    (f : Nat) :
    a.tAncestors (f + 1) n.ref = absNode fc.pa.nodes n ::
      (match n.tparent with
       | some p => (match fc.pa.nodes[p]? with | some m => a.tAncestors f m.ref | none => [])
       | none => []) := by
  rw [Abs.tAncestors, find_node h r hn]
  simp only
  cases hp : n.tparent with
  | none => rw [absNode_tparent_none _ hp]
  | some p =>
    obtain ⟨np, hnp, e⟩ := absNode_tparent_of h hn hp
    rw [e]; simp only [hnp]

/-- every transition ancestor sits at the node's slot or below -/
theorem tAncestors_slot_le (h : WF fc.pa) (hc : Chain fc.pa) (r : Ref fc a) :
    ∀ (f i : Nat) (n : Node), fc.pa.nodes[i]? = some n →
      ∀ m ∈ a.tAncestors f n.ref, m.ref.slot ≤ n.ref.slot := by
  intro f
  induction f with
  | zero => intro i n _ m hm; simp [Abs.tAncestors] at hm
  | succ f ih =>
    intro i n hn m hm
    rw [tAncestors_node h r hn] at hm
    rcases List.mem_cons.1 hm with e | hm
    · subst e; exact Nat.le_refl _
    · cases hp : n.tparent with
      | none => rw [hp] at hm; cases hm
      | some p =>
        obtain ⟨np, hnp, hle, _⟩ := tparent_slot h hc hn hp
        rw [hp] at hm
        simp only [hnp] at hm
        exact Nat.le_trans (ih p np hnp m hm) hle

/-- no transition ancestor at a slot above the node's -/
theorem tAncestors_filter_nil (h : WF fc.pa) (hc : Chain fc.pa) (r : Ref fc a) {i : Nat} {n : Node}
    (hn : fc.pa.nodes[i]? = some n) (f slot : Nat) (hlt : n.ref.slot < slot) :
    (a.tAncestors f n.ref).filter (fun m : SNode => m.ref.slot = slot) = [] := by
  rw [List.filter_eq_nil_iff]
  intro m hm
  have := tAncestors_slot_le h hc r f i n hn m hm
  simp only [decide_eq_true_eq]
  omega

/-- what the backwards walk of `CanonAtSlot` has to return, given the transition ancestors at the slot -/
def walkSpec (wb : Bool) (l : List SNode) : PA.WalkRes :=
  if wb then
    match l.find? (·.isBlock) with
    | some n => .found n.ref
    | none => if l.isEmpty then .notFound else .found NodeRef.zero
  else
    match l.find? (fun n => !n.isBlock) with
    | some n => .found n.ref
    | none => .notFound

theorem isBlock_absNode (ns : List Node) (n : Node) : (absNode ns n).isBlock = (n.parentRoot != n.ref.root) := rfl

/-- the walk of `CanonAtSlot` from a node of the array returns what the specification reads off the list of
transition ancestors (for any sufficient fuels) -/
theorem canonWalk_eq (h : WF fc.pa) (hc : Chain fc.pa) (r : Ref fc a) (slot : Nat) (wb : Bool) :
    ∀ (i : Nat) (n : Node), fc.pa.nodes[i]? = some n → ∀ f1 f2 : Nat, i < f1 → i < f2 →
      fc.pa.canonWalk slot wb f1 (some i) =
        walkSpec wb ((a.tAncestors f2 n.ref).filter (fun m : SNode => m.ref.slot = slot)) := by
  intro i
  induction i using Nat.strongRecOn with
  | _ i ih =>
    intro n hn f1 f2 h1 h2
    obtain ⟨g1, rfl⟩ : ∃ g, f1 = g + 1 := ⟨f1 - 1, by omega⟩
    obtain ⟨g2, rfl⟩ : ∃ g, f2 = g + 1 := ⟨f2 - 1, by omega⟩
    -- the recursive call, whatever the parent is
    have hrec : fc.pa.canonWalk slot wb g1 n.tparent =
        walkSpec wb ((match n.tparent with
          | some p => (match fc.pa.nodes[p]? with | some m => a.tAncestors g2 m.ref | none => [])
          | none => []).filter (fun m : SNode => m.ref.slot = slot)) := by
      cases hp : n.tparent with
      | none =>
        simp only [List.filter_nil]
        cases g1 <;> cases wb <;> simp [PA.canonWalk, walkSpec]
      | some p =>
        obtain ⟨np, hnp, _, _⟩ := tparent_slot h hc hn hp
        have hlt := h.tpar_lt i n p hn hp
        simp only [hnp]
        exact ih p hlt np hnp g1 g2 (by omega) (by omega)
    rw [tAncestors_node h r hn, PA.canonWalk]
    simp only [h.off, Nat.not_lt_zero, if_false, getNode_eq h, hn]
    rw [List.filter_cons]
    by_cases hs : n.ref.slot = slot
    · -- the node is at the wanted slot
      simp only [absNode_ref, hs, decide_true, if_true]
      by_cases hb : n.parentRoot = n.ref.root
      · -- an empty-slot node (or the anchor): nothing else at this slot further down
        have hnil : (match n.tparent with
            | some p => (match fc.pa.nodes[p]? with | some m => a.tAncestors g2 m.ref | none => [])
            | none => []).filter (fun m : SNode => m.ref.slot = slot) = [] := by
          cases hp : n.tparent with
          | none => rfl
          | some p =>
            obtain ⟨np, hnp, _, hlt⟩ := tparent_slot h hc hn hp
            simp only [hnp]
            exact tAncestors_filter_nil h hc r hnp g2 slot (by have := hlt hb; omega)
        rw [hnil]
        have hbl : (absNode fc.pa.nodes n).isBlock = false := by rw [isBlock_absNode]; simp [hb]
        cases wb <;> simp [walkSpec, hbl, hb, absNode_ref]
      · have hbl : (absNode fc.pa.nodes n).isBlock = true := by rw [isBlock_absNode]; simp [hb]
        cases wb
        · simp only [Bool.not_false, Bool.true_and, ne_eq, hb, not_false_eq_true, decide_true, if_true, hrec]
          simp [walkSpec, hbl]
        · have hb' : ¬ n.ref.root = n.parentRoot := fun e => hb e.symm
          simp [walkSpec, hbl, hb, hb', absNode_ref]
    · simp only [absNode_ref, hs, decide_false, if_false, Bool.false_eq_true]
      by_cases hlt : n.ref.slot < slot
      · -- below the wanted slot: nothing further down either
        have hnil : (match n.tparent with
            | some p => (match fc.pa.nodes[p]? with | some m => a.tAncestors g2 m.ref | none => [])
            | none => []).filter (fun m : SNode => m.ref.slot = slot) = [] := by
          cases hp : n.tparent with
          | none => rfl
          | some p =>
            obtain ⟨np, hnp, hle, _⟩ := tparent_slot h hc hn hp
            simp only [hnp]
            exact tAncestors_filter_nil h hc r hnp g2 slot (by omega)
        rw [hnil] at hrec ⊢
        by_cases hb : n.parentRoot = n.ref.root
        · cases wb <;> simp [walkSpec, hb, hlt]
        · cases wb
          · simp only [Bool.not_false, Bool.true_and, ne_eq, hb, not_false_eq_true, decide_true, if_true, hrec]
          · simp [walkSpec, hlt]
      · simp only [hlt, if_false, hrec]
        split <;> rfl

/-! ## `CanonAtSlot` -/

/-- outcome of a query answering a node reference: related state, and the specification's answer -/
def RefPost (fc : FC) (a : Abs) (ans : Ans) : POut PA NodeRef → Prop
  | .ok s ref => Ref { fc with pa := s } a ∧ ans = Ans.ref ref
  | .err s => Ref { fc with pa := s } a ∧ ans = Ans.err
  | _ => False

/-- the last step of `CanonAtSlot`: turning the result of the walk into the answer -/
theorem walk_answer (fc : FC) (a : Abs) (s : PA) (r' : Ref { fc with pa := s } a) (wb : Bool) (l : List SNode) :
    RefPost fc a
      (if wb then
        match l.find? (·.isBlock) with
        | some n => Ans.ref n.ref
        | none => if l.isEmpty then Ans.err else Ans.ref NodeRef.zero
      else
        match l.find? (fun n => !n.isBlock) with
        | some n => Ans.ref n.ref
        | none => Ans.err)
      (match walkSpec wb l with
       | .found x => POut.ok s x
       | .notFound => POut.err s
       | .error => POut.err s) := by
  unfold walkSpec
  cases wb
  · simp only [Bool.false_eq_true, if_false]
    cases l.find? (fun n => !n.isBlock) with
    | none => exact ⟨r', rfl⟩
    | some n => exact ⟨r', rfl⟩
  · simp only [if_true]
    cases l.find? (·.isBlock) with
    | none =>
      simp only
      cases l.isEmpty
      · exact ⟨r', rfl⟩
      · exact ⟨r', rfl⟩
    | some n => exact ⟨r', rfl⟩

theorem canonAt_post (fc : FC) (a : Abs) (I : FI fc) (hl : LI fc.pa) (r : Ref fc a)
    (hset : ∀ v ∈ fc.votes, v.cur = v.next) (root : Root) (slot : Nat) (wb : Bool) :
    RefPost fc a (a.canonAt root slot wb) (fc.pa.canonAtSlot root slot wb) := by
  unfold Abs.canonAt PA.canonAtSlot
  rw [firstSlot_eq I.wf I.chain r]
  cases hb : aGet fc.pa.blockSlots root with
  | none => exact ⟨r, rfl⟩
  | some first =>
    simp only
    by_cases h1 : first > slot
    · rw [if_pos h1, if_pos h1]; exact ⟨r, rfl⟩
    · rw [if_neg h1, if_neg h1]
      by_cases h2 : first = slot
      · rw [if_pos h2, if_pos h2]
        subst h2
        obtain ⟨i, n, hi, hn, hnr⟩ := first_index I.wf hb
        rw [find_of_index I.wf r hi hn]
        have hroot : n.ref.root = root := by rw [hnr]
        cases wb
        · simp only [Bool.not_false, if_true, hi, hn, Bool.true_and, isBlock_absNode, hroot]
          by_cases hpr : n.parentRoot = root
          · simp only [hpr, ne_eq, not_true_eq_false, if_false, bne_self_eq_false, Bool.false_eq_true]
            exact ⟨r, rfl⟩
          · have : (n.parentRoot != root) = true := by simp [hpr]
            simp only [ne_eq, hpr, not_false_eq_true, if_true, this]
            exact ⟨r, rfl⟩
        · simp only [Bool.not_true, Bool.false_eq_true, if_false, Bool.false_and]
          exact ⟨r, rfl⟩
      · rw [if_neg h2, if_neg h2]
        have hp := headPost fc a I hl r hset root first
        revert hp
        cases fc.pa.findHead root first with
        | panic => exact fun hp => hp
        | spin => exact fun hp => hp
        | err s => intro hp; rw [hp.2]; exact ⟨hp.1, rfl⟩
        | ok s head =>
          intro hp
          obtain ⟨r', I', _, _, hh, _, hix⟩ := hp
          rw [hh]
          simp only
          by_cases h3 : head.slot < slot
          · rw [if_pos h3, if_pos h3]; exact ⟨r', rfl⟩
          · rw [if_neg h3, if_neg h3]
            obtain ⟨x, hx⟩ := Option.isSome_iff_exists.1 hix
            obtain ⟨nh, hnh, hnr⟩ := I'.wf.idx_sound _ _ hx
            have hxl : x < s.nodes.length := (List.getElem?_eq_some_iff.1 hnh).1
            have hw := canonWalk_eq (fc := { fc with pa := s }) I'.wf I'.chain r' slot wb x nh hnh (x + 1) a.fuel
              (Nat.lt_succ_self x) (by rw [fuel_eq r']; exact Nat.lt_succ_of_lt hxl)
            rw [hnr] at hw
            simp only [hx, Option.getD_some]
            rw [show ({ fc with pa := s } : FC).pa = s from rfl] at hw
            rw [hw]
            exact walk_answer fc a s r' wb _

end
end Zrnt.ForkChoice.RefQ2

namespace Zrnt.ForkChoice
open Spec

/-- **`CanonAtSlot` refines `Abs.canonAt`.** On a settled state satisfying the invariants, the model's
`CanonAtSlot` returns (never panics or loops), leaves a related state, and answers exactly as the
specification: the same node reference, or an error on both sides. -/
theorem canonAt_refines (fc : FC) (a : Abs) (I : FI fc) (hl : LI fc.pa) (r : Ref fc a)
    (hset : ∀ v ∈ fc.votes, v.cur = v.next) (root : Root) (slot : Nat) (wb : Bool) :
    match fc.pa.canonAtSlot root slot wb with
    | .ok s ref => Ref { fc with pa := s } a ∧ a.canonAt root slot wb = Ans.ref ref
    | .err s => Ref { fc with pa := s } a ∧ a.canonAt root slot wb = Ans.err
    | _ => False := by
  have h := RefQ2.canonAt_post fc a I hl r hset root slot wb
  revert h
  cases fc.pa.canonAtSlot root slot wb with
  | ok s ref => exact fun h => h
  | err s => exact fun h => h
  | panic => exact fun h => h
  | spin => exact fun h => h

end Zrnt.ForkChoice

namespace Zrnt.ForkChoice.RefQ2
open Zrnt.ForkChoice Spec

/-! ## `Search`: the subtree test, for any candidate node -/

/-- `inSubtreeIdx_eq_anc` for an arbitrary lookup node (only the anchor has to be the first node of its root):
the proof of `ForkChoiceChain` never uses that the lookup node is a first node -/
theorem inSubtreeIdx_eq_anc' (pr : PA) (h : WF pr) (hc : Chain pr) (ra : Root) (sa a l : Nat) (nl : Node)
    (ha : aGet pr.blockSlots ra = some sa) (ia : aGet pr.indices ⟨sa, ra⟩ = some a)
    (hnl : pr.nodes[l]? = some nl) :
    pr.inSubtreeIdx a l = some (false, anc pr.nodes a l) := by
  obtain ⟨na, hna, _⟩ := h.idx_sound _ _ ia
  have hfa : ∃ r, FirstOf pr r a := ⟨ra, sa, ha, ia⟩
  have hiff := anc_iff_reach pr.nodes h.fpar_lt2 a l
  unfold PA.inSubtreeIdx
  by_cases hal : a = l
  · subst hal
    rw [if_pos rfl, hiff.2 .refl]
  · rw [if_neg hal, getNode_off0 h, getNode_off0 h, hna, hnl]
    simp only []
    cases hA : anc pr.nodes a l with
    | true =>
      have hr := hiff.1 hA
      have h1 : na.ref.slot < nl.ref.slot := by
        rcases reach_slot h hc hr na nl hna hnl with e | e
        · exact absurd e hal
        · exact e
      have h2 : a < l := by have := hr.le h.fpar_lt2; omega
      rw [if_neg (show ¬ na.ref.slot ≥ nl.ref.slot from by omega), if_neg (show ¬ a ≥ l from by omega)]
      split
      · rfl
      · cases treach_of_reach h hc hr with
        | refl => exact absurd rfl hal
        | @step _ p hp hr' =>
          have hpl := h.tpar_lt2 l p hp
          have hll : l < pr.nodes.length := (List.getElem?_eq_some_iff.1 hnl).1
          rw [tpar_of_node hnl] at hp
          rw [hp, subWalk_complete h a na.bestDesc (l + 1 + pr.nodes.length) p hr' (by omega) (by omega)]
    | false =>
      split
      · rfl
      next h1 =>
      split
      · rfl
      next h2 =>
      split
      · next h3 =>
        have := hiff.2 (shortcut_sound h hna hnl (Nat.le_of_lt (Nat.lt_of_not_le h2)) h3)
        rw [hA] at this; cases this
      · obtain ⟨b, hb⟩ := subWalk_some h a na.bestDesc (l + 1 + pr.nodes.length) nl.tparent
          (fun p hp => by
            have := h.tpar_lt l nl p hnl hp
            have hll : l < pr.nodes.length := (List.getElem?_eq_some_iff.1 hnl).1
            omega)
        rw [hb]
        cases b with
        | false => rfl
        | true =>
          have := hiff.2 (subWalk_sound h hc hfa hna l (l + 1 + pr.nodes.length) nl.tparent
            (fun p hp => PReach.step (by rw [tpar_of_node hnl]; exact hp) .refl) hb)
          rw [hA] at this; cases this

/-! ## `Search`: canonical = on the best-child path -/

/-- the end of the best-child path from `x` lies in the subtree of `x` -/
theorem reach_bestPath (pr : PA) (h : WF pr) : ∀ (f x : Nat), PReach (fpar pr.nodes) x (bestPath pr f x) := by
  intro f
  induction f with
  | zero => intro x; exact .refl
  | succ f ih =>
    intro x
    rw [bestPath]
    cases hn : pr.nodes[x]? with
    | none => exact .refl
    | some n =>
      simp only [Option.bind_some]
      cases hbc : n.bestChild with
      | none => exact .refl
      | some b =>
        simp only []
        have hp := h.bc_child x n b hn hbc
        exact (PReach.step hp .refl).trans (ih b)

/-- a proper ancestor of a node is an ancestor-or-self of its parent -/
theorem reach_parent {par : Nat → Option Nat} {j b x : Nat} (hr : PReach par j b) (hne : j ≠ b)
    (hp : par b = some x) : PReach par j x := by
  cases hr with
  | refl => exact absurd rfl hne
  | step hp' hr' => rw [hp] at hp'; cases hp'; exact hr'

theorem bestPath_succ (pr : PA) (f i : Nat) :
    bestPath pr (f + 1) i =
      (match (pr.nodes[i]?).bind (·.bestChild) with
       | none => i
       | some b => bestPath pr f b) := rfl

/-- a node between `x` and the end of the best-child path from `x` lies on that path -/
theorem bestPath_onpath (pr : PA) (h : WF pr) :
    ∀ (f x j : Nat), pr.nodes.length ≤ x + f → PReach (fpar pr.nodes) x j →
      PReach (fpar pr.nodes) j (bestPath pr f x) → bestPath pr f j = bestPath pr f x := by
  intro f
  induction f with
  | zero =>
    intro x j _ h1 h2
    have := h1.le h.fpar_lt2
    have h3 : j ≤ x := h2.le h.fpar_lt2
    have : j = x := by omega
    rw [this]
  | succ f ih =>
    intro x j hlen h1 h2
    by_cases hjx : j = x
    · rw [hjx]
    · have hxj : x < j := by have := h1.le h.fpar_lt2; omega
      rw [bestPath_succ pr f x] at h2 ⊢
      cases hn : pr.nodes[x]? with
      | none =>
        rw [hn] at h2; simp only [Option.bind_none] at h2
        have := h2.le h.fpar_lt2; omega
      | some n =>
        rw [hn] at h2
        simp only [Option.bind_some] at h2 ⊢
        cases hbc : n.bestChild with
        | none =>
          rw [hbc] at h2; simp only [] at h2
          have := h2.le h.fpar_lt2; omega
        | some b =>
          rw [hbc] at h2
          simp only [] at h2 ⊢
          have hp := h.bc_child x n b hn hbc
          have hxb := h.fpar_lt2 b x hp
          have hbj : PReach (fpar pr.nodes) b j := by
            rcases Nat.lt_or_ge j b with hlt | hle
            · have hjb : PReach (fpar pr.nodes) j b :=
                h2.comparable h.fpar_lt2 (reach_bestPath pr h f b) (Nat.le_of_lt hlt)
              have := (reach_parent hjb (Nat.ne_of_lt hlt) hp).le h.fpar_lt2
              omega
            · exact (reach_bestPath pr h f b).comparable h.fpar_lt2 h2 hle
          have e := ih b j (by omega) hbj h2
          have : bestPath pr (f + 1) j = bestPath pr f j := bestPath_stable h f j (by omega)
          rw [this, e]

/-- the classification of `Search`: for a node of the anchor's subtree, "is the head or its best descendant is
the head" is "fork-choice ancestor-or-self of the head" -/
theorem canon_eq (s : PA) (h : WF s) (hlk : LinksOK s) (ai i hx : Nat) (n nb : Node) (head : NodeRef)
    (hn : s.nodes[i]? = some n) (hhx : hx = bestPath s s.nodes.length ai) (hnb : s.nodes[hx]? = some nb)
    (hhead : nb.ref = head) (hsub : anc s.nodes ai i = true) :
    (decide (n.ref = head) || decide (n.bestDesc = some hx)) = anc s.nodes i hx := by
  rw [Bool.eq_iff_iff]
  simp only [Bool.or_eq_true, decide_eq_true_eq]
  constructor
  · rintro (e | e)
    · have : i = hx := h.ref_inj hn hnb (by rw [e, hhead])
      rw [this]; exact anc_self _ _
    · exact (h.bd_desc i n hx hn e).2.2
  · intro hA
    have r1 := (anc_iff_reach _ h.fpar_lt2 ai i).1 hsub
    have r2 := (anc_iff_reach _ h.fpar_lt2 i hx).1 hA
    rw [hhx] at r2
    have e1 := bestPath_onpath s h s.nodes.length ai i (by omega) r1 r2
    have e2 := bestDesc_eq_bestPath s h hlk s.nodes.length i n (by omega) hn
    rw [e1, ← hhx] at e2
    cases hbd : n.bestDesc with
    | none =>
      rw [hbd] at e2
      simp only [Option.getD_none] at e2
      subst e2
      rw [hn] at hnb; cases hnb
      exact Or.inl hhead
    | some d =>
      rw [hbd] at e2
      simp only [Option.getD_some] at e2
      rw [e2]; exact Or.inr rfl

/-! ## `Search`: the loop -/

/-- an optional filter value: absent, or equal to `x` -/
def optEq (o : Option Nat) (x : Nat) : Bool :=
  match o with
  | some q => x == q
  | none => true

/-- the option part of the filter of `Search`: with no option at all "no child block" (`hcb` = the root has a child
block), otherwise the given parent root and/or slot -/
def optB (p : Option Root) (sl : Option Nat) (hcb : Bool) (parentRoot : Root) (slot : Nat) : Bool :=
  if p.isNone && sl.isNone then !hcb else optEq p parentRoot && optEq sl slot

/-- the filter of `Search` on the model's node: a block node matching the options (with no option: a block whose
root is not in the list `hcb` of roots with a child block) inside the anchor's subtree -/
def candB (s : PA) (ai : Nat) (p : Option Root) (sl : Option Nat) (hcb : List Root) (n : Node) : Bool :=
  (n.parentRoot != n.ref.root) &&
  optB p sl (hcb.contains n.ref.root) n.parentRoot n.ref.slot &&
  anc s.nodes ai ((aGet s.indices n.ref).getD 0)

/-- the node is a fork-choice ancestor-or-self of the head -/
def canonB (s : PA) (hx : Nat) (n : Node) : Bool := anc s.nodes ((aGet s.indices n.ref).getD 0) hx

/-- one iteration of the loop of `Search` -/
theorem searchLoop_step (s : PA) (h : WF s) (ai hx : Nat) (head : NodeRef) (p : Option Root) (sl : Option Nat)
    (hcb : List Root)
    (hsub : ∀ (i : Nat) (n : Node), s.nodes[i]? = some n → s.inSubtreeIdx ai i = some (false, anc s.nodes ai i))
    (hcan : ∀ (i : Nat) (n : Node), s.nodes[i]? = some n → anc s.nodes ai i = true →
      (decide (n.ref = head) || decide (n.bestDesc = some hx)) = anc s.nodes i hx)
    (node : Node) (rest : List Node) (nc c : List NodeRef) (i : Nat) (hnode : s.nodes[i]? = some node) :
    s.searchLoop ai hx head p sl hcb (node :: rest) nc c =
      if candB s ai p sl hcb node then
        (if canonB s hx node then s.searchLoop ai hx head p sl hcb rest nc (c ++ [node.ref])
         else s.searchLoop ai hx head p sl hcb rest (nc ++ [node.ref]) c)
      else s.searchLoop ai hx head p sl hcb rest nc c := by
  have hidx : (aGet s.indices node.ref).getD 0 = i := by rw [h.idx_complete i node hnode]; rfl
  unfold candB canonB optB optEq
  simp only [PA.searchLoop, hidx, inSubtreeSpins_false s h, hsub i node hnode]
  by_cases hr : node.ref.root = node.parentRoot
  · have : (node.parentRoot != node.ref.root) = false := by simp [hr]
    simp only [hr, if_true, bne_self_eq_false, Bool.false_and, Bool.false_eq_true, if_false]
  · have hr' : (node.parentRoot != node.ref.root) = true := by
      simp only [bne_iff_ne, ne_eq]; exact fun e => hr e.symm
    simp only [hr, if_false, hr', Bool.true_and]
    cases hA : anc s.nodes ai i
    · rcases p with _ | q <;> rcases sl with _ | t
      · cases hcb.contains node.ref.root <;> simp
      · by_cases e2 : node.ref.slot = t <;> simp [e2]
      · by_cases e1 : node.parentRoot = q <;> simp [e1]
      · by_cases e1 : node.parentRoot = q <;> by_cases e2 : node.ref.slot = t <;> simp [e1, e2]
    · rw [hcan i node hnode hA]
      rcases p with _ | q <;> rcases sl with _ | t
      · cases hcb.contains node.ref.root <;> simp
      · by_cases e2 : node.ref.slot = t <;> simp [e2]
      · by_cases e1 : node.parentRoot = q <;> simp [e1]
      · by_cases e1 : node.parentRoot = q <;> by_cases e2 : node.ref.slot = t <;> simp [e1, e2]

/-- the loop of `Search` collects, in array order, the candidates that are not / that are ancestors of the head -/
theorem searchLoop_eq (s : PA) (h : WF s) (ai hx : Nat) (head : NodeRef) (p : Option Root) (sl : Option Nat)
    (hcb : List Root)
    (hsub : ∀ (i : Nat) (n : Node), s.nodes[i]? = some n → s.inSubtreeIdx ai i = some (false, anc s.nodes ai i))
    (hcan : ∀ (i : Nat) (n : Node), s.nodes[i]? = some n → anc s.nodes ai i = true →
      (decide (n.ref = head) || decide (n.bestDesc = some hx)) = anc s.nodes i hx) :
    ∀ (l : List Node) (nc c : List NodeRef), (∀ n ∈ l, ∃ i : Nat, s.nodes[i]? = some n) →
      s.searchLoop ai hx head p sl hcb l nc c =
        .done (nc ++ (l.filter (fun n => candB s ai p sl hcb n && !canonB s hx n)).map (·.ref))
              (c ++ (l.filter (fun n => candB s ai p sl hcb n && canonB s hx n)).map (·.ref)) := by
  intro l
  induction l with
  | nil => intro nc c _; simp [PA.searchLoop]
  | cons node rest ih =>
    intro nc c hmem
    obtain ⟨i, hnode⟩ := hmem node (List.mem_cons_self ..)
    have ihr := fun nc c => ih nc c (fun n hn => hmem n (List.mem_cons_of_mem _ hn))
    rw [searchLoop_step s h ai hx head p sl hcb hsub hcan node rest nc c i hnode]
    rw [List.filter_cons, List.filter_cons]
    cases candB s ai p sl hcb node
    · simp only [Bool.false_eq_true, if_false, Bool.false_and]
      exact ihr nc c
    · cases canonB s hx node
      · simp only [if_true, Bool.false_eq_true, if_false, Bool.not_false, Bool.and_self,
          Bool.and_false, List.map_cons]
        rw [ihr]; simp
      · simp only [if_true, Bool.not_true, Bool.false_eq_true, if_false, Bool.and_self,
          Bool.and_false, List.map_cons]
        rw [ihr]; simp

/-- the set `hasChildBlock` that `Search` computes: filled only for a search without options -/
def hcbOf (s : PA) (p : Option Root) (sl : Option Nat) : List Root :=
  if p.isNone && sl.isNone then (s.nodes.filter (fun n => n.ref.root ≠ n.parentRoot)).map (·.parentRoot) else []

/-- how `Search` turns the end of its loop into its result -/
def searchOut (s : PA) : PA.LoopRes → POut PA (List NodeRef × List NodeRef)
  | .oob => .panic
  | .spin => .spin
  | .done nc c => .ok s (nc, c)

/-- the model's list of roots with a child block holds the roots for which the specification's `hasChildBlock`
answers yes -/
theorem hasChildBlock_eq (ns : List Node) (root : Root) :
    ∀ l : List Node, (l.map (absNode ns)).any (fun m => m.isBlock && m.parentRoot == root) =
      ((l.filter (fun n => n.ref.root ≠ n.parentRoot)).map (·.parentRoot)).contains root := by
  intro l
  induction l with
  | nil => rfl
  | cons x t ih =>
    rw [List.map_cons, List.any_cons, ih, isBlock_absNode, List.filter_cons]
    show ((x.parentRoot != x.ref.root) && (x.parentRoot == root) || _) = _
    by_cases hb : x.ref.root = x.parentRoot
    · simp [hb]
    · have hb' : ¬ x.parentRoot = x.ref.root := fun e => hb e.symm
      simp only [ne_eq, hb, not_false_eq_true, decide_true, if_true, List.map_cons, List.contains_cons]
      have : (x.parentRoot != x.ref.root) = true := by simp [hb']
      rw [this, Bool.true_and]
      congr 1
      exact Bool.beq_comm

/-! ## `Search`: the specification's lists, read on the model's array -/

theorem filter_split (ns : List Node) (F C : SNode → Bool) (G D : Node → Bool) :
    ∀ (l : List Node), (∀ n ∈ l, F (absNode ns n) = G n) → (∀ n ∈ l, C (absNode ns n) = D n) →
      (((l.map (absNode ns)).filter F).filter C).map (·.ref) = (l.filter (fun n => G n && D n)).map (·.ref) := by
  intro l
  induction l with
  | nil => intro _ _; rfl
  | cons x t ih =>
    intro hF hC
    have iht := ih (fun n hn => hF n (List.mem_cons_of_mem _ hn)) (fun n hn => hC n (List.mem_cons_of_mem _ hn))
    have h1 := hF x (List.mem_cons_self ..)
    have h2 := hC x (List.mem_cons_self ..)
    rw [List.map_cons, List.filter_cons, List.filter_cons, h1]
    cases hG : G x
    · simp only [Bool.false_eq_true, if_false, Bool.false_and]; exact iht
    · simp only [if_true, Bool.true_and]
      rw [List.filter_cons, h2]
      cases hD : D x
      · simp only [Bool.false_eq_true, if_false]; exact iht
      · simp only [if_true, List.map_cons, absNode_ref, iht]

/-! ## `Search` -/

/-- outcome of `Search`: related state, and the specification's answer (the two lists in array order) -/
def SearchPost (fc : FC) (a : Abs) (ans : Ans) : POut PA (List NodeRef × List NodeRef) → Prop
  | .ok s x => Ref { fc with pa := s } a ∧ ans = Ans.search x.1 x.2
  | .err s => Ref { fc with pa := s } a ∧ ans = Ans.err
  | _ => False

/-- the filter of the specification's `search` -/
def candS (a : Abs) (anchor : NodeRef) (p : Option Root) (sl : Option Nat) (n : SNode) : Bool :=
  n.isBlock && optB p sl (a.hasChildBlock n.ref.root) n.parentRoot n.ref.slot &&
    a.fcAncestorOrSelf anchor a.fuel n.ref

/-- the specification's `search` once it is known not to answer `any` and a head exists -/
theorem search_spec (a : Abs) (anchor : NodeRef) (p : Option Root) (sl : Option Nat) (head : NodeRef)
    (hh : a.headFrom anchor = some head)
    (hfirst : a.firstSlot anchor.root = some anchor.slot) :
    a.search anchor p sl =
      Ans.search
        (((a.nodes.filter (candS a anchor p sl)).filter
          (fun n => !a.fcAncestorOrSelf n.ref a.fuel head)).map (·.ref))
        (((a.nodes.filter (candS a anchor p sl)).filter
          (fun n => a.fcAncestorOrSelf n.ref a.fuel head)).map (·.ref)) := by
  unfold Abs.search
  rw [hh]
  simp only [hfirst, ne_eq, not_true_eq_false, if_false]
  rfl

theorem search_post (fc : FC) (a : Abs) (I : FI fc) (hl : LI fc.pa) (r : Ref fc a)
    (hset : ∀ v ∈ fc.votes, v.cur = v.next) (anchor : NodeRef) (p : Option Root) (sl : Option Nat)
    (hne : a.search anchor p sl ≠ Ans.any) :
    SearchPost fc a (a.search anchor p sl) (fc.pa.search anchor p sl) := by
  have hp := headPost fc a I hl r hset anchor.root anchor.slot
  unfold PA.search
  revert hp
  cases fc.pa.findHead anchor.root anchor.slot with
  | panic => exact fun hp => hp
  | spin => exact fun hp => hp
  | err s =>
    intro hp
    have hh : a.headFrom anchor = none := hp.2
    refine ⟨hp.1, ?_⟩
    unfold Abs.search
    rw [hh]
  | ok s head =>
    intro hp
    show SearchPost fc a (a.search anchor p sl)
      (searchOut s (s.searchLoop ((aGet s.indices anchor).getD 0) ((aGet s.indices head).getD 0) head p sl
        (hcbOf s p sl) s.nodes [] []))
    obtain ⟨r', I', hl', hu', hh, hfh, hix⟩ := hp
    have hh' : a.headFrom anchor = some head := hh
    have hfirst : a.firstSlot anchor.root = some anchor.slot := by
      cases hd : decide (a.firstSlot anchor.root = some anchor.slot) with
      | true => exact of_decide_eq_true hd
      | false =>
        have hd' := of_decide_eq_false hd
        exact absurd (by unfold Abs.search; rw [hh']; simp only [ne_eq, hd', not_false_eq_true, if_true]) hne
    have hw : WF s := I'.wf
    have hc : Chain s := I'.chain
    have hlk : LinksOK s := (hl' hu').1
    have hbs : aGet s.blockSlots anchor.root = some anchor.slot := by
      rw [← firstSlot_eq (fc := { fc with pa := s }) hw hc r']; exact hfirst
    obtain ⟨ai, hai⟩ := Option.isSome_iff_exists.1 (hw.bs_node _ _ hbs)
    have hai' : aGet s.indices anchor = some ai := hai
    obtain ⟨hx, hhx⟩ := Option.isSome_iff_exists.1 hix
    obtain ⟨na, nb, hna, _, hnb, _, hres⟩ := findHead_best s hw hu' hlk anchor.root anchor.slot ai hai
    have hheadref : nb.ref = head := by
      rw [hfh] at hres
      cases hv : s.viable nb with
      | true => rw [hv] at hres; simp only [if_true] at hres; cases hres; rfl
      | false => rw [hv] at hres; simp at hres
    have hhx' : hx = bestPath s s.nodes.length ai := by
      have := hw.idx_complete _ _ hnb
      rw [hheadref, hhx] at this
      exact Option.some.inj this
    rw [← hhx'] at hnb
    have hsub : ∀ (i : Nat) (n : Node), s.nodes[i]? = some n →
        s.inSubtreeIdx ai i = some (false, anc s.nodes ai i) :=
      fun i n hn => inSubtreeIdx_eq_anc' s hw hc anchor.root anchor.slot ai i n hbs hai hn
    have hcan : ∀ (i : Nat) (n : Node), s.nodes[i]? = some n → anc s.nodes ai i = true →
        (decide (n.ref = head) || decide (n.bestDesc = some hx)) = anc s.nodes i hx :=
      fun i n hn hA => canon_eq s hw hlk ai i hx n nb head hn hhx' hnb hheadref hA
    have hmem : ∀ n ∈ s.nodes, ∃ i : Nat, s.nodes[i]? = some n := fun n hn => List.getElem?_of_mem hn
    simp only [hai', hhx, Option.getD_some]
    rw [searchLoop_eq s hw ai hx head p sl (hcbOf s p sl) hsub hcan s.nodes [] [] hmem]
    refine ⟨r', ?_⟩
    rw [search_spec a anchor p sl head hh' hfirst]
    simp only [List.nil_append]
    have hnodes : a.nodes = s.nodes.map (absNode s.nodes) := r'.nodes
    -- the option part of the filter: with no option the two "has a child block" tests agree
    have hO : ∀ n : Node, optB p sl (a.hasChildBlock n.ref.root) n.parentRoot n.ref.slot =
        optB p sl ((hcbOf s p sl).contains n.ref.root) n.parentRoot n.ref.slot := by
      intro n
      unfold optB hcbOf
      cases ho : (p.isNone && sl.isNone) with
      | false => rfl
      | true =>
        simp only [if_true]
        unfold Abs.hasChildBlock
        rw [hnodes, hasChildBlock_eq s.nodes n.ref.root s.nodes]
    rw [hnodes]
    -- the two filters of the specification, node by node
    have hF : ∀ n ∈ s.nodes, candS a anchor p sl (absNode s.nodes n) = candB s ai p sl (hcbOf s p sl) n := by
      intro n hn
      obtain ⟨i, hi⟩ := hmem n hn
      have hidx := hw.idx_complete i n hi
      unfold candS candB
      rw [absNode_ref, fcAncestorOrSelf_idx (fc := { fc with pa := s }) hw r' hai' hidx, hidx,
        show (absNode s.nodes n).parentRoot = n.parentRoot from rfl, hO n]
      rfl
    have hC : ∀ n ∈ s.nodes,
        a.fcAncestorOrSelf (absNode s.nodes n).ref a.fuel head = canonB s hx n := by
      intro n hn
      obtain ⟨i, hi⟩ := hmem n hn
      have hidx := hw.idx_complete i n hi
      unfold canonB
      rw [absNode_ref, fcAncestorOrSelf_idx (fc := { fc with pa := s }) hw r' hidx hhx, hidx]
      rfl
    have e1 := filter_split s.nodes (candS a anchor p sl) (fun n => !a.fcAncestorOrSelf n.ref a.fuel head)
      (candB s ai p sl (hcbOf s p sl)) (fun n => !canonB s hx n) s.nodes hF (fun n hn => by simp only [hC n hn])
    have e2 := filter_split s.nodes (candS a anchor p sl) (fun n => a.fcAncestorOrSelf n.ref a.fuel head)
      (candB s ai p sl (hcbOf s p sl)) (canonB s hx) s.nodes hF hC
    rw [e1, e2]

end Zrnt.ForkChoice.RefQ2

namespace Zrnt.ForkChoice
open Spec

/-- **`Search` refines `Abs.search`.** Whenever the specification constrains the answer (the anchor is the first
node of its root; options or not: without options the answer is the heads, the blocks without a child block), the
model's `Search` on a settled state satisfying the invariants
returns (never panics or loops), leaves a related state, and answers the specification's two lists (here even
in the same order, both sides enumerate the nodes in array order) or an error on both sides. -/
theorem search_refines (fc : FC) (a : Abs) (I : FI fc) (hl : LI fc.pa) (r : Ref fc a)
    (hset : ∀ v ∈ fc.votes, v.cur = v.next) (anchor : NodeRef) (p : Option Root) (sl : Option Nat)
    (hne : a.search anchor p sl ≠ Ans.any) :
    match fc.pa.search anchor p sl with
    | .ok s (nc, c) => Ref { fc with pa := s } a ∧
        ∃ nc' c', a.search anchor p sl = Ans.search nc' c' ∧ nc'.Perm nc ∧ c'.Perm c
    | .err s => Ref { fc with pa := s } a ∧ a.search anchor p sl = Ans.err
    | _ => False := by
  have h := RefQ2.search_post fc a I hl r hset anchor p sl hne
  revert h
  cases fc.pa.search anchor p sl with
  | ok s x =>
    obtain ⟨nc, c⟩ := x
    exact fun h => ⟨h.1, nc, c, h.2, List.Perm.refl _, List.Perm.refl _⟩
  | err s => exact fun h => h
  | panic => exact fun h => h
  | spin => exact fun h => h

/-- the stronger form: the lists are equal, not only permutations of each other -/
theorem search_refines_eq (fc : FC) (a : Abs) (I : FI fc) (hl : LI fc.pa) (r : Ref fc a)
    (hset : ∀ v ∈ fc.votes, v.cur = v.next) (anchor : NodeRef) (p : Option Root) (sl : Option Nat)
    (hne : a.search anchor p sl ≠ Ans.any) :
    match fc.pa.search anchor p sl with
    | .ok s (nc, c) => Ref { fc with pa := s } a ∧ a.search anchor p sl = Ans.search nc c
    | .err s => Ref { fc with pa := s } a ∧ a.search anchor p sl = Ans.err
    | _ => False := by
  have h := RefQ2.search_post fc a I hl r hset anchor p sl hne
  revert h
  cases fc.pa.search anchor p sl with
  | ok s x => obtain ⟨nc, c⟩ := x; exact fun h => h
  | err s => exact fun h => h
  | panic => exact fun h => h
  | spin => exact fun h => h


/-! ## non-vacuity

`chainEx` (anchor `(root 1, slot 0)`, blocks 2 at slot 1 and 3 at slot 2, both on root 1) plus the empty-slot node
`(3, 3)`: nodes `0:(1,0) 1:(1,1) 2:(2,1) 3:(1,2) 4:(3,2) 5:(3,3)`. No votes, so the head from the anchor is
`(3, 3)` (greatest root among the leading children); its transition ancestors are
`(3,3) (3,2) (1,2) (1,1) (1,0)`. The connections are stale (`updated = false`), so `findHead` refreshes them. -/

def q2PA : PA := chainEx.processSlot 3 3 0 0

def q2FC : FC :=
  { pa := q2PA, votes := [], changed := false, spe := 4, balances := [32],
    pin := some ⟨0, 1⟩, justified := ⟨0, 1⟩, finalized := ⟨0, 1⟩, held := false }

def q2Abs : Abs :=
  (((((Abs.init 4 1 0 7 ⟨0, 1⟩ ⟨0, 1⟩ .absent [32]).getD default).processBlock 1 2 1 0 0).1.processBlock 1 3 2 0 0).1).processSlot
    3 3 0 0

theorem q2Ex_ok : WF q2PA ∧ Chain q2PA :=
  ⟨wf_processSlot chainEx chainEx_ok.1 3 3 0 0,
   chain_processSlot chainEx chainEx_ok.1 chainEx_ok.2 3 3 0 0 (Or.inr ⟨2, by decide, by decide⟩)⟩

theorem q2Ex_ref : Ref q2FC q2Abs :=
  { spe := rfl, nodes := by decide, votes := rfl, balances := rfl, justified := rfl,
    finalized := rfl, pin := rfl, sink := by decide, clean := by decide, jE := by decide, fE := by decide,
    fresh := fun v hv => (by cases hv), next_in := fun v hv => (by cases hv),
    cur_le := fun v hv => (by cases hv), settled := fun _ v hv => (by cases hv) }

theorem q2Ex_fi : FI q2FC := by
  refine ⟨q2Ex_ok.1, q2Ex_ok.2, ?_, ?_⟩
  · show aGet q2PA.indices NodeRef.zero = none
    decide
  · intro i n hn
    have key : ∀ i ∈ List.range q2FC.pa.nodes.length,
        (q2FC.pa.nodes[i]?).map (·.weight) = some (wsum q2FC.pa q2FC.votes q2FC.balances i) := by
      decide
    have := key i (List.mem_range.2 (List.getElem?_eq_some_iff.1 hn).1)
    rw [hn] at this
    exact Option.some.inj this

theorem q2Ex_li : LI q2FC.pa := fun hu => absurd hu (by decide)

/-- the hypotheses of `canonAt_refines` and `search_refines` hold together -/
theorem q2Ex_hyps : FI q2FC ∧ LI q2FC.pa ∧ Ref q2FC q2Abs ∧ (∀ v ∈ q2FC.votes, v.cur = v.next) :=
  ⟨q2Ex_fi, q2Ex_li, q2Ex_ref, fun v hv => (by cases hv)⟩

/-- read off an outcome: the answer, `none` for an error -/
def q2Res {α : Type} : POut PA α → Option α
  | .ok _ x => some x
  | _ => none

/-- both sides of `canonAt_refines` on the instance: the walk stops at the block node `(3,2)` with a block, at
the empty-slot node `(1,2)` without; slot 1 of the canonical chain has only the empty-slot node `(1,1)` (zero
reference with a block); a slot beyond the head answers the head; at the slot of the head (an empty-slot node
here) the kind is respected: the head itself without a block, the zero reference with one; the first slot answers
the anchor, which is refused without a block because its parent root 7 differs from its root; an unknown root is
an error -/
example :
    q2FC.pa.nodes.map (·.ref) = [⟨0, 1⟩, ⟨1, 1⟩, ⟨1, 2⟩, ⟨2, 1⟩, ⟨2, 3⟩, ⟨3, 3⟩] ∧
    q2Abs.headFrom ⟨0, 1⟩ = some ⟨3, 3⟩ ∧
    q2Abs.canonAt 1 2 true = Ans.ref ⟨2, 3⟩ ∧ q2Res (q2FC.pa.canonAtSlot 1 2 true) = some ⟨2, 3⟩ ∧
    q2Abs.canonAt 1 2 false = Ans.ref ⟨2, 1⟩ ∧ q2Res (q2FC.pa.canonAtSlot 1 2 false) = some ⟨2, 1⟩ ∧
    q2Abs.canonAt 1 1 true = Ans.ref NodeRef.zero ∧ q2Res (q2FC.pa.canonAtSlot 1 1 true) = some NodeRef.zero ∧
    q2Abs.canonAt 1 1 false = Ans.ref ⟨1, 1⟩ ∧ q2Res (q2FC.pa.canonAtSlot 1 1 false) = some ⟨1, 1⟩ ∧
    q2Abs.canonAt 1 9 true = Ans.ref ⟨3, 3⟩ ∧ q2Res (q2FC.pa.canonAtSlot 1 9 true) = some ⟨3, 3⟩ ∧
    q2Abs.canonAt 1 3 false = Ans.ref ⟨3, 3⟩ ∧ q2Res (q2FC.pa.canonAtSlot 1 3 false) = some ⟨3, 3⟩ ∧
    q2Abs.canonAt 1 3 true = Ans.ref NodeRef.zero ∧ q2Res (q2FC.pa.canonAtSlot 1 3 true) = some NodeRef.zero ∧
    q2Abs.canonAt 1 0 true = Ans.ref ⟨0, 1⟩ ∧ q2Res (q2FC.pa.canonAtSlot 1 0 true) = some ⟨0, 1⟩ ∧
    q2Abs.canonAt 1 0 false = Ans.err ∧ q2Res (q2FC.pa.canonAtSlot 1 0 false) = none ∧
    q2Abs.canonAt 2 1 false = Ans.err ∧ q2Res (q2FC.pa.canonAtSlot 2 1 false) = none ∧
    q2Abs.canonAt 9 1 true = Ans.err ∧ q2Res (q2FC.pa.canonAtSlot 9 1 true) = none := by decide

/-- … as the theorem says -/
example (root : Root) (slot : Nat) (wb : Bool) :
    match q2FC.pa.canonAtSlot root slot wb with
    | .ok s ref => Ref { q2FC with pa := s } q2Abs ∧ q2Abs.canonAt root slot wb = Ans.ref ref
    | .err s => Ref { q2FC with pa := s } q2Abs ∧ q2Abs.canonAt root slot wb = Ans.err
    | _ => False :=
  canonAt_refines q2FC q2Abs q2Ex_fi q2Ex_li q2Ex_ref (fun v hv => (by cases hv)) root slot wb

/-- both sides of `search_refines` on the instance: under the anchor the blocks on root 1 are block 2
(not canonical) and block 3 (canonical); at slot 2 there is block 3 only; under block 2 nothing at slot 2;
an unknown anchor is an error; the specification's answer is not `any` there, but it is `any` for the anchor
`(1,1)`, which is not the first node of its root (the model then answers block 3 as non-canonical) -/
example :
    q2Abs.search ⟨0, 1⟩ (some 1) none = Ans.search [⟨1, 2⟩] [⟨2, 3⟩] ∧
    q2Res (q2FC.pa.search ⟨0, 1⟩ (some 1) none) = some ([⟨1, 2⟩], [⟨2, 3⟩]) ∧
    q2Abs.search ⟨0, 1⟩ none (some 2) = Ans.search [] [⟨2, 3⟩] ∧
    q2Res (q2FC.pa.search ⟨0, 1⟩ none (some 2)) = some ([], [⟨2, 3⟩]) ∧
    q2Abs.search ⟨1, 2⟩ (some 1) (some 1) = Ans.search [] [⟨1, 2⟩] ∧
    q2Res (q2FC.pa.search ⟨1, 2⟩ (some 1) (some 1)) = some ([], [⟨1, 2⟩]) ∧
    q2Abs.search ⟨1, 2⟩ none (some 2) = Ans.search [] [] ∧
    q2Res (q2FC.pa.search ⟨1, 2⟩ none (some 2)) = some ([], []) ∧
    q2Abs.search ⟨5, 9⟩ none (some 2) = Ans.err ∧ q2Res (q2FC.pa.search ⟨5, 9⟩ none (some 2)) = none ∧
    q2Abs.search ⟨0, 1⟩ (some 1) none ≠ Ans.any ∧
    q2Abs.search ⟨1, 1⟩ none (some 2) = Ans.any ∧
    q2Res (q2FC.pa.search ⟨1, 1⟩ none (some 2)) = some ([⟨2, 3⟩], []) := by decide

/-- … as the theorem says -/
example :
    match q2FC.pa.search ⟨0, 1⟩ (some 1) none with
    | .ok s (nc, c) => Ref { q2FC with pa := s } q2Abs ∧
        ∃ nc' c', q2Abs.search ⟨0, 1⟩ (some 1) none = Ans.search nc' c' ∧ nc'.Perm nc ∧ c'.Perm c
    | .err s => Ref { q2FC with pa := s } q2Abs ∧ q2Abs.search ⟨0, 1⟩ (some 1) none = Ans.err
    | _ => False :=
  search_refines q2FC q2Abs q2Ex_fi q2Ex_li q2Ex_ref (fun v hv => (by cases hv)) ⟨0, 1⟩ (some 1) none (by decide)

/-- `Search` WITHOUT options: both sides answer the heads (the blocks without a child block) under the anchor:
block 2 (not canonical) and block 3 (canonical); the anchor block `(1,0)` itself is left out because blocks 2 and
3 are its child blocks, block 3 is kept although the empty-slot node `(3,3)` follows it ("if it has only empty
slots as children, it's a head"); under block 2 only block 2 itself. The specification's answer is not `any`;
it still is `any` from the anchor `(1,1)`, which is not the first node of its root. -/
example :
    q2Abs.search ⟨0, 1⟩ none none = Ans.search [⟨1, 2⟩] [⟨2, 3⟩] ∧
    q2Res (q2FC.pa.search ⟨0, 1⟩ none none) = some ([⟨1, 2⟩], [⟨2, 3⟩]) ∧
    q2Abs.search ⟨0, 1⟩ none none ≠ Ans.any ∧
    q2Abs.hasChildBlock 1 = true ∧ q2Abs.hasChildBlock 2 = false ∧ q2Abs.hasChildBlock 3 = false ∧
    q2Abs.search ⟨1, 2⟩ none none = Ans.search [] [⟨1, 2⟩] ∧
    q2Res (q2FC.pa.search ⟨1, 2⟩ none none) = some ([], [⟨1, 2⟩]) ∧
    q2Abs.search ⟨5, 9⟩ none none = Ans.err ∧ q2Res (q2FC.pa.search ⟨5, 9⟩ none none) = none ∧
    q2Abs.search ⟨1, 1⟩ none none = Ans.any := by decide

/-- … as the theorem says -/
example :
    match q2FC.pa.search ⟨0, 1⟩ none none with
    | .ok s (nc, c) => Ref { q2FC with pa := s } q2Abs ∧ q2Abs.search ⟨0, 1⟩ none none = Ans.search nc c
    | .err s => Ref { q2FC with pa := s } q2Abs ∧ q2Abs.search ⟨0, 1⟩ none none = Ans.err
    | _ => False :=
  search_refines_eq q2FC q2Abs q2Ex_fi q2Ex_li q2Ex_ref (fun v hv => (by cases hv)) ⟨0, 1⟩ none none (by decide)

/-! ### the head is a block node

`chainEx` itself (`q2PA` before the empty slot 3): nodes `0:(1,0) 1:(1,1) 2:(2,1) 3:(1,2) 4:(3,2)`. The head from
the anchor is the block node `(3,2)`; at its slot 2 the canonical chain has the pre-block empty-slot node `(1,2)`
and the block node `(3,2)`. -/

def q3FC : FC :=
  { pa := chainEx, votes := [], changed := false, spe := 4, balances := [32],
    pin := some ⟨0, 1⟩, justified := ⟨0, 1⟩, finalized := ⟨0, 1⟩, held := false }

def q3Abs : Abs :=
  ((((Abs.init 4 1 0 7 ⟨0, 1⟩ ⟨0, 1⟩ .absent [32]).getD default).processBlock 1 2 1 0 0).1.processBlock 1 3 2 0 0).1

theorem q3Ex_ref : Ref q3FC q3Abs :=
  { spe := rfl, nodes := by decide, votes := rfl, balances := rfl, justified := rfl,
    finalized := rfl, pin := rfl, sink := by decide, clean := by decide, jE := by decide, fE := by decide,
    fresh := fun v hv => (by cases hv), next_in := fun v hv => (by cases hv),
    cur_le := fun v hv => (by cases hv), settled := fun _ v hv => (by cases hv) }

theorem q3Ex_fi : FI q3FC := by
  refine ⟨chainEx_ok.1, chainEx_ok.2, ?_, ?_⟩
  · show aGet chainEx.indices NodeRef.zero = none
    decide
  · intro i n hn
    have key : ∀ i ∈ List.range q3FC.pa.nodes.length,
        (q3FC.pa.nodes[i]?).map (·.weight) = some (wsum q3FC.pa q3FC.votes q3FC.balances i) := by
      decide
    have := key i (List.mem_range.2 (List.getElem?_eq_some_iff.1 hn).1)
    rw [hn] at this
    exact Option.some.inj this

theorem q3Ex_li : LI q3FC.pa := fun hu => absurd hu (by decide)

/-- the hypotheses of `canonAt_refines` and `search_refines` hold together on this instance too -/
theorem q3Ex_hyps : FI q3FC ∧ LI q3FC.pa ∧ Ref q3FC q3Abs ∧ (∀ v ∈ q3FC.votes, v.cur = v.next) :=
  ⟨q3Ex_fi, q3Ex_li, q3Ex_ref, fun v hv => (by cases hv)⟩

/-- `CanonAtSlot` at the slot of the head, the head being the block node `(3,2)`: without a block both sides
answer the pre-block empty-slot node `(1,2)` (not the head), with a block the head itself; only a slot AFTER the
head answers the head whatever the kind -/
example :
    q3FC.pa.nodes.map (·.ref) = [⟨0, 1⟩, ⟨1, 1⟩, ⟨1, 2⟩, ⟨2, 1⟩, ⟨2, 3⟩] ∧
    q3Abs.headFrom ⟨0, 1⟩ = some ⟨2, 3⟩ ∧
    q3Abs.canonAt 1 2 false = Ans.ref ⟨2, 1⟩ ∧ q2Res (q3FC.pa.canonAtSlot 1 2 false) = some ⟨2, 1⟩ ∧
    q3Abs.canonAt 1 2 true = Ans.ref ⟨2, 3⟩ ∧ q2Res (q3FC.pa.canonAtSlot 1 2 true) = some ⟨2, 3⟩ ∧
    q3Abs.canonAt 1 3 false = Ans.ref ⟨2, 3⟩ ∧ q2Res (q3FC.pa.canonAtSlot 1 3 false) = some ⟨2, 3⟩ ∧
    q3Abs.canonAt 1 3 true = Ans.ref ⟨2, 3⟩ ∧ q2Res (q3FC.pa.canonAtSlot 1 3 true) = some ⟨2, 3⟩ := by decide

/-- … as the theorem says -/
example :
    match q3FC.pa.canonAtSlot 1 2 false with
    | .ok s ref => Ref { q3FC with pa := s } q3Abs ∧ q3Abs.canonAt 1 2 false = Ans.ref ref
    | .err s => Ref { q3FC with pa := s } q3Abs ∧ q3Abs.canonAt 1 2 false = Ans.err
    | _ => False :=
  canonAt_refines q3FC q3Abs q3Ex_fi q3Ex_li q3Ex_ref (fun v hv => (by cases hv)) 1 2 false

/-- a search without options on this instance: the same heads, the canonical one being the head itself -/
example :
    q3Abs.search ⟨0, 1⟩ none none = Ans.search [⟨1, 2⟩] [⟨2, 3⟩] ∧
    q2Res (q3FC.pa.search ⟨0, 1⟩ none none) = some ([⟨1, 2⟩], [⟨2, 3⟩]) := by decide

end Zrnt.ForkChoice
