import Zrnt.Beacon.Impl.Block
/-!
# Lemmas relating the code-shaped model `M` of block processing (`Zrnt/Beacon/Impl/Block.lean`) to the
specification layer `S` (`Zrnt/Beacon/Spec/BlockOps.lean`). Core Lean only.
-/
namespace Zrnt.Proofs.BeaconBlock
open Zrnt Zrnt.Beacon Zrnt.Beacon.Spec Zrnt.Beacon.BlockImpl

/-! ### (a) ZigZagJoin -/

/-- the loop on the not yet consumed suffixes -/
def zzList : (fuel : Nat) → (as bs acc : List Nat) → Res (List Nat)
  | 0, _, _, _ => .outOfFuel
  | _ + 1, [], _, acc => .ok acc
  | fuel + 1, a :: as, bs, acc =>
    let jV := bs.headD marker
    if a = jV then zzList fuel as bs.tail (acc ++ [a])
    else if a < jV then zzList fuel as bs acc
    else zzList fuel (a :: as) bs.tail acc

theorem cur_eq (l : List Nat) (i : Nat) : cur l i = (l.drop i).headD marker := by
  unfold cur
  induction l generalizing i with
  | nil => simp
  | cons x xs ih => cases i with
    | zero => simp
    | succ k => simp

theorem loop_eq_list (vs target : List Nat) : ∀ (fuel i j : Nat) (acc : List Nat),
    zigzagLoop vs target fuel i j acc = zzList fuel (vs.drop i) (target.drop j) acc := by
  intro fuel
  induction fuel with
  | zero => intros; simp [zigzagLoop, zzList]
  | succ f ih =>
    intro i j acc
    unfold zigzagLoop
    by_cases h : i ≥ vs.length
    · simp [h, List.drop_eq_nil_of_le h, zzList]
    · have hi : i < vs.length := by omega
      have hd : vs.drop i = vs[i] :: vs.drop (i + 1) := List.drop_eq_getElem_cons hi
      simp only [h, if_false]
      rw [hd]
      simp only [zzList]
      have hc : cur vs i = vs[i] := by
        rw [cur_eq, hd]; rfl
      have ht : (target.drop j).tail = target.drop (j + 1) := by simp [List.tail_drop]
      rw [hc, cur_eq target j, ht, ih, ih, ih, ← hd]

theorem zzList_spec : ∀ (fuel : Nat) (as bs acc : List Nat),
    as.length + bs.length < fuel →
    as.Pairwise (· < ·) → bs.Pairwise (· < ·) →
    (∀ x ∈ as, x < marker) →
    zzList fuel as bs acc = .ok (acc ++ as.filter (bs.contains ·)) := by
  intro fuel
  induction fuel with
  | zero => intro as bs acc h; omega
  | succ f ih =>
    intro as bs acc hf hA hB hM
    cases as with
    | nil => simp [zzList]
    | cons a as' =>
      have hA' := (List.pairwise_cons.mp hA)
      have hMa : a < marker := hM a (by simp)
      have hM' : ∀ x ∈ as', x < marker := fun x hx => hM x (by simp [hx])
      cases bs with
      | nil =>
        simp only [zzList, List.headD_nil, List.tail_nil]
        have : a ≠ marker := by omega
        simp only [this, if_false, hMa, if_true]
        rw [ih as' [] acc (by simp at hf ⊢; omega) hA'.2 hB hM']
        simp
      | cons b bs' =>
        have hB' := (List.pairwise_cons.mp hB)
        simp only [zzList, List.headD_cons, List.tail_cons]
        by_cases hab : a = b
        · subst hab
          simp only [if_true]
          rw [ih as' bs' (acc ++ [a]) (by simp at hf ⊢; omega) hA'.2 hB'.2 hM']
          have hfil : as'.filter ((a :: bs').contains ·) = as'.filter (bs'.contains ·) := by
            apply List.filter_congr
            intro x hx
            have : a < x := hA'.1 x hx
            have hne : x ≠ a := by omega
            simp [hne]
          have hpa : (a :: bs').contains a = true := by simp
          rw [List.filter_cons]
          simp only [hpa, if_true, hfil, List.append_assoc, List.singleton_append]
        · simp only [hab, if_false]
          by_cases hlt : a < b
          · simp only [hlt, if_true]
            rw [ih as' (b :: bs') acc (by simp at hf ⊢; omega) hA'.2 hB hM']
            have hnot : (b :: bs').contains a = false := by
              simp only [List.contains_eq_mem, List.mem_cons, decide_eq_false_iff_not, not_or]
              refine ⟨hab, fun hmem => ?_⟩
              have := hB'.1 a hmem
              omega
            rw [List.filter_cons]
            simp only [hnot, Bool.false_eq_true, if_false]
          · simp only [hlt, if_false]
            rw [ih (a :: as') bs' acc (by simp at hf ⊢; omega) hA hB'.2 hM]
            congr 2
            apply List.filter_congr
            intro x hx
            have hbx : b < x := by
              rcases List.mem_cons.mp hx with rfl | hx'
              · omega
              · have := hA'.1 x hx'; omega
            have hne : x ≠ b := by omega
            simp [hne]

/-- (a) `ZigZagJoin` reports, in order, exactly the elements of `vs` that occur in `target`. -/
theorem zigzagIn_eq_filter (vs target : List Nat)
    (hA : vs.Pairwise (· < ·)) (hB : target.Pairwise (· < ·)) (hM : ∀ x ∈ vs, x < marker) :
    zigzagIn vs target = .ok (vs.filter (target.contains ·)) := by
  unfold zigzagIn
  rw [loop_eq_list]
  simpa using zzList_spec _ vs target [] (by omega) hA hB hM


/-! ### S's sorted intersection on a strictly increasing first argument -/

theorem insertSortedUniq_append (x : Nat) : ∀ acc : List Nat, (∀ y ∈ acc, y < x) →
    Block.insertSortedUniq x acc = acc ++ [x] := by
  intro acc
  induction acc with
  | nil => intro _; rfl
  | cons y ys ih =>
    intro h
    have hy : y < x := h y (by simp)
    have : ¬ x < y := by omega
    have hne : ¬ x = y := by omega
    simp only [Block.insertSortedUniq, this, hne, if_false, List.cons_append]
    rw [ih (fun z hz => h z (by simp [hz]))]

theorem foldl_insert_sorted : ∀ (l acc : List Nat), (acc ++ l).Pairwise (· < ·) →
    l.foldl (fun acc x => Block.insertSortedUniq x acc) acc = acc ++ l := by
  intro l
  induction l with
  | nil => intro acc _; simp
  | cons x xs ih =>
    intro acc h
    simp only [List.foldl_cons]
    have h1 : ∀ y ∈ acc, y < x := by
      intro y hy
      have := List.pairwise_append.mp h
      exact this.2.2 y hy x (by simp)
    rw [insertSortedUniq_append x acc h1, ih (acc ++ [x]) (by simpa using h)]
    simp

theorem sortedIntersection_eq_filter (a b : List Nat) (ha : a.Pairwise (· < ·)) :
    Block.sortedIntersection a b = a.filter (b.contains ·) := by
  unfold Block.sortedIntersection
  rw [foldl_insert_sorted _ [] (by simpa using ha.filter _)]
  simp


/-! ### (b) the exit-queue scan -/

def scanStep (acc : Nat × Nat) (valExit : Nat) : Nat × Nat :=
  if valExit = FAR_FUTURE_EPOCH then acc
  else if valExit = acc.1 then (acc.1, acc.2 + 1)
  else if valExit > acc.1 then (valExit, 1)
  else acc

theorem exitQueueScan_eq (exits : List Nat) (start : Nat) :
    exitQueueScan exits start = exits.foldl scanStep (start, 0) := rfl

/-- maximum of `e` and the entries that are not FAR_FUTURE_EPOCH -/
def maxOf (e : Nat) (exits : List Nat) : Nat := (exits.filter (· ≠ FAR_FUTURE_EPOCH)).foldl max e
def countEq (m : Nat) (l : List Nat) : Nat := (l.filter (· = m)).length

theorem maxOf_nil (e : Nat) : maxOf e [] = e := rfl
theorem maxOf_cons_far (e x : Nat) (xs : List Nat) (h : x = FAR_FUTURE_EPOCH) : maxOf e (x :: xs) = maxOf e xs := by
  simp [maxOf, List.filter_cons, h]
theorem maxOf_cons (e x : Nat) (xs : List Nat) (h : x ≠ FAR_FUTURE_EPOCH) : maxOf e (x :: xs) = maxOf (max e x) xs := by
  simp [maxOf, List.filter_cons, h]
theorem countEq_nil (m : Nat) : countEq m [] = 0 := rfl
theorem countEq_cons (m x : Nat) (xs : List Nat) : countEq m (x :: xs) = (if x = m then 1 else 0) + countEq m xs := by
  unfold countEq
  by_cases h : x = m <;> simp [List.filter_cons, h]; omega

theorem maxOf_ge (l : List Nat) (a : Nat) : a ≤ maxOf a l := by
  induction l generalizing a with
  | nil => simp [maxOf_nil]
  | cons x xs ih =>
    by_cases h : x = FAR_FUTURE_EPOCH
    · rw [maxOf_cons_far _ _ _ h]; exact ih a
    · rw [maxOf_cons _ _ _ h]; exact Nat.le_trans (Nat.le_max_left a x) (ih _)

theorem maxOf_lt (l : List Nat) (a : Nat) (ha : a < FAR_FUTURE_EPOCH) (hl : ∀ x ∈ l, x ≤ FAR_FUTURE_EPOCH) :
    maxOf a l < FAR_FUTURE_EPOCH := by
  induction l generalizing a with
  | nil => simpa [maxOf_nil]
  | cons x xs ih =>
    have hxs : ∀ y ∈ xs, y ≤ FAR_FUTURE_EPOCH := fun y hy => hl y (by simp [hy])
    by_cases h : x = FAR_FUTURE_EPOCH
    · rw [maxOf_cons_far _ _ _ h]; exact ih a ha hxs
    · rw [maxOf_cons _ _ _ h]
      apply ih _ _ hxs
      have := hl x (by simp); omega

/-- the scan from an accumulator `(e, c)`: the end is the maximum, the churn counts the entries equal to it -/
theorem scan_spec : ∀ (exits : List Nat) (e c : Nat), e < FAR_FUTURE_EPOCH →
    (∀ x ∈ exits, x ≤ FAR_FUTURE_EPOCH) →
    exits.foldl scanStep (e, c) = (maxOf e exits, (if maxOf e exits = e then c else 0) + countEq (maxOf e exits) exits) := by
  intro exits
  induction exits with
  | nil => intro e c _ _; simp [maxOf_nil, countEq_nil]
  | cons x xs ih =>
    intro e c he hx
    have hxs : ∀ y ∈ xs, y ≤ FAR_FUTURE_EPOCH := fun y hy => hx y (by simp [hy])
    have hx0 : x ≤ FAR_FUTURE_EPOCH := hx x (by simp)
    rw [List.foldl_cons, countEq_cons]
    by_cases hfar : x = FAR_FUTURE_EPOCH
    · have hstep : scanStep (e, c) x = (e, c) := by simp [scanStep, hfar]
      rw [hstep, ih e c he hxs, maxOf_cons_far _ _ _ hfar]
      have hm := maxOf_lt xs e he hxs
      have hne : ¬ x = maxOf e xs := by
        intro h; rw [← h] at hm; omega
      rw [if_neg hne]; congr 1; omega
    · have hxlt : x < FAR_FUTURE_EPOCH := by omega
      rw [maxOf_cons _ _ _ hfar]
      by_cases hxe : x = e
      · subst hxe
        have hstep : scanStep (x, c) x = (x, c + 1) := by
          unfold scanStep; simp only [hfar, if_false, if_true]
        have hmax : max x x = x := by omega
        rw [hstep, ih x (c + 1) he hxs, hmax]
        by_cases hm : maxOf x xs = x
        · have h2 : x = maxOf x xs := hm.symm
          rw [if_pos hm, if_pos hm, if_pos h2]; congr 1; omega
        · have hne : ¬ x = maxOf x xs := fun h => hm h.symm
          rw [if_neg hm, if_neg hm, if_neg hne]; congr 1; omega
      · by_cases hgt : x > e
        · have hstep : scanStep (e, c) x = (x, 1) := by
            unfold scanStep; simp only [hfar, if_false, hxe, hgt, if_true]
          have hmax : max e x = x := by omega
          rw [hstep, ih x 1 hxlt hxs, hmax]
          have hge := maxOf_ge xs x
          have hne2 : ¬ maxOf x xs = e := by
            intro h; rw [h] at hge; omega
          by_cases hm : maxOf x xs = x
          · have h2 : x = maxOf x xs := hm.symm
            rw [if_pos hm, if_neg hne2, if_pos h2]; congr 1; omega
          · have hne : ¬ x = maxOf x xs := fun h => hm h.symm
            rw [if_neg hm, if_neg hne2, if_neg hne]; congr 1; omega
        · have hstep : scanStep (e, c) x = (e, c) := by
            unfold scanStep; simp only [hfar, if_false, hxe, hgt]
          have hmax : max e x = e := by omega
          rw [hstep, ih e c he hxs, hmax]
          have hge := maxOf_ge xs e
          have hne : ¬ x = maxOf e xs := by
            intro h; rw [← h] at hge; omega
          rw [if_neg hne]; congr 1; omega

theorem foldl_max_eq (l : List Nat) (a : Nat) : l.foldl max a = max a (l.foldl max 0) := by
  induction l generalizing a with
  | nil => simp
  | cons x xs ih => simp only [List.foldl_cons]; rw [ih (max a x), ih (max 0 x)]; omega

/-- the spec's `max(exit_epochs + [start])` is `maxOf start` of the exit-epoch column -/
theorem spec_max_eq (vals : List Validator) (start : Nat) :
    (((vals.filter (·.exit_epoch ≠ FAR_FUTURE_EPOCH)).map (·.exit_epoch)) ++ [start]).foldl max 0
      = maxOf start (vals.map (·.exit_epoch)) := by
  unfold maxOf
  rw [List.foldl_append, List.filter_map]
  simp only [List.foldl_cons, List.foldl_nil]
  rw [foldl_max_eq _ start]
  have : (fun x : Nat => decide (x ≠ FAR_FUTURE_EPOCH)) ∘ (fun v : Validator => v.exit_epoch)
       = fun v : Validator => decide (v.exit_epoch ≠ FAR_FUTURE_EPOCH) := rfl
  rw [this]; omega

theorem spec_count_eq (vals : List Validator) (m : Nat) :
    (vals.filter (·.exit_epoch = m)).length = countEq m (vals.map (·.exit_epoch)) := by
  unfold countEq
  rw [List.filter_map, List.length_map]
  rfl

/-- (b) `InitiateValidatorExit`'s single pass equals the spec's max + count formulation. -/
theorem initiateExit_eq (cfg : Config) (cur activeCount : Nat) (vals : List Validator) (index : Nat)
    (hidx : index < vals.length)
    (hact : activeCount = (vals.filter (is_active_validator · cur)).length)
    (hq : cfg.CHURN_LIMIT_QUOTIENT ≠ 0)
    (hexits : ∀ v ∈ vals, v.exit_epoch ≤ FAR_FUTURE_EPOCH)
    (hno : maxOf (cur + 1 + cfg.MAX_SEED_LOOKAHEAD) (vals.map (·.exit_epoch)) + 1 + cfg.MIN_VALIDATOR_WITHDRAWABILITY_DELAY < 2 ^ 64) :
    initiateValidatorExit cfg cur activeCount vals index = .ok (initiate_validator_exit_pure cfg cur vals index) := by
  have hstart_le := maxOf_ge (vals.map (·.exit_epoch)) (cur + 1 + cfg.MAX_SEED_LOOKAHEAD)
  have hstart : cur + 1 + cfg.MAX_SEED_LOOKAHEAD < FAR_FUTURE_EPOCH := by
    unfold FAR_FUTURE_EPOCH; omega
  have hmod : (cur + 1 + cfg.MAX_SEED_LOOKAHEAD) % 2 ^ 64 = cur + 1 + cfg.MAX_SEED_LOOKAHEAD := by
    apply Nat.mod_eq_of_lt; unfold FAR_FUTURE_EPOCH at hstart; omega
  unfold initiateValidatorExit initiate_validator_exit_pure
  have hsome : vals[index]? = some vals[index] := by simp [hidx]
  rw [hsome]
  simp only
  by_cases hfar : vals[index].exit_epoch ≠ FAR_FUTURE_EPOCH
  · simp only [hfar, ne_eq, not_false_eq_true, if_true]
  · simp only [hfar, if_false]
    rw [exitQueueScan_eq, hmod]
    rw [scan_spec _ _ 0 hstart (by
      intro x hx
      obtain ⟨v, hv, rfl⟩ := List.mem_map.mp hx
      exact hexits v hv)]
    simp only [hq, if_false]
    rw [spec_max_eq, spec_count_eq]
    unfold compute_activation_exit_epoch churn_limit_of
    rw [← hact]
    generalize maxOf (cur + 1 + cfg.MAX_SEED_LOOKAHEAD) (vals.map (·.exit_epoch)) = m at *
    have hzero : (if m = cur + 1 + cfg.MAX_SEED_LOOKAHEAD then 0 else 0) = 0 := by split <;> rfl
    rw [hzero, Nat.zero_add]
    by_cases hch : countEq m (vals.map (·.exit_epoch)) ≥ max cfg.MIN_PER_EPOCH_CHURN_LIMIT (activeCount / cfg.CHURN_LIMIT_QUOTIENT)
    · simp only [hch, if_true]
      have h1 : (m + 1) % 2 ^ 64 = m + 1 := Nat.mod_eq_of_lt (by omega)
      have h2 : (m + 1 + cfg.MIN_VALIDATOR_WITHDRAWABILITY_DELAY) % 2 ^ 64 = m + 1 + cfg.MIN_VALIDATOR_WITHDRAWABILITY_DELAY :=
        Nat.mod_eq_of_lt (by omega)
      rw [h1, h2]
    · simp only [hch, if_false]
      have h2 : (m + cfg.MIN_VALIDATOR_WITHDRAWABILITY_DELAY) % 2 ^ 64 = m + cfg.MIN_VALIDATOR_WITHDRAWABILITY_DELAY :=
        Nat.mod_eq_of_lt (by omega)
      rw [h2]


/-! ### (d) structure check of an indexed attestation -/

theorem sorted_nodup_eq_sortedUnique : ∀ l : List Nat,
    (isSortedGo l && noAdjacentDup l) = Block.sortedUnique l := by
  intro l
  induction l with
  | nil => rfl
  | cons a t ih =>
    cases t with
    | nil => rfl
    | cons b rest =>
      simp only [isSortedGo, noAdjacentDup, Block.sortedUnique]
      rw [← ih]
      by_cases h1 : b < a <;> by_cases h2 : a = b <;> by_cases h3 : a < b <;>
        simp [h1, h2, h3, Bool.and_comm, Bool.and_left_comm, Bool.and_assoc] <;> omega

theorem sortedUnique_cons (a : Nat) (l : List Nat) :
    Block.sortedUnique (a :: l) = true ↔ (∀ x ∈ l, a < x) ∧ Block.sortedUnique l = true := by
  induction l generalizing a with
  | nil => simp [Block.sortedUnique]
  | cons b rest ih =>
    simp only [Block.sortedUnique, Bool.and_eq_true, decide_eq_true_eq]
    rw [ih b]
    constructor
    · rintro ⟨hab, hall, hs⟩
      refine ⟨?_, hall, hs⟩
      intro x hx
      rcases List.mem_cons.mp hx with rfl | hx
      · exact hab
      · exact Nat.lt_trans hab (hall x hx)
    · rintro ⟨hall, hall2, hs⟩
      exact ⟨hall b (by simp), hall2, hs⟩

theorem sortedUnique_iff_pairwise (l : List Nat) : Block.sortedUnique l = true ↔ l.Pairwise (· < ·) := by
  induction l with
  | nil => simp [Block.sortedUnique]
  | cons a t ih => rw [sortedUnique_cons, List.pairwise_cons, ih]

/-- in a strictly increasing non-empty list every element is at most the last one -/
theorem le_getLast_of_sorted : ∀ (l : List Nat) (h : l ≠ []), l.Pairwise (· < ·) → ∀ x ∈ l, x ≤ l.getLast h := by
  intro l
  induction l with
  | nil => intro h; exact absurd rfl h
  | cons a t ih =>
    intro h hp x hx
    cases t with
    | nil => simp at hx; simp [hx]
    | cons b rest =>
      have hp' := List.pairwise_cons.mp hp
      rw [List.getLast_cons (by simp)]
      rcases List.mem_cons.mp hx with rfl | hx'
      · have h1 := hp'.1 b (by simp)
        have h2 := ih (by simp) hp'.2 b (by simp)
        omega
      · exact ih (by simp) hp'.2 x hx'

/-- (d) the structure check as coded (count limit, non-empty, `sort.IsSorted`, adjacent-duplicate scan,
range check of the LAST index only) decides exactly: within the SSZ limit, non-empty, strictly
increasing, every index in range. -/
theorem validateIndexedNoSig_eq (cfg : Config) (n : Nat) (indices : List Nat) :
    validateIndexedNoSig cfg n indices = .ok (decide (indices.length ≤ cfg.MAX_VALIDATORS_PER_COMMITTEE ∧
      indices.length ≠ 0 ∧ Block.sortedUnique indices = true ∧ ∀ i ∈ indices, i < n)) := by
  unfold validateIndexedNoSig
  by_cases h1 : indices.length > cfg.MAX_VALIDATORS_PER_COMMITTEE
  · have : ¬ indices.length ≤ cfg.MAX_VALIDATORS_PER_COMMITTEE := by omega
    simp [h1, this]
  · simp only [h1, if_false]
    by_cases h2 : indices.length ≤ 0
    · have : indices.length = 0 := by omega
      simp [h2, this]
    · simp only [h2, if_false]
      have hne : indices ≠ [] := by intro h; simp [h] at h2
      by_cases h3 : isSortedGo indices = true
      · by_cases h4 : noAdjacentDup indices = true
        · have hsu : Block.sortedUnique indices = true := by
            rw [← sorted_nodup_eq_sortedUnique, h3, h4]; rfl
          have hlast : indices[indices.length - 1]? = some (indices.getLast hne) := by
            rw [List.getLast_eq_getElem]; simp
          simp only [h3, h4, Bool.not_true, Bool.false_eq_true, if_false, hlast]
          congr 1
          have hp := (sortedUnique_iff_pairwise indices).mp hsu
          have hle := le_getLast_of_sorted indices hne hp
          have hmem : indices.getLast hne ∈ indices := List.getLast_mem hne
          apply decide_eq_decide.mpr
          constructor
          · intro hl
            refine ⟨by omega, by omega, hsu, ?_⟩
            intro i hi
            have := hle i hi; omega
          · rintro ⟨_, _, _, hall⟩
            exact hall _ hmem
        · have hsu : ¬ Block.sortedUnique indices = true := by
            rw [← sorted_nodup_eq_sortedUnique]; simp [h3, h4]
          simp [h3, h4, hsu]
      · have hsu : ¬ Block.sortedUnique indices = true := by
          rw [← sorted_nodup_eq_sortedUnique]; simp [h3]
        simp [h3, hsu]


theorem mapM_idx_ok {α} (l : List α) (what : String) : ∀ indices : List Nat,
    (∃ r, indices.mapM (fun i => idx l i what) = Except.ok r) ↔ ∀ i ∈ indices, i < l.length := by
  intro indices
  induction indices with
  | nil => simp [List.mapM_nil, pure, Except.pure]
  | cons a t ih =>
    rw [List.mapM_cons]
    by_cases ha : a < l.length
    · have hget : idx l a what = Except.ok l[a] := by
        unfold idx; simp [ha, pure, Except.pure]
      simp only [hget, bind, Except.bind]
      constructor
      · rintro ⟨r, hr⟩
        intro i hi
        rcases List.mem_cons.mp hi with rfl | hi'
        · exact ha
        · have : ∃ r, List.mapM (fun i => idx l i what) t = Except.ok r := by
            cases hm : List.mapM (fun i => idx l i what) t with
            | ok v => exact ⟨v, rfl⟩
            | error e => rw [hm] at hr; simp [pure, Except.pure] at hr
          exact (ih.mp this) i hi'
      · intro hall
        obtain ⟨r, hr⟩ := ih.mpr (fun i hi => hall i (by simp [hi]))
        exact ⟨l[a] :: r, by rw [hr]; rfl⟩
    · have hget : ∃ e, idx l a what = Except.error e := by
        unfold idx
        have : l[a]? = none := by simp; omega
        simp [this, invalid, throw, throwThe, MonadExceptOf.throw]
      obtain ⟨e, he⟩ := hget
      simp only [he, bind, Except.bind]
      constructor
      · rintro ⟨r, hr⟩; cases hr
      · intro hall; exact absurd (hall a (by simp)) ha

/-- relation with the spec's `is_valid_indexed_attestation` (signature oracle = true) -/
theorem spec_valid_indexed_iff (s : State) (indices : List Nat) :
    Block.is_valid_indexed_attestation s indices true = .ok true ↔
      (indices.length ≠ 0 ∧ Block.sortedUnique indices = true ∧ ∀ i ∈ indices, i < s.validators.length) := by
  unfold Block.is_valid_indexed_attestation
  by_cases h0 : indices.length = 0
  · simp [h0, pure, Except.pure]
  · by_cases hs : Block.sortedUnique indices = true
    · simp only [h0, hs, decide_false, Bool.not_true, Bool.or_self, Bool.false_eq_true, if_false]
      rw [← mapM_idx_ok s.validators "indexed_attestation.index_out_of_range" indices]
      cases hm : List.mapM (fun i => idx s.validators i "indexed_attestation.index_out_of_range") indices with
      | ok v => simp [bind, Except.bind, pure, Except.pure, h0]
      | error e => simp [bind, Except.bind, h0]
    · simp [h0, hs, pure, Except.pure]


/-- (e) `IsSlashableAttestationData` as coded (surround first, then double vote) is the spec predicate. -/
theorem slashable_eq (a b : AttestationData) :
    isSlashableAttestationData a b = Block.is_slashable_attestation_data a b := by
  unfold isSlashableAttestationData isSurroundVote isDoubleVote Block.is_slashable_attestation_data
  rw [Bool.or_comm]

/-! ### (f) domain separation -/

/-- a collision of `H` truncated to its first 28 bytes (a full collision of `H` is one) -/
def Collision28 (H : Bs → Bs) : Prop := ∃ x y : Bs, x ≠ y ∧ (H x).take 28 = (H y).take 28

theorem append_inj_len {a b c d : Bs} (h : a ++ b = c ++ d) (hl : a.length = c.length) : a = c ∧ b = d :=
  List.append_inj h hl

/-- (f) `ComputeDomain` / `ComputeSigningRoot` separate (domain type, fork version, genesis validators
root, object root): two different quadruples of well-sized inputs give different messages, or else an
explicit collision of `H` (truncated to the 28 bytes that enter a domain) is exhibited. -/
theorem domain_separation (H : Bs → Bs)
    (t v g o t' v' g' o' : Bs)
    (ht : t.length = 4) (ht' : t'.length = 4) (hv : v.length = 4) (hv' : v'.length = 4)
    (ho : o.length = 32) (ho' : o'.length = 32)
    (heq : signedMessage H t v g o = signedMessage H t' v' g' o') :
    (t = t' ∧ v = v' ∧ g = g' ∧ o = o') ∨ Collision28 H := by
  unfold signedMessage computeSigningRoot computeDomain computeForkDataRoot at heq
  by_cases hin : o ++ (t ++ (H (v ++ List.replicate 28 0 ++ g)).take 28) = o' ++ (t' ++ (H (v' ++ List.replicate 28 0 ++ g')).take 28)
  · obtain ⟨hoo, hrest⟩ := append_inj_len hin (by omega)
    obtain ⟨htt, hfd⟩ := append_inj_len hrest (by omega)
    by_cases hfin : v ++ List.replicate 28 0 ++ g = v' ++ List.replicate 28 0 ++ g'
    · left
      rw [List.append_assoc, List.append_assoc] at hfin
      obtain ⟨hvv, hrest2⟩ := append_inj_len hfin (by omega)
      obtain ⟨_, hgg⟩ := append_inj_len hrest2 rfl
      exact ⟨htt, hvv, hgg, hoo⟩
    · right
      exact ⟨_, _, hfin, hfd⟩
  · right
    exact ⟨_, _, hin, by rw [heq]⟩


/-! ### (c) the withdrawals sweep -/

/-- outcome of the spec as a `Res` -/
def toRes {α} : SM α → Res α
  | .ok a => .ok a
  | .error _ => .err

theorem idx_ok {α} (l : List α) (i : Nat) (what : String) (h : i < l.length) : idx l i what = Except.ok l[i] := by
  unfold idx; simp [h, pure, Except.pure]

theorem sweep_eq (cfg : Config) (s : State) (epoch : Nat)
    (hbal : s.balances.length = s.validators.length) (hlen : s.validators.length < 2 ^ 64) :
    ∀ (n i wi vi : Nat) (ws : List Withdrawal) (fuel : Nat),
      i + n = min s.validators.length cfg.MAX_VALIDATORS_PER_WITHDRAWALS_SWEEP →
      vi < s.validators.length → n < fuel → wi + n < 2 ^ 64 →
      withdrawalsLoop cfg s epoch s.validators.length fuel i wi vi ws
        = toRes (Block.withdrawals_sweep cfg s epoch n wi vi ws) := by
  intro n
  induction n with
  | zero =>
    intro i wi vi ws fuel hin hvi hfuel _
    cases fuel with
    | zero => omega
    | succ f =>
      have hb : vi < s.balances.length := by omega
      have h1 : s.validators[vi]? = some s.validators[vi] := by simp [hvi]
      have h2 : s.balances[vi]? = some s.balances[vi] := by simp [hb]
      simp only [withdrawalsLoop, h1, h2, Block.withdrawals_sweep, pure, Except.pure, toRes]
      have : (decide (i ≥ s.validators.length) || decide (i ≥ cfg.MAX_VALIDATORS_PER_WITHDRAWALS_SWEEP)) = true := by
        simp only [Bool.or_eq_true, decide_eq_true_eq]; omega
      simp [this]
  | succ n ih =>
    intro i wi vi ws fuel hin hvi hfuel hwi
    cases fuel with
    | zero => omega
    | succ f =>
      have hb : vi < s.balances.length := by omega
      have h1 : s.validators[vi]? = some s.validators[vi] := by simp [hvi]
      have h2 : s.balances[vi]? = some s.balances[vi] := by simp [hb]
      have hcont : (decide (i ≥ s.validators.length) || decide (i ≥ cfg.MAX_VALIDATORS_PER_WITHDRAWALS_SWEEP)) = false := by
        simp only [Bool.or_eq_false_iff, decide_eq_false_iff_not]; omega
      have hcount : s.validators.length ≠ 0 := by omega
      have hmod1 : (wi + 1) % 2 ^ 64 = wi + 1 := Nat.mod_eq_of_lt (by omega)
      have hmodv : (vi + 1) % 2 ^ 64 % s.validators.length = (vi + 1) % s.validators.length := by
        rw [Nat.mod_eq_of_lt (by omega : vi + 1 < 2 ^ 64)]
      have hvi' : (vi + 1) % s.validators.length < s.validators.length := Nat.mod_lt _ (by omega)
      unfold withdrawalsLoop Block.withdrawals_sweep
      simp only [h1, h2, hcont, Bool.false_eq_true, if_false, idx_ok _ _ _ hvi, idx_ok _ _ _ hb, bind, Except.bind, hmod1, hmodv]
      by_cases hfull : Block.is_fully_withdrawable_validator s.validators[vi] s.balances[vi] epoch = true
      · simp only [hfull, if_true]
        have hu : u64 (wi + 1) "withdrawal_index" = Except.ok (wi + 1) := by
          unfold u64; simp [pure, Except.pure]; omega
        simp only [hu]
        split
        · simp [pure, Except.pure, toRes]
        · exact ih (i + 1) (wi + 1) _ _ f (by omega) hvi' (by omega) (by omega)
      · simp only [hfull, Bool.false_eq_true, if_false]
        by_cases hpart : Block.is_partially_withdrawable_validator cfg s.validators[vi] s.balances[vi] = true
        · simp only [hpart, if_true]
          have hu : u64 (wi + 1) "withdrawal_index" = Except.ok (wi + 1) := by
            unfold u64; simp [pure, Except.pure]; omega
          simp only [hu]
          split
          · simp [pure, Except.pure, toRes]
          · exact ih (i + 1) (wi + 1) _ _ f (by omega) hvi' (by omega) (by omega)
        · simp only [hpart, Bool.false_eq_true, if_false]
          have hu : u64 wi "withdrawal_index" = Except.ok wi := by
            unfold u64; simp [pure, Except.pure]; omega
          simp only [hu]
          split
          · simp [pure, Except.pure, toRes]
          · exact ih (i + 1) wi _ _ f (by omega) hvi' (by omega) (by omega)

/-- (c) `GetExpectedWithdrawals` (cursor read before the bound test, `break`s, wrapping index arithmetic)
computes the spec's `get_expected_withdrawals` on every state whose sweep cursor is inside a non-empty
registry with one balance per validator. -/
theorem withdrawals_eq (cfg : Config) (s : State)
    (hbal : s.balances.length = s.validators.length) (hlen : s.validators.length < 2 ^ 64)
    (hcur : s.next_withdrawal_validator_index < s.validators.length)
    (hwi : s.next_withdrawal_index + s.validators.length < 2 ^ 64) :
    expectedWithdrawals cfg s = toRes (Block.get_expected_withdrawals cfg s) := by
  unfold expectedWithdrawals Block.get_expected_withdrawals get_current_epoch compute_epoch_at_slot
  apply sweep_eq cfg s _ hbal hlen
  · omega
  · exact hcur
  · omega
  · have : min s.validators.length cfg.MAX_VALIDATORS_PER_WITHDRAWALS_SWEEP ≤ s.validators.length := Nat.min_le_left _ _
    omega

/-! ### (g) totality: no panic, no exhausted fuel -/

theorem zzList_total : ∀ (fuel : Nat) (as bs acc : List Nat),
    as.length + bs.length < fuel → (∀ x ∈ as, x ≤ marker) → ∃ r, zzList fuel as bs acc = .ok r := by
  intro fuel
  induction fuel with
  | zero => intro as bs acc h; omega
  | succ f ih =>
    intro as bs acc hf hM
    cases as with
    | nil => exact ⟨acc, by simp [zzList]⟩
    | cons a as' =>
      have hM' : ∀ x ∈ as', x ≤ marker := fun x hx => hM x (by simp [hx])
      have hMa : a ≤ marker := hM a (by simp)
      simp only [zzList]
      split
      · exact ih _ _ _ (by cases bs <;> simp at hf ⊢ <;> omega) hM'
      · split
        · exact ih _ _ _ (by simp at hf ⊢; omega) hM'
        · cases bs with
          | nil => simp at *; omega
          | cons b bs' => exact ih _ _ _ (by simp at hf ⊢; omega) hM

theorem zigzagIn_total (vs target : List Nat) (hM : ∀ x ∈ vs, x ≤ marker) : ∃ r, zigzagIn vs target = .ok r := by
  unfold zigzagIn
  rw [loop_eq_list]
  exact zzList_total _ vs target [] (by simp) (by simpa using hM)

theorem withdrawalsLoop_total (cfg : Config) (s : State) (epoch : Nat) :
    ∀ (fuel i wi vi : Nat) (ws : List Withdrawal), i ≤ s.validators.length → s.validators.length < fuel + i →
      withdrawalsLoop cfg s epoch s.validators.length fuel i wi vi ws ≠ .panic ∧
      withdrawalsLoop cfg s epoch s.validators.length fuel i wi vi ws ≠ .outOfFuel := by
  intro fuel
  induction fuel with
  | zero => intro i wi vi ws h1 h2; omega
  | succ f ih =>
    intro i wi vi ws h1 h2
    unfold withdrawalsLoop
    cases hv : s.validators[vi]? with
    | none => simp
    | some validator =>
      cases hb : s.balances[vi]? with
      | none => simp
      | some balance =>
        simp only
        have hcount : s.validators.length ≠ 0 := by
          intro h0
          have : vi < s.validators.length := by
            have := List.getElem?_eq_some_iff.mp hv
            exact this.1
          omega
        split
        · simp
        · rename_i hcont
          have hi : i < s.validators.length := by
            simp only [Bool.or_eq_true, decide_eq_true_eq, not_or] at hcont; omega
          repeat' split
          all_goals first
            | exact ih _ _ _ _ (by omega) (by omega)
            | simp

theorem expectedWithdrawals_total (cfg : Config) (s : State) :
    expectedWithdrawals cfg s ≠ .panic ∧ expectedWithdrawals cfg s ≠ .outOfFuel := by
  unfold expectedWithdrawals
  exact withdrawalsLoop_total cfg s _ _ _ _ _ _ (by omega) (by omega)

theorem initiateValidatorExit_total (cfg : Config) (cur activeCount : Nat) (vals : List Validator) (index : Nat)
    (hq : cfg.CHURN_LIMIT_QUOTIENT ≠ 0) :
    initiateValidatorExit cfg cur activeCount vals index ≠ .panic ∧
    initiateValidatorExit cfg cur activeCount vals index ≠ .outOfFuel := by
  unfold initiateValidatorExit
  cases vals[index]? with
  | none => simp
  | some v =>
    simp only
    split
    · simp
    · simp

/-! ### (h) attestation timing -/

/-- the spec's four timing assertions of `process_attestation` (Nat arithmetic, no wrap) -/
def specTimingOk (SPE MIN : Nat) (deneb : Bool) (stateSlot dataSlot targetEpoch : Nat) : Prop :=
  let current := stateSlot / SPE
  let previous := current - 1  -- get_previous_epoch: GENESIS_EPOCH stays GENESIS_EPOCH
  (targetEpoch = previous ∨ targetEpoch = current) ∧ targetEpoch = dataSlot / SPE ∧
  dataSlot + MIN ≤ stateSlot ∧ (deneb = false → stateSlot ≤ dataSlot + SPE)

theorem div_le_imp_lt (a b n : Nat) (hn : 0 < n) (h : a / n ≤ b / n) : a < b + n := by
  have h1 : a < (a / n + 1) * n := by
    have := Nat.lt_mul_div_succ a hn; rw [Nat.mul_comm]; exact this
  have h2 : (a / n + 1) * n ≤ (b / n + 1) * n := Nat.mul_le_mul_right n (by omega)
  have h3 : b / n * n ≤ b := Nat.div_mul_le_self b n
  have h4 : (b / n + 1) * n = b / n * n + n := by rw [Nat.add_mul, Nat.one_mul]
  omega

theorem attestationTiming_eq (SPE MIN : Nat) (deneb : Bool) (cur slot target : Nat)
    (hspe : 0 < SPE) (hmin : MIN ≤ SPE) (hcur : cur + 2 * SPE < 2 ^ 64) :
    attestationTimingOk SPE MIN deneb cur slot target = true ↔ specTimingOk SPE MIN deneb cur slot target := by
  unfold attestationTimingOk specTimingOk
  simp only
  have hkey : slot / SPE ≤ cur / SPE → slot < cur + SPE := div_le_imp_lt slot cur SPE hspe
  generalize cur / SPE = c at *
  generalize slot / SPE = e at *
  by_cases h1 : target < c - 1
  · rw [if_pos h1]
    constructor
    · intro h; cases h
    · rintro ⟨h, -⟩; omega
  · rw [if_neg h1]
    by_cases h2 : target > c
    · rw [if_pos h2]
      constructor
      · intro h; cases h
      · rintro ⟨h, -⟩; omega
    · rw [if_neg h2]
      by_cases h3 : target = e
      · have h3n : ¬ (target ≠ e) := fun h => h h3
        rw [if_neg h3n]
        have hlt : slot < cur + SPE := hkey (by omega)
        have hm1 : (slot + SPE) % 2 ^ 64 = slot + SPE := Nat.mod_eq_of_lt (by omega)
        have hm2 : (slot + MIN) % 2 ^ 64 = slot + MIN := Nat.mod_eq_of_lt (by omega)
        rw [hm1, hm2]
        subst h3
        have hpc : target = c - 1 ∨ target = c := by omega
        cases deneb
        · by_cases ha : cur ≤ slot + SPE <;> by_cases hb : slot + MIN ≤ cur <;> simp [ha, hb, hpc]
        · by_cases hb : slot + MIN ≤ cur <;> simp [hb, hpc]
      · rw [if_pos h3]
        constructor
        · intro h; cases h
        · rintro ⟨-, h, -⟩; exact absurd h h3

/-- `S`'s `attestation_timing` succeeds exactly when the four assertions hold -/
theorem spec_timing_iff (cfg : Config) (s : State) (data : AttestationData)
    (hcur : s.slot + 2 * cfg.SLOTS_PER_EPOCH < 2 ^ 64) (hmin : cfg.MIN_ATTESTATION_INCLUSION_DELAY ≤ cfg.SLOTS_PER_EPOCH) :
    Block.attestation_timing cfg s data = .ok () ↔
      specTimingOk cfg.SLOTS_PER_EPOCH cfg.MIN_ATTESTATION_INCLUSION_DELAY (decide (s.fork ≥ .deneb)) s.slot data.slot data.target.epoch := by
  unfold Block.attestation_timing specTimingOk get_previous_epoch get_current_epoch compute_epoch_at_slot GENESIS_EPOCH
  simp only
  have hprev : (if s.slot / cfg.SLOTS_PER_EPOCH = 0 then 0 else s.slot / cfg.SLOTS_PER_EPOCH - 1) = s.slot / cfg.SLOTS_PER_EPOCH - 1 := by
    split <;> omega
  rw [hprev]
  generalize s.slot / cfg.SLOTS_PER_EPOCH = c
  generalize data.slot / cfg.SLOTS_PER_EPOCH = e
  generalize data.target.epoch = t
  by_cases h1 : t = c - 1 ∨ t = c
  · have h1b : (decide (t = c - 1) || decide (t = c)) = true := by
      simpa using h1
    by_cases h2 : t = e
    · subst h2
      have h2 : t = t := rfl
      by_cases h3 : data.slot + cfg.MIN_ATTESTATION_INCLUSION_DELAY ≤ s.slot
      · have hu : u64 (data.slot + cfg.MIN_ATTESTATION_INCLUSION_DELAY) "attestation.slot overflow" = Except.ok (data.slot + cfg.MIN_ATTESTATION_INCLUSION_DELAY) := by
          unfold u64; simp [pure, Except.pure]; omega
        by_cases hd : s.fork ≥ .deneb
        · simp [require, h1b, h2, h3, hu, hd, bind, Except.bind, pure, Except.pure, h1]
        · have hu2 : u64 (data.slot + cfg.SLOTS_PER_EPOCH) "attestation.slot overflow" = Except.ok (data.slot + cfg.SLOTS_PER_EPOCH) := by
            unfold u64; simp [pure, Except.pure]; omega
          by_cases h4 : s.slot ≤ data.slot + cfg.SLOTS_PER_EPOCH
          · simp [require, h1b, h2, h3, hu, hd, hu2, h4, bind, Except.bind, pure, Except.pure, h1]
          · simp [require, h1b, h2, h3, hu, hd, hu2, h4, bind, Except.bind, pure, Except.pure, h1, invalid, throw, throwThe, MonadExceptOf.throw]
      · by_cases hov : data.slot + cfg.MIN_ATTESTATION_INCLUSION_DELAY < 2 ^ 64
        · have hu : u64 (data.slot + cfg.MIN_ATTESTATION_INCLUSION_DELAY) "attestation.slot overflow" = Except.ok (data.slot + cfg.MIN_ATTESTATION_INCLUSION_DELAY) := by
            unfold u64; simp [pure, Except.pure, hov]
          simp [require, h1b, h2, h3, hu, bind, Except.bind, pure, Except.pure, h1, invalid, throw, throwThe, MonadExceptOf.throw]
        · have hu : ∃ e, u64 (data.slot + cfg.MIN_ATTESTATION_INCLUSION_DELAY) "attestation.slot overflow" = Except.error e := by
            unfold u64; simp [hov, throw, throwThe, MonadExceptOf.throw]
          obtain ⟨er, hu⟩ := hu
          simp [require, h1b, h2, h3, hu, bind, Except.bind, pure, Except.pure, h1]
    · simp [require, h1b, h2, bind, Except.bind, pure, Except.pure, h1, invalid, throw, throwThe, MonadExceptOf.throw]
  · have h1b : (decide (t = c - 1) || decide (t = c)) = false := by
      simpa using h1
    simp [require, h1b, bind, Except.bind, h1, invalid, throw, throwThe, MonadExceptOf.throw]

/-- (h) the timing checks as coded (wrapping `uint64` sums) accept exactly what the spec's assertions accept -/
theorem attestation_window_eq (cfg : Config) (s : State) (data : AttestationData)
    (hspe : 0 < cfg.SLOTS_PER_EPOCH) (hmin : cfg.MIN_ATTESTATION_INCLUSION_DELAY ≤ cfg.SLOTS_PER_EPOCH)
    (hcur : s.slot + 2 * cfg.SLOTS_PER_EPOCH < 2 ^ 64) :
    attestationTimingOk cfg.SLOTS_PER_EPOCH cfg.MIN_ATTESTATION_INCLUSION_DELAY (decide (s.fork ≥ .deneb)) s.slot data.slot data.target.epoch = true
      ↔ Block.attestation_timing cfg s data = .ok () := by
  rw [spec_timing_iff cfg s data hcur hmin]
  exact attestationTiming_eq _ _ _ _ _ _ hspe hmin hcur

/-! ### the spec's `sorted(set(a).intersection(b))` for ARBITRARY lists -/

theorem mem_insertSortedUniq (x y : Nat) : ∀ l : List Nat, y ∈ Block.insertSortedUniq x l ↔ y = x ∨ y ∈ l := by
  intro l
  induction l with
  | nil => simp [Block.insertSortedUniq]
  | cons z zs ih =>
    unfold Block.insertSortedUniq
    by_cases h1 : x < z
    · simp [h1]
    · by_cases h2 : x = z
      · subst h2; simp
      · simp only [h1, h2, if_false, List.mem_cons, ih]
        constructor
        · rintro (h | h | h)
          · exact Or.inr (Or.inl h)
          · exact Or.inl h
          · exact Or.inr (Or.inr h)
        · rintro (h | h | h)
          · exact Or.inr (Or.inl h)
          · exact Or.inl h
          · exact Or.inr (Or.inr h)

theorem sorted_insertSortedUniq (x : Nat) : ∀ l : List Nat, l.Pairwise (· < ·) →
    (Block.insertSortedUniq x l).Pairwise (· < ·) := by
  intro l
  induction l with
  | nil => intro _; simp [Block.insertSortedUniq]
  | cons z zs ih =>
    intro h
    have hp := List.pairwise_cons.mp h
    unfold Block.insertSortedUniq
    by_cases h1 : x < z
    · simp only [h1, if_true]
      apply List.pairwise_cons.mpr
      refine ⟨?_, h⟩
      intro a ha
      rcases List.mem_cons.mp ha with rfl | ha'
      · exact h1
      · exact Nat.lt_trans h1 (hp.1 a ha')
    · by_cases h2 : x = z
      · subst h2
        have : ¬ x < x := Nat.lt_irrefl x
        simp only [this, if_false, if_true]; exact h
      · simp only [h1, h2, if_false]
        apply List.pairwise_cons.mpr
        refine ⟨?_, ih hp.2⟩
        intro a ha
        rcases (mem_insertSortedUniq x a zs).mp ha with rfl | ha'
        · omega
        · exact hp.1 a ha'

theorem foldl_insert_spec : ∀ (l acc : List Nat), acc.Pairwise (· < ·) →
    (l.foldl (fun acc x => Block.insertSortedUniq x acc) acc).Pairwise (· < ·) ∧
    ∀ y, y ∈ l.foldl (fun acc x => Block.insertSortedUniq x acc) acc ↔ y ∈ acc ∨ y ∈ l := by
  intro l
  induction l with
  | nil => intro acc h; simp [h]
  | cons x xs ih =>
    intro acc h
    simp only [List.foldl_cons]
    obtain ⟨h1, h2⟩ := ih (Block.insertSortedUniq x acc) (sorted_insertSortedUniq x acc h)
    refine ⟨h1, ?_⟩
    intro y
    rw [h2 y, mem_insertSortedUniq]
    simp only [List.mem_cons]
    constructor
    · rintro ((h | h) | h)
      · exact Or.inr (Or.inl h)
      · exact Or.inl h
      · exact Or.inr (Or.inr h)
    · rintro (h | h | h)
      · exact Or.inl (Or.inr h)
      · exact Or.inl (Or.inl h)
      · exact Or.inr h

/-- `Block.sortedIntersection a b` IS `sorted(set(a).intersection(b))` for all lists: strictly increasing,
and its members are exactly the common members. -/
theorem sortedIntersection_spec (a b : List Nat) :
    (Block.sortedIntersection a b).Pairwise (· < ·) ∧
    ∀ y, y ∈ Block.sortedIntersection a b ↔ y ∈ a ∧ y ∈ b := by
  unfold Block.sortedIntersection
  obtain ⟨h1, h2⟩ := foldl_insert_spec (a.filter (b.contains ·)) [] List.Pairwise.nil
  refine ⟨h1, ?_⟩
  intro y
  rw [h2 y]
  simp [List.mem_filter]

end Zrnt.Proofs.BeaconBlock
