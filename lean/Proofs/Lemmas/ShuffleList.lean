import Proofs.Lemmas.Shuffle
import Mathlib.Tactic.SplitIfs
namespace Zrnt.Proofs.Shuffle
open Zrnt Zrnt.Shuffle

/-- the inner loop with the cached `source`/`byteV` replaced by the specification's bit for position `j` -/
def segSimple {α : Type} (h : Hasher) (r : Nat) : Nat → Nat → Nat → Array α → Array α
  | 0, _, _, a => a
  | k + 1, i, j, a =>
    segSimple h r k (i + 1) (j - 1) (if bitAt h r j then a.swapIfInBounds i j else a)

/-- what the cache holds on entry to the iteration for position `j`: unless it is about to be refreshed,
`source` is the block of `j`'s 256-window and `byteV` the byte of `j`'s 8-group -/
def CacheInv (h : Hasher) (r j : Nat) (source : ByteArray) (byteV : Nat) : Prop :=
  (j &&& 0xff ≠ 0xff → source = h.blockOf r (u32 (j >>> 8))) ∧
  (j &&& 0x7 ≠ 0x7 → byteV = byteAt (h.blockOf r (u32 (j >>> 8))) ((j &&& 0xff) >>> 3))

theorem cacheInv_init (h : Hasher) (r j : Nat) :
    CacheInv h r j (h.blockOf r (u32 (j >>> 8))) (byteAt (h.blockOf r (u32 (j >>> 8))) ((j &&& 0xff) >>> 3)) :=
  ⟨fun _ => rfl, fun _ => rfl⟩

theorem segLoop_eq_segSimple {α : Type} (h : Hasher) (r : Nat) :
    ∀ (k i j : Nat) (source : ByteArray) (byteV : Nat) (a : Array α),
      k ≤ j + 1 → CacheInv h r j source byteV →
      segLoop h r k i j source byteV a = segSimple h r k i j a := by
  intro k
  induction k with
  | zero => intros; rfl
  | succ k ih =>
    intro i j source byteV a hk hinv
    rw [segLoop, segSimple]
    obtain ⟨hs, hb⟩ := hinv
    -- after the two refresh tests the cache is exact for position j
    have hsrc : (if j &&& 0xff = 0xff then h.blockOf r (u32 (j >>> 8)) else source) = h.blockOf r (u32 (j >>> 8)) := by
      split
      · rfl
      · exact hs ‹_›
    simp only [hsrc]
    have hbyte : (if j &&& 0x7 = 0x7 then byteAt (h.blockOf r (u32 (j >>> 8))) ((j &&& 0xff) >>> 3) else byteV)
        = byteAt (h.blockOf r (u32 (j >>> 8))) ((j &&& 0xff) >>> 3) := by
      split
      · rfl
      · exact hb ‹_›
    simp only [hbyte]
    have hbit : (bitV (byteAt (h.blockOf r (u32 (j >>> 8))) ((j &&& 0xff) >>> 3)) j = 1) = (bitAt h r j = true) := by
      simp [bitAt]
    simp only [hbit]
    by_cases hk0 : k = 0
    · subst hk0; simp [segLoop, segSimple]
    · apply ih
      · omega
      · have hj : 1 ≤ j := by omega
        constructor
        · intro hne
          rw [and255] at hne
          have : (j - 1) >>> 8 = j >>> 8 := by rw [shr8, shr8]; omega
          rw [this]
        · intro hne
          rw [and7] at hne
          have h1 : (j - 1) >>> 8 = j >>> 8 := by rw [shr8, shr8]; omega
          have h2 : ((j - 1) &&& 0xff) >>> 3 = (j &&& 0xff) >>> 3 := by
            rw [and255, and255, shr3, shr3]; omega
          rw [h1, h2]

/-- index map of `k` loop iterations starting at the pair `(i, j)`: position `x` of the result holds
the input's element at `segPerm … x` -/
def segPerm (h : Hasher) (r k i j x : Nat) : Nat :=
  if i ≤ x ∧ x < i + k then (if bitAt h r (i + j - x) then i + j - x else x)
  else if j < x + k ∧ x ≤ j then (if bitAt h r x then i + j - x else x)
  else x

theorem getElem?_swapIf {α : Type} (a : Array α) (c : Bool) (i j : Nat) (hi : i < a.size) (hj : j < a.size) (y : Nat) :
    (if c then a.swapIfInBounds i j else a)[y]? =
      a[if c then (if y = i then j else if y = j then i else y) else y]? := by
  cases c
  · simp
  · simp only [if_true, Array.swapIfInBounds, hi, hj, dite_true]
    rw [Array.getElem?_swap]
    by_cases h1 : y = i
    · subst h1
      by_cases h2 : j = y
      · subst h2; simp
      · simp [h2, hj]
    · by_cases h2 : y = j
      · subst h2; simp [h1, hi]
      · have h1' : ¬ i = y := fun e => h1 e.symm
        have h2' : ¬ j = y := fun e => h2 e.symm
        simp [h1, h2, h1', h2']

theorem size_swapIf {α : Type} (a : Array α) (c : Bool) (i j : Nat) :
    (if c then a.swapIfInBounds i j else a).size = a.size := by
  cases c <;> simp [Array.swapIfInBounds] <;> split <;> try split
  all_goals simp

theorem segSimple_spec {α : Type} (h : Hasher) (r : Nat) :
    ∀ (k i j : Nat) (a : Array α), i + 2 * k ≤ j + 1 → j < a.size →
      (segSimple h r k i j a).size = a.size ∧
      ∀ x, (segSimple h r k i j a)[x]? = a[segPerm h r k i j x]? := by
  intro k
  induction k with
  | zero =>
    intro i j a _ _
    refine ⟨rfl, fun x => ?_⟩
    have e : segPerm h r 0 i j x = x := by
      unfold segPerm
      have c1 : ¬ (i ≤ x ∧ x < i + 0) := by omega
      have c2 : ¬ (j < x + 0 ∧ x ≤ j) := by omega
      simp only [c1, c2, if_false]
    rw [e]; rfl
  | succ k ih =>
    intro i j a hk hj
    rw [segSimple]
    have hi : i < a.size := by omega
    have hsz := size_swapIf a (bitAt h r j) i j
    obtain ⟨ihs, ihx⟩ := ih (i + 1) (j - 1) (if bitAt h r j then a.swapIfInBounds i j else a) (by omega) (by omega)
    refine ⟨by rw [ihs, hsz], fun x => ?_⟩
    rw [ihx x, getElem?_swapIf a _ i j hi hj]
    congr 1
    have hij : i + 1 + (j - 1) = i + j := by omega
    unfold segPerm
    rw [hij]
    by_cases hx1 : x = i
    · subst hx1
      have e1 : x + j - x = j := by omega
      rw [e1]
      generalize bitAt h r j = bj
      generalize bitAt h r x = bx
      cases bj <;> cases bx <;> simp only [Bool.false_eq_true, if_true, if_false] <;> split_ifs <;> omega
    · by_cases hx2 : x = j
      · subst hx2
        have e1 : i + x - x = i := by omega
        rw [e1]
        generalize bitAt h r i = bi
        generalize bitAt h r x = bx
        cases bi <;> cases bx <;> simp only [Bool.false_eq_true, if_true, if_false] <;> split_ifs <;> omega
      · generalize bitAt h r j = bj
        generalize bitAt h r x = bx
        generalize bitAt h r (i + j - x) = bf
        cases bj <;> cases bx <;> cases bf <;> simp only [Bool.false_eq_true, if_true, if_false] <;>
          split_ifs <;> omega

theorem shr1 (j : Nat) : j >>> 1 = j / 2 := Nat.shiftRight_eq_div_pow j 1

/-- the list round with the caches eliminated -/
theorem listRound_eq {α : Type} (h : Hasher) (r : Nat) (a : Array α) (hn : 0 < a.size) :
    listRound h r a =
      segSimple h r ((h.pivotRaw r % a.size + a.size + 1) / 2 - (h.pivotRaw r % a.size + 1))
        (h.pivotRaw r % a.size + 1) (a.size - 1)
        (segSimple h r ((h.pivotRaw r % a.size + 1) / 2) 0 (h.pivotRaw r % a.size) a) := by
  unfold listRound
  simp only [shr1, Nat.sub_zero]
  have hp : h.pivotRaw r % a.size < a.size := Nat.mod_lt _ hn
  rw [segLoop_eq_segSimple h r _ _ _ _ _ _ (by omega) (cacheInv_init h r _)]
  rw [segLoop_eq_segSimple h r _ _ _ _ _ _ (by omega) (cacheInv_init h r _)]

theorem segPerm_first {h : Hasher} {r p x : Nat} (hxp : x ≤ p) :
    segPerm h r ((p + 1) / 2) 0 p x = if bitAt h r (max x (p - x)) then p - x else x := by
  unfold segPerm
  have e0 : 0 + p - x = p - x := by omega
  rw [e0]
  by_cases hm : x ≤ p - x
  · have m : max x (p - x) = p - x := by omega
    rw [m]
    generalize bitAt h r (p - x) = b1
    generalize bitAt h r x = b2
    cases b1 <;> cases b2 <;> simp only [Bool.false_eq_true, if_true, if_false] <;> split_ifs <;> omega
  · have m : max x (p - x) = x := by omega
    rw [m]
    generalize bitAt h r (p - x) = b1
    generalize bitAt h r x = b2
    cases b1 <;> cases b2 <;> simp only [Bool.false_eq_true, if_true, if_false] <;> split_ifs <;> omega

theorem segPerm_first_id {h : Hasher} {r p y : Nat} (hy : p < y) :
    segPerm h r ((p + 1) / 2) 0 p y = y := by
  unfold segPerm
  split_ifs <;> omega

theorem segPerm_second {h : Hasher} {r p n x : Nat} (hxp : p < x) (hx : x < n) :
    segPerm h r ((p + n + 1) / 2 - (p + 1)) (p + 1) (n - 1) x =
      if bitAt h r (max x (p + n - x)) then p + n - x else x := by
  unfold segPerm
  have e0 : p + 1 + (n - 1) - x = p + n - x := by omega
  rw [e0]
  by_cases hm : x ≤ p + n - x
  · have m : max x (p + n - x) = p + n - x := by omega
    rw [m]
    generalize bitAt h r (p + n - x) = b1
    generalize bitAt h r x = b2
    cases b1 <;> cases b2 <;> simp only [Bool.false_eq_true, if_true, if_false] <;> split_ifs <;> omega
  · have m : max x (p + n - x) = x := by omega
    rw [m]
    generalize bitAt h r (p + n - x) = b1
    generalize bitAt h r x = b2
    cases b1 <;> cases b2 <;> simp only [Bool.false_eq_true, if_true, if_false] <;> split_ifs <;> omega

theorem segPerm_second_id {h : Hasher} {r p n x : Nat} (hxp : x ≤ p) (hp : p < n) :
    segPerm h r ((p + n + 1) / 2 - (p + 1)) (p + 1) (n - 1) x = x := by
  unfold segPerm
  split_ifs <;> omega

theorem listRound_spec {α : Type} (h : Hasher) (r : Nat) (a : Array α) (hn : 0 < a.size) :
    (listRound h r a).size = a.size ∧
    ∀ x, x < a.size → (listRound h r a)[x]? = a[sigma h a.size r x]? := by
  rw [listRound_eq h r a hn]
  generalize hpe : h.pivotRaw r % a.size = p
  have hp : p < a.size := by rw [← hpe]; exact Nat.mod_lt _ hn
  obtain ⟨s1, g1⟩ := segSimple_spec h r ((p + 1) / 2) 0 p a (by omega) hp
  obtain ⟨s2, g2⟩ := segSimple_spec h r ((p + a.size + 1) / 2 - (p + 1)) (p + 1) (a.size - 1)
    (segSimple h r ((p + 1) / 2) 0 p a) (by omega) (by omega)
  refine ⟨by rw [s2, s1], fun x hx => ?_⟩
  rw [g2 x, g1]
  congr 1
  unfold sigma
  simp only [hpe]
  rw [flipOf_eq hp hx]
  by_cases hxp : x ≤ p
  · rw [segPerm_second_id hxp hp, segPerm_first hxp]
    simp only [hxp, if_true]
  · have hxp' : p < x := by omega
    rw [segPerm_second hxp' hx]
    simp only [hxp, if_false]
    split
    · exact segPerm_first_id (by omega)
    · exact segPerm_first_id hxp'

/-! ## the outer loop -/

def listUp {α : Type} (h : Hasher) : Nat → Array α → Array α
  | 0, a => a
  | R + 1, a => listRound h R (listUp h R a)

def listDown {α : Type} (h : Hasher) : Nat → Array α → Array α
  | 0, a => a
  | R + 1, a => listDown h R (listRound h R a)

theorem listLoopUp_eq {α : Type} (h : Hasher) (rounds : Nat) :
    ∀ fuel r (a : Array α), r < rounds → rounds ≤ r + fuel →
      listLoopUp h rounds fuel r (listUp h r a) = listUp h rounds a := by
  intro fuel
  induction fuel with
  | zero => intro r a h1 h2; omega
  | succ f ih =>
    intro r a h1 h2
    rw [listLoopUp]
    by_cases he : r + 1 = rounds
    · simp only [he, if_true]; subst he; simp only [listUp]
    · simp only [he, if_false]
      exact ih (r + 1) a (by omega) (by omega)

theorem listLoopDown_eq {α : Type} (h : Hasher) : ∀ r (a : Array α), listLoopDown h r a = listDown h (r + 1) a := by
  intro r
  induction r with
  | zero => intro a; simp only [listLoopDown, listDown]
  | succ r ih => intro a; rw [listLoopDown, ih]; simp only [listDown]

theorem listUp_spec {α : Type} (h : Hasher) (a : Array α) (hn : 0 < a.size) (hn63 : a.size ≤ 2 ^ 63) :
    ∀ R, (listUp h R a).size = a.size ∧
      ∀ x, x < a.size → (listUp h R a)[x]? = a[permDown h a.size R x]? := by
  intro R
  induction R with
  | zero => exact ⟨rfl, fun x _ => rfl⟩
  | succ R ih =>
    obtain ⟨is, ix⟩ := ih
    obtain ⟨s, g⟩ := listRound_spec h R (listUp h R a) (by omega)
    refine ⟨by simp only [listUp]; rw [s, is], fun x hx => ?_⟩
    simp only [listUp, permDown]
    rw [g x (by omega), is, permRound_eq_sigma hx hn63]
    exact ix _ (sigma_lt hx)

theorem listDown_spec {α : Type} (h : Hasher) :
    ∀ R (a : Array α), 0 < a.size → a.size ≤ 2 ^ 63 → (listDown h R a).size = a.size ∧
      ∀ x, x < a.size → (listDown h R a)[x]? = a[permUp h a.size R x]? := by
  intro R
  induction R with
  | zero => intro a _ _; exact ⟨rfl, fun x _ => rfl⟩
  | succ R ih =>
    intro a hn hn63
    obtain ⟨s, g⟩ := listRound_spec h R a hn
    obtain ⟨is, ix⟩ := ih (listRound h R a) (by omega) (by omega)
    refine ⟨by simp only [listDown]; rw [is, s], fun x hx => ?_⟩
    simp only [listDown, permUp]
    rw [ix x (by omega), s, g _ (permUp_lt hn63 R x hx), permRound_eq_sigma (permUp_lt hn63 R x hx) hn63]

/-- `ShuffleList`: position `x` of the output holds the input's element at `unpermute x` -/
theorem shuffleList_spec {α : Type} (h : Hasher) (R : Nat) (a : Array α) (hn63 : a.size ≤ 2 ^ 63) :
    (shuffleList h R a).size = a.size ∧
      ∀ x, x < a.size → (shuffleList h R a)[x]? = a[permDown h a.size R x]? := by
  unfold shuffleList innerShuffleList
  by_cases h0 : a.size ≤ 1 ∨ R = 0
  · simp only [h0, if_true]
    refine ⟨trivial, fun x hx => ?_⟩
    rcases h0 with h1 | h1
    · have := permDown_lt (h := h) hn63 R x hx
      have e : permDown h a.size R x = x := by omega
      rw [e]
    · subst h1; rfl
  · simp only [h0, if_false, if_true]
    have e := listLoopUp_eq h R R 0 a (by omega) (by omega)
    simp only [listUp] at e
    rw [e]
    exact listUp_spec h a (by omega) hn63 R

/-- `UnshuffleList`: position `x` of the output holds the input's element at `permute x` -/
theorem unshuffleList_spec {α : Type} (h : Hasher) (R : Nat) (a : Array α) (hn63 : a.size ≤ 2 ^ 63) :
    (unshuffleList h R a).size = a.size ∧
      ∀ x, x < a.size → (unshuffleList h R a)[x]? = a[permUp h a.size R x]? := by
  unfold unshuffleList innerShuffleList
  by_cases h0 : a.size ≤ 1 ∨ R = 0
  · simp only [h0, if_true]
    refine ⟨trivial, fun x hx => ?_⟩
    rcases h0 with h1 | h1
    · have := permUp_lt (h := h) hn63 R x hx
      have e : permUp h a.size R x = x := by omega
      rw [e]
    · subst h1; rfl
  · simp only [h0, if_false]
    rw [listLoopDown_eq]
    have : R - 1 + 1 = R := by omega
    rw [this]
    exact listDown_spec h R a (by omega) hn63
end Zrnt.Proofs.Shuffle
