import Proofs.Lemmas.BeaconBlockSteps
/-!
# C01/C03 — frame lemmas for the other fields of the context

The context `Ctx` (the `EpochsContext`) is built once per block and used for every operation, while the state changes
under it. `proposer_frame` (`BeaconBlockM.lean`) says that the proposer stays the specification's; here the same for the
committee count, the committees of the attestable epochs (previous and current) and the total active balance:
they depend on slot, randao history, effective balances and activity in those epochs only (`SameCommittees`), and an
accepted slashing / exit keeps all of that (`sameCommittees_initiate`, `sameCommittees_set_inactive_fields`).
-/
set_option linter.unusedSimpArgs false
set_option linter.unusedVariables false
namespace Zrnt.Proofs.BlockM
open Zrnt Zrnt.Beacon Zrnt.Beacon.Spec Zrnt.Beacon.BlockImpl Zrnt.Beacon.BlockM Zrnt.Proofs.BeaconBlock Zrnt.Proofs.Lemmas

/-- the same slot, randao history and registry size; every validator with the same effective balance and the same
activity in every epoch up to the current one -/
def SameCommittees (cfg : Config) (s s' : State) : Prop :=
  s'.slot = s.slot ∧ s'.randao_mixes = s.randao_mixes ∧ s'.validators.length = s.validators.length ∧
  ∀ (i : Nat) (v v' : Validator), s.validators[i]? = some v → s'.validators[i]? = some v' →
    v'.effective_balance = v.effective_balance ∧
    ∀ e, e ≤ get_current_epoch cfg s → is_active_validator v' e = is_active_validator v e

theorem SameCommittees.refl (cfg : Config) (s : State) : SameCommittees cfg s s :=
  ⟨rfl, rfl, rfl, fun i v v' h h' => by rw [h] at h'; cases h'; exact ⟨rfl, fun _ _ => rfl⟩⟩

theorem SameCommittees.duties {cfg : Config} {s s' : State} (h : SameCommittees cfg s s') : SameDuties cfg s s' :=
  ⟨h.1, seed_of_mixes cfg s s' _ _ h.2.1, h.2.2.1, fun i v v' h1 h2 =>
    ⟨(h.2.2.2 i v v' h1 h2).1, (h.2.2.2 i v v' h1 h2).2 _ (Nat.le_refl _)⟩⟩

theorem active_indices_frame' (cfg : Config) (s s' : State) (h : SameCommittees cfg s s') (e : Nat) (he : e ≤ get_current_epoch cfg s) :
    get_active_validator_indices s' e = get_active_validator_indices s e := by
  unfold get_active_validator_indices active_indices_of
  rw [h.2.2.1]
  apply List.filter_congr
  intro i hi
  have hi' : i < s.validators.length := by simpa using hi
  have hi'' : i < s'.validators.length := by rw [h.2.2.1]; exact hi'
  have h1 : s.validators[i]? = some s.validators[i] := List.getElem?_eq_getElem hi'
  have h2 : s'.validators[i]? = some s'.validators[i] := List.getElem?_eq_getElem hi''
  rw [h1, h2]
  exact (h.2.2.2 i _ _ h1 h2).2 e he

/-- `get_committee_count_per_slot` of an attestable epoch -/
theorem committee_count_frame (cfg : Config) (s s' : State) (h : SameCommittees cfg s s') (e : Nat) (he : e ≤ get_current_epoch cfg s) :
    get_committee_count_per_slot cfg s' e = get_committee_count_per_slot cfg s e := by
  unfold get_committee_count_per_slot
  rw [active_indices_frame' cfg s s' h e he]

/-- `get_beacon_committee` of a slot in an attestable epoch -/
theorem committee_frame (cfg : Config) (s s' : State) (h : SameCommittees cfg s s') (slot index : Nat)
    (he : compute_epoch_at_slot cfg slot ≤ get_current_epoch cfg s) :
    get_beacon_committee cfg s' slot index = get_beacon_committee cfg s slot index := by
  unfold get_beacon_committee
  simp only []
  rw [committee_count_frame cfg s s' h _ he, active_indices_frame' cfg s s' h _ he, seed_of_mixes cfg s s' _ _ h.2.1]

theorem total_balance_frame (cfg : Config) (s s' : State) (indices : List Nat)
    (heff : ∀ (i : Nat) (v v' : Validator), s.validators[i]? = some v → s'.validators[i]? = some v' → v'.effective_balance = v.effective_balance)
    (hlen : s'.validators.length = s.validators.length) :
    get_total_balance cfg s' indices = get_total_balance cfg s indices := by
  unfold get_total_balance
  have hfold : ∀ (l : List Nat) (acc : Nat),
      l.foldlM (fun acc i => do let v ← idx s'.validators i "validators"; u64 (acc + v.effective_balance) "get_total_balance") acc =
      l.foldlM (fun acc i => do let v ← idx s.validators i "validators"; u64 (acc + v.effective_balance) "get_total_balance") acc := by
    intro l
    induction l with
    | nil => intro acc; rfl
    | cons i t ih =>
      intro acc
      simp only [List.foldlM_cons]
      have hstep : (do let v ← idx s'.validators i "validators"; u64 (acc + v.effective_balance) "get_total_balance") =
          (do let v ← idx s.validators i "validators"; u64 (acc + v.effective_balance) "get_total_balance") := by
        unfold idx
        by_cases hi : i < s.validators.length
        · have hi' : i < s'.validators.length := by omega
          have h1 : s.validators[i]? = some s.validators[i] := List.getElem?_eq_getElem hi
          have h2 : s'.validators[i]? = some s'.validators[i] := List.getElem?_eq_getElem hi'
          rw [h1, h2]
          simp only [pure, Except.pure, bind, Except.bind, heff i _ _ h1 h2]
        · have h1 : s.validators[i]? = none := by simp; omega
          have h2 : s'.validators[i]? = none := by simp; omega
          rw [h1, h2]
      rw [hstep]
      congr 1
      funext acc'
      exact ih acc'
  rw [hfold]

/-- `get_total_active_balance` -/
theorem total_active_balance_frame (cfg : Config) (s s' : State) (h : SameCommittees cfg s s') :
    get_total_active_balance cfg s' = get_total_active_balance cfg s := by
  unfold get_total_active_balance
  have hcur : get_current_epoch cfg s' = get_current_epoch cfg s := by unfold get_current_epoch; rw [h.1]
  rw [hcur, active_indices_frame' cfg s s' h _ (Nat.le_refl _)]
  exact total_balance_frame cfg s s' _ (fun i v v' h1 h2 => (h.2.2.2 i v v' h1 h2).1) h.2.2.1

/-- `initiate_validator_exit` (inside an exit or a slashing) keeps the committees of the attestable epochs: the new exit
epoch lies after the current epoch -/
theorem sameCommittees_initiate (cfg : Config) (s s' : State) (i : Nat)
    (hcur : get_current_epoch cfg s < FAR_FUTURE_EPOCH) (hslot : s'.slot = s.slot) (hmix : s'.randao_mixes = s.randao_mixes)
    (hvals : s'.validators = initiate_validator_exit_pure cfg (get_current_epoch cfg s) s.validators i) :
    SameCommittees cfg s s' := by
  refine ⟨hslot, hmix, by rw [hvals, initiate_pure_length], ?_⟩
  intro j v v' h1 h2
  rw [hvals] at h2
  rcases initiate_pure_get cfg _ s.validators i j v v' h1 h2 with h | ⟨_, hfar, e, he, hw⟩
  · subst h; exact ⟨rfl, fun _ _ => rfl⟩
  · subst hw
    refine ⟨rfl, fun e' he' => ?_⟩
    unfold is_active_validator
    simp only
    unfold compute_activation_exit_epoch at he
    have h1 : e' < e := by omega
    have h2 : e' < v.exit_epoch := by rw [hfar]; omega
    simp [h1, h2]

theorem SameCommittees.trans {cfg : Config} {s s' s'' : State} (h1 : SameCommittees cfg s s') (h2 : SameCommittees cfg s' s'') :
    SameCommittees cfg s s'' := by
  have hcur : get_current_epoch cfg s' = get_current_epoch cfg s := by unfold get_current_epoch; rw [h1.1]
  refine ⟨by rw [h2.1, h1.1], by rw [h2.2.1, h1.2.1], by rw [h2.2.2.1, h1.2.2.1], ?_⟩
  intro i v v'' hv hv''
  have hlt : i < s.validators.length := (List.getElem?_eq_some_iff.mp hv).1
  have hlt' : i < s'.validators.length := by rw [h1.2.2.1]; exact hlt
  have hv' := List.getElem?_eq_getElem hlt'
  obtain ⟨a1, a2⟩ := h1.2.2.2 i v _ hv hv'
  obtain ⟨b1, b2⟩ := h2.2.2.2 i _ v'' hv' hv''
  exact ⟨by rw [b1, a1], fun e he => by rw [b2 e (by rw [hcur]; exact he), a2 e he]⟩

/-! ### the premise `OpSteps` discharged: phase0 blocks whose only operations are voluntary exits -/

/-- what an accepted `ProcessVoluntaryExit` does: the registry after `initiate_validator_exit` of an ACTIVE validator -/
theorem processVoluntaryExit_shape (cfg : Config) (ctx : Ctx) (st st' : State) (exit : SignedVoluntaryExit)
    (hact : ctx.activeCount = (st.validators.filter (is_active_validator · (st.slot / cfg.SLOTS_PER_EPOCH))).length)
    (hq : cfg.CHURN_LIMIT_QUOTIENT ≠ 0) (hreg : RegU64 st.validators) (hsmall : ExitSmall cfg st)
    (h : processVoluntaryExit cfg ctx st exit = .ok st') :
    ∃ v, st.validators[exit.validator_index]? = some v ∧ is_active_validator v (st.slot / cfg.SLOTS_PER_EPOCH) = true ∧
      st' = { st with validators := initiate_validator_exit_pure cfg (st.slot / cfg.SLOTS_PER_EPOCH) st.validators exit.validator_index } := by
  unfold processVoluntaryExit at h
  simp only [guard_bind, rget_bind] at h
  by_cases hlt : exit.validator_index < st.validators.length
  · simp only [hlt, decide_true, if_true, List.getElem?_eq_getElem hlt] at h
    by_cases ha : (decide (st.validators[exit.validator_index].activation_epoch ≤ st.slot / cfg.SLOTS_PER_EPOCH) &&
        decide (st.slot / cfg.SLOTS_PER_EPOCH < st.validators[exit.validator_index].exit_epoch)) = true
    · simp only [ha, if_true] at h
      refine ⟨_, List.getElem?_eq_getElem hlt, ha, ?_⟩
      repeat' split at h
      all_goals first | (cases h; done) | skip
      unfold initiateExit at h
      have hex : ∀ v ∈ st.validators, v.exit_epoch ≤ FAR_FUTURE_EPOCH := by
        intro v hv; have := (hreg v hv).1; unfold FAR_FUTURE_EPOCH; omega
      rw [BeaconBlock.initiateExit_eq cfg _ ctx.activeCount st.validators _ hlt hact hq hex hsmall] at h
      simp only [res_bind_ok, Res.pure_eq] at h
      cases h; rfl
    · simp only [ha, if_false] at h; cases h
  · simp [hlt] at h

/-- one `initiate_validator_exit` keeps the exit-queue budget and the `uint64` range of the registry epochs -/
theorem ive_budget_reg (cfg : Config) (cur C : Nat) (vals : List Validator) (i : Nat) (v0 : Validator)
    (hv0 : vals[i]? = some v0) (hact : v0.exit_epoch = FAR_FUTURE_EPOCH → is_active_validator v0 cur = true)
    (hb : qmax cfg cur vals + farCount vals ≤ C) (hC : C + 1 + cfg.MIN_VALIDATOR_WITHDRAWABILITY_DELAY < 2 ^ 64)
    (hreg : RegU64 vals) :
    qmax cfg cur (initiate_validator_exit_pure cfg cur vals i) + farCount (initiate_validator_exit_pure cfg cur vals i) ≤ C ∧
    RegU64 (initiate_validator_exit_pure cfg cur vals i) := by
  have hbound : ∀ l : List Validator, ∃ Bm, ∀ v ∈ l, v.effective_balance ≤ Bm := by
    intro l
    induction l with
    | nil => exact ⟨0, fun v hv => by cases hv⟩
    | cons a t ih =>
      obtain ⟨B, hB⟩ := ih
      refine ⟨max a.effective_balance B, fun v hv => ?_⟩
      rcases List.mem_cons.mp hv with h | h
      · subst h; exact Nat.le_max_left _ _
      · exact Nat.le_trans (hB v h) (Nat.le_max_right _ _)
  obtain ⟨Bm, hBm⟩ := hbound vals
  have h := ive_inv cfg cur C Bm vals i v0 hv0 hact hb hC hreg hBm
  exact ⟨h.1, h.2.1⟩

/-- what header, randao, eth1 vote and voluntary exits need and keep (phase0) -/
structure ExitInv (cfg : Config) (p C : Nat) (ctx : Ctx) (st : State) : Prop where
  head : HeadInv cfg p ctx st
  act : ctx.activeCount = (st.validators.filter (is_active_validator · (st.slot / cfg.SLOTS_PER_EPOCH))).length
  budget : qmax cfg (st.slot / cfg.SLOTS_PER_EPOCH) st.validators + farCount st.validators ≤ C
  reg : RegU64 st.validators
  shard : st.slot / cfg.SLOTS_PER_EPOCH + cfg.SHARD_COMMITTEE_PERIOD < 2 ^ 64

theorem ExitInv.exitSmall {cfg : Config} {p C : Nat} {ctx : Ctx} {st : State} (h : ExitInv cfg p C ctx st)
    (hC : C + 1 + cfg.MIN_VALIDATOR_WITHDRAWABILITY_DELAY < 2 ^ 64) : ExitSmall cfg st := by
  unfold ExitSmall
  have := h.budget
  rw [qmax_eq_maxOf] at this
  unfold compute_activation_exit_epoch at this
  omega

/-- a phase0 block whose only operations are voluntary exits -/
structure OnlyExits (block : SignedBlock) : Prop where
  ps : block.proposer_slashings = []
  as : block.attester_slashings = []
  att : block.attestations = []
  dep : block.deposits = []
  bls : block.bls_to_execution_changes = []
  payload : block.execution_payload = none
  sync : block.sync_aggregate = none

set_option maxHeartbeats 1000000 in
/-- `OpSteps` for `ExitInv`, for phase0 blocks that carry voluntary exits only: every field is discharged -/
theorem opSteps_exits (cfg : Config) (block : SignedBlock) (p C : Nat) (hno : OnlyExits block)
    (hpos : 0 < cfg.EPOCHS_PER_HISTORICAL_VECTOR)
    (hlook : (cfg.MIN_SEED_LOOKAHEAD + 1) % cfg.EPOCHS_PER_HISTORICAL_VECTOR ≠ 0)
    (hsmall : cfg.EPOCHS_PER_ETH1_VOTING_PERIOD * cfg.SLOTS_PER_EPOCH * 2 + 2 < 2 ^ 64)
    (hq : cfg.CHURN_LIMIT_QUOTIENT ≠ 0) (hC : C + 1 + cfg.MIN_VALIDATOR_WITHDRAWABILITY_DELAY < 2 ^ 64) :
    OpSteps cfg block .phase0 (fun _ => ExitInv cfg p C) := by
  -- an operation that keeps registry and slot keeps the exit facts
  have hkeep : ∀ ctx st st', ExitInv cfg p C ctx st → HeadInv cfg p ctx st' → st'.validators = st.validators → st'.slot = st.slot →
      ExitInv cfg p C ctx st' := by
    intro ctx st st' hi hh hv hs
    exact ⟨hh, by rw [hv, hs]; exact hi.act, by rw [hv, hs]; exact hi.budget, by rw [hv]; exact hi.reg, by rw [hs]; exact hi.shard⟩
  refine
    { mono := fun _ _ _ h => h
      fork := fun _ ctx st hi => hi.head.fork
      header := ?_, payload := ?_, withdrawals := ?_, randao := ?_, eth1 := ?_, proposerSlashing := ?_, attesterSlashing := ?_,
      attestation := ?_, deposit := ?_, exit := ?_, blsChange := ?_, sync := ?_ }
  · intro _ ctx st hi
    refine ⟨sim_header cfg ctx st block p hi.head.prop hi.head.ctxp, fun st' h => ?_⟩
    have h' := h
    rw [hi.head.ctxp] at h'
    simp only [ofOpt, res_bind_ok] at h'
    obtain ⟨hv, hs, hm, hf⟩ := processHeader_frame st st' block p h'
    refine hkeep ctx st st' hi ?_ hv hs
    have hd : SameDuties cfg st st' := sameDuties_of_frame cfg st st' hv hs (seed_of_mixes cfg st st' _ _ hm)
    exact ⟨by rw [hf]; exact hi.head.fork, hi.head.ctxp, by rw [proposer_frame cfg st st' hd]; exact hi.head.prop,
      by rw [hv]; exact hi.head.plt, by rw [hm]; exact hi.head.mixes⟩
  · intro ctx payload hpl; rw [hno.payload] at hpl; cases hpl
  · intro _ ctx payload hpl; rw [hno.payload] at hpl; cases hpl
  · intro ctx _ st _ _ hi
    refine ⟨sim_randao cfg ctx st block p hi.head.prop hi.head.ctxp hi.head.plt hi.head.mixes hpos, fun st' h => ⟨?_, fun hf => by cases hf⟩⟩
    obtain ⟨hv, hs, hf, x, hm⟩ := processRandao_frame cfg ctx st st' block h
    refine hkeep ctx st st' hi ?_ hv hs
    have hseed : get_seed cfg st' (get_current_epoch cfg st) DOMAIN_BEACON_PROPOSER = get_seed cfg st (get_current_epoch cfg st) DOMAIN_BEACON_PROPOSER := by
      apply seed_set_frame cfg st st' x _ hlook
      rw [hm, hi.head.mixes]; rfl
    have hd : SameDuties cfg st st' := sameDuties_of_frame cfg st st' hv hs hseed
    exact ⟨by rw [hf]; exact hi.head.fork, hi.head.ctxp, by rw [proposer_frame cfg st st' hd]; exact hi.head.prop,
      by rw [hv]; exact hi.head.plt, by rw [hm, List.length_set]; exact hi.head.mixes⟩
  · intro ctx _ st _ _ hi
    refine ⟨sim_eth1 cfg st block hsmall, fun st' h => ⟨?_, fun hf => by cases hf⟩⟩
    obtain ⟨hv, hs, hm, hf⟩ := processEth1_frame cfg st st' block.eth1_data h
    refine hkeep ctx st st' hi ?_ hv hs
    have hd : SameDuties cfg st st' := sameDuties_of_frame cfg st st' hv hs (seed_of_mixes cfg st st' _ _ hm)
    exact ⟨by rw [hf]; exact hi.head.fork, hi.head.ctxp, by rw [proposer_frame cfg st st' hd]; exact hi.head.prop,
      by rw [hv]; exact hi.head.plt, by rw [hm]; exact hi.head.mixes⟩
  · intro ctx _ st x hx; rw [hno.ps] at hx; cases hx
  · intro ctx _ st x hx; rw [hno.as] at hx; cases hx
  · intro ctx _ st x hx; rw [hno.att] at hx; cases hx
  · intro _ ctx st d hd; rw [hno.dep] at hd; cases hd
  · -- voluntary exits
    intro ctx _ st exit _ hi
    have hes := hi.exitSmall hC
    refine ⟨sim_exit cfg ctx st exit hi.act hq hi.reg hes hi.shard, fun st' h => ⟨?_, fun hf => by cases hf⟩⟩
    obtain ⟨v, hv, hactive, hst'⟩ := processVoluntaryExit_shape cfg ctx st st' exit hi.act hq hi.reg hes h
    have hcurfar : get_current_epoch cfg st < FAR_FUTURE_EPOCH := by
      have := cae_le_qmax cfg (st.slot / cfg.SLOTS_PER_EPOCH) st.validators
      have hb := hi.budget
      unfold compute_activation_exit_epoch at this
      unfold get_current_epoch compute_epoch_at_slot FAR_FUTURE_EPOCH
      omega
    have hsc : SameCommittees cfg st st' := by
      apply sameCommittees_initiate cfg st st' exit.validator_index hcurfar
      · rw [hst']
      · rw [hst']
      · rw [hst']; rfl
    have hd := hsc.duties
    obtain ⟨hbud, hreg⟩ := ive_budget_reg cfg (st.slot / cfg.SLOTS_PER_EPOCH) C st.validators exit.validator_index v hv
      (fun _ => hactive) hi.budget hC hi.reg
    have hslot : st'.slot = st.slot := by rw [hst']
    have hvals : st'.validators = initiate_validator_exit_pure cfg (st.slot / cfg.SLOTS_PER_EPOCH) st.validators exit.validator_index := by rw [hst']
    refine ⟨⟨by rw [hst']; exact hi.head.fork, hi.head.ctxp, by rw [proposer_frame cfg st st' hd]; exact hi.head.prop,
      by rw [hd.2.2.1]; exact hi.head.plt, by rw [hst']; exact hi.head.mixes⟩, ?_, ?_, ?_, ?_⟩
    · rw [hi.act, hslot]
      symm
      apply filter_length_congr _ _ _ hd.2.2.1.symm
      intro j w w' h1 h2
      have := (hd.2.2.2 j w w' h1 h2).2
      unfold get_current_epoch compute_epoch_at_slot at this
      exact this
    · rw [hslot, hvals]; exact hbud
    · rw [hvals]; exact hreg
    · rw [hslot]; exact hi.shard
  · intro ctx _ st x hx; rw [hno.bls] at hx; cases hx
  · intro ctx agg hsa; rw [hno.sync] at hsa; cases hsa


/-- `M_block_refines_S` and `M_sound` WITHOUT a premise, for phase0 blocks whose only operations are voluntary exits -/
theorem processBlock_exits (cfg : Config) (ctx : Ctx) (st : State) (block : SignedBlock) (p C : Nat) (hno : OnlyExits block)
    (hi : ExitInv cfg p C ctx st)
    (hpos : 0 < cfg.EPOCHS_PER_HISTORICAL_VECTOR)
    (hlook : (cfg.MIN_SEED_LOOKAHEAD + 1) % cfg.EPOCHS_PER_HISTORICAL_VECTOR ≠ 0)
    (hsmall : cfg.EPOCHS_PER_ETH1_VOTING_PERIOD * cfg.SLOTS_PER_EPOCH * 2 + 2 < 2 ^ 64)
    (hq : cfg.CHURN_LIMIT_QUOTIENT ≠ 0) (hC : C + 1 + cfg.MIN_VALIDATOR_WITHDRAWABILITY_DELAY < 2 ^ 64)
    (htyped : Block.check_types cfg block = .ok ()) :
    Sim (Block.process_block cfg st block) (processBlock cfg ctx st block) :=
  processBlock_sim (opSteps_exits cfg block p C hno hpos hlook hsmall hq hC) 0 ctx st hi htyped

end Zrnt.Proofs.BlockM
