import Proofs.Lemmas.BeaconBlockSteps
/-!
# C01/C03 — frame lemmas for the other fields of the context

The context `Ctx` (the `EpochsContext`) is built once per block and used for every operation, while the state changes
under it. `proposer_frame` (`BeaconBlockM.lean`) says that the proposer stays the specification's; here the same for the
committee count, the committees of the attestable epochs (previous and current) and the total active balance:
they depend on slot, randao history, effective balances and activity in those epochs only (`SameCommittees`), and an
accepted slashing / exit keeps all of that (`sameCommittees_initiate`, `sameCommittees_set_inactive_fields`).
-/
set_option linter.unusedSimpArgs false
set_option linter.unusedVariables false
namespace Zrnt.Proofs.BlockM
open Zrnt Zrnt.Beacon Zrnt.Beacon.Spec Zrnt.Beacon.BlockImpl Zrnt.Beacon.BlockM Zrnt.Proofs.BeaconBlock Zrnt.Proofs.Lemmas

/-- the same slot, randao history and registry size; every validator with the same effective balance and the same
activity in every epoch up to the current one -/
def SameCommittees (cfg : Config) (s s' : State) : Prop :=
  s'.slot = s.slot ∧ s'.randao_mixes = s.randao_mixes ∧ s'.validators.length = s.validators.length ∧
  ∀ (i : Nat) (v v' : Validator), s.validators[i]? = some v → s'.validators[i]? = some v' →
    v'.effective_balance = v.effective_balance ∧
    ∀ e, e ≤ get_current_epoch cfg s → is_active_validator v' e = is_active_validator v e

theorem SameCommittees.refl (cfg : Config) (s : State) : SameCommittees cfg s s :=
  ⟨rfl, rfl, rfl, fun i v v' h h' => by rw [h] at h'; cases h'; exact ⟨rfl, fun _ _ => rfl⟩⟩

theorem SameCommittees.duties {cfg : Config} {s s' : State} (h : SameCommittees cfg s s') : SameDuties cfg s s' :=
  ⟨h.1, seed_of_mixes cfg s s' _ _ h.2.1, h.2.2.1, fun i v v' h1 h2 =>
    ⟨(h.2.2.2 i v v' h1 h2).1, (h.2.2.2 i v v' h1 h2).2 _ (Nat.le_refl _)⟩⟩

theorem active_indices_frame' (cfg : Config) (s s' : State) (h : SameCommittees cfg s s') (e : Nat) (he : e ≤ get_current_epoch cfg s) :
    get_active_validator_indices s' e = get_active_validator_indices s e := by
  unfold get_active_validator_indices active_indices_of
  rw [h.2.2.1]
  apply List.filter_congr
  intro i hi
  have hi' : i < s.validators.length := by simpa using hi
  have hi'' : i < s'.validators.length := by rw [h.2.2.1]; exact hi'
  have h1 : s.validators[i]? = some s.validators[i] := List.getElem?_eq_getElem hi'
  have h2 : s'.validators[i]? = some s'.validators[i] := List.getElem?_eq_getElem hi''
  rw [h1, h2]
  exact (h.2.2.2 i _ _ h1 h2).2 e he

/-- `get_committee_count_per_slot` of an attestable epoch -/
theorem committee_count_frame (cfg : Config) (s s' : State) (h : SameCommittees cfg s s') (e : Nat) (he : e ≤ get_current_epoch cfg s) :
    get_committee_count_per_slot cfg s' e = get_committee_count_per_slot cfg s e := by
  unfold get_committee_count_per_slot
  rw [active_indices_frame' cfg s s' h e he]

/-- `get_beacon_committee` of a slot in an attestable epoch -/
theorem committee_frame (cfg : Config) (s s' : State) (h : SameCommittees cfg s s') (slot index : Nat)
    (he : compute_epoch_at_slot cfg slot ≤ get_current_epoch cfg s) :
    get_beacon_committee cfg s' slot index = get_beacon_committee cfg s slot index := by
  unfold get_beacon_committee
  simp only []
  rw [committee_count_frame cfg s s' h _ he, active_indices_frame' cfg s s' h _ he, seed_of_mixes cfg s s' _ _ h.2.1]

theorem total_balance_frame (cfg : Config) (s s' : State) (indices : List Nat)
    (heff : ∀ (i : Nat) (v v' : Validator), s.validators[i]? = some v → s'.validators[i]? = some v' → v'.effective_balance = v.effective_balance)
    (hlen : s'.validators.length = s.validators.length) :
    get_total_balance cfg s' indices = get_total_balance cfg s indices := by
  unfold get_total_balance
  have hfold : ∀ (l : List Nat) (acc : Nat),
      l.foldlM (fun acc i => do let v ← idx s'.validators i "validators"; u64 (acc + v.effective_balance) "get_total_balance") acc =
      l.foldlM (fun acc i => do let v ← idx s.validators i "validators"; u64 (acc + v.effective_balance) "get_total_balance") acc := by
    intro l
    induction l with
    | nil => intro acc; rfl
    | cons i t ih =>
      intro acc
      simp only [List.foldlM_cons]
      have hstep : (do let v ← idx s'.validators i "validators"; u64 (acc + v.effective_balance) "get_total_balance") =
          (do let v ← idx s.validators i "validators"; u64 (acc + v.effective_balance) "get_total_balance") := by
        unfold idx
        by_cases hi : i < s.validators.length
        · have hi' : i < s'.validators.length := by omega
          have h1 : s.validators[i]? = some s.validators[i] := List.getElem?_eq_getElem hi
          have h2 : s'.validators[i]? = some s'.validators[i] := List.getElem?_eq_getElem hi'
          rw [h1, h2]
          simp only [pure, Except.pure, bind, Except.bind, heff i _ _ h1 h2]
        · have h1 : s.validators[i]? = none := by simp; omega
          have h2 : s'.validators[i]? = none := by simp; omega
          rw [h1, h2]
      rw [hstep]
      congr 1
      funext acc'
      exact ih acc'
  rw [hfold]

/-- `get_total_active_balance` -/
theorem total_active_balance_frame (cfg : Config) (s s' : State) (h : SameCommittees cfg s s') :
    get_total_active_balance cfg s' = get_total_active_balance cfg s := by
  unfold get_total_active_balance
  have hcur : get_current_epoch cfg s' = get_current_epoch cfg s := by unfold get_current_epoch; rw [h.1]
  rw [hcur, active_indices_frame' cfg s s' h _ (Nat.le_refl _)]
  exact total_balance_frame cfg s s' _ (fun i v v' h1 h2 => (h.2.2.2 i v v' h1 h2).1) h.2.2.1

/-- `initiate_validator_exit` (inside an exit or a slashing) keeps the committees of the attestable epochs: the new exit
epoch lies after the current epoch -/
theorem sameCommittees_initiate (cfg : Config) (s s' : State) (i : Nat)
    (hcur : get_current_epoch cfg s < FAR_FUTURE_EPOCH) (hslot : s'.slot = s.slot) (hmix : s'.randao_mixes = s.randao_mixes)
    (hvals : s'.validators = initiate_validator_exit_pure cfg (get_current_epoch cfg s) s.validators i) :
    SameCommittees cfg s s' := by
  refine ⟨hslot, hmix, by rw [hvals, initiate_pure_length], ?_⟩
  intro j v v' h1 h2
  rw [hvals] at h2
  rcases initiate_pure_get cfg _ s.validators i j v v' h1 h2 with h | ⟨_, hfar, e, he, hw⟩
  · subst h; exact ⟨rfl, fun _ _ => rfl⟩
  · subst hw
    refine ⟨rfl, fun e' he' => ?_⟩
    unfold is_active_validator
    simp only
    unfold compute_activation_exit_epoch at he
    have h1 : e' < e := by omega
    have h2 : e' < v.exit_epoch := by rw [hfar]; omega
    simp [h1, h2]

theorem SameCommittees.trans {cfg : Config} {s s' s'' : State} (h1 : SameCommittees cfg s s') (h2 : SameCommittees cfg s' s'') :
    SameCommittees cfg s s'' := by
  have hcur : get_current_epoch cfg s' = get_current_epoch cfg s := by unfold get_current_epoch; rw [h1.1]
  refine ⟨by rw [h2.1, h1.1], by rw [h2.2.1, h1.2.1], by rw [h2.2.2.1, h1.2.2.1], ?_⟩
  intro i v v'' hv hv''
  have hlt : i < s.validators.length := (List.getElem?_eq_some_iff.mp hv).1
  have hlt' : i < s'.validators.length := by rw [h1.2.2.1]; exact hlt
  have hv' := List.getElem?_eq_getElem hlt'
  obtain ⟨a1, a2⟩ := h1.2.2.2 i v _ hv hv'
  obtain ⟨b1, b2⟩ := h2.2.2.2 i _ v'' hv' hv''
  exact ⟨by rw [b1, a1], fun e he => by rw [b2 e (by rw [hcur]; exact he), a2 e he]⟩

end Zrnt.Proofs.BlockM
