import Proofs.Lemmas.ForkChoiceW0Defs
import Proofs.Lemmas.ForkChoiceInsert
/-!
# Fork choice: node insertion (`NewProtoArray`, `ProcessSlot`, `ProcessBlock`) preserves the weak invariant `WF0`

Port of ForkChoiceInsert.lean to `WF0` (the lemmas about association lists, `Grow`, `push_grow`, `gapFill`,
`processSlot_eq` are reused from there).
-/
namespace Zrnt.ForkChoice

/-- a key that appears during an insertion belongs to a new node, so its root satisfies `P` -/
theorem Grow.idx_new0 {P : Root → Prop} {a b : PA} (g : Grow P a b) (ha : WF0 a) (hb : WF0 b)
    (r : NodeRef) (hr : aGet a.indices r = none) (hP : ¬ P r.root) : aGet b.indices r = none := by
  cases hbr : aGet b.indices r with
  | none => rfl
  | some i =>
    exfalso
    obtain ⟨n, hn, hnr⟩ := hb.idx_sound r i hbr
    by_cases hi : i < a.nodes.length
    · obtain ⟨m, hm⟩ : ∃ m, a.nodes[i]? = some m := ⟨a.nodes[i], List.getElem?_eq_getElem hi⟩
      have := g.nodes_old i m hm
      rw [hn] at this
      cases this
      have := ha.idx_complete i n hm
      rw [hnr, hr] at this
      cases this
    · have hi' : a.nodes.length ≤ i := Nat.le_of_not_lt hi
      have := (g.nodes_new i n hi' hn).2.2.2
      rw [hnr] at this
      exact hP this

namespace W0

theorem wf_push (pr : PA) (h : WF0 pr) (ref : NodeRef) (tp fp : Option Idx) (pRoot : Root) (jE fE : Nat)
    (hnew : aGet pr.indices ref = none)
    (htp : ∀ p, tp = some p → p < pr.nodes.length) (hfp : ∀ p, fp = some p → p < pr.nodes.length) :
    WF0 (pr.push ref tp fp pRoot jE fE) where
  off := h.off
  len := by
    simp only [PA.push, List.length_append, List.length_singleton]
    rw [aSet_length_new _ _ _ hnew, h.len]
  idx_sound := fun r i hr => by
    by_cases e : ref = r
    · subst e
      rw [push_indices_self, h.off, Nat.zero_add] at hr
      cases hr
      exact ⟨_, (getElem?_snoc_some _ _ _ _).2 (Or.inr ⟨rfl, rfl⟩), rfl⟩
    · rw [push_indices_ne _ _ _ _ _ _ _ _ e] at hr
      obtain ⟨n, hn, hnr⟩ := h.idx_sound r i hr
      exact ⟨n, getElem?_snoc_old _ _ _ _ hn, hnr⟩
  idx_complete := fun i n hn => by
    simp only [PA.push] at hn
    rcases (getElem?_snoc_some _ _ _ _).1 hn with hn | ⟨hi, hn⟩
    · have := h.idx_complete i n hn
      rw [push_indices_ne]; exact this
      intro e; rw [← e, hnew] at this; cases this
    · subst hn; subst hi
      show aGet (pr.push ref tp fp pRoot jE fE).indices ref = _
      rw [push_indices_self, h.off, Nat.zero_add]
  tpar_lt := fun i n p hn hp => by
    simp only [PA.push] at hn
    rcases (getElem?_snoc_some _ _ _ _).1 hn with hn | ⟨hi, hn⟩
    · exact h.tpar_lt i n p hn hp
    · subst hn; subst hi; exact htp p hp
  fpar_lt := fun i n p hn hp => by
    simp only [PA.push] at hn
    rcases (getElem?_snoc_some _ _ _ _).1 hn with hn | ⟨hi, hn⟩
    · exact h.fpar_lt i n p hn hp
    · subst hn; subst hi; exact hfp p hp
  bc_lt := fun i n c hn hc => by
    simp only [PA.push] at hn ⊢
    rcases (getElem?_snoc_some _ _ _ _).1 hn with hn | ⟨hi, hn⟩
    · have := h.bc_lt i n c hn hc
      simp; omega
    · subst hn; cases hc
  bd_lt := fun i n d hn hd => by
    simp only [PA.push] at hn ⊢
    rcases (getElem?_snoc_some _ _ _ _).1 hn with hn | ⟨hi, hn⟩
    · have := h.bd_lt i n d hn hd
      simp; omega
    · subst hn; cases hd
  bs_node := fun root s hs => by
    have := h.bs_node root s hs
    obtain ⟨i, hi⟩ := Option.isSome_iff_exists.1 this
    rw [(push_grow pr ref tp fp pRoot jE fE hnew).idx_old _ i hi]; rfl

/-- `WF0` does not look at `updated` -/
theorem wf_setUpdated (pr : PA) (h : WF0 pr) (b : Bool) : WF0 { pr with updated := b } :=
  h.congr rfl rfl rfl rfl

/-! ## `fillGaps`, `ProcessSlot` -/

theorem fillGaps_spec (parent : Root) (jE fE : Nat) (n i : Nat) (pr : PA) (pi : Option Idx) (h : WF0 pr)
    (hpi : ∀ p, pi = some p → p < pr.nodes.length) :
    WF0 (PA.fillGaps parent jE fE n i pr pi).1 ∧
    Grow (· = parent) pr (PA.fillGaps parent jE fE n i pr pi).1 ∧
    (∀ p, (PA.fillGaps parent jE fE n i pr pi).2 = some p →
      p < (PA.fillGaps parent jE fE n i pr pi).1.nodes.length) ∧
    (PA.fillGaps parent jE fE n i pr pi).1.blockSlots = pr.blockSlots ∧
    (∀ ref : NodeRef, aGet pr.indices ref = none → (ref.root ≠ parent ∨ ref.slot < i ∨ i + n ≤ ref.slot) →
      aGet (PA.fillGaps parent jE fE n i pr pi).1.indices ref = none) := by
  induction n generalizing i pr pi with
  | zero => exact ⟨h, Grow.refl _ _, hpi, rfl, fun _ hr _ => hr⟩
  | succ n ih =>
    unfold PA.fillGaps
    cases hg : aGet pr.indices ⟨i, parent⟩ with
    | some ni =>
      simp only []
      obtain ⟨a, b, c, d, e⟩ := ih (i + 1) pr (some ni) h (fun p hp => by cases hp; exact h.idx_lt hg)
      refine ⟨a, b, c, d, fun ref hr hc => e ref hr ?_⟩
      rcases hc with hc | hc | hc
      · exact Or.inl hc
      · exact Or.inr (Or.inl (by omega))
      · exact Or.inr (Or.inr (by omega))
    | none =>
      simp only []
      have hw := wf_push pr h ⟨i, parent⟩ pi pi parent jE fE hg hpi hpi
      obtain ⟨a, b, c, d, e⟩ := ih (i + 1) (pr.push ⟨i, parent⟩ pi pi parent jE fE)
        (some (pr.offset + pr.nodes.length)) hw
        (fun p hp => by cases hp; rw [h.off]; simp [PA.push])
      refine ⟨a, (push_grow pr ⟨i, parent⟩ pi pi parent jE fE hg).trans b, c, d, fun ref hr hc => ?_⟩
      have hne : (⟨i, parent⟩ : NodeRef) ≠ ref := by
        intro e; subst e
        rcases hc with hc | hc | hc
        · exact hc rfl
        · exact Nat.lt_irrefl _ hc
        · have hc' : i + (n + 1) ≤ i := hc
          omega
      apply e ref
      · rw [push_indices_ne _ _ _ _ _ _ _ _ hne]; exact hr
      · rcases hc with hc | hc | hc
        · exact Or.inl hc
        · exact Or.inr (Or.inl (by omega))
        · exact Or.inr (Or.inr (by omega))

theorem gapFill_spec (pr : PA) (h : WF0 pr) (parent : Root) (slot jE fE : Nat)
    (hs : aGet pr.indices ⟨slot, parent⟩ = none) :
    WF0 (gapFill pr parent slot jE fE).1 ∧
    Grow (· = parent) pr (gapFill pr parent slot jE fE).1 ∧
    (∀ p, (gapFill pr parent slot jE fE).2 = some p → p < (gapFill pr parent slot jE fE).1.nodes.length) ∧
    (gapFill pr parent slot jE fE).1.blockSlots = pr.blockSlots ∧
    aGet (gapFill pr parent slot jE fE).1.indices ⟨slot, parent⟩ = none := by
  unfold gapFill
  cases hb : aGet pr.blockSlots parent with
  | none => exact ⟨h, Grow.refl _ _, (fun p hp => by cases hp), rfl, hs⟩
  | some ps =>
    simp only []
    obtain ⟨i, hi⟩ := Option.isSome_iff_exists.1 (h.bs_node parent ps hb)
    obtain ⟨a, b, c, d, e⟩ := fillGaps_spec parent jE fE (slot - (ps + 1)) (ps + 1) pr
      (some ((aGet pr.indices ⟨ps, parent⟩).getD 0)) h
      (fun p hp => by rw [hi] at hp; cases hp; exact h.idx_lt hi)
    refine ⟨a, b, c, d, e _ hs (Or.inr ?_)⟩
    show slot < ps + 1 ∨ ps + 1 + (slot - (ps + 1)) ≤ slot
    omega

theorem processSlot_spec (pr : PA) (h : WF0 pr) (parent : Root) (slot jE fE : Nat) :
    WF0 (pr.processSlot parent slot jE fE) ∧ Grow (· = parent) pr (pr.processSlot parent slot jE fE) ∧
    (pr.processSlot parent slot jE fE).blockSlots = pr.blockSlots ∧
    (aGet (pr.processSlot parent slot jE fE).indices ⟨slot, parent⟩).isSome := by
  rw [processSlot_eq]
  split
  · next hs => exact ⟨h, Grow.refl _ _, rfl, hs⟩
  · next hs =>
    have hs' : aGet pr.indices ⟨slot, parent⟩ = none := by simpa using hs
    obtain ⟨a, b, c, d, e⟩ := gapFill_spec pr h parent slot jE fE hs'
    refine ⟨wf_setUpdated _ (wf_push _ a ⟨slot, parent⟩ _ _ parent jE fE e c c) _,
      grow_setUpdated _ _ (b.trans (push_grow _ ⟨slot, parent⟩ _ _ parent jE fE e)) _, d, ?_⟩
    exact Option.isSome_iff_exists.2 ⟨_, push_indices_self (gapFill pr parent slot jE fE).1 ⟨slot, parent⟩
      (gapFill pr parent slot jE fE).2 (gapFill pr parent slot jE fE).2 parent jE fE⟩

/-! ## `ProcessBlock` -/

theorem wf_setBlockSlot (pr : PA) (h : WF0 pr) (root : Root) (slot : Nat) (b : Bool)
    (hi : (aGet pr.indices ⟨slot, root⟩).isSome) :
    WF0 { pr with blockSlots := aSet pr.blockSlots root slot, updated := b } :=
  ⟨h.off, h.len, h.idx_sound, h.idx_complete, h.tpar_lt, h.fpar_lt, h.bc_lt, h.bd_lt,
    fun r s hs => by
      by_cases e : root = r
      · subst e
        simp only [aGet_aSet_self] at hs
        cases hs; exact hi
      · simp only [aGet_aSet_ne _ _ _ _ e] at hs
        exact h.bs_node r s hs⟩

theorem processBlock_spec (pr : PA) (h : WF0 pr) (parent root : Root) (slot jE fE : Nat) :
    ∃ pr' b, pr.processBlock parent root slot jE fE = some (pr', b) ∧ WF0 pr' ∧
      Grow (fun r => r = parent ∨ r = root) pr pr' := by
  unfold PA.processBlock
  split
  · exact ⟨pr, true, rfl, h, Grow.refl _ _⟩
  next h1 =>
  split
  · exact ⟨pr, true, rfl, h, Grow.refl _ _⟩
  next h2 =>
  split
  · exact ⟨pr, false, rfl, h, Grow.refl _ _⟩
  next pbs hp =>
  split
  · exact ⟨pr, false, rfl, h, Grow.refl _ _⟩
  next h3 =>
  obtain ⟨w1, g1, bs1, s1⟩ := processSlot_spec pr h parent slot jE fE
  have g1' : Grow (fun r => r = parent ∨ r = root) pr (pr.processSlot parent slot jE fE) :=
    g1.mono (fun _ hr => Or.inl hr)
  simp only []
  split
  · exact ⟨_, false, rfl, w1, g1'⟩
  next fpi hf =>
  split
  · next hn => rw [hn] at s1; cases s1
  next tpi ht =>
  have hne : root ≠ parent := by
    intro e; subst e; rw [hp] at h2; exact h2 rfl
  have h1' : aGet pr.indices ⟨slot, root⟩ = none := by simpa using h1
  have h2' : aGet pr.blockSlots root = none := by simpa using h2
  have hnew : aGet (pr.processSlot parent slot jE fE).indices ⟨slot, root⟩ = none :=
    g1.idx_new0 h w1 ⟨slot, root⟩ h1' hne
  have w2 := wf_push _ w1 ⟨slot, root⟩ (some tpi) (some fpi) parent jE fE hnew
    (fun p hp => by cases hp; exact w1.idx_lt ht) (fun p hp => by cases hp; exact w1.idx_lt hf)
  have g2 : Grow (fun r => r = parent ∨ r = root) pr
      ((pr.processSlot parent slot jE fE).push ⟨slot, root⟩ (some tpi) (some fpi) parent jE fE) :=
    g1'.trans ((push_grow _ ⟨slot, root⟩ (some tpi) (some fpi) parent jE fE hnew).mono
      (fun _ hr => Or.inr hr))
  refine ⟨_, true, rfl, wf_setBlockSlot _ w2 root slot false ?_, grow_setBlockSlot _ _ g2 root slot false ?_⟩
  · exact Option.isSome_iff_exists.2 ⟨_, push_indices_self _ _ _ _ _ _ _⟩
  · show aGet (pr.processSlot parent slot jE fE).blockSlots root = none
    rw [bs1]; exact h2'

/-! ## the theorems -/

theorem wf_new (parent root : Root) (slot jE fE : Nat) (sink : SinkKind) :
    WF0 (PA.new parent root slot jE fE sink) :=
  (Zrnt.ForkChoice.wf_new parent root slot jE fE sink).toWF0

theorem wf_processSlot (pr : PA) (h : WF0 pr) (parent : Root) (slot jE fE : Nat) :
    WF0 (pr.processSlot parent slot jE fE) := (processSlot_spec pr h parent slot jE fE).1

/-- ProcessBlock never hits its panic and keeps the weak invariant -/
theorem wf_processBlock (pr : PA) (h : WF0 pr) (parent root : Root) (slot jE fE : Nat) :
    ∃ pr' b, pr.processBlock parent root slot jE fE = some (pr', b) ∧ WF0 pr' := by
  obtain ⟨pr', b, e, w, _⟩ := processBlock_spec pr h parent root slot jE fE
  exact ⟨pr', b, e, w⟩

end W0
end Zrnt.ForkChoice
