import Proofs.Lemmas.BeaconBlockFrames
/-!
# C01/C03 — the premise `OpSteps` discharged for phase0 blocks, operation kind by operation kind

`P0Inv cfg S0 p Bm C k ctx st`: the invariant of block processing (any fork; `P0Const` no longer fixes the fork) with `k` units of budget, relative to the block's
pre-state `S0` (`SlashInv` with `k · MAX_VALIDATORS_PER_COMMITTEE` slashings of headroom, the context's proposer, the
randao vector length, the registry below the `ZigZagJoin` marker). Every operation kind proved here takes
`P0Inv (k+1)` to `P0Inv k` and simulates the specification under `P0Inv (k+1)`.
-/
set_option linter.unusedSimpArgs false
set_option linter.unusedVariables false
namespace Zrnt.Proofs.BlockM
open Zrnt Zrnt.Beacon Zrnt.Beacon.Spec Zrnt.Beacon.BlockImpl Zrnt.Beacon.BlockM Zrnt.Proofs.BeaconBlock Zrnt.Proofs.Lemmas

/-- an accepted `slash_validator` writes the registry, the slashings vector and the balances, nothing else -/
theorem slash_pure_record (cfg : Config) (s s' : State) (i p : Nat) (h : Block.slash_validator_pure cfg s i p = some s') :
    ∃ V SL B, s' = { s with validators := V, slashings := SL, balances := B } := by
  unfold Block.slash_validator_pure at h
  simp only [] at h
  repeat' split at h
  all_goals first | (cases h; done) | (cases h; exact ⟨_, _, _, rfl⟩)

/-- `SlashInv` only looks at slot, fork, registry, slashings vector, balances and the proposer seed -/
theorem SlashInv.frame {cfg : Config} {s0 : State} {p A Bm C j : Nat} {st st' : State}
    (h : SlashInv cfg s0 p A Bm C j st)
    (hv : st'.validators = st.validators) (hsl : st'.slashings = st.slashings) (hb : st'.balances = st.balances)
    (hslot : st'.slot = st.slot) (hf : st'.fork = st.fork)
    (hseed : get_seed cfg st' (get_current_epoch cfg st) DOMAIN_BEACON_PROPOSER = get_seed cfg st (get_current_epoch cfg st) DOMAIN_BEACON_PROPOSER) :
    SlashInv cfg s0 p A Bm C j st' :=
  ⟨by rw [hslot]; exact h.slot, by rw [hf]; exact h.fork,
   by rw [proposer_frame cfg st st' (sameDuties_of_frame cfg st st' hv hslot hseed)]; exact h.proposer,
   by rw [hv]; exact h.active, by rw [hv]; exact h.budget, by rw [hv]; exact h.reg, by rw [hv]; exact h.eff,
   by rw [hsl]; exact h.slashings, by rw [hb]; exact h.balances, by rw [hsl]; exact h.slen⟩

theorem processHeader_frame2 (st st' : State) (block : SignedBlock) (p : Nat) (h : processHeader st block p = .ok st') :
    st'.validators = st.validators ∧ st'.slot = st.slot ∧ st'.randao_mixes = st.randao_mixes ∧ st'.fork = st.fork ∧
    st'.slashings = st.slashings ∧ st'.balances = st.balances := by
  unfold processHeader at h
  simp only [guard_bind, rget_bind] at h
  repeat' split at h
  all_goals first | (cases h; done) | (cases h; exact ⟨rfl, rfl, rfl, rfl, rfl, rfl⟩)

theorem processRandao_frame2 (cfg : Config) (ctx : Ctx) (st st' : State) (block : SignedBlock)
    (h : processRandaoReveal cfg ctx st block = .ok st') :
    st'.validators = st.validators ∧ st'.slot = st.slot ∧ st'.fork = st.fork ∧ st'.slashings = st.slashings ∧ st'.balances = st.balances ∧
    ∃ x, st'.randao_mixes = st.randao_mixes.set (st.slot / cfg.SLOTS_PER_EPOCH % st.randao_mixes.length) x := by
  unfold processRandaoReveal at h
  simp only [guard_bind, rget_bind, ofOpt_bind] at h
  repeat' split at h
  all_goals first | (cases h; done) | (cases h; exact ⟨rfl, rfl, rfl, rfl, rfl, _, rfl⟩)

theorem processEth1_frame2 (cfg : Config) (st st' : State) (data : Eth1Data) (h : processEth1Vote cfg st data = .ok st') :
    st'.validators = st.validators ∧ st'.slot = st.slot ∧ st'.randao_mixes = st.randao_mixes ∧ st'.fork = st.fork ∧
    st'.slashings = st.slashings ∧ st'.balances = st.balances := by
  unfold processEth1Vote at h
  simp only [guard_bind] at h
  repeat' split at h
  all_goals first | (cases h; done) | (cases h; exact ⟨rfl, rfl, rfl, rfl, rfl, rfl⟩)


/-- an exit initiation of a validator that is active if it is not exiting yet keeps `SlashInv` -/
theorem SlashInv.initiate {cfg : Config} {s0 : State} {p A Bm C j : Nat} {st st' : State} (i : Nat) (v0 : Validator)
    (h : SlashInv cfg s0 p A Bm C j st) (hC : C + 1 + cfg.MIN_VALIDATOR_WITHDRAWABILITY_DELAY < 2 ^ 64)
    (hv0 : st.validators[i]? = some v0)
    (hact : v0.exit_epoch = FAR_FUTURE_EPOCH → is_active_validator v0 (s0.slot / cfg.SLOTS_PER_EPOCH) = true)
    (hst' : st' = { st with validators := initiate_validator_exit_pure cfg (st.slot / cfg.SLOTS_PER_EPOCH) st.validators i }) :
    SlashInv cfg s0 p A Bm C j st' := by
  have hslot : st'.slot = st.slot := by rw [hst']
  have hcur : st.slot / cfg.SLOTS_PER_EPOCH = s0.slot / cfg.SLOTS_PER_EPOCH := by rw [h.slot]
  have hcurfar : get_current_epoch cfg st < FAR_FUTURE_EPOCH := by
    have := cae_le_qmax cfg (s0.slot / cfg.SLOTS_PER_EPOCH) st.validators
    have hb := h.budget
    unfold compute_activation_exit_epoch at this
    unfold get_current_epoch compute_epoch_at_slot FAR_FUTURE_EPOCH
    rw [hcur]; omega
  have hsc : SameCommittees cfg st st' := by
    apply sameCommittees_initiate cfg st st' i hcurfar
    · rw [hst']
    · rw [hst']
    · rw [hst']; rfl
  have hd := hsc.duties
  obtain ⟨hbud, hreg, heff⟩ := ive_inv cfg (s0.slot / cfg.SLOTS_PER_EPOCH) C Bm st.validators i v0 hv0 hact h.budget hC h.reg h.eff
  have hvals : st'.validators = initiate_validator_exit_pure cfg (s0.slot / cfg.SLOTS_PER_EPOCH) st.validators i := by rw [hst', hcur]
  refine ⟨by rw [hslot]; exact h.slot, by rw [hst']; exact h.fork, by rw [proposer_frame cfg st st' hd]; exact h.proposer, ?_,
    by rw [hvals]; exact hbud, by rw [hvals]; exact hreg, by rw [hvals]; exact heff,
    by rw [hst']; exact h.slashings, by rw [hst']; exact h.balances, by rw [hst']; exact h.slen⟩
  rw [← h.active]
  apply filter_length_congr _ _ _ hd.2.2.1.symm
  intro j w w' h1 h2
  have := (hd.2.2.2 j w w' h1 h2).2
  unfold get_current_epoch compute_epoch_at_slot at this
  rw [hcur] at this
  exact this

/-- the constants of a phase0 block context: what does not change while the block is processed -/
structure P0Const (cfg : Config) (S0 : State) (Bm C : Nat) : Prop where
  shard : S0.slot / cfg.SLOTS_PER_EPOCH + cfg.SHARD_COMMITTEE_PERIOD < 2 ^ 64
  hC : C + 1 + cfg.MIN_VALIDATOR_WITHDRAWABILITY_DELAY < 2 ^ 64
  hepoch : S0.slot / cfg.SLOTS_PER_EPOCH + cfg.EPOCHS_PER_SLASHINGS_VECTOR < 2 ^ 64
  hBm : Bm * PROPOSER_WEIGHT < 2 ^ 64
  hq : cfg.CHURN_LIMIT_QUOTIENT ≠ 0
  hz : cfg.EPOCHS_PER_SLASHINGS_VECTOR ≠ 0 ∧ min_slashing_penalty_quotient cfg S0.fork ≠ 0 ∧
        cfg.WHISTLEBLOWER_REWARD_QUOTIENT ≠ 0 ∧ cfg.PROPOSER_REWARD_QUOTIENT ≠ 0
  hpos : 0 < cfg.EPOCHS_PER_HISTORICAL_VECTOR
  hlook : (cfg.MIN_SEED_LOOKAHEAD + 1) % cfg.EPOCHS_PER_HISTORICAL_VECTOR ≠ 0
  hsmall : cfg.EPOCHS_PER_ETH1_VOTING_PERIOD * cfg.SLOTS_PER_EPOCH * 2 + 2 < 2 ^ 64
  hM : 1 ≤ cfg.MAX_VALIDATORS_PER_COMMITTEE

/-- the invariant of phase0 block processing with `k` units of budget (one unit = room for a whole attester slashing:
`MAX_VALIDATORS_PER_COMMITTEE` slashings) -/
structure P0Inv (cfg : Config) (S0 : State) (p Bm C : Nat) (k : Nat) (ctx : Ctx) (st : State) : Prop where
  slash : SlashInv cfg S0 p ctx.activeCount Bm C (k * cfg.MAX_VALIDATORS_PER_COMMITTEE) st
  ctxp : ctx.proposer = some p
  plt : p < st.validators.length
  mixes : st.randao_mixes.length = cfg.EPOCHS_PER_HISTORICAL_VECTOR
  vlen : st.validators.length ≤ marker

theorem P0Inv.mono {cfg : Config} {S0 : State} {p Bm C k : Nat} {ctx : Ctx} {st : State}
    (h : P0Inv cfg S0 p Bm C (k + 1) ctx st) : P0Inv cfg S0 p Bm C k ctx st :=
  ⟨SlashInv.mono_le _ _ (by rw [Nat.succ_mul]; omega) h.slash, h.ctxp, h.plt, h.mixes, h.vlen⟩

/-- with budget left, `P0Inv` gives the hypotheses of the exit and slashing theorems -/
theorem P0Inv.facts {cfg : Config} {S0 : State} {p Bm C k : Nat} {ctx : Ctx} {st : State}
    (K : P0Const cfg S0 Bm C) (h : P0Inv cfg S0 p Bm C (k + 1) ctx st) :
    ctx.activeCount = (st.validators.filter (is_active_validator · (st.slot / cfg.SLOTS_PER_EPOCH))).length ∧
    ExitSmall cfg st ∧ SlashSmall cfg st ∧ st.fork = S0.fork ∧
    SlashInv cfg S0 p ctx.activeCount Bm C (k * cfg.MAX_VALIDATORS_PER_COMMITTEE + cfg.MAX_VALIDATORS_PER_COMMITTEE) st := by
  have hs : SlashInv cfg S0 p ctx.activeCount Bm C (k * cfg.MAX_VALIDATORS_PER_COMMITTEE + cfg.MAX_VALIDATORS_PER_COMMITTEE) st := by
    have := h.slash; rw [Nat.succ_mul] at this; exact this
  have hM := K.hM
  have hs1 : SlashInv cfg S0 p ctx.activeCount Bm C (k * cfg.MAX_VALIDATORS_PER_COMMITTEE + (cfg.MAX_VALIDATORS_PER_COMMITTEE - 1) + 1) st := by
    have : k * cfg.MAX_VALIDATORS_PER_COMMITTEE + (cfg.MAX_VALIDATORS_PER_COMMITTEE - 1) + 1 =
        k * cfg.MAX_VALIDATORS_PER_COMMITTEE + cfg.MAX_VALIDATORS_PER_COMMITTEE := by omega
    rw [this]; exact hs
  obtain ⟨he, hsm⟩ := hs1.small K.hC K.hepoch K.hBm
  refine ⟨?_, he, hsm, hs.fork, hs⟩
  rw [hs.slot]; exact hs.active.symm


/-- an operation that leaves slot, fork, registry, slashings vector and balances alone and keeps the proposer seed and
the length of the randao vector keeps `P0Inv` -/
theorem P0Inv.keep {cfg : Config} {S0 : State} {p Bm C k : Nat} {ctx : Ctx} {st st' : State}
    (h : P0Inv cfg S0 p Bm C (k + 1) ctx st)
    (hv : st'.validators = st.validators) (hslot : st'.slot = st.slot) (hf : st'.fork = st.fork)
    (hsl : st'.slashings = st.slashings) (hb : st'.balances = st.balances)
    (hml : st'.randao_mixes.length = st.randao_mixes.length)
    (hseed : get_seed cfg st' (get_current_epoch cfg st) DOMAIN_BEACON_PROPOSER = get_seed cfg st (get_current_epoch cfg st) DOMAIN_BEACON_PROPOSER) :
    P0Inv cfg S0 p Bm C k ctx st' :=
  ⟨(h.mono.slash).frame hv hsl hb hslot hf hseed, h.ctxp, by rw [hv]; exact h.plt, by rw [hml]; exact h.mixes, by rw [hv]; exact h.vlen⟩

theorem p0_header (cfg : Config) (S0 : State) (p Bm C : Nat) (block : SignedBlock) (k : Nat) (ctx : Ctx) (st : State)
    (hi : P0Inv cfg S0 p Bm C (k + 1) ctx st) :
    Sim (Block.process_block_header cfg st block) (ofOpt ctx.proposer >>= fun p => processHeader st block p) ∧
    ∀ st', (ofOpt ctx.proposer >>= fun p => processHeader st block p) = .ok st' → P0Inv cfg S0 p Bm C k ctx st' := by
  refine ⟨sim_header cfg ctx st block p hi.slash.proposer hi.ctxp, fun st' h => ?_⟩
  rw [hi.ctxp] at h
  simp only [ofOpt, res_bind_ok] at h
  obtain ⟨hv, hs, hm, hf, hsl, hb⟩ := processHeader_frame2 st st' block p h
  exact hi.keep hv hs hf hsl hb (by rw [hm]) (seed_of_mixes cfg st st' _ _ hm)

theorem p0_randao (cfg : Config) (S0 : State) (p Bm C : Nat) (K : P0Const cfg S0 Bm C) (block : SignedBlock) (ctx : Ctx) :
    Step (fun k => P0Inv cfg S0 p Bm C k ctx) false [()] (fun st _ => Block.process_randao cfg st block)
      (fun st _ => processRandaoReveal cfg ctx st block) := by
  intro k st _ _ hi
  refine ⟨sim_randao cfg ctx st block p hi.slash.proposer hi.ctxp hi.plt hi.mixes K.hpos, fun st' h => ⟨?_, fun hf => by cases hf⟩⟩
  obtain ⟨hv, hs, hf, hsl, hb, x, hm⟩ := processRandao_frame2 cfg ctx st st' block h
  refine hi.keep hv hs hf hsl hb (by rw [hm, List.length_set]) ?_
  apply seed_set_frame cfg st st' x _ K.hlook
  rw [hm, hi.mixes]; rfl

theorem p0_eth1 (cfg : Config) (S0 : State) (p Bm C : Nat) (K : P0Const cfg S0 Bm C) (block : SignedBlock) (ctx : Ctx) :
    Step (fun k => P0Inv cfg S0 p Bm C k ctx) false [()] (fun st _ => Block.process_eth1_data cfg st block)
      (fun st _ => processEth1Vote cfg st block.eth1_data) := by
  intro k st _ _ hi
  refine ⟨sim_eth1 cfg st block K.hsmall, fun st' h => ⟨?_, fun hf => by cases hf⟩⟩
  obtain ⟨hv, hs, hm, hf, hsl, hb⟩ := processEth1_frame2 cfg st st' block.eth1_data h
  exact hi.keep hv hs hf hsl hb (by rw [hm]) (seed_of_mixes cfg st st' _ _ hm)

theorem p0_exit (cfg : Config) (S0 : State) (p Bm C : Nat) (K : P0Const cfg S0 Bm C) (l : List SignedVoluntaryExit) (ctx : Ctx) :
    Step (fun k => P0Inv cfg S0 p Bm C k ctx) false l (Block.process_voluntary_exit cfg) (processVoluntaryExit cfg ctx) := by
  intro k st exit _ hi
  obtain ⟨hact, hes, _, _, _⟩ := hi.facts K
  have hshard : st.slot / cfg.SLOTS_PER_EPOCH + cfg.SHARD_COMMITTEE_PERIOD < 2 ^ 64 := by rw [hi.slash.slot]; exact K.shard
  refine ⟨sim_exit cfg ctx st exit hact K.hq hi.slash.reg hes hshard, fun st' h => ⟨?_, fun hf => by cases hf⟩⟩
  obtain ⟨v, hv, hactive, hst'⟩ := processVoluntaryExit_shape cfg ctx st st' exit hact K.hq hi.slash.reg hes h
  have hactive' : is_active_validator v (S0.slot / cfg.SLOTS_PER_EPOCH) = true := by rw [← hi.slash.slot]; exact hactive
  have hs' := (hi.mono.slash).initiate exit.validator_index v K.hC hv (fun _ => hactive') hst'
  refine ⟨hs', hi.ctxp, ?_, by rw [hst']; exact hi.mixes, ?_⟩
  · rw [hst']; simp only []; rw [initiate_pure_length]; exact hi.plt
  · rw [hst']; simp only []; rw [initiate_pure_length]; exact hi.vlen


theorem processProposerSlashing_shape (cfg : Config) (ctx : Ctx) (st st' : State) (ps : ProposerSlashing)
    (h : processProposerSlashing cfg ctx st ps = .ok st') :
    ∃ v0, st.validators[ps.signed_header_1.message.proposer_index]? = some v0 ∧ isSlashable v0 (st.slot / cfg.SLOTS_PER_EPOCH) = true ∧
      slashValidator cfg ctx st ps.signed_header_1.message.proposer_index = .ok st' := by
  unfold processProposerSlashing at h
  simp only [guard_bind, rget_bind] at h
  repeat' split at h
  all_goals first | (cases h; done) | skip
  rename_i v0 hv0 hsl _ _
  exact ⟨v0, hv0, hsl, h⟩

/-- what one accepted `slash_validator` of a slashable validator does to `P0Inv`-relevant facts -/
theorem slash_keeps (cfg : Config) (S0 : State) (p A Bm C j : Nat) (K : P0Const cfg S0 Bm C) (st st' : State) (i : Nat) (v0 : Validator)
    (h : SlashInv cfg S0 p A Bm C (j + 1) st) (hv0 : st.validators[i]? = some v0)
    (hsl : isSlashable v0 (st.slot / cfg.SLOTS_PER_EPOCH) = true)
    (hok : Block.slash_validator_pure cfg st i p = some st') :
    SlashInv cfg S0 p A Bm C j st' ∧ st'.validators.length = st.validators.length ∧ st'.randao_mixes = st.randao_mixes ∧
    st'.eth1_data = st.eth1_data ∧ st'.eth1_deposit_index = st.eth1_deposit_index := by
  have hsl' : is_slashable_validator v0 (S0.slot / cfg.SLOTS_PER_EPOCH) = true := by
    rw [← h.slot, ← isSlashable_eq]; exact hsl
  have h1 := SlashInv_step i v0 h K.hC K.hepoch hv0 hsl' hok
  obtain ⟨V, SL, B, hrec⟩ := slash_pure_record cfg st st' i p hok
  obtain ⟨v, _, _, _, _, _, _, _, hvals, _⟩ := slash_pure_shape cfg st st' i p hok
  refine ⟨h1, ?_, by rw [hrec], by rw [hrec], by rw [hrec]⟩
  rw [hvals, List.length_set, initiate_pure_length]

theorem p0_proposerSlashing (cfg : Config) (S0 : State) (p Bm C : Nat) (K : P0Const cfg S0 Bm C) (l : List ProposerSlashing) (ctx : Ctx) :
    Step (fun k => P0Inv cfg S0 p Bm C k ctx) true l (Block.process_proposer_slashing cfg) (processProposerSlashing cfg ctx) := by
  intro k st ps _ hi
  obtain ⟨hact, hes, hsm, hfork, hs⟩ := hi.facts K
  have hz' : cfg.EPOCHS_PER_SLASHINGS_VECTOR ≠ 0 ∧ min_slashing_penalty_quotient cfg st.fork ≠ 0 ∧
      cfg.WHISTLEBLOWER_REWARD_QUOTIENT ≠ 0 ∧ cfg.PROPOSER_REWARD_QUOTIENT ≠ 0 := by rw [hs.fork]; exact K.hz
  refine ⟨sim_proposerSlashing cfg ctx st ps p hi.ctxp hs.proposer hact K.hq hs.reg hes hsm hz', fun st' h => ?_⟩
  obtain ⟨v0, hv0, hsl, hsv⟩ := processProposerSlashing_shape cfg ctx st st' ps h
  rw [slash_eq cfg ctx st _ p hi.ctxp hact K.hq hs.reg hes hsm hz'] at hsv
  cases hpure : Block.slash_validator_pure cfg st ps.signed_header_1.message.proposer_index p with
  | none => rw [hpure] at hsv; cases hsv
  | some st2 =>
    rw [hpure] at hsv
    simp only [optRes] at hsv
    cases hsv
    have hM := K.hM
    have hs1 : SlashInv cfg S0 p ctx.activeCount Bm C (k * cfg.MAX_VALIDATORS_PER_COMMITTEE + (cfg.MAX_VALIDATORS_PER_COMMITTEE - 1) + 1) st := by
      have : k * cfg.MAX_VALIDATORS_PER_COMMITTEE + (cfg.MAX_VALIDATORS_PER_COMMITTEE - 1) + 1 =
          k * cfg.MAX_VALIDATORS_PER_COMMITTEE + cfg.MAX_VALIDATORS_PER_COMMITTEE := by omega
      rw [this]; exact hs
    obtain ⟨h1, hlen, hmix, he1, he2⟩ := slash_keeps cfg S0 p _ Bm C _ K st st' _ v0 hs1 hv0 hsl hpure
    exact ⟨⟨SlashInv.mono_le _ _ (by omega) h1, hi.ctxp, by rw [hlen]; exact hi.plt, by rw [hmix]; exact hi.mixes, by rw [hlen]; exact hi.vlen⟩,
      fun _ => ⟨he1, he2⟩⟩


/-- the slashing loop of `ProcessAttesterSlashing` keeps `SlashInv`, one unit per visited index -/
theorem slash_fold_keeps (cfg : Config) (ctx : Ctx) (S0 : State) (p Bm C : Nat) (K : P0Const cfg S0 Bm C)
    (hp : ctx.proposer = some p) :
    ∀ (l : List Nat) (st : State) (b : Bool) (j : Nat) (r : State × Bool),
      SlashInv cfg S0 p ctx.activeCount Bm C (j + l.length) st →
      l.foldlM (slashStepM cfg ctx (S0.slot / cfg.SLOTS_PER_EPOCH)) (st, b) = .ok r →
      SlashInv cfg S0 p ctx.activeCount Bm C j r.1 ∧ r.1.validators.length = st.validators.length ∧ r.1.randao_mixes = st.randao_mixes ∧
      r.1.eth1_data = st.eth1_data ∧ r.1.eth1_deposit_index = st.eth1_deposit_index := by
  intro l
  induction l with
  | nil =>
    intro st b j r h hf
    simp only [List.foldlM_nil, Res.pure_eq] at hf
    cases hf
    exact ⟨h, rfl, rfl, rfl, rfl⟩
  | cons i t ih =>
    intro st b j r h hf
    simp only [List.foldlM_cons] at hf
    have h' : SlashInv cfg S0 p ctx.activeCount Bm C (j + t.length + 1) st := h
    cases hstep : slashStepM cfg ctx (S0.slot / cfg.SLOTS_PER_EPOCH) (st, b) i with
    | ok r1 =>
      rw [hstep] at hf
      simp only [res_bind_ok] at hf
      -- what the step did
      have hkeep : SlashInv cfg S0 p ctx.activeCount Bm C (j + t.length) r1.1 ∧ r1.1.validators.length = st.validators.length ∧
          r1.1.randao_mixes = st.randao_mixes ∧ r1.1.eth1_data = st.eth1_data ∧ r1.1.eth1_deposit_index = st.eth1_deposit_index := by
        unfold slashStepM at hstep
        simp only [rget_bind] at hstep
        cases hv : st.validators[i]? with
        | none => rw [hv] at hstep; cases hstep
        | some v =>
          rw [hv] at hstep
          simp only [] at hstep
          by_cases hsl : isSlashable v (S0.slot / cfg.SLOTS_PER_EPOCH) = true
          · simp only [hsl, if_true] at hstep
            obtain ⟨hes, hsm⟩ := h'.small K.hC K.hepoch K.hBm
            have hact : ctx.activeCount = (st.validators.filter (is_active_validator · (st.slot / cfg.SLOTS_PER_EPOCH))).length := by
              rw [h'.slot]; exact h'.active.symm
            have hz' : cfg.EPOCHS_PER_SLASHINGS_VECTOR ≠ 0 ∧ min_slashing_penalty_quotient cfg st.fork ≠ 0 ∧
                cfg.WHISTLEBLOWER_REWARD_QUOTIENT ≠ 0 ∧ cfg.PROPOSER_REWARD_QUOTIENT ≠ 0 := by rw [h'.fork]; exact K.hz
            rw [slash_eq cfg ctx st i p hp hact K.hq h'.reg hes hsm hz'] at hstep
            cases hpure : Block.slash_validator_pure cfg st i p with
            | none => rw [hpure] at hstep; cases hstep
            | some st2 =>
              rw [hpure] at hstep
              simp only [optRes, res_bind_ok, Res.pure_eq] at hstep
              cases hstep
              have hsl2 : isSlashable v (st.slot / cfg.SLOTS_PER_EPOCH) = true := by rw [h'.slot]; exact hsl
              exact slash_keeps cfg S0 p _ Bm C _ K st st2 i v h' hv hsl2 hpure
          · simp only [hsl, if_false, Res.pure_eq] at hstep
            cases hstep
            exact ⟨h'.mono, rfl, rfl, rfl, rfl⟩
      obtain ⟨k1, k2, k3, k4, k5⟩ := hkeep
      obtain ⟨q1, q2, q3, q4, q5⟩ := ih r1.1 r1.2 j r k1 hf
      exact ⟨q1, by rw [q2, k2], by rw [q3, k3], by rw [q4, k4], by rw [q5, k5]⟩
    | err => rw [hstep] at hf; cases hf
    | panic => rw [hstep] at hf; cases hf
    | outOfFuel => rw [hstep] at hf; cases hf


theorem processAttesterSlashing_shape (cfg : Config) (ctx : Ctx) (st st' : State) (op : AttesterSlashing)
    (hlen1 : op.attestation_1.attesting_indices.length ≤ cfg.MAX_VALIDATORS_PER_COMMITTEE)
    (hlen2 : op.attestation_2.attesting_indices.length ≤ cfg.MAX_VALIDATORS_PER_COMMITTEE)
    (hvl : st.validators.length ≤ marker)
    (h : processAttesterSlashing cfg ctx st op = .ok st') :
    ∃ (l : List Nat) (b : Bool), l.length ≤ cfg.MAX_VALIDATORS_PER_COMMITTEE ∧
      l.foldlM (slashStepM cfg ctx (st.slot / cfg.SLOTS_PER_EPOCH)) (st, false) = .ok (st', b) := by
  unfold processAttesterSlashing at h
  simp only [] at h
  rw [validateIndexed_eq cfg st _ _ hlen1, validateIndexed_eq cfg st _ _ hlen2] at h
  simp only [guard_bind] at h
  by_cases hd : isSlashableAttestationData op.attestation_1.data op.attestation_2.data = true
  · simp only [hd, if_true] at h
    by_cases h1 : Block.valid_indexed_pure st op.attestation_1.attesting_indices op.attestation_1.sig_ok = true
    · simp only [h1, if_true] at h
      by_cases h2 : Block.valid_indexed_pure st op.attestation_2.attesting_indices op.attestation_2.sig_ok = true
      · simp only [h2, if_true] at h
        unfold Block.valid_indexed_pure at h1 h2
        simp only [Bool.and_eq_true, List.all_eq_true, decide_eq_true_eq] at h1 h2
        have hp1 := (sortedUnique_iff_pairwise _).mp h1.1.1.2
        have hp2 := (sortedUnique_iff_pairwise _).mp h2.1.1.2
        have hm : ∀ x ∈ op.attestation_1.attesting_indices, x < marker := fun x hx => by
          have := h1.1.2 x hx; omega
        rw [zigzagIn_eq_filter _ _ hp1 hp2 hm] at h
        simp only [res_bind_ok] at h
        have hM : (fun (acc : State × Bool) i => do
              let validator ← rget acc.1.validators i
              if isSlashable validator (st.slot / cfg.SLOTS_PER_EPOCH) = true then do
                  let s' ← slashValidator cfg ctx acc.1 i
                  pure (s', true)
                else pure acc) = slashStepM cfg ctx (st.slot / cfg.SLOTS_PER_EPOCH) := rfl
        rw [hM] at h
        cases hf : List.foldlM (slashStepM cfg ctx (st.slot / cfg.SLOTS_PER_EPOCH)) (st, false)
            (op.attestation_1.attesting_indices.filter (op.attestation_2.attesting_indices.contains ·)) with
        | ok r =>
          rw [hf] at h
          obtain ⟨s2, b⟩ := r
          simp only [res_bind_ok, guard_bind] at h
          cases b with
          | false => simp only [Bool.false_eq_true, if_false] at h; cases h
          | true =>
            simp only [if_true, Res.pure_eq] at h
            cases h
            exact ⟨_, true, Nat.le_trans (List.length_filter_le _ _) hlen1, hf⟩
        | err => rw [hf] at h; cases h
        | panic => rw [hf] at h; cases h
        | outOfFuel => rw [hf] at h; cases h
      · simp only [h2, Bool.false_eq_true, if_false] at h; cases h
    · simp only [h1, Bool.false_eq_true, if_false] at h; cases h
  · simp only [hd, Bool.false_eq_true, if_false] at h; cases h

theorem p0_attesterSlashing (cfg : Config) (S0 : State) (p Bm C : Nat) (K : P0Const cfg S0 Bm C) (l : List AttesterSlashing) (ctx : Ctx)
    (hl : ∀ op ∈ l, op.attestation_1.attesting_indices.length ≤ cfg.MAX_VALIDATORS_PER_COMMITTEE ∧
      op.attestation_2.attesting_indices.length ≤ cfg.MAX_VALIDATORS_PER_COMMITTEE) :
    Step (fun k => P0Inv cfg S0 p Bm C k ctx) true l (Block.process_attester_slashing cfg) (processAttesterSlashing cfg ctx) := by
  intro k st op hop hi
  obtain ⟨hact, hes, hsm, hfork, hs⟩ := hi.facts K
  obtain ⟨hlen1, hlen2⟩ := hl op hop
  have hz' : cfg.EPOCHS_PER_SLASHINGS_VECTOR ≠ 0 ∧ min_slashing_penalty_quotient cfg st.fork ≠ 0 ∧
      cfg.WHISTLEBLOWER_REWARD_QUOTIENT ≠ 0 ∧ cfg.PROPOSER_REWARD_QUOTIENT ≠ 0 := by rw [hs.fork]; exact K.hz
  -- `attesterSlashing_eq` wants the invariant relative to the current state
  have hcur : SlashInv cfg st p ctx.activeCount Bm C cfg.MAX_VALIDATORS_PER_COMMITTEE st := by
    have h0 := SlashInv.mono_le (cfg := cfg) (s0 := S0) cfg.MAX_VALIDATORS_PER_COMMITTEE _ (by omega) hs
    exact ⟨rfl, rfl, h0.proposer, by rw [hs.slot]; exact h0.active, by rw [hs.slot]; exact h0.budget, h0.reg, h0.eff, h0.slashings,
      h0.balances, h0.slen⟩
  have hepoch : st.slot / cfg.SLOTS_PER_EPOCH + cfg.EPOCHS_PER_SLASHINGS_VECTOR < 2 ^ 64 := by rw [hs.slot]; exact K.hepoch
  refine ⟨sim_attesterSlashing cfg ctx st op p Bm C hi.ctxp hcur hlen1 hlen2 hi.vlen K.hq hz' K.hC hepoch K.hBm, fun st' h => ?_⟩
  obtain ⟨lst, b, hll, hfold⟩ := processAttesterSlashing_shape cfg ctx st st' op hlen1 hlen2 hi.vlen h
  rw [hs.slot] at hfold
  have hstart : SlashInv cfg S0 p ctx.activeCount Bm C (k * cfg.MAX_VALIDATORS_PER_COMMITTEE + (cfg.MAX_VALIDATORS_PER_COMMITTEE - lst.length) + lst.length) st := by
    have : k * cfg.MAX_VALIDATORS_PER_COMMITTEE + (cfg.MAX_VALIDATORS_PER_COMMITTEE - lst.length) + lst.length =
        k * cfg.MAX_VALIDATORS_PER_COMMITTEE + cfg.MAX_VALIDATORS_PER_COMMITTEE := by omega
    rw [this]; exact hs
  obtain ⟨q1, q2, q3, q4, q5⟩ := slash_fold_keeps cfg ctx S0 p Bm C K hi.ctxp lst st false _ (st', b) hstart hfold
  exact ⟨⟨SlashInv.mono_le _ _ (by omega) q1, hi.ctxp, by rw [q2]; exact hi.plt, by rw [q3]; exact hi.mixes, by rw [q2]; exact hi.vlen⟩,
    fun _ => ⟨q4, q5⟩⟩


/-- a phase0 block container whose operations are proposer slashings, attester slashings and voluntary exits (any
numbers of them), with attester slashings inside their type limit -/
structure SlashExitBlock (cfg : Config) (block : SignedBlock) : Prop where
  att : block.attestations = []
  dep : block.deposits = []
  bls : block.bls_to_execution_changes = []
  payload : block.execution_payload = none
  sync : block.sync_aggregate = none
  aslen : ∀ op ∈ block.attester_slashings, op.attestation_1.attesting_indices.length ≤ cfg.MAX_VALIDATORS_PER_COMMITTEE ∧
    op.attestation_2.attesting_indices.length ≤ cfg.MAX_VALIDATORS_PER_COMMITTEE

/-- `OpSteps` for `P0Inv`: every field discharged for phase0 blocks of slashings and exits -/
theorem opSteps_slashExit (cfg : Config) (S0 : State) (p Bm C : Nat) (K : P0Const cfg S0 Bm C) (block : SignedBlock)
    (hF : S0.fork = .phase0) (hb : SlashExitBlock cfg block) : OpSteps cfg block .phase0 (P0Inv cfg S0 p Bm C) :=
  { mono := fun _ _ _ h => h.mono
    fork := fun _ _ _ h => by rw [h.slash.fork]; exact hF
    header := fun k ctx st hi => p0_header cfg S0 p Bm C block k ctx st hi
    payload := fun ctx payload hpl => by rw [hb.payload] at hpl; cases hpl
    withdrawals := fun _ ctx payload hpl => by rw [hb.payload] at hpl; cases hpl
    randao := fun ctx => p0_randao cfg S0 p Bm C K block ctx
    eth1 := fun ctx => p0_eth1 cfg S0 p Bm C K block ctx
    proposerSlashing := fun ctx => p0_proposerSlashing cfg S0 p Bm C K _ ctx
    attesterSlashing := fun ctx => p0_attesterSlashing cfg S0 p Bm C K _ ctx hb.aslen
    attestation := fun ctx k st x hx => by rw [hb.att] at hx; cases hx
    deposit := fun k ctx st d hd => by rw [hb.dep] at hd; cases hd
    exit := fun ctx => p0_exit cfg S0 p Bm C K _ ctx
    blsChange := fun ctx k st x hx => by rw [hb.bls] at hx; cases hx
    sync := fun ctx agg hsa => by rw [hb.sync] at hsa; cases hsa }

/-- `M_block_refines_S` / `M_sound` WITHOUT a premise for phase0 blocks of slashings and exits: for every pre-state `S0`
satisfying `P0Inv` with `blockNeed block k` units of budget -/
theorem processBlock_slashExit (cfg : Config) (S0 : State) (p Bm C k : Nat) (K : P0Const cfg S0 Bm C) (hF : S0.fork = .phase0) (ctx : Ctx) (block : SignedBlock)
    (hb : SlashExitBlock cfg block) (hi : P0Inv cfg S0 p Bm C (blockNeed block k) ctx S0)
    (htyped : Block.check_types cfg block = .ok ()) :
    Sim (Block.process_block cfg S0 block) (processBlock cfg ctx S0 block) ∧
    ∀ st', processBlock cfg ctx S0 block = .ok st' → ∃ ctx', P0Inv cfg S0 p Bm C k ctx' st' :=
  ⟨processBlock_sim (opSteps_slashExit cfg S0 p Bm C K block hF hb) k ctx S0 hi htyped,
   processBlock_inv (opSteps_slashExit cfg S0 p Bm C K block hF hb) k ctx S0 hi⟩

end Zrnt.Proofs.BlockM
