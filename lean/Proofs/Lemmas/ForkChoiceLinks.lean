import Proofs.Lemmas.ForkChoiceDefs
/-!
# Fork choice: the best-child / best-descendant maintenance keeps the structure invariant

`maybeUpdate` (`maybeUpdateBestChildAndDescendant`), `pass2` (the loop of `updateConnections` and the second
loop of `ApplyScoreChanges`), `updateConnections`, `applyScoreChanges` and `findHead` of the code-shaped model
never take an error branch and never panic on a well-formed array (`WF`), keep `WF`, and change nothing but
links (`Frame`), resp. links, weights and epochs (`FrameS`).

Main results: `wf_maybeUpdate`, `wf_pass2`, `wf_updateConnections`, `wf_applyScoreChanges`, `wf_findHead`.
Tools: `fpar_congr`/`anc_congr` (ancestry depends on skeletons and length only), `ancF_mono`, `ancF_le`,
`ancF_stable`, `anc_step`, `WF.of_frameS`, `wf_setLinks`, `maybeUpdate_cases`, `pass1_some`.
-/
namespace Zrnt.ForkChoice

/-! ## frames -/

/-- weak frame: everything but weights, links, epochs and the `updated` flag is kept -/
structure FrameS (pr pr' : PA) : Prop where
  off : pr'.offset = pr.offset
  sink : pr'.sink = pr.sink
  sinkLog : pr'.sinkLog = pr.sinkLog
  indices : pr'.indices = pr.indices
  blockSlots : pr'.blockSlots = pr.blockSlots
  len : pr'.nodes.length = pr.nodes.length
  skel : ∀ i : Nat, (pr'.nodes[i]?).map Node.skel = (pr.nodes[i]?).map Node.skel

/-- strong frame: additionally the epochs and all weights are kept (only links and `updated` may change) -/
structure Frame (pr pr' : PA) : Prop extends FrameS pr pr' where
  jE : pr'.jEpoch = pr.jEpoch
  fE : pr'.fEpoch = pr.fEpoch
  weight : ∀ i : Nat, (pr'.nodes[i]?).map (·.weight) = (pr.nodes[i]?).map (·.weight)

theorem FrameS.refl (pr : PA) : FrameS pr pr :=
  ⟨rfl, rfl, rfl, rfl, rfl, rfl, fun _ => rfl⟩

theorem FrameS.trans {a b c : PA} (h1 : FrameS a b) (h2 : FrameS b c) : FrameS a c :=
  ⟨h2.off.trans h1.off, h2.sink.trans h1.sink, h2.sinkLog.trans h1.sinkLog, h2.indices.trans h1.indices,
   h2.blockSlots.trans h1.blockSlots, h2.len.trans h1.len, fun i => (h2.skel i).trans (h1.skel i)⟩

theorem Frame.refl (pr : PA) : Frame pr pr :=
  ⟨FrameS.refl pr, rfl, rfl, fun _ => rfl⟩

theorem Frame.trans {a b c : PA} (h1 : Frame a b) (h2 : Frame b c) : Frame a c :=
  ⟨h1.toFrameS.trans h2.toFrameS, h2.jE.trans h1.jE, h2.fE.trans h1.fE,
   fun i => (h2.weight i).trans (h1.weight i)⟩

/-! ## `fpar`, `ancF`, `anc` depend on skeletons and length only -/

theorem fpar_congr (ns ns' : List Node)
    (hs : ∀ i : Nat, (ns'[i]?).map Node.skel = (ns[i]?).map Node.skel) (j : Nat) :
    fpar ns' j = fpar ns j := by
  have h := hs j
  unfold fpar
  cases h1 : ns'[j]? <;> cases h2 : ns[j]? <;> simp [h1, h2, Node.skel] at h ⊢
  exact h.2.2.1

theorem ancF_congr (ns ns' : List Node)
    (hs : ∀ i : Nat, (ns'[i]?).map Node.skel = (ns[i]?).map Node.skel) (i f j : Nat) :
    ancF ns' i f j = ancF ns i f j := by
  induction f generalizing j with
  | zero => simp [ancF]
  | succ f ih =>
    simp only [ancF, fpar_congr ns ns' hs j]
    cases fpar ns j <;> simp [ih]

theorem anc_congr (ns ns' : List Node) (hl : ns'.length = ns.length)
    (hs : ∀ i : Nat, (ns'[i]?).map Node.skel = (ns[i]?).map Node.skel) (i j : Nat) :
    anc ns' i j = anc ns i j := by
  unfold anc
  rw [hl]
  exact ancF_congr ns ns' hs i _ j

theorem FrameS.fpar {pr pr' : PA} (h : FrameS pr pr') (j : Nat) : fpar pr'.nodes j = fpar pr.nodes j :=
  fpar_congr _ _ h.skel j

theorem FrameS.anc {pr pr' : PA} (h : FrameS pr pr') (i j : Nat) : anc pr'.nodes i j = anc pr.nodes i j :=
  anc_congr _ _ h.len h.skel i j

/-! ## walking up the fork-choice parents -/

theorem ancF_unfold (ns : List Node) (i f j : Nat) :
    ancF ns i (f + 1) j = (i == j || (match fpar ns j with | some p => ancF ns i f p | none => false)) := rfl

theorem ancF_self (ns : List Node) (i f : Nat) : ancF ns i f i = true := by
  cases f <;> simp [ancF]

/-- more fuel never hurts -/
theorem ancF_mono (ns : List Node) (i f j : Nat) (h : ancF ns i f j = true) : ancF ns i (f + 1) j = true := by
  induction f generalizing j with
  | zero =>
    simp [ancF] at h
    subst h
    exact ancF_self ns i 1
  | succ f ih =>
    rw [ancF] at h
    rw [ancF]
    cases hij : (i == j)
    · simp only [hij, Bool.false_or] at h ⊢
      cases hp : fpar ns j with
      | none => simp [hp] at h
      | some p =>
        simp only [hp] at h ⊢
        exact ih p h
    · simp

/-- with parents at smaller indices an ancestor has a smaller or equal index -/
theorem ancF_le (ns : List Node) (hlt : ∀ j p, fpar ns j = some p → p < j) (i f j : Nat)
    (h : ancF ns i f j = true) : i ≤ j := by
  induction f generalizing j with
  | zero => simp [ancF] at h; omega
  | succ f ih =>
    rw [ancF] at h
    cases hij : (i == j)
    · simp only [hij, Bool.false_or] at h
      cases hp : fpar ns j with
      | none => simp [hp] at h
      | some p =>
        simp only [hp] at h
        have := ih p h
        have := hlt j p hp
        omega
    · simp at hij; omega

/-- with parents at smaller indices, fuel `j` is enough for a walk from `j` -/
theorem ancF_stable (ns : List Node) (hlt : ∀ j p, fpar ns j = some p → p < j) (i f j : Nat) (hf : j ≤ f) :
    ancF ns i (f + 1) j = ancF ns i f j := by
  induction f generalizing j with
  | zero =>
    have : j = 0 := by omega
    subst this
    simp only [ancF]
    cases hp : fpar ns 0 with
    | none => simp
    | some p => exact absurd (hlt 0 p hp) (by omega)
  | succ f ih =>
    rw [ancF_unfold ns i (f + 1), ancF_unfold ns i f]
    cases hp : fpar ns j with
    | none => rfl
    | some p =>
      have := hlt j p hp
      simp only []
      rw [ih p (by omega)]

/-- one more parent step on top of a walk -/
theorem ancF_step (ns : List Node) (p c f d : Nat) (hp : fpar ns c = some p) (h : ancF ns c f d = true) :
    ancF ns p (f + 1) d = true := by
  induction f generalizing d with
  | zero =>
    simp [ancF] at h
    subst h
    simp [ancF, hp]
  | succ f ih =>
    rw [ancF] at h
    rw [ancF]
    cases hcd : (c == d)
    · simp only [hcd, Bool.false_or] at h
      cases hq : fpar ns d with
      | none => simp [hq] at h
      | some q =>
        simp only [hq] at h
        simp [ih q h]
    · simp at hcd
      subst hcd
      simp [hp, ancF_self]

theorem anc_self (ns : List Node) (i : Nat) : anc ns i i = true := ancF_self ns i _

theorem anc_le (ns : List Node) (hlt : ∀ j p, fpar ns j = some p → p < j) (i j : Nat)
    (h : anc ns i j = true) : i ≤ j := ancF_le ns hlt i _ j h

/-- the subtree of a child lies in the subtree of its parent -/
theorem anc_step (ns : List Node) (hlt : ∀ j p, fpar ns j = some p → p < j) (p c d : Nat)
    (hp : fpar ns c = some p) (hd : d < ns.length) (h : anc ns c d = true) : anc ns p d = true := by
  unfold anc at h ⊢
  have := ancF_step ns p c ns.length d hp h
  rwa [ancF_stable ns hlt p ns.length d (by omega)] at this

theorem fpar_lt_length (ns : List Node) (j p : Nat) (h : fpar ns j = some p) : j < ns.length := by
  unfold fpar at h
  cases hj : ns[j]? with
  | none => simp [hj] at h
  | some n => exact (List.getElem?_eq_some_iff.mp hj).1

theorem WF.fpar_lt' {pr : PA} (h : WF pr) (j p : Nat) (hp : fpar pr.nodes j = some p) : p < j := by
  unfold fpar at hp
  cases hj : pr.nodes[j]? with
  | none => simp [hj] at hp
  | some n =>
    simp [hj] at hp
    exact h.fpar_lt j n p hj hp

/-! ## transferring `WF` along a weak frame -/

theorem map_skel_some {o : Option Node} {n : Node} (h : o.map Node.skel = (some n).map Node.skel) :
    ∃ n', o = some n' ∧ n'.skel = n.skel := by
  cases o with
  | none => simp at h
  | some n' => exact ⟨n', rfl, by simpa using h⟩

/-- A weakly framed array is well formed as soon as its links are. -/
theorem WF.of_frameS {pr pr' : PA} (h : WF pr) (fr : FrameS pr pr')
    (hbc : ∀ (i : Nat) (n : Node) (c : Nat), pr'.nodes[i]? = some n → n.bestChild = some c →
      fpar pr'.nodes c = some i)
    (hbd : ∀ (i : Nat) (n : Node) (d : Nat), pr'.nodes[i]? = some n → n.bestDesc = some d →
      d < pr'.nodes.length ∧ i ≠ d ∧ anc pr'.nodes i d = true)
    (hbb : ∀ (i : Nat) (n : Node), pr'.nodes[i]? = some n → (n.bestChild.isSome ↔ n.bestDesc.isSome)) :
    WF pr' where
  off := fr.off.trans h.off
  len := by rw [fr.indices, fr.len]; exact h.len
  idx_sound := by
    intro ref i hi
    rw [fr.indices] at hi
    obtain ⟨n, hn, hr⟩ := h.idx_sound ref i hi
    have := fr.skel i
    rw [hn] at this
    obtain ⟨n', hn', hs⟩ := map_skel_some this
    refine ⟨n', hn', ?_⟩
    simp [Node.skel] at hs
    rw [hs.1, hr]
  idx_complete := by
    intro i n' hn'
    have := (fr.skel i).symm
    rw [hn'] at this
    obtain ⟨n, hn, hs⟩ := map_skel_some this
    simp [Node.skel] at hs
    rw [fr.indices, ← hs.1]
    exact h.idx_complete i n hn
  tpar_lt := by
    intro i n' p hn' hp
    have := (fr.skel i).symm
    rw [hn'] at this
    obtain ⟨n, hn, hs⟩ := map_skel_some this
    simp [Node.skel] at hs
    exact h.tpar_lt i n p hn (by rw [hs.2.1, hp])
  fpar_lt := by
    intro i n' p hn' hp
    have := (fr.skel i).symm
    rw [hn'] at this
    obtain ⟨n, hn, hs⟩ := map_skel_some this
    simp [Node.skel] at hs
    exact h.fpar_lt i n p hn (by rw [hs.2.2.1, hp])
  bc_child := hbc
  bd_desc := hbd
  bc_bd := hbb
  bs_node := by
    intro root s hs
    rw [fr.blockSlots] at hs
    rw [fr.indices]
    exact h.bs_node root s hs

/-! ## writing the two links of one node -/

theorem getNode_eq {pr : PA} (h : WF pr) (i : Nat) : pr.getNode i = pr.nodes[i]? := by
  simp [PA.getNode, h.off]

theorem setNode_nodes {pr : PA} (h : WF pr) (p : Nat) (n : Node) :
    (pr.setNode p n).nodes = pr.nodes.set p n := by
  simp [PA.setNode, h.off]

/-- replacing the links of node `p` is a (strong) frame -/
theorem frame_setLinks {pr : PA} (h : WF pr) (p : Nat) (parent : Node) (hp : pr.nodes[p]? = some parent)
    (bc bd : Option Idx) :
    Frame pr (pr.setNode p { parent with bestChild := bc, bestDesc := bd }) := by
  have hpl : p < pr.nodes.length := (List.getElem?_eq_some_iff.mp hp).1
  refine ⟨⟨rfl, rfl, rfl, rfl, rfl, ?_, ?_⟩, rfl, rfl, ?_⟩
  · simp [PA.setNode]
  · intro i
    rw [setNode_nodes h, List.getElem?_set]
    by_cases hpi : p = i
    · subst hpi; rw [hp]; simp [hpl, Node.skel]
    · simp [hpi]
  · intro i
    rw [setNode_nodes h, List.getElem?_set]
    by_cases hpi : p = i
    · subst hpi; rw [hp]; simp [hpl]
    · simp [hpi]

/-- replacing the links of node `p` by admissible links keeps `WF` -/
theorem wf_setLinks {pr : PA} (h : WF pr) (p : Nat) (parent : Node) (hp : pr.nodes[p]? = some parent)
    (bc bd : Option Idx)
    (hbc : ∀ c, bc = some c → fpar pr.nodes c = some p)
    (hbd : ∀ d, bd = some d → d < pr.nodes.length ∧ p ≠ d ∧ anc pr.nodes p d = true)
    (hbb : bc.isSome ↔ bd.isSome) :
    WF (pr.setNode p { parent with bestChild := bc, bestDesc := bd }) := by
  have fr := (frame_setLinks h p parent hp bc bd).toFrameS
  have hpl : p < pr.nodes.length := (List.getElem?_eq_some_iff.mp hp).1
  have key : ∀ (i : Nat) (n : Node),
      (pr.setNode p { parent with bestChild := bc, bestDesc := bd }).nodes[i]? = some n →
      (i = p ∧ n.bestChild = bc ∧ n.bestDesc = bd) ∨ pr.nodes[i]? = some n := by
    intro i n hn
    rw [setNode_nodes h, List.getElem?_set] at hn
    by_cases hpi : p = i
    · subst hpi
      simp [hpl] at hn
      subst hn
      exact Or.inl ⟨rfl, rfl, rfl⟩
    · simp [hpi] at hn
      exact Or.inr hn
  refine h.of_frameS fr ?_ ?_ ?_
  · intro i n c hn hc
    rw [fr.fpar]
    rcases key i n hn with ⟨rfl, h1, _⟩ | h0
    · exact hbc c (h1 ▸ hc)
    · exact h.bc_child i n c h0 hc
  · intro i n d hn hd
    rw [fr.anc, fr.len]
    rcases key i n hn with ⟨rfl, _, h2⟩ | h0
    · exact hbd d (h2 ▸ hd)
    · exact h.bd_desc i n d h0 hd
  · intro i n hn
    rcases key i n hn with ⟨rfl, h1, h2⟩ | h0
    · rw [h1, h2]; exact hbb
    · exact h.bc_bd i n h0

/-! ## `maybeUpdate` -/

theorem fpar_node {ns : List Node} {c p : Nat} (hc : fpar ns c = some p) :
    ∃ child, ns[c]? = some child ∧ child.fparent = some p := by
  unfold fpar at hc
  cases hj : ns[c]? with
  | none => simp [hj] at hc
  | some n => exact ⟨n, rfl, by simpa [hj] using hc⟩

theorem nodeLeads_some {pr : PA} (h : WF pr) (i : Nat) (n : Node) (hn : pr.nodes[i]? = some n) :
    ∃ b, pr.nodeLeads n = some b := by
  unfold PA.nodeLeads
  cases hd : n.bestDesc with
  | none => exact ⟨_, rfl⟩
  | some d =>
    have hl := (h.bd_desc i n d hn hd).1
    simp only [getNode_eq h]
    rw [List.getElem?_eq_getElem hl]
    exact ⟨_, rfl⟩

/-- the three possible results of `maybeUpdate` -/
theorem maybeUpdate_cases (pr : PA) (h : WF pr) (p c : Nat) (hc : fpar pr.nodes c = some p) :
    ∃ child parent, pr.nodes[c]? = some child ∧ pr.nodes[p]? = some parent ∧
      (pr.maybeUpdate p c = some pr ∨
       pr.maybeUpdate p c = some (pr.setNode p { parent with bestChild := none, bestDesc := none }) ∨
       pr.maybeUpdate p c = some (pr.setNode p
         { parent with bestChild := some c, bestDesc := some (child.bestDesc.getD c) })) := by
  obtain ⟨child, hchild, hfp⟩ := fpar_node hc
  have hcl : c < pr.nodes.length := (List.getElem?_eq_some_iff.mp hchild).1
  have hpc : p < c := h.fpar_lt c child p hchild hfp
  have hpl : p < pr.nodes.length := by omega
  have hparent : pr.nodes[p]? = some pr.nodes[p] := List.getElem?_eq_getElem hpl
  obtain ⟨cl, hcl'⟩ := nodeLeads_some h c child hchild
  refine ⟨child, pr.nodes[p], hchild, hparent, ?_⟩
  unfold PA.maybeUpdate
  simp only [getNode_eq h, hchild, hparent, hcl']
  cases hb : (pr.nodes[p]).bestChild with
  | none =>
    simp only []
    split
    · exact Or.inr (Or.inr rfl)
    · exact Or.inl rfl
  | some bc =>
    simp only []
    obtain ⟨best, hbest, _⟩ := fpar_node (h.bc_child p _ bc hparent hb)
    obtain ⟨bl, hbl⟩ := nodeLeads_some h bc best hbest
    simp only [hbest, hbl]
    repeat' split
    all_goals first
      | exact Or.inl rfl
      | exact Or.inr (Or.inl rfl)
      | exact Or.inr (Or.inr rfl)

/-- one update: defined (no error), keeps WF, changes nothing but the two links of the parent -/
theorem wf_maybeUpdate (pr : PA) (h : WF pr) (p c : Nat) (hc : fpar pr.nodes c = some p) :
    ∃ pr', pr.maybeUpdate p c = some pr' ∧ WF pr' ∧ Frame pr pr' := by
  obtain ⟨child, parent, hchild, hparent, hres⟩ := maybeUpdate_cases pr h p c hc
  have hcl : c < pr.nodes.length := (List.getElem?_eq_some_iff.mp hchild).1
  have hpc : p < c := h.fpar_lt' c p hc
  rcases hres with hres | hres | hres
  · exact ⟨_, hres, h, Frame.refl pr⟩
  · refine ⟨_, hres, ?_, frame_setLinks h p parent hparent none none⟩
    exact wf_setLinks h p parent hparent none none (by simp) (by simp) (by simp)
  · refine ⟨_, hres, ?_, frame_setLinks h p parent hparent _ _⟩
    refine wf_setLinks h p parent hparent _ _ ?_ ?_ (by simp)
    · intro c' hc'
      cases hc'
      exact hc
    · intro d hd
      simp only [Option.some.injEq] at hd
      cases hbd : child.bestDesc with
      | none =>
        simp [hbd] at hd
        subst hd
        exact ⟨hcl, by omega, anc_step pr.nodes h.fpar_lt' p c c hc hcl (anc_self _ _)⟩
      | some d' =>
        simp [hbd] at hd
        subst hd
        obtain ⟨hdl, _, hanc⟩ := h.bd_desc c child d' hchild hbd
        have := anc_le pr.nodes h.fpar_lt' c d' hanc
        exact ⟨hdl, by omega, anc_step pr.nodes h.fpar_lt' p c d' hc hdl hanc⟩

theorem wf_pass2 (pr : PA) (h : WF pr) (k : Nat) (hk : k ≤ pr.nodes.length) :
    ∃ pr', pr.pass2 k = (pr', true) ∧ WF pr' ∧ Frame pr pr' := by
  induction k generalizing pr with
  | zero => exact ⟨pr, rfl, h, Frame.refl pr⟩
  | succ i ih =>
    have hil : i < pr.nodes.length := by omega
    rw [PA.pass2, List.getElem?_eq_getElem hil]
    simp only []
    cases hf : (pr.nodes[i]).fparent with
    | none => exact ih pr h (by omega)
    | some p =>
      simp only [h.off, Nat.zero_add]
      have hc : fpar pr.nodes i = some p := by
        simp [fpar, List.getElem?_eq_getElem hil, hf]
      obtain ⟨pr1, hm, hw1, hf1⟩ := wf_maybeUpdate pr h p i hc
      simp only [hm]
      obtain ⟨pr2, hp2, hw2, hf2⟩ := ih pr1 hw1 (by rw [hf1.len]; omega)
      exact ⟨pr2, hp2, hw2, hf1.trans hf2⟩

theorem wf_updated {pr : PA} (h : WF pr) (b : Bool) : WF { pr with updated := b } :=
  ⟨h.off, h.len, h.idx_sound, h.idx_complete, h.tpar_lt, h.fpar_lt, h.bc_child, h.bd_desc, h.bc_bd, h.bs_node⟩

theorem frame_updated (pr : PA) (b : Bool) : Frame pr { pr with updated := b } :=
  ⟨⟨rfl, rfl, rfl, rfl, rfl, rfl, fun _ => rfl⟩, rfl, rfl, fun _ => rfl⟩

theorem wf_updateConnections (pr : PA) (h : WF pr) :
    ∃ pr', pr.updateConnections = (pr', true) ∧ WF pr' ∧ pr'.updated = true ∧ Frame pr pr' := by
  obtain ⟨pr1, h1, hw1, hf1⟩ := wf_pass2 pr h pr.nodes.length (Nat.le_refl _)
  refine ⟨{ pr1 with updated := true }, ?_, wf_updated hw1 true, rfl, hf1.trans (frame_updated pr1 true)⟩
  simp [PA.updateConnections, h1]

/-! ## `pass1` only touches weights -/

/-- a node without its weight -/
def Node.nw (n : Node) : (NodeRef × Option Idx × Option Idx × Root × Nat × Nat) × Option Idx × Option Idx :=
  (n.skel, n.bestChild, n.bestDesc)

theorem set_weight_nw (ns : List Node) (i : Nat) (n : Node) (hn : ns[i]? = some n) (w : Int) (j : Nat) :
    ((ns.set i { n with weight := w })[j]?).map Node.nw = (ns[j]?).map Node.nw := by
  have hil : i < ns.length := (List.getElem?_eq_some_iff.mp hn).1
  rw [List.getElem?_set]
  by_cases hij : i = j
  · subst hij; rw [hn]; simp [hil, Node.nw, Node.skel]
  · simp [hij]

/-- with parents at smaller indices and a delta vector of the right length the first loop of
`ApplyScoreChanges` stays in range, and it keeps everything but the weights -/
theorem pass1_some (k : Nat) (ns : List Node) (ds : List Int) (hk : k ≤ ns.length) (hl : ds.length = ns.length)
    (hlt : ∀ (i : Nat) (n : Node) (p : Nat), ns[i]? = some n → n.fparent = some p → p < i) :
    ∃ ns' ds', PA.pass1 0 k ns ds = some (ns', ds') ∧ ns'.length = ns.length ∧
      ∀ i : Nat, (ns'[i]?).map Node.nw = (ns[i]?).map Node.nw := by
  induction k generalizing ns ds with
  | zero => exact ⟨ns, ds, rfl, rfl, fun _ => rfl⟩
  | succ i ih =>
    have hil : i < ns.length := by omega
    obtain ⟨n, hn⟩ : ∃ n, ns[i]? = some n := ⟨_, List.getElem?_eq_getElem hil⟩
    obtain ⟨d, hd⟩ : ∃ d, ds[i]? = some d := ⟨_, List.getElem?_eq_getElem (by omega)⟩
    obtain ⟨ns1, hns1⟩ : ∃ ns1, ns1 = ns.set i { n with weight := n.weight + d } := ⟨_, rfl⟩
    have hstep : PA.pass1 0 (i + 1) ns ds =
        match n.fparent with
        | none => PA.pass1 0 i ns1 ds
        | some p =>
          if p < 0 then none else
          match ds[p - 0]? with
          | none => none
          | some dp => PA.pass1 0 i ns1 (ds.set (p - 0) (dp + d)) := by
      subst hns1
      rw [PA.pass1, hn, hd]
      rfl
    have hnw : ∀ j : Nat, (ns1[j]?).map Node.nw = (ns[j]?).map Node.nw := by
      subst hns1
      exact set_weight_nw ns i n hn (n.weight + d)
    have hlen1 : ns1.length = ns.length := by subst hns1; simp
    have hlt' : ∀ (j : Nat) (n : Node) (p : Nat), ns1[j]? = some n → n.fparent = some p → p < j := by
      intro j n p hj hp
      have := hnw j
      rw [hj] at this
      cases hj0 : ns[j]? with
      | none => simp [hj0] at this
      | some n0 =>
        simp [hj0, Node.nw, Node.skel] at this
        exact hlt j n0 p hj0 (by rw [← this.1.2.2.1, hp])
    rw [hstep]
    cases hf : n.fparent with
    | none =>
      simp only []
      obtain ⟨ns', ds', h1, h2, h3⟩ := ih ns1 ds (by omega) (by omega) hlt'
      exact ⟨ns', ds', h1, h2.trans hlen1, fun j => (h3 j).trans (hnw j)⟩
    | some p =>
      have hpi : p < i := hlt i n p hn hf
      have hpl : p < ds.length := Nat.lt_trans hpi (by omega)
      obtain ⟨dp, hdp⟩ : ∃ dp, ds[p]? = some dp := ⟨_, List.getElem?_eq_getElem hpl⟩
      simp only [Nat.not_lt_zero, if_false, Nat.sub_zero, hdp]
      obtain ⟨ns', ds', h1, h2, h3⟩ := ih ns1 (ds.set p (dp + d)) (by omega) (by rw [List.length_set]; omega) hlt'
      exact ⟨ns', ds', h1, h2.trans hlen1, fun j => (h3 j).trans (hnw j)⟩

/-- replacing the nodes by nodes that differ in weights only keeps `WF` (and the epochs do not matter) -/
theorem wf_of_nw {pr : PA} (h : WF pr) (ns : List Node) (jE fE : Nat) (hl : ns.length = pr.nodes.length)
    (hnw : ∀ i : Nat, (ns[i]?).map Node.nw = (pr.nodes[i]?).map Node.nw) :
    WF { pr with jEpoch := jE, fEpoch := fE, nodes := ns } ∧
    FrameS pr { pr with jEpoch := jE, fEpoch := fE, nodes := ns } := by
  have hsk : ∀ i : Nat, (ns[i]?).map Node.skel = (pr.nodes[i]?).map Node.skel := by
    intro i
    have := hnw i
    cases h1 : ns[i]? <;> cases h2 : pr.nodes[i]? <;> simp [h1, h2, Node.nw] at this ⊢
    exact this.1
  have key : ∀ (i : Nat) (n : Node), ns[i]? = some n →
      ∃ n0, pr.nodes[i]? = some n0 ∧ n.bestChild = n0.bestChild ∧ n.bestDesc = n0.bestDesc := by
    intro i n hn
    have := hnw i
    rw [hn] at this
    cases h2 : pr.nodes[i]? with
    | none => simp [h2] at this
    | some n0 =>
      simp [h2, Node.nw] at this
      exact ⟨n0, rfl, this.2.1, this.2.2⟩
  have fr : FrameS pr { pr with jEpoch := jE, fEpoch := fE, nodes := ns } :=
    ⟨rfl, rfl, rfl, rfl, rfl, hl, hsk⟩
  refine ⟨h.of_frameS fr ?_ ?_ ?_, fr⟩
  · intro i n c hn hc
    rw [fr.fpar]
    obtain ⟨n0, h0, e1, _⟩ := key i n hn
    exact h.bc_child i n0 c h0 (e1 ▸ hc)
  · intro i n d hn hd
    rw [fr.anc, fr.len]
    obtain ⟨n0, h0, _, e2⟩ := key i n hn
    exact h.bd_desc i n0 d h0 (e2 ▸ hd)
  · intro i n hn
    obtain ⟨n0, h0, e1, e2⟩ := key i n hn
    rw [e1, e2]
    exact h.bc_bd i n0 h0

/-- ApplyScoreChanges with a delta vector of the right length succeeds and keeps WF -/
theorem wf_applyScoreChanges (pr : PA) (h : WF pr) (ds : List Int) (hl : ds.length = pr.nodes.length)
    (jE fE : Nat) :
    ∃ pr', pr.applyScoreChanges ds jE fE = .ok pr' () ∧ WF pr' ∧ pr'.jEpoch = jE ∧ pr'.fEpoch = fE ∧
      pr'.updated = true ∧ FrameS pr pr' := by
  obtain ⟨ns, ds', h1, hlen, hnw⟩ := pass1_some pr.nodes.length pr.nodes ds (Nat.le_refl _) hl h.fpar_lt
  obtain ⟨hw1, hf1⟩ := wf_of_nw h ns jE fE hlen hnw
  obtain ⟨pr2, h2, hw2, hf2⟩ :=
    wf_pass2 { pr with jEpoch := jE, fEpoch := fE, nodes := ns } hw1 ns.length (Nat.le_refl _)
  refine ⟨{ pr2 with updated := true }, ?_, wf_updated hw2 true, hf2.jE, hf2.fE, rfl,
    hf1.trans (hf2.toFrameS.trans (frame_updated pr2 true).toFrameS)⟩
  rw [← h.off] at h1
  unfold PA.applyScoreChanges
  simp only [hl, ne_eq, not_true_eq_false, if_false, h1, h2]

/-! ## `findHead` -/

/-- the part of `FindHead` after the connections are up to date -/
def findHeadStep (pr : PA) (anchorRoot : Root) (anchorSlot : Nat) : POut PA NodeRef :=
  match aGet pr.indices ⟨anchorSlot, anchorRoot⟩ with
  | none => .err pr
  | some anchorIndex =>
    match pr.getNode anchorIndex with
    | none => .err pr
    | some anchorNode =>
      match pr.getNode (anchorNode.bestDesc.getD anchorIndex) with
      | none => .err pr
      | some bestNode => if pr.viable bestNode then .ok pr bestNode.ref else .err pr

theorem findHead_eq (pr : PA) (root : Root) (slot : Nat) :
    pr.findHead root slot =
      if pr.updated then findHeadStep pr root slot else
        match pr.updateConnections with
        | (pr', true) => findHeadStep pr' root slot
        | (pr', false) => .err pr' := rfl

theorem findHeadStep_cases (pr : PA) (h : WF pr) (root : Root) (slot : Nat) :
    (∃ r, findHeadStep pr root slot = .ok pr r ∧ (aGet pr.indices r).isSome) ∨
    findHeadStep pr root slot = .err pr := by
  unfold findHeadStep
  repeat' split
  all_goals first
    | exact Or.inr rfl
    | skip
  rename_i bestNode hb _
  rw [getNode_eq h] at hb
  exact Or.inl ⟨_, rfl, by rw [h.idx_complete _ _ hb]; rfl⟩

/-- FindHead never panics and keeps WF, whether it returns a head or an error -/
theorem wf_findHead (pr : PA) (h : WF pr) (root : Root) (slot : Nat) :
    (∃ pr' r, pr.findHead root slot = .ok pr' r ∧ WF pr' ∧ FrameS pr pr' ∧ (aGet pr'.indices r).isSome) ∨
    (∃ pr', pr.findHead root slot = .err pr' ∧ WF pr' ∧ FrameS pr pr') := by
  rw [findHead_eq]
  cases hu : pr.updated with
  | true =>
    simp only [if_true]
    rcases findHeadStep_cases pr h root slot with ⟨r, h1, h2⟩ | h1
    · exact Or.inl ⟨pr, r, h1, h, FrameS.refl pr, h2⟩
    · exact Or.inr ⟨pr, h1, h, FrameS.refl pr⟩
  | false =>
    obtain ⟨pr1, hc, hw1, _, hf1⟩ := wf_updateConnections pr h
    simp only [Bool.false_eq_true, if_false, hc]
    rcases findHeadStep_cases pr1 hw1 root slot with ⟨r, h1, h2⟩ | h1
    · exact Or.inl ⟨pr1, r, h1, hw1, hf1.toFrameS, h2⟩
    · exact Or.inr ⟨pr1, h1, hw1, hf1.toFrameS⟩

/-! ## non-vacuity: a well-formed two-node array (anchor and one child, links not yet set) -/

def exN0 : Node :=
  { ref := ⟨0, 1⟩, tparent := none, fparent := none, parentRoot := 0, jEpoch := 0, fEpoch := 0,
    weight := 0, bestChild := none, bestDesc := none }

def exN1 : Node :=
  { ref := ⟨1, 2⟩, tparent := some 0, fparent := some 0, parentRoot := 1, jEpoch := 0, fEpoch := 0,
    weight := 0, bestChild := none, bestDesc := none }

/-- anchor `(slot 0, root 1)` and its child `(slot 1, root 2)`, as `ProcessBlock` leaves them -/
def exPA : PA :=
  { sink := .absent, sinkLog := [], offset := 0, jEpoch := 0, fEpoch := 0,
    nodes := [exN0, exN1],
    indices := [(⟨0, 1⟩, 0), (⟨1, 2⟩, 1)],
    blockSlots := [(1, 0), (2, 1)],
    updated := false }

theorem exPA_node (i : Nat) (n : Node) (h : exPA.nodes[i]? = some n) :
    (i = 0 ∧ n = exN0) ∨ (i = 1 ∧ n = exN1) := by
  match i with
  | 0 => simp [exPA] at h; exact Or.inl ⟨rfl, h.symm⟩
  | 1 => simp [exPA] at h; exact Or.inr ⟨rfl, h.symm⟩
  | i + 2 => simp [exPA] at h

theorem exPA_wf : WF exPA where
  off := rfl
  len := rfl
  idx_sound := by
    intro ref i h
    simp only [exPA, aGet] at h
    split at h
    · cases h; subst_vars; exact ⟨_, rfl, rfl⟩
    · split at h
      · cases h; subst_vars; exact ⟨_, rfl, rfl⟩
      · cases h
  idx_complete := by
    intro i n h
    rcases exPA_node i n h with ⟨rfl, rfl⟩ | ⟨rfl, rfl⟩ <;> decide
  tpar_lt := by
    intro i n p h hp
    rcases exPA_node i n h with ⟨rfl, rfl⟩ | ⟨rfl, rfl⟩ <;> simp [exN0, exN1] at hp
    cases hp; decide
  fpar_lt := by
    intro i n p h hp
    rcases exPA_node i n h with ⟨rfl, rfl⟩ | ⟨rfl, rfl⟩ <;> simp [exN0, exN1] at hp
    cases hp; decide
  bc_child := by
    intro i n c h hc
    rcases exPA_node i n h with ⟨rfl, rfl⟩ | ⟨rfl, rfl⟩ <;> simp [exN0, exN1] at hc
  bd_desc := by
    intro i n d h hd
    rcases exPA_node i n h with ⟨rfl, rfl⟩ | ⟨rfl, rfl⟩ <;> simp [exN0, exN1] at hd
  bc_bd := by
    intro i n h
    rcases exPA_node i n h with ⟨rfl, rfl⟩ | ⟨rfl, rfl⟩ <;> simp [exN0, exN1]
  bs_node := by
    intro root s h
    simp only [exPA, aGet] at h
    split at h
    · cases h; subst_vars; decide
    · split at h
      · cases h; subst_vars; decide
      · cases h

/-- the hypotheses of `wf_maybeUpdate` are satisfiable -/
example : WF exPA ∧ fpar exPA.nodes 1 = some 0 := ⟨exPA_wf, by decide⟩
/-- … of `wf_pass2`, `wf_updateConnections`, `wf_findHead` -/
example : WF exPA ∧ 2 ≤ exPA.nodes.length := ⟨exPA_wf, by decide⟩
/-- … of `wf_applyScoreChanges` -/
example : WF exPA ∧ [3, (-1 : Int)].length = exPA.nodes.length := ⟨exPA_wf, by decide⟩
/-- and the links do get set on it: after `updateConnections` the anchor points at its child -/
example : (exPA.updateConnections.1.nodes.map (fun n => (n.bestChild, n.bestDesc))) =
    [(some 1, some 1), (none, none)] := by decide

end Zrnt.ForkChoice
