import Zrnt.SSZ.Merkle
import Proofs.Lemmas.SSZBasic
/-! The level-by-level `merkleize` (what runs, `O(n + depth)` hashes) equals the specification's
padded perfect tree `merkleizeSpec`. -/
namespace Zrnt.Proofs.SSZ
open Zrnt.SSZ

theorem pairUp_length (H : Hash2) (z : Chunk) : ∀ cs : List Chunk, (pairUp H z cs).length = (cs.length + 1) / 2
  | [] => rfl
  | [_] => by simp [pairUp]
  | _ :: _ :: r => by simp [pairUp, pairUp_length H z r]; omega

theorem pairUp_replicate (H : Hash2) (z : Chunk) (k : Nat) :
    pairUp H z (List.replicate (2 * k) z) = List.replicate k (H z z) := by
  induction k with
  | zero => rfl
  | succ k ih =>
    have : 2 * (k + 1) = (2 * k + 1) + 1 := by omega
    rw [this, List.replicate_succ, List.replicate_succ, pairUp, ih, List.replicate_succ]

/-- pairing a list padded with the level's zero hash = pairing the list, padded with the next level's zero hash -/
theorem pairUp_append_replicate (H : Hash2) (z : Chunk) : ∀ (cs : List Chunk) (k : Nat), (cs.length + k) % 2 = 0 →
    pairUp H z (cs ++ List.replicate k z) = pairUp H z cs ++ List.replicate (k / 2) (H z z)
  | [], k, h => by
    simp only [List.length_nil, Nat.zero_add] at h
    have : k = 2 * (k / 2) := by omega
    simp only [List.nil_append, pairUp]
    conv => lhs; rw [this]
    exact pairUp_replicate H z (k / 2)
  | [a], k, h => by
    simp only [List.length_cons, List.length_nil] at h
    obtain ⟨j, rfl⟩ : ∃ j, k = 2 * j + 1 := ⟨k / 2, by omega⟩
    simp only [List.cons_append, List.nil_append, List.replicate_succ, pairUp]
    rw [pairUp_replicate]
    have : (2 * j + 1) / 2 = j := by omega
    rw [this]
  | a :: b :: r, k, h => by
    simp only [List.length_cons] at h
    simp only [List.cons_append, pairUp]
    rw [pairUp_append_replicate H z r k (by omega)]

theorem pairUp_take (H : Hash2) (z : Chunk) : ∀ (n : Nat) (cs : List Chunk), 2 * n ≤ cs.length →
    pairUp H z (cs.take (2 * n)) = (pairUp H z cs).take n
  | 0, cs, _ => by simp [pairUp]
  | n + 1, cs, h => by
    match cs, h with
    | a :: b :: r, h =>
      simp only [List.length_cons] at h
      have : 2 * (n + 1) = (2 * n + 1) + 1 := by omega
      rw [this]
      simp only [List.take_succ_cons, pairUp]
      rw [pairUp_take H z n r (by omega)]
    | [_], h => simp at h; omega
    | [], h => simp at h

theorem pairUp_drop (H : Hash2) (z : Chunk) : ∀ (n : Nat) (cs : List Chunk), 2 * n ≤ cs.length →
    pairUp H z (cs.drop (2 * n)) = (pairUp H z cs).drop n
  | 0, cs, _ => by simp
  | n + 1, cs, h => by
    match cs, h with
    | a :: b :: r, h =>
      simp only [List.length_cons] at h
      have : 2 * (n + 1) = (2 * n + 1) + 1 := by omega
      rw [this]
      simp only [List.drop_succ_cons, pairUp]
      rw [pairUp_drop H z n r (by omega)]
    | [_], h => simp at h; omega
    | [], h => simp at h

/-- one level of hashing: the root over `2^(d+1)` leaves is the root over the `2^d` pair hashes -/
theorem treeRoot_succ_eq (H : Hash2) (z : Chunk) : ∀ (d : Nat) (cs : List Chunk), cs.length = 2 ^ (d + 1) →
    treeRoot H (d + 1) cs = treeRoot H d (pairUp H z cs)
  | 0, cs, h => by
    match cs, h with
    | [a, b], _ => simp [treeRoot, pairUp]
  | d + 1, cs, h => by
    have h2 : 2 ^ (d + 1 + 1) = 2 * 2 ^ (d + 1) := by rw [Nat.pow_succ]; omega
    have hp : (pairUp H z cs).length = 2 ^ (d + 1) := by rw [pairUp_length, h, h2]; omega
    have e : treeRoot H (d + 1 + 1) cs =
        H (treeRoot H (d + 1) (cs.take (2 ^ (d + 1)))) (treeRoot H (d + 1) (cs.drop (2 ^ (d + 1)))) := rfl
    have e' : treeRoot H (d + 1) (pairUp H z cs) =
        H (treeRoot H d ((pairUp H z cs).take (2 ^ d))) (treeRoot H d ((pairUp H z cs).drop (2 ^ d))) := rfl
    rw [e, e']
    have h3 : 2 ^ (d + 1) = 2 * 2 ^ d := by rw [Nat.pow_succ]; omega
    rw [treeRoot_succ_eq H z d (cs.take (2 ^ (d + 1))) (by rw [List.length_take, h]; omega),
      treeRoot_succ_eq H z d (cs.drop (2 ^ (d + 1))) (by rw [List.length_drop, h]; omega)]
    rw [h3, pairUp_take H z (2 ^ d) cs (by omega), pairUp_drop H z (2 ^ d) cs (by omega)]

/-- the running algorithm computes the root of the tree padded with the level's zero hash -/
theorem merkleizeFrom_eq (H : Hash2) : ∀ (d : Nat) (z : Chunk) (cs : List Chunk), cs.length ≤ 2 ^ d →
    merkleizeFrom H z cs d = treeRoot H d (cs ++ List.replicate (2 ^ d - cs.length) z)
  | 0, z, cs, h => by
    match cs, h with
    | [], _ => simp [merkleizeFrom, treeRoot]
    | [a], _ => simp [merkleizeFrom, treeRoot]
  | d + 1, z, cs, h => by
    have h2 : 2 ^ (d + 1) = 2 * 2 ^ d := by rw [Nat.pow_succ]; omega
    have hpl := pairUp_length H z cs
    simp only [merkleizeFrom]
    rw [merkleizeFrom_eq H d (H z z) (pairUp H z cs) (by omega)]
    rw [treeRoot_succ_eq H z d (cs ++ List.replicate (2 ^ (d + 1) - cs.length) z) (by simp; omega)]
    rw [pairUp_append_replicate H z cs _ (by omega)]
    congr 3
    omega

/-- **merkleize = specification.** For at most `2^d` chunks the level-by-level algorithm returns the root of
the chunk list padded with zero chunks to `2^d` leaves. -/
theorem merkleize_eq_merkleizeSpec (H : Hash2) (cs : List Chunk) (d : Nat) (h : cs.length ≤ 2 ^ d) :
    merkleize H cs d = merkleizeSpec H cs d :=
  merkleizeFrom_eq H d zeroChunk cs h

/-- explicit zero chunks at the end do not change the root (padding is idempotent) -/
theorem merkleize_append_zero (H : Hash2) (cs : List Chunk) (k d : Nat) (h : cs.length + k ≤ 2 ^ d) :
    merkleize H (cs ++ List.replicate k zeroChunk) d = merkleize H cs d := by
  rw [merkleize_eq_merkleizeSpec H _ d (by simp; omega), merkleize_eq_merkleizeSpec H cs d (by omega)]
  unfold merkleizeSpec
  congr 1
  rw [List.append_assoc, List.replicate_append_replicate]
  congr 2
  simp; omega

end Zrnt.Proofs.SSZ
