import Zrnt.Config.ForkModel
/-! Helper lemmas for C14: `forkAt` of a monotone schedule as a comparison chain. -/
namespace Zrnt.Proofs.ForkAt
open Zrnt Zrnt.Config

/-- For a monotone schedule the filter-based specification `forkAt` is the obvious comparison chain. -/
theorem forkAt_cases (c : Schedule) (h : c.Monotone) (e : Nat) :
    forkAt c e =
      if e < c.altairEpoch.toNat then .phase0
      else if e < c.bellatrixEpoch.toNat then .altair
      else if e < c.capellaEpoch.toNat then .bellatrix
      else if e < c.denebEpoch.toNat then .capella
      else if e < c.electraEpoch.toNat then .deneb
      else if e < c.fuluEpoch.toNat then .electra
      else .fulu := by
  obtain ⟨h1, h2, h3, h4, h5⟩ := h
  have k : ∀ x : Nat, (x ≤ e) = ¬ (e < x) := fun x => by simp
  simp only [forkAt, Fork.all, List.filter, Schedule.epochOf, k]
  by_cases a1 : e < c.altairEpoch.toNat <;> by_cases a2 : e < c.bellatrixEpoch.toNat <;>
  by_cases a3 : e < c.capellaEpoch.toNat <;> by_cases a4 : e < c.denebEpoch.toNat <;>
  by_cases a5 : e < c.electraEpoch.toNat <;> by_cases a6 : e < c.fuluEpoch.toNat <;>
  first
  | (exfalso; omega)
  | simp [*]

end Zrnt.Proofs.ForkAt
