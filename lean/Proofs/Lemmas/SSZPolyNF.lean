import Zrnt.Schema.Facts
import Mathlib.Tactic.Ring
import Mathlib.Tactic.Linarith
/-! Soundness of the polynomial normal form used to compare length/limit expressions for all configurations,
including quotients (atoms that keep their normalised numerator and denominator). -/
namespace Zrnt.Proofs.SSZ
open Zrnt.Schema Zrnt.Schema.Facts

/-- value of an atom under a configuration -/
def atomVal (c : Config) : Atom → Nat
  | .c n => c n
  | .q a b => a.eval c / b.eval c

def prodAtoms (c : Config) : List Atom → Nat
  | [] => 1
  | a :: r => atomVal c a * prodAtoms c r

def evalMono (c : Config) (m : Mono) : Nat := m.1 * prodAtoms c m.2

def evalPoly (c : Config) : Poly → Nat
  | [] => 0
  | m :: r => evalMono c m + evalPoly c r

theorem prodAtoms_insertSorted (c : Config) (a : Atom) (l : List Atom) :
    prodAtoms c (insertSorted a l) = atomVal c a * prodAtoms c l := by
  induction l with
  | nil => simp [insertSorted, prodAtoms]
  | cons b r ih =>
    simp only [insertSorted]
    split
    · simp [prodAtoms]
    · simp only [prodAtoms, ih]; ring

theorem prodAtoms_mulAtoms (c : Config) (xs ys : List Atom) :
    prodAtoms c (mulAtoms xs ys) = prodAtoms c xs * prodAtoms c ys := by
  unfold mulAtoms
  induction xs generalizing ys with
  | nil => simp [prodAtoms]
  | cons x r ih =>
    simp only [List.foldl_cons, ih, prodAtoms_insertSorted, prodAtoms]; ring

theorem evalPoly_addMono (c : Config) (m : Mono) (p : Poly) :
    evalPoly c (addMono m p) = evalMono c m + evalPoly c p := by
  induction p with
  | nil =>
    simp only [addMono]
    split
    · rename_i h
      have : m.1 = 0 := by simpa using h
      simp [evalPoly, evalMono, this]
    · simp [evalPoly]
  | cons n r ih =>
    simp only [addMono]
    split
    · rename_i heq
      have he : m.2 = n.2 := by simpa using heq
      split
      · rename_i hz
        have : m.1 + n.1 = 0 := by simpa using hz
        have h1 : m.1 = 0 := by omega
        have h2 : n.1 = 0 := by omega
        simp [evalPoly, evalMono, h1, h2]
      · simp only [evalPoly, evalMono, he]; ring
    · split
      · split
        · rename_i hz
          have : m.1 = 0 := by simpa using hz
          simp [evalPoly, evalMono, this]
        · simp [evalPoly]
      · simp only [evalPoly, ih]; ring

theorem evalPoly_foldl_addMono (c : Config) (p q : Poly) :
    evalPoly c (p.foldl (fun acc m => addMono m acc) q) = evalPoly c p + evalPoly c q := by
  induction p generalizing q with
  | nil => simp [evalPoly]
  | cons m r ih => simp only [List.foldl_cons, ih, evalPoly_addMono, evalPoly]; ring

theorem evalPoly_addPoly (c : Config) (p q : Poly) : evalPoly c (addPoly p q) = evalPoly c p + evalPoly c q :=
  evalPoly_foldl_addMono c p q

theorem evalPoly_mulInner (c : Config) (m : Mono) (q acc : Poly) :
    evalPoly c (q.foldl (fun acc2 n => addMono (m.1 * n.1, mulAtoms m.2 n.2) acc2) acc)
      = evalMono c m * evalPoly c q + evalPoly c acc := by
  induction q generalizing acc with
  | nil => simp [evalPoly]
  | cons n r ih =>
    simp only [List.foldl_cons, ih, evalPoly_addMono, evalPoly, evalMono, prodAtoms_mulAtoms]; ring

theorem evalPoly_mulOuter (c : Config) (p q acc : Poly) :
    evalPoly c (p.foldl (fun acc m => q.foldl (fun acc2 n => addMono (m.1 * n.1, mulAtoms m.2 n.2) acc2) acc) acc)
      = evalPoly c p * evalPoly c q + evalPoly c acc := by
  induction p generalizing acc with
  | nil => simp [evalPoly]
  | cons m r ih => simp only [List.foldl_cons, ih, evalPoly_mulInner, evalPoly]; ring

theorem evalPoly_mulPoly (c : Config) (p q : Poly) : evalPoly c (mulPoly p q) = evalPoly c p * evalPoly c q := by
  unfold mulPoly
  rw [evalPoly_mulOuter]; simp [evalPoly]

theorem reifyAtoms_eval (c : Config) (xs : List Atom) : (reifyAtoms xs).eval c = prodAtoms c xs := by
  induction xs with
  | nil => simp [reifyAtoms, prodAtoms, LExpr.eval]
  | cons a r ih =>
    cases a <;> simp [reifyAtoms, reifyAtom, prodAtoms, atomVal, LExpr.eval, ih]

theorem reify_eval (c : Config) (p : Poly) : (reify p).eval c = evalPoly c p := by
  induction p with
  | nil => simp [reify, evalPoly, LExpr.eval]
  | cons m r ih => simp [reify, evalPoly, evalMono, LExpr.eval, ih, reifyAtoms_eval]

/-- the normal form denotes the expression -/
theorem evalPoly_polyNF (c : Config) : ∀ e : LExpr, evalPoly c (polyNF e) = e.eval c
  | .lit n => by
    simp only [polyNF]
    split
    · rename_i h; have : n = 0 := by simpa using h
      simp [evalPoly, LExpr.eval, this]
    · simp [evalPoly, evalMono, prodAtoms, LExpr.eval]
  | .const s => by
    simp [polyNF, evalPoly, evalMono, prodAtoms, atomVal, LExpr.eval]
  | .mul a b => by
    simp only [polyNF, evalPoly_mulPoly, evalPoly_polyNF c a, evalPoly_polyNF c b, LExpr.eval]
  | .add a b => by
    simp only [polyNF, evalPoly_addPoly, evalPoly_polyNF c a, evalPoly_polyNF c b, LExpr.eval]
  | .div a b => by
    have ha := evalPoly_polyNF c a
    have hb := evalPoly_polyNF c b
    simp only [polyNF, LExpr.eval]
    split
    · rename_i x y h1 h2
      rw [h1] at ha; rw [h2] at hb
      simp only [evalPoly, evalMono, prodAtoms, Nat.mul_one, Nat.add_zero] at ha hb
      split
      · rename_i hz
        have : x / y = 0 := by simpa using hz
        simp [evalPoly, ← ha, ← hb, this]
      · simp [evalPoly, evalMono, prodAtoms, ← ha, ← hb]
    · simp [evalPoly, evalMono, prodAtoms, atomVal, reify_eval, ha, hb]

/-- **Soundness of the limit comparison**: expressions with equal normal forms are equal under every configuration. -/
theorem sameLen_sound (a b : LExpr) (h : sameLen a b = true) (c : Config) : a.eval c = b.eval c := by
  unfold sameLen at h
  simp only [Bool.and_eq_true, beq_iff_eq] at h
  rw [← evalPoly_polyNF c a, ← evalPoly_polyNF c b, h.1.1]

theorem isLit_sound (e : LExpr) (n : Nat) (h : isLit e n = true) (c : Config) : e.eval c = n := by
  unfold isLit at h
  have := beq_iff_eq.mp h
  rw [← evalPoly_polyNF c e, this, evalPoly_polyNF]
  rfl

end Zrnt.Proofs.SSZ
