import Proofs.Lemmas.ForkChoiceDefs
/-!
# Fork choice: the first loop of `ApplyScoreChanges` (`PA.pass1`)

`pass1_spec`: with fork-choice parents at smaller indices the loop does not panic, changes only weights, and
adds to every weight the sum of the deltas over the node's subtree (`subSum`).
`pass1_skel`: whatever the input, the loop changes only the `weight` fields.

Proof idea for `pass1_spec`: every original delta `ds[m]` is a token travelling up the parent chain. After the
indices `≥ k` have been processed the token of `m` sits in the delta slot of the first ancestor-or-self of `m`
with index `< k` (`Top ns k m j`), and the nodes `≥ k` have received the tokens of their subtree (`Anc`).
-/
namespace Zrnt.ForkChoice

/-! ## sums over `0 .. n-1` -/

/-- `Σ_{m<n} f m` -/
def sumTo : Nat → (Nat → Int) → Int
  | 0, _ => 0
  | n + 1, f => sumTo n f + f n

theorem sumTo_congr {n : Nat} {f g : Nat → Int} (h : ∀ m, m < n → f m = g m) :
    sumTo n f = sumTo n g := by
  induction n with
  | zero => rfl
  | succ n ih =>
    simp only [sumTo]
    rw [ih (fun m hm => h m (by omega)), h n (by omega)]

theorem sumTo_add (n : Nat) (f g : Nat → Int) :
    sumTo n (fun m => f m + g m) = sumTo n f + sumTo n g := by
  induction n with
  | zero => simp [sumTo]
  | succ n ih => simp only [sumTo, ih]; omega

theorem sumTo_zero (n : Nat) : sumTo n (fun _ => 0) = 0 := by
  induction n with
  | zero => rfl
  | succ n ih => simp [sumTo, ih]

theorem sumTo_single (n j : Nat) (f : Nat → Int) (hj : j < n) :
    sumTo n (fun m => if m = j then f m else 0) = f j := by
  induction n with
  | zero => omega
  | succ n ih =>
    simp only [sumTo]
    by_cases h : j = n
    · subst h
      have : sumTo j (fun m => if m = j then f m else 0) = sumTo j (fun _ => 0) :=
        sumTo_congr (fun m hm => by simp; omega)
      rw [this, sumTo_zero]; simp
    · rw [ih (by omega)]
      have : n ≠ j := fun e => h e.symm
      simp [this]

theorem sum_filter_range (n : Nat) (p : Nat → Bool) (f : Nat → Int) :
    (((List.range n).filter p).map f).sum = sumTo n (fun m => if p m then f m else 0) := by
  induction n with
  | zero => simp [sumTo]
  | succ n ih =>
    rw [List.range_succ, List.filter_append, List.map_append, List.sum_append_int, ih]
    simp only [sumTo]
    cases hp : p n <;> simp [List.filter, hp]

/-! ## ancestor relation as an inductive predicate -/

/-- `i` is `j` or a fork-choice ancestor of `j` -/
inductive Anc (ns : List Node) (i : Nat) : Nat → Prop
  | refl : Anc ns i i
  | step {j p : Nat} : fpar ns j = some p → Anc ns i p → Anc ns i j

/-- `j` is the first of `m`, parent of `m`, grand parent of `m`, … with index `< k` -/
inductive Top (ns : List Node) (k : Nat) : Nat → Nat → Prop
  | base {m : Nat} : m < k → Top ns k m m
  | step {m p j : Nat} : k ≤ m → fpar ns m = some p → Top ns k p j → Top ns k m j

theorem ancF_Anc (ns : List Node) (i : Nat) : ∀ fuel j, ancF ns i fuel j = true → Anc ns i j := by
  intro fuel
  induction fuel with
  | zero => intro j h; simp [ancF] at h; subst h; exact .refl
  | succ f ih =>
    intro j h
    simp only [ancF, Bool.or_eq_true, beq_iff_eq] at h
    rcases h with h | h
    · subst h; exact .refl
    · cases hp : fpar ns j with
      | none => simp [hp] at h
      | some p => simp only [hp] at h; exact .step hp (ih p h)

theorem Anc_ancF (ns : List Node) (i : Nat) (hp : ∀ j p, fpar ns j = some p → p < j) {j : Nat}
    (h : Anc ns i j) : ∀ fuel, j ≤ fuel → ancF ns i fuel j = true := by
  induction h with
  | refl => intro fuel _; cases fuel <;> simp [ancF]
  | @step j p hjp _ ih =>
    intro fuel hf
    have := hp j p hjp
    cases fuel with
    | zero => omega
    | succ f => simp only [ancF, hjp, ih f (by omega)]; simp

theorem anc_iff_Anc (ns : List Node) (hp : ∀ j p, fpar ns j = some p → p < j) (i j : Nat)
    (hj : j ≤ ns.length) : anc ns i j = true ↔ Anc ns i j :=
  ⟨ancF_Anc ns i _ j, fun h => Anc_ancF ns i hp h _ hj⟩

theorem Anc_le (ns : List Node) (hp : ∀ j p, fpar ns j = some p → p < j) {i j : Nat}
    (h : Anc ns i j) : i ≤ j := by
  induction h with
  | refl => omega
  | @step j p hjp _ ih => have := hp j p hjp; omega

theorem Top_lt {ns : List Node} {k m j : Nat} (h : Top ns k m j) : j < k := by
  induction h with
  | base h => exact h
  | step _ _ _ ih => exact ih

theorem Top_fun {ns : List Node} {k m j j' : Nat} (h : Top ns k m j) (h' : Top ns k m j') : j = j' := by
  induction h with
  | base hm =>
    cases h' with
    | base _ => rfl
    | step hk _ _ => omega
  | step hk hmp _ ih =>
    cases h' with
    | base hm => omega
    | step _ hmp' ht' =>
      rw [hmp] at hmp'; cases hmp'
      exact ih ht'

theorem Top_Anc {ns : List Node} {k m j : Nat} (h : Top ns k m j) : Anc ns j m := by
  induction h with
  | base _ => exact .refl
  | step _ hmp _ ih => exact .step hmp ih

theorem Anc_Top (ns : List Node) (hp : ∀ j p, fpar ns j = some p → p < j) {k m : Nat}
    (h : Anc ns k m) : Top ns (k + 1) m k := by
  induction h with
  | refl => exact .base (by omega)
  | @step j p hjp ha ih =>
    have := Anc_le ns hp ha
    have := hp j p hjp
    exact .step (by omega) hjp ih

theorem Top_succ_self_iff (ns : List Node) (hp : ∀ j p, fpar ns j = some p → p < j) (k m : Nat) :
    Top ns (k + 1) m k ↔ Anc ns k m :=
  ⟨Top_Anc, Anc_Top ns hp⟩

theorem Top_split (ns : List Node) (hp : ∀ j p, fpar ns j = some p → p < j) {k m j : Nat}
    (h : Top ns k m j) : Top ns (k + 1) m j ∨ (Top ns (k + 1) m k ∧ fpar ns k = some j) := by
  induction h with
  | base hm => exact .inl (.base (by omega))
  | @step m p j hk hmp ht ih =>
    by_cases hmk : m = k
    · subst hmk
      have hpm := hp m p hmp
      cases ht with
      | base _ => exact .inr ⟨.base (by omega), hmp⟩
      | step hk' _ _ => omega
    · rcases ih with ih | ⟨ih, hf⟩
      · exact .inl (.step (by omega) hmp ih)
      · exact .inr ⟨.step (by omega) hmp ih, hf⟩

theorem Top_left {ns : List Node} {k m j : Nat} (h : Top ns (k + 1) m j) (hj : j < k) :
    Top ns k m j := by
  induction h with
  | base hm => exact .base hj
  | step hk hmp _ ih => exact .step (by omega) hmp (ih hj)

theorem Top_right {ns : List Node} {K m x j : Nat} (h : Top ns K m x) (hK : K = x + 1)
    (hf : fpar ns x = some j) (hj : j < x) : Top ns x m j := by
  induction h with
  | base hm => exact .step (by omega) hf (.base hj)
  | step hk hmp _ ih => exact .step (by omega) hmp (ih hK hf hj)

theorem Top_step_iff (ns : List Node) (hp : ∀ j p, fpar ns j = some p → p < j) (k m j : Nat)
    (hj : j < k) :
    Top ns k m j ↔ Top ns (k + 1) m j ∨ (Top ns (k + 1) m k ∧ fpar ns k = some j) :=
  ⟨Top_split ns hp, fun h => match h with
    | .inl h => Top_left h hj
    | .inr ⟨h, hf⟩ => Top_right h rfl hf hj⟩

/-! ## the two families of sums -/

open Classical in
/-- sum of the deltas over the subtree of `i` -/
noncomputable def S (ns : List Node) (ds : List Int) (i : Nat) : Int :=
  sumTo ns.length (fun m => if Anc ns i m then ds.getD m 0 else 0)

open Classical in
/-- content of delta slot `j` once the indices `≥ k` are processed -/
noncomputable def T (ns : List Node) (ds : List Int) (k j : Nat) : Int :=
  sumTo ns.length (fun m => if Top ns k m j then ds.getD m 0 else 0)

theorem S_eq_subSum (ns : List Node) (ds : List Int) (hp : ∀ j p, fpar ns j = some p → p < j)
    (i : Nat) : S ns ds i = subSum ns ds i := by
  unfold S subSum
  rw [sum_filter_range]
  apply sumTo_congr
  intro m hm
  have := anc_iff_Anc ns hp i m (by omega)
  by_cases h : Anc ns i m
  · simp [h, this.2 h]
  · have : anc ns i m = false := by
      cases h' : anc ns i m with
      | false => rfl
      | true => exact absurd (this.1 h') h
    simp [h, this]

open Classical in
theorem T_self (ns : List Node) (ds : List Int) (hp : ∀ j p, fpar ns j = some p → p < j) (k : Nat) :
    T ns ds (k + 1) k = S ns ds k := by
  unfold T S
  apply sumTo_congr
  intro m _
  simp only [Top_succ_self_iff ns hp k m]

open Classical in
theorem T_init (ns : List Node) (ds : List Int) (j : Nat) (hj : j < ns.length) :
    T ns ds ns.length j = ds.getD j 0 := by
  unfold T
  rw [← sumTo_single ns.length j (fun m => ds.getD m 0) hj]
  apply sumTo_congr
  intro m hm
  have : Top ns ns.length m j ↔ m = j := by
    constructor
    · intro h
      cases h with
      | base _ => rfl
      | step hk _ _ => omega
    · intro h; subst h; exact .base hm
  simp only [this]

open Classical in
theorem T_step (ns : List Node) (ds : List Int) (hp : ∀ j p, fpar ns j = some p → p < j) (k j : Nat)
    (hj : j < k) :
    T ns ds k j = T ns ds (k + 1) j + (if fpar ns k = some j then T ns ds (k + 1) k else 0) := by
  by_cases hf : fpar ns k = some j
  · simp only [hf, if_true]
    unfold T
    rw [← sumTo_add]
    apply sumTo_congr
    intro m _
    have hiff := Top_step_iff ns hp k m j hj
    by_cases h1 : Top ns (k + 1) m j
    · have h2 : ¬ Top ns (k + 1) m k := fun h2 => by have := Top_fun h1 h2; omega
      simp [h1, h2, hiff.2 (.inl h1)]
    · by_cases h2 : Top ns (k + 1) m k
      · simp [h1, h2, hiff.2 (.inr ⟨h2, hf⟩)]
      · have : ¬ Top ns k m j := fun h => by
          rcases hiff.1 h with h | ⟨h, _⟩
          · exact h1 h
          · exact h2 h
        simp [h1, h2, this]
  · simp only [hf, if_false, Int.add_zero]
    unfold T
    apply sumTo_congr
    intro m _
    have hiff := Top_step_iff ns hp k m j hj
    have : Top ns k m j ↔ Top ns (k + 1) m j := by
      rw [hiff]; constructor
      · rintro (h | ⟨_, h⟩)
        · exact h
        · exact absurd h hf
      · exact .inl
    simp only [this]

/-! ## the loop -/

theorem fpar_of_hpar (ns : List Node)
    (hpar : ∀ (i : Nat) (n : Node) (p : Nat), ns[i]? = some n → n.fparent = some p → p < i) :
    ∀ j p, fpar ns j = some p → p < j := by
  intro j p h
  unfold fpar at h
  cases hn : ns[j]? with
  | none => simp [hn] at h
  | some n => simp [hn] at h; exact hpar j n p hn h

theorem pass1_inv (ns : List Node) (ds : List Int)
    (hp : ∀ j p, fpar ns j = some p → p < j) :
    ∀ (k : Nat) (nk : List Node) (dk : List Int), k ≤ ns.length → nk.length = ns.length →
      dk.length = ns.length →
      (∀ (j : Nat) (n : Node), ns[j]? = some n →
        nk[j]? = some (if k ≤ j then { n with weight := n.weight + S ns ds j } else n)) →
      (∀ j, j < k → dk[j]? = some (T ns ds k j)) →
      ∃ ns' ds', PA.pass1 0 k nk dk = some (ns', ds') ∧ ns'.length = ns.length ∧
        ∀ (i : Nat) (n : Node), ns[i]? = some n →
          ns'[i]? = some { n with weight := n.weight + S ns ds i } := by
  intro k
  induction k with
  | zero =>
    intro nk dk _ hnl _ hn _
    refine ⟨nk, dk, rfl, hnl, ?_⟩
    intro i n h
    simpa using hn i n h
  | succ k ih =>
    intro nk dk hk hnl hdl hn hd
    have hkN : k < ns.length := by omega
    obtain ⟨n0, hnsk⟩ : ∃ n0, ns[k]? = some n0 := ⟨_, List.getElem?_eq_getElem hkN⟩
    obtain ⟨ref, tp, fp, pr, jE, fE, w, bc, bd⟩ := n0
    have hnkk := hn k _ hnsk
    rw [if_neg (by omega)] at hnkk
    have hdkk : dk[k]? = some (S ns ds k) := by
      rw [hd k (by omega), T_self ns ds hp]
    have hfk : fpar ns k = fp := by simp [fpar, hnsk]
    -- the node list after the weight update satisfies the node part of the invariant at `k`
    have hn' : ∀ (j : Nat) (n : Node), ns[j]? = some n →
        (nk.set k ⟨ref, tp, fp, pr, jE, fE, w + S ns ds k, bc, bd⟩)[j]? =
          some (if k ≤ j then { n with weight := n.weight + S ns ds j } else n) := by
      intro j n hj
      rw [List.getElem?_set]
      by_cases hkj : k = j
      · subst hkj
        rw [hnsk] at hj; cases hj
        simp [hnl, hkN]
      · rw [if_neg hkj, hn j n hj]
        by_cases h1 : k + 1 ≤ j
        · have : k ≤ j := by omega
          simp [h1, this]
        · have : ¬ k ≤ j := by omega
          simp [h1, this]
    unfold PA.pass1
    simp only [hnkk, hdkk]
    cases fp with
    | none =>
      simp only []
      apply ih _ _ (by omega) (by simp [hnl]) hdl hn'
      intro j hj
      rw [hd j (by omega), T_step ns ds hp k j hj, hfk]
      simp
    | some p =>
      have hpk := hp k p hfk
      have hdp : dk[p]? = some (T ns ds (k + 1) p) := hd p (by omega)
      simp only [Nat.not_lt_zero, if_false, Nat.sub_zero, hdp]
      apply ih _ _ (by omega) (by simp [hnl]) (by simp [hdl]) hn'
      intro j hj
      rw [List.getElem?_set, T_step ns ds hp k j hj, hfk]
      by_cases hpj : p = j
      · subst hpj
        simp [hdl, T_self ns ds hp]
        omega
      · have : ¬ (some p = some j) := by simpa using hpj
        rw [if_neg hpj, if_neg this, hd j (by omega)]
        simp

/-- The first loop of ApplyScoreChanges propagates every delta to all fork-choice ancestors:
it never panics when parents have smaller indices, leaves everything but the weights alone, and adds to
each node's weight the sum of the deltas over its subtree. -/
theorem pass1_spec (ns : List Node) (ds : List Int) (hlen : ds.length = ns.length)
    (hpar : ∀ (i : Nat) (n : Node) (p : Nat), ns[i]? = some n → n.fparent = some p → p < i) :
    ∃ ns' ds', PA.pass1 0 ns.length ns ds = some (ns', ds') ∧ ns'.length = ns.length ∧
      ∀ (i : Nat) (n : Node), ns[i]? = some n →
        ns'[i]? = some { n with weight := n.weight + subSum ns ds i } := by
  have hp := fpar_of_hpar ns hpar
  have := pass1_inv ns ds hp ns.length ns ds (Nat.le_refl _) rfl hlen
    (by
      intro j n hj
      have : j < ns.length := by
        rcases Nat.lt_or_ge j ns.length with h | h
        · exact h
        · rw [List.getElem?_eq_none h] at hj; cases hj
      have : ¬ ns.length ≤ j := by omega
      simp [hj, this])
    (by
      intro j hj
      rw [T_init ns ds j hj, List.getD_eq_getElem?_getD, List.getElem?_eq_getElem (by omega)]
      simp)
  obtain ⟨ns', ds', h1, h2, h3⟩ := this
  refine ⟨ns', ds', h1, h2, ?_⟩
  intro i n hi
  rw [h3 i n hi, S_eq_subSum ns ds hp]

/-- non-vacuity of `pass1_spec`: a root with two children, the second of which has a child -/
example : ∃ (ns : List Node) (ds : List Int), ns.length = 4 ∧ ds.length = ns.length ∧
    (∀ (i : Nat) (n : Node) (p : Nat), ns[i]? = some n → n.fparent = some p → p < i) ∧
    subSum ns ds 0 = 10 ∧ subSum ns ds 2 = 7 := by
  let mk : Option Idx → Node := fun fp => ⟨⟨0, 0⟩, fp, fp, 0, 0, 0, 0, none, none⟩
  refine ⟨[mk none, mk (some 0), mk (some 0), mk (some 2)], [1, 2, 3, 4], rfl, rfl, ?_, by decide, by decide⟩
  intro i n p hi hf
  match i with
  | 0 => simp at hi; subst hi; simp [mk] at hf
  | 1 => simp at hi; subst hi; simp [mk] at hf; subst hf; omega
  | 2 => simp at hi; subst hi; simp [mk] at hf; subst hf; omega
  | 3 => simp at hi; subst hi; simp [mk] at hf; subst hf; omega
  | i + 4 => simp at hi

/-! ## `pass1` touches nothing but weights -/

theorem set_weight_skel (ns : List Node) (k : Nat) (n : Node) (w : Int) (hn : ns[k]? = some n) :
    ∀ i : Nat, ((ns.set k { n with weight := w })[i]?).map Node.skel = (ns[i]?).map Node.skel ∧
      ((ns.set k { n with weight := w })[i]?).map (fun x : Node => x.bestChild) =
        (ns[i]?).map (fun x : Node => x.bestChild) ∧
      ((ns.set k { n with weight := w })[i]?).map (fun x : Node => x.bestDesc) =
        (ns[i]?).map (fun x : Node => x.bestDesc) := by
  intro i
  rw [List.getElem?_set]
  by_cases hki : k = i
  · subst hki
    have hk : k < ns.length := by
      rcases Nat.lt_or_ge k ns.length with h | h
      · exact h
      · rw [List.getElem?_eq_none h] at hn; cases hn
    have hn' : ns[k] = n := by
      rw [List.getElem?_eq_getElem hk] at hn; exact Option.some.inj hn
    simp [hk, hn', Node.skel]
  · simp [hki]

theorem pass1_skel (offset k : Nat) (ns : List Node) (ds : List Int) (ns' : List Node) (ds' : List Int)
    (h : PA.pass1 offset k ns ds = some (ns', ds')) :
    ns'.length = ns.length ∧ ∀ i : Nat, (ns'[i]?).map Node.skel = (ns[i]?).map Node.skel ∧
      (ns'[i]?).map (·.bestChild) = (ns[i]?).map (·.bestChild) ∧ (ns'[i]?).map (·.bestDesc) = (ns[i]?).map (·.bestDesc) := by
  induction k generalizing ns ds with
  | zero =>
    simp only [PA.pass1, Option.some.injEq, Prod.mk.injEq] at h
    obtain ⟨rfl, rfl⟩ := h
    simp
  | succ k ih =>
    unfold PA.pass1 at h
    split at h
    · rename_i n d hn hd
      have key := set_weight_skel ns k n (n.weight + d) hn
      have fin : ∀ ds1, PA.pass1 offset k (ns.set k { n with weight := n.weight + d }) ds1 = some (ns', ds') →
          ns'.length = ns.length ∧ ∀ i : Nat, (ns'[i]?).map Node.skel = (ns[i]?).map Node.skel ∧
            (ns'[i]?).map (·.bestChild) = (ns[i]?).map (·.bestChild) ∧
            (ns'[i]?).map (·.bestDesc) = (ns[i]?).map (·.bestDesc) := by
        intro ds1 h1
        obtain ⟨hl, hi⟩ := ih _ _ h1
        refine ⟨by rw [hl, List.length_set], fun i => ?_⟩
        obtain ⟨a, b, c⟩ := hi i
        obtain ⟨a', b', c'⟩ := key i
        exact ⟨a.trans a', b.trans b', c.trans c'⟩
      split at h
      · exact fin _ h
      · split at h
        · cases h
        · split at h
          · cases h
          · exact fin _ h
    · cases h

/-- non-vacuity of `pass1_skel`: the loop succeeds on a two-node chain -/
example : ∃ ns ds ns' ds', PA.pass1 0 2 ns ds = some (ns', ds') :=
  ⟨[⟨⟨0, 0⟩, none, none, 0, 0, 0, 0, none, none⟩, ⟨⟨1, 1⟩, some 0, some 0, 0, 0, 0, 0, none, none⟩],
    [1, 2], _, _, rfl⟩

end Zrnt.ForkChoice
