import Proofs.Lemmas.ForkChoiceOps
/-! Exported methods of the wrapper on a well-formed instance, and the structure invariant over all operation
sequences (`inv_structure`). -/
namespace Zrnt.ForkChoice
open FC

/-- outcome of a method body (lock held): returned, and the array is well formed -/
def SafeB {α : Type} (r : Out FC α) : Prop :=
  match r with
  | .ok s _ => WF s.pa
  | .err s => WF s.pa
  | .panic => False
  | .blocked => False

/-- outcome of an exported method: as `SafeB`, and the mutex is free again -/
def Safe {α : Type} (r : Out FC α) : Prop :=
  match r with
  | .ok s _ => s.held = false ∧ WF s.pa
  | .err s => s.held = false ∧ WF s.pa
  | .panic => False
  | .blocked => False

theorem safe_withLock {α : Type} (fc : FC) (hh : fc.held = false) (body : FC → Out FC α)
    (hb : SafeB (body { fc with held := true })) : Safe (fc.withLock body) := by
  unfold withLock
  simp only [hh, Bool.false_eq_true, if_false]
  revert hb
  cases body { fc with held := true } <;> simp [SafeB, Safe]

theorem safeB_liftPA {α : Type} (fc : FC) (r : POut PA α) (hg : Good fc.pa r) : SafeB (fc.liftPA r) := by
  unfold liftPA
  cases r with
  | ok s a => exact hg.1
  | err s => exact hg.1
  | panic => exact hg.elim
  | spin => exact hg.elim

theorem updateVotesMaybe_wf (fc : FC) (h : WF fc.pa) :
    (∃ fc', fc.updateVotesMaybe = .ok fc' () ∧ WF fc'.pa ∧ FrameS fc.pa fc'.pa) ∨
    (∃ fc', fc.updateVotesMaybe = .err fc' ∧ WF fc'.pa ∧ FrameS fc.pa fc'.pa) := by
  unfold updateVotesMaybe
  split
  · exact Or.inl ⟨fc, rfl, h, FrameS.refl _⟩
  · obtain ⟨ds, vs', e, hl, _⟩ := computeDeltas_ok fc.pa h fc.votes fc.balances fc.balances
    rw [e]
    simp only
    obtain ⟨pr', e2, hw, _, _, _, hf⟩ := wf_applyScoreChanges fc.pa h ds hl fc.justified.epoch fc.finalized.epoch
    rw [e2]
    exact Or.inl ⟨_, rfl, hw, hf⟩

theorem safeB_afterVotes {α : Type} (fc : FC) (h : WF fc.pa) (f : PA → POut PA α)
    (hf : ∀ pr, WF pr → Good pr (f pr)) : SafeB (fc.afterVotes f) := by
  unfold afterVotes
  rcases updateVotesMaybe_wf fc h with ⟨fc', e, hw, _⟩ | ⟨fc', e, hw, _⟩
  · rw [e]; exact safeB_liftPA fc' _ (hf _ hw)
  · rw [e]; exact hw

/-- a body outcome that keeps the array well formed unconditionally -/
def KeepsWF (r : Out FC Unit) : Prop :=
  match r with
  | .ok s _ => WF s.pa
  | .err s => WF s.pa
  | .panic => False
  | .blocked => False

theorem checkCp_wf (fc : FC) (h : WF fc.pa) (changed : Bool) (cp : Checkpoint) (k : FC → Out FC Unit)
    (hk : ∀ fc', WF fc'.pa → KeepsWF (k fc')) : KeepsWF (fc.checkCp changed cp k) := by
  unfold checkCp
  split
  · obtain ⟨pr', res, e, hw, _⟩ := inSubtree_wf fc.pa h fc.finalized.root cp.root
    rw [e]
    obtain ⟨u, i⟩ := res
    simp only
    split
    · exact hw
    · split
      · exact hw
      · exact hk _ hw
  · exact hk fc h

theorem inner_wf (fc : FC) (h : WF fc.pa) (f j : Checkpoint) (b : Option (List Nat)) :
    KeepsWF (fc.updateJustifiedInner f j b) := by
  unfold updateJustifiedInner
  split
  · exact h
  · apply checkCp_wf fc h
    intro fc1 h1
    apply checkCp_wf fc1 h1
    intro fc2 h2
    cases b with
    | none => exact h2
    | some newBals =>
      simp only
      obtain ⟨ds, vs', e, hl, _⟩ := computeDeltas_ok fc2.pa h2 fc2.votes fc2.balances newBals
      rw [e]
      simp only
      obtain ⟨pr', e2, hw, _⟩ := wf_applyScoreChanges fc2.pa h2 ds hl j.epoch f.epoch
      rw [e2]
      exact hw

theorem safeB_updateJustifiedBody (fc : FC) (h : WF fc.pa) (t : Root) (j f : Checkpoint) (b : Option (List Nat))
    (hq : f = fc.finalized) :
    SafeB (
      if fc.justified.epoch ≥ j.epoch && fc.finalized.epoch ≥ f.epoch then Out.ok fc () else
      let afterPin (fc : FC) : Out FC Unit :=
        let prevFinalized := fc.finalized
        match fc.updateJustifiedInner f j b with
        | .panic => .panic
        | .blocked => .blocked
        | .err fc => .err fc
        | .ok fc _ =>
          if prevFinalized ≠ f then
            let fc := { fc with pin := none }
            match fc.pa.onPrune f.root (f.epoch * fc.spe) with
            | .panic => .panic
            | .spin => .blocked
            | .err pa => .err { fc with pa := pa }
            | .ok pa _ => .ok { fc with pa := pa } ()
          else .ok fc ()
      match fc.pin with
      | some pin =>
        if t ≠ pin.root then
          match fc.pa.inSubtree pin.root t with
          | .panic => .panic
          | .spin => .blocked
          | .err pa => .err { fc with pa := pa }
          | .ok pa (unknown, inS) =>
            let fc := { fc with pa := pa }
            if unknown then .err fc else if !inS then .err fc else afterPin fc
        else afterPin fc
      | none => afterPin fc) := by
  split
  · exact h
  · simp only
    have hafter : ∀ fc1 : FC, WF fc1.pa → fc1.finalized = f → SafeB (
        match fc1.updateJustifiedInner f j b with
        | .panic => .panic
        | .blocked => .blocked
        | .err fc => .err fc
        | .ok fc _ =>
          if fc1.finalized ≠ f then
            match ({ fc with pin := none } : FC).pa.onPrune f.root (f.epoch * ({ fc with pin := none } : FC).spe) with
            | .panic => .panic
            | .spin => .blocked
            | .err pa => .err { ({ fc with pin := none } : FC) with pa := pa }
            | .ok pa _ => .ok { ({ fc with pin := none } : FC) with pa := pa } ()
          else .ok fc ()) := by
      intro fc1 h1 hf1
      have hi := inner_wf fc1 h1 f j b
      cases he : fc1.updateJustifiedInner f j b with
      | panic => rw [he] at hi; exact hi.elim
      | blocked => rw [he] at hi; exact hi.elim
      | err s => rw [he] at hi; exact hi
      | ok s u =>
        rw [he] at hi
        simp only [hf1, ne_eq, not_true_eq_false, if_false]
        exact hi
    cases hpin : fc.pin with
    | none => exact hafter fc h hq.symm
    | some pin =>
      simp only
      split
      · obtain ⟨pr', res, e, hw, _⟩ := inSubtree_wf fc.pa h pin.root t
        rw [e]
        obtain ⟨u, i⟩ := res
        simp only
        split
        · exact hw
        · split
          · exact hw
          · exact hafter _ hw hq.symm
      · exact hafter fc h hq.symm

theorem safe_updateJustified (fc : FC) (hh : fc.held = false) (h : WF fc.pa) (t : Root) (j f : Checkpoint)
    (b : Option (List Nat)) (hq : f = fc.finalized) : Safe (fc.updateJustified t j f b) := by
  unfold updateJustified
  apply safe_withLock fc hh
  exact safeB_updateJustifiedBody { fc with held := true } h t j f b hq

theorem safe_setPin (fc : FC) (hh : fc.held = false) (h : WF fc.pa) (r : Root) (s : Nat) : Safe (fc.setPin r s) := by
  unfold setPin
  apply safe_withLock fc hh
  unfold setPinBody
  repeat' split
  all_goals exact h

theorem safe_processAttestation (fc : FC) (hh : fc.held = false) (h : WF fc.pa) (v : Nat) (r : Root) (s : Nat) :
    Safe (fc.processAttestation v r s) := by
  unfold processAttestation
  apply safe_withLock fc hh
  simp only
  repeat' split
  all_goals exact h

theorem safe_processSlot (fc : FC) (hh : fc.held = false) (h : WF fc.pa) (p : Root) (s j f : Nat) :
    Safe (fc.processSlot p s j f) := by
  unfold FC.processSlot
  apply safe_withLock fc hh
  exact wf_processSlot fc.pa h p s j f

theorem safe_processBlock (fc : FC) (hh : fc.held = false) (h : WF fc.pa) (p r : Root) (s j f : Nat) :
    Safe (fc.processBlock p r s j f) := by
  unfold FC.processBlock
  apply safe_withLock fc hh
  obtain ⟨pr', b, e, hw⟩ := wf_processBlock fc.pa h p r s j f
  simp only
  rw [e]
  exact hw

theorem safe_canonicalChain (fc : FC) (hh : fc.held = false) (h : WF fc.pa) (r : Root) (s : Nat) :
    Safe (fc.canonicalChain r s) := by
  unfold FC.canonicalChain
  apply safe_withLock fc hh
  exact safeB_afterVotes { fc with held := true } h _ (fun pr hw => good_canonicalChain pr hw r s)

theorem safe_inSubtree (fc : FC) (hh : fc.held = false) (h : WF fc.pa) (a r : Root) : Safe (fc.inSubtree a r) := by
  unfold FC.inSubtree
  apply safe_withLock fc hh
  exact safeB_liftPA _ _ (good_inSubtree fc.pa h a r)

theorem safe_search (fc : FC) (hh : fc.held = false) (h : WF fc.pa) (a : NodeRef) (p : Option Root) (s : Option Nat) :
    Safe (fc.search a p s) := by
  unfold FC.search
  apply safe_withLock fc hh
  exact safeB_afterVotes { fc with held := true } h _ (fun pr hw => good_search pr hw a p s)

theorem safe_closestToSlot (fc : FC) (hh : fc.held = false) (h : WF fc.pa) (a : Root) (s : Nat) :
    Safe (fc.closestToSlot a s) := by
  unfold FC.closestToSlot
  apply safe_withLock fc hh
  simp only
  split <;> exact h

theorem safe_canonAtSlot (fc : FC) (hh : fc.held = false) (h : WF fc.pa) (a : Root) (s : Nat) (w : Bool) :
    Safe (fc.canonAtSlot a s w) := by
  unfold FC.canonAtSlot
  apply safe_withLock fc hh
  exact safeB_afterVotes { fc with held := true } h _ (fun pr hw => good_canonAtSlot pr hw a s w)

theorem safe_getSlot (fc : FC) (hh : fc.held = false) (h : WF fc.pa) (r : Root) : Safe (fc.getSlot r) := by
  unfold FC.getSlot
  apply safe_withLock fc hh
  exact h

theorem safe_findHead (fc : FC) (hh : fc.held = false) (h : WF fc.pa) (r : Root) (s : Nat) : Safe (fc.findHead r s) := by
  unfold FC.findHead
  apply safe_withLock fc hh
  exact safeB_afterVotes { fc with held := true } h _ (fun pr hw => good_findHead pr hw r s)

theorem safe_head (fc : FC) (hh : fc.held = false) (h : WF fc.pa) : Safe fc.head := by
  unfold FC.head
  apply safe_withLock fc hh
  rcases updateVotesMaybe_wf { fc with held := true } h with ⟨fc', e, hw, _⟩ | ⟨fc', e, hw, _⟩
  · rw [e]
    simp only
    split
    · exact safeB_liftPA _ _ (good_findHead _ hw _ _)
    · exact safeB_liftPA _ _ (good_findHead _ hw _ _)
  · rw [e]; exact hw

/-- the outcome's state has the same mutex flag -/
def HeldSame (fc : FC) (r : Out FC Unit) : Prop :=
  match r with
  | .ok s _ => s.held = fc.held
  | .err s => s.held = fc.held
  | _ => True

/-- `updateJustified` (inner) never touches the mutex flag -/
theorem inner_held (fc : FC) (f j : Checkpoint) (b : Option (List Nat)) :
    HeldSame fc (fc.updateJustifiedInner f j b) := by
  unfold updateJustifiedInner checkCp
  simp only
  repeat' split
  all_goals simp [HeldSame]

theorem setPin_eq (fc : FC) (hh : fc.held = false) (r : Root) (s : Nat) :
    fc.setPin r s = .ok { fc with pin := some ⟨s, r⟩ } () ∨ fc.setPin r s = .err fc := by
  unfold FC.setPin FC.withLock FC.setPinBody
  simp only [hh, Bool.false_eq_true, if_false]
  cases fc
  simp only at hh
  subst hh
  simp only
  cases PA.closestToSlot _ r s with
  | none => right; rfl
  | some c =>
    simp only
    by_cases hc : c.slot < s
    · simp [hc]
    · simp [hc]

/-- outcome of the constructor: a well-formed instance with the mutex free, or an error -/
def NewOK (r : Out FC Unit) : Prop :=
  match r with
  | .ok fc _ => fc.held = false ∧ WF fc.pa
  | .err _ => True
  | .panic => False
  | .blocked => False

theorem newTail_wf (fc0 : FC) (hh0 : fc0.held = false) (hw0 : WF fc0.pa) (f j : Checkpoint) (ar : Root) (aslot : Nat)
    (bals : List Nat) :
    NewOK (match fc0.setPin ar aslot with
      | .ok fc _ => fc.updateJustifiedInner f j (some bals)
      | .err fc => .err fc
      | .panic => .panic
      | .blocked => .blocked) := by
  rcases setPin_eq fc0 hh0 ar aslot with e | e
  · rw [e]
    simp only
    have hi := inner_wf { fc0 with pin := some ⟨aslot, ar⟩ } hw0 f j (some bals)
    have hheld := inner_held { fc0 with pin := some ⟨aslot, ar⟩ } f j (some bals)
    cases he : FC.updateJustifiedInner { fc0 with pin := some ⟨aslot, ar⟩ } f j (some bals) with
    | panic => rw [he] at hi; exact hi.elim
    | blocked => rw [he] at hi; exact hi.elim
    | err s2 => trivial
    | ok s2 u2 =>
      rw [he] at hi hheld
      exact ⟨by rw [show s2.held = _ from hheld]; exact hh0, hi⟩
  · rw [e]; trivial

/-- `NewProtoForkChoice`: success gives a well-formed instance with the mutex free; it never panics or blocks -/
theorem new_wf (spe : Nat) (f j : Checkpoint) (ar : Root) (aslot : Nat) (ap : Root) (bals : List Nat) (sink : SinkKind) :
    NewOK (FC.new spe f j ar aslot ap bals sink) := by
  unfold FC.new
  exact newTail_wf _ rfl (wf_new ap ar aslot j.epoch f.epoch sink) f j ar aslot bals

/-! ## the machine: invariant over every operation sequence -/

/-- invariant of the harness machine: a live instance has its mutex free and a well-formed array; the machine is
never `dead` (no call panicked or blocked) -/
def MInv : MState → Prop
  | .none => True
  | .live fc => fc.held = false ∧ WF fc.pa
  | .dead => False

/-- the step does not move the finalized checkpoint (so `OnPrune` is not called) -/
def StepQuiet (st : MState) (op : Op) : Prop :=
  match op, st with
  | .justify _ _ f _, .live fc => f = fc.finalized
  | _, _ => True

/-- no step of the history moves the finalized checkpoint -/
def Quiet : MState → List Op → Prop
  | _, [] => True
  | st, op :: ops => StepQuiet st op ∧ Quiet (step st op).1 ops

theorem finish_inv {α : Type} (r : Out FC α) (f : α → Ans) (hs : Safe r) : MInv (finish r f).1 := by
  unfold finish
  cases r with
  | ok s a => exact hs
  | err s => exact hs
  | panic => exact hs.elim
  | blocked => exact hs.elim

theorem stepLive_inv (fc : FC) (hh : fc.held = false) (h : WF fc.pa) (op : Op) (hq : StepQuiet (.live fc) op) :
    MInv (stepLive fc op).1 := by
  cases op with
  | init => exact ⟨hh, h⟩
  | slot p s j f => exact finish_inv _ _ (safe_processSlot fc hh h p s j f)
  | block p r s j f => exact finish_inv _ _ (safe_processBlock fc hh h p r s j f)
  | att v r s => exact finish_inv _ _ (safe_processAttestation fc hh h v r s)
  | justify t j f b =>
    have hs := safe_updateJustified { fc with pa := { fc.pa with sinkLog := [] } } hh (wf_sinkLog h []) t j f b hq
    unfold stepLive
    simp only
    cases he : FC.updateJustified { fc with pa := { fc.pa with sinkLog := [] } } t j f b with
    | ok s a => rw [he] at hs; exact hs
    | err s => rw [he] at hs; exact hs
    | panic => rw [he] at hs; exact hs.elim
    | blocked => rw [he] at hs; exact hs.elim
  | pin r s => exact finish_inv _ _ (safe_setPin fc hh h r s)
  | head => exact finish_inv _ _ (safe_head fc hh h)
  | findHead r s => exact finish_inv _ _ (safe_findHead fc hh h r s)
  | chain r s => exact finish_inv _ _ (safe_canonicalChain fc hh h r s)
  | closest r s => exact finish_inv _ _ (safe_closestToSlot fc hh h r s)
  | canonAt r s w => exact finish_inv _ _ (safe_canonAtSlot fc hh h r s w)
  | getSlot r => exact finish_inv _ _ (safe_getSlot fc hh h r)
  | inSub a r => exact finish_inv _ _ (safe_inSubtree fc hh h a r)
  | search a p s => exact finish_inv _ _ (safe_search fc hh h a p s)
  | just => exact ⟨hh, h⟩
  | fin => exact ⟨hh, h⟩
  | pinq => exact ⟨hh, h⟩
  | nodes => exact ⟨hh, h⟩

theorem step_inv (st : MState) (h : MInv st) (op : Op) (hq : StepQuiet st op) : MInv (step st op).1 := by
  cases op with
  | init spe ar aslot ap j f sink bals =>
    have hn := new_wf spe f j ar aslot ap bals sink
    unfold step
    simp only
    cases he : FC.new spe f j ar aslot ap bals sink with
    | ok fc u => rw [he] at hn; exact hn
    | err s => trivial
    | panic => rw [he] at hn; exact hn.elim
    | blocked => rw [he] at hn; exact hn.elim
  | _ =>
    cases st with
    | none => trivial
    | dead => exact h.elim
    | live fc => exact stepLive_inv fc h.1 h.2 _ hq

theorem run_cons (st : MState) (op : Op) (ops : List Op) :
    (run st (op :: ops)).1 = (run (step st op).1 ops).1 := by
  simp [run]

/-- **Structure invariant over all operation sequences that do not move the finalized checkpoint** (malformed
insertions included): a live instance has a well-formed node array and a free mutex, and no call has panicked,
blocked or looped. (With pruning: `inv_structure` in ForkChoiceInv2/3, for well-placed insertions.) -/
theorem inv_structure_quiet : ∀ (ops : List Op) (st : MState), MInv st → Quiet st ops → MInv (run st ops).1 := by
  intro ops
  induction ops with
  | nil => intro st h _; simpa [run] using h
  | cons op rest ih =>
    intro st h hq
    rw [run_cons]
    exact ih _ (step_inv st h op hq.1) hq.2

/-- C10 (part): on an instance whose array is well formed (nothing pruned yet) `UpdateJustified` returns: it does
not block on the mutex and does not loop. -/
theorem updateJustified_returns_wf (fc : FC) (hh : fc.held = false) (h : WF fc.pa) (t : Root) (j f : Checkpoint)
    (b : Option (List Nat)) (hq : f = fc.finalized) :
    fc.updateJustified t j f b ≠ .blocked ∧ fc.updateJustified t j f b ≠ .panic := by
  have hs := safe_updateJustified fc hh h t j f b hq
  constructor <;> (intro he; rw [he] at hs; exact hs.elim)

end Zrnt.ForkChoice
