import Proofs.Lemmas.SSZMerkle
import Proofs.Lemmas.SSZCodec
/-! `htr` (executable, level-by-level merkleization) equals `htrSpec` (the same recursion with the
specification's literal `merkleize`: pad to the next power of two with zero chunks) on well-typed values. -/
namespace Zrnt.Proofs.SSZ
open Zrnt.SSZ

mutual
/-- `hash_tree_root` read literally from simple-serialize.md (uses `merkleizeSpec`) -/
def htrSpec (H : Hash2) : Ty → Val → Chunk
  | .uint k, .num n => padTo32 (natToLE k n)
  | .bool, .bool b => padTo32 [if b then 1 else 0]
  | .bytesN n, .bytes bs => merkleizeSpec H (pack bs) (ceilLog2 (chunkCount n 1))
  | .vector t n, .seq vs =>
    if t.isBasic then merkleizeSpec H (pack (vs.map (encode t)).flatten) (ceilLog2 (chunkCount n t.fixedLen))
    else merkleizeSpec H (vs.map (htrSpec H t)) (ceilLog2 n)
  | .list t lim, .seq vs =>
    mixInLength H
      (if t.isBasic then merkleizeSpec H (pack (vs.map (encode t)).flatten) (ceilLog2 (chunkCount lim t.fixedLen))
       else merkleizeSpec H (vs.map (htrSpec H t)) (ceilLog2 lim))
      vs.length
  | .bitvector n, .bits bs =>
    merkleizeSpec H (pack (natToLE ((n + 7) / 8) (bitsToNat bs))) (ceilLog2 ((n + 255) / 256))
  | .bitlist lim, .bits bs =>
    mixInLength H (merkleizeSpec H (pack (natToLE ((bs.length + 7) / 8) (bitsToNat bs))) (ceilLog2 ((lim + 255) / 256)))
      bs.length
  | .byteList lim, .bytes bs => mixInLength H (merkleizeSpec H (pack bs) (ceilLog2 (chunkCount lim 1))) bs.length
  | .container fs, .seq vs => merkleizeSpec H (htrSpecFields H fs vs) (ceilLog2 fs.length)
  | _, _ => zeroChunk
def htrSpecFields (H : Hash2) : Fields → List Val → List Chunk
  | .cons _ t r, v :: vs => htrSpec H t v :: htrSpecFields H r vs
  | _, _ => []
end

theorem le_two_pow_ceilLog2 (n : Nat) : n ≤ 2 ^ ceilLog2 n := by
  unfold ceilLog2
  split
  · rename_i h; simp; omega
  · have := @Nat.lt_log2_self (n - 1)
    omega

theorem packN_length (n : Nat) (bs : Bytes) : (packN n bs).length = n := by
  induction n generalizing bs with
  | zero => rfl
  | succ n ih => simp [packN, ih]

theorem pack_length (bs : Bytes) : (pack bs).length = (bs.length + 31) / 32 := packN_length _ _

theorem two_pow_mono {a b : Nat} (h : a ≤ b) : a ≤ 2 ^ ceilLog2 b := Nat.le_trans h (le_two_pow_ceilLog2 b)

theorem basic_fixed (t : Ty) (h : t.isBasic = true) : t.fixedLen? = some t.fixedLen := by
  cases t <;> simp [Ty.isBasic] at h <;> simp [Ty.fixedLen, Ty.fixedLen?]

theorem flatten_encode_length (t : Ty) (vs : List Val) (hb : t.isBasic = true) (hw : ∀ v ∈ vs, WF t v) :
    (vs.map (encode t)).flatten.length = vs.length * t.fixedLen := by
  have := flatten_length_const (s := t.fixedLen) (ps := vs.map (encode t)) (by
    intro p hp
    obtain ⟨v, hv, rfl⟩ := List.mem_map.mp hp
    exact encode_fixed t v _ (basic_fixed t hb) (hw v hv))
  simpa using this

theorem htrFields_length (H : Hash2) : ∀ (fs : Fields) (vs : List Val), WFFields fs vs →
    (htrFields H fs vs).length = fs.length
  | .nil, vs, h => by cases vs <;> simp_all [WFFields, htrFields, Fields.length]
  | .cons _ t r, vs, h => by
    cases vs with
    | nil => simp [WFFields] at h
    | cons v vs =>
      simp only [WFFields] at h
      simp [htrFields, Fields.length, htrFields_length H r vs h.2]

theorem map_congr_mem {f g : Val → Chunk} (vs : List Val) (h : ∀ v ∈ vs, f v = g v) : vs.map f = vs.map g :=
  List.map_congr_left h

mutual
theorem htr_eq_htrSpec (H : Hash2) : ∀ (t : Ty) (v : Val), WF t v → htr H t v = htrSpec H t v
  | .uint _, v, hw => by cases v <;> simp only [WF] at hw; simp [htr, htrSpec]
  | .bool, v, hw => by cases v <;> simp only [WF] at hw; simp [htr, htrSpec]
  | .bytesN n, v, hw => by
    cases v <;> simp only [WF] at hw
    simp only [htr, htrSpec]
    exact merkleize_eq_merkleizeSpec H _ _ (by rw [pack_length, hw]; exact two_pow_mono (by simp [chunkCount]))
  | .vector t n, v, hw => by
    cases v <;> simp only [WF] at hw
    rename_i vs
    simp only [htr, htrSpec]
    split
    · rename_i hb
      exact merkleize_eq_merkleizeSpec H _ _ (by
        rw [pack_length, flatten_encode_length t vs hb hw.2, hw.1]; exact two_pow_mono (by simp [chunkCount]))
    · rw [map_congr_mem vs (fun v hv => htr_eq_htrSpec H t v (hw.2 v hv))]
      exact merkleize_eq_merkleizeSpec H _ _ (by simp [hw.1]; exact le_two_pow_ceilLog2 n)
  | .list t lim, v, hw => by
    cases v <;> simp only [WF] at hw
    rename_i vs
    simp only [htr, htrSpec]
    congr 1
    split
    · rename_i hb
      exact merkleize_eq_merkleizeSpec H _ _ (by
        rw [pack_length, flatten_encode_length t vs hb hw.2]
        apply two_pow_mono
        unfold chunkCount
        apply Nat.div_le_div_right
        have := Nat.mul_le_mul_right t.fixedLen hw.1
        omega)
    · rw [map_congr_mem vs (fun v hv => htr_eq_htrSpec H t v (hw.2 v hv))]
      exact merkleize_eq_merkleizeSpec H _ _ (by simp; exact two_pow_mono hw.1)
  | .bitvector n, v, hw => by
    cases v <;> simp only [WF] at hw
    simp only [htr, htrSpec]
    exact merkleize_eq_merkleizeSpec H _ _ (by rw [pack_length, natToLE_length]; apply two_pow_mono; omega)
  | .bitlist lim, v, hw => by
    cases v <;> simp only [WF] at hw
    simp only [htr, htrSpec]
    congr 1
    exact merkleize_eq_merkleizeSpec H _ _ (by rw [pack_length, natToLE_length]; apply two_pow_mono; omega)
  | .byteList lim, v, hw => by
    cases v <;> simp only [WF] at hw
    simp only [htr, htrSpec]
    congr 1
    exact merkleize_eq_merkleizeSpec H _ _ (by rw [pack_length]; apply two_pow_mono; simp [chunkCount]; omega)
  | .container fs, v, hw => by
    cases v <;> simp only [WF] at hw
    rename_i vs
    simp only [htr, htrSpec]
    rw [← htrFields_eq_htrSpecFields H fs vs hw]
    exact merkleize_eq_merkleizeSpec H _ _ (by rw [htrFields_length H fs vs hw]; exact le_two_pow_ceilLog2 _)
theorem htrFields_eq_htrSpecFields (H : Hash2) : ∀ (fs : Fields) (vs : List Val), WFFields fs vs →
    htrFields H fs vs = htrSpecFields H fs vs
  | .nil, vs, h => by cases vs <;> simp_all [WFFields, htrFields, htrSpecFields]
  | .cons _ t r, vs, h => by
    cases vs with
    | nil => simp [WFFields] at h
    | cons v vs =>
      simp only [WFFields] at h
      simp [htrFields, htrSpecFields, htr_eq_htrSpec H t v h.1, htrFields_eq_htrSpecFields H r vs h.2]
end

end Zrnt.Proofs.SSZ
