import Zrnt.Conc.Monitor
/-!
Helper lemmas for C17: the invariant of well-formed monitor systems (a forward simulation of the concurrent
semantics by the atomic specification, linearizing every call at its lock acquisition) and its preservation.
-/
namespace Zrnt.Conc.Monitor
variable {σ ℓ : Type}

@[simp] theorem runActs_nil (p : σ × ℓ) : runActs ([] : Code σ ℓ) p = p := rfl
@[simp] theorem runActs_act (a : Act σ ℓ) (rest : Code σ ℓ) (p : σ × ℓ) :
    runActs (.act a :: rest) p = runActs rest (a.run p.1 p.2) := rfl
@[simp] theorem runActs_acq (m : Mode) (rest : Code σ ℓ) (p : σ × ℓ) : runActs (.acq m :: rest) p = runActs rest p := rfl
@[simp] theorem runActs_rel (rest : Code σ ℓ) (p : σ × ℓ) : runActs (.rel :: rest) p = runActs rest p := rfl

/-- a body without writes leaves the shared state alone -/
theorem runActs_pure (body : List (Act σ ℓ)) (hw : ∀ a ∈ body, a.write = false) (hh : ∀ a ∈ body, a.honest)
    (s : σ) (l : ℓ) : (runActs (body.map .act ++ [.rel]) (s, l)).1 = s := by
  induction body generalizing l with
  | nil => simp
  | cons a body ih =>
    simp only [List.map_cons, List.cons_append, runActs_act]
    have h1 : (a.run s l).1 = s := hh a (by simp) (hw a (by simp)) s l
    have := ih (fun b hb => hw b (by simp [hb])) (fun b hb => hh b (by simp [hb])) (a.run s l).2
    have h2 : a.run s l = (s, (a.run s l).2) := Prod.ext h1 rfl
    rw [h2]
    exact this

theorem seqExec_append (o : List Nat) (i : Nat) (p : σ × (Nat → Thread σ ℓ)) :
    seqExec (o ++ [i]) p = execAtomic (seqExec o p) i := by
  simp [seqExec, List.foldl_append]

theorem execAtomic_other (p : σ × (Nat → Thread σ ℓ)) {i j : Nat} (h : j ≠ i) : (execAtomic p i).2 j = p.2 j := by
  simp [execAtomic, upd_other _ _ h]

/-- threads that are not in the order are not touched by the sequential execution -/
theorem seqExec_other (o : List Nat) (p : σ × (Nat → Thread σ ℓ)) (j : Nat) (h : j ∉ o) : (seqExec o p).2 j = p.2 j := by
  induction o generalizing p with
  | nil => rfl
  | cons i o ih =>
    simp only [List.mem_cons, not_or] at h
    show (seqExec o (execAtomic p i)).2 j = p.2 j
    rw [ih _ h.2, execAtomic_other _ h.1]

/-- The invariant of a well-formed system started from `(s0, sys)`. `A := seqExec c.order (s0, sys)` is the
state of the atomic specification after linearizing, in acquisition order, every call that has acquired. -/
structure Inv (s0 : σ) (sys : Nat → Thread σ ℓ) (c : Config σ ℓ) : Prop where
  wf : ∀ i, WellFormed (sys i).code
  nodup : c.order.Nodup
  rnodup : c.lock.readers.Nodup
  excl : ∀ w, c.lock.writer = some w → c.lock.readers = []
  /-- a thread that has not acquired yet is untouched and holds nothing -/
  fresh : ∀ i, i ∉ c.order → c.ths i = sys i ∧ ¬ c.lock.holds i
  /-- a thread that has acquired and no longer holds is finished -/
  idle : ∀ i, i ∈ c.order → ¬ c.lock.holds i → (c.ths i).code = []
  /-- a holder is inside its one critical section -/
  shape : ∀ i, c.lock.holds i → ∃ body, (c.ths i).code = body.map .act ++ [.rel] ∧
            BodyOk (if c.lock.writer = some i then .w else .r) body
  /-- the result the specification gave to an acquired call is what the rest of its code will compute -/
  absLoc : ∀ i, i ∈ c.order → ((seqExec c.order (s0, sys)).2 i).loc = (runActs (c.ths i).code (c.sh, (c.ths i).loc)).2
  /-- the specification's shared state is the concrete one after the holding writer (if any) finishes -/
  absSh : (seqExec c.order (s0, sys)).1 =
            match c.lock.writer with
            | some w => (runActs (c.ths w).code (c.sh, (c.ths w).loc)).1
            | none => c.sh

theorem Inv.init (s0 : σ) (sys : Nat → Thread σ ℓ) (wf : ∀ i, WellFormed (sys i).code) : Inv s0 sys (init s0 sys) where
  wf := wf
  nodup := by simp [Monitor.init]
  rnodup := by simp [Monitor.init, Lock.free]
  excl := by simp [Monitor.init, Lock.free]
  fresh := by intro i _; simp [Monitor.init, Lock.free, Lock.holds]
  idle := by intro i h; simp [Monitor.init] at h
  shape := by intro i h; simp [Monitor.init, Lock.free, Lock.holds] at h
  absLoc := by intro i h; simp [Monitor.init] at h
  absSh := by simp [Monitor.init, Lock.free, seqExec]

theorem Inv.holds_mem {s0 : σ} {sys : Nat → Thread σ ℓ} {c : Config σ ℓ} (I : Inv s0 sys c) {i : Nat}
    (h : c.lock.holds i) : i ∈ c.order := by
  apply Classical.byContradiction
  intro hn
  exact (I.fresh i hn).2 h

/-- the next instruction of a thread that holds the lock is an access or the release, and a thread whose
next instruction is an access or a release holds the lock -/
theorem Inv.head_cases {s0 : σ} {sys : Nat → Thread σ ℓ} {c : Config σ ℓ} (I : Inv s0 sys c) (i : Nat) :
    ((c.ths i).code = []) ∨
    (i ∉ c.order ∧ ∃ m body, (c.ths i).code = .acq m :: (body.map .act ++ [.rel]) ∧ BodyOk m body) ∨
    (c.lock.holds i ∧ ∃ body, (c.ths i).code = body.map .act ++ [.rel] ∧
        BodyOk (if c.lock.writer = some i then .w else .r) body) := by
  by_cases ho : i ∈ c.order
  · by_cases hh : c.lock.holds i
    · exact .inr (.inr ⟨hh, I.shape i hh⟩)
    · exact .inl (I.idle i ho hh)
  · have h1 := (I.fresh i ho).1
    rcases I.wf i with h | ⟨m, body, h, hb⟩
    · exact .inl (by rw [h1, h])
    · exact .inr (.inl ⟨ho, m, body, by rw [h1, h], hb⟩)

theorem holds_iff (l : Lock) (i : Nat) : l.holds i ↔ (l.writer = some i ∨ i ∈ l.readers) := Iff.rfl

theorem Inv.step_acq {s0 : σ} {sys : Nat → Thread σ ℓ} {c c' : Config σ ℓ} (I : Inv s0 sys c) (i : Nat)
    (m : Mode) (body : List (Act σ ℓ)) (ho : i ∉ c.order)
    (hcode : (c.ths i).code = .acq m :: (body.map .act ++ [.rel])) (hb : BodyOk m body)
    (hs : step? c i = some c') : Inv s0 sys c' := by
  have hfree := I.fresh i ho
  have hA2 : (seqExec c.order (s0, sys)).2 i = c.ths i := by
    rw [seqExec_other _ _ _ ho, hfree.1]
  cases m with
  | w =>
    simp only [step?, hcode] at hs
    split at hs
    · rename_i hl
      obtain ⟨hw, hr⟩ := hl
      injection hs with hs
      subst hs
      have hnh : ∀ j, ¬ c.lock.holds j := by
        intro j hj; rcases hj with hj | hj
        · rw [hw] at hj; cases hj
        · rw [hr] at hj; cases hj
      refine { wf := I.wf, nodup := ?_, rnodup := by simp, excl := by simp, fresh := ?_, idle := ?_, shape := ?_, absLoc := ?_, absSh := ?_ }
      · exact List.nodup_append.mpr ⟨I.nodup, by simp, by intro a ha b hb; simp at hb; subst hb; intro h; subst h; exact ho ha⟩
      · intro j hj
        simp only [List.mem_append, List.mem_singleton, not_or] at hj
        refine ⟨?_, ?_⟩
        · simp only [upd_other _ _ hj.2]; exact (I.fresh j hj.1).1
        · intro h; rcases h with h | h
          · simp at h; exact hj.2 h.symm
          · simp at h
      · intro j hj hnj
        have hji : j ≠ i := by
          intro h; subst h; exact hnj (Or.inl rfl)
        simp only [List.mem_append, List.mem_singleton] at hj
        rcases hj with hj | hj
        · simp only [upd_other _ _ hji]; exact I.idle j hj (hnh j)
        · exact absurd hj hji
      · intro j hj
        have hji : j = i := by
          rcases hj with h | h
          · simp at h; exact h.symm
          · simp at h
        subst hji
        refine ⟨body, by simp, ?_⟩
        simpa using hb
      · intro j hj
        simp only [List.mem_append, List.mem_singleton] at hj
        rw [seqExec_append]
        by_cases hji : j = i
        · subst hji
          simp only [execAtomic, upd_same, hA2, hcode, runActs_acq]
          rw [I.absSh, hw]
        · have hjo : j ∈ c.order := by rcases hj with h | h; exact h; exact absurd h hji
          rw [execAtomic_other _ hji]
          simp only [upd_other _ _ hji]
          exact I.absLoc j hjo
      · rw [seqExec_append]
        simp only [execAtomic, upd_same, hA2, hcode, runActs_acq]
        rw [I.absSh, hw]
    · cases hs
  | r =>
    simp only [step?, hcode] at hs
    split at hs
    · rename_i hw
      injection hs with hs
      subst hs
      have hpure : ∀ l, (runActs (body.map .act ++ [.rel]) (c.sh, l)).1 = c.sh :=
        fun l => runActs_pure body (hb.2 rfl) hb.1 c.sh l
      refine { wf := I.wf, nodup := ?_, rnodup := ?_, excl := by simp, fresh := ?_, idle := ?_, shape := ?_, absLoc := ?_, absSh := ?_ }
      · exact List.nodup_append.mpr ⟨I.nodup, by simp, by intro a ha b hb; simp at hb; subst hb; intro h; subst h; exact ho ha⟩
      · exact List.nodup_cons.mpr ⟨fun h => hfree.2 (Or.inr h), I.rnodup⟩
      · intro j hj
        simp only [List.mem_append, List.mem_singleton, not_or] at hj
        refine ⟨?_, ?_⟩
        · simp only [upd_other _ _ hj.2]; exact (I.fresh j hj.1).1
        · intro h; rcases h with h | h
          · simp at h
          · simp only [List.mem_cons] at h
            rcases h with h | h
            · exact hj.2 h
            · exact (I.fresh j hj.1).2 (Or.inr h)
      · intro j hj hnj
        have hji : j ≠ i := by
          intro h; subst h; exact hnj (Or.inr (by simp))
        simp only [List.mem_append, List.mem_singleton] at hj
        rcases hj with hj | hj
        · simp only [upd_other _ _ hji]
          apply I.idle j hj
          intro h; apply hnj
          rcases h with h | h
          · rw [hw] at h; cases h
          · exact Or.inr (by simp [h])
        · exact absurd hj hji
      · intro j hj
        by_cases hji : j = i
        · subst hji
          refine ⟨body, by simp, ?_⟩
          simpa using hb
        · have hjr : c.lock.holds j := by
            rcases hj with h | h
            · simp at h
            · simp only [List.mem_cons] at h
              rcases h with h | h
              · exact absurd h hji
              · exact Or.inr h
          obtain ⟨b, hb1, hb2⟩ := I.shape j hjr
          refine ⟨b, by simp only [upd_other _ _ hji]; exact hb1, ?_⟩
          simpa [hw] using hb2
      · intro j hj
        simp only [List.mem_append, List.mem_singleton] at hj
        rw [seqExec_append]
        by_cases hji : j = i
        · subst hji
          simp only [execAtomic, upd_same, hA2, hcode, runActs_acq]
          rw [I.absSh, hw]
        · have hjo : j ∈ c.order := by rcases hj with h | h; exact h; exact absurd h hji
          rw [execAtomic_other _ hji]
          simp only [upd_other _ _ hji]
          exact I.absLoc j hjo
      · rw [seqExec_append]
        simp only [execAtomic, hA2, hcode, runActs_acq]
        rw [I.absSh, hw]
        exact hpure _
    · cases hs

/-- a holder's step: its code is `body ++ [rel]` -/
theorem Inv.step_hold {s0 : σ} {sys : Nat → Thread σ ℓ} {c c' : Config σ ℓ} (I : Inv s0 sys c) (i : Nat)
    (body : List (Act σ ℓ)) (hh : c.lock.holds i)
    (hcode : (c.ths i).code = body.map .act ++ [.rel])
    (hb : BodyOk (if c.lock.writer = some i then .w else .r) body)
    (hs : step? c i = some c') : Inv s0 sys c' := by
  have hio : i ∈ c.order := I.holds_mem hh
  cases body with
  | nil =>
    -- release
    simp only [List.map_nil, List.nil_append] at hcode
    simp only [step?, hcode] at hs
    split at hs
    · -- writer releases
      rename_i hw
      injection hs with hs
      subst hs
      have hr : c.lock.readers = [] := I.excl i hw
      have hnh : ∀ j, ¬ (Lock.mk none c.lock.readers).holds j := by
        intro j hj; rcases hj with hj | hj
        · cases hj
        · rw [hr] at hj; cases hj
      have hnot : ∀ j, j ≠ i → ¬ c.lock.holds j := by
        intro j hji hj; rcases hj with hj | hj
        · rw [hw] at hj; injection hj with hj; exact hji hj.symm
        · rw [hr] at hj; cases hj
      refine { wf := I.wf, nodup := I.nodup, rnodup := I.rnodup, excl := by simp, fresh := ?_, idle := ?_, shape := ?_, absLoc := ?_, absSh := ?_ }
      · intro j hj
        have hji : j ≠ i := fun h => hj (h ▸ hio)
        exact ⟨by simp only [upd_other _ _ hji]; exact (I.fresh j hj).1, hnh j⟩
      · intro j hj _
        by_cases hji : j = i
        · subst hji; simp
        · simp only [upd_other _ _ hji]; exact I.idle j hj (hnot j hji)
      · intro j hj; exact absurd hj (hnh j)
      · intro j hj
        by_cases hji : j = i
        · subst hji
          have := I.absLoc j hj
          simp only [hcode, runActs_rel, runActs_nil] at this
          simpa using this
        · simp only [upd_other _ _ hji]; exact I.absLoc j hj
      · have := I.absSh
        simp only [hw, hcode, runActs_rel, runActs_nil] at this
        simpa using this
    · split at hs
      · -- reader releases
        rename_i hnw hr
        injection hs with hs
        subst hs
        have hwn : c.lock.writer = none := by
          cases hw : c.lock.writer with
          | none => rfl
          | some w => have := I.excl w hw; rw [this] at hr; cases hr
        have hmem : ∀ j, j ∈ c.lock.readers.erase i ↔ j ≠ i ∧ j ∈ c.lock.readers := fun j => I.rnodup.mem_erase_iff
        refine { wf := I.wf, nodup := I.nodup, rnodup := I.rnodup.erase i, excl := ?_, fresh := ?_, idle := ?_, shape := ?_, absLoc := ?_, absSh := ?_ }
        · intro w hw; simp only [hwn] at hw; cases hw
        · intro j hj
          have hji : j ≠ i := fun h => hj (h ▸ hio)
          refine ⟨by simp only [upd_other _ _ hji]; exact (I.fresh j hj).1, ?_⟩
          intro h; rcases h with h | h
          · simp only [hwn] at h; cases h
          · exact (I.fresh j hj).2 (Or.inr ((hmem j).mp h).2)
        · intro j hj hnj
          by_cases hji : j = i
          · subst hji; simp
          · simp only [upd_other _ _ hji]
            apply I.idle j hj
            intro h; apply hnj
            rcases h with h | h
            · rw [hwn] at h; cases h
            · exact Or.inr ((hmem j).mpr ⟨hji, h⟩)
        · intro j hj
          have hj' : j ≠ i ∧ j ∈ c.lock.readers := by
            rcases hj with h | h
            · simp only [hwn] at h; cases h
            · exact (hmem j).mp h
          obtain ⟨b, hb1, hb2⟩ := I.shape j (Or.inr hj'.2)
          exact ⟨b, by simp only [upd_other _ _ hj'.1]; exact hb1, by simpa [hwn] using hb2⟩
        · intro j hj
          by_cases hji : j = i
          · subst hji
            have := I.absLoc j hj
            simp only [hcode, runActs_rel, runActs_nil] at this
            simpa using this
          · simp only [upd_other _ _ hji]; exact I.absLoc j hj
        · have := I.absSh
          simp only [hwn] at this
          simpa [hwn] using this
      · cases hs
  | cons a body =>
    simp only [List.map_cons, List.cons_append] at hcode
    simp only [step?, hcode] at hs
    injection hs with hs
    subst hs
    have hbt : BodyOk (if c.lock.writer = some i then .w else .r) body :=
      ⟨fun x hx => hb.1 x (by simp [hx]), fun h x hx => hb.2 h x (by simp [hx])⟩
    by_cases hw : c.lock.writer = some i
    · -- the writer acts
      have hr : c.lock.readers = [] := I.excl i hw
      have hnot : ∀ j, j ≠ i → ¬ c.lock.holds j := by
        intro j hji hj; rcases hj with hj | hj
        · rw [hw] at hj; injection hj with hj; exact hji hj.symm
        · rw [hr] at hj; cases hj
      refine { wf := I.wf, nodup := I.nodup, rnodup := I.rnodup, excl := I.excl, fresh := ?_, idle := ?_, shape := ?_, absLoc := ?_, absSh := ?_ }
      · intro j hj
        have hji : j ≠ i := fun h => hj (h ▸ hio)
        exact ⟨by simp only [upd_other _ _ hji]; exact (I.fresh j hj).1, (I.fresh j hj).2⟩
      · intro j hj hnj
        have hji : j ≠ i := fun h => hnj (h ▸ hh)
        simp only [upd_other _ _ hji]; exact I.idle j hj hnj
      · intro j hj
        by_cases hji : j = i
        · subst hji; exact ⟨body, by simp, hbt⟩
        · exact absurd hj (hnot j hji)
      · intro j hj
        by_cases hji : j = i
        · subst hji
          have := I.absLoc j hj
          simp only [hcode, runActs_act] at this
          simpa using this
        · have hc : (c.ths j).code = [] := I.idle j hj (hnot j hji)
          have := I.absLoc j hj
          simp only [hc, runActs_nil] at this
          simp only [upd_other _ _ hji, hc, runActs_nil]
          exact this
      · have := I.absSh
        simp only [hw, hcode, runActs_act] at this
        simpa [hw] using this
    · -- a reader acts: the shared state does not change
      have hir : i ∈ c.lock.readers := by
        rcases hh with h | h
        · exact absurd h hw
        · exact h
      have hwn : c.lock.writer = none := by
        cases hw' : c.lock.writer with
        | none => rfl
        | some w => have := I.excl w hw'; rw [this] at hir; cases hir
      have hmode : (if c.lock.writer = some i then Mode.w else Mode.r) = .r := by simp [hw]
      have hpure : (a.run c.sh (c.ths i).loc).1 = c.sh := by
        have h1 := hb.1 a (by simp)
        have h2 := hb.2 hmode a (by simp)
        exact h1 h2 _ _
      refine { wf := I.wf, nodup := I.nodup, rnodup := I.rnodup, excl := I.excl, fresh := ?_, idle := ?_, shape := ?_, absLoc := ?_, absSh := ?_ }
      · intro j hj
        have hji : j ≠ i := fun h => hj (h ▸ hio)
        exact ⟨by simp only [upd_other _ _ hji]; exact (I.fresh j hj).1, (I.fresh j hj).2⟩
      · intro j hj hnj
        have hji : j ≠ i := fun h => hnj (h ▸ hh)
        simp only [upd_other _ _ hji]; exact I.idle j hj hnj
      · intro j hj
        by_cases hji : j = i
        · subst hji; exact ⟨body, by simp, hbt⟩
        · obtain ⟨b, hb1, hb2⟩ := I.shape j hj
          exact ⟨b, by simp only [upd_other _ _ hji]; exact hb1, hb2⟩
      · intro j hj
        by_cases hji : j = i
        · subst hji
          have := I.absLoc j hj
          simp only [hcode, runActs_act] at this
          simpa using this
        · simp only [upd_other _ _ hji, hpure]; exact I.absLoc j hj
      · have := I.absSh
        simp only [hwn] at this
        simp only [hwn, hpure]
        exact this

/-- the invariant is preserved by every step -/
theorem Inv.step {s0 : σ} {sys : Nat → Thread σ ℓ} {c c' : Config σ ℓ} (I : Inv s0 sys c) (hs : Step c c') :
    Inv s0 sys c' := by
  obtain ⟨i, hs⟩ := hs
  rcases I.head_cases i with h | ⟨ho, m, body, hc, hb⟩ | ⟨hh, body, hc, hb⟩
  · simp [step?, h] at hs
  · exact I.step_acq i m body ho hc hb hs
  · exact I.step_hold i body hh hc hb hs

/-- the invariant holds in every configuration reachable from the initial one -/
theorem Inv.reach {s0 : σ} {sys : Nat → Thread σ ℓ} (wf : ∀ i, WellFormed (sys i).code) {c : Config σ ℓ}
    (h : Reach (Monitor.init s0 sys) c) : Inv s0 sys c := by
  induction h with
  | refl => exact Inv.init s0 sys wf
  | tail _ s ih => exact ih.step s

/-- a step shortens the stepping thread's code by one instruction and leaves the other threads alone -/
theorem step?_code {c c' : Config σ ℓ} {i : Nat} (h : step? c i = some c') :
    (c'.ths i).code.length + 1 = (c.ths i).code.length ∧ ∀ j, j ≠ i → c'.ths j = c.ths j := by
  unfold step? at h
  split at h
  · cases h
  · rename_i rest hc
    split at h
    · injection h with h; subst h; simp [hc]; intro j hj; exact upd_other _ _ hj
    · cases h
  · rename_i rest hc
    split at h
    · injection h with h; subst h; simp [hc]; intro j hj; exact upd_other _ _ hj
    · cases h
  · rename_i rest hc
    split at h
    · injection h with h; subst h; simp [hc]; intro j hj; exact upd_other _ _ hj
    · split at h
      · injection h with h; subst h; simp [hc]; intro j hj; exact upd_other _ _ hj
      · cases h
  · rename_i a rest hc
    injection h with h; subst h; simp [hc]; intro j hj; exact upd_other _ _ hj

theorem sum_map_lt (l : List Nat) (f g : Nat → Nat) (i : Nat) (hi : i ∈ l) (hnd : l.Nodup)
    (hlt : g i < f i) (heq : ∀ j, j ≠ i → g j = f j) : (l.map g).sum < (l.map f).sum := by
  induction l with
  | nil => cases hi
  | cons a l ih =>
    simp only [List.map_cons, List.sum_cons]
    have hnd' := List.nodup_cons.mp hnd
    by_cases ha : a = i
    · subst ha
      have : (l.map g).sum = (l.map f).sum := by
        congr 1
        apply List.map_congr_left
        intro j hj
        exact heq j (fun h => hnd'.1 (h ▸ hj))
      omega
    · have hil : i ∈ l := by
        rcases List.mem_cons.mp hi with h | h
        · exact absurd h.symm ha
        · exact h
      have := ih hil hnd'.2
      have := heq a ha
      omega

/-- every step consumes one instruction: executions of `n` threads are finite -/
theorem step_remaining (n : Nat) {c c' : Config σ ℓ} (hb : ∀ i, n ≤ i → (c.ths i).code = []) (h : Step c c') :
    remaining n c' < remaining n c ∧ ∀ i, n ≤ i → (c'.ths i).code = [] := by
  obtain ⟨i, hs⟩ := h
  obtain ⟨h1, h2⟩ := step?_code hs
  have hin : i < n := by
    apply Classical.byContradiction
    intro hge
    have := hb i (by omega)
    rw [this] at h1
    simp at h1
  refine ⟨?_, ?_⟩
  · unfold remaining
    apply sum_map_lt (List.range n) _ _ i (List.mem_range.mpr hin) List.nodup_range
    · omega
    · intro j hj; rw [h2 j hj]
  · intro j hj
    have : j ≠ i := by omega
    rw [h2 j this]; exact hb j hj

/-- Re-entry: a thread that is the writer and whose next instruction is an acquire never moves again, and
the lock is never released — in every continuation, whatever the other threads do. -/
theorem self_deadlock {c : Config σ ℓ} {i : Nat} {m : Mode} {rest : Code σ ℓ}
    (hw : c.lock.writer = some i) (hc : (c.ths i).code = .acq m :: rest) :
    ∀ c', Reach c c' → c'.lock.writer = some i ∧ (c'.ths i).code = .acq m :: rest := by
  intro c' h
  induction h with
  | refl => exact ⟨hw, hc⟩
  | tail _ s ih =>
    rename_i b c2
    obtain ⟨hw', hc'⟩ := ih
    obtain ⟨j, hs⟩ := s
    by_cases hji : j = i
    · subst hji
      exfalso
      cases m <;> simp [step?, hc', hw'] at hs
    · have hother := (step?_code hs).2 i (fun h => hji h.symm)
      refine ⟨?_, by rw [hother]; exact hc'⟩
      unfold step? at hs
      split at hs
      · cases hs
      · split at hs
        · rename_i hfree; rw [hw'] at hfree; cases hfree.1
        · cases hs
      · split at hs
        · rename_i hfree; rw [hw'] at hfree; cases hfree
        · cases hs
      · split at hs
        · rename_i hwj; rw [hw'] at hwj; injection hwj with hwj; exact absurd hwj.symm hji
        · split at hs
          · injection hs with hs; subst hs; exact hw'
          · cases hs
      · injection hs with hs; subst hs; exact hw'

end Zrnt.Conc.Monitor
